package main

import (
	"flag"
	"fmt"
	"os"
	"path/filepath"
	"sort"
	"strconv"

	"mpcverif/internal/load"
	"mpcverif/internal/props"
	"mpcverif/internal/report"
)

type propDef struct {
	level string
	run   func(*load.Program, *report.Run)
}

// extras registers rules under a property with a descriptive key (Cxx:name); `-prop Cxx:name` runs one alone.
func init() {
	for _, e := range []struct {
		prop, name string
		run        func(*load.Program, *report.Run)
	}{
		{"C05", "bufviews", props.BufViews},
		{"C01", "bufviews", props.BufViews},
		{"C11", "bufviews", props.BufViews},
		{"C10", "bufviews", props.BufViews},
		{"C02", "bufviews", props.BufViews},
		{"C13", "msb", props.C13msb},
		{"C04", "gatewires", props.C14valid},
		{"C04", "seencontract", props.C14seenContract},
		{"C15", "otpairs", props.C06duality},
		{"C20", "otpairs", props.C06duality},
		{"C01", "roles", props.C02},
		{"C03", "constname", props.ConstName},
		{"C12", "constname", props.ConstName},
		{"C08", "constname", props.ConstName},
		{"C12", "registered", props.C12registered},
		{"C12", "width", props.C12width},
		{"C12", "shiftcount", props.C12shift},
		{"C16", "descriptor", props.C16descriptor},
		{"C14", "seencontract", props.C14seenContract},
		{"C05", "native", props.C05native},
		{"C04", "native", props.C05native},
		{"C12", "signdiff", props.C12signDiff},
		{"C12", "operands", props.C12usesOperands},
		{"C02", "honestlen", props.C06honest},
		{"C06", "honestlen", props.C06honest},
		{"C20", "honestlen", props.C06honest},
		{"C15", "honestlen", props.C06honest},
		{"C15", "deltabits", props.DeltaBitsFromDelta},
		{"C06", "deltabits", props.DeltaBitsFromDelta},
		{"C11", "selectdrain", props.SelectDrain("p2p", "ot")},
		{"C11", "unsafeview", props.UnsafeFirst},
		{"C03", "precedence", props.C03prec},
		{"C13", "bytes", props.C13bytes},
		{"C07", "adder", props.C07adder},
		{"C05", "adder", props.C07adder},
		{"C04", "adder", props.C07adder},
		{"C01", "halfgate", props.HalfGateModel},
		{"C17", "halfgate", props.HalfGateModel},
		{"C17", "evalreadonly", props.EvalReadsTablesOnly},
		{"C01", "evalreadonly", props.EvalReadsTablesOnly},
		{"C17", "garble", props.C01},
		{"C17", "offset", props.C01offset},
		{"C17", "entropy", props.C17entropy},
		{"C18", "puts", props.C17puts},
		{"C12", "signedread", props.SignedReads},
		{"C12", "boundvalue", props.BoundValueIsNamedValue},
		{"C03", "boundvalue", props.BoundValueIsNamedValue},
		{"C03", "signedread", props.SignedReads},
		{"C09", "levels", props.LevelsKeepOrder},
		{"C09", "deadoutput", props.DeadNotOutput},
		{"C05", "deadoutput", props.DeadNotOutput},
		{"C05", "streamarms", props.StreamGetSetArms},
		{"C01", "streamarms", props.StreamGetSetArms},
		{"C10", "deadoutput", props.DeadNotOutput},
		{"C10", "levels", props.LevelsKeepOrder},
		{"C20", "voleext", props.VoleExtensionCounts},
		{"C20", "globalbuf", props.GlobalBufferNotReturned("vole", "ot", "ot/mpint", "p2p")},
		{"C17", "globalbuf", props.GlobalBufferNotReturned("vole", "ot", "ot/mpint", "p2p", "circuit")},
		{"C14", "seenorder", props.SeenOrder},
		{"C20", "lostfield", props.LostFieldUpdates("ot", "vole", "bmr")},
		{"C06", "lostfield", props.LostFieldUpdates("ot")},
		{"C02", "lostfield", props.LostFieldUpdates("ot", "circuit", "p2p")},
		{"C10", "lostfield", props.LostFieldUpdates("gmw", "p2p")},
		{"C03", "truncmul", props.TruncatedProducts("compiler/mpa", "compiler/ast", "compiler/ssa")},
		{"C03", "scratchlist", props.ScratchListedTwice("compiler/ssa", "compiler/circuits", "compiler/ast", "circuit")},
		{"C05", "scratchlist", props.ScratchListedTwice("compiler/ssa", "compiler/circuits", "compiler/ast", "circuit")},
		{"C12", "truncmul", props.TruncatedProducts("compiler/mpa", "compiler/ast", "compiler/ssa")},
		{"C20", "truncmul", props.TruncatedProducts("vole", "bmr", "ot/mpint")},
		{"C13", "splitbits", props.SplitBits},
		{"C01", "splitbits", props.SplitBits},
		{"C02", "splitbits", props.SplitBits},
		{"C05", "splitbits", props.SplitBits},
		{"C10", "splitbits", props.SplitBits},
		{"C11", "directwrite", props.TransportWriteExclusive},
		{"C11", "lockduplex", props.C11lock},
		{"C11", "bufferdrop", props.BufferedBytesKept},
		{"C19", "bufferdrop", props.BufferedBytesKept},
		{"C04", "constbalance", props.ConstBalance},
		{"C03", "constbalance", props.ConstBalance},
		{"C05", "constbalance", props.ConstBalance},
		{"C10", "narrowcounter", props.NarrowCounters("gmw", "circuit")},
		{"C06", "retained", props.RetainedCallerSlices("ot")},
		{"C06", "extrows", props.OTExtensionCounts},
		{"C06", "rolestate", props.OTRoleState},
		{"C06", "rsamask", props.RSAMaskDomain},
		{"C02", "rsamask", props.RSAMaskDomain},
		{"C02", "extrows", props.OTExtensionCounts},
		{"C18", "retained", props.RetainedCallerSlices("ot", "sha2pc")},
		{"C13", "hexwidth", props.HexWidthAgreement},
		{"C13", "typetext", props.C14types},
		{"C13", "oneshift", props.OneShiftBounded("circuit", "types")},
		{"C17", "sharedtable", props.MemoSyncMaps("circuit", "ot", "p2p", "gmw", "compiler/ssa", "compiler/circuits", "compiler/mpa", "compiler/ast", "compiler")},
		{"C08", "searchorder", props.SearchOrderConfigured},
		{"C08", "sharedinfo", props.SharedInfoImmutable},
		{"C08", "sharedtable", props.MemoSyncMaps("compiler/ssa", "compiler/circuits", "compiler/mpa", "compiler/ast", "compiler", "circuit")},
		{"C16", "garble", props.C01},
		{"C18", "garble", props.C01},
		{"C14", "constindex", props.ConstIndexGuarded("types", "circuit", "compiler/ast", "compiler")},
		{"C08", "reslice", props.ResliceGrowth},
		{"C17", "reslice", props.ResliceGrowth},
		{"C11", "narrowsend", props.NarrowSends},
		{"C05", "narrowsend", props.NarrowSends},
		{"C11", "fillbound", props.FillWithinBuffer},
		{"C19", "fillbound", props.FillWithinBuffer},
		{"C15", "swapped", props.SwappedArgs("ot", "circuit", "vole", "bmr", "gmw", "p2p", "sha2pc", "compiler", "compiler/ssa", "compiler/ast", "compiler/circuits")},
		{"C06", "swapped", props.SwappedArgs("ot", "vole", "bmr")},
		{"C02", "swapped", props.SwappedArgs("ot", "circuit")},
		{"C09", "adder", props.C07adder},
		{"C03", "adder", props.C07adder},
		{"C19", "notify", props.NotifyBuffered("p2p")},
		{"C10", "notify", props.NotifyBuffered("gmw", "p2p")},
		{"C10", "needspace", props.NeedSpaceBounded},
		{"C11", "needspace", props.NeedSpaceBounded},
		{"C05", "needspace", props.NeedSpaceBounded},
		{"C01", "needspace", props.NeedSpaceBounded},
		{"C02", "needspace", props.NeedSpaceBounded},
	} {
		registry[e.prop+":"+e.name] = propDef{"other", e.run}
	}
}

var registry = map[string]propDef{
	"C01":  {"proof", props.C01},
	"C01o": {"proof", props.C01offset},
	"C02":  {"other", props.C02},
	"C02b": {"other", props.C02bits},
	"C02r": {"other", props.C02ranges},
	"C03":  {"other", props.C03},
	"C03c": {"other", props.C03ctors},
	"C04":  {"other", props.C04},
	"C04t": {"other", props.C04tweak},
	"C04e": {"other", props.C04errtext},
	"C04j": {"other", props.GateHelpers},
	"C04s": {"other", props.C04rand},
	"C04g": {"other", props.C04rows},
	"C04o": {"other", props.C01offset},
	"C05o": {"other", props.C01offset},
	"C05q": {"other", props.C05outputs},
	"C05a": {"other", props.C05walloc},
	"C05y": {"other", props.C05aliasphase},
	"C05r": {"other", props.C05recycle},
	"C05l": {"other", props.C05alias},
	"C05d": {"other", props.C05dispatch},
	"C05f": {"other", props.C05forms},
	"C05w": {"other", props.C05wiring},
	"C05h": {"other", props.C05header},
	"C05c": {"other", props.C05cache},
	"C05s": {"other", props.C05session},
	"C06d": {"other", props.C06duality},
	"C10d": {"other", props.C10duality},
	"C10l": {"other", props.C10local},
	"C10b": {"other", props.C10beaver},
	"C10t": {"other", props.C10triples},
	"C10s": {"other", props.C10shares},
	"C10m": {"other", props.C10mesh},
	"C10o": {"other", props.C10levels},
	"C10r": {"other", props.C10mirror},
	"C10v": {"other", props.C10bitvec},
	"C10k": {"other", props.C10take},
	"C10p": {"other", props.C06pack},
	"C10g": {"other", props.C10opening},
	"C10w": {"other", props.C10setwires},
	"C19d": {"other", props.C19duality},
	"C18g": {"other", props.C18guards},
	"C18a": {"other", props.C18canon},
	"C18o": {"other", props.C18points},
	"C18e": {"other", props.LoopErrors},
	"C16e": {"other", props.LoopErrors},
	"C04l": {"other", props.LoopErrors},
	"C01e": {"other", props.LoopErrors},
	"C02l": {"other", props.LoopErrors},
	"C18w": {"other", props.C18widths},
	"C18r": {"other", props.C18rows},
	"C18f": {"other", props.C18fields},
	"C18y": {"other", props.C18layout},
	"C19m": {"other", props.C19mesh},
	"C19s": {"other", props.C19setconn},
	"C19w": {"other", props.C19wait},
	"C19k": {"other", props.Wakers("p2p")},
	"C19c": {"other", props.C19closed},
	"C14p": {"other", props.PoolResets},
	"C17r": {"other", props.PoolResets},
	"C06v": {"other", props.RecvViews("ot", "vole", "bmr")},
	"C15v": {"other", props.RecvViews("ot")},
	"C20v": {"other", props.RecvViews("ot", "vole", "bmr")},
	"C02v": {"other", props.RecvViews("ot", "circuit")},
	"C19t": {"other", props.Deadlines("p2p")},
	"C10u": {"other", props.Deadlines("gmw", "p2p")},
	"C10y": {"other", props.Wakers("gmw")},
	"C19o": {"other", props.C19shift},
	"C10z": {"other", props.C19shift},
	"C20":  {"other", props.C20transport},
	"C20a": {"other", props.C20arith},
	"C20r": {"other", props.C20rounding},
	"C06g": {"other", props.C06geom},
	"C06m": {"other", props.C06mitccrh},
	"C06k": {"other", props.C06kdf},
	"C06p": {"other", props.C06pack},
	"C06e": {"other", props.C06seed},
	"C06i": {"other", props.C06kept},
	"C02i": {"other", props.C06kept},
	"C10i": {"other", props.C10kept},
	"C20i": {"other", props.C20kept},
	"C20p": {"other", props.C06pack},
	"C20o": {"other", props.C06kept},
	"C17i": {"other", props.C17kept},
	"C05i": {"other", props.C17kept},
	"C05j": {"other", props.C05kept},
	"C11i": {"other", props.C11kept},
	"C18i": {"other", props.C18kept},
	"C06w": {"other", props.OTwindows},
	"C15w": {"other", props.OTwindows},
	"C15g": {"other", props.C06geom},
	"C15s": {"other", props.C06prg},
	"C15p": {"other", props.C06pack},
	"C02w": {"other", props.OTwindows},
	"C02k": {"other", props.C06kdf},
	"C02m": {"other", props.C06mitccrh},
	"C02t": {"other", props.C11table},
	"C02f": {"other", props.C11fill},
	"C02e": {"other", props.C11data},
	"C03w": {"other", props.C05wiring},
	"C03r": {"other", props.C03rewrite},
	"C03p": {"other", props.C03parallel},
	"C03l": {"other", props.C03lrvalue},
	"C12r": {"other", props.C03rewrite},
	"C12o": {"other", props.C12outputs},
	"C12g": {"other", props.C12guards},
	"C12u": {"other", props.C12operands},
	"C04r": {"other", props.C02ranges},
	"C04w": {"other", props.C05wiring},
	"C06s": {"other", props.C06prg},
	"C18p": {"other", props.C18pack},
	"C18n": {"other", props.C18length},
	"C18m": {"other", props.C18limit},
	"C07":  {"other", props.C07},
	"C07b": {"other", props.C07bitwise},
	"C07p": {"other", props.C07prefix},
	"C07h": {"other", props.C07hamming},
	"C07i": {"other", props.C07index},
	"C07c": {"other", props.ConstLoops},
	"C09c": {"other", props.ConstLoops},
	"C09n": {"other", props.C09narrow},
	"C07d": {"other", props.C07dividers},
	"C09d": {"other", props.C07dividers},
	"C07e": {"other", props.BuilderErrors},
	"C09e": {"other", props.BuilderErrors},
	"C07g": {"other", props.GateHelpers},
	"C03g": {"other", props.GateHelpers},
	"C09p": {"other", props.C07prefix},
	"C08":  {"other", props.C08},
	"C08d": {"other", props.C08dirs},
	"C08p": {"other", props.C08params},
	"C08k": {"other", props.C08compare},
	"C08j": {"other", props.SpawnsJoined},
	"C08m": {"other", props.MemoKeys},
	"C12m": {"other", props.MemoKeys},
	"C09":  {"other", props.C09},
	"C09g": {"other", props.C09guards},
	"C11t": {"other", props.C11table},
	"C11d": {"other", props.C11data},
	"C11c": {"other", props.C11composite},
	"C11f": {"other", props.C11fill},
	"C11x": {"other", props.C11duplex},
	"C11e": {"other", props.C11readerr},
	"C02x": {"other", props.C11duplex},
	"C12":  {"other", props.C12},
	"C13":  {"other", props.C13},
	"C13p": {"other", props.C13parse},
	"C13s": {"other", props.C13sizes},
	"C13h": {"other", props.C13shared},
	"C13b": {"other", props.C13scan},
	"C13o": {"other", props.C13offsets},
	"C13f": {"other", props.C13fresh},
	"C13c": {"other", props.C13clear},
	"C13e": {"other", props.C13ext},
	"C13a": {"other", props.C13array},
	"C17":  {"other", props.C17},
	"C17p": {"other", props.C17pool},
	"C02o": {"other", props.C17pool},
	"C17h": {"other", props.C17handle},
	"C17x": {"other", props.C17explicit},
	"C17u": {"other", props.C17puts},
	"C01u": {"other", props.C17puts},
	"C01k": {"other", props.C17kept},
	"C01l": {"proof", props.C01labels},
	"C04h": {"other", props.C17handle},
	"C18h": {"other", props.C17handle},
	"C14v": {"other", props.C14valid},
	"C14d": {"other", props.C14depth},
	"C14k": {"other", props.C14seen},
	"C02s": {"other", props.C14seen},
	"C14x": {"other", props.C14typetext},
	"C14t": {"other", props.C14types},
	"C14b": {"other", props.C14bristol},
	"C14g": {"other", props.C14gaterecord},
	"C14s": {"other", props.C14siblings},
	"C15":  {"other", props.C15},
	"C15c": {"other", props.C15chi},
	"C16":  {"other", props.C16},
	"C16l": {"other", props.C16label},
	"C16s": {"other", props.PackShifts},
	"C06h": {"other", props.PackShifts},
	"C10h": {"other", props.PackShifts},
	"C18s": {"other", props.PackShifts},
	"C20s": {"other", props.PackShifts},
	"C15h": {"other", props.PackShifts},
	"C15x": {"other", props.WordExact},
	"C15d": {"other", props.DeadErrors("ot")},
	"C15k": {"other", props.KeptAccumulators("ot")},
	"C06z": {"other", props.KeptAccumulators("ot")},
	"C10n": {"other", props.KeptAccumulators("gmw", "ot")},
	"C20k": {"other", props.KeptAccumulators("vole", "bmr", "ot")},
	"C16d": {"other", props.DeadErrors("circuit", "compiler/ssa", "ot")},
	"C02d": {"other", props.DeadErrors("circuit", "ot", "p2p")},
	"C06y": {"other", props.DeadErrors("ot")},
	"C18d": {"other", props.DeadErrors("sha2pc", "ot")},
	"C11y": {"other", props.DeadErrors("p2p")},
	"C19y": {"other", props.DeadErrors("p2p")},
	"C10e": {"other", props.DeadErrors("gmw")},
	"C10q": {"other", props.RecvBytes("gmw")},
	"C02y": {"other", props.RecvBytes("circuit", "compiler/ssa", "ot")},
	"C16y": {"other", props.RecvBytes("circuit", "compiler/ssa")},
	"C14e": {"other", props.DeadErrors("circuit", "types")},
	"C20d": {"other", props.DeadErrors("vole", "bmr", "ot")},
	"C02a": {"other", props.CallerSlices},
	"C01h": {"other", props.C17handle},
	"C02h": {"other", props.C17handle},
	"C18k": {"other", props.C06kdf},
	"C18q": {"other", props.CallerSlices},
	"C02p": {"other", props.C06pack},
	"C02g": {"other", props.C06geom},
	"C02q": {"other", props.C06prg},
	"C02j": {"other", props.PackShifts},
	"C06a": {"other", props.CallerSlices},
	"C04a": {"other", props.CallerSlices},
	"C15a": {"other", props.CallerSlices},
	"C20c": {"other", props.CallerSlices},
	"C03f": {"other", props.C05dispatch},
	"C03h": {"other", props.C07prefix},
	"C06x": {"other", props.WordExact},
	"C01x": {"other", props.WordExact},
	"C06r": {"other", props.C06rounding},
	"C14l": {"other", props.C14lints},
	"C14c": {"other", props.C14codec},
	"C18l": {"other", props.C18lints},
	"C18c": {"other", props.C18codec},
}

func main() {
	repo := flag.String("repo", "/repo", "repository under analysis")
	verif := flag.String("verif", "/verif", "verification directory (evidence, known findings)")
	prop := flag.String("prop", "", "property id")
	tier := flag.String("tier", "quick", "quick|thorough")
	goarch := flag.String("goarch", "", "GOARCH of the build configuration to analyse")
	tags := flag.String("tags", "", "build tags of the configuration to analyse")
	replayPath := flag.String("replay", "", "re-decide the obligation recorded in this violation file and print it")
	flag.Parse()
	if *prop == "ALL" {
		os.Exit(runAll(*repo, *verif, *tier, *goarch, *tags))
	}
	def, ok := registry[*prop]
	var group []string
	if !ok || len(*prop) == 3 {
		// a property id: all rule groups C05, C05a, C05b, ... run over one loaded program and report as one property
		for k := range registry {
			if len(k) >= 3 && k[:3] == *prop {
				group = append(group, k)
			}
		}
		sort.Strings(group)
		if len(group) == 0 {
			fmt.Fprintf(os.Stderr, "unknown property %q\n", *prop)
			os.Exit(2)
		}
		def = registry[group[0]]
		for _, k := range group {
			if registry[k].level == "proof" && len(group) == 1 {
				def.level = "proof"
			}
		}
	}
	props.Deep = *tier == "thorough"
	seed, _ := strconv.ParseInt(os.Getenv("VERIF_SEED"), 10, 64)
	run := report.New(*prop, *tier, def.level, seed)
	known, err := report.LoadKnown(filepath.Join(*verif, "known_findings.txt"))
	if err != nil {
		run.Undecided("known-findings", "known_findings.txt", "", err.Error())
	}
	replay := *replayPath
	exec := func(run *report.Run, arch string) bool {
		p, err := load.Load(load.Config{Dir: *repo, VTA: *tier == "thorough", GOARCH: arch, Tags: *tags})
		if err == nil {
			props.PrepareModels(p)
		}
		if err != nil {
			run.Undecided("load", *repo, "", err.Error())
			return false
		}
		run.Count("packages", len(p.Pkgs))
		defer func() {
			if r := recover(); r != nil {
				run.Undecided("engine-panic", *prop, "", fmt.Sprint(r))
			}
		}()
		if len(group) == 0 {
			def.run(p, run)
			return true
		}
		for _, k := range group {
			registry[k].run(p, run)
		}
		return true
	}
	ok2 := exec(run, *goarch)
	if ok2 && *tier == "thorough" && *goarch == "" && replay == "" {
		// the second build configuration of the thorough tier
		other := report.New(*prop, *tier, def.level, seed)
		exec(other, "arm64")
		run.Merge(other, "GOARCH=arm64")
	}
	if replay != "" {
		os.Exit(run.Replay(replay, known))
	}
	os.Exit(run.Finish(*verif, known))
}

// runAll decides every property over one loaded program (used by the self-test batteries: one load instead
// of twenty).  Each property reports into its own Run exactly as in the single-property mode.
func runAll(repo, verif, tier, goarch, tags string) int {
	props.Deep = tier == "thorough"
	known, kerr := report.LoadKnown(filepath.Join(verif, "known_findings.txt"))
	p, err := load.Load(load.Config{Dir: repo, VTA: tier == "thorough", GOARCH: goarch, Tags: tags})
	if err == nil {
		props.PrepareModels(p)
	}
	ids := map[string][]string{}
	for k := range registry {
		ids[k[:3]] = append(ids[k[:3]], k)
	}
	var order []string
	for id := range ids {
		order = append(order, id)
	}
	sort.Strings(order)
	exit := 0
	for _, id := range order {
		group := ids[id]
		sort.Strings(group)
		level := registry[group[0]].level
		run := report.New(id, tier, level, 0)
		if kerr != nil {
			run.Undecided("known-findings", "known_findings.txt", "", kerr.Error())
		}
		if err != nil {
			run.Undecided("load", repo, "", err.Error())
		} else {
			run.Count("packages", len(p.Pkgs))
			func() {
				defer func() {
					if r := recover(); r != nil {
						run.Undecided("engine-panic", id, "", fmt.Sprint(r))
					}
				}()
				for _, k := range group {
					registry[k].run(p, run)
				}
			}()
		}
		if rc := run.Finish(verif, known); rc > exit {
			exit = rc
		}
	}
	return exit
}
