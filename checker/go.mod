module mpcverif

go 1.26.8

require golang.org/x/tools v0.50.0

require (
	golang.org/x/mod v0.41.0 // indirect
	golang.org/x/sync v0.23.0 // indirect
)
