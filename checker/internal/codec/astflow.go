// Package codec extracts field sequences from structured encoder/decoder code
// (AST level) and compares writer against reader.
package codec

import (
	"fmt"
	"go/ast"
	"go/token"
	"go/types"
	"strings"

	"golang.org/x/tools/go/packages"

	"mpcverif/internal/load"
	"mpcverif/internal/proto"
)

// EventFn maps a call to the events it performs; handled=false lets the
// builder inline module functions.
type EventFn func(pkg *packages.Package, call *ast.CallExpr) (events []string, handled bool)

// Builder builds automata from function bodies.
type Builder struct {
	P     *load.Program
	Event EventFn
	// Literal maps a composite literal to events (e.g. a []interface{} of values written later in a loop).
	Literal func(pkg *packages.Package, lit *ast.CompositeLit) []string
	Sites   int
	Funcs   map[string]bool
	hasEv   map[*ast.FuncDecl]int
	recIdx  map[*ast.FuncDecl]int
	decls   map[*types.Func]declRef
}

type declRef struct {
	pkg *packages.Package
	fd  *ast.FuncDecl
}

// NewBuilder indexes the function declarations of the module.
func NewBuilder(p *load.Program, ev EventFn) *Builder {
	b := &Builder{P: p, Event: ev, Funcs: map[string]bool{}, hasEv: map[*ast.FuncDecl]int{}, decls: map[*types.Func]declRef{}}
	for _, pkg := range p.Pkgs {
		for _, f := range pkg.Syntax {
			for _, d := range f.Decls {
				if fd, ok := d.(*ast.FuncDecl); ok && fd.Body != nil {
					if obj, ok := pkg.TypesInfo.Defs[fd.Name].(*types.Func); ok {
						b.decls[obj] = declRef{pkg, fd}
					}
				}
			}
		}
	}
	return b
}

func (b *Builder) callee(pkg *packages.Package, call *ast.CallExpr) (declRef, bool) {
	var obj types.Object
	switch f := call.Fun.(type) {
	case *ast.Ident:
		obj = pkg.TypesInfo.Uses[f]
	case *ast.SelectorExpr:
		obj = pkg.TypesInfo.Uses[f.Sel]
	}
	fn, ok := obj.(*types.Func)
	if !ok {
		return declRef{}, false
	}
	d, ok := b.decls[fn]
	return d, ok
}

func (b *Builder) hasEvents(d declRef) bool {
	switch b.hasEv[d.fd] {
	case 1:
		return true
	case 2, 3:
		return false
	}
	b.hasEv[d.fd] = 3
	res := false
	ast.Inspect(d.fd.Body, func(n ast.Node) bool {
		call, ok := n.(*ast.CallExpr)
		if !ok || res {
			return true
		}
		if ev, handled := b.Event(d.pkg, call); handled {
			if len(ev) > 0 {
				res = true
			}
			return true
		}
		if cd, ok := b.callee(d.pkg, call); ok && b.hasEvents(cd) {
			res = true
		}
		return true
	})
	if res {
		b.hasEv[d.fd] = 1
	} else {
		b.hasEv[d.fd] = 2
	}
	return res
}

type ctx struct {
	pkg      *packages.Package
	fd       *ast.FuncDecl
	n        *proto.NFA
	exit     int // success return target
	loopHead []int
	loopExit []int
	stack    []*ast.FuncDecl
	prevPre  int // state before the previous statement (a failed read consumes nothing)
	prevStmt ast.Stmt
}

// Automaton builds the automaton of a function.
func (b *Builder) Automaton(pkg *packages.Package, fd *ast.FuncDecl) *proto.NFA {
	n := proto.NewNFA()
	entry, exit := n.State(), n.State()
	n.SetStart(entry)
	n.Accept(exit)
	c := &ctx{pkg: pkg, fd: fd, n: n, exit: exit, stack: []*ast.FuncDecl{fd}}
	b.Funcs[fd.Name.Name] = true
	end := b.block(c, fd.Body.List, entry)
	if end >= 0 && fd.Type.Results == nil {
		n.Edge(end, exit, "")
	}
	return proto.Live(n)
}

// exprEvents adds the events of the calls inside an expression (in source order).
func (b *Builder) exprEvents(c *ctx, e ast.Node, cur int) int {
	if e == nil {
		return cur
	}
	var calls []*ast.CallExpr
	ast.Inspect(e, func(n ast.Node) bool {
		if _, ok := n.(*ast.FuncLit); ok {
			return false
		}
		if call, ok := n.(*ast.CallExpr); ok {
			calls = append(calls, call)
		}
		return true
	})
	if b.Literal != nil {
		ast.Inspect(e, func(n ast.Node) bool {
			if _, ok := n.(*ast.FuncLit); ok {
				return false
			}
			if lit, ok := n.(*ast.CompositeLit); ok {
				for _, s := range b.Literal(c.pkg, lit) {
					nx := c.n.State()
					c.n.Edge(cur, nx, s)
					cur = nx
					b.Sites++
				}
			}
			return true
		})
	}
	// inner calls first (arguments are evaluated before the call)
	for i := len(calls) - 1; i >= 0; i-- {
		call := calls[i]
		if ev, handled := b.Event(c.pkg, call); handled {
			for _, s := range ev {
				nx := c.n.State()
				c.n.Edge(cur, nx, s)
				cur = nx
				b.Sites++
			}
			continue
		}
		if d, ok := b.callee(c.pkg, call); ok && b.hasEvents(d) {
			rec := false
			for _, s := range c.stack {
				if s == d.fd {
					rec = true
				}
			}
			nx := c.n.State()
			if rec {
				// recursive functions are numbered in order of discovery: the writer's and the reader's
				// recursive helper carry different names and stand for the same nested structure
				if b.recIdx == nil {
					b.recIdx = map[*ast.FuncDecl]int{}
				}
				if _, seen := b.recIdx[d.fd]; !seen {
					b.recIdx[d.fd] = len(b.recIdx) + 1
				}
				c.n.Edge(cur, nx, fmt.Sprintf("REC:#%d", b.recIdx[d.fd]))
				cur = nx
				continue
			}
			b.Funcs[d.fd.Name.Name] = true
			sub := &ctx{pkg: d.pkg, fd: d.fd, n: c.n, exit: nx, stack: append(append([]*ast.FuncDecl{}, c.stack...), d.fd)}
			end := b.block(sub, d.fd.Body.List, cur)
			if end >= 0 && d.fd.Type.Results == nil {
				c.n.Edge(end, nx, "")
			}
			cur = nx
		}
	}
	return cur
}

func isNilIdent(e ast.Expr) bool {
	id, ok := e.(*ast.Ident)
	return ok && id.Name == "nil"
}

// errorTest recognises `x != nil` / `x == nil` on an error-typed value.
func (b *Builder) errorTest(c *ctx, cond ast.Expr) (isErrTest bool, trueMeansError bool) {
	be, ok := cond.(*ast.BinaryExpr)
	if !ok || (be.Op != token.NEQ && be.Op != token.EQL) || !isNilIdent(be.Y) {
		return false, false
	}
	t := c.pkg.TypesInfo.TypeOf(be.X)
	if t == nil || t.String() != "error" {
		return false, false
	}
	return true, be.Op == token.NEQ
}

// successReturn: last result is nil (or the function has no error result), or a call (tail call).
func (b *Builder) successReturn(c *ctx, r *ast.ReturnStmt) bool {
	res := c.fd.Type.Results
	if res == nil || len(res.List) == 0 {
		return true
	}
	lastT := c.pkg.TypesInfo.TypeOf(res.List[len(res.List)-1].Type)
	if lastT == nil || lastT.String() != "error" {
		return true
	}
	if len(r.Results) == 0 {
		return true // named results; treated as success (rare)
	}
	last := r.Results[len(r.Results)-1]
	if isNilIdent(last) {
		return true
	}
	if call, ok := last.(*ast.CallExpr); ok {
		name := types.ExprString(call.Fun)
		if strings.HasSuffix(name, "Errorf") || strings.HasSuffix(name, "errors.New") {
			return false
		}
		return true // tail call of a function returning error
	}
	// `x, err := f(...); return err`: a tail call written in two statements
	if id, ok := last.(*ast.Ident); ok {
		if as, ok := c.prevStmt.(*ast.AssignStmt); ok && len(as.Rhs) == 1 {
			if _, isCall := as.Rhs[0].(*ast.CallExpr); isCall {
				for _, l := range as.Lhs {
					if li, ok := l.(*ast.Ident); ok && li.Name == id.Name {
						return true
					}
				}
			}
		}
	}
	return false
}

// block adds the statements; returns the state after them or -1 if control does not fall through.
func (b *Builder) block(c *ctx, stmts []ast.Stmt, cur int) int {
	c.prevPre = cur
	c.prevStmt = nil
	for _, st := range stmts {
		if cur < 0 {
			return -1
		}
		pre := cur
		cur = b.stmt(c, st, cur)
		if cur == pre && blankNoise(st) {
			// `_ = 0`, `_ = fmt.Sprint(...)`: not the statement an error test refers to
			continue
		}
		c.prevPre = pre
		c.prevStmt = st
	}
	return cur
}

// blankNoise: an empty statement or an assignment to blank identifiers only.
func blankNoise(st ast.Stmt) bool {
	switch t := st.(type) {
	case *ast.EmptyStmt:
		return true
	case *ast.AssignStmt:
		for _, l := range t.Lhs {
			if id, ok := l.(*ast.Ident); !ok || id.Name != "_" {
				return false
			}
		}
		return true
	}
	return false
}

func (b *Builder) stmt(c *ctx, st ast.Stmt, cur int) int {
	switch s := st.(type) {
	case *ast.ExprStmt:
		return b.exprEvents(c, s.X, cur)
	case *ast.AssignStmt:
		for _, r := range s.Rhs {
			cur = b.exprEvents(c, r, cur)
		}
		return cur
	case *ast.DeclStmt:
		return b.exprEvents(c, s, cur)
	case *ast.IncDecStmt, *ast.EmptyStmt:
		return cur
	case *ast.DeferStmt, *ast.GoStmt:
		return cur
	case *ast.ReturnStmt:
		for _, r := range s.Results {
			cur = b.exprEvents(c, r, cur)
		}
		if b.successReturn(c, s) {
			c.n.Edge(cur, c.exit, "")
		}
		return -1
	case *ast.BlockStmt:
		return b.block(c, s.List, cur)
	case *ast.IfStmt:
		errFrom := cur
		if s.Init != nil {
			cur = b.stmt(c, s.Init, cur)
		} else {
			errFrom = c.prevPre
		}
		isErr, trueIsErr := b.errorTest(c, s.Cond)
		cur = b.exprEvents(c, s.Cond, cur)
		join := c.n.State()
		thenFrom, elseFrom := cur, cur
		if isErr {
			// the failing call performed no event: its error branch starts before it
			if trueIsErr {
				thenFrom = errFrom
			} else {
				elseFrom = errFrom
			}
		}
		saved := c.prevPre
		thenEnd := b.block(c, s.Body.List, thenFrom)
		c.prevPre = saved
		if thenEnd >= 0 {
			c.n.Edge(thenEnd, join, "")
		}
		if s.Else != nil {
			elseEnd := b.stmt(c, s.Else, elseFrom)
			if elseEnd >= 0 {
				c.n.Edge(elseEnd, join, "")
			}
		} else {
			c.n.Edge(elseFrom, join, "")
		}
		return join
	case *ast.SwitchStmt:
		if s.Init != nil {
			cur = b.stmt(c, s.Init, cur)
		}
		cur = b.exprEvents(c, s.Tag, cur)
		join := c.n.State()
		hasDefault := false
		c.loopExit = append(c.loopExit, join) // break inside switch
		c.loopHead = append(c.loopHead, -1)
		for _, cl := range s.Body.List {
			cc := cl.(*ast.CaseClause)
			if cc.List == nil {
				hasDefault = true
			}
			end := b.block(c, cc.Body, cur)
			if end >= 0 {
				c.n.Edge(end, join, "")
			}
		}
		c.loopExit = c.loopExit[:len(c.loopExit)-1]
		c.loopHead = c.loopHead[:len(c.loopHead)-1]
		if !hasDefault {
			c.n.Edge(cur, join, "")
		}
		return join
	case *ast.TypeSwitchStmt:
		join := c.n.State()
		for _, cl := range s.Body.List {
			end := b.block(c, cl.(*ast.CaseClause).Body, cur)
			if end >= 0 {
				c.n.Edge(end, join, "")
			}
		}
		c.n.Edge(cur, join, "")
		return join
	case *ast.ForStmt:
		if s.Init != nil {
			cur = b.stmt(c, s.Init, cur)
		}
		head, exit := c.n.State(), c.n.State()
		c.n.Edge(cur, head, "")
		h2 := b.exprEvents(c, s.Cond, head)
		if s.Cond != nil {
			c.n.Edge(h2, exit, "")
		}
		c.loopHead = append(c.loopHead, head)
		c.loopExit = append(c.loopExit, exit)
		end := b.block(c, s.Body.List, h2)
		c.loopHead = c.loopHead[:len(c.loopHead)-1]
		c.loopExit = c.loopExit[:len(c.loopExit)-1]
		if end >= 0 {
			if s.Post != nil {
				end = b.stmt(c, s.Post, end)
			}
			c.n.Edge(end, head, "")
		}
		return exit
	case *ast.RangeStmt:
		// a range over a literal with k elements runs its body exactly k times
		if lit, ok := ast.Unparen(s.X).(*ast.CompositeLit); ok && len(lit.Elts) > 0 && len(lit.Elts) <= 16 {
			if _, isArr := lit.Type.(*ast.ArrayType); isArr {
				exit := c.n.State()
				for range lit.Elts {
					next := c.n.State()
					c.loopHead = append(c.loopHead, next)
					c.loopExit = append(c.loopExit, exit)
					end := b.block(c, s.Body.List, cur)
					c.loopHead = c.loopHead[:len(c.loopHead)-1]
					c.loopExit = c.loopExit[:len(c.loopExit)-1]
					if end >= 0 {
						c.n.Edge(end, next, "")
					}
					cur = next
				}
				c.n.Edge(cur, exit, "")
				return exit
			}
		}
		cur = b.exprEvents(c, s.X, cur)
		head, exit := c.n.State(), c.n.State()
		c.n.Edge(cur, head, "")
		c.n.Edge(head, exit, "")
		c.loopHead = append(c.loopHead, head)
		c.loopExit = append(c.loopExit, exit)
		end := b.block(c, s.Body.List, head)
		c.loopHead = c.loopHead[:len(c.loopHead)-1]
		c.loopExit = c.loopExit[:len(c.loopExit)-1]
		if end >= 0 {
			c.n.Edge(end, head, "")
		}
		return exit
	case *ast.BranchStmt:
		switch s.Tok {
		case token.BREAK:
			if len(c.loopExit) > 0 {
				c.n.Edge(cur, c.loopExit[len(c.loopExit)-1], "")
			}
		case token.CONTINUE:
			for i := len(c.loopHead) - 1; i >= 0; i-- {
				if c.loopHead[i] >= 0 {
					c.n.Edge(cur, c.loopHead[i], "")
					break
				}
			}
		}
		return -1
	case *ast.LabeledStmt:
		return b.stmt(c, s.Stmt, cur)
	}
	return cur
}
