// Package dispatch compares sibling dispatch tables (switches and registries).
package dispatch

import (
	"fmt"
	"go/ast"
	"go/types"
	"sort"
	"strings"

	"golang.org/x/tools/go/packages"

	"mpcverif/internal/load"
)

// Arm is one case of a dispatch: the constants it handles and the calls it makes.
type Arm struct {
	Consts []string
	Calls  []Call
	Node   ast.Node
	// AssignsOut: the arm assigns elements of a variable named out from other data (wire aliasing).
	AssignsOut bool
}

// Call is a resolved call with the nil-ness of its arguments.
type Call struct {
	Callee *types.Func
	Nil    []bool
}

func (c Call) Sig() string {
	var nils []string
	for i, n := range c.Nil {
		if n {
			nils = append(nils, fmt.Sprint(i))
		}
	}
	s := c.Callee.Pkg().Name() + "." + c.Callee.Name()
	if len(nils) > 0 {
		s += "[nil@" + strings.Join(nils, ",") + "]"
	}
	return s
}

// FindFunc locates a function declaration.
func FindFunc(p *load.Program, relPkg, recv, name string) (*packages.Package, *ast.FuncDecl) {
	path := load.Module
	if relPkg != "" {
		path += "/" + relPkg
	}
	pkg := p.ByPath[path]
	if pkg == nil {
		return nil, nil
	}
	for _, f := range pkg.Syntax {
		for _, d := range f.Decls {
			fd, ok := d.(*ast.FuncDecl)
			if !ok || fd.Name.Name != name {
				continue
			}
			r := ""
			if fd.Recv != nil && len(fd.Recv.List) == 1 {
				t := fd.Recv.List[0].Type
				if s, ok := t.(*ast.StarExpr); ok {
					t = s.X
				}
				if id, ok := t.(*ast.Ident); ok {
					r = id.Name
				}
			}
			if r == recv {
				return pkg, fd
			}
		}
	}
	return nil, nil
}

// callsIn resolves the calls inside a node.
func callsIn(pkg *packages.Package, n ast.Node, depth int, p *load.Program) []Call {
	var out []Call
	ast.Inspect(n, func(m ast.Node) bool {
		call, ok := m.(*ast.CallExpr)
		if !ok {
			return true
		}
		var obj types.Object
		switch f := call.Fun.(type) {
		case *ast.Ident:
			obj = pkg.TypesInfo.Uses[f]
		case *ast.SelectorExpr:
			obj = pkg.TypesInfo.Uses[f.Sel]
		}
		fn, ok := obj.(*types.Func)
		if !ok {
			return true
		}
		c := Call{Callee: fn}
		for _, a := range call.Args {
			id, isId := a.(*ast.Ident)
			c.Nil = append(c.Nil, isId && id.Name == "nil")
		}
		out = append(out, c)
		return true
	})
	return out
}

// SwitchArms extracts the arms of the first switch in fd whose tag text equals tag.
func SwitchArms(p *load.Program, pkg *packages.Package, fd *ast.FuncDecl, tag string) ([]Arm, *ast.SwitchStmt) {
	var sw *ast.SwitchStmt
	ast.Inspect(fd.Body, func(n ast.Node) bool {
		if s, ok := n.(*ast.SwitchStmt); ok && sw == nil && s.Tag != nil && (types.ExprString(s.Tag) == tag || TypedString(pkg, s.Tag) == tag) {
			sw = s
			return false
		}
		return true
	})
	if sw == nil {
		return nil, nil
	}
	var arms []Arm
	for _, st := range sw.Body.List {
		cc := st.(*ast.CaseClause)
		arm := Arm{Node: cc}
		for _, e := range cc.List {
			arm.Consts = append(arm.Consts, constName(pkg, e))
		}
		if cc.List == nil {
			arm.Consts = []string{"default"}
		}
		for _, b := range cc.Body {
			arm.Calls = append(arm.Calls, callsIn(pkg, b, 0, p)...)
			ast.Inspect(b, func(m ast.Node) bool {
				if as, ok := m.(*ast.AssignStmt); ok {
					for _, l := range as.Lhs {
						if ix, ok := l.(*ast.IndexExpr); ok {
							if id, ok := ix.X.(*ast.Ident); ok && id.Name == "out" {
								arm.AssignsOut = true
							}
						}
					}
				}
				return true
			})
		}
		arms = append(arms, arm)
	}
	return arms, sw
}

func constName(pkg *packages.Package, e ast.Expr) string {
	switch t := e.(type) {
	case *ast.Ident:
		return t.Name
	case *ast.SelectorExpr:
		return t.Sel.Name
	}
	return types.ExprString(e)
}

// MapLiteral extracts key -> value expression of a package-level map literal.
func MapLiteral(p *load.Program, relPkg, name string) (*packages.Package, map[string]ast.Expr) {
	path := load.Module + "/" + relPkg
	pkg := p.ByPath[path]
	if pkg == nil {
		return nil, nil
	}
	for _, f := range pkg.Syntax {
		for _, d := range f.Decls {
			gd, ok := d.(*ast.GenDecl)
			if !ok {
				continue
			}
			for _, sp := range gd.Specs {
				vs, ok := sp.(*ast.ValueSpec)
				if !ok {
					continue
				}
				for i, id := range vs.Names {
					if id.Name != name || i >= len(vs.Values) {
						continue
					}
					cl, ok := vs.Values[i].(*ast.CompositeLit)
					if !ok {
						continue
					}
					out := map[string]ast.Expr{}
					for _, el := range cl.Elts {
						kv := el.(*ast.KeyValueExpr)
						out[constName(pkg, kv.Key)] = kv.Value
					}
					return pkg, out
				}
			}
		}
	}
	return nil, nil
}

// BuilderCalls resolves the circuits.* builder calls an expression leads to:
// a function literal, a named function (its body), or newBinary(f).
func BuilderCalls(p *load.Program, pkg *packages.Package, e ast.Expr, depth int) []Call {
	if depth > 3 {
		return nil
	}
	isBuilder := func(c Call) bool {
		return c.Callee.Pkg() != nil && c.Callee.Pkg().Path() == load.Module+"/compiler/circuits"
	}
	var out []Call
	switch t := e.(type) {
	case *ast.FuncLit:
		for _, c := range callsIn(pkg, t.Body, 0, p) {
			if isBuilder(c) {
				out = append(out, c)
			}
		}
	case *ast.Ident:
		if fn, ok := pkg.TypesInfo.Uses[t].(*types.Func); ok {
			_, fd := FindFunc(p, strings.TrimPrefix(fn.Pkg().Path(), load.Module+"/"), "", fn.Name())
			if fd != nil {
				for _, c := range callsIn(pkg, fd.Body, 0, p) {
					if isBuilder(c) {
						out = append(out, c)
					}
				}
			}
		}
	case *ast.SelectorExpr:
		if fn, ok := pkg.TypesInfo.Uses[t.Sel].(*types.Func); ok && fn.Pkg().Path() == load.Module+"/compiler/circuits" {
			out = append(out, Call{Callee: fn})
		}
	case *ast.CallExpr:
		// newBinary(circuits.NewAdder): the builder is the argument
		for _, a := range t.Args {
			out = append(out, BuilderCalls(p, pkg, a, depth+1)...)
		}
	}
	return out
}

// Sigs renders a sorted signature set.
func Sigs(cs []Call, only func(Call) bool) string {
	set := map[string]bool{}
	for _, c := range cs {
		if only == nil || only(c) {
			set[c.Sig()] = true
		}
	}
	var out []string
	for s := range set {
		out = append(out, s)
	}
	sort.Strings(out)
	return strings.Join(out, " ")
}
