package dispatch

import (
	"go/ast"
	"go/types"
	"strings"

	"golang.org/x/tools/go/packages"
)

// TypedString renders an expression with every local variable, parameter and
// receiver replaced by its type in angle brackets (<Instr>.Op, <map[string]*Circuit>[...]),
// so that a rule can name a construct by what it is rather than by how a
// local happens to be spelled.
func TypedString(pkg *packages.Package, e ast.Expr) string {
	ren := map[string]string{}
	ast.Inspect(e, func(n ast.Node) bool {
		id, ok := n.(*ast.Ident)
		if !ok {
			return true
		}
		v, ok := pkg.TypesInfo.ObjectOf(id).(*types.Var)
		if !ok || v.IsField() || v.Parent() == nil || v.Parent() == v.Pkg().Scope() {
			return true
		}
		t := v.Type()
		if p, ok := t.(*types.Pointer); ok {
			t = p.Elem()
		}
		ren[id.Name] = "<" + types.TypeString(t, func(*types.Package) string { return "" }) + ">"
		return true
	})
	s := types.ExprString(e)
	if len(ren) == 0 {
		return s
	}
	var b strings.Builder
	isId := func(c byte) bool {
		return c == '_' || c >= 'a' && c <= 'z' || c >= 'A' && c <= 'Z' || c >= '0' && c <= '9'
	}
	for k := 0; k < len(s); {
		if isId(s[k]) {
			j := k
			for j < len(s) && isId(s[j]) {
				j++
			}
			w := s[k:j]
			if r, ok := ren[w]; ok && (k == 0 || s[k-1] != '.') {
				b.WriteString(r)
			} else {
				b.WriteString(w)
			}
			k = j
			continue
		}
		b.WriteByte(s[k])
		k++
	}
	return b.String()
}
