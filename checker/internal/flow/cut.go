package flow

import (
	"golang.org/x/tools/go/ssa"
)

// ReachableWithoutEdges reports whether target is reachable from the entry
// when the given CFG edges (from block, successor index) are removed.
func ReachableWithoutEdges(fn *ssa.Function, cut map[[2]int]bool, target *ssa.BasicBlock) bool {
	seen := map[*ssa.BasicBlock]bool{}
	stack := []*ssa.BasicBlock{fn.Blocks[0]}
	for len(stack) > 0 {
		b := stack[len(stack)-1]
		stack = stack[:len(stack)-1]
		if seen[b] {
			continue
		}
		seen[b] = true
		if b == target {
			return true
		}
		for k, s := range b.Succs {
			if cut[[2]int{b.Index, k}] {
				continue
			}
			stack = append(stack, s)
		}
	}
	return false
}

// TrueEdges returns the CFG edges taken when the boolean value v is true.
// v may be used directly or negated in an If.
func TrueEdges(fn *ssa.Function, v ssa.Value) (edges [][2]int) {
	for _, b := range fn.Blocks {
		iff, ok := b.Instrs[len(b.Instrs)-1].(*ssa.If)
		if !ok {
			continue
		}
		cond := iff.Cond
		neg := false
		for {
			if u, ok := cond.(*ssa.UnOp); ok && u.Op.String() == "!" {
				cond = u.X
				neg = !neg
				continue
			}
			break
		}
		if cond != v {
			continue
		}
		if neg {
			edges = append(edges, [2]int{b.Index, 1})
		} else {
			edges = append(edges, [2]int{b.Index, 0})
		}
	}
	return
}

// BackwardSlice collects the instructions a value depends on (data flow,
// through local cells and pointer-receiver calls).
func BackwardSlice(fn *ssa.Function, roots ...ssa.Value) map[ssa.Instruction]bool {
	seenV := map[ssa.Value]bool{}
	out := map[ssa.Instruction]bool{}
	var stack []ssa.Value
	stack = append(stack, roots...)
	for len(stack) > 0 {
		v := stack[len(stack)-1]
		stack = stack[:len(stack)-1]
		if v == nil || seenV[v] {
			continue
		}
		seenV[v] = true
		ins, ok := v.(ssa.Instruction)
		if !ok {
			continue
		}
		out[ins] = true
		for _, op := range ins.Operands(nil) {
			stack = append(stack, *op)
		}
		// memory: a load depends on every write to the cell
		var cell *ssa.Alloc
		if ld, ok := v.(*ssa.UnOp); ok && ld.Op.String() == "*" {
			cell = cellOf(ld.X)
		}
		if al, ok := v.(*ssa.Alloc); ok {
			cell = al
		}
		if cell != nil {
			var visit func(p ssa.Value)
			visited := map[ssa.Value]bool{}
			visit = func(p ssa.Value) {
				if visited[p] {
					return
				}
				visited[p] = true
				refs := p.Referrers()
				if refs == nil {
					return
				}
				for _, ref := range *refs {
					switch t := ref.(type) {
					case *ssa.Store:
						if t.Addr == p {
							out[t] = true
							stack = append(stack, t.Val)
						}
					case ssa.CallInstruction:
						out[t] = true
						for _, a := range t.Common().Args {
							stack = append(stack, a)
						}
						if val, ok := t.(ssa.Value); ok {
							stack = append(stack, val)
						}
					case *ssa.FieldAddr:
						visit(t)
					case *ssa.IndexAddr:
						visit(t)
					case *ssa.Slice:
						visit(t)
					}
				}
			}
			visit(cell)
		}
	}
	return out
}
