// Package flow holds the SSA def-use analyses: derivation from parameters
// (purity, write-freedom), forward taint, backward slices and edge cuts.
package flow

import (
	"fmt"
	"go/token"
	"go/types"
	"sort"
	"strings"

	"golang.org/x/tools/go/ssa"

	"mpcverif/internal/load"
)

// sharesMemory reports whether a value of this type aliases memory when copied.
func sharesMemory(t types.Type) bool {
	switch t.Underlying().(type) {
	case *types.Pointer, *types.Slice, *types.Map, *types.Chan, *types.Interface, *types.Signature:
		return true
	}
	return false
}

// ExemptField, when set, names field addresses whose contents are not shared memory (a buffer exclusive to
// the holder of a flag): loads of them are not derived from the roots, stores to them are not writes.
var ExemptField func(*ssa.FieldAddr) bool

func exemptAddr(v ssa.Value) bool {
	if ExemptField == nil {
		return false
	}
	fa, ok := v.(*ssa.FieldAddr)
	return ok && ExemptField(fa)
}

// Derived computes the set of values of fn that may point into (or alias)
// the memory reachable from the given root values.
func Derived(fn *ssa.Function, roots ...ssa.Value) map[ssa.Value]bool {
	d := map[ssa.Value]bool{}
	for _, r := range roots {
		d[r] = true
	}
	// cells: local allocs that hold a derived pointer
	changed := true
	for changed {
		changed = false
		mark := func(v ssa.Value) {
			if !d[v] {
				d[v] = true
				changed = true
			}
		}
		for _, b := range fn.Blocks {
			for _, ins := range b.Instrs {
				switch t := ins.(type) {
				case *ssa.FieldAddr:
					if d[t.X] {
						mark(t)
					}
				case *ssa.IndexAddr:
					if d[t.X] {
						mark(t)
					}
				case *ssa.Field:
					if d[t.X] && sharesMemory(t.Type()) {
						mark(t)
					}
				case *ssa.Index:
					if d[t.X] && sharesMemory(t.Type()) {
						mark(t)
					}
				case *ssa.Slice:
					if d[t.X] {
						mark(t)
					}
				case *ssa.UnOp:
					if t.Op == token.MUL && d[t.X] && sharesMemory(t.Type()) && !exemptAddr(t.X) {
						mark(t)
					}
				case *ssa.Phi:
					for _, e := range t.Edges {
						if d[e] {
							mark(t)
						}
					}
				case *ssa.ChangeType:
					if d[t.X] {
						mark(t)
					}
				case *ssa.Convert:
					if d[t.X] && sharesMemory(t.Type()) {
						mark(t)
					}
				case *ssa.MakeInterface:
					if d[t.X] {
						mark(t)
					}
				case *ssa.TypeAssert:
					if d[t.X] {
						mark(t)
					}
				case *ssa.Extract:
					if d[t.Tuple] && sharesMemory(t.Type()) {
						mark(t)
					}
				case *ssa.Lookup:
					if d[t.X] && sharesMemory(t.Type()) {
						mark(t)
					}
				case *ssa.Store:
					// a derived pointer stored into a local cell makes loads of the cell derived
					if d[t.Val] {
						if al, ok := t.Addr.(*ssa.Alloc); ok {
							mark(al)
						}
					}
				case *ssa.Call:
					// methods that return (an alias of) their receiver: math/big
					if callee := t.Call.StaticCallee(); callee != nil && callee.Pkg != nil && callee.Pkg.Pkg.Path() == "math/big" &&
						callee.Signature.Recv() != nil && len(t.Call.Args) > 0 && d[t.Call.Args[0]] && sharesMemory(t.Type()) {
						if types.Identical(t.Type(), t.Call.Args[0].Type()) {
							mark(t)
						}
					}
				}
			}
		}
	}
	return d
}

var bigMutators = map[string]bool{}

func init() {
	for _, n := range strings.Fields(`Set SetInt64 SetUint64 SetBits SetBytes SetString SetBit Add Sub Mul Quo Rem QuoRem Div Mod DivMod
		Neg Abs And Or Xor AndNot Not Lsh Rsh Exp GCD ModInverse ModSqrt Sqrt Rand Binomial MulRange Scan UnmarshalText UnmarshalJSON GobDecode`) {
		bigMutators[n] = true
	}
}

// Write is a store or mutating call through a derived pointer.
type Write struct {
	Fn   *ssa.Function
	Pos  token.Pos
	What string
}

// WritesThrough lists the writes that fn (and, transitively, module callees it
// passes derived pointers to) performs through memory derived from the roots.
// allowCall reports calls that are explicitly permitted (e.g. sync/atomic methods).
func WritesThrough(fn *ssa.Function, roots []ssa.Value, allowCall func(*ssa.Function) bool, seen map[string]bool) []Write {
	if seen == nil {
		seen = map[string]bool{}
	}
	key := fn.String()
	for _, r := range roots {
		key += "|" + r.Name()
	}
	if seen[key] || len(fn.Blocks) == 0 {
		return nil
	}
	seen[key] = true
	d := Derived(fn, roots...)
	var out []Write
	for _, b := range fn.Blocks {
		for _, ins := range b.Instrs {
			switch t := ins.(type) {
			case *ssa.Store:
				if _, local := t.Addr.(*ssa.Alloc); local {
					continue
				}
				if d[t.Addr] && !exemptAddr(t.Addr) {
					out = append(out, Write{fn, t.Pos(), "store through " + t.Addr.String()})
				}
			case *ssa.MapUpdate:
				if d[t.Map] {
					out = append(out, Write{fn, t.Pos(), "map update"})
				}
			case ssa.CallInstruction:
				cc := t.Common()
				if bi, ok := cc.Value.(*ssa.Builtin); ok {
					if (bi.Name() == "copy" || bi.Name() == "clear" || bi.Name() == "delete") && len(cc.Args) > 0 && d[cc.Args[0]] {
						out = append(out, Write{fn, ins.Pos(), bi.Name() + " into derived memory"})
					}
					if bi.Name() == "append" && len(cc.Args) > 0 && d[cc.Args[0]] {
						// append may write into the shared backing array
						out = append(out, Write{fn, ins.Pos(), "append to derived slice"})
					}
					continue
				}
				callee := cc.StaticCallee()
				if callee == nil {
					continue
				}
				if allowCall != nil && allowCall(callee) {
					continue
				}
				var passed []int
				for i, a := range cc.Args {
					if d[a] {
						passed = append(passed, i)
					}
				}
				if len(passed) == 0 {
					continue
				}
				if callee.Pkg != nil && callee.Pkg.Pkg.Path() == "math/big" && callee.Signature.Recv() != nil {
					if bigMutators[callee.Name()] && passed[0] == 0 {
						out = append(out, Write{fn, ins.Pos(), "(*big.Int)." + callee.Name() + " on a value derived from the argument"})
					}
					continue
				}
				if load.InModule(callee) && len(callee.Blocks) > 0 {
					var croots []ssa.Value
					for _, i := range passed {
						if i < len(callee.Params) {
							croots = append(croots, callee.Params[i])
						}
					}
					out = append(out, WritesThrough(callee, croots, allowCall, seen)...)
				}
			}
		}
	}
	sort.Slice(out, func(i, j int) bool { return out[i].Pos < out[j].Pos })
	return out
}

func (w Write) String() string { return fmt.Sprintf("%s: %s", w.Fn.Name(), w.What) }
