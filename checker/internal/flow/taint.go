package flow

import (
	"go/token"
	"go/types"

	"golang.org/x/tools/go/ssa"
)

// Taint is a forward taint analysis over one function.
type Taint struct {
	Fn *ssa.Function
	// Source marks values (and cells) tainted by an instruction.
	Source func(ins ssa.Instruction) []ssa.Value
	// Sanitizer: the result of this call is clean even with tainted arguments.
	Sanitizer func(call ssa.CallInstruction) bool
	// KeepClean: values of these types never carry taint (e.g. error).
	KeepClean func(t types.Type) bool
	// PhiClean: this phi is a declassifying select.
	PhiClean func(phi *ssa.Phi) bool
	// CleanValue: this value is clean whatever it is computed from (the verdict of an equality test written
	// with arithmetic).
	CleanValue func(v ssa.Value) bool

	// Seed: values tainted from the start (e.g. a parameter when a summary is computed).
	Seed []ssa.Value
	// CleanLen: len and cap of a tainted slice are clean (the content is peer data, the extent is the caller's).
	CleanLen bool

	T map[ssa.Value]bool
}

func isErrorType(t types.Type) bool { return t.String() == "error" }

func (ta *Taint) mark(v ssa.Value, changed *bool) {
	if v == nil || ta.T[v] {
		return
	}
	if ta.CleanValue != nil && ta.CleanValue(v) {
		return
	}
	if ta.KeepClean != nil && ta.KeepClean(v.Type()) {
		return
	}
	ta.T[v] = true
	*changed = true
}

// cellOf returns the local alloc a pointer expression refers into.
func cellOf(v ssa.Value) *ssa.Alloc {
	a, _ := baseOf(v).(*ssa.Alloc)
	return a
}

// BaseOf is baseOf for the rules that name sources by the storage a receive writes into.
func BaseOf(v ssa.Value) ssa.Value { return baseOf(v) }

// baseOf returns the local storage (an alloc, or the backing array of a make([]T, n)) a pointer or slice
// expression refers into, or nil.
func baseOf(v ssa.Value) ssa.Value {
	for {
		switch t := v.(type) {
		case *ssa.Alloc:
			return t
		case *ssa.MakeSlice:
			return t
		case *ssa.FieldAddr:
			v = t.X
		case *ssa.IndexAddr:
			v = t.X
		case *ssa.Slice:
			v = t.X
		default:
			return nil
		}
	}
}

// Run computes the taint fixpoint (data flow plus merge-point implicit flows).
func (ta *Taint) Run() {
	ta.T = map[ssa.Value]bool{}
	for _, v := range ta.Seed {
		ta.T[v] = true
	}
	fn := ta.Fn
	changed := true
	for changed {
		changed = false
		for _, b := range fn.Blocks {
			for _, ins := range b.Instrs {
				if ta.Source != nil {
					for _, v := range ta.Source(ins) {
						ta.mark(v, &changed)
					}
				}
				switch t := ins.(type) {
				case *ssa.Store:
					if ta.T[t.Val] {
						if c := baseOf(t.Addr); c != nil {
							ta.mark(c, &changed)
						} else {
							ta.mark(t.Addr, &changed)
						}
					}
				case *ssa.UnOp:
					if ta.T[t.X] {
						ta.mark(t, &changed)
					} else if t.Op == token.MUL {
						if c := baseOf(t.X); c != nil && ta.T[c] {
							ta.mark(t, &changed)
						}
					}
				case *ssa.Phi:
					if ta.PhiClean != nil && ta.PhiClean(t) {
						continue
					}
					for _, e := range t.Edges {
						if ta.T[e] {
							ta.mark(t, &changed)
						}
					}
				case ssa.CallInstruction:
					cc := t.Common()
					v, isVal := ins.(ssa.Value)
					if ta.Sanitizer != nil && ta.Sanitizer(t) {
						continue
					}
					if bi, ok := cc.Value.(*ssa.Builtin); ok && (bi.Name() == "len" || bi.Name() == "cap") && len(cc.Args) == 1 {
						if ta.CleanLen {
							continue
						}
						// the extent of make([]T, n) is n, whatever was written into it since
						if ms, ok := cc.Args[0].(*ssa.MakeSlice); ok {
							if (ta.T[ms.Len] || ta.T[ms.Cap]) && isVal {
								ta.mark(v, &changed)
							}
							continue
						}
					}
					if bi, ok := cc.Value.(*ssa.Builtin); ok && bi.Name() == "copy" && len(cc.Args) == 2 {
						if ta.T[cc.Args[1]] {
							ta.mark(cc.Args[0], &changed)
							if c := baseOf(cc.Args[0]); c != nil {
								ta.mark(c, &changed)
							}
						}
						continue
					}
					any := false
					for _, a := range cc.Args {
						if ta.T[a] {
							any = true
						} else if c := baseOf(a); c != nil && ta.T[c] {
							any = true
						}
					}
					if cc.IsInvoke() && ta.T[cc.Value] {
						any = true
					}
					if any {
						if isVal {
							ta.mark(v, &changed)
						}
						// pointer arguments may be written by the callee
						for _, a := range cc.Args {
							if c := baseOf(a); c != nil {
								if _, isPtr := a.Type().Underlying().(*types.Pointer); isPtr {
									ta.mark(c, &changed)
								}
							}
						}
					}
				default:
					if v, ok := ins.(ssa.Value); ok {
						for _, op := range ins.Operands(nil) {
							if *op != nil && ta.T[*op] {
								ta.mark(v, &changed)
							}
						}
					}
				}
			}
		}
		// implicit flows at merges of a tainted branch
		for _, x := range fn.Blocks {
			iff, ok := x.Instrs[len(x.Instrs)-1].(*ssa.If)
			if !ok || !ta.T[iff.Cond] {
				continue
			}
			arm := func(p *ssa.BasicBlock, m *ssa.BasicBlock) int {
				for k, s := range x.Succs {
					if p == x && s == m {
						return k
					}
					if len(s.Preds) == 1 && s.Dominates(p) {
						return k
					}
				}
				return -1
			}
			for _, m := range fn.Blocks {
				if !x.Dominates(m) || m == x || len(m.Preds) < 2 {
					continue
				}
				arms := map[int]bool{}
				for _, p := range m.Preds {
					if k := arm(p, m); k >= 0 {
						arms[k] = true
					}
				}
				if len(arms) < 2 {
					continue
				}
				for _, ins := range m.Instrs {
					if phi, ok := ins.(*ssa.Phi); ok {
						if ta.PhiClean != nil && ta.PhiClean(phi) {
							continue
						}
						ta.mark(phi, &changed)
					}
				}
			}
		}
	}
}

// TaintedReturns lists non-error results of success returns that carry taint.
func (ta *Taint) TaintedReturns() []*ssa.Return {
	var out []*ssa.Return
	for _, b := range ta.Fn.Blocks {
		r, ok := b.Instrs[len(b.Instrs)-1].(*ssa.Return)
		if !ok {
			continue
		}
		for _, v := range r.Results {
			if isErrorType(v.Type()) {
				continue
			}
			if ta.T[v] {
				out = append(out, r)
				break
			}
		}
	}
	return out
}

// Why returns a short def-use explanation for a tainted value.
func (ta *Taint) Why(v ssa.Value, depth int) []string {
	var out []string
	seen := map[ssa.Value]bool{}
	for i := 0; i < depth && v != nil; i++ {
		if seen[v] {
			break
		}
		seen[v] = true
		out = append(out, v.Name()+" = "+v.String())
		ins, ok := v.(ssa.Instruction)
		if !ok {
			break
		}
		var next ssa.Value
		if ld, ok := v.(*ssa.UnOp); ok && ld.Op == token.MUL {
			if c := baseOf(ld.X); c != nil && ta.T[c] {
				next = c
			}
		}
		if next == nil {
			for _, op := range ins.Operands(nil) {
				if *op != nil && ta.T[*op] {
					next = *op
					break
				}
			}
		}
		if al, ok := v.(*ssa.Alloc); ok && next == nil {
			// find a store of tainted value or a call that taints the cell
			for _, ref := range *al.Referrers() {
				if st, ok := ref.(*ssa.Store); ok && ta.T[st.Val] {
					next = st.Val
				}
				if c, ok := ref.(ssa.CallInstruction); ok {
					out = append(out, "  written by "+c.Common().String())
				}
			}
		}
		v = next
	}
	return out
}
