package flow

import (
	"go/token"

	"golang.org/x/tools/go/ssa"
)

// XSlice is a backward data slice that crosses the boundaries a refactoring moves code over: helper
// functions of the module (a parameter continues at the call site's argument; a call result continues at
// the helper's returned values) and state kept in fields of a parameter or receiver (a load of p.f depends
// on every store to p.f in the function and in the module functions it hands p to).
type XSlice struct {
	InModule func(*ssa.Function) bool
	Set      map[ssa.Instruction]bool
	// Funcs lists the functions the slice entered.
	Funcs map[*ssa.Function]bool

	seen  map[ssa.Value]bool
	binds map[*ssa.Parameter][]ssa.Value // parameter -> the arguments it stands for at the call sites entered
}

type fieldKey struct {
	root  ssa.Value
	field int
}

// rootField: addr is (an element of / a sub-slice of) the field k of a parameter.
func rootField(addr ssa.Value) (fieldKey, bool) {
	for depth := 0; depth < 8; depth++ {
		switch t := addr.(type) {
		case *ssa.FieldAddr:
			if p, ok := t.X.(*ssa.Parameter); ok {
				return fieldKey{p, t.Field}, true
			}
			addr = t.X
		case *ssa.IndexAddr:
			addr = t.X
		case *ssa.Slice:
			addr = t.X
		case *ssa.UnOp:
			if t.Op != token.MUL {
				return fieldKey{}, false
			}
			addr = t.X
		default:
			return fieldKey{}, false
		}
	}
	return fieldKey{}, false
}

func NewXSlice(inModule func(*ssa.Function) bool) *XSlice {
	return &XSlice{InModule: inModule, Set: map[ssa.Instruction]bool{}, Funcs: map[*ssa.Function]bool{}, seen: map[ssa.Value]bool{}, binds: map[*ssa.Parameter][]ssa.Value{}}
}

// Enter records that callee is analysed for the call c of its caller: parameters continue at c's arguments.
func (x *XSlice) Enter(callee *ssa.Function, c ssa.CallInstruction) {
	for i, p := range callee.Params {
		if i < len(c.Common().Args) {
			x.binds[p] = append(x.binds[p], c.Common().Args[i])
		}
	}
}

// Add slices backwards from the roots.
func (x *XSlice) Add(roots ...ssa.Value) {
	stack := append([]ssa.Value{}, roots...)
	push := func(v ssa.Value) { stack = append(stack, v) }
	storesTo := func(fn *ssa.Function, key fieldKey, depth int) {
		var scan func(g *ssa.Function, root ssa.Value, d int)
		visited := map[*ssa.Function]bool{}
		scan = func(g *ssa.Function, root ssa.Value, d int) {
			if visited[g] || d > 3 {
				return
			}
			visited[g] = true
			x.Funcs[g] = true
			for _, b := range g.Blocks {
				for _, ins := range b.Instrs {
					switch t := ins.(type) {
					case *ssa.Store:
						if k, ok := rootField(t.Addr); ok && k.root == root && k.field == key.field {
							x.Set[t] = true
							push(t.Val)
						}
					case ssa.CallInstruction:
						callee := t.Common().StaticCallee()
						if callee == nil || callee.Blocks == nil || !x.InModule(callee) {
							// a call that is handed the field's storage may write it
							for _, a := range t.Common().Args {
								if k, ok := rootField(a); ok && k.root == root && k.field == key.field {
									x.Set[t] = true
									for _, a2 := range t.Common().Args {
										push(a2)
									}
								}
							}
							continue
						}
						for i, a := range t.Common().Args {
							if a == root && i < len(callee.Params) {
								x.Enter(callee, t)
								scan(callee, callee.Params[i], d+1)
							}
							if k, ok := rootField(a); ok && k.root == root && k.field == key.field {
								x.Set[t] = true
								for _, a2 := range t.Common().Args {
									push(a2)
								}
							}
						}
					}
				}
			}
		}
		scan(fn, key.root, depth)
	}
	for len(stack) > 0 {
		v := stack[len(stack)-1]
		stack = stack[:len(stack)-1]
		if v == nil || x.seen[v] {
			continue
		}
		x.seen[v] = true
		if p, ok := v.(*ssa.Parameter); ok {
			for _, a := range x.binds[p] {
				push(a)
			}
			continue
		}
		ins, ok := v.(ssa.Instruction)
		if !ok {
			continue
		}
		x.Set[ins] = true
		if ins.Parent() != nil {
			x.Funcs[ins.Parent()] = true
		}
		for _, op := range ins.Operands(nil) {
			push(*op)
		}
		switch t := v.(type) {
		case *ssa.UnOp:
			if t.Op != token.MUL {
				break
			}
			if key, ok := rootField(t.X); ok {
				storesTo(t.Parent(), key, 0)
				break
			}
			if cell := cellOf(t.X); cell != nil {
				x.cell(cell, push)
			} else if mk, ok := baseOf(t.X).(*ssa.MakeSlice); ok {
				// the backing array of a make: whoever is handed it (or a window of it) may have filled it
				x.cell(mk, push)
			}
		case *ssa.Alloc:
			x.cell(t, push)
		case *ssa.MakeSlice:
			x.cell(t, push)
		case *ssa.Slice:
			// a window of local storage handed on as a value: what it holds was written through the storage
			if b := baseOf(t); b != nil {
				x.cell(b, push)
			}
		case *ssa.Call:
			// the result of a module helper: continue at what it returns
			callee := t.Call.StaticCallee()
			if callee != nil && callee.Blocks != nil && x.InModule(callee) && len(x.Funcs) < 40 {
				x.Enter(callee, t)
				x.Funcs[callee] = true
				for _, b := range callee.Blocks {
					if r, ok := b.Instrs[len(b.Instrs)-1].(*ssa.Return); ok {
						x.Set[r] = true
						for _, res := range r.Results {
							push(res)
						}
					}
				}
			}
		case *ssa.Extract:
			push(t.Tuple)
		}
	}
}

func (x *XSlice) cell(cell ssa.Value, push func(ssa.Value)) {
	visited := map[ssa.Value]bool{}
	var visit func(p ssa.Value)
	visit = func(p ssa.Value) {
		if visited[p] {
			return
		}
		visited[p] = true
		refs := p.Referrers()
		if refs == nil {
			return
		}
		for _, ref := range *refs {
			switch t := ref.(type) {
			case *ssa.Store:
				if t.Addr == p {
					x.Set[t] = true
					push(t.Val)
				}
			case ssa.CallInstruction:
				x.Set[t] = true
				for _, a := range t.Common().Args {
					push(a)
				}
				if val, ok := t.(ssa.Value); ok {
					push(val)
				}
			case *ssa.FieldAddr:
				visit(t)
			case *ssa.IndexAddr:
				visit(t)
			case *ssa.Slice:
				visit(t)
			}
		}
	}
	visit(cell)
}
