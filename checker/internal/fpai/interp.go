package fpai

import (
	"fmt"
	"go/constant"
	"go/token"
	"go/types"
	"sort"
	"strings"

	"golang.org/x/tools/go/ssa"
)

// Undecided is returned when the interpreter meets a construct it does not
// model or a branch the partition does not decide.
type Undecided struct{ Why string }

func (u *Undecided) Error() string { return "undecided: " + u.Why }

func undecided(format string, a ...any) error { return &Undecided{fmt.Sprintf(format, a...)} }

// NeedFork is returned when a branch depends on the named boolean unknown.
type NeedFork struct{ Sym string }

func (n *NeedFork) Error() string { return "fork on " + n.Sym }

// Model is the abstract semantics of a callee.
type Model func(in *Interp, args []Val, site ssa.CallInstruction) (Val, error)

// Interp interprets SSA functions.
type Interp struct {
	Assume  map[string]bool  // decided boolean unknowns (forks)
	SBit    map[string]bool  // S() of base label atoms
	Models  map[string]Model // by ssa.Function.String()
	Invokes map[string]Model // by types.Func.FullName() of interface methods
	// PhiOverride replaces the value of a loop-header phi (key "Func:comment") on loop entry.
	PhiOverride map[string]Val
	// ValueOverride replaces the value an instruction computes (a quantity the driver keeps symbolic, e.g. a
	// tweak derived from a position).
	ValueOverride map[ssa.Value]Val
	// HavocPhi, when set, is asked for the entry value of every loop-header phi
	// (on the forward edge into the loop); returning ok replaces the initial
	// value, which models "the loop is at an arbitrary iteration": state
	// carried from earlier iterations is unknown.
	HavocPhi func(fn *ssa.Function, phi *ssa.Phi, key string) (Val, bool)
	LastPhi  map[string]Val
	// InlinePrefix limits inlining to functions of the module under analysis.
	InlinePrefix string
	// NarrowOK, when set, is asked whether a narrowing conversion of the symbolic integer sym to a type with
	// the given maximum keeps its value on the current path (a bound the driver has established by other means).
	NarrowOK func(in *Interp, sym string, max int64) bool
	MaxDepth int
	MaxSteps int

	depth int
	steps int
}

// New creates an interpreter with the label models installed.
func New(modulePrefix string) *Interp {
	in := &Interp{
		Assume: map[string]bool{}, SBit: map[string]bool{}, Models: map[string]Model{}, Invokes: map[string]Model{},
		PhiOverride: map[string]Val{}, LastPhi: map[string]Val{}, InlinePrefix: modulePrefix, MaxDepth: 8, MaxSteps: 400000,
	}
	installLabelModels(in)
	return in
}

type frame struct {
	fn   *ssa.Function
	env  map[ssa.Value]Val
	prev *ssa.BasicBlock
}

// ZeroVal is the zero value of a type in the abstract domain.
func ZeroVal(t types.Type) Val {
	switch u := t.Underlying().(type) {
	case *types.Basic:
		switch {
		case u.Info()&types.IsBoolean != 0:
			return BoolV{Known: true}
		case u.Info()&types.IsInteger != 0:
			return IntV{}
		}
		return OpaqueV{"basic:" + u.Name()}
	case *types.Struct:
		if IsNamed(t, "/ot", "Label") {
			return LabelV{}
		}
		s := StructV{}
		for i := 0; i < u.NumFields(); i++ {
			s.F = append(s.F, ZeroVal(u.Field(i).Type()))
		}
		return s
	case *types.Array:
		if IsNamed(t, "/ot", "LabelData") {
			return DataV{}
		}
		if u.Len() > 4096 {
			return OpaqueV{"bigarray"}
		}
		a := ArrV{}
		for i := int64(0); i < u.Len(); i++ {
			a.E = append(a.E, ZeroVal(u.Elem()))
		}
		return a
	case *types.Pointer, *types.Slice, *types.Interface, *types.Map, *types.Signature, *types.Chan:
		return NilV{}
	}
	return OpaqueV{t.String()}
}

// IsNamed reports whether t is the named type pkgSuffix.name.
func IsNamed(t types.Type, pkgSuffix, name string) bool {
	n, ok := t.(*types.Named)
	if !ok || n.Obj().Pkg() == nil {
		return false
	}
	return n.Obj().Name() == name && strings.HasSuffix(n.Obj().Pkg().Path(), pkgSuffix)
}

// SOf evaluates the permute-bit functional on a form.
func (in *Interp) SOf(l LabelV) BoolV {
	res := false
	var unk []string
	for a := range l {
		if v, ok := in.SBit[a]; ok {
			res = res != v
			continue
		}
		if strings.HasPrefix(a, "T(") {
			continue // NewTweak only sets D1; S is the top bit of D0
		}
		key := "S[" + a + "]"
		if v, ok := in.Assume[key]; ok {
			res = res != v
			continue
		}
		unk = append(unk, key)
	}
	if len(unk) == 0 {
		return BoolV{Known: true, B: res}
	}
	sort.Strings(unk)
	if len(unk) == 1 && !res {
		return BoolV{Sym: unk[0]}
	}
	return BoolV{Sym: fmt.Sprintf("xor(%s,%v)", strings.Join(unk, ","), res)}
}

// Call interprets fn with the arguments.
func (in *Interp) Call(fn *ssa.Function, args []Val) (Val, error) {
	in.depth++
	defer func() { in.depth-- }()
	if in.depth > in.MaxDepth {
		return nil, undecided("inline depth exceeded at %s", fn)
	}
	if len(fn.Blocks) == 0 {
		return nil, undecided("no body: %s", fn)
	}
	if len(args) != len(fn.Params) {
		return nil, undecided("arity mismatch calling %s", fn)
	}
	fr := &frame{fn: fn, env: map[ssa.Value]Val{}}
	for i, p := range fn.Params {
		fr.env[p] = args[i]
	}
	return in.run(fr, fn.Blocks[0], nil)
}

// RunRegion interprets fn starting at block start with the given bindings of
// values defined outside the region, until stop(block) is true for the next
// block (the region's exit) or the function returns.  It returns the frame
// environment so that the driver can read region outputs.
func (in *Interp) RunRegion(fn *ssa.Function, start, prev *ssa.BasicBlock, env map[ssa.Value]Val,
	stop func(from, to *ssa.BasicBlock) bool) (ret Val, out map[ssa.Value]Val, err error) {
	fr := &frame{fn: fn, env: env, prev: prev}
	ret, err = in.run(fr, start, stop)
	return ret, fr.env, err
}

// RegionExit is returned by run when the stop predicate fires.
type RegionExit struct{ From, To *ssa.BasicBlock }

func (in *Interp) run(fr *frame, b *ssa.BasicBlock, stop func(from, to *ssa.BasicBlock) bool) (Val, error) {
	for {
		next, ret, done, err := in.block(fr, b)
		if err != nil {
			return nil, err
		}
		if done {
			return ret, nil
		}
		if stop != nil && stop(b, next) {
			return RegionExit{From: b, To: next}, nil
		}
		fr.prev = b
		b = next
	}
}

func (in *Interp) get(fr *frame, v ssa.Value) (Val, error) {
	switch c := v.(type) {
	case *ssa.Const:
		if c.Value == nil {
			return ZeroVal(c.Type()), nil
		}
		switch c.Value.Kind() {
		case constant.Bool:
			return BoolV{Known: true, B: constant.BoolVal(c.Value)}, nil
		case constant.Int:
			if i, ok := constant.Int64Val(c.Value); ok {
				return IntV{K: i}, nil
			}
			if u, ok := constant.Uint64Val(c.Value); ok {
				return IntV{K: int64(u)}, nil
			}
		case constant.String:
			return OpaqueV{"str:" + constant.StringVal(c.Value)}, nil
		}
		return OpaqueV{"const"}, nil
	case *ssa.Function:
		return c, nil
	case *ssa.Global:
		return OpaqueV{"global:" + c.String()}, nil
	}
	val, ok := fr.env[v]
	if !ok {
		return nil, undecided("unbound %s (%s) in %s", v.Name(), v, fr.fn.Name())
	}
	return val, nil
}

// Load reads through a pointer.
func (in *Interp) Load(p Val) (Val, error) {
	switch t := p.(type) {
	case OpaqueV:
		if strings.HasPrefix(t.Name, "global:") {
			return OpaqueV{"value-of-" + t.Name}, nil
		}
	case PtrV:
		v, err := getPath(t.O.V, t.Path)
		if err != nil {
			return nil, undecided("load: %v", err)
		}
		return Clone(v), nil
	}
	return nil, undecided("load through %T", p)
}

// Store writes through a pointer.
func (in *Interp) Store(p Val, v Val) error {
	switch t := p.(type) {
	case PtrV:
		if s, ok := t.O.V.(*Sink); ok {
			s.Log = append(s.Log, SinkWrite{Kind: "u8", V: v})
			return nil
		}
		nv, err := setPath(t.O.V, t.Path, Clone(v))
		if err != nil {
			return undecided("store: %v", err)
		}
		t.O.V = nv
		return nil
	}
	return undecided("store through %T", p)
}

func (in *Interp) block(fr *frame, b *ssa.BasicBlock) (next *ssa.BasicBlock, ret Val, done bool, err error) {
	for _, ins := range b.Instrs {
		in.steps++
		if in.steps > in.MaxSteps {
			return nil, nil, false, undecided("step budget exceeded in %s", fr.fn.Name())
		}
		if in.ValueOverride != nil {
			if v, isVal := ins.(ssa.Value); isVal {
				if ov, ok := in.ValueOverride[v]; ok {
					fr.env[v] = ov
					continue
				}
			}
		}
		switch i := ins.(type) {
		case *ssa.Phi:
			key := fr.fn.Name() + ":" + i.Comment
			if ov, ok := in.PhiOverride[key]; ok && fr.prev != nil && fr.prev.Index < b.Index {
				fr.env[i] = ov
				continue
			}
			if in.HavocPhi != nil && fr.prev != nil && !b.Dominates(fr.prev) && isLoopHeaderPhi(b, i) {
				if hv, ok := in.HavocPhi(fr.fn, i, key); ok {
					fr.env[i] = hv
					continue
				}
			}
			found := false
			for k, pred := range b.Preds {
				if pred == fr.prev {
					v, e := in.get(fr, i.Edges[k])
					if e != nil {
						return nil, nil, false, e
					}
					fr.env[i] = v
					in.LastPhi[key] = v
					found = true
					break
				}
			}
			if !found {
				if _, bound := fr.env[i]; !bound {
					return nil, nil, false, undecided("phi %s without predecessor in %s", i.Name(), fr.fn.Name())
				}
			}
		case *ssa.Alloc:
			fr.env[i] = PtrV{O: &Obj{Name: i.Comment, V: ZeroVal(i.Type().(*types.Pointer).Elem())}}
		case *ssa.FieldAddr:
			p, e := in.get(fr, i.X)
			if e != nil {
				return nil, nil, false, e
			}
			pv, ok := p.(PtrV)
			if !ok {
				return nil, nil, false, undecided("FieldAddr on %T in %s (%s)", p, fr.fn.Name(), i)
			}
			fr.env[i] = PtrV{O: pv.O, Path: append(append([]int{}, pv.Path...), i.Field)}
		case *ssa.Field:
			x, e := in.get(fr, i.X)
			if e != nil {
				return nil, nil, false, e
			}
			sv, ok := x.(StructV)
			if !ok {
				return nil, nil, false, undecided("Field on %T in %s", x, fr.fn.Name())
			}
			fr.env[i] = Clone(sv.F[i.Field])
		case *ssa.IndexAddr:
			v, e := in.indexAddr(fr, i)
			if e != nil {
				return nil, nil, false, e
			}
			fr.env[i] = v
		case *ssa.Index:
			x, e := in.get(fr, i.X)
			if e != nil {
				return nil, nil, false, e
			}
			idx, e := in.get(fr, i.Index)
			if e != nil {
				return nil, nil, false, e
			}
			av, ok1 := x.(ArrV)
			iv, ok2 := idx.(IntV)
			if !ok1 || !ok2 || !iv.Const() || iv.K < 0 || int(iv.K) >= len(av.E) {
				return nil, nil, false, undecided("Index %v[%v] in %s", x, idx, fr.fn.Name())
			}
			fr.env[i] = Clone(av.E[iv.K])
		case *ssa.UnOp:
			x, e := in.get(fr, i.X)
			if e != nil {
				return nil, nil, false, e
			}
			switch i.Op {
			case token.MUL:
				v, e := in.Load(x)
				if e != nil {
					return nil, nil, false, e
				}
				fr.env[i] = v
			case token.NOT:
				bv, ok := x.(BoolV)
				if !ok {
					return nil, nil, false, undecided("! on %T", x)
				}
				if bv.Known {
					fr.env[i] = BoolV{Known: true, B: !bv.B}
				} else if v, ok := in.Assume[bv.Sym]; ok {
					fr.env[i] = BoolV{Known: true, B: !v}
				} else {
					return nil, nil, false, &NeedFork{bv.Sym}
				}
			case token.SUB:
				iv, ok := x.(IntV)
				if !ok || !iv.Const() {
					return nil, nil, false, undecided("unary - on %v", x)
				}
				fr.env[i] = IntV{K: -iv.K}
			default:
				return nil, nil, false, undecided("unop %s in %s", i.Op, fr.fn.Name())
			}
		case *ssa.Store:
			p, e := in.get(fr, i.Addr)
			if e != nil {
				return nil, nil, false, e
			}
			v, e := in.get(fr, i.Val)
			if e != nil {
				return nil, nil, false, e
			}
			if e := in.Store(p, v); e != nil {
				return nil, nil, false, e
			}
		case *ssa.BinOp:
			v, e := in.binop(fr, i)
			if e != nil {
				return nil, nil, false, e
			}
			fr.env[i] = v
		case *ssa.Convert:
			x, e := in.get(fr, i.X)
			if e != nil {
				return nil, nil, false, e
			}
			if iv, ok := x.(IntV); ok && iv.Const() {
				if bt, ok := i.Type().Underlying().(*types.Basic); ok {
					switch bt.Kind() {
					case types.Uint8:
						x = IntV{K: iv.K & 0xff}
					case types.Uint16:
						x = IntV{K: iv.K & 0xffff}
					case types.Uint32:
						x = IntV{K: iv.K & 0xffffffff}
					}
				}
			}
			if iv, ok := x.(IntV); ok && !iv.Const() {
				// a narrowing conversion of a symbolic integer keeps the symbol only under a recorded bound
				if bt, ok := i.Type().Underlying().(*types.Basic); ok {
					if st, ok := i.X.Type().Underlying().(*types.Basic); ok && st.Info()&types.IsInteger != 0 {
						max := map[types.BasicKind]int64{types.Uint8: 0xff, types.Uint16: 0xffff}[bt.Kind()]
						if max != 0 && sizeOf(st.Kind()) > sizeOf(bt.Kind()) && !in.Assume[fmt.Sprintf("(%s<=%d)", iv, max)] && !knownFalse(in.Assume, fmt.Sprintf("(%d<%s)", max, iv)) && !knownFalse(in.Assume, fmt.Sprintf("%d<%s", max, iv)) && !(in.NarrowOK != nil && in.NarrowOK(in, iv.String(), max)) {
							x = IntV{Sym: fmt.Sprintf("%s(%s)", bt.Name(), iv)}
						}
					}
				}
			}
			fr.env[i] = x
		case *ssa.ChangeType:
			x, e := in.get(fr, i.X)
			if e != nil {
				return nil, nil, false, e
			}
			fr.env[i] = x
		case *ssa.Slice:
			v, e := in.slice(fr, i)
			if e != nil {
				return nil, nil, false, e
			}
			fr.env[i] = v
		case *ssa.MakeInterface:
			fr.env[i] = OpaqueV{"iface"}
		case *ssa.MakeClosure:
			cl := ClosureV{Fn: i.Fn.(*ssa.Function)}
			for _, b := range i.Bindings {
				v, e := in.get(fr, b)
				if e != nil {
					return nil, nil, false, e
				}
				cl.Free = append(cl.Free, v)
			}
			fr.env[i] = cl
		case *ssa.MakeSlice:
			fr.env[i] = OpaqueV{"makeslice"}
		case *ssa.Extract:
			t, e := in.get(fr, i.Tuple)
			if e != nil {
				return nil, nil, false, e
			}
			tv, ok := t.(TupleV)
			if !ok || i.Index >= len(tv) {
				return nil, nil, false, undecided("extract from %T", t)
			}
			fr.env[i] = tv[i.Index]
		case *ssa.Call:
			v, e := in.doCall(fr, i)
			if e != nil {
				return nil, nil, false, e
			}
			fr.env[i] = v
		case *ssa.Defer:
			// a deferred call without effects on the modelled state (an empty function
			// literal, a formatting or logging call) is skipped; any other deferred call is
			// not modelled
			if !quietDefer(i) {
				return nil, nil, false, undecided("deferred call %s in %s", i.Call.Value, fr.fn.Name())
			}
		case *ssa.RunDefers:
		case *ssa.If:
			c, e := in.get(fr, i.Cond)
			if e != nil {
				return nil, nil, false, e
			}
			bv, ok := c.(BoolV)
			if !ok {
				return nil, nil, false, undecided("branch on %T in %s block %d", c, fr.fn.Name(), b.Index)
			}
			if !bv.Known {
				v, ok := in.Assume[bv.Sym]
				if !ok {
					return nil, nil, false, &NeedFork{bv.Sym}
				}
				bv = BoolV{Known: true, B: v}
			}
			if bv.B {
				return b.Succs[0], nil, false, nil
			}
			return b.Succs[1], nil, false, nil
		case *ssa.Jump:
			return b.Succs[0], nil, false, nil
		case *ssa.Return:
			var rs TupleV
			for _, r := range i.Results {
				v, e := in.get(fr, r)
				if e != nil {
					return nil, nil, false, e
				}
				rs = append(rs, v)
			}
			if len(rs) == 1 {
				return nil, rs[0], true, nil
			}
			return nil, rs, true, nil
		case *ssa.Panic:
			return nil, ErrV{"panic"}, true, nil
		case *ssa.DebugRef:
		default:
			return nil, nil, false, undecided("instruction %T in %s", ins, fr.fn.Name())
		}
	}
	return nil, nil, false, undecided("fell off block %d of %s", b.Index, fr.fn.Name())
}

func (in *Interp) indexAddr(fr *frame, i *ssa.IndexAddr) (Val, error) {
	x, e := in.get(fr, i.X)
	if e != nil {
		return nil, e
	}
	idx, e := in.get(fr, i.Index)
	if e != nil {
		return nil, e
	}
	iv, ok := idx.(IntV)
	if !ok {
		return nil, undecided("non-integer index in %s", fr.fn.Name())
	}
	switch xs := x.(type) {
	case *SymSlice:
		key := iv.String()
		o, ok := xs.M[key]
		if !ok {
			if xs.Default == nil {
				return nil, undecided("%s[%s] not bound (%s)", xs.Name, key, fr.fn.Name())
			}
			o = xs.Default(key)
			xs.M[key] = o
		}
		return PtrV{O: o}, nil
	case *Sink:
		return PtrV{O: &Obj{V: xs}}, nil
	case PtrV:
		if s, ok := xs.O.V.(*Sink); ok {
			return PtrV{O: &Obj{V: s}}, nil
		}
		if !iv.Const() {
			return nil, undecided("symbolic index %s into array in %s", iv, fr.fn.Name())
		}
		return PtrV{O: xs.O, Path: append(append([]int{}, xs.Path...), int(iv.K))}, nil
	case SliceV:
		if !iv.Const() {
			return nil, undecided("symbolic index %s into slice in %s", iv, fr.fn.Name())
		}
		if iv.K < 0 || xs.Lo+int(iv.K) >= xs.Hi {
			return nil, undecided("index %d out of range [0,%d) in %s", iv.K, xs.Hi-xs.Lo, fr.fn.Name())
		}
		return PtrV{O: xs.O, Path: append(append([]int{}, xs.Path...), xs.Lo+int(iv.K))}, nil
	}
	return nil, undecided("IndexAddr on %T in %s", x, fr.fn.Name())
}

func (in *Interp) slice(fr *frame, i *ssa.Slice) (Val, error) {
	x, e := in.get(fr, i.X)
	if e != nil {
		return nil, e
	}
	bound := func(v ssa.Value, def int) (int, bool, error) {
		if v == nil {
			return def, true, nil
		}
		b, e := in.get(fr, v)
		if e != nil {
			return 0, false, e
		}
		bv, ok := b.(IntV)
		if !ok || !bv.Const() {
			return 0, false, nil
		}
		return int(bv.K), true, nil
	}
	switch xs := x.(type) {
	case *Sink:
		return xs, nil
	case PtrV:
		cur, err := getPath(xs.O.V, xs.Path)
		if err != nil {
			return nil, undecided("slice: %v", err)
		}
		switch t := cur.(type) {
		case ArrV:
			lo, ok1, e := bound(i.Low, 0)
			if e != nil {
				return nil, e
			}
			hi, ok2, e := bound(i.High, len(t.E))
			if e != nil {
				return nil, e
			}
			if !ok1 || !ok2 {
				return nil, undecided("symbolic slice bounds in %s", fr.fn.Name())
			}
			return SliceV{O: xs.O, Path: xs.Path, Lo: lo, Hi: hi}, nil
		case DataV:
			return xs, nil
		case *Sink:
			return t, nil
		}
		return OpaqueV{"slice-of-ptr"}, nil
	case SliceV:
		lo, ok1, e := bound(i.Low, 0)
		if e != nil {
			return nil, e
		}
		hi, ok2, e := bound(i.High, xs.Hi-xs.Lo)
		if e != nil {
			return nil, e
		}
		if !ok1 || !ok2 {
			return nil, undecided("symbolic slice bounds in %s", fr.fn.Name())
		}
		if xs.Lo+hi > xs.Hi || lo > hi {
			return nil, undecided("slice bounds [%d:%d] out of range %d in %s", lo, hi, xs.Hi-xs.Lo, fr.fn.Name())
		}
		return SliceV{O: xs.O, Path: xs.Path, Lo: xs.Lo + lo, Hi: xs.Lo + hi}, nil
	}
	return OpaqueV{"slice"}, nil
}

func (in *Interp) binop(fr *frame, i *ssa.BinOp) (Val, error) {
	x, e := in.get(fr, i.X)
	if e != nil {
		return nil, e
	}
	y, e := in.get(fr, i.Y)
	if e != nil {
		return nil, e
	}
	switch xv := x.(type) {
	case IntV:
		yv, ok := y.(IntV)
		if !ok {
			return nil, undecided("int %s %T", i.Op, y)
		}
		switch i.Op {
		case token.ADD:
			if xv.Sym != "" && yv.Sym != "" {
				return IntV{Sym: "(" + xv.Sym + "+" + yv.Sym + ")", K: xv.K + yv.K}, nil
			}
			return IntV{Sym: xv.Sym + yv.Sym, K: xv.K + yv.K}, nil
		case token.SUB:
			if yv.Sym == xv.Sym {
				return IntV{K: xv.K - yv.K}, nil
			}
			if yv.Sym != "" {
				return IntV{Sym: "(" + xv.String() + "-" + yv.String() + ")"}, nil
			}
			return IntV{Sym: xv.Sym, K: xv.K - yv.K}, nil
		case token.OR, token.AND, token.SHL, token.SHR, token.XOR, token.MUL, token.AND_NOT, token.QUO, token.REM:
			if !xv.Const() || !yv.Const() {
				return IntV{Sym: fmt.Sprintf("(%s%s%s)", xv, i.Op, yv)}, nil
			}
			switch i.Op {
			case token.OR:
				return IntV{K: xv.K | yv.K}, nil
			case token.AND:
				return IntV{K: xv.K & yv.K}, nil
			case token.XOR:
				return IntV{K: xv.K ^ yv.K}, nil
			case token.AND_NOT:
				return IntV{K: xv.K &^ yv.K}, nil
			case token.SHL:
				return IntV{K: xv.K << uint(yv.K)}, nil
			case token.SHR:
				return IntV{K: xv.K >> uint(yv.K)}, nil
			case token.MUL:
				return IntV{K: xv.K * yv.K}, nil
			case token.QUO:
				if yv.K == 0 {
					return nil, undecided("division by zero")
				}
				return IntV{K: xv.K / yv.K}, nil
			case token.REM:
				if yv.K == 0 {
					return nil, undecided("division by zero")
				}
				return IntV{K: xv.K % yv.K}, nil
			}
		case token.EQL, token.NEQ, token.LSS, token.GTR, token.LEQ, token.GEQ:
			if xv.Sym != yv.Sym {
				return BoolV{Sym: fmt.Sprintf("(%s%s%s)", xv, i.Op, yv)}, nil
			}
			var r bool
			switch i.Op {
			case token.EQL:
				r = xv.K == yv.K
			case token.NEQ:
				r = xv.K != yv.K
			case token.LSS:
				r = xv.K < yv.K
			case token.GTR:
				r = xv.K > yv.K
			case token.LEQ:
				r = xv.K <= yv.K
			case token.GEQ:
				r = xv.K >= yv.K
			}
			return BoolV{Known: true, B: r}, nil
		}
	case NilV, ErrV:
		_, xn := x.(NilV)
		_, yn := y.(NilV)
		_, ye := y.(ErrV)
		if yn || ye {
			eq := xn == yn
			if i.Op == token.NEQ {
				eq = !eq
			}
			return BoolV{Known: true, B: eq}, nil
		}
	case BoolV:
		yv, ok := y.(BoolV)
		if ok {
			if !xv.Known {
				if v, ok := in.Assume[xv.Sym]; ok {
					xv = BoolV{Known: true, B: v}
				} else {
					return nil, &NeedFork{xv.Sym}
				}
			}
			if !yv.Known {
				if v, ok := in.Assume[yv.Sym]; ok {
					yv = BoolV{Known: true, B: v}
				} else {
					return nil, &NeedFork{yv.Sym}
				}
			}
			switch i.Op {
			case token.EQL:
				return BoolV{Known: true, B: xv.B == yv.B}, nil
			case token.NEQ:
				return BoolV{Known: true, B: xv.B != yv.B}, nil
			}
		}
	case OpaqueV, PtrV:
		if _, yn := y.(NilV); yn {
			return BoolV{Known: true, B: i.Op == token.NEQ}, nil
		}
	}
	return nil, undecided("binop %s on %T,%T in %s", i.Op, x, y, fr.fn.Name())
}

func (in *Interp) doCall(fr *frame, c *ssa.Call) (Val, error) {
	var args []Val
	if c.Call.IsInvoke() {
		recv, e := in.get(fr, c.Call.Value)
		if e != nil {
			return nil, e
		}
		args = append(args, recv)
	}
	for _, a := range c.Call.Args {
		v, e := in.get(fr, a)
		if e != nil {
			return nil, e
		}
		args = append(args, v)
	}
	if c.Call.IsInvoke() {
		name := c.Call.Method.FullName()
		if m, ok := in.Invokes[name]; ok {
			return m(in, args, c)
		}
		return nil, undecided("interface call %s in %s", name, fr.fn.Name())
	}
	if b, ok := c.Call.Value.(*ssa.Builtin); ok {
		return in.builtin(fr, b, args, c)
	}
	callee := c.Call.StaticCallee()
	if callee == nil {
		// bound method value / closure stored in a variable: the value itself may be a function
		if fv, e := in.get(fr, c.Call.Value); e == nil {
			switch f := fv.(type) {
			case *ssa.Function:
				callee = f
			case ModelVal:
				return f.M(in, args, c)
			case ClosureV:
				name := strings.TrimSuffix(f.Fn.String(), "$bound")
				if m, ok := in.Models[name]; ok {
					return m(in, append(append([]Val{}, f.Free...), args...), c)
				}
				return nil, undecided("call of closure %s in %s", f.Fn, fr.fn.Name())
			}
		}
		if callee == nil {
			return nil, undecided("dynamic call %s in %s", c.Call.Value, fr.fn.Name())
		}
	}
	if m, ok := in.Models[callee.String()]; ok {
		return m(in, args, c)
	}
	// a cell of sync/atomic that caches an object between calls: the interpretation follows the path on which
	// nothing is cached (Load and Swap give nil, the object is built afresh); what a cached object may hold and
	// who may touch it is the business of the cell rules (kept-state inventory, cached-buffer-exclusive)
	if cs := callee.String(); strings.HasPrefix(cs, "(*sync/atomic.Pointer[") {
		switch callee.Name() {
		case "Load", "Swap":
			return NilV{}, nil
		case "Store":
			return nil, nil
		case "CompareAndSwap":
			return BoolV{Known: true, B: true}, nil
		}
	}
	if callee.Pkg != nil && strings.HasPrefix(callee.Pkg.Pkg.Path(), in.InlinePrefix) {
		return in.Call(callee, args)
	}
	// formatting, logging and string helpers of the standard library have no effect
	// on labels or wires; their results are opaque values shaped by the signature
	if callee.Pkg != nil {
		switch callee.Pkg.Pkg.Path() {
		case "fmt", "log", "errors", "strings", "strconv":
			res := callee.Signature.Results()
			vals := make([]Val, res.Len())
			for i := 0; i < res.Len(); i++ {
				if res.At(i).Type().String() == "error" {
					if callee.Pkg.Pkg.Path() == "errors" || callee.Name() == "Errorf" {
						vals[i] = ErrV{callee.Name()}
					} else {
						vals[i] = NilV{}
					}
				} else {
					vals[i] = OpaqueV{callee.String()}
				}
			}
			switch len(vals) {
			case 0:
				return nil, nil
			case 1:
				return vals[0], nil
			}
			return TupleV(vals), nil
		}
	}
	return nil, undecided("call to unmodelled %s in %s", callee, fr.fn.Name())
}

// ClosureV is a function value with bound free variables (including bound methods).
type ClosureV struct {
	Fn   *ssa.Function
	Free []Val
}

// ModelVal is a first-class function value with abstract semantics.
type ModelVal struct {
	Name string
	M    Model
}

func (in *Interp) builtin(fr *frame, b *ssa.Builtin, args []Val, c *ssa.Call) (Val, error) {
	switch b.Name() {
	case "len":
		switch s := args[0].(type) {
		case SliceV:
			return IntV{K: int64(s.Hi - s.Lo)}, nil
		case *SymSlice:
			return s.Len, nil
		case PtrV:
			if v, err := getPath(s.O.V, s.Path); err == nil {
				if _, ok := v.(DataV); ok {
					return IntV{K: 16}, nil
				}
			}
		case BytesOf:
			return IntV{K: 16}, nil
		}
		return nil, undecided("len of %T in %s", args[0], fr.fn.Name())
	case "copy":
		if s, ok := args[0].(*Sink); ok {
			if bo, ok := args[1].(BytesOf); ok {
				s.Log = append(s.Log, SinkWrite{Kind: "label", V: bo.Form})
				return IntV{K: 16}, nil
			}
			return nil, undecided("copy of %T into sink", args[1])
		}
		return nil, undecided("copy into %T in %s", args[0], fr.fn.Name())
	}
	return nil, undecided("builtin %s in %s", b.Name(), fr.fn.Name())
}

// BytesOf is the byte representation of a label (result of Label.Bytes).
type BytesOf struct{ Form LabelV }

// Explore runs f under all assignments of the boolean unknowns it asks for.
// f must be restartable; leaf receives the completed assumption set.
func Explore(assume map[string]bool, f func(assume map[string]bool) error, limit int) (leaves int, err error) {
	var rec func(a map[string]bool) error
	rec = func(a map[string]bool) error {
		e := f(a)
		if nf, ok := e.(*NeedFork); ok {
			if len(a) >= limit {
				return undecided("too many forks (last %s)", nf.Sym)
			}
			for _, v := range []bool{false, true} {
				na := map[string]bool{}
				for k, x := range a {
					na[k] = x
				}
				na[nf.Sym] = v
				if e := rec(na); e != nil {
					return e
				}
			}
			return nil
		}
		if e == nil {
			leaves++
		}
		return e
	}
	return leaves, rec(assume)
}

func sizeOf(k types.BasicKind) int {
	switch k {
	case types.Uint8, types.Int8:
		return 1
	case types.Uint16, types.Int16:
		return 2
	case types.Uint32, types.Int32:
		return 4
	}
	return 8
}

// isLoopHeaderPhi: the block has a back edge (a predecessor it dominates).
func isLoopHeaderPhi(b *ssa.BasicBlock, _ *ssa.Phi) bool {
	for _, p := range b.Preds {
		if b.Dominates(p) {
			return true
		}
	}
	return false
}

// quietDefer: the deferred function has no instruction besides returns and calls into fmt/log.
func quietDefer(d *ssa.Defer) bool {
	var fn *ssa.Function
	switch v := d.Call.Value.(type) {
	case *ssa.Function:
		fn = v
	case *ssa.MakeClosure:
		fn, _ = v.Fn.(*ssa.Function)
	}
	if fn == nil {
		return false
	}
	if fn.Pkg != nil {
		switch fn.Pkg.Pkg.Path() {
		case "fmt", "log":
			return true
		}
	}
	if fn.Blocks == nil {
		return false
	}
	for _, b := range fn.Blocks {
		for _, ins := range b.Instrs {
			switch t := ins.(type) {
			case *ssa.Return, *ssa.Jump, *ssa.RunDefers:
			case *ssa.Call:
				c := t.Call.StaticCallee()
				if c == nil || c.Pkg == nil {
					return false
				}
				switch c.Pkg.Pkg.Path() {
				case "fmt", "log":
				default:
					return false
				}
			default:
				return false
			}
		}
	}
	return true
}

// knownFalse: the open condition k was decided false on this path (the negated form of a bound: !(max < x)).
func knownFalse(assume map[string]bool, k string) bool {
	v, ok := assume[k]
	return ok && !v
}
