package fpai

import (
	"golang.org/x/tools/go/ssa"
)

const otp = "github.com/markkurossi/mpc/ot."
const otl = "(*github.com/markkurossi/mpc/ot.Label)."
const otlv = "(github.com/markkurossi/mpc/ot.Label)."

func ptrLabel(p Val) (PtrV, LabelV, error) {
	pv, ok := p.(PtrV)
	if !ok {
		return PtrV{}, nil, undecided("label receiver is %T", p)
	}
	cur, err := getPath(pv.O.V, pv.Path)
	if err != nil {
		return PtrV{}, nil, undecided("label receiver: %v", err)
	}
	l, ok := cur.(LabelV)
	if !ok {
		return PtrV{}, nil, undecided("label receiver holds %T", cur)
	}
	return pv, l, nil
}

func setLabel(pv PtrV, l LabelV) error {
	nv, err := setPath(pv.O.V, pv.Path, l)
	if err != nil {
		return undecided("label store: %v", err)
	}
	pv.O.V = nv
	return nil
}

func installLabelModels(in *Interp) {
	in.Models[otl+"Xor"] = func(in *Interp, a []Val, _ ssa.CallInstruction) (Val, error) {
		pv, cur, err := ptrLabel(a[0])
		if err != nil {
			return nil, err
		}
		o, ok := a[1].(LabelV)
		if !ok {
			return nil, undecided("Xor operand %T", a[1])
		}
		return NilV{}, setLabel(pv, Xor(cur, o))
	}
	in.Models[otlv+"S"] = func(in *Interp, a []Val, _ ssa.CallInstruction) (Val, error) {
		l, ok := a[0].(LabelV)
		if !ok {
			return nil, undecided("S of %T", a[0])
		}
		return in.SOf(l), nil
	}
	in.Models[otlv+"Equal"] = func(in *Interp, a []Val, _ ssa.CallInstruction) (Val, error) {
		x, ok1 := a[0].(LabelV)
		y, ok2 := a[1].(LabelV)
		if !ok1 || !ok2 {
			return nil, undecided("Equal of %T,%T", a[0], a[1])
		}
		d := Xor(x, y)
		if len(d) == 0 {
			return BoolV{Known: true, B: true}, nil
		}
		// a comparison with a constant label (the zero label): a symbolic label can take
		// that value — free-XOR outputs cancel to zero (XOR w w) — unless its form is known
		// to be non-zero (S(r) = 1).  Both outcomes are explored.
		if len(x) == 0 || len(y) == 0 {
			if s := in.SOf(d); s.Known && s.B {
				return BoolV{Known: true, B: false}, nil
			}
			sym := "iszero(" + d.Canon() + ")"
			if v, ok := in.Assume[sym]; ok {
				return BoolV{Known: true, B: v}, nil
			}
			return BoolV{Sym: sym}, nil
		}
		// distinct canonical forms over independent atoms are unequal in the
		// generic model (r != 0 since S(r)=1).
		return BoolV{Known: true, B: false}, nil
	}
	for name, tag := range map[string]string{"Mul2": "M2", "Mul4": "M4"} {
		tag := tag
		in.Models[otl+name] = func(in *Interp, a []Val, _ ssa.CallInstruction) (Val, error) {
			pv, cur, err := ptrLabel(a[0])
			if err != nil {
				return nil, err
			}
			if len(cur) == 0 {
				// the zero label: doubling is linear over GF(2)
				return NilV{}, setLabel(pv, LabelV{})
			}
			return NilV{}, setLabel(pv, Lab(tag+"("+cur.Canon()+")"))
		}
	}
	in.Models[otp+"NewTweak"] = func(in *Interp, a []Val, _ ssa.CallInstruction) (Val, error) {
		t, ok := a[0].(IntV)
		if !ok {
			return nil, undecided("tweak %T", a[0])
		}
		return Lab("T(" + t.String() + ")"), nil
	}
	in.Models[otlv+"GetData"] = func(in *Interp, a []Val, _ ssa.CallInstruction) (Val, error) {
		l, ok := a[0].(LabelV)
		pv, ok2 := a[1].(PtrV)
		if !ok || !ok2 {
			return nil, undecided("GetData(%T,%T)", a[0], a[1])
		}
		nv, err := setPath(pv.O.V, pv.Path, DataV{Def: true, Form: l})
		if err != nil {
			return nil, undecided("GetData: %v", err)
		}
		pv.O.V = nv
		return NilV{}, nil
	}
	in.Models[otlv+"Bytes"] = func(in *Interp, a []Val, _ ssa.CallInstruction) (Val, error) {
		l, ok := a[0].(LabelV)
		if !ok {
			return nil, undecided("Bytes of %T", a[0])
		}
		if pv, ok := a[1].(PtrV); ok {
			if nv, err := setPath(pv.O.V, pv.Path, DataV{Def: true, Form: l}); err == nil {
				pv.O.V = nv
			}
		}
		return BytesOf{Form: l}, nil
	}
	in.Models[otl+"SetData"] = func(in *Interp, a []Val, _ ssa.CallInstruction) (Val, error) {
		pv, _, err := ptrLabel(a[0])
		if err != nil {
			return nil, err
		}
		dp, ok := a[1].(PtrV)
		if !ok {
			return nil, undecided("SetData from %T", a[1])
		}
		dv, err2 := getPath(dp.O.V, dp.Path)
		d, ok := dv.(DataV)
		if err2 != nil || !ok || !d.Def {
			return nil, undecided("SetData reads scratch data that was not written first")
		}
		return NilV{}, setLabel(pv, Clone(d.Form).(LabelV))
	}
	in.Invokes["(crypto/cipher.Block).Encrypt"] = func(in *Interp, a []Val, _ ssa.CallInstruction) (Val, error) {
		dst, ok1 := a[1].(PtrV)
		src, ok2 := a[2].(PtrV)
		if !ok1 || !ok2 {
			return nil, undecided("Block.Encrypt(%T,%T)", a[1], a[2])
		}
		sv, err := getPath(src.O.V, src.Path)
		d, ok := sv.(DataV)
		if err != nil || !ok || !d.Def {
			return nil, undecided("AES input read from scratch data that was not written first")
		}
		nv, err := setPath(dst.O.V, dst.Path, DataV{Def: true, Form: Lab("AES(" + d.Form.Canon() + ")")})
		if err != nil {
			return nil, undecided("Block.Encrypt: %v", err)
		}
		dst.O.V = nv
		return NilV{}, nil
	}
	in.Models["crypto/aes.NewCipher"] = func(in *Interp, a []Val, _ ssa.CallInstruction) (Val, error) {
		return TupleV{OpaqueV{"cipher"}, NilV{}}, nil
	}
	in.Models["fmt.Errorf"] = func(in *Interp, a []Val, _ ssa.CallInstruction) (Val, error) { return ErrV{"errorf"}, nil }
	in.Models["fmt.Sprintf"] = func(in *Interp, a []Val, _ ssa.CallInstruction) (Val, error) { return OpaqueV{"str"}, nil }
	in.Models["fmt.Printf"] = func(in *Interp, a []Val, _ ssa.CallInstruction) (Val, error) { return TupleV{IntV{}, NilV{}}, nil }
}

// OpaqueEncryptHalf installs the uninterpreted model of circuit.encryptHalf.
func OpaqueEncryptHalf(in *Interp) {
	in.Models["github.com/markkurossi/mpc/circuit.encryptHalf"] = func(in *Interp, a []Val, _ ssa.CallInstruction) (Val, error) {
		x, ok1 := a[1].(LabelV)
		t, ok2 := a[2].(IntV)
		if !ok1 || !ok2 {
			return nil, undecided("encryptHalf(%T,%T)", a[1], a[2])
		}
		if d, ok := a[3].(PtrV); ok {
			if nv, err := setPath(d.O.V, d.Path, DataV{}); err == nil {
				d.O.V = nv // the scratch buffer is clobbered
			}
		}
		return Lab("EH(" + x.Canon() + "," + t.String() + ")"), nil
	}
}
