package fpai

import (
	"golang.org/x/tools/go/ssa"
)

// Loop describes a natural loop body region.
type Loop struct {
	Header *ssa.BasicBlock // block holding the loop phis and the exit test
	Body   *ssa.BasicBlock // first block of the body
}

// EnclosingLoop finds the innermost natural loop that contains blk.
func EnclosingLoop(blk *ssa.BasicBlock) (Loop, bool) {
	child := blk
	for h := blk.Idom(); h != nil; child, h = h, h.Idom() {
		back := false
		for _, p := range h.Preds {
			if h.Dominates(p) && p != h.Idom() {
				back = true
			}
		}
		if back {
			// body entry: successor of h that dominates blk (or is blk)
			for _, s := range h.Succs {
				if s == blk || s.Dominates(blk) {
					return Loop{Header: h, Body: s}, true
				}
			}
			return Loop{Header: h, Body: child}, true
		}
	}
	return Loop{}, false
}

// FindInstr returns the first instruction of fn satisfying pred.
func FindInstr(fn *ssa.Function, pred func(ssa.Instruction) bool) ssa.Instruction {
	for _, b := range fn.Blocks {
		for _, i := range b.Instrs {
			if pred(i) {
				return i
			}
		}
	}
	return nil
}

// FreeValues lists the SSA values used in the region (blocks reachable from
// body without passing through header) but defined outside of it.
func FreeValues(l Loop) []ssa.Value {
	in := map[*ssa.BasicBlock]bool{}
	var stack = []*ssa.BasicBlock{l.Body}
	for len(stack) > 0 {
		b := stack[len(stack)-1]
		stack = stack[:len(stack)-1]
		if in[b] || b == l.Header {
			continue
		}
		in[b] = true
		for _, s := range b.Succs {
			stack = append(stack, s)
		}
	}
	seen := map[ssa.Value]bool{}
	var out []ssa.Value
	for b := range in {
		for _, ins := range b.Instrs {
			for _, op := range ins.Operands(nil) {
				v := *op
				if v == nil || seen[v] {
					continue
				}
				switch d := v.(type) {
				case *ssa.Const, *ssa.Function, *ssa.Global, *ssa.Builtin:
					continue
				case ssa.Instruction:
					if in[d.Block()] {
						continue
					}
				}
				seen[v] = true
				out = append(out, v)
			}
		}
	}
	return out
}
