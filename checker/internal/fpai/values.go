// Package fpai is a small abstract interpreter over go/ssa with finite trace
// partitioning.  Control flow must be decided by the partition (or by
// demand-driven forking on named boolean unknowns); data is abstract:
// integers are constants or affine symbols, labels are GF(2)-affine forms.
package fpai

import (
	"fmt"
	"sort"
	"strings"
)

// Val is an abstract value.
type Val interface{}

// IntV is Sym+K; Sym=="" is the constant K.
type IntV struct {
	Sym string
	K   int64
}

func (i IntV) String() string {
	switch {
	case i.Sym == "":
		return fmt.Sprintf("%d", i.K)
	case i.K == 0:
		return i.Sym
	case i.K > 0:
		return fmt.Sprintf("%s+%d", i.Sym, i.K)
	}
	return fmt.Sprintf("%s%d", i.Sym, i.K)
}

// Const reports whether the integer is a known constant.
func (i IntV) Const() bool { return i.Sym == "" }

// BoolV is a known boolean or a named unknown.
type BoolV struct {
	Known bool
	B     bool
	Sym   string
}

func (b BoolV) String() string {
	if b.Known {
		return fmt.Sprint(b.B)
	}
	return b.Sym
}

// LabelV is a GF(2)-affine form: the XOR of a set of atoms.
type LabelV map[string]bool

// Lab builds a form from atoms (pairs cancel).
func Lab(atoms ...string) LabelV {
	l := LabelV{}
	for _, a := range atoms {
		if l[a] {
			delete(l, a)
		} else {
			l[a] = true
		}
	}
	return l
}

// Canon is the canonical text of the form.
func (l LabelV) Canon() string {
	if len(l) == 0 {
		return "0"
	}
	keys := make([]string, 0, len(l))
	for k := range l {
		keys = append(keys, k)
	}
	sort.Strings(keys)
	return strings.Join(keys, "^")
}

// Xor returns a^b.
func Xor(a, b LabelV) LabelV {
	r := LabelV{}
	for k := range a {
		r[k] = true
	}
	for k := range b {
		if r[k] {
			delete(r, k)
		} else {
			r[k] = true
		}
	}
	return r
}

// HasHashAtom reports whether a non-cancelled hash atom occurs in the form.
func (l LabelV) HasHashAtom() bool {
	for k := range l {
		if strings.HasPrefix(k, "AES(") || strings.HasPrefix(k, "EH(") {
			return true
		}
	}
	return false
}

// StructV, ArrV, TupleV are aggregates.
type StructV struct{ F []Val }
type ArrV struct{ E []Val }
type TupleV []Val

// OpaqueV is a value the analysis does not look into.
type OpaqueV struct{ Name string }

// NilV is the nil pointer / nil interface / nil error.
type NilV struct{}

// ErrV is a non-nil error.
type ErrV struct{ Msg string }

// DataV is the content of an ot.LabelData scratch buffer.
type DataV struct {
	Def  bool
	Form LabelV
}

// Obj is a memory object.
type Obj struct {
	Name string
	V    Val
}

// PtrV points into an object.
type PtrV struct {
	O    *Obj
	Path []int
}

// SliceV is a slice over an array object with known bounds.
type SliceV struct {
	O      *Obj
	Path   []int
	Lo, Hi int
}

// SymSlice is a slice indexed by symbolic integers; elements are objects.
type SymSlice struct {
	Name string
	M    map[string]*Obj
	Len  IntV
	// Default, when set, creates elements on first access.
	Default func(key string) *Obj
}

// Sink records stores (used for byte buffers the code writes to).
type Sink struct {
	Name string
	Log  []SinkWrite
}

// SinkWrite is one logged store.
type SinkWrite struct {
	Kind string // u8 | u16 | u32 | label
	V    Val
}

// Clone deep-copies aggregates (forms are immutable by convention but copied too).
func Clone(v Val) Val {
	switch t := v.(type) {
	case StructV:
		n := StructV{F: make([]Val, len(t.F))}
		for i := range t.F {
			n.F[i] = Clone(t.F[i])
		}
		return n
	case ArrV:
		n := ArrV{E: make([]Val, len(t.E))}
		for i := range t.E {
			n.E[i] = Clone(t.E[i])
		}
		return n
	case LabelV:
		n := LabelV{}
		for k := range t {
			n[k] = true
		}
		return n
	case DataV:
		return DataV{Def: t.Def, Form: Clone(t.Form).(LabelV)}
	}
	return v
}

func getPath(v Val, path []int) (Val, error) {
	for _, p := range path {
		switch t := v.(type) {
		case StructV:
			if p >= len(t.F) {
				return nil, fmt.Errorf("field %d out of range", p)
			}
			v = t.F[p]
		case ArrV:
			if p < 0 || p >= len(t.E) {
				return nil, fmt.Errorf("index %d out of range [0,%d)", p, len(t.E))
			}
			v = t.E[p]
		default:
			return nil, fmt.Errorf("path %v into %T", path, v)
		}
	}
	return v, nil
}

func setPath(v Val, path []int, nv Val) (Val, error) {
	if len(path) == 0 {
		return nv, nil
	}
	switch t := v.(type) {
	case StructV:
		if path[0] >= len(t.F) {
			return nil, fmt.Errorf("field %d out of range", path[0])
		}
		x, err := setPath(t.F[path[0]], path[1:], nv)
		if err != nil {
			return nil, err
		}
		t.F[path[0]] = x
		return t, nil
	case ArrV:
		if path[0] < 0 || path[0] >= len(t.E) {
			return nil, fmt.Errorf("index %d out of range [0,%d)", path[0], len(t.E))
		}
		x, err := setPath(t.E[path[0]], path[1:], nv)
		if err != nil {
			return nil, err
		}
		t.E[path[0]] = x
		return t, nil
	}
	return nil, fmt.Errorf("setPath into %T", v)
}
