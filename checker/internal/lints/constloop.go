package lints

import (
	"fmt"
	"go/ast"
	"go/importer"
	"go/parser"
	"go/token"
	"go/types"

	"mpcverif/internal/load"
	"mpcverif/internal/report"
)

// ConstTerminatedLoop: a builder may look at the construction-time value of
// a wire (is it the shared zero wire, is its Value() known) to build one bit
// more cheaply, but not to stop walking an operand: the shared constant wires
// also stand for interior bits (constants, shifted values), so "the first zero
// wire" is not the end of the operand.  The rule reports a loop whose
// condition, or a break/return inside it, is controlled by such a test on an
// element of a wire vector.
func ConstTerminatedLoop(p *load.Program, run *report.Run, pkgs []string) {
	forEachFunc(p, pkgs, nil, func(c *fnCtx) {
		for _, h := range constLoops(c.pkg.TypesInfo, c.fd) {
			run.Count("constness-tests-in-loops", 1)
			key := fmt.Sprintf("%s/%s", c.name, h.what)
			if h.terminates {
				run.Violate("constness-never-ends-a-bit-loop", key, c.p.Rel(h.pos), "the loop over the bits of an operand ends at the first wire that is a construction-time constant: the shared zero wire also stands for interior zero bits of constants and shifted values, every bit above it is dropped", nil)
			} else {
				run.OK("constness-never-ends-a-bit-loop", key, c.p.Rel(h.pos), "the test only selects how this bit is built")
			}
		}
	})
	fset := token.NewFileSet()
	f, err := parser.ParseFile(fset, "example.go", constLoopExample, 0)
	if err != nil {
		run.Undecided("constness-never-ends-a-bit-loop", "built-in example", "", err.Error())
		return
	}
	info := &types.Info{Types: map[ast.Expr]types.TypeAndValue{}, Defs: map[*ast.Ident]types.Object{}, Uses: map[*ast.Ident]types.Object{}, Selections: map[*ast.SelectorExpr]*types.Selection{}}
	if _, err := (&types.Config{Importer: importer.Default()}).Check("example", fset, []*ast.File{f}, info); err != nil {
		run.Undecided("constness-never-ends-a-bit-loop", "built-in example", "", err.Error())
		return
	}
	got := map[string]bool{}
	seen := map[string]bool{}
	for _, d := range f.Decls {
		if fd, ok := d.(*ast.FuncDecl); ok {
			for _, h := range constLoops(info, fd) {
				seen[fd.Name.Name] = true
				got[fd.Name.Name] = got[fd.Name.Name] || h.terminates
			}
		}
	}
	switch {
	case !got["bad"] || !got["bad2"]:
		run.Undecided("constness-never-ends-a-bit-loop", "built-in example/bad", "", "the rule does not recognise its positive examples")
	case !seen["good"] || got["good"]:
		run.Undecided("constness-never-ends-a-bit-loop", "built-in example/good", "", "the rule misclassifies its negative example")
	default:
		run.Count("constness-examples", 3)
		run.OK("constness-never-ends-a-bit-loop", "built-in examples", "", "loop condition and break on a zero-wire test recognised; per-bit shortcut accepted")
	}
}

const constLoopExample = `package example

type Wire struct{ v int }

func (w *Wire) Value() int { return w.v }

type C struct{ zero *Wire }

func (c *C) ZeroWire() *Wire { return c.zero }

func bad(cc *C, a []*Wire) int {
	zero := cc.ZeroWire()
	n := 0
	for i := 0; i < len(a) && a[i] != zero; i++ {
		n++
	}
	return n
}

func bad2(cc *C, a []*Wire) int {
	n := 0
	for i := 0; i < len(a); i++ {
		if a[i] == cc.ZeroWire() {
			break
		}
		n++
	}
	return n
}

func good(cc *C, a []*Wire) int {
	n := 0
	for i := 0; i < len(a); i++ {
		if a[i] == cc.ZeroWire() {
			continue
		}
		n++
	}
	return n
}
`

type constLoopHit struct {
	pos        token.Pos
	what       string
	terminates bool
}

// isWireElem: an index expression whose value is a pointer to a struct type named Wire.
func isWireElem(info *types.Info, e ast.Expr) bool {
	ix, ok := ast.Unparen(e).(*ast.IndexExpr)
	if !ok {
		return false
	}
	tv, ok := info.Types[ix]
	if !ok {
		return false
	}
	pt, ok := tv.Type.(*types.Pointer)
	if !ok {
		return false
	}
	n, ok := pt.Elem().(*types.Named)
	return ok && n.Obj().Name() == "Wire"
}

// constnessTest: a[i] ==/!= <wire value>, or a[i].Value() ==/!= X.
func constnessTest(info *types.Info, e ast.Expr) bool {
	found := false
	ast.Inspect(e, func(n ast.Node) bool {
		be, ok := n.(*ast.BinaryExpr)
		if !ok || (be.Op != token.EQL && be.Op != token.NEQ) {
			return true
		}
		for _, side := range []ast.Expr{be.X, be.Y} {
			if isWireElem(info, side) {
				found = true
			}
			if call, ok := ast.Unparen(side).(*ast.CallExpr); ok && len(call.Args) == 0 {
				if sel, ok := call.Fun.(*ast.SelectorExpr); ok && sel.Sel.Name == "Value" && isWireElem(info, sel.X) {
					found = true
				}
			}
		}
		return !found
	})
	return found
}

func constLoops(info *types.Info, fd *ast.FuncDecl) []constLoopHit {
	var out []constLoopHit
	ast.Inspect(fd.Body, func(n ast.Node) bool {
		fs, ok := n.(*ast.ForStmt)
		if !ok {
			return true
		}
		if fs.Cond != nil && constnessTest(info, fs.Cond) {
			out = append(out, constLoopHit{fs.Cond.Pos(), "loop condition " + types.ExprString(fs.Cond), true})
		}
		// if-statements directly controlled by a constness test within this loop (not inside nested loops)
		var walk func(list []ast.Stmt)
		walk = func(list []ast.Stmt) {
			for _, st := range list {
				switch t := st.(type) {
				case *ast.IfStmt:
					if constnessTest(info, t.Cond) {
						term := false
						for _, arm := range []ast.Stmt{t.Body, t.Else} {
							if arm == nil {
								continue
							}
							ast.Inspect(arm, func(m ast.Node) bool {
								switch b := m.(type) {
								case *ast.ForStmt, *ast.RangeStmt, *ast.FuncLit, *ast.SwitchStmt, *ast.SelectStmt:
									return false
								case *ast.BranchStmt:
									if b.Tok == token.BREAK || b.Tok == token.GOTO {
										term = true
									}
								}
								return true
							})
						}
						out = append(out, constLoopHit{t.Cond.Pos(), "branch on " + types.ExprString(t.Cond), term})
					}
					walk(t.Body.List)
					if eb, ok := t.Else.(*ast.BlockStmt); ok {
						walk(eb.List)
					}
				case *ast.BlockStmt:
					walk(t.List)
				}
			}
		}
		walk(fs.Body.List)
		return true
	})
	return out
}
