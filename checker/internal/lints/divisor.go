package lints

import (
	"fmt"
	"go/ast"
	"go/token"
	"go/types"

	"golang.org/x/tools/go/types/typeutil"

	"mpcverif/internal/load"
	"mpcverif/internal/report"
)

// DivisorGuard: in the decoders of a package (the named entry functions and
// every function of the same package they reach through static calls) an
// integer division or remainder by a value that is not a constant needs a
// dominating test that the divisor is not zero: the value comes from the
// input, and a zero is one flipped bit away (`[]uint8` -> `[]uint0`).
func DivisorGuard(p *load.Program, run *report.Run, relPkg string, entries []string) {
	pkg := p.ByPath[load.Module+"/"+relPkg]
	if pkg == nil {
		run.Undecided("decoder-divisor-guard", relPkg, "", "package not loaded")
		return
	}
	info := pkg.TypesInfo
	decls := map[types.Object]*ast.FuncDecl{}
	for _, f := range pkg.Syntax {
		for _, d := range f.Decls {
			if fd, ok := d.(*ast.FuncDecl); ok && fd.Body != nil {
				decls[info.ObjectOf(fd.Name)] = fd
			}
		}
	}
	reach := map[*ast.FuncDecl]bool{}
	var visit func(fd *ast.FuncDecl, depth int)
	visit = func(fd *ast.FuncDecl, depth int) {
		if reach[fd] || depth > 6 {
			return
		}
		reach[fd] = true
		ast.Inspect(fd.Body, func(n ast.Node) bool {
			if call, ok := n.(*ast.CallExpr); ok {
				if obj := typeutil.Callee(info, call); obj != nil {
					if cd, ok := decls[obj]; ok {
						visit(cd, depth+1)
					}
				}
			}
			return true
		})
	}
	found := 0
	for obj, fd := range decls {
		for _, e := range entries {
			if obj.Name() == e && fd.Recv == nil {
				found++
				visit(fd, 0)
			}
		}
	}
	if found != len(entries) {
		run.Undecided("decoder-divisor-guard", relPkg, "", fmt.Sprintf("%d of %d entry functions found", found, len(entries)))
		return
	}
	run.Count("decoder-functions", len(reach))
	for fd := range reach {
		name := relPkg + "." + fd.Name.Name
		ast.Inspect(fd.Body, func(n ast.Node) bool {
			var div ast.Expr
			switch t := n.(type) {
			case *ast.BinaryExpr:
				if t.Op == token.QUO || t.Op == token.REM {
					div = t.Y
				}
			case *ast.AssignStmt:
				if (t.Tok == token.QUO_ASSIGN || t.Tok == token.REM_ASSIGN) && len(t.Rhs) == 1 {
					div = t.Rhs[0]
				}
			}
			if div == nil {
				return true
			}
			if tv, ok := info.Types[div]; ok && tv.Value != nil {
				return true // constant divisor
			}
			if bt, ok := info.TypeOf(div).Underlying().(*types.Basic); !ok || bt.Info()&types.IsInteger == 0 {
				return true
			}
			run.Count("input-divisions", 1)
			d := types.ExprString(ast.Unparen(div))
			key := fmt.Sprintf("%s/divide by <%s>", name, info.TypeOf(div).String())
			ok := false
			for _, g := range guardsFor(fd.Body, n) {
				if nonZeroFact(info, g, d) {
					ok = true
				}
			}
			if ok {
				run.OK("decoder-divisor-guard", key, p.Rel(n.Pos()), d+" is tested against zero first")
			} else {
				run.Violate("decoder-divisor-guard", key, p.Rel(n.Pos()), "division by "+d+", a value decoded from the input, without a dominating test that it is not zero: a malformed file panics the parser", nil)
			}
			return true
		})
	}
}

// nonZeroFact: the guard establishes d != 0 at the guarded position.
func nonZeroFact(info *types.Info, g guard, d string) bool {
	var parts []ast.Expr
	var split func(e ast.Expr, op token.Token)
	split = func(e ast.Expr, op token.Token) {
		e = ast.Unparen(e)
		if be, ok := e.(*ast.BinaryExpr); ok && be.Op == op {
			split(be.X, op)
			split(be.Y, op)
			return
		}
		parts = append(parts, e)
	}
	isZero := func(e ast.Expr) (int64, bool) {
		if tv, ok := info.Types[e]; ok && tv.Value != nil {
			s := tv.Value.String()
			if s == "0" {
				return 0, true
			}
			if s == "1" {
				return 1, true
			}
		}
		return 0, false
	}
	if !g.negated {
		split(g.cond, token.LAND)
		for _, c := range parts {
			be, ok := c.(*ast.BinaryExpr)
			if !ok {
				continue
			}
			x, y := types.ExprString(ast.Unparen(be.X)), types.ExprString(ast.Unparen(be.Y))
			if k, ok := isZero(be.Y); ok && x == d {
				if (k == 0 && (be.Op == token.GTR || be.Op == token.NEQ)) || (k == 1 && be.Op == token.GEQ) {
					return true
				}
			}
			if k, ok := isZero(be.X); ok && y == d {
				if (k == 0 && (be.Op == token.LSS || be.Op == token.NEQ)) || (k == 1 && be.Op == token.LEQ) {
					return true
				}
			}
		}
		return false
	}
	// the guard exits when its condition holds: d == 0 (or d <= 0, d < 1) among the disjuncts
	split(g.cond, token.LOR)
	for _, c := range parts {
		be, ok := c.(*ast.BinaryExpr)
		if !ok {
			continue
		}
		x, y := types.ExprString(ast.Unparen(be.X)), types.ExprString(ast.Unparen(be.Y))
		if k, ok := isZero(be.Y); ok && x == d {
			if (k == 0 && (be.Op == token.EQL || be.Op == token.LEQ)) || (k == 1 && be.Op == token.LSS) {
				return true
			}
		}
		if k, ok := isZero(be.X); ok && y == d {
			if (k == 0 && (be.Op == token.EQL || be.Op == token.GEQ)) || (k == 1 && be.Op == token.GTR) {
				return true
			}
		}
	}
	return false
}
