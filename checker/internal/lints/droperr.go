package lints

import (
	"fmt"
	"go/ast"
	"go/types"
	"strings"

	"golang.org/x/tools/go/types/typeutil"

	"mpcverif/internal/load"
	"mpcverif/internal/report"
)

// DroppedError: a call of a function of the package calleePkg that returns an error is
// not used as a bare statement, and its error result is not assigned to the
// blank identifier.  A circuit builder reports an impossible shape (operand
// and result widths that do not fit) through its error; when the caller drops
// it the builder has emitted nothing, the result wires stay undriven and the
// compiled circuit returns zeros.
func DroppedError(p *load.Program, run *report.Run, pkgs []string, calleePkg string) {
	errT := types.Universe.Lookup("error").Type()
	returnsErr := func(info *types.Info, call *ast.CallExpr) (*types.Func, int, bool) {
		fn, ok := typeutil.Callee(info, call).(*types.Func)
		if !ok || fn.Pkg() == nil || fn.Pkg().Path() != load.Module+"/"+calleePkg {
			return nil, 0, false
		}
		res := fn.Type().(*types.Signature).Results()
		if res.Len() == 0 || !types.Identical(res.At(res.Len()-1).Type(), errT) {
			return nil, 0, false
		}
		return fn, res.Len(), true
	}
	forEachFunc(p, pkgs, nil, func(c *fnCtx) {
		info := c.pkg.TypesInfo
		if strings.HasSuffix(p.Fset.Position(c.fd.Pos()).Filename, "_test.go") {
			return
		}
		seen := map[string]int{}
		ast.Inspect(c.fd.Body, func(n ast.Node) bool {
			var call *ast.CallExpr
			dropped := false
			switch t := n.(type) {
			case *ast.ExprStmt:
				call, _ = ast.Unparen(t.X).(*ast.CallExpr)
				dropped = true
			case *ast.AssignStmt:
				if len(t.Rhs) == 1 {
					call, _ = ast.Unparen(t.Rhs[0]).(*ast.CallExpr)
					if call != nil {
						if id, ok := t.Lhs[len(t.Lhs)-1].(*ast.Ident); ok && id.Name == "_" {
							dropped = true
						}
					}
				}
			case *ast.GoStmt:
				call, dropped = t.Call, true
			}
			if call == nil {
				return true
			}
			fn, _, ok := returnsErr(info, call)
			if !ok {
				return true
			}
			if as, isAs := n.(*ast.AssignStmt); isAs && len(as.Lhs) == 1 && len(as.Rhs) == 1 {
				// x := f() with a single error result: used
				if id, ok := as.Lhs[0].(*ast.Ident); !ok || id.Name != "_" {
					dropped = false
				}
			}
			run.Count("builder-calls-returning-error", 1)
			if !dropped {
				return true
			}
			seen[fn.Name()]++
			key := fmt.Sprintf("%s/%s#%d", c.name, fn.Name(), seen[fn.Name()])
			run.Violate("builder-errors-propagated", key, c.p.Rel(call.Pos()), fmt.Sprintf("the error of %s is dropped: when it reports an impossible shape nothing has been built and the wires it should drive stay undriven", fn.Name()), nil)
			return true
		})
	})
}
