package lints

import (
	"fmt"
	"go/ast"
	"go/token"
	"go/types"

	"mpcverif/internal/load"
	"mpcverif/internal/report"
)

// GuardNames: a checked extraction
//
//	v, ok := R.f.(T)
//	if !ok { return ... Errorf("...", S) }
//
// states two beliefs about which value is being extracted: the expression
// (rooted at R) and the diagnostic (which names S).  When R and S are different
// variables of the same type and the diagnostic does not mention R, one of the
// two is wrong — the usual result of copying the block for the left operand
// to handle the right one.  The extracted value then is the wrong operand's.
func GuardNames(p *load.Program, run *report.Run, pkgs []string) {
	forEachFunc(p, pkgs, nil, func(c *fnCtx) {
		info := c.pkg.TypesInfo
		ast.Inspect(c.fd.Body, func(n ast.Node) bool {
			blk, ok := n.(*ast.BlockStmt)
			if !ok {
				return true
			}
			list := effective(info, blk.List)
			for i := 0; i+1 < len(list); i++ {
				as, ok := list[i].(*ast.AssignStmt)
				if !ok || len(as.Lhs) != 2 || len(as.Rhs) != 1 {
					continue
				}
				okID, isID := as.Lhs[1].(*ast.Ident)
				if !isID {
					continue
				}
				if _, isTA := ast.Unparen(as.Rhs[0]).(*ast.TypeAssertExpr); !isTA {
					continue
				}
				root := selRoot(as.Rhs[0].(*ast.TypeAssertExpr).X)
				if root == nil {
					continue
				}
				robj, isVar := info.ObjectOf(root).(*types.Var)
				if !isVar {
					continue
				}
				ifs, ok := list[i+1].(*ast.IfStmt)
				if !ok {
					continue
				}
				neg, ok := ast.Unparen(ifs.Cond).(*ast.UnaryExpr)
				if !ok || neg.Op != token.NOT {
					continue
				}
				if id, ok := ast.Unparen(neg.X).(*ast.Ident); !ok || info.ObjectOf(id) != info.ObjectOf(okID) {
					continue
				}
				// identifiers of the same type as the root named in the guard's body
				var named []*types.Var
				mentionsRoot := false
				ast.Inspect(ifs.Body, func(m ast.Node) bool {
					id, ok := m.(*ast.Ident)
					if !ok {
						return true
					}
					v, ok := info.ObjectOf(id).(*types.Var)
					if !ok || v.IsField() || v.Pos() < c.fd.Pos() || v.Pos() > c.fd.End() {
						return true
					}
					if v == robj {
						mentionsRoot = true
					} else if types.Identical(v.Type(), robj.Type()) {
						named = append(named, v)
					}
					return true
				})
				run.Count("checked-extractions", 1)
				key := fmt.Sprintf("%s/%s := %s", c.name, types.ExprString(as.Lhs[0]), types.ExprString(as.Rhs[0]))
				if !mentionsRoot && len(named) > 0 {
					run.Violate("guard-names-what-it-tests", key, c.p.Rel(as.Pos()), fmt.Sprintf("the extraction reads %s but its failure message names %s: the block was copied from the one for the other operand and still extracts that operand's value", root.Name, named[0].Name()), nil)
				} else {
					run.OK("guard-names-what-it-tests", key, c.p.Rel(as.Pos()), "")
				}
			}
			return true
		})
	})
}

// selRoot: the variable an expression x, x.f, x[i], *x starts from.
func selRoot(e ast.Expr) *ast.Ident {
	for {
		switch t := ast.Unparen(e).(type) {
		case *ast.Ident:
			return t
		case *ast.SelectorExpr:
			e = t.X
		case *ast.IndexExpr:
			e = t.X
		case *ast.StarExpr:
			e = t.X
		default:
			return nil
		}
	}
}

var _ = load.Module
