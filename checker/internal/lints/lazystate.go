package lints

import (
	"fmt"
	"go/ast"
	"go/token"
	"go/types"

	"mpcverif/internal/load"
	"mpcverif/internal/report"
)

// LazyState is the kept-state inventory.  A field of reference type that a
// method creates on first use and keeps — `if x.f == nil { x.f = ... }`,
// `if len(x.f) != n { x.f = make(...) }` — is state that later calls on the
// same object inherit.  Every property here that quantifies over histories
// (repeated batches, repeated runs, reuse after release) depends on what such
// state holds at the start of the next call.  The fields that exist today are
// listed with the rule that covers their contents; a kept field that is not
// listed is reported as undecided: nothing establishes that a later call does
// not see an earlier call's data in it.
func LazyState(p *load.Program, run *report.Run, pkgs []string, frozen map[string]string) {
	seen := map[string]bool{}
	forEachFunc(p, pkgs, nil, func(c *fnCtx) {
		info := c.pkg.TypesInfo
		ast.Inspect(c.fd.Body, func(n ast.Node) bool {
			// state published through an atomic cell: x.f.Store(v) / CompareAndSwap / Swap on a
			// field whose type comes from sync/atomic
			if call, ok := n.(*ast.CallExpr); ok {
				if m, ok := call.Fun.(*ast.SelectorExpr); ok && (m.Sel.Name == "Store" || m.Sel.Name == "CompareAndSwap" || m.Sel.Name == "Swap") {
					if sel, ok := ast.Unparen(m.X).(*ast.SelectorExpr); ok {
						if fld, ok := info.ObjectOf(sel.Sel).(*types.Var); ok && fld.IsField() {
							if nt, ok := fld.Type().(*types.Named); ok && nt.Obj().Pkg() != nil && nt.Obj().Pkg().Path() == "sync/atomic" && (nt.Obj().Name() == "Pointer" || nt.Obj().Name() == "Value") {
								owner := "?"
								if t := info.TypeOf(sel.X); t != nil {
									if pt, ok := t.(*types.Pointer); ok {
										t = pt.Elem()
									}
									if on, ok := t.(*types.Named); ok {
										owner = on.Obj().Pkg().Name() + "." + on.Obj().Name()
									}
								}
								key := owner + "." + fld.Name()
								if !seen[key] {
									seen[key] = true
									run.Count("kept-fields", 1)
									if why, ok := frozen[key]; ok {
										run.OK("kept-state-inventory", key, c.p.Rel(call.Pos()), "listed: "+why)
									} else {
										run.Undecided("kept-state-inventory", key, c.p.Rel(call.Pos()), fmt.Sprintf("%s publishes %s through an atomic cell and keeps it: later calls on the object inherit its contents, and no rule covers what it holds then (not in the inventory of kept state)", c.name, key))
									}
								}
							}
						}
					}
				}
				return true
			}
			ifs, ok := n.(*ast.IfStmt)
			if !ok {
				return true
			}
			// the fields the condition tests for absence / wrong size
			var tested []*ast.SelectorExpr
			ast.Inspect(ifs.Cond, func(m ast.Node) bool {
				be, ok := m.(*ast.BinaryExpr)
				if !ok {
					return true
				}
				switch be.Op {
				case token.EQL:
					if id, ok := ast.Unparen(be.Y).(*ast.Ident); ok && id.Name == "nil" {
						if sel, ok := ast.Unparen(be.X).(*ast.SelectorExpr); ok {
							tested = append(tested, sel)
						}
					}
				case token.NEQ, token.LSS:
					if call, ok := ast.Unparen(be.X).(*ast.CallExpr); ok && len(call.Args) == 1 {
						if id, ok := call.Fun.(*ast.Ident); ok && (id.Name == "len" || id.Name == "cap") {
							if sel, ok := ast.Unparen(call.Args[0]).(*ast.SelectorExpr); ok {
								tested = append(tested, sel)
							}
						}
					}
				}
				return true
			})
			for _, sel := range tested {
				fld, ok := info.ObjectOf(sel.Sel).(*types.Var)
				if !ok || !fld.IsField() {
					continue
				}
				switch fld.Type().Underlying().(type) {
				case *types.Pointer, *types.Slice, *types.Map:
				default:
					continue
				}
				// assigned in the guarded body?
				assigned := false
				ast.Inspect(ifs.Body, func(m ast.Node) bool {
					if as, ok := m.(*ast.AssignStmt); ok {
						for _, l := range as.Lhs {
							if ls, ok := ast.Unparen(l).(*ast.SelectorExpr); ok && info.ObjectOf(ls.Sel) == fld {
								assigned = true
							}
						}
					}
					return true
				})
				if !assigned {
					continue
				}
				owner := "?"
				if t := info.TypeOf(sel.X); t != nil {
					if pt, ok := t.(*types.Pointer); ok {
						t = pt.Elem()
					}
					if nt, ok := t.(*types.Named); ok {
						owner = nt.Obj().Pkg().Name() + "." + nt.Obj().Name()
					}
				}
				key := owner + "." + fld.Name()
				if seen[key] {
					continue
				}
				seen[key] = true
				run.Count("kept-fields", 1)
				// kept state that is a function of the call's own arguments, and is rebuilt whenever they differ
				// from what it was built for, is a cache of a pure value: the parameters of the method that the
				// construction reads, and whether the guard mentions every one of them
				params := map[types.Object]bool{}
				if c.fd.Type.Params != nil {
					for _, f := range c.fd.Type.Params.List {
						for _, n := range f.Names {
							if o := info.ObjectOf(n); o != nil {
								params[o] = true
							}
						}
					}
				}
				built := map[types.Object]string{}
				ast.Inspect(ifs.Body, func(m ast.Node) bool {
					if as, ok := m.(*ast.AssignStmt); ok {
						for i, l := range as.Lhs {
							if ls, ok := ast.Unparen(l).(*ast.SelectorExpr); ok && info.ObjectOf(ls.Sel) == fld && i < len(as.Rhs) {
								ast.Inspect(as.Rhs[i], func(q ast.Node) bool {
									if id, ok := q.(*ast.Ident); ok && params[info.ObjectOf(id)] {
										built[info.ObjectOf(id)] = id.Name
									}
									return true
								})
							}
						}
					}
					return true
				})
				guardMentions := map[types.Object]bool{}
				ast.Inspect(ifs.Cond, func(q ast.Node) bool {
					if id, ok := q.(*ast.Ident); ok && params[info.ObjectOf(id)] {
						guardMentions[info.ObjectOf(id)] = true
					}
					return true
				})
				keyed, missing := len(built) > 0, ""
				for o, name := range built {
					if !guardMentions[o] {
						keyed, missing = false, name
					}
				}
				if why, ok := frozen[key]; ok {
					run.OK("kept-state-inventory", key, c.p.Rel(ifs.Pos()), "listed: "+why)
				} else if keyed {
					run.OK("kept-state-inventory", key, c.p.Rel(ifs.Pos()), "a cache of a value built from the call's arguments; the guard rebuilds it when they differ")
				} else if missing != "" {
					run.Violate("kept-state-inventory", key, c.p.Rel(ifs.Pos()), fmt.Sprintf("%s builds %s from its argument %s on first use and keeps it, but the test that decides whether to rebuild it does not look at %s: a later call with another %s works with the state built for the first one", c.name, key, missing, missing, missing), nil)
				} else {
					run.Undecided("kept-state-inventory", key, c.p.Rel(ifs.Pos()), fmt.Sprintf("%s creates %s on first use and keeps it: later calls on the object inherit its contents, and no rule covers what it holds then (not in the inventory of kept state)", c.name, key))
				}
			}
			return true
		})
	})
}
