// Package lints holds the repository-specific discipline rules.
package lints

import (
	"fmt"
	"go/ast"
	"go/constant"
	"go/token"
	"go/types"
	"strings"

	"golang.org/x/tools/go/packages"

	"mpcverif/internal/load"
	"mpcverif/internal/report"
)

type fnCtx struct {
	p    *load.Program
	pkg  *packages.Package
	fd   *ast.FuncDecl
	name string // package-relative function name: pkg.Recv.Name
}

func forEachFunc(p *load.Program, relPkgs []string, files map[string]bool, f func(c *fnCtx)) int {
	n := 0
	for _, rel := range relPkgs {
		path := load.Module
		if rel != "" {
			path += "/" + rel
		}
		pkg := p.ByPath[path]
		if pkg == nil {
			continue
		}
		for _, file := range pkg.Syntax {
			fname := p.Fset.Position(file.Pos()).Filename
			if files != nil {
				ok := false
				for suffix := range files {
					if strings.HasSuffix(fname, suffix) {
						ok = true
					}
				}
				if !ok {
					continue
				}
			}
			for _, d := range file.Decls {
				fd, ok := d.(*ast.FuncDecl)
				if !ok || fd.Body == nil {
					continue
				}
				name := rel + "." + fd.Name.Name
				if fd.Recv != nil && len(fd.Recv.List) == 1 {
					t := fd.Recv.List[0].Type
					if s, ok := t.(*ast.StarExpr); ok {
						t = s.X
					}
					if id, ok := t.(*ast.Ident); ok {
						name = rel + "." + id.Name + "." + fd.Name.Name
					}
				}
				n++
				f(&fnCtx{p: p, pkg: pkg, fd: fd, name: name})
			}
		}
	}
	return n
}

func (c *fnCtx) text(e ast.Expr) string { return types.ExprString(e) }

func (c *fnCtx) constInt(e ast.Expr) (int64, bool) {
	tv, ok := c.pkg.TypesInfo.Types[e]
	if !ok || tv.Value == nil || tv.Value.Kind() != constant.Int {
		return 0, false
	}
	v, ok := constant.Int64Val(tv.Value)
	return v, ok
}

// endsInExit reports whether the block always leaves the function or loop (return/panic/continue/break).
func endsInExit(b *ast.BlockStmt) bool {
	if b == nil || len(b.List) == 0 {
		return false
	}
	switch s := b.List[len(b.List)-1].(type) {
	case *ast.ReturnStmt:
		return true
	case *ast.BranchStmt:
		return s.Tok == token.CONTINUE || s.Tok == token.BREAK
	case *ast.ExprStmt:
		if call, ok := s.X.(*ast.CallExpr); ok {
			if id, ok := call.Fun.(*ast.Ident); ok && id.Name == "panic" {
				return true
			}
		}
	}
	return false
}

// path returns the chain of nodes from the function body down to target.
func pathTo(root ast.Node, target ast.Node) []ast.Node {
	var path, found []ast.Node
	ast.Inspect(root, func(n ast.Node) bool {
		if found != nil {
			return false
		}
		if n == nil {
			path = path[:len(path)-1]
			return true
		}
		path = append(path, n)
		if n == target {
			found = append([]ast.Node{}, path...)
			return false
		}
		return true
	})
	return found
}

// guardsBefore collects the conditions of `if cond { ...exit }` statements that
// precede target in an enclosing block, and the conditions of enclosing ifs
// (then-branch positive, else-branch negated marker).
type guard struct {
	cond    ast.Expr
	negated bool // the guard is known false at target (early exit taken otherwise)
}

func guardsFor(body *ast.BlockStmt, target ast.Node) []guard {
	var gs []guard
	path := pathTo(body, target)
	for i, n := range path {
		switch t := n.(type) {
		case *ast.BlockStmt:
			if i+1 < len(path) {
				for _, st := range t.List {
					if st == path[i+1] {
						break
					}
					if ifs, ok := st.(*ast.IfStmt); ok && ifs.Else == nil && endsInExit(ifs.Body) {
						gs = append(gs, guard{cond: ifs.Cond, negated: true})
					}
				}
			}
		case *ast.IfStmt:
			if i+1 < len(path) {
				if path[i+1] == ast.Node(t.Body) {
					gs = append(gs, guard{cond: t.Cond})
				} else if t.Else != nil && path[i+1] == t.Else {
					gs = append(gs, guard{cond: t.Cond, negated: true})
				}
			}
		case *ast.ForStmt:
			if i+1 < len(path) && path[i+1] == ast.Node(t.Body) && t.Cond != nil {
				gs = append(gs, guard{cond: t.Cond})
			}
		}
	}
	return gs
}

// ShortRead: a Read whose count is discarded must be io.ReadFull, unless it
// reads from a *bytes.Reader after a dominating exact-length check.
func ShortRead(p *load.Program, run *report.Run, pkgs []string, files map[string]bool) {
	rule := "short-read"
	forEachFunc(p, pkgs, files, func(c *fnCtx) {
		ast.Inspect(c.fd.Body, func(n ast.Node) bool {
			var call *ast.CallExpr
			discarded := false
			switch s := n.(type) {
			case *ast.AssignStmt:
				// line, isPrefix, err := r.ReadLine() with isPrefix discarded: a line longer than the
				// reader's buffer comes back in pieces and the rest is taken for the next line
				if len(s.Rhs) == 1 && len(s.Lhs) == 3 {
					if cl, ok := s.Rhs[0].(*ast.CallExpr); ok {
						if sel, ok := cl.Fun.(*ast.SelectorExpr); ok && sel.Sel.Name == "ReadLine" {
							if rt := c.pkg.TypesInfo.TypeOf(sel.X); rt != nil && strings.HasSuffix(rt.String(), "bufio.Reader") {
								run.Count("read-sites", 1)
								key := c.name + "/" + c.text(sel.X) + ".ReadLine()"
								if id, ok := s.Lhs[1].(*ast.Ident); ok && id.Name == "_" {
									run.Violate(rule, key, c.p.Rel(cl.Pos()), "isPrefix of bufio.Reader.ReadLine discarded: a line longer than the buffer (4096 bytes by default) is returned in pieces, the writer's long lines do not parse back", nil)
								} else {
									run.OK(rule, key, c.p.Rel(cl.Pos()), "isPrefix is read")
								}
							}
						}
					}
				}
				if len(s.Rhs) == 1 && len(s.Lhs) == 2 {
					if cl, ok := s.Rhs[0].(*ast.CallExpr); ok {
						if id, ok := s.Lhs[0].(*ast.Ident); ok && id.Name == "_" {
							call, discarded = cl, true
						}
					}
				}
			case *ast.ExprStmt:
				if cl, ok := s.X.(*ast.CallExpr); ok {
					call, discarded = cl, true
				}
			}
			if call == nil || !discarded {
				return true
			}
			sel, ok := call.Fun.(*ast.SelectorExpr)
			if ok && sel.Sel.Name == "ReadFull" && len(call.Args) == 2 {
				if pk, ok := sel.X.(*ast.Ident); ok {
					if pn, ok := c.pkg.TypesInfo.Uses[pk].(*types.PkgName); ok && pn.Imported().Path() == "io" {
						run.Count("read-sites", 1)
						run.OK(rule, c.name+"/io.ReadFull("+c.text(call.Args[0])+", "+c.text(call.Args[1])+")", c.p.Rel(call.Pos()), "io.ReadFull")
					}
				}
				return true
			}
			if !ok || sel.Sel.Name != "Read" || len(call.Args) != 1 {
				return true
			}
			recv := c.pkg.TypesInfo.TypeOf(sel.X)
			if recv == nil {
				return true
			}
			rt := recv.String()
			key := c.name + "/" + c.text(sel.X) + ".Read(" + c.text(call.Args[0]) + ")"
			pos := c.p.Rel(call.Pos())
			run.Count("read-sites", 1)
			switch {
			case strings.HasSuffix(rt, "bytes.Reader"):
				// accept when an exact or sufficient length check precedes it
				ok := false
				for _, g := range guardsFor(c.fd.Body, n) {
					if !g.negated {
						continue
					}
					t := c.text(g.cond)
					if strings.HasPrefix(t, "len(") && (strings.Contains(t, " != ") || strings.Contains(t, " < ")) {
						ok = true
					}
					if strings.Contains(t, ".Len()") && strings.Contains(t, " > ") {
						ok = true
					}
				}
				if !ok {
					// the check sits in a helper of the package that is handed the reader before the read
					// (length, err := readChunkLen(r)): its body compares the length with r.Len() and fails
					rname := c.text(sel.X)
					ast.Inspect(c.fd.Body, func(m ast.Node) bool {
						hc, isCall := m.(*ast.CallExpr)
						if !isCall || hc.Pos() >= call.Pos() {
							return true
						}
						hid, isId := hc.Fun.(*ast.Ident)
						if !isId {
							return true
						}
						passes := false
						for _, a := range hc.Args {
							if c.text(a) == rname {
								passes = true
							}
						}
						hfn, _ := c.pkg.TypesInfo.Uses[hid].(*types.Func)
						if !passes || hfn == nil || hfn.Pkg() != c.pkg.Types {
							return true
						}
						// the length the helper checked is the length of the buffer read here: `n, err := helper(r)` and
						// the buffer is `make([]byte, n)` (a check of some other length covers nothing)
						sized := false
						ast.Inspect(c.fd.Body, func(q ast.Node) bool {
							as, isAs := q.(*ast.AssignStmt)
							if !isAs || len(as.Rhs) != 1 || as.Rhs[0] != ast.Expr(hc) || len(as.Lhs) == 0 {
								return true
							}
							lid, isID := as.Lhs[0].(*ast.Ident)
							if !isID || lid.Name == "_" {
								return true
							}
							bufName := c.text(call.Args[0])
							ast.Inspect(c.fd.Body, func(r ast.Node) bool {
								bs, isAs := r.(*ast.AssignStmt)
								if !isAs || len(bs.Lhs) != 1 || len(bs.Rhs) != 1 || c.text(bs.Lhs[0]) != bufName {
									return true
								}
								if mk, isCall := bs.Rhs[0].(*ast.CallExpr); isCall && c.text(mk.Fun) == "make" && len(mk.Args) >= 2 {
									ast.Inspect(mk.Args[1], func(x ast.Node) bool {
										if id, ok := x.(*ast.Ident); ok && id.Name == lid.Name {
											sized = true
										}
										return !sized
									})
								}
								return true
							})
							return true
						})
						if !sized {
							return true
						}
						for _, f := range c.pkg.Syntax {
							for _, d := range f.Decls {
								hd, isFD := d.(*ast.FuncDecl)
								if !isFD || hd.Body == nil || c.pkg.TypesInfo.Defs[hd.Name] != types.Object(hfn) {
									continue
								}
								ast.Inspect(hd.Body, func(q ast.Node) bool {
									if ifs, isIf := q.(*ast.IfStmt); isIf {
										t := c.text(ifs.Cond)
										if strings.Contains(t, ".Len()") && strings.Contains(t, " > ") || strings.Contains(t, ".Len()") && strings.Contains(t, " < ") {
											if len(ifs.Body.List) > 0 {
												if _, isRet := ifs.Body.List[len(ifs.Body.List)-1].(*ast.ReturnStmt); isRet {
													ok = true
												}
											}
										}
									}
									return true
								})
							}
						}
						return true
					})
				}
				if ok {
					run.OK(rule, key, pos, "bytes.Reader read covered by a preceding length check")
				} else {
					run.Violate(rule, key, pos, "count of Read on *bytes.Reader discarded and no length check precedes it: a short buffer is accepted silently", nil)
				}
			case strings.HasSuffix(rt, "bufio.Reader"), rt == "io.Reader":
				run.Violate(rule, key, pos, "count of Read on "+rt+" discarded: Read may return fewer bytes than requested (use io.ReadFull)", nil)
			default:
				run.Count("read-sites", -1)
			}
			return true
		})
	})
}

// UnboundedIndexStore: in `for v = ..; ; v++` an index store S[v] must be preceded by a bound check on v.
func UnboundedIndexStore(p *load.Program, run *report.Run, pkgs []string, files map[string]bool) {
	rule := "unbounded-index-store"
	forEachFunc(p, pkgs, files, func(c *fnCtx) {
		ast.Inspect(c.fd.Body, func(n ast.Node) bool {
			fs, ok := n.(*ast.ForStmt)
			if !ok || fs.Cond != nil || fs.Post == nil {
				return true
			}
			inc, ok := fs.Post.(*ast.IncDecStmt)
			if !ok || inc.Tok != token.INC {
				return true
			}
			v, ok := inc.X.(*ast.Ident)
			if !ok {
				return true
			}
			vobj := c.pkg.TypesInfo.ObjectOf(v)
			ast.Inspect(fs.Body, func(m ast.Node) bool {
				as, ok := m.(*ast.AssignStmt)
				if !ok {
					return true
				}
				for _, lhs := range as.Lhs {
					ix, ok := lhs.(*ast.IndexExpr)
					if !ok {
						continue
					}
					id, ok := ix.Index.(*ast.Ident)
					if !ok || c.pkg.TypesInfo.ObjectOf(id) != vobj {
						continue
					}
					if _, isSlice := c.pkg.TypesInfo.TypeOf(ix.X).Underlying().(*types.Slice); !isSlice {
						continue
					}
					key := c.name + "/" + c.text(ix)
					run.Count("counter-index-stores", 1)
					bounded := false
					for _, g := range guardsFor(fs.Body, m) {
						if !g.negated {
							continue
						}
						// the guard leaves the loop when v >= bound or v > bound holds (written in either direction)
						var disj func(e ast.Expr)
						disj = func(e ast.Expr) {
							e = ast.Unparen(e)
							if be, ok := e.(*ast.BinaryExpr); ok && be.Op == token.LOR {
								disj(be.X)
								disj(be.Y)
								return
							}
							if big, _, _, ok := ordCmp(e); ok {
								ast.Inspect(big, func(nn ast.Node) bool {
									if id, ok := nn.(*ast.Ident); ok && c.pkg.TypesInfo.ObjectOf(id) == vobj {
										bounded = true
									}
									return true
								})
							}
						}
						disj(g.cond)
					}
					if bounded {
						run.OK(rule, key, c.p.Rel(ix.Pos()), "bound check precedes the store")
					} else {
						run.Violate(rule, key, c.p.Rel(ix.Pos()), "the loop has no exit condition and no bound check on "+v.Name+" precedes the store: input with more records than declared indexes out of range", nil)
					}
				}
				return true
			})
			return true
		})
	})
}

// FillLoop: a `for i...; i < len(S)` loop that stores into S must index with i.
func FillLoop(p *load.Program, run *report.Run, pkgs []string) {
	rule := "indexed-fill"
	forEachFunc(p, pkgs, nil, func(c *fnCtx) {
		ast.Inspect(c.fd.Body, func(n ast.Node) bool {
			fs, ok := n.(*ast.ForStmt)
			if !ok || fs.Cond == nil {
				return true
			}
			be, ok := fs.Cond.(*ast.BinaryExpr)
			if !ok || be.Op != token.LSS {
				return true
			}
			iv, ok := be.X.(*ast.Ident)
			if !ok {
				return true
			}
			call, ok := be.Y.(*ast.CallExpr)
			if !ok || c.text(call.Fun) != "len" || len(call.Args) != 1 {
				return true
			}
			sl := c.text(call.Args[0])
			iobj := c.pkg.TypesInfo.ObjectOf(iv)
			for _, st := range fs.Body.List {
				as, ok := st.(*ast.AssignStmt)
				if !ok {
					continue
				}
				for _, lhs := range as.Lhs {
					ix, ok := lhs.(*ast.IndexExpr)
					if !ok || c.text(ix.X) != sl {
						continue
					}
					run.Count("fill-loops", 1)
					uses := false
					ast.Inspect(ix.Index, func(m ast.Node) bool {
						if id, ok := m.(*ast.Ident); ok && c.pkg.TypesInfo.ObjectOf(id) == iobj {
							uses = true
						}
						return true
					})
					key := c.name + "/for " + iv.Name + " < len(" + sl + ")/" + c.text(ix)
					if uses {
						run.OK(rule, key, c.p.Rel(ix.Pos()), "")
					} else {
						run.Violate(rule, key, c.p.Rel(ix.Pos()), fmt.Sprintf("the loop runs %s over %s but stores to the loop-invariant index %s", iv.Name, sl, c.text(ix.Index)), nil)
					}
				}
			}
			return true
		})
	})
}

// ConstIndex: S[k] with constant k>=1 needs a condition implying len(S) > k.
func ConstIndex(p *load.Program, run *report.Run, pkgs []string, frozen map[string]string) {
	rule := "const-index-guard"
	forEachFunc(p, pkgs, nil, func(c *fnCtx) {
		ast.Inspect(c.fd.Body, func(n ast.Node) bool {
			ix, ok := n.(*ast.IndexExpr)
			if !ok {
				return true
			}
			t := c.pkg.TypesInfo.TypeOf(ix.X)
			if t == nil {
				return true
			}
			if _, isSlice := t.Underlying().(*types.Slice); !isSlice {
				return true
			}
			k, ok := c.constInt(ix.Index)
			if !ok || k < 1 {
				return true
			}
			// slices built by a composite literal or make with constant length in the same function are fine
			sl := c.text(ix.X)
			key := c.name + "/" + c.text(ix)
			run.Count("const-indices", 1)
			// class: the slice is made with the length of an operand whose short lengths
			// return early, and is only halved (rounding up) while longer than k+1
			if aliasLenAtLeast(c, sl, n, k+1) {
				run.OK(rule, key, c.p.Rel(ix.Pos()), fmt.Sprintf("made with an operand length that early exits keep above %d; only re-sliced to (len+1)/2 while len > %d", k, k+1))
				return true
			}
			proved := false
			for _, g := range guardsFor(c.fd.Body, n) {
				ct := c.text(g.cond)
				for kk := k; kk < k+64; kk++ {
					if !g.negated && (ct == fmt.Sprintf("len(%s) > %d", sl, kk) || ct == fmt.Sprintf("len(%s) >= %d", sl, kk+1)) {
						proved = true
					}
					if !g.negated && strings.HasSuffix(ct, fmt.Sprintf("< len(%s)", sl)) && strings.Contains(ct, "+") {
						// i+1 < len(S) style guards handled by the index form, not constants
					}
				}
				if g.negated && (ct == fmt.Sprintf("len(%s) <= %d", sl, k) || ct == fmt.Sprintf("len(%s) < %d", sl, k+1)) {
					proved = true
				}
			}
			// widths are >= 1: excluding every length 1..k by early exits leaves len > k
			excluded := 0
			for j := int64(1); j <= k; j++ {
				for _, g := range guardsFor(c.fd.Body, n) {
					if g.negated && c.text(g.cond) == fmt.Sprintf("len(%s) == %d", sl, j) {
						excluded++
						break
					}
				}
			}
			if int64(excluded) == k {
				proved = true
			}
			if proved {
				run.OK(rule, key, c.p.Rel(ix.Pos()), "a dominating condition implies len > index")
			} else {
				run.Violate(rule, key, c.p.Rel(ix.Pos()), fmt.Sprintf("constant index %d on %s with no dominating condition implying len(%s) > %d (operand width 1 reaches it)", k, sl, sl, k), nil)
			}
			return true
		})
	})
}

// Rounding: every division/shift of a count must fall in an accepted class.
func Rounding(p *load.Program, run *report.Run, pkgs []string, files map[string]bool, frozen map[string]string) {
	rule := "rounding-discipline"
	forEachFunc(p, pkgs, files, func(c *fnCtx) {
		src := c.fd.Body
		parent := map[ast.Node]ast.Node{}
		var pstack []ast.Node
		ast.Inspect(src, func(n ast.Node) bool {
			if n == nil {
				pstack = pstack[:len(pstack)-1]
				return true
			}
			if len(pstack) > 0 {
				parent[n] = pstack[len(pstack)-1]
			}
			pstack = append(pstack, n)
			return true
		})
		ast.Inspect(src, func(n ast.Node) bool {
			be, ok := n.(*ast.BinaryExpr)
			if !ok || (be.Op != token.QUO && be.Op != token.SHR) {
				return true
			}
			d, ok := c.constInt(be.Y)
			if !ok && be.Op == token.QUO {
				// a count divided by a variable (a number of workers, a block size): the same discipline
				if bt, isInt := c.pkg.TypesInfo.TypeOf(be).Underlying().(*types.Basic); !isInt || bt.Info()&types.IsInteger == 0 {
					return true
				}
				x, y := c.text(be.X), c.text(be.Y)
				key := c.name + "/" + c.text(be)
				pos := c.p.Rel(be.Pos())
				run.Count("division-sites", 1)
				ceil := false
				if par, ok := ast.Unparen(be.X).(*ast.BinaryExpr); ok && (par.Op == token.SUB || par.Op == token.ADD) {
					// (x + y - 1) / y
					t := c.text(par)
					if strings.Contains(t, "+ "+y+" - 1") || strings.Contains(t, y+" - 1") && strings.Contains(t, "+") {
						ceil = true
					}
				}
				hasMod := false
				ast.Inspect(c.fd.Body, func(m ast.Node) bool {
					if t, ok := m.(*ast.BinaryExpr); ok && t.Op == token.REM && c.text(t.X) == x && c.text(t.Y) == y {
						hasMod = true
					}
					return true
				})
				switch {
				case ceil:
					run.OK(rule, key, pos, "ceil idiom")
				case hasMod:
					run.OK(rule, key, pos, "quotient/remainder pair")
				default:
					if why, ok := frozen[key]; ok {
						run.OK(rule, key, pos, "frozen: "+why)
					} else {
						run.Violate(rule, key, pos, fmt.Sprintf("floor division of %s by %s with no remainder handling: the last %s mod %s units are dropped", x, y, x, y), nil)
					}
				}
				return true
			}
			if !ok || d <= 1 && be.Op == token.QUO {
				return true
			}
			if _, isConst := c.constInt(be); isConst {
				return true
			}
			if be.Op == token.SHR {
				if d >= 32 {
					// taking the top bits of a machine word (a carry, a sign) is not a unit conversion
					return true
				}
				d = 1 << uint(d)
			}
			x := c.text(be.X)
			key := c.name + "/" + c.text(be)
			pos := c.p.Rel(be.Pos())
			run.Count("division-sites", 1)
			// class 0: digit extraction — the quotient is immediately narrowed (byte(v >> 8)) or
			// reduced (v >> 8 & 0xff, v / 10 % 10): the dropped part is consumed elsewhere by design
			{
				var up ast.Node = be
				for {
					up = parent[up]
					if _, isParen := up.(*ast.ParenExpr); !isParen {
						break
					}
				}
				digit := false
				switch t := up.(type) {
				case *ast.CallExpr:
					if tv, ok := c.pkg.TypesInfo.Types[t.Fun]; ok && tv.IsType() {
						if bt, ok := tv.Type.Underlying().(*types.Basic); ok && bt.Info()&types.IsInteger != 0 {
							if xt, ok := c.pkg.TypesInfo.TypeOf(be).Underlying().(*types.Basic); ok && intSize(bt) < intSize(xt) {
								digit = true
							}
						}
					}
				case *ast.BinaryExpr:
					if t.Op == token.AND || t.Op == token.REM {
						if _, isK := c.constInt(t.Y); isK && ast.Unparen(t.X) == ast.Expr(be) {
							digit = true
						}
					}
				}
				if digit {
					run.OK(rule, key, pos, "digit extraction: the quotient is narrowed or reduced at once")
					return true
				}
			}
			// class 1: ceil idiom (x + d-1)/d
			if par, ok := be.X.(*ast.ParenExpr); ok {
				if add, ok := par.X.(*ast.BinaryExpr); ok && add.Op == token.ADD {
					if k, ok := c.constInt(add.Y); ok && k == d-1 {
						run.OK(rule, key, pos, "ceil idiom")
						return true
					}
				}
				// x + d - 1 written as a sum: one term that is not a constant, constants adding up to d-1
				var total int64
				vars := 0
				var flat func(e ast.Expr, sign int64) bool
				flat = func(e ast.Expr, sign int64) bool {
					e = ast.Unparen(e)
					if k, ok := c.constInt(e); ok {
						total += sign * k
						return true
					}
					if b, ok := e.(*ast.BinaryExpr); ok && (b.Op == token.ADD || b.Op == token.SUB) {
						if !flat(b.X, sign) {
							return false
						}
						if b.Op == token.SUB {
							return flat(b.Y, -sign)
						}
						return flat(b.Y, sign)
					}
					if sign < 0 {
						return false
					}
					vars++
					return true
				}
				if flat(par.X, 1) && vars == 1 && total == d-1 && be.Op == token.QUO {
					run.OK(rule, key, pos, "ceil idiom")
					return true
				}
			}
			fn := c.fd.Body
			hasMod, guardedMod, remLoop := false, false, false
			ast.Inspect(fn, func(m ast.Node) bool {
				switch t := m.(type) {
				case *ast.BinaryExpr:
					if (t.Op == token.REM || t.Op == token.AND) && c.text(t.X) == x {
						if k, ok := c.constInt(t.Y); ok && (t.Op == token.REM && k == d || t.Op == token.AND && k == d-1) {
							hasMod = true
						}
					}
				case *ast.IfStmt:
					ct := c.text(t.Cond)
					if strings.Contains(ct, x+"%") || strings.Contains(ct, x+" % ") {
						if endsInExit(t.Body) {
							guardedMod = true
						}
					}
				case *ast.ForStmt:
					// remainder loop: init `v := q*d` (or q<<s) and cond `v < x`
					if as, ok := t.Init.(*ast.AssignStmt); ok && len(as.Rhs) == 1 && t.Cond != nil {
						it := c.text(as.Rhs[0])
						ct := c.text(t.Cond)
						if strings.Contains(it, fmt.Sprintf("* %d", d)) && strings.HasSuffix(ct, "< "+x) {
							remLoop = true
						}
					}
				}
				return true
			})
			switch {
			case advancesByMultiples(c, be.X, d):
				run.OK(rule, key, pos, fmt.Sprintf("exact division: %s starts at 0 and advances only by a constant multiple of %d, clamped in the last iteration", x, d))
			case guardedMod:
				run.OK(rule, key, pos, "exact division: remainder checked")
			case hasMod:
				run.OK(rule, key, pos, "quotient/remainder pair")
			case remLoop:
				run.OK(rule, key, pos, "remainder handled by a loop from q*d to x")
			default:
				if why, ok := frozen[key]; ok {
					run.OK(rule, key, pos, "frozen: "+why)
				} else {
					run.Violate(rule, key, pos, fmt.Sprintf("floor division of %s by %d with no remainder handling: the last %s mod %d units are dropped", x, d, x, d), nil)
				}
			}
			return true
		})
	})
}

// aliasLenAtLeast: S := make(..., len(X)); the lengths 1..min-1 of X are excluded by dominating early exits; and S is
// otherwise only re-sliced to (len(S)+1)/2 inside a loop that runs while len(S) > min (ceil halving stays >= min).
func aliasLenAtLeast(c *fnCtx, sl string, at ast.Node, min int64) bool {
	src := ""
	okAssign := true
	ast.Inspect(c.fd.Body, func(n ast.Node) bool {
		as, ok := n.(*ast.AssignStmt)
		if !ok || len(as.Lhs) != 1 || c.text(as.Lhs[0]) != sl || len(as.Rhs) != 1 {
			return true
		}
		rhs := c.text(as.Rhs[0])
		switch {
		case as.Tok == token.DEFINE && strings.HasPrefix(rhs, "make(") && strings.Contains(rhs, ", len("):
			i := strings.LastIndex(rhs, "len(")
			src = strings.TrimSuffix(rhs[i+4:], "))")
		case rhs == fmt.Sprintf("%s[:(len(%s) + 1) / 2]", sl, sl):
			// must sit in a loop guarded by len(S) > min
			guarded := false
			for _, g := range guardsFor(c.fd.Body, n) {
				if !g.negated && c.text(g.cond) == fmt.Sprintf("len(%s) > %d", sl, min) {
					guarded = true
				}
			}
			if !guarded {
				okAssign = false
			}
		default:
			okAssign = false
		}
		return true
	})
	if src == "" || !okAssign {
		return false
	}
	for j := int64(1); j < min; j++ {
		found := false
		for _, g := range guardsFor(c.fd.Body, at) {
			if g.negated && c.text(g.cond) == fmt.Sprintf("len(%s) == %d", src, j) {
				found = true
			}
		}
		if !found {
			return false
		}
	}
	return true
}

// advancesByMultiples: e is a variable that starts at 0 and is only advanced
// by `e += v`, where v is initialised to a constant multiple of d and is
// otherwise only clamped (`if v > r { v = r }`), which can happen in the last
// iteration of the loop over e only.
func advancesByMultiples(c *fnCtx, e ast.Expr, d int64) bool {
	id, ok := ast.Unparen(e).(*ast.Ident)
	if !ok {
		return false
	}
	obj := c.pkg.TypesInfo.ObjectOf(id)
	if obj == nil {
		return false
	}
	is := func(x ast.Expr, o types.Object) bool {
		i, ok := ast.Unparen(x).(*ast.Ident)
		return ok && c.pkg.TypesInfo.ObjectOf(i) == o
	}
	var steps []types.Object
	good, advanced := true, false
	ast.Inspect(c.fd.Body, func(n ast.Node) bool {
		switch t := n.(type) {
		case *ast.AssignStmt:
			for i, l := range t.Lhs {
				if !is(l, obj) {
					continue
				}
				switch {
				case (t.Tok == token.DEFINE || t.Tok == token.ASSIGN) && len(t.Rhs) == len(t.Lhs):
					if k, ok := c.constInt(t.Rhs[i]); !ok || k != 0 {
						good = false
					}
				case t.Tok == token.ADD_ASSIGN && len(t.Rhs) == 1:
					if k, ok := c.constInt(t.Rhs[0]); ok && k%d == 0 {
						advanced = true
					} else if v, ok := ast.Unparen(t.Rhs[0]).(*ast.Ident); ok && c.pkg.TypesInfo.ObjectOf(v) != nil {
						steps = append(steps, c.pkg.TypesInfo.ObjectOf(v))
						advanced = true
					} else {
						good = false
					}
				default:
					good = false
				}
			}
		case *ast.IncDecStmt:
			if is(t.X, obj) {
				good = false
			}
		case *ast.UnaryExpr:
			if t.Op == token.AND && is(t.X, obj) {
				good = false
			}
		}
		return true
	})
	if !good || !advanced {
		return false
	}
	for _, v := range steps {
		inits := 0
		ast.Inspect(c.fd.Body, func(n ast.Node) bool {
			switch t := n.(type) {
			case *ast.IfStmt:
				// the clamp: if v > r { v = r }
				if big, small, strict, ok := ordCmp(t.Cond); ok && strict && is(big, v) && t.Else == nil && t.Init == nil && len(effective(c.pkg.TypesInfo, t.Body.List)) == 1 {
					if as, ok := effective(c.pkg.TypesInfo, t.Body.List)[0].(*ast.AssignStmt); ok && as.Tok == token.ASSIGN && len(as.Lhs) == 1 && is(as.Lhs[0], v) && c.text(as.Rhs[0]) == c.text(small) {
						return false
					}
				}
			case *ast.AssignStmt:
				for i, l := range t.Lhs {
					if !is(l, v) {
						continue
					}
					if t.Tok == token.DEFINE && len(t.Rhs) == len(t.Lhs) {
						if k, ok := c.constInt(t.Rhs[i]); ok && k > 0 && k%d == 0 {
							inits++
							continue
						}
					}
					good = false
				}
			case *ast.IncDecStmt:
				if is(t.X, v) {
					good = false
				}
			case *ast.UnaryExpr:
				if t.Op == token.AND && is(t.X, v) {
					good = false
				}
			}
			return true
		})
		if inits != 1 {
			good = false
		}
	}
	return good
}

// effective drops statements without effect on the rules: the empty statement,
// and a blank assignment or expression statement whose only calls go to the
// formatting/logging/string helpers of the standard library or to len/cap.
func effective(info *types.Info, list []ast.Stmt) []ast.Stmt {
	quietCall := func(c *ast.CallExpr) bool {
		if tv, ok := info.Types[c.Fun]; ok && tv.IsType() {
			return true
		}
		switch f := ast.Unparen(c.Fun).(type) {
		case *ast.Ident:
			if b, ok := info.Uses[f].(*types.Builtin); ok {
				return b.Name() == "len" || b.Name() == "cap"
			}
		case *ast.SelectorExpr:
			if id, ok := f.X.(*ast.Ident); ok {
				if pn, ok := info.Uses[id].(*types.PkgName); ok {
					switch pn.Imported().Path() {
					case "fmt", "log", "errors", "strings", "strconv":
						return true
					}
				}
			}
		}
		return false
	}
	var out []ast.Stmt
	for _, st := range list {
		var exprs []ast.Expr
		skip := false
		switch t := st.(type) {
		case *ast.EmptyStmt:
			skip = true
		case *ast.AssignStmt:
			skip = true
			for _, l := range t.Lhs {
				if id, ok := l.(*ast.Ident); !ok || id.Name != "_" {
					skip = false
				}
			}
			exprs = t.Rhs
		case *ast.ExprStmt:
			if _, ok := t.X.(*ast.CallExpr); ok {
				skip = true
				exprs = []ast.Expr{t.X}
			}
		}
		if skip {
			for _, e := range exprs {
				ast.Inspect(e, func(n ast.Node) bool {
					if c, ok := n.(*ast.CallExpr); ok && !quietCall(c) {
						skip = false
					}
					return skip
				})
			}
		}
		if !skip {
			out = append(out, st)
		}
	}
	return out
}

func intSize(b *types.Basic) int {
	switch b.Kind() {
	case types.Int8, types.Uint8:
		return 1
	case types.Int16, types.Uint16:
		return 2
	case types.Int32, types.Uint32:
		return 4
	}
	return 8
}

// ordCmp reads an ordered comparison in either direction: big > small (strict) or big >= small.
func ordCmp(e ast.Expr) (big, small ast.Expr, strict, ok bool) {
	be, isBin := ast.Unparen(e).(*ast.BinaryExpr)
	if !isBin {
		return nil, nil, false, false
	}
	switch be.Op {
	case token.GTR:
		return be.X, be.Y, true, true
	case token.GEQ:
		return be.X, be.Y, false, true
	case token.LSS:
		return be.Y, be.X, true, true
	case token.LEQ:
		return be.Y, be.X, false, true
	}
	return nil, nil, false, false
}
