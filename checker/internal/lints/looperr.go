package lints

import (
	"fmt"
	"go/ast"
	"go/importer"
	"go/parser"
	"go/token"
	"go/types"

	"mpcverif/internal/load"
	"mpcverif/internal/report"
)

// LoopErrOverwrite: an error variable declared outside a loop and assigned in
// its body is tested before the body ends.  Otherwise every iteration
// overwrites the error of the one before, only the last element's error is
// seen after the loop, and a failure on any other element (a damaged label on
// one output wire) passes as success with a default value in the result.
func LoopErrOverwrite(p *load.Program, run *report.Run, pkgs []string) {
	forEachFunc(p, pkgs, nil, func(c *fnCtx) {
		for _, h := range loopErrs(c.pkg.TypesInfo, c.fd) {
			run.Count("loop-error-assignments", 1)
			key := fmt.Sprintf("%s/%s in loop", c.name, h.name)
			if h.unchecked {
				run.Violate("loop-error-checked-per-iteration", key, c.p.Rel(h.pos), fmt.Sprintf("%s is assigned in the loop body and not tested before the next iteration overwrites it: only the last element's error survives", h.name), nil)
			} else {
				run.OK("loop-error-checked-per-iteration", key, c.p.Rel(h.pos), "tested in the same iteration")
			}
		}
	})
	fset := token.NewFileSet()
	f, err := parser.ParseFile(fset, "example.go", loopErrExample, 0)
	if err != nil {
		run.Undecided("loop-error-checked-per-iteration", "built-in example", "", err.Error())
		return
	}
	info := &types.Info{Types: map[ast.Expr]types.TypeAndValue{}, Defs: map[*ast.Ident]types.Object{}, Uses: map[*ast.Ident]types.Object{}}
	if _, err := (&types.Config{Importer: importer.Default()}).Check("example", fset, []*ast.File{f}, info); err != nil {
		run.Undecided("loop-error-checked-per-iteration", "built-in example", "", err.Error())
		return
	}
	got := map[string]string{}
	for _, d := range f.Decls {
		if fd, ok := d.(*ast.FuncDecl); ok {
			for _, h := range loopErrs(info, fd) {
				if h.unchecked {
					got[fd.Name.Name] = "bad"
				} else if got[fd.Name.Name] == "" {
					got[fd.Name.Name] = "ok"
				}
			}
		}
	}
	if got["bad"] != "bad" || got["good"] != "ok" {
		run.Undecided("loop-error-checked-per-iteration", "built-in examples", "", fmt.Sprintf("the rule misjudges its examples: %v", got))
	} else {
		run.Count("loop-error-examples", 2)
		run.OK("loop-error-checked-per-iteration", "built-in examples", "", "overwritten error recognised; per-iteration check accepted")
	}
}

const loopErrExample = `package example

func f(i int) (bool, error) { return i > 0, nil }

func bad(n int) ([]bool, error) {
	var err error
	out := make([]bool, n)
	for i := range out {
		out[i], err = f(i)
	}
	if err != nil {
		return nil, err
	}
	return out, nil
}

func good(n int) ([]bool, error) {
	var err error
	out := make([]bool, n)
	for i := range out {
		out[i], err = f(i)
		if err != nil {
			return nil, err
		}
	}
	return out, nil
}
`

type loopErrHit struct {
	pos       token.Pos
	name      string
	unchecked bool
}

func loopErrs(info *types.Info, fd *ast.FuncDecl) []loopErrHit {
	var out []loopErrHit
	errT := types.Universe.Lookup("error").Type()
	ast.Inspect(fd.Body, func(n ast.Node) bool {
		var body *ast.BlockStmt
		switch t := n.(type) {
		case *ast.ForStmt:
			body = t.Body
		case *ast.RangeStmt:
			body = t.Body
		}
		if body == nil {
			return true
		}
		for idx, st := range body.List {
			as, ok := st.(*ast.AssignStmt)
			if !ok || as.Tok != token.ASSIGN {
				continue
			}
			hasCall := false
			for _, r := range as.Rhs {
				if _, ok := ast.Unparen(r).(*ast.CallExpr); ok {
					hasCall = true
				}
			}
			if !hasCall {
				continue
			}
			for _, l := range as.Lhs {
				id, ok := l.(*ast.Ident)
				if !ok || id.Name == "_" {
					continue
				}
				obj := info.ObjectOf(id)
				if obj == nil || !types.Identical(obj.Type(), errT) {
					continue
				}
				if obj.Pos() >= body.Pos() && obj.Pos() <= body.End() {
					continue // declared in the body: fresh per iteration
				}
				// a later statement of the body mentions it in a condition, a return, or a call
				checked := false
				for _, later := range body.List[idx+1:] {
					ast.Inspect(later, func(m ast.Node) bool {
						switch t := m.(type) {
						case *ast.IfStmt:
							if mentionsObj(info, t.Cond, map[types.Object]bool{obj: true}) {
								checked = true
							}
						case *ast.SwitchStmt:
							if t.Tag != nil && mentionsObj(info, t.Tag, map[types.Object]bool{obj: true}) {
								checked = true
							}
						case *ast.ReturnStmt:
							for _, r := range t.Results {
								if mentionsObj(info, r, map[types.Object]bool{obj: true}) {
									checked = true
								}
							}
						case *ast.CallExpr:
							for _, a := range t.Args {
								if mentionsObj(info, a, map[types.Object]bool{obj: true}) {
									checked = true
								}
							}
						}
						return !checked
					})
				}
				out = append(out, loopErrHit{as.Pos(), id.Name, !checked})
			}
		}
		return true
	})
	return out
}

var _ = load.Module
