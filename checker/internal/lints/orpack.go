package lints

import (
	"fmt"
	"go/ast"
	"go/token"
	"go/types"

	"mpcverif/internal/load"
	"mpcverif/internal/report"
)

// OrPack is the bit-packing freshness rule: a store `S[e] |= v` only ever sets
// bits, so the packed result is the intended vector only if every position it
// may touch was zero before the packing started.  Accepted forms:
//
//   - assign-bit: the store is the then-branch of an if whose else-branch
//     clears the same position with `S[e] &^= v` (the position is overwritten);
//   - fresh: S is a local that is allocated, declared, or cleared at a
//     statement that precedes the store in an enclosing block, and every loop
//     that encloses the store but not that statement contributes its variable
//     to the index e (directly or through local definitions) — so no position
//     is revisited with stale bits from an earlier iteration;
//   - single: S is a parameter and the store is not inside any loop (a
//     set-one-bit helper; clearing is the caller's business).
//
// Everything else — packing in a loop into a caller's buffer without clearing,
// or into a buffer that outlives the iteration of a loop that does not move
// the position — leaves stale bits and is reported.
func OrPack(p *load.Program, run *report.Run, pkgs []string, files map[string]bool) {
	forEachFunc(p, pkgs, files, func(c *fnCtx) {
		info := c.pkg.TypesInfo
		var stack []ast.Node
		ast.Inspect(c.fd.Body, func(n ast.Node) bool {
			if n == nil {
				stack = stack[:len(stack)-1]
				return true
			}
			stack = append(stack, n)
			as, ok := n.(*ast.AssignStmt)
			if !ok || as.Tok != token.OR_ASSIGN || len(as.Lhs) != 1 {
				return true
			}
			ix := packedElement(as.Lhs[0])
			if ix == nil {
				return true
			}
			if _, isMap := info.TypeOf(ix.X).Underlying().(*types.Map); isMap {
				return true
			}
			run.Count("or-pack-sites", 1)
			key := fmt.Sprintf("%s/%s |=", c.name, typedIndex(info, ix))
			pos := c.p.Rel(as.Pos())
			path := append([]ast.Node(nil), stack...)
			if hasClearingElse(path, as) {
				run.OK("or-pack-fresh", key, pos, "assign-bit: the else branch clears the same position")
				return true
			}
			root := rootIdent(ix.X)
			var obj types.Object
			if root != nil {
				obj = info.ObjectOf(root)
			}
			loops := enclosingLoops(path)
			if obj == nil || !isLocalVar(obj, c.fd) {
				run.Violate("or-pack-fresh", key, pos, "bits are OR-ed into storage reached through a field or package variable; stale bits of an earlier use survive", nil)
				return true
			}
			if isParam(obj, c.fd, info) {
				if len(loops) == 0 {
					run.OK("or-pack-fresh", key, pos, "single: one position of a caller's buffer, no loop")
				} else if clearedBefore(c, info, obj, as, path, loops) {
					run.OK("or-pack-fresh", key, pos, "the caller's buffer is cleared before packing")
				} else {
					run.Violate("or-pack-fresh", key, pos, "a loop packs bits into the caller's buffer with |= only: positions whose bit is 0 keep whatever the buffer held before (not overwritten)", nil)
				}
				return true
			}
			if clearedBefore(c, info, obj, as, path, loops) {
				run.OK("or-pack-fresh", key, pos, "fresh: allocated or cleared before packing; every loop in between moves the position")
			} else {
				run.Violate("or-pack-fresh", key, pos, "the buffer outlives an iteration of an enclosing loop that does not move the packed position and is not cleared in it: bits of an earlier iteration are OR-ed into the next", nil)
			}
			return true
		})
	})
}

// packedElement: the element expression S[e] of a store S[e] |= v or S[e].F |= v.
func packedElement(lhs ast.Expr) *ast.IndexExpr {
	for {
		switch t := ast.Unparen(lhs).(type) {
		case *ast.IndexExpr:
			return t
		case *ast.SelectorExpr:
			lhs = t.X
		default:
			return nil
		}
	}
}

func typedIndex(info *types.Info, ix *ast.IndexExpr) string {
	t := info.TypeOf(ix.X)
	if t == nil {
		return "<?>[…]"
	}
	return "<" + types.TypeString(t, func(p *types.Package) string { return p.Name() }) + ">[…]"
}

func rootIdent(e ast.Expr) *ast.Ident {
	for {
		switch t := ast.Unparen(e).(type) {
		case *ast.Ident:
			return t
		case *ast.IndexExpr:
			e = t.X
		case *ast.SliceExpr:
			e = t.X
		case *ast.StarExpr:
			e = t.X
		default:
			return nil
		}
	}
}

func isLocalVar(obj types.Object, fd *ast.FuncDecl) bool {
	v, ok := obj.(*types.Var)
	if !ok || v.IsField() {
		return false
	}
	return obj.Pos() >= fd.Pos() && obj.Pos() <= fd.End()
}

func isParam(obj types.Object, fd *ast.FuncDecl, info *types.Info) bool {
	lists := []*ast.FieldList{fd.Type.Params, fd.Recv}
	for _, l := range lists {
		if l == nil {
			continue
		}
		for _, f := range l.List {
			for _, n := range f.Names {
				if info.ObjectOf(n) == obj {
					return true
				}
			}
		}
	}
	return false
}

func enclosingLoops(path []ast.Node) []ast.Node {
	var out []ast.Node
	for _, n := range path {
		switch n.(type) {
		case *ast.ForStmt, *ast.RangeStmt:
			out = append(out, n)
		}
	}
	return out
}

// hasClearingElse: path ends in the store; its block is the body of an if with
// an else block that holds `same[e] &^= v`.
func hasClearingElse(path []ast.Node, as *ast.AssignStmt) bool {
	for i := len(path) - 2; i >= 1; i-- {
		blk, ok := path[i].(*ast.BlockStmt)
		if !ok {
			continue
		}
		ifs, ok := path[i-1].(*ast.IfStmt)
		if !ok || ifs.Body != blk {
			return false
		}
		els, ok := ifs.Else.(*ast.BlockStmt)
		if !ok {
			return false
		}
		want := types.ExprString(as.Lhs[0])
		for _, s := range els.List {
			if a2, ok := s.(*ast.AssignStmt); ok && a2.Tok == token.AND_NOT_ASSIGN && len(a2.Lhs) == 1 && types.ExprString(a2.Lhs[0]) == want && types.ExprString(a2.Rhs[0]) == types.ExprString(as.Rhs[0]) {
				return true
			}
		}
		return false
	}
	return false
}

// indexObjects: the objects the index expression depends on, through local
// single definitions (idx := ofs + row).
func indexObjects(c *fnCtx, info *types.Info, e ast.Expr) map[types.Object]bool {
	out := map[types.Object]bool{}
	var add func(e ast.Expr, depth int)
	add = func(e ast.Expr, depth int) {
		ast.Inspect(e, func(n ast.Node) bool {
			id, ok := n.(*ast.Ident)
			if !ok {
				return true
			}
			obj := info.ObjectOf(id)
			if obj == nil || out[obj] {
				return true
			}
			out[obj] = true
			if depth >= 4 {
				return true
			}
			// definitions of obj inside the function
			ast.Inspect(c.fd.Body, func(m ast.Node) bool {
				if as, ok := m.(*ast.AssignStmt); ok && len(as.Lhs) == len(as.Rhs) {
					for i, l := range as.Lhs {
						if li, ok := l.(*ast.Ident); ok && info.ObjectOf(li) == obj {
							add(as.Rhs[i], depth+1)
						}
					}
				}
				return true
			})
			return true
		})
	}
	add(e, 0)
	return out
}

func loopVars(info *types.Info, l ast.Node) []types.Object {
	var out []types.Object
	addIdents := func(n ast.Node) {
		if n == nil {
			return
		}
		ast.Inspect(n, func(m ast.Node) bool {
			switch t := m.(type) {
			case *ast.AssignStmt:
				for _, lhs := range t.Lhs {
					if id, ok := lhs.(*ast.Ident); ok {
						if o := info.ObjectOf(id); o != nil {
							out = append(out, o)
						}
					}
				}
			case *ast.IncDecStmt:
				if id, ok := t.X.(*ast.Ident); ok {
					if o := info.ObjectOf(id); o != nil {
						out = append(out, o)
					}
				}
			}
			return true
		})
	}
	switch t := l.(type) {
	case *ast.ForStmt:
		if t.Init != nil {
			addIdents(t.Init)
		}
		if t.Post != nil {
			addIdents(t.Post)
		}
		// a loop advanced in its body: variables of the condition assigned in the body
		if t.Cond != nil {
			cond := map[types.Object]bool{}
			ast.Inspect(t.Cond, func(m ast.Node) bool {
				if id, ok := m.(*ast.Ident); ok {
					if o := info.ObjectOf(id); o != nil {
						cond[o] = true
					}
				}
				return true
			})
			var assigned []types.Object
			save := out
			out = nil
			addIdents(t.Body)
			assigned, out = out, save
			for _, o := range assigned {
				if cond[o] {
					out = append(out, o)
				}
			}
		}
	case *ast.RangeStmt:
		for _, e := range []ast.Expr{t.Key, t.Value} {
			if id, ok := e.(*ast.Ident); ok && id.Name != "_" {
				if o := info.ObjectOf(id); o != nil {
					out = append(out, o)
				}
			}
		}
	}
	return out
}

// clearedBefore: some fresh site of obj precedes the store in an enclosing
// block, and every loop around the store that does not contain the fresh site
// moves the packed position.
func clearedBefore(c *fnCtx, info *types.Info, obj types.Object, store *ast.AssignStmt, path []ast.Node, loops []ast.Node) bool {
	ix := packedElement(store.Lhs[0])
	deps := indexObjects(c, info, ix.Index)
	for o := range indexObjects(c, info, store.Rhs[0]) {
		deps[o] = true // the loop may move the bit inside the element instead of the element
	}
	onPath := map[ast.Node]bool{}
	for _, n := range path {
		onPath[n] = true
	}
	ok := false
	var stack []ast.Node
	ast.Inspect(c.fd, func(n ast.Node) bool {
		if n == nil {
			stack = stack[:len(stack)-1]
			return true
		}
		stack = append(stack, n)
		if ok || n.Pos() >= store.Pos() || !isFreshSite(info, n, obj) {
			return true
		}
		// the block holding the fresh site must enclose the store
		var blk ast.Node
		for i := len(stack) - 2; i >= 0; i-- {
			switch stack[i].(type) {
			case *ast.BlockStmt, *ast.CaseClause, *ast.FuncDecl:
				blk = stack[i]
			}
			if blk != nil {
				break
			}
		}
		if blk == nil || !onPath[blk] && blk != ast.Node(c.fd) {
			return true
		}
		inSite := map[ast.Node]bool{}
		for _, s := range stack {
			inSite[s] = true
		}
		for _, l := range loops {
			if inSite[l] {
				continue
			}
			moves := false
			for _, v := range loopVars(info, l) {
				if deps[v] {
					moves = true
				}
			}
			if !moves {
				return true
			}
		}
		ok = true
		return true
	})
	return ok
}

func isFreshSite(info *types.Info, n ast.Node, obj types.Object) bool {
	isObj := func(e ast.Expr) bool {
		id, ok := ast.Unparen(e).(*ast.Ident)
		return ok && info.ObjectOf(id) == obj
	}
	freshRHS := func(e ast.Expr) bool {
		switch t := ast.Unparen(e).(type) {
		case *ast.CompositeLit:
			return true
		case *ast.CallExpr:
			if id, ok := t.Fun.(*ast.Ident); ok && (id.Name == "make" || id.Name == "new") {
				_, builtin := info.ObjectOf(id).(*types.Builtin)
				return builtin
			}
		}
		return false
	}
	switch t := n.(type) {
	case *ast.ValueSpec: // var x [N]T ; var x = make(...)
		for i, nm := range t.Names {
			if info.ObjectOf(nm) == obj {
				if len(t.Values) == 0 {
					return true
				}
				if i < len(t.Values) && freshRHS(t.Values[i]) {
					return true
				}
			}
		}
	case *ast.AssignStmt:
		if len(t.Lhs) == len(t.Rhs) {
			for i, l := range t.Lhs {
				if isObj(l) && freshRHS(t.Rhs[i]) {
					return true
				}
			}
		}
	case *ast.ExprStmt:
		if call, ok := t.X.(*ast.CallExpr); ok {
			if id, ok := call.Fun.(*ast.Ident); ok && id.Name == "clear" && len(call.Args) == 1 {
				if _, builtin := info.ObjectOf(id).(*types.Builtin); builtin {
					a := call.Args[0]
					if sl, ok := a.(*ast.SliceExpr); ok && sl.Low == nil && sl.High == nil {
						a = sl.X
					}
					return isObj(a)
				}
			}
		}
	case *ast.RangeStmt: // for i := range x { x[i] = 0 }
		a := t.X
		if sl, ok := a.(*ast.SliceExpr); ok && sl.Low == nil && sl.High == nil {
			a = sl.X
		}
		if isObj(a) && t.Key != nil {
			list := effective(info, t.Body.List)
			if len(list) == 1 {
				if as, ok := list[0].(*ast.AssignStmt); ok && as.Tok == token.ASSIGN && len(as.Lhs) == 1 {
					if ix, ok := as.Lhs[0].(*ast.IndexExpr); ok && isObj(ix.X) && types.ExprString(ix.Index) == types.ExprString(t.Key) {
						if tv, ok := info.Types[as.Rhs[0]]; ok && tv.Value != nil && tv.Value.String() == "0" {
							return true
						}
					}
				}
			}
		}
	}
	return false
}
