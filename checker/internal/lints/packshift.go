package lints

import (
	"go/ast"
	"go/constant"
	"go/token"
	"go/types"
	"strconv"

	"mpcverif/internal/load"
	"mpcverif/internal/report"
)

// PackShift: a bit is put into (or cleared from) a machine word with `X |= 1 << c`, `X &^= 1 << c`,
// `X = X | 1<<c`.  In Go a shift count at or above the width of the word gives 0, silently: the bit is
// lost and nothing fails.  Every such site must have a count that is below the word's width by
// construction:
//
//	c = e % K or e & (K-1) with K <= width (uint/int conversions looked through);
//	c is a variable every assignment of which in the function is such an expression or a constant < width;
//	c is the variable of `for c := A; c < K; c++` / `for c := range K` with constant K <= width, or of a
//	range over an array with at most `width` elements.
//
// A loop variable that ranges over a slice, or over a length the caller or the peer chooses, is the
// reported case (a verdict mask `unknown |= 1 << i` over the outputs of a circuit loses every output
// from index 64 on).  exempt names functions whose count is bounded by a documented contract of the
// function itself, one reason each.
func PackShift(p *load.Program, run *report.Run, pkgs []string, exempt map[string]string) {
	rule := "pack-shift-bounded"
	forEachFunc(p, pkgs, nil, func(c *fnCtx) {
		info := c.pkg.TypesInfo
		width := func(e ast.Expr) int {
			t := info.TypeOf(e)
			if t == nil {
				return 0
			}
			b, ok := t.Underlying().(*types.Basic)
			if !ok {
				return 0
			}
			switch b.Kind() {
			case types.Uint8, types.Int8:
				return 8
			case types.Uint16, types.Int16:
				return 16
			case types.Uint32, types.Int32:
				return 32
			case types.Uint64, types.Int64:
				return 64
			case types.Uint, types.Int, types.Uintptr:
				return 32 // the narrowest platform
			}
			return 0
		}
		constOf := func(e ast.Expr) (int64, bool) {
			if tv, ok := info.Types[e]; ok && tv.Value != nil && tv.Value.Kind() == constant.Int {
				return constant.Int64Val(tv.Value)
			}
			return 0, false
		}
		var bounded func(e ast.Expr, w int, depth int) bool
		// loopBound: the ident is the variable of a loop with a constant bound
		loopBound := func(obj types.Object, w int) (found, ok bool) {
			ast.Inspect(c.fd.Body, func(n ast.Node) bool {
				switch t := n.(type) {
				case *ast.ForStmt:
					as, isAs := t.Init.(*ast.AssignStmt)
					if !isAs || len(as.Lhs) != 1 {
						return true
					}
					id, isId := as.Lhs[0].(*ast.Ident)
					if !isId || info.ObjectOf(id) != obj {
						return true
					}
					found = true
					if big, small, strict, okc := ordCmp(t.Cond); okc {
						if sid, isS := ast.Unparen(small).(*ast.Ident); isS && info.ObjectOf(sid) == obj {
							if k, isK := constOf(big); isK {
								if (strict && k <= int64(w)) || (!strict && k < int64(w)) {
									ok = true
								}
							}
						}
					}
				case *ast.RangeStmt:
					id, isId := t.Key.(*ast.Ident)
					if !isId || info.ObjectOf(id) != obj {
						return true
					}
					found = true
					if k, isK := constOf(t.X); isK && k <= int64(w) {
						ok = true
					}
					if xt := info.TypeOf(t.X); xt != nil {
						if arr, isArr := xt.Underlying().(*types.Array); isArr && arr.Len() <= int64(w) {
							ok = true
						}
						if ptr, isPtr := xt.Underlying().(*types.Pointer); isPtr {
							if arr, isArr := ptr.Elem().Underlying().(*types.Array); isArr && arr.Len() <= int64(w) {
								ok = true
							}
						}
					}
				}
				return true
			})
			return
		}
		bounded = func(e ast.Expr, w int, depth int) bool {
			if depth > 6 {
				return false
			}
			e = ast.Unparen(e)
			if k, ok := constOf(e); ok {
				return k >= 0 && k < int64(w)
			}
			switch t := e.(type) {
			case *ast.CallExpr:
				// conversions
				if tv, ok := info.Types[t.Fun]; ok && tv.IsType() && len(t.Args) == 1 {
					return bounded(t.Args[0], w, depth+1)
				}
			case *ast.BinaryExpr:
				switch t.Op {
				case token.REM:
					if k, ok := constOf(t.Y); ok && k > 0 && k <= int64(w) {
						return true
					}
				case token.AND:
					if k, ok := constOf(t.Y); ok && k >= 0 && k < int64(w) {
						return true
					}
					if k, ok := constOf(t.X); ok && k >= 0 && k < int64(w) {
						return true
					}
				}
			case *ast.Ident:
				obj := info.ObjectOf(t)
				if obj == nil {
					return false
				}
				if found, ok := loopBound(obj, w); found {
					return ok
				}
				// every assignment of the variable in this function
				n, good := 0, true
				ast.Inspect(c.fd.Body, func(nd ast.Node) bool {
					switch s := nd.(type) {
					case *ast.AssignStmt:
						for i, l := range s.Lhs {
							id, ok := l.(*ast.Ident)
							if !ok || info.ObjectOf(id) != obj {
								continue
							}
							n++
							if (s.Tok != token.ASSIGN && s.Tok != token.DEFINE) || len(s.Rhs) != len(s.Lhs) || !bounded(s.Rhs[i], w, depth+1) {
								good = false
							}
						}
					case *ast.IncDecStmt:
						if id, ok := s.X.(*ast.Ident); ok && info.ObjectOf(id) == obj {
							good = false
						}
					}
					return true
				})
				return n > 0 && good
			}
			return false
		}
		// the sites
		check := func(word ast.Expr, shift *ast.BinaryExpr, pos token.Pos) {
			w := width(word)
			if w == 0 {
				return
			}
			run.Count("pack-shift-sites", 1)
			key := c.name + "/" + c.text(word) + " <- 1 << " + c.text(shift.Y)
			if why, ok := exempt[c.name]; ok {
				run.OK(rule, key, c.p.Rel(pos), "exempt: "+why)
				return
			}
			if bounded(shift.Y, w, 0) {
				run.OK(rule, key, c.p.Rel(pos), "the count is below the word width by construction")
			} else {
				run.Violate(rule, key, c.p.Rel(pos), "the shift count "+c.text(shift.Y)+" is not bounded by the "+itoa(w)+"-bit width of "+c.text(word)+": for a count at or above the width the shifted bit is 0, so the bit is silently dropped", nil)
			}
		}
		oneShift := func(e ast.Expr) *ast.BinaryExpr {
			be, ok := ast.Unparen(e).(*ast.BinaryExpr)
			if !ok || be.Op != token.SHL {
				return nil
			}
			x := ast.Unparen(be.X)
			if call, ok := x.(*ast.CallExpr); ok && len(call.Args) == 1 {
				if tv, ok := info.Types[call.Fun]; ok && tv.IsType() {
					x = ast.Unparen(call.Args[0])
				}
			}
			if k, ok := constOf(x); ok && k == 1 {
				return be
			}
			return nil
		}
		ast.Inspect(c.fd.Body, func(n ast.Node) bool {
			as, ok := n.(*ast.AssignStmt)
			if !ok || len(as.Lhs) != 1 || len(as.Rhs) != 1 {
				return true
			}
			switch as.Tok {
			case token.OR_ASSIGN, token.AND_NOT_ASSIGN, token.XOR_ASSIGN:
				if sh := oneShift(as.Rhs[0]); sh != nil {
					check(as.Lhs[0], sh, as.Pos())
				}
			case token.ASSIGN:
				if be, ok := ast.Unparen(as.Rhs[0]).(*ast.BinaryExpr); ok && (be.Op == token.OR || be.Op == token.AND_NOT || be.Op == token.XOR) {
					l := c.text(as.Lhs[0])
					if sh := oneShift(be.Y); sh != nil && c.text(be.X) == l {
						check(as.Lhs[0], sh, as.Pos())
					} else if sh := oneShift(be.X); sh != nil && c.text(be.Y) == l && be.Op != token.AND_NOT {
						check(as.Lhs[0], sh, as.Pos())
					}
				}
			}
			return true
		})
	})
}

func itoa(n int) string { return strconv.Itoa(n) }

var _ = load.Module
