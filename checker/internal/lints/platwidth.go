package lints

import (
	"go/ast"
	"go/constant"
	"go/token"
	"go/types"
	"strings"

	"mpcverif/internal/load"
	"mpcverif/internal/report"
)

// PlatformWidth: the packages that implement fixed-width arithmetic (GF(2^128) products, label words,
// packed bit vectors) must compute the same function on every platform.  `int`, `uint` and `uintptr`
// are 32 bits wide on 386, arm and mips: a conversion of a 64-bit integer to one of them silently drops
// the upper half there, and the amd64 build and its tests cannot see it (bits.TrailingZeros(uint(b)) for
// a uint64 b multiplies every bit 32..63 in at position 32 on a 32-bit platform).  Every conversion from
// int64/uint64 to a platform-sized integer type must therefore have an operand that fits in 31 bits by
// construction: a constant, e & K, e % K with K < 2^31, e >> k with k >= 33, or a comparison-free
// combination of those.
func PlatformWidth(p *load.Program, run *report.Run, pkgs []string, only func(rel string) bool) {
	rule := "no-platform-width-truncation"
	forEachFunc(p, pkgs, nil, func(c *fnCtx) {
		info := c.pkg.TypesInfo
		if only != nil {
			file := c.p.Rel(c.fd.Pos())
			if i := strings.LastIndex(file, ":"); i >= 0 {
				file = file[:i]
			}
			if !only(file) {
				return
			}
		}
		is64 := func(t types.Type) bool {
			b, ok := t.Underlying().(*types.Basic)
			return ok && (b.Kind() == types.Int64 || b.Kind() == types.Uint64)
		}
		isPlat := func(t types.Type) bool {
			b, ok := t.Underlying().(*types.Basic)
			return ok && (b.Kind() == types.Int || b.Kind() == types.Uint || b.Kind() == types.Uintptr)
		}
		constOf := func(e ast.Expr) (int64, bool) {
			if tv, ok := info.Types[e]; ok && tv.Value != nil && tv.Value.Kind() == constant.Int {
				return constant.Int64Val(tv.Value)
			}
			return 0, false
		}
		var small func(e ast.Expr, depth int) bool
		small = func(e ast.Expr, depth int) bool {
			if depth > 6 {
				return false
			}
			e = ast.Unparen(e)
			if k, ok := constOf(e); ok {
				return k >= 0 && k < 1<<31
			}
			switch t := e.(type) {
			case *ast.BinaryExpr:
				switch t.Op {
				case token.AND:
					if k, ok := constOf(t.Y); ok && k >= 0 && k < 1<<31 {
						return true
					}
					if k, ok := constOf(t.X); ok && k >= 0 && k < 1<<31 {
						return true
					}
					return small(t.X, depth+1) || small(t.Y, depth+1)
				case token.REM:
					if k, ok := constOf(t.Y); ok && k > 0 && k < 1<<31 {
						return true
					}
				case token.SHR:
					if k, ok := constOf(t.Y); ok && k >= 33 {
						return true
					}
					return small(t.X, depth+1)
				case token.OR, token.XOR:
					return small(t.X, depth+1) && small(t.Y, depth+1)
				}
			case *ast.CallExpr:
				// a conversion from a narrower type, or a call of len/cap/bits.Len*, bits.OnesCount*, bits.TrailingZeros*
				if tv, ok := info.Types[t.Fun]; ok && tv.IsType() && len(t.Args) == 1 {
					if at := info.TypeOf(t.Args[0]); at != nil && !is64(at) {
						if b, ok := at.Underlying().(*types.Basic); ok && b.Info()&types.IsInteger != 0 && !isPlat(at) {
							return true
						}
					}
					return small(t.Args[0], depth+1)
				}
			}
			return false
		}
		ast.Inspect(c.fd.Body, func(n ast.Node) bool {
			call, ok := n.(*ast.CallExpr)
			if !ok || len(call.Args) != 1 {
				return true
			}
			tv, ok := info.Types[call.Fun]
			if !ok || !tv.IsType() || !isPlat(tv.Type) {
				return true
			}
			at := info.TypeOf(call.Args[0])
			if at == nil || !is64(at) {
				return true
			}
			run.Count("wide-to-platform-conversions", 1)
			key := c.name + "/" + c.text(call)
			if small(call.Args[0], 0) {
				run.OK(rule, key, c.p.Rel(call.Pos()), "the operand fits in 31 bits by construction")
			} else {
				run.Violate(rule, key, c.p.Rel(call.Pos()), "a 64-bit value is converted to "+tv.Type.String()+", which is 32 bits wide on 386/arm/mips: the upper half is dropped there and the function computes something else than on amd64", nil)
			}
			return true
		})
	})
}

var _ = load.Module
