package lints

import (
	"fmt"
	"go/ast"
	"go/token"
	"go/types"
	"sort"
	"strings"

	"mpcverif/internal/load"
	"mpcverif/internal/report"
)

// RecycledReinit: a free list of struct headers (a field of type []*T that is
// both appended to and popped from) hands an object of a dead owner to a new
// one.  Every field of T must be overwritten either where the object is
// released (before the append, on every path) or where it is taken (after the
// pop, on every path to the return of the popping function).  A field reset
// only by some later user ("initialise on allocation") is stale on every path
// that returns before that user runs.
func RecycledReinit(p *load.Program, run *report.Run, pkgs []string) {
	type site struct {
		c    *fnCtx
		stmt *ast.AssignStmt
		v    types.Object
	}
	pushes := map[*types.Var][]site{}
	pops := map[*types.Var][]site{}
	fieldOf := func(info *types.Info, e ast.Expr) *types.Var {
		sel, ok := ast.Unparen(e).(*ast.SelectorExpr)
		if !ok {
			return nil
		}
		s, ok := info.Selections[sel]
		if !ok || s.Kind() != types.FieldVal {
			return nil
		}
		f, _ := s.Obj().(*types.Var)
		if f == nil || headerType(f.Type()) == nil {
			return nil
		}
		return f
	}
	forEachFunc(p, pkgs, nil, func(c *fnCtx) {
		info := c.pkg.TypesInfo
		ast.Inspect(c.fd.Body, func(n ast.Node) bool {
			as, ok := n.(*ast.AssignStmt)
			if !ok || len(as.Lhs) != 1 || len(as.Rhs) != 1 {
				return true
			}
			// push: F = append(F, v)
			if call, ok := ast.Unparen(as.Rhs[0]).(*ast.CallExpr); ok && len(call.Args) == 2 && call.Ellipsis == token.NoPos {
				if id, ok := call.Fun.(*ast.Ident); ok && id.Name == "append" {
					if f := fieldOf(info, as.Lhs[0]); f != nil && fieldOf(info, call.Args[0]) == f {
						if v, ok := ast.Unparen(call.Args[1]).(*ast.Ident); ok {
							pushes[f] = append(pushes[f], site{c, as, info.ObjectOf(v)})
						}
					}
				}
			}
			// pop: r = F[len(F)-1], with F = F[:len(F)-1] in the same function
			if ix, ok := ast.Unparen(as.Rhs[0]).(*ast.IndexExpr); ok {
				if f := fieldOf(info, ix.X); f != nil && isLastIndex(info, ix.Index, f, fieldOf) && truncates(info, c.fd, f, fieldOf) {
					if r, ok := as.Lhs[0].(*ast.Ident); ok {
						pops[f] = append(pops[f], site{c, as, info.ObjectOf(r)})
					}
				}
			}
			return true
		})
	})
	var lists []*types.Var
	for f := range pushes {
		if len(pops[f]) > 0 {
			lists = append(lists, f)
		}
	}
	sort.Slice(lists, func(i, j int) bool { return lists[i].Pos() < lists[j].Pos() })
	for _, f := range lists {
		run.Count("recycling-lists", 1)
		st := headerType(f.Type())
		named := f.Type().(*types.Slice).Elem().(*types.Pointer).Elem().(*types.Named)
		for i := 0; i < st.NumFields(); i++ {
			fld := st.Field(i)
			run.Count("recycled-fields", 1)
			key := fmt.Sprintf("%s.%s/%s.%s", named.Obj().Pkg().Name(), f.Name(), named.Obj().Name(), fld.Name())
			atPush := true
			for _, s := range pushes[f] {
				if !storesBefore(s.c.pkg.TypesInfo, s.c.fd, s.stmt, s.v, fld) {
					atPush = false
				}
			}
			atPop := true
			for _, s := range pops[f] {
				if storesAfter(s.c.pkg.TypesInfo, s.c.fd, s.stmt, s.v, fld) {
					continue
				}
				// one level up: every caller of the popping function overwrites the field of the
				// returned object on every path after the call
				fnObj := s.c.pkg.TypesInfo.Defs[s.c.fd.Name]
				callers, ok := 0, true
				forEachFunc(p, pkgs, nil, func(c2 *fnCtx) {
					ast.Inspect(c2.fd.Body, func(n ast.Node) bool {
						call, isCall := n.(*ast.CallExpr)
						if !isCall {
							return true
						}
						var id *ast.Ident
						switch t := ast.Unparen(call.Fun).(type) {
						case *ast.Ident:
							id = t
						case *ast.SelectorExpr:
							id = t.Sel
						}
						if id == nil || c2.pkg.TypesInfo.Uses[id] != fnObj {
							return true
						}
						callers++
						// the call must be the whole right-hand side of `x := f(...)` / `x = f(...)`
						found := false
						ast.Inspect(c2.fd.Body, func(m ast.Node) bool {
							as, isAs := m.(*ast.AssignStmt)
							if isAs && len(as.Lhs) == 1 && len(as.Rhs) == 1 && ast.Unparen(as.Rhs[0]) == ast.Expr(call) {
								if x, isID := as.Lhs[0].(*ast.Ident); isID && storesAfter(c2.pkg.TypesInfo, c2.fd, as, c2.pkg.TypesInfo.ObjectOf(x), fld) {
									found = true
								}
							}
							return !found
						})
						if !found {
							ok = false
						}
						return true
					})
				})
				if callers == 0 || !ok {
					atPop = false
				}
			}
			pos := p.Rel(pushes[f][0].stmt.Pos())
			switch {
			case atPush:
				run.OK("recycled-object-reinitialised", key, pos, "overwritten before the object is put on the free list")
			case atPop:
				run.OK("recycled-object-reinitialised", key, p.Rel(pops[f][0].stmt.Pos()), "overwritten on every path after the object is taken from the free list")
			default:
				run.Violate("recycled-object-reinitialised", key, pos, fmt.Sprintf("field %s of a recycled %s is overwritten neither where the object is released (%s) nor on every path of the function that takes it from the free list (%s): a new owner that does not set it inherits the previous owner's value", fld.Name(), named.Obj().Name(), strings.TrimPrefix(pushes[f][0].c.name, "."), strings.TrimPrefix(pops[f][0].c.name, ".")), nil)
			}
		}
	}
}

// isLastIndex: len(F)-1.
func isLastIndex(info *types.Info, e ast.Expr, f *types.Var, fieldOf func(*types.Info, ast.Expr) *types.Var) bool {
	be, ok := ast.Unparen(e).(*ast.BinaryExpr)
	if !ok || be.Op != token.SUB {
		return false
	}
	if tv, ok := info.Types[be.Y]; !ok || tv.Value == nil || tv.Value.ExactString() != "1" {
		return false
	}
	call, ok := ast.Unparen(be.X).(*ast.CallExpr)
	if !ok || len(call.Args) != 1 {
		return false
	}
	if id, ok := call.Fun.(*ast.Ident); !ok || id.Name != "len" {
		return false
	}
	return fieldOf(info, call.Args[0]) == f
}

// truncates: the function contains F = F[:len(F)-1].
func truncates(info *types.Info, fd *ast.FuncDecl, f *types.Var, fieldOf func(*types.Info, ast.Expr) *types.Var) bool {
	found := false
	ast.Inspect(fd.Body, func(n ast.Node) bool {
		as, ok := n.(*ast.AssignStmt)
		if !ok || len(as.Lhs) != 1 || len(as.Rhs) != 1 || fieldOf(info, as.Lhs[0]) != f {
			return true
		}
		if se, ok := ast.Unparen(as.Rhs[0]).(*ast.SliceExpr); ok && se.Low == nil && se.High != nil && fieldOf(info, se.X) == f && isLastIndex(info, se.High, f, fieldOf) {
			found = true
		}
		return true
	})
	return found
}

// headerType: []*T with T a named struct of the module.
func headerType(t types.Type) *types.Struct {
	sl, ok := t.(*types.Slice)
	if !ok {
		return nil
	}
	pt, ok := sl.Elem().(*types.Pointer)
	if !ok {
		return nil
	}
	n, ok := pt.Elem().(*types.Named)
	if !ok || n.Obj().Pkg() == nil || !strings.HasPrefix(n.Obj().Pkg().Path(), load.Module) {
		return nil
	}
	st, _ := n.Underlying().(*types.Struct)
	return st
}

// ancestorLists returns, innermost first, the statement lists that contain target together with
// the index of the statement holding it.
func ancestorLists(fd *ast.FuncDecl, target ast.Node) (lists [][]ast.Stmt, idx []int) {
	var walk func(list []ast.Stmt) bool
	walk = func(list []ast.Stmt) bool {
		for i, st := range list {
			if !(st.Pos() <= target.Pos() && target.End() <= st.End()) {
				continue
			}
			found := st == target
			ast.Inspect(st, func(n ast.Node) bool {
				if found {
					return false
				}
				switch t := n.(type) {
				case *ast.BlockStmt:
					if t.Pos() <= target.Pos() && target.End() <= t.End() && walk(t.List) {
						found = true
					}
					return false
				case *ast.CaseClause:
					if t.Pos() <= target.Pos() && target.End() <= t.End() && walk(t.Body) {
						found = true
					}
					return false
				case *ast.CommClause:
					if t.Pos() <= target.Pos() && target.End() <= t.End() && walk(t.Body) {
						found = true
					}
					return false
				case *ast.FuncLit:
					return false
				}
				return true
			})
			if found {
				lists = append(lists, list)
				idx = append(idx, i)
				return true
			}
		}
		return false
	}
	walk(fd.Body.List)
	return
}

func isFieldStore(info *types.Info, st ast.Stmt, v types.Object, fld *types.Var) bool {
	as, ok := st.(*ast.AssignStmt)
	if !ok || as.Tok != token.ASSIGN {
		return false
	}
	for _, l := range as.Lhs {
		sel, ok := ast.Unparen(l).(*ast.SelectorExpr)
		if !ok {
			continue
		}
		id, ok := ast.Unparen(sel.X).(*ast.Ident)
		if !ok || info.ObjectOf(id) != v {
			continue
		}
		if s, ok := info.Selections[sel]; ok && s.Obj() == fld {
			return true
		}
	}
	return false
}

// storesBefore: a statement `v.fld = ...` precedes target in one of the lists enclosing it.
func storesBefore(info *types.Info, fd *ast.FuncDecl, target ast.Stmt, v types.Object, fld *types.Var) bool {
	lists, idx := ancestorLists(fd, target)
	for k, list := range lists {
		for i := 0; i < idx[k]; i++ {
			if isFieldStore(info, list[i], v, fld) {
				return true
			}
		}
	}
	return false
}

// storesAfter: a statement `v.fld = ...` follows target in one of the lists enclosing it, with no
// return statement between the two.
func storesAfter(info *types.Info, fd *ast.FuncDecl, target ast.Stmt, v types.Object, fld *types.Var) bool {
	lists, idx := ancestorLists(fd, target)
	for k, list := range lists {
		for i := idx[k] + 1; i < len(list); i++ {
			if isFieldStore(info, list[i], v, fld) {
				return true
			}
			ret := false
			ast.Inspect(list[i], func(n ast.Node) bool {
				switch n.(type) {
				case *ast.ReturnStmt:
					ret = true
				case *ast.FuncLit:
					return false
				}
				return true
			})
			if ret {
				return false
			}
		}
		// falling out of this list continues in the enclosing one
	}
	return false
}
