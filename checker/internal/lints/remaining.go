package lints

import (
	"fmt"
	"go/ast"
	"go/token"
	"go/types"

	"mpcverif/internal/load"
	"mpcverif/internal/report"
)

// RemainingRequest is the take-the-remainder rule.  A loop
//
//	for acc < total { ...; acc += take(src, k) }
//
// collects `total` units in several takes when the source runs dry in between.
// The amount k asked for in each take must be the remainder total-acc (possibly
// clamped): asking for `total` again over-consumes by whatever the earlier
// takes delivered — and by an amount that depends on how full the source was,
// so two parties drawing from equally filled streams at different moments end
// up at different stream positions.
func RemainingRequest(p *load.Program, run *report.Run, pkgs []string) {
	forEachFunc(p, pkgs, nil, func(c *fnCtx) {
		info := c.pkg.TypesInfo
		ast.Inspect(c.fd.Body, func(n ast.Node) bool {
			fs, ok := n.(*ast.ForStmt)
			if !ok || fs.Cond == nil {
				return true
			}
			cond, ok := fs.Cond.(*ast.BinaryExpr)
			if !ok || cond.Op != token.LSS {
				return true
			}
			accID, ok1 := cond.X.(*ast.Ident)
			if !ok1 {
				return true
			}
			acc := info.ObjectOf(accID)
			total := types.ExprString(cond.Y)
			// the accumulation acc += call(...) directly in the loop body (not in a nested loop)
			for _, st := range effective(info, fs.Body.List) {
				as, ok := st.(*ast.AssignStmt)
				if !ok || as.Tok != token.ADD_ASSIGN || len(as.Lhs) != 1 {
					continue
				}
				lid, ok := as.Lhs[0].(*ast.Ident)
				if !ok || info.ObjectOf(lid) != acc {
					continue
				}
				call, ok := as.Rhs[0].(*ast.CallExpr)
				if !ok {
					// `n := take(...); acc += n`: the count kept in a local for another use
					if nid, isID := ast.Unparen(as.Rhs[0]).(*ast.Ident); isID {
						defs := 0
						for _, s2 := range effective(info, fs.Body.List) {
							d, isAs := s2.(*ast.AssignStmt)
							if !isAs || len(d.Lhs) != 1 || len(d.Rhs) != 1 {
								continue
							}
							if l, isL := d.Lhs[0].(*ast.Ident); isL && info.ObjectOf(l) == info.ObjectOf(nid) {
								defs++
								call, _ = ast.Unparen(d.Rhs[0]).(*ast.CallExpr)
							}
						}
						if defs != 1 {
							call = nil
						}
					}
					if call == nil {
						continue
					}
				}
				run.Count("take-loops", 1)
				key := fmt.Sprintf("%s/for <acc> < %s/<acc> += %s(…)", c.name, normTotal(info, cond.Y), calleeName(info, call))
				pos := c.p.Rel(as.Pos())
				good := false
				for _, a := range call.Args {
					if isRemainder(info, c.fd, a, total, acc, 0) {
						good = true
					}
				}
				if good {
					run.OK("take-remainder", key, pos, "each take asks for total - taken")
				} else {
					run.Violate("take-remainder", key, pos, fmt.Sprintf("the take inside `for %s < %s` is not given the remainder %s - %s: after a partial take the next one over-consumes the source", accID.Name, total, total, accID.Name), nil)
				}
			}
			return true
		})
	})
}

func normTotal(info *types.Info, e ast.Expr) string {
	if t := info.TypeOf(e); t != nil {
		return "<" + t.String() + ">"
	}
	return "<?>"
}

func calleeName(info *types.Info, call *ast.CallExpr) string {
	switch f := call.Fun.(type) {
	case *ast.SelectorExpr:
		return f.Sel.Name
	case *ast.Ident:
		return f.Name
	}
	return "?"
}

// isRemainder: e is total - acc, a local defined as such, or a min/clamp of it.
func isRemainder(info *types.Info, fd *ast.FuncDecl, e ast.Expr, total string, acc types.Object, depth int) bool {
	e = ast.Unparen(e)
	if be, ok := e.(*ast.BinaryExpr); ok && be.Op == token.SUB && types.ExprString(be.X) == total {
		if id, ok := ast.Unparen(be.Y).(*ast.Ident); ok && info.ObjectOf(id) == acc {
			return true
		}
	}
	if call, ok := e.(*ast.CallExpr); ok {
		if id, ok := call.Fun.(*ast.Ident); ok && id.Name == "min" {
			for _, a := range call.Args {
				if isRemainder(info, fd, a, total, acc, depth+1) {
					return true
				}
			}
		}
		// a conversion
		if len(call.Args) == 1 {
			if tv, ok := info.Types[call.Fun]; ok && tv.IsType() {
				return isRemainder(info, fd, call.Args[0], total, acc, depth+1)
			}
		}
	}
	if id, ok := e.(*ast.Ident); ok && depth < 3 {
		obj := info.ObjectOf(id)
		found := false
		ast.Inspect(fd.Body, func(n ast.Node) bool {
			if as, ok := n.(*ast.AssignStmt); ok && len(as.Lhs) == len(as.Rhs) {
				for i, l := range as.Lhs {
					if li, ok := l.(*ast.Ident); ok && info.ObjectOf(li) == obj && as.Tok == token.DEFINE {
						if isRemainder(info, fd, as.Rhs[i], total, acc, depth+1) {
							found = true
						}
					}
				}
			}
			return true
		})
		return found
	}
	return false
}
