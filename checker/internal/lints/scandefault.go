package lints

import (
	"fmt"
	"go/ast"
	"go/constant"
	"go/importer"
	"go/parser"
	"go/token"
	"go/types"

	"mpcverif/internal/load"
	"mpcverif/internal/report"
)

// ScanDefault: a descending scan
//
//	for i := H; i > L; i-- { if test(i) { return f(i) } }
//	return D
//
// answers f(i) for the highest position that passes the test and D when none
// of H..L+1 does.  Position L is never tested, so D must be what position L
// would have returned, f(L): otherwise the values whose highest set position
// is exactly L get the answer of a lower position (a bit length that is one
// too small).  With `i >= L` the default must be f(L-1).
func ScanDefault(p *load.Program, run *report.Run, pkgs []string) {
	forEachFunc(p, pkgs, nil, func(c *fnCtx) {
		for _, h := range scanDefaults(c.pkg.TypesInfo, c.fd) {
			run.Count("descending-scans", 1)
			key := c.name + "/descending scan"
			if h.bad != "" {
				run.Violate("scan-default-continues-the-scan", key, c.p.Rel(h.pos), h.bad, nil)
			} else {
				run.OK("scan-default-continues-the-scan", key, c.p.Rel(h.pos), h.ok)
			}
		}
	})
	fset := token.NewFileSet()
	f, err := parser.ParseFile(fset, "example.go", scanDefaultExample, 0)
	if err != nil {
		run.Undecided("scan-default-continues-the-scan", "built-in example", "", err.Error())
		return
	}
	info := &types.Info{Types: map[ast.Expr]types.TypeAndValue{}, Defs: map[*ast.Ident]types.Object{}, Uses: map[*ast.Ident]types.Object{}}
	if _, err := (&types.Config{Importer: importer.Default()}).Check("example", fset, []*ast.File{f}, info); err != nil {
		run.Undecided("scan-default-continues-the-scan", "built-in example", "", err.Error())
		return
	}
	got := map[string]string{}
	for _, d := range f.Decls {
		if fd, ok := d.(*ast.FuncDecl); ok {
			for _, h := range scanDefaults(info, fd) {
				if h.bad != "" {
					got[fd.Name.Name] = "bad"
				} else {
					got[fd.Name.Name] = "ok"
				}
			}
		}
	}
	if got["bad"] != "bad" || got["good"] != "ok" || got["good2"] != "ok" {
		run.Undecided("scan-default-continues-the-scan", "built-in examples", "", fmt.Sprintf("the rule misjudges its examples: %v", got))
	} else {
		run.Count("scan-examples", 3)
		run.OK("scan-default-continues-the-scan", "built-in examples", "", "skipped position recognised; scans down to the default accepted")
	}
}

const scanDefaultExample = `package example

func bad(v uint64) int {
	for i := 63; i > 1; i-- {
		if v&(uint64(1)<<i) != 0 {
			return i + 1
		}
	}
	return 1
}

func good(v uint64) int {
	for i := 63; i > 0; i-- {
		if v&(uint64(1)<<i) != 0 {
			return i + 1
		}
	}
	return 1
}

func good2(v uint64) int {
	for i := 63; i >= 0; i-- {
		if v&(uint64(1)<<i) != 0 {
			return i + 1
		}
	}
	return 0
}
`

type scanHit struct {
	pos     token.Pos
	bad, ok string
}

func scanDefaults(info *types.Info, fd *ast.FuncDecl) []scanHit {
	var out []scanHit
	var lists [][]ast.Stmt
	ast.Inspect(fd.Body, func(n ast.Node) bool {
		if b, ok := n.(*ast.BlockStmt); ok {
			lists = append(lists, b.List)
		}
		return true
	})
	intConst := func(e ast.Expr) (int64, bool) {
		tv, ok := info.Types[e]
		if !ok || tv.Value == nil || tv.Value.Kind() != constant.Int {
			return 0, false
		}
		return constant.Int64Val(tv.Value)
	}
	for _, list := range lists {
		list = effective(info, list)
		for idx, st := range list {
			fs, ok := st.(*ast.ForStmt)
			if !ok || fs.Cond == nil || fs.Post == nil || idx+1 >= len(list) {
				continue
			}
			post, ok := fs.Post.(*ast.IncDecStmt)
			if !ok || post.Tok != token.DEC {
				continue
			}
			iv, ok := post.X.(*ast.Ident)
			if !ok {
				continue
			}
			condX, condY, strict, ok := ordCmp(fs.Cond)
			if !ok {
				continue
			}
			if id, ok := ast.Unparen(condX).(*ast.Ident); !ok || info.ObjectOf(id) != info.ObjectOf(iv) {
				continue
			}
			low, ok := intConst(condY)
			if !ok {
				continue
			}
			// the first position the loop does not test
			skipped := low
			if !strict {
				skipped = low - 1
			}
			// body: a single if whose body is `return f(i)` with f(i) = i, i+k or i-k
			fbody := effective(info, fs.Body.List)
			if len(fbody) != 1 {
				continue
			}
			ifs, ok := fbody[0].(*ast.IfStmt)
			if !ok || ifs.Else != nil {
				continue
			}
			ibody := effective(info, ifs.Body.List)
			if len(ibody) != 1 {
				continue
			}
			ret, ok := ibody[0].(*ast.ReturnStmt)
			if !ok || len(ret.Results) != 1 {
				continue
			}
			var k int64
			switch r := ast.Unparen(ret.Results[0]).(type) {
			case *ast.Ident:
				if info.ObjectOf(r) != info.ObjectOf(iv) {
					continue
				}
			case *ast.BinaryExpr:
				id, ok := ast.Unparen(r.X).(*ast.Ident)
				c, ok2 := intConst(r.Y)
				if !ok || !ok2 || info.ObjectOf(id) != info.ObjectOf(iv) || (r.Op != token.ADD && r.Op != token.SUB) {
					continue
				}
				k = c
				if r.Op == token.SUB {
					k = -c
				}
			default:
				continue
			}
			dret, ok := list[idx+1].(*ast.ReturnStmt)
			if !ok || len(dret.Results) != 1 {
				continue
			}
			d, ok := intConst(dret.Results[0])
			if !ok {
				continue
			}
			h := scanHit{pos: fs.Pos()}
			want := skipped + k
			// a scan that reaches below every position (skipped < 0) may return anything
			switch {
			case skipped < 0:
				h.ok = "every position is tested"
			case d == want:
				h.ok = fmt.Sprintf("the default %d is the answer of the first untested position %d", d, skipped)
			default:
				h.bad = fmt.Sprintf("the scan stops above position %d and the default answer is %d, but position %d would answer %d: values whose highest position is %d are answered as if it were lower", skipped, d, skipped, want, skipped)
			}
			out = append(out, h)
		}
	}
	return out
}
