package lints

import (
	"go/ast"
	"go/token"
	"go/types"

	"mpcverif/internal/load"
	"mpcverif/internal/report"
)

// CheckedTable: a table type whose methods check the index against its length
// and return an error (circuit.Seen: Get/Set) is, outside those methods, only
// indexed by the variable of a loop bounded by the table's own length.  Any
// other index or slice expression takes its bound from the file being parsed
// and panics on a damaged file where the methods would have returned an error.
func CheckedTable(p *load.Program, run *report.Run, relPkg, typeName string) {
	// single assignment: the Set method refuses an element that is already set
	forEachFunc(p, []string{relPkg}, nil, func(c *fnCtx) {
		info := c.pkg.TypesInfo
		if c.fd.Recv == nil || len(c.fd.Recv.List) != 1 || c.fd.Name.Name != "Set" || !isNamed(info.TypeOf(c.fd.Recv.List[0].Type), typeName) || len(c.fd.Recv.List[0].Names) != 1 {
			return
		}
		recv := info.ObjectOf(c.fd.Recv.List[0].Names[0])
		run.Count("checked-table-setters", 1)
		key := c.name + "/single assignment"
		guarded := false
		var store ast.Node
		for _, st := range effective(info, c.fd.Body.List) {
			switch t := st.(type) {
			case *ast.IfStmt:
				// if s[index] { return <error> }
				cond := ast.Unparen(t.Cond)
				if be, ok := cond.(*ast.BinaryExpr); ok && be.Op == token.EQL {
					cond = ast.Unparen(be.X)
				}
				if ix, ok := cond.(*ast.IndexExpr); ok && store == nil {
					if id, ok := ast.Unparen(ix.X).(*ast.Ident); ok && info.ObjectOf(id) == recv {
						body := effective(info, t.Body.List)
						if len(body) >= 1 {
							if r, ok := body[len(body)-1].(*ast.ReturnStmt); ok && len(r.Results) == 1 {
								if id, isNil := r.Results[0].(*ast.Ident); !isNil || id.Name != "nil" {
									guarded = true
								}
							}
						}
					}
				}
			case *ast.AssignStmt:
				if len(t.Lhs) == 1 {
					if ix, ok := ast.Unparen(t.Lhs[0]).(*ast.IndexExpr); ok {
						if id, ok := ast.Unparen(ix.X).(*ast.Ident); ok && info.ObjectOf(id) == recv && store == nil {
							store = t
						}
					}
				}
			}
		}
		switch {
		case store == nil:
			run.Undecided("single-assignment", key, c.p.Rel(c.fd.Pos()), "the store that marks the element was not found")
		case !guarded:
			run.Violate("single-assignment", key, c.p.Rel(store.Pos()), "the table marks a wire without refusing one that is already marked: a file whose gate writes an input wire or the output of an earlier gate is accepted, garbling then overwrites a label pair after inputs were chosen from it (the two-party run fails with unknown label for every input)", nil)
		default:
			run.OK("single-assignment", key, c.p.Rel(store.Pos()), "an already marked element is an error")
		}
	})
	forEachFunc(p, []string{relPkg}, nil, func(c *fnCtx) {
		info := c.pkg.TypesInfo
		// methods of the table itself may index it
		if c.fd.Recv != nil && len(c.fd.Recv.List) == 1 {
			if isNamed(info.TypeOf(c.fd.Recv.List[0].Type), typeName) {
				return
			}
		}
		var loops []ast.Node
		var visit func(n ast.Node)
		visit = func(n ast.Node) {
			ast.Inspect(n, func(m ast.Node) bool {
				switch t := m.(type) {
				case *ast.ForStmt:
					loops = append(loops, t)
					visit(t.Body)
					loops = loops[:len(loops)-1]
					return false
				case *ast.RangeStmt:
					if sl, ok := ast.Unparen(t.X).(*ast.SliceExpr); ok && isNamed(info.TypeOf(sl.X), typeName) {
						run.Count("checked-table-accesses", 1)
						run.Violate("checked-table-access", c.name+"/"+types.ExprString(t.X), c.p.Rel(t.X.Pos()), "the table is sliced with a bound that is not its length: a file declaring more wires than it has panics here instead of getting the error of the table's Set/Get", nil)
					}
					loops = append(loops, t)
					visit(t.Body)
					loops = loops[:len(loops)-1]
					return false
				case *ast.SliceExpr:
					if isNamed(info.TypeOf(t.X), typeName) {
						run.Count("checked-table-accesses", 1)
						run.Violate("checked-table-access", c.name+"/"+types.ExprString(t), c.p.Rel(t.Pos()), "the table is sliced with a bound that is not its length: a damaged file panics here instead of getting the error of the table's Set/Get", nil)
					}
				case *ast.IndexExpr:
					if !isNamed(info.TypeOf(t.X), typeName) {
						return true
					}
					run.Count("checked-table-accesses", 1)
					key := c.name + "/" + types.ExprString(t)
					ok := false
					if id, isID := ast.Unparen(t.Index).(*ast.Ident); isID {
						for _, l := range loops {
							switch fs := l.(type) {
							case *ast.ForStmt:
								cond, isBin := fs.Cond.(*ast.BinaryExpr)
								if !isBin || cond.Op != token.LSS {
									continue
								}
								lv, isLV := ast.Unparen(cond.X).(*ast.Ident)
								call, isCall := ast.Unparen(cond.Y).(*ast.CallExpr)
								if !isLV || !isCall || len(call.Args) != 1 || info.ObjectOf(lv) != info.ObjectOf(id) {
									continue
								}
								if fn, isFn := call.Fun.(*ast.Ident); isFn && fn.Name == "len" && types.ExprString(call.Args[0]) == types.ExprString(t.X) {
									ok = true
								}
							case *ast.RangeStmt:
								if k, isK := fs.Key.(*ast.Ident); isK && info.ObjectOf(k) == info.ObjectOf(id) && types.ExprString(fs.X) == types.ExprString(t.X) {
									ok = true
								}
							}
						}
					}
					if ok {
						run.OK("checked-table-access", key, c.p.Rel(t.Pos()), "indexed by a loop over the table's own length")
					} else {
						run.Violate("checked-table-access", key, c.p.Rel(t.Pos()), "the table is indexed directly with a value that is not bounded by its length: a damaged file panics here instead of getting the error of the table's Set/Get", nil)
					}
				case *ast.CallExpr:
					if sel, isSel := t.Fun.(*ast.SelectorExpr); isSel && isNamed(info.TypeOf(sel.X), typeName) {
						run.Count("checked-table-method-calls", 1)
					}
				}
				return true
			})
		}
		visit(c.fd.Body)
	})
}

func isNamed(t types.Type, name string) bool {
	if t == nil {
		return false
	}
	n, ok := t.(*types.Named)
	return ok && n.Obj().Name() == name
}

var _ = load.Module
