package lints

import (
	"fmt"
	"go/ast"
	"go/importer"
	"go/parser"
	"go/token"
	"go/types"

	"golang.org/x/tools/go/types/typeutil"

	"mpcverif/internal/load"
	"mpcverif/internal/report"
)

// SelfCompare: a comparison that decides whether a kept result (a compiled
// circuit, a cached object) is still valid must compare the current key with
// the remembered one.  When one operand was assigned from the other a few
// statements earlier and nothing changes either in between, the comparison is
// a constant and the kept result is never refreshed.
//
// The rule looks at calls of slices.Compare / slices.Equal / bytes.Equal /
// bytes.Compare / reflect.DeepEqual and at == / != between two path
// expressions (x, x.f, x[const]).  It fires when an assignment A = B (or
// A := B) precedes the comparison of A with B in the same statement list (so
// it is executed before it on every path), and between the two no statement
// assigns to, takes the address of, passes to a call or captures in a closure
// anything rooted at the variables of A or B.
func SelfCompare(p *load.Program, run *report.Run, pkgs []string) {
	forEachFunc(p, pkgs, nil, func(c *fnCtx) {
		for _, h := range selfCompares(c.pkg.TypesInfo, c.fd) {
			run.Count("key-comparisons", 1)
			key := fmt.Sprintf("%s/compare %s with %s", c.name, h.a, h.b)
			if h.constant {
				run.Violate("compare-with-own-copy", key, c.p.Rel(h.pos), fmt.Sprintf("%s was assigned from %s at %s and nothing changes either before the comparison: the comparison is constant, what it guards is never refreshed", h.a, h.b, c.p.Rel(h.assign)), nil)
			} else {
				run.OK("compare-with-own-copy", key, c.p.Rel(h.pos), "operands are not copies of each other at the comparison")
			}
		}
	})
	fset := token.NewFileSet()
	f, err := parser.ParseFile(fset, "example.go", selfCompareExample, 0)
	if err != nil {
		run.Undecided("compare-with-own-copy", "built-in example", "", err.Error())
		return
	}
	info := &types.Info{Types: map[ast.Expr]types.TypeAndValue{}, Defs: map[*ast.Ident]types.Object{}, Uses: map[*ast.Ident]types.Object{}, Selections: map[*ast.SelectorExpr]*types.Selection{}}
	if _, err := (&types.Config{Importer: importer.Default()}).Check("example", fset, []*ast.File{f}, info); err != nil {
		run.Undecided("compare-with-own-copy", "built-in example", "", err.Error())
		return
	}
	got := map[string]bool{}
	for _, d := range f.Decls {
		if fd, ok := d.(*ast.FuncDecl); ok {
			for _, h := range selfCompares(info, fd) {
				got[fd.Name.Name] = got[fd.Name.Name] || h.constant
			}
		}
	}
	if m, ok := got["bad"]; !ok || !m {
		run.Undecided("compare-with-own-copy", "built-in example/bad", "", "the rule does not recognise its positive example")
	} else if m, ok := got["good"]; !ok || m {
		run.Undecided("compare-with-own-copy", "built-in example/good", "", "the rule misclassifies its negative example")
	} else if m, ok := got["changed"]; !ok || m {
		run.Undecided("compare-with-own-copy", "built-in example/changed", "", "the rule ignores a change between the copy and the comparison")
	} else {
		run.Count("compare-examples", 3)
		run.OK("compare-with-own-copy", "built-in examples", "", "comparison with the just-stored copy recognised; remembered key and changed operand accepted")
	}
}

const selfCompareExample = `package example

import "slices"

func load(k [][]int) int { return len(k) }

func bad(keys [][]int, next func() []int) {
	var kept int
	for {
		cur := next()
		keys[0] = cur
		if kept == 0 || slices.Compare(cur, keys[0]) != 0 {
			kept = load(keys)
		}
	}
}

func good(keys [][]int, next func() []int) {
	var kept int
	var old []int
	for {
		cur := next()
		keys[0] = cur
		if kept == 0 || slices.Compare(cur, old) != 0 {
			kept = load(keys)
			old = cur
		}
	}
}

func changed(keys [][]int, next func() []int) bool {
	cur := next()
	keys[0] = cur
	cur = next()
	return slices.Equal(cur, keys[0])
}
`

type cmpHit struct {
	pos, assign token.Pos
	a, b        string
	constant    bool
}

// pathExpr returns the root identifier of x, x.f, x[const], (*x) chains, or nil.
func pathExpr(info *types.Info, e ast.Expr) *ast.Ident {
	switch t := ast.Unparen(e).(type) {
	case *ast.Ident:
		if _, ok := info.ObjectOf(t).(*types.Var); ok {
			return t
		}
	case *ast.SelectorExpr:
		if sel, ok := info.Selections[t]; ok && sel.Kind() == types.FieldVal {
			return pathExpr(info, t.X)
		}
	case *ast.IndexExpr:
		if tv, ok := info.Types[t.Index]; ok && tv.Value != nil {
			return pathExpr(info, t.X)
		}
	case *ast.StarExpr:
		return pathExpr(info, t.X)
	}
	return nil
}

func selfCompares(info *types.Info, fd *ast.FuncDecl) []cmpHit {
	var out []cmpHit
	hasGoto := false
	ast.Inspect(fd.Body, func(n ast.Node) bool {
		if b, ok := n.(*ast.BranchStmt); ok && b.Tok == token.GOTO {
			hasGoto = true
		}
		return true
	})
	// the comparison sites
	type site struct {
		node ast.Node
		x, y ast.Expr
	}
	var sites []site
	ast.Inspect(fd.Body, func(n ast.Node) bool {
		switch t := n.(type) {
		case *ast.CallExpr:
			if fn, ok := typeutil.Callee(info, t).(*types.Func); ok && fn.Pkg() != nil && len(t.Args) == 2 {
				q := fn.Pkg().Path() + "." + fn.Name()
				switch q {
				case "slices.Compare", "slices.Equal", "bytes.Equal", "bytes.Compare", "reflect.DeepEqual":
					sites = append(sites, site{t, t.Args[0], t.Args[1]})
				}
			}
		case *ast.BinaryExpr:
			if t.Op == token.EQL || t.Op == token.NEQ {
				if pathExpr(info, t.X) != nil && pathExpr(info, t.Y) != nil && types.ExprString(t.X) != types.ExprString(t.Y) {
					sites = append(sites, site{t, t.X, t.Y})
				}
			}
		}
		return true
	})
	if len(sites) == 0 {
		return nil
	}
	// every statement list of the function
	var lists [][]ast.Stmt
	ast.Inspect(fd.Body, func(n ast.Node) bool {
		switch t := n.(type) {
		case *ast.BlockStmt:
			lists = append(lists, t.List)
		case *ast.CaseClause:
			lists = append(lists, t.Body)
		case *ast.CommClause:
			lists = append(lists, t.Body)
		}
		return true
	})
	for _, s := range sites {
		rx, ry := pathExpr(info, s.x), pathExpr(info, s.y)
		h := cmpHit{pos: s.node.Pos(), a: types.ExprString(s.x), b: types.ExprString(s.y)}
		if rx == nil || ry == nil || hasGoto {
			if _, isCall := s.node.(*ast.CallExpr); isCall {
				out = append(out, h)
			}
			continue
		}
		ox, oy := info.ObjectOf(rx), info.ObjectOf(ry)
		sx, sy := types.ExprString(ast.Unparen(s.x)), types.ExprString(ast.Unparen(s.y))
		for _, list := range lists {
			// the statement of this list that contains the comparison
			j := -1
			for idx, st := range list {
				if st.Pos() <= s.node.Pos() && s.node.End() <= st.End() {
					j = idx
				}
			}
			if j < 0 {
				continue
			}
			for i := j - 1; i >= 0 && !h.constant; i-- {
				as, ok := list[i].(*ast.AssignStmt)
				if !ok || len(as.Lhs) != 1 || len(as.Rhs) != 1 || (as.Tok != token.ASSIGN && as.Tok != token.DEFINE) {
					continue
				}
				l, r := types.ExprString(ast.Unparen(as.Lhs[0])), types.ExprString(ast.Unparen(as.Rhs[0]))
				if !((l == sx && r == sy) || (l == sy && r == sx)) {
					continue
				}
				lr, rr := pathExpr(info, as.Lhs[0]), pathExpr(info, as.Rhs[0])
				if lr == nil || rr == nil {
					continue
				}
				lo, ro := info.ObjectOf(lr), info.ObjectOf(rr)
				if !((lo == ox && ro == oy) || (lo == oy && ro == ox)) {
					continue
				}
				// the region in which nothing may touch either operand
				end := s.node.Pos()
				inLoop := false
				ast.Inspect(list[j], func(n ast.Node) bool {
					switch n.(type) {
					case *ast.ForStmt, *ast.RangeStmt:
						if n.Pos() <= s.node.Pos() && s.node.End() <= n.End() {
							inLoop = true
						}
					}
					return true
				})
				if inLoop {
					end = list[j].End()
				}
				touched := false
				for k := i + 1; k <= j; k++ {
					ast.Inspect(list[k], func(n ast.Node) bool {
						if n == nil || touched || n.Pos() >= end {
							return false
						}
						if n == s.node {
							return false
						}
						if touches(info, n, ox, oy) {
							touched = true
						}
						return true
					})
				}
				if !touched {
					h.constant = true
					h.assign = as.Pos()
				}
			}
		}
		if _, isCall := s.node.(*ast.CallExpr); isCall || h.constant {
			out = append(out, h)
		}
	}
	return out
}

// touches: the node may change (or let something else change) a value rooted at a or b.
func touches(info *types.Info, n ast.Node, a, b types.Object) bool {
	rooted := func(e ast.Node) bool {
		found := false
		ast.Inspect(e, func(m ast.Node) bool {
			if id, ok := m.(*ast.Ident); ok {
				if o := info.ObjectOf(id); o != nil && (o == a || o == b) {
					found = true
				}
			}
			return !found
		})
		return found
	}
	switch t := n.(type) {
	case *ast.AssignStmt:
		for _, l := range t.Lhs {
			if rooted(l) {
				return true
			}
		}
	case *ast.IncDecStmt:
		return rooted(t.X)
	case *ast.RangeStmt:
		return (t.Key != nil && rooted(t.Key)) || (t.Value != nil && rooted(t.Value))
	case *ast.UnaryExpr:
		return t.Op == token.AND && rooted(t.X)
	case *ast.FuncLit:
		return rooted(t.Body)
	case *ast.CallExpr:
		if id, ok := ast.Unparen(t.Fun).(*ast.Ident); ok {
			if _, isB := info.ObjectOf(id).(*types.Builtin); isB && (id.Name == "len" || id.Name == "cap") {
				return false
			}
		}
		if sel, ok := ast.Unparen(t.Fun).(*ast.SelectorExpr); ok && rooted(sel.X) {
			return true
		}
		for _, arg := range t.Args {
			if rooted(arg) {
				return true
			}
		}
	}
	return false
}
