package lints

import (
	"fmt"
	"go/ast"
	"go/importer"
	"go/parser"
	"go/token"
	"go/types"

	"mpcverif/internal/load"
	"mpcverif/internal/report"
)

// OverlapShift: an element-wise shift of a sequence within itself must run
// against the direction of the move.  `for i := a; i < b; i++ { S[i+1] = S[i] }`
// copies S[a] over every later element (the overlapping-copy slip); opening a
// slot needs the descending loop (or copy(S[a+1:], S[a:])).  Symmetrically a
// descending loop with S[i-1] = S[i].  With at most one element to move both
// directions agree, so short lists never show it.
func OverlapShift(p *load.Program, run *report.Run, pkgs []string) {
	forEachFunc(p, pkgs, nil, func(c *fnCtx) {
		for _, h := range overlapShifts(c.pkg.TypesInfo, c.fd) {
			run.Count("self-shift-loops", 1)
			key := fmt.Sprintf("%s/shift of <%s>", c.name, h.typ)
			if h.smear {
				run.Violate("overlap-shift", key, c.p.Rel(h.pos), h.why, nil)
			} else {
				run.OK("overlap-shift", key, c.p.Rel(h.pos), "the loop runs against the direction of the move")
			}
		}
	})
	// the rule matches no site on a healthy tree: a built-in positive and negative example
	// must classify as expected on every run, or the rule is reported as not working
	fset := token.NewFileSet()
	f, err := parser.ParseFile(fset, "example.go", overlapExample, 0)
	if err != nil {
		run.Undecided("overlap-shift", "built-in example", "", err.Error())
		return
	}
	info := &types.Info{Types: map[ast.Expr]types.TypeAndValue{}, Defs: map[*ast.Ident]types.Object{}, Uses: map[*ast.Ident]types.Object{}}
	conf := types.Config{Importer: importer.Default()}
	if _, err := conf.Check("example", fset, []*ast.File{f}, info); err != nil {
		run.Undecided("overlap-shift", "built-in example", "", err.Error())
		return
	}
	got := map[string]bool{}
	for _, d := range f.Decls {
		if fd, ok := d.(*ast.FuncDecl); ok {
			for _, h := range overlapShifts(info, fd) {
				got[fd.Name.Name] = h.smear
			}
		}
	}
	if smear, ok := got["bad"]; !ok || !smear {
		run.Undecided("overlap-shift", "built-in example/bad", "", "the rule does not recognise its positive example")
	} else if smear, ok := got["good"]; !ok || smear {
		run.Undecided("overlap-shift", "built-in example/good", "", "the rule misclassifies its negative example")
	} else {
		run.Count("overlap-examples", 2)
		run.OK("overlap-shift", "built-in examples", "", "forward smear recognised, descending shift accepted")
	}
}

const overlapExample = `package example

func bad(s []int, idx int) {
	for i := idx; i < len(s)-1; i++ {
		s[i+1] = s[i]
	}
}

func good(s []int, idx int) {
	for i := len(s) - 1; i > idx; i-- {
		s[i] = s[i-1]
	}
}
`

type shiftHit struct {
	pos   token.Pos
	typ   string
	smear bool
	why   string
}

func overlapShifts(info *types.Info, fd *ast.FuncDecl) []shiftHit {
	var out []shiftHit
	ast.Inspect(fd.Body, func(n ast.Node) bool {
		fs, ok := n.(*ast.ForStmt)
		if !ok || fs.Post == nil {
			return true
		}
		inc, ok := fs.Post.(*ast.IncDecStmt)
		if !ok {
			return true
		}
		iv, ok := inc.X.(*ast.Ident)
		if !ok {
			return true
		}
		ivObj := info.ObjectOf(iv)
		up := inc.Tok == token.INC
		for _, st := range fs.Body.List {
			as, ok := st.(*ast.AssignStmt)
			if !ok || as.Tok != token.ASSIGN || len(as.Lhs) != 1 || len(as.Rhs) != 1 {
				continue
			}
			l, ok1 := ast.Unparen(as.Lhs[0]).(*ast.IndexExpr)
			r, ok2 := ast.Unparen(as.Rhs[0]).(*ast.IndexExpr)
			if !ok1 || !ok2 || types.ExprString(l.X) != types.ExprString(r.X) {
				continue
			}
			lo, okl := offsetOf(info, l.Index, ivObj)
			ro, okr := offsetOf(info, r.Index, ivObj)
			if !okl || !okr || lo == ro {
				continue
			}
			h := shiftHit{pos: as.Pos(), typ: "?"}
			if t := info.TypeOf(l.X); t != nil {
				h.typ = t.String()
			}
			// element moves from i+ro to i+lo
			if (up && lo > ro) || (!up && lo < ro) {
				h.smear = true
				h.why = fmt.Sprintf("the loop runs in the direction of the move (element i%+d is written from element i%+d while i %s): the first element is copied over all the following ones", lo, ro, map[bool]string{true: "ascends", false: "descends"}[up])
			}
			out = append(out, h)
		}
		return true
	})
	return out
}

// offsetOf: e is i, i+k or i-k for the loop variable i and a constant k.
func offsetOf(info *types.Info, e ast.Expr, iv types.Object) (int64, bool) {
	e = ast.Unparen(e)
	if id, ok := e.(*ast.Ident); ok && info.ObjectOf(id) == iv {
		return 0, true
	}
	be, ok := e.(*ast.BinaryExpr)
	if !ok || (be.Op != token.ADD && be.Op != token.SUB) {
		return 0, false
	}
	id, ok := ast.Unparen(be.X).(*ast.Ident)
	if !ok || info.ObjectOf(id) != iv {
		return 0, false
	}
	tv, ok := info.Types[be.Y]
	if !ok || tv.Value == nil {
		return 0, false
	}
	var k int64
	fmt.Sscan(tv.Value.String(), &k)
	if be.Op == token.SUB {
		k = -k
	}
	return k, true
}
