package lints

import (
	"fmt"
	"go/ast"
	"go/token"
	"go/types"

	"mpcverif/internal/load"
	"mpcverif/internal/report"
)

// StrideCoverage: a loop `for i := 0; i < N; i += S` that handles, per step,
// `count = min(N-i, C)` elements covers the whole range only if C = S.  With
// C < S the elements C..S-1 of every block are never handled (rows of the OT
// matrix that get no check coefficient), with C > S they are handled twice.
// The clamp is recognised as `count := N - i; if count > C { count = C }`, as
// min(N-i, C), and through a helper of the module whose body is that clamp on
// its parameters.
func StrideCoverage(p *load.Program, run *report.Run, pkgs []string) {
	// helpers: func h(n, ofs int) int { r := n - ofs; if r > K { r = K }; return r }
	type helper struct {
		cap ast.Expr
		pkg *types.Info
	}
	helpers := map[types.Object]helper{}
	forEachFunc(p, pkgs, nil, func(c *fnCtx) {
		if c.fd.Recv != nil || c.fd.Type.Results == nil || len(c.fd.Type.Results.List) != 1 {
			return
		}
		if cp := clampIn(c.pkg.TypesInfo, c.fd.Body.List, nil); cp != nil {
			if body := effective(c.pkg.TypesInfo, c.fd.Body.List); len(body) > 0 {
				if _, ok := body[len(body)-1].(*ast.ReturnStmt); ok {
					helpers[c.pkg.TypesInfo.Defs[c.fd.Name]] = helper{cp, c.pkg.TypesInfo}
				}
			}
		}
	})
	forEachFunc(p, pkgs, nil, func(c *fnCtx) {
		info := c.pkg.TypesInfo
		ast.Inspect(c.fd.Body, func(n ast.Node) bool {
			fs, ok := n.(*ast.ForStmt)
			if !ok {
				return true
			}
			iv := strideVar(info, fs)
			if iv == nil {
				return true
			}
			stride := fs.Post.(*ast.AssignStmt).Rhs[0]
			var capExpr ast.Expr
			capInfo := info
			if cp := clampIn(info, fs.Body.List, iv); cp != nil {
				capExpr = cp
			} else {
				// count := helper(N, i)
				for _, st := range effective(info, fs.Body.List) {
					as, ok := st.(*ast.AssignStmt)
					if !ok || len(as.Rhs) != 1 {
						continue
					}
					call, ok := as.Rhs[0].(*ast.CallExpr)
					if !ok {
						continue
					}
					id, ok := call.Fun.(*ast.Ident)
					if !ok {
						continue
					}
					if h, ok := helpers[info.ObjectOf(id)]; ok {
						uses := false
						for _, a := range call.Args {
							if mentionsObj(info, a, map[types.Object]bool{iv: true}) {
								uses = true
							}
						}
						if uses {
							capExpr, capInfo = h.cap, h.pkg
						}
					}
				}
			}
			if capExpr == nil {
				return true
			}
			run.Count("stride-clamps", 1)
			key := fmt.Sprintf("%s/for … += %s", c.name, types.ExprString(stride))
			sv, cv := constOf(info, stride), constOf(capInfo, capExpr)
			same := false
			if sv != "" && cv != "" {
				same = sv == cv
			} else {
				same = types.ExprString(stride) == types.ExprString(capExpr)
			}
			if same {
				run.OK("stride-equals-window", key, c.p.Rel(fs.Pos()), "each step handles as many elements as it advances")
			} else {
				run.Violate("stride-equals-window", key, c.p.Rel(fs.Pos()), fmt.Sprintf("the loop advances by %s (%s) but handles at most %s (%s) elements per step: the others of every block are skipped or handled twice", types.ExprString(stride), sv, types.ExprString(capExpr), cv), nil)
			}
			return true
		})
	})
}

func constOf(info *types.Info, e ast.Expr) string {
	if tv, ok := info.Types[e]; ok && tv.Value != nil {
		return tv.Value.ExactString()
	}
	return ""
}

// clampIn finds `x := A - B; if x > C { x = C }` (B the stride variable when given) or x := min(A-B, C)
// at the top of a statement list and returns C.
func clampIn(info *types.Info, list []ast.Stmt, iv types.Object) ast.Expr {
	list = effective(info, list)
	for idx, st := range list {
		as, ok := st.(*ast.AssignStmt)
		if !ok || len(as.Lhs) != 1 || len(as.Rhs) != 1 {
			continue
		}
		x, ok := as.Lhs[0].(*ast.Ident)
		if !ok {
			continue
		}
		isDiff := func(e ast.Expr) bool {
			be, ok := ast.Unparen(e).(*ast.BinaryExpr)
			if !ok || be.Op != token.SUB {
				return false
			}
			id, ok := ast.Unparen(be.Y).(*ast.Ident)
			if !ok {
				return false
			}
			if iv != nil {
				return info.ObjectOf(id) == iv
			}
			_, isVar := info.ObjectOf(id).(*types.Var)
			return isVar
		}
		if call, ok := as.Rhs[0].(*ast.CallExpr); ok && len(call.Args) == 2 {
			if id, ok := call.Fun.(*ast.Ident); ok && id.Name == "min" {
				if isDiff(call.Args[0]) {
					return call.Args[1]
				}
				if isDiff(call.Args[1]) {
					return call.Args[0]
				}
			}
		}
		if !isDiff(as.Rhs[0]) || idx+1 >= len(list) {
			continue
		}
		ifs, ok := list[idx+1].(*ast.IfStmt)
		if !ok || ifs.Else != nil {
			continue
		}
		ibody := effective(info, ifs.Body.List)
		if len(ibody) != 1 {
			continue
		}
		condX, condY, _, ok := ordCmp(ifs.Cond)
		if !ok {
			continue
		}
		cid, ok := ast.Unparen(condX).(*ast.Ident)
		if !ok || info.ObjectOf(cid) != info.ObjectOf(x) {
			continue
		}
		set, ok := ibody[0].(*ast.AssignStmt)
		if !ok || len(set.Lhs) != 1 || len(set.Rhs) != 1 {
			continue
		}
		sid, ok := set.Lhs[0].(*ast.Ident)
		if !ok || info.ObjectOf(sid) != info.ObjectOf(x) || types.ExprString(set.Rhs[0]) != types.ExprString(condY) {
			continue
		}
		return condY
	}
	return nil
}

var _ = load.Module
