package lints

import (
	"fmt"
	"go/ast"
	"go/importer"
	"go/parser"
	"go/token"
	"go/types"

	"mpcverif/internal/load"
	"mpcverif/internal/report"
)

// StrideTail: a loop `for i := 0; i+K <= n; i += K` (K > 1) handles whole groups
// of K elements only; the last n mod K elements need a tail — a following loop
// that continues from i, or a guard that makes n a multiple of K.  Without it
// the tail keeps whatever the buffer held (zero coefficients, stale labels),
// and only sizes that are not multiples of K show it.
func StrideTail(p *load.Program, run *report.Run, pkgs []string) {
	forEachFunc(p, pkgs, nil, func(c *fnCtx) {
		for _, h := range strideTails(c.pkg.TypesInfo, c.fd) {
			run.Count("group-stride-loops", 1)
			key := fmt.Sprintf("%s/groups of %d", c.name, h.k)
			if h.missing {
				run.Violate("stride-tail", key, c.p.Rel(h.pos), fmt.Sprintf("the loop handles whole groups of %d only and nothing handles the remaining n mod %d elements: they keep their previous contents", h.k, h.k), nil)
			} else {
				run.OK("stride-tail", key, c.p.Rel(h.pos), "tail handled")
			}
		}
	})
	fset := token.NewFileSet()
	f, err := parser.ParseFile(fset, "example.go", strideTailExample, 0)
	if err != nil {
		run.Undecided("stride-tail", "built-in example", "", err.Error())
		return
	}
	info := &types.Info{Types: map[ast.Expr]types.TypeAndValue{}, Defs: map[*ast.Ident]types.Object{}, Uses: map[*ast.Ident]types.Object{}}
	if _, err := (&types.Config{Importer: importer.Default()}).Check("example", fset, []*ast.File{f}, info); err != nil {
		run.Undecided("stride-tail", "built-in example", "", err.Error())
		return
	}
	got := map[string]bool{}
	for _, d := range f.Decls {
		if fd, ok := d.(*ast.FuncDecl); ok {
			for _, h := range strideTails(info, fd) {
				got[fd.Name.Name] = h.missing
			}
		}
	}
	if m, ok := got["bad"]; !ok || !m {
		run.Undecided("stride-tail", "built-in example/bad", "", "the rule does not recognise its positive example")
	} else if m, ok := got["good"]; !ok || m {
		run.Undecided("stride-tail", "built-in example/good", "", "the rule misclassifies its negative example")
	} else {
		run.Count("stride-tail-examples", 2)
		run.OK("stride-tail", "built-in examples", "", "missing tail recognised, tail loop accepted")
	}
}

const strideTailExample = `package example

func bad(s []int) {
	for i := 0; i+8 <= len(s); i += 8 {
		s[i] = 1
	}
}

func good(s []int) {
	i := 0
	for ; i+8 <= len(s); i += 8 {
		s[i] = 1
	}
	for ; i < len(s); i++ {
		s[i] = 1
	}
}
`

type tailHit struct {
	pos     token.Pos
	k       int64
	missing bool
}

func strideTails(info *types.Info, fd *ast.FuncDecl) []tailHit {
	var out []tailHit
	var blocks []*ast.BlockStmt
	ast.Inspect(fd.Body, func(n ast.Node) bool {
		if b, ok := n.(*ast.BlockStmt); ok {
			blocks = append(blocks, b)
		}
		return true
	})
	for _, blk := range blocks {
		for idx, st := range blk.List {
			fs, ok := st.(*ast.ForStmt)
			if !ok || fs.Cond == nil || fs.Post == nil {
				continue
			}
			post, ok := fs.Post.(*ast.AssignStmt)
			if !ok || post.Tok != token.ADD_ASSIGN || len(post.Lhs) != 1 {
				continue
			}
			iv, ok := post.Lhs[0].(*ast.Ident)
			if !ok {
				continue
			}
			tv, ok := info.Types[post.Rhs[0]]
			if !ok || tv.Value == nil {
				continue
			}
			var k int64
			fmt.Sscan(tv.Value.String(), &k)
			if k <= 1 {
				continue
			}
			cond, ok := fs.Cond.(*ast.BinaryExpr)
			if !ok || cond.Op != token.LEQ {
				continue
			}
			sum, ok := ast.Unparen(cond.X).(*ast.BinaryExpr)
			if !ok || sum.Op != token.ADD {
				continue
			}
			sid, ok := ast.Unparen(sum.X).(*ast.Ident)
			if !ok || info.ObjectOf(sid) != info.ObjectOf(iv) {
				continue
			}
			if kv, ok := info.Types[sum.Y]; !ok || kv.Value == nil || kv.Value.String() != tv.Value.String() {
				continue
			}
			h := tailHit{pos: fs.Pos(), k: k, missing: true}
			bound := types.ExprString(cond.Y)
			// a following loop that continues from the same variable up to the same bound
			for _, later := range blk.List[idx+1:] {
				if f2, ok := later.(*ast.ForStmt); ok && f2.Cond != nil {
					if c2, ok := f2.Cond.(*ast.BinaryExpr); ok && c2.Op == token.LSS && types.ExprString(c2.Y) == bound {
						if id2, ok := ast.Unparen(c2.X).(*ast.Ident); ok && info.ObjectOf(id2) == info.ObjectOf(iv) {
							h.missing = false
						}
					}
				}
			}
			// or a guard bound % K earlier in the function
			ast.Inspect(fd.Body, func(n ast.Node) bool {
				if be, ok := n.(*ast.BinaryExpr); ok && be.Op == token.REM && types.ExprString(be.X) == bound {
					if kv, ok := info.Types[be.Y]; ok && kv.Value != nil && kv.Value.String() == tv.Value.String() {
						h.missing = false
					}
				}
				return true
			})
			out = append(out, h)
		}
	}
	return out
}
