package lints

import (
	"fmt"
	"go/ast"
	"go/token"
	"go/types"

	"mpcverif/internal/load"
	"mpcverif/internal/report"
)

// WindowAlignment is the batch-window rule.  A stride loop
//
//	for i := 0; i < len(S); i += W { ... }
//
// processes a batch in windows of W elements.  Every batch-sized sequence the
// body reads — a slice parameter, a slice returned by a call, a slice made
// with a non-constant length — must be addressed relative to the window: an
// index or slice bound that depends on i (directly, or through locals such as
// end := i + W, for j := i; j < end; j++).  A batch-sized slice used whole or
// indexed from 0 inside the window loop pairs window k of one sequence with
// window 0 of the other; with batches no larger than one window nothing is
// wrong, so tests with small batches do not see it.
//
// Exempt: scratch buffers (arrays, slices made with a constant length), which
// are refilled per window; len(S)/cap(S); a whole slice passed to a call that
// also gets an integer argument depending on i (the offset is handed over).
func WindowAlignment(p *load.Program, run *report.Run, pkgs []string, files map[string]bool) {
	forEachFunc(p, pkgs, files, func(c *fnCtx) {
		info := c.pkg.TypesInfo
		ast.Inspect(c.fd.Body, func(n ast.Node) bool {
			fs, ok := n.(*ast.ForStmt)
			if !ok {
				return true
			}
			iv := strideVar(info, fs)
			if iv == nil {
				return true
			}
			run.Count("stride-loops", 1)
			key := fmt.Sprintf("%s/for %s += …", c.name, "<stride>")
			// variables that depend on the stride variable
			dep := map[types.Object]bool{iv: true}
			for changed := true; changed; {
				changed = false
				ast.Inspect(fs.Body, func(m ast.Node) bool {
					var lhs []ast.Expr
					var rhs []ast.Expr
					switch t := m.(type) {
					case *ast.AssignStmt:
						lhs, rhs = t.Lhs, t.Rhs
					case *ast.RangeStmt:
						return true
					default:
						return true
					}
					uses := false
					for _, r := range rhs {
						if mentionsObj(info, r, dep) {
							uses = true
						}
					}
					if uses {
						for _, l := range lhs {
							if id, ok := l.(*ast.Ident); ok {
								if o := info.ObjectOf(id); o != nil && !dep[o] {
									dep[o] = true
									changed = true
								}
							}
						}
					}
					return true
				})
			}
			bad := []string{}
			nseq := 0
			seen := map[types.Object]bool{}
			var visit func(n ast.Node, windowed bool)
			check := func(id *ast.Ident, ok bool) {
				obj := info.ObjectOf(id)
				if obj == nil || !batchSized(info, c.fd, obj) {
					return
				}
				if obj.Pos() >= fs.Body.Pos() && obj.Pos() <= fs.Body.End() {
					return // declared inside the window loop: it belongs to one window
				}
				if !seen[obj] {
					seen[obj] = true
					nseq++
				}
				if !ok {
					bad = append(bad, fmt.Sprintf("%s is used without the window offset at %s", typedVar(obj), c.p.Rel(id.Pos())))
				}
			}
			visit = func(n ast.Node, windowed bool) {
				switch t := n.(type) {
				case nil:
					return
				case *ast.IndexExpr:
					if id := rootIdent(t.X); id != nil && isSeq(info.TypeOf(t.X)) {
						check(id, windowed || mentionsObj(info, t.Index, dep))
						visit(t.Index, false)
						return
					}
				case *ast.SliceExpr:
					if id := rootIdent(t.X); id != nil && isSeq(info.TypeOf(t.X)) {
						ok := windowed
						if t.Low != nil && mentionsObj(info, t.Low, dep) {
							ok = true
						}
						check(id, ok)
						for _, e := range []ast.Expr{t.Low, t.High, t.Max} {
							if e != nil {
								visit(e, false)
							}
						}
						return
					}
				case *ast.CallExpr:
					if id, ok := t.Fun.(*ast.Ident); ok && (id.Name == "len" || id.Name == "cap") {
						if _, b := info.ObjectOf(id).(*types.Builtin); b {
							return
						}
					}
					// an integer argument depending on i hands the offset to the callee
					offsetPassed := false
					for _, a := range t.Args {
						if bt, ok := info.TypeOf(a).Underlying().(*types.Basic); ok && bt.Info()&types.IsInteger != 0 && mentionsObj(info, a, dep) {
							offsetPassed = true
						}
					}
					visit(t.Fun, false)
					for _, a := range t.Args {
						visit(a, offsetPassed)
					}
					return
				case *ast.Ident:
					if isSeq(info.TypeOf(t)) {
						if _, isVar := info.ObjectOf(t).(*types.Var); isVar {
							check(t, windowed)
						}
					}
					return
				case *ast.RangeStmt:
					// for k, v := range S: whole-sequence iteration inside the window loop
					visit(t.X, false)
					visit(t.Body, false)
					return
				}
				// generic traversal of children
				ast.Inspect(n, func(m ast.Node) bool {
					if m == n || m == nil {
						return true
					}
					visit(m, false)
					return false
				})
			}
			visit(fs.Body, false)
			pos := c.p.Rel(fs.Pos())
			key = fmt.Sprintf("%s/stride loop over %s", c.name, strideBound(info, fs))
			if len(bad) > 0 {
				run.Violate("window-alignment", key, pos, bad[0]+": window k of the batch is paired with the start of that sequence", bad)
			} else {
				run.OK("window-alignment", key, pos, fmt.Sprintf("%d batch-sized sequences, all addressed relative to the window", nseq))
			}
			return true
		})
	})
}

// strideVar: for i := K; i < B; i += W (W anything but the constant 1).
func strideVar(info *types.Info, fs *ast.ForStmt) types.Object {
	init, ok := fs.Init.(*ast.AssignStmt)
	if !ok || init.Tok != token.DEFINE || len(init.Lhs) != 1 {
		return nil
	}
	id, ok := init.Lhs[0].(*ast.Ident)
	if !ok {
		return nil
	}
	obj := info.ObjectOf(id)
	post, ok := fs.Post.(*ast.AssignStmt)
	if !ok || post.Tok != token.ADD_ASSIGN || len(post.Lhs) != 1 {
		return nil
	}
	if pid, ok := post.Lhs[0].(*ast.Ident); !ok || info.ObjectOf(pid) != obj {
		return nil
	}
	if tv, ok := info.Types[post.Rhs[0]]; ok && tv.Value != nil && tv.Value.String() == "1" {
		return nil
	}
	return obj
}

func strideBound(info *types.Info, fs *ast.ForStmt) string {
	if be, ok := fs.Cond.(*ast.BinaryExpr); ok {
		if call, ok := be.Y.(*ast.CallExpr); ok && len(call.Args) == 1 {
			if t := info.TypeOf(call.Args[0]); t != nil {
				return "len(<" + types.TypeString(t, func(p *types.Package) string { return p.Name() }) + ">)"
			}
		}
		if t := info.TypeOf(be.Y); t != nil {
			return "<" + t.String() + ">"
		}
	}
	return "<?>"
}

func mentionsObj(info *types.Info, e ast.Expr, set map[types.Object]bool) bool {
	found := false
	ast.Inspect(e, func(n ast.Node) bool {
		if id, ok := n.(*ast.Ident); ok {
			if o := info.ObjectOf(id); o != nil && set[o] {
				found = true
			}
		}
		return !found
	})
	return found
}

func isSeq(t types.Type) bool {
	if t == nil {
		return false
	}
	_, ok := t.Underlying().(*types.Slice)
	return ok
}

func typedVar(obj types.Object) string {
	return "a <" + types.TypeString(obj.Type(), func(p *types.Package) string { return p.Name() }) + "> (" + obj.Name() + ")"
}

// batchSized: a slice variable declared outside any constant-length make:
// a parameter, the result of a call, or make with a non-constant length.
func batchSized(info *types.Info, fd *ast.FuncDecl, obj types.Object) bool {
	v, ok := obj.(*types.Var)
	if !ok || v.IsField() || !isSeq(obj.Type()) {
		return false
	}
	if isParam(obj, fd, info) {
		return true
	}
	batch := false
	ast.Inspect(fd.Body, func(n ast.Node) bool {
		as, ok := n.(*ast.AssignStmt)
		if !ok {
			return true
		}
		for i, l := range as.Lhs {
			id, ok := l.(*ast.Ident)
			if !ok || info.ObjectOf(id) != obj {
				continue
			}
			var rhs ast.Expr
			if len(as.Rhs) == len(as.Lhs) {
				rhs = as.Rhs[i]
			} else if len(as.Rhs) == 1 {
				rhs = as.Rhs[0]
			}
			call, ok := ast.Unparen(rhs).(*ast.CallExpr)
			if !ok {
				continue
			}
			if fid, ok := call.Fun.(*ast.Ident); ok && fid.Name == "make" {
				if _, b := info.ObjectOf(fid).(*types.Builtin); b {
					if len(call.Args) >= 2 {
						if tv, ok := info.Types[call.Args[1]]; ok && tv.Value == nil {
							batch = true // length computed at run time
						}
					}
					continue
				}
			}
			if fid, ok := call.Fun.(*ast.Ident); ok && fid.Name == "append" {
				continue
			}
			batch = true // the result of a call
		}
		return true
	})
	return batch
}
