package lints

import (
	"fmt"
	"go/ast"
	"go/token"
	"go/types"
	"strings"

	"mpcverif/internal/load"
	"mpcverif/internal/report"
)

// WriteWindow: a function that packs one member into the shared big integer
// at a running offset (`SetBit(result, ofs+i, ...)` in `for i := 0; i < B`)
// and returns the advanced offset `ofs + A` must write exactly the bits it
// accounts for: B and A are the same expression.  A wider window spills into
// the next member (which only some members overwrite), a narrower one leaves
// bits unset.
func WriteWindow(p *load.Program, run *report.Run, pkgs []string, files map[string]bool) {
	forEachFunc(p, pkgs, files, func(c *fnCtx) {
		info := c.pkg.TypesInfo
		// the offset parameter: an int parameter added to in a SetBit index
		type win struct {
			pos   token.Pos
			ofs   types.Object
			bound string
		}
		var wins []win
		var loops []*ast.ForStmt
		var visit func(n ast.Node)
		visit = func(n ast.Node) {
			ast.Inspect(n, func(m ast.Node) bool {
				switch t := m.(type) {
				case *ast.ForStmt:
					loops = append(loops, t)
					visit(t.Body)
					loops = loops[:len(loops)-1]
					return false
				case *ast.CallExpr:
					sel, ok := t.Fun.(*ast.SelectorExpr)
					if !ok || sel.Sel.Name != "SetBit" || len(t.Args) != 3 {
						return true
					}
					if tv, ok := info.Types[sel.X]; !ok || !strings.Contains(tv.Type.String(), "math/big.Int") {
						return true
					}
					// index: ofs, ofs+i, i+ofs
					var ofsID, idxID *ast.Ident
					switch e := ast.Unparen(t.Args[1]).(type) {
					case *ast.Ident:
						ofsID = e
					case *ast.BinaryExpr:
						if e.Op == token.ADD {
							a, ok1 := ast.Unparen(e.X).(*ast.Ident)
							b, ok2 := ast.Unparen(e.Y).(*ast.Ident)
							if ok1 && ok2 {
								ofsID, idxID = a, b
							}
						}
					}
					if ofsID == nil {
						return true
					}
					w := win{pos: t.Pos(), bound: "1"}
					if idxID != nil {
						// which of the two is the loop variable of the innermost loop `for v := 0; v < B; v++`
						found := false
						for li := len(loops) - 1; li >= 0 && !found; li-- {
							fs := loops[li]
							cond, ok := fs.Cond.(*ast.BinaryExpr)
							if !ok || cond.Op != token.LSS {
								continue
							}
							lv, ok := ast.Unparen(cond.X).(*ast.Ident)
							if !ok {
								continue
							}
							for _, pair := range [][2]*ast.Ident{{ofsID, idxID}, {idxID, ofsID}} {
								if info.ObjectOf(pair[1]) == info.ObjectOf(lv) {
									w.ofs = info.ObjectOf(pair[0])
									w.bound = normWidth(cond.Y)
									found = true
								}
							}
						}
						if !found {
							return true
						}
					} else {
						w.ofs = info.ObjectOf(ofsID)
					}
					if _, isParam := w.ofs.(*types.Var); !isParam {
						return true
					}
					wins = append(wins, w)
				}
				return true
			})
		}
		visit(c.fd.Body)
		if len(wins) == 0 {
			return
		}
		// the advance: `return ..., ofs + A, ...` or `return ofs + A, nil` on the success path
		for _, w := range wins {
			run.Count("packed-member-writes", 1)
			key := fmt.Sprintf("%s/SetBit window", c.name)
			var advances []string
			ast.Inspect(c.fd.Body, func(m ast.Node) bool {
				r, ok := m.(*ast.ReturnStmt)
				if !ok {
					return true
				}
				for _, res := range r.Results {
					be, ok := ast.Unparen(res).(*ast.BinaryExpr)
					if !ok || be.Op != token.ADD {
						continue
					}
					if id, ok := ast.Unparen(be.X).(*ast.Ident); ok && info.ObjectOf(id) == w.ofs {
						advances = append(advances, normWidth(be.Y))
					}
				}
				return true
			})
			if len(advances) == 0 {
				run.OK("write-window-equals-advance", key, c.p.Rel(w.pos), "the function does not return an advanced offset")
				continue
			}
			bad := ""
			for _, a := range advances {
				if a != w.bound {
					bad = fmt.Sprintf("the member writes %s bit(s) at the running offset but the offset advances by %s: the bits between the two belong to the next member, which not every member overwrites", w.bound, a)
				}
			}
			if bad != "" {
				run.Violate("write-window-equals-advance", key, c.p.Rel(w.pos), bad, nil)
			} else {
				run.OK("write-window-equals-advance", key, c.p.Rel(w.pos), "writes "+w.bound+" bit(s), advances by the same")
			}
		}
	})
}

// normWidth prints a width expression without integer conversions.
func normWidth(e ast.Expr) string {
	e = ast.Unparen(e)
	if c, ok := e.(*ast.CallExpr); ok && len(c.Args) == 1 {
		if id, ok := c.Fun.(*ast.Ident); ok {
			switch id.Name {
			case "int", "uint", "int64", "uint64", "int32", "uint32":
				return normWidth(c.Args[0])
			}
		}
	}
	return types.ExprString(e)
}

var _ = load.Module
