// Package load type-checks the repository under analysis and builds its SSA form.
package load

import (
	"fmt"
	"go/token"
	"go/types"
	"os"
	"path/filepath"
	"sort"
	"strings"

	"golang.org/x/tools/go/callgraph"
	"golang.org/x/tools/go/callgraph/cha"
	"golang.org/x/tools/go/callgraph/vta"
	"golang.org/x/tools/go/packages"
	"golang.org/x/tools/go/ssa"
	"golang.org/x/tools/go/ssa/ssautil"
)

// Module is the import path of the repository under analysis.
const Module = "github.com/markkurossi/mpc"

// Program is the loaded repository.
type Program struct {
	Cfg       Config
	Dir       string
	Fset      *token.FileSet
	Pkgs      []*packages.Package
	SSA       *ssa.Program
	ByPath    map[string]*packages.Package
	cg        *callgraph.Graph
	cgVTA     bool
	cgv       *callgraph.Graph
	stdInvoke map[string]bool
}

// Config selects the build configuration.
type Config struct {
	Dir    string
	GOARCH string
	Tags   string
	VTA    bool
}

// Load loads all packages of the module rooted at cfg.Dir.
func Load(cfg Config) (*Program, error) {
	// The `go` that go/packages spawns is looked up on this process's PATH;
	// the repository needs go >= 1.25, so put the pinned toolchain first.
	gobin := os.Getenv("MPCVERIF_GOBIN")
	if gobin == "" {
		gobin = "/opt/veriftools/go1.26.8/bin"
	}
	if _, err := os.Stat(filepath.Join(gobin, "go")); err == nil {
		os.Setenv("PATH", gobin+string(os.PathListSeparator)+os.Getenv("PATH"))
	}
	env := os.Environ()
	env = append(env, "GOWORK=off", "GOFLAGS=-mod=mod", "GOPROXY=off", "GOTOOLCHAIN=local")
	if cfg.GOARCH != "" {
		env = append(env, "GOARCH="+cfg.GOARCH)
	}
	pc := &packages.Config{Mode: packages.LoadAllSyntax, Dir: cfg.Dir, Env: env, Fset: token.NewFileSet()}
	if cfg.Tags != "" {
		pc.BuildFlags = []string{"-tags=" + cfg.Tags}
	}
	pkgs, err := packages.Load(pc, "./...")
	if err != nil {
		return nil, err
	}
	if len(pkgs) == 0 {
		return nil, fmt.Errorf("no packages loaded from %s", cfg.Dir)
	}
	p := &Program{Cfg: cfg, Dir: cfg.Dir, Fset: pc.Fset, Pkgs: pkgs, ByPath: map[string]*packages.Package{}, cgVTA: cfg.VTA}
	var errs []string
	packages.Visit(pkgs, nil, func(pk *packages.Package) {
		for _, e := range pk.Errors {
			errs = append(errs, e.Error())
		}
	})
	if len(errs) > 0 {
		return nil, fmt.Errorf("type errors: %s", strings.Join(errs, "; "))
	}
	for _, pk := range pkgs {
		p.ByPath[pk.PkgPath] = pk
	}
	for _, pk := range pkgs {
		if strings.HasPrefix(pk.PkgPath, Module) {
			normalize(pk)
		}
	}
	p.SSA, _ = ssautil.AllPackages(pkgs, ssa.InstantiateGenerics)
	p.SSA.Build()
	return p, nil
}

// Rel returns the position as repo-relative file:line.
func (p *Program) Rel(pos token.Pos) string {
	if !pos.IsValid() {
		return "?"
	}
	ps := p.Fset.Position(pos)
	rel, err := filepath.Rel(p.Dir, ps.Filename)
	if err != nil {
		rel = ps.Filename
	}
	return fmt.Sprintf("%s:%d", rel, ps.Line)
}

// Pkg returns the SSA package with the module-relative path (""=root).
func (p *Program) Pkg(rel string) (*ssa.Package, error) {
	path := Module
	if rel != "" {
		path += "/" + rel
	}
	sp := p.SSA.ImportedPackage(path)
	if sp == nil {
		return nil, fmt.Errorf("anchor package %s not found", path)
	}
	return sp, nil
}

// Func resolves a package-level function.
func (p *Program) Func(pkg, name string) (*ssa.Function, error) {
	sp, err := p.Pkg(pkg)
	if err != nil {
		return nil, err
	}
	f := sp.Func(name)
	if f == nil {
		return nil, fmt.Errorf("anchor function %s.%s not found", pkg, name)
	}
	return f, nil
}

// Method resolves a method declared on *T or T.
func (p *Program) Method(pkg, typ, name string) (*ssa.Function, error) {
	sp, err := p.Pkg(pkg)
	if err != nil {
		return nil, err
	}
	t := sp.Type(typ)
	if t == nil {
		return nil, fmt.Errorf("anchor type %s.%s not found", pkg, typ)
	}
	if f := p.SSA.LookupMethod(types.NewPointer(t.Type()), sp.Pkg, name); f != nil {
		return f, nil
	}
	if f := p.SSA.LookupMethod(t.Type(), sp.Pkg, name); f != nil {
		return f, nil
	}
	return nil, fmt.Errorf("anchor method %s.%s.%s not found", pkg, typ, name)
}

// Type resolves a named type.
func (p *Program) Type(pkg, name string) (types.Type, error) {
	sp, err := p.Pkg(pkg)
	if err != nil {
		return nil, err
	}
	t := sp.Type(name)
	if t == nil {
		return nil, fmt.Errorf("anchor type %s.%s not found", pkg, name)
	}
	return t.Type(), nil
}

// InModule reports whether fn belongs to the repository under analysis.
func InModule(fn *ssa.Function) bool {
	return fn != nil && fn.Pkg != nil && (fn.Pkg.Pkg.Path() == Module || strings.HasPrefix(fn.Pkg.Pkg.Path(), Module+"/"))
}

// InModuleOrExample: fn belongs to the module or to a rule's built-in example package.
func InModuleOrExample(fn *ssa.Function) bool {
	return InModule(fn) || (fn != nil && fn.Pkg != nil && fn.Pkg.Pkg.Path() == "example")
}

// CallGraph returns the CHA call graph: the one every verdict is decided on
// (an over-approximation of the calls; the rule instance counts and their
// floors are measured on it).
func (p *Program) CallGraph() *callgraph.Graph {
	if p.cg == nil {
		p.cg = cha.CallGraph(p.SSA)
	}
	return p.cg
}

// VTAGraph returns the VTA refinement of the CHA graph, or nil outside the
// thorough tier.  It only annotates reports (is the path also present in the
// more precise graph?), it never decides.
func (p *Program) VTAGraph() *callgraph.Graph {
	if !p.cgVTA {
		return nil
	}
	if p.cgv == nil {
		p.cgv = vta.CallGraph(ssautil.AllFunctions(p.SSA), p.CallGraph())
	}
	return p.cgv
}

// Reachable returns the module functions reachable from the roots.
func (p *Program) Reachable(roots ...*ssa.Function) map[*ssa.Function]bool {
	g := p.CallGraph()
	seen := map[*ssa.Function]bool{}
	var stack []*ssa.Function
	for _, r := range roots {
		if r != nil && !seen[r] {
			seen[r] = true
			stack = append(stack, r)
		}
	}
	for len(stack) > 0 {
		f := stack[len(stack)-1]
		stack = stack[:len(stack)-1]
		n := g.Nodes[f]
		if n == nil {
			continue
		}
		for _, e := range n.Out {
			c := e.Callee.Func
			if c != nil && !seen[c] {
				seen[c] = true
				stack = append(stack, c)
			}
		}
		for _, an := range f.AnonFuncs {
			if !seen[an] {
				seen[an] = true
				stack = append(stack, an)
			}
		}
	}
	return seen
}

// AllFunctions lists every function of the program (including methods and closures).
func (p *Program) AllFunctions() []*ssa.Function {
	var out []*ssa.Function
	for f := range ssautil.AllFunctions(p.SSA) {
		out = append(out, f)
	}
	sort.Slice(out, func(i, j int) bool { return out[i].String() < out[j].String() })
	return out
}

// Results returns the values a return instruction returns, looking through the
// spill go/ssa inserts in functions that contain a defer:
//
//	*r0 = v0; *r1 = v1; rundefers; t0 = *r0; t1 = *r1; return t0, t1
//
// For such a return the stored values v0, v1 are reported (a deferred call
// that assigns a named result is not modelled: the cells are local and no
// deferred closure in the module captures one; if one ever does, the load is
// left in place and the rules treat it as an unknown value).
func Results(r *ssa.Return) []ssa.Value {
	out := make([]ssa.Value, len(r.Results))
	for i, v := range r.Results {
		out[i] = v
		ld, ok := v.(*ssa.UnOp)
		if !ok || ld.Op != token.MUL {
			continue
		}
		al, ok := ld.X.(*ssa.Alloc)
		if !ok {
			continue
		}
		// the cell must be written only by plain stores (no closure captures it)
		captured := false
		for _, ref := range *al.Referrers() {
			switch ref.(type) {
			case *ssa.Store, *ssa.UnOp:
			default:
				captured = true
			}
		}
		if captured {
			continue
		}
		var last ssa.Value
		for _, ins := range r.Block().Instrs {
			if st, ok := ins.(*ssa.Store); ok && st.Addr == ssa.Value(al) {
				last = st.Val
			}
		}
		if last != nil {
			out[i] = last
		}
	}
	return out
}

// ModuleReach is a reachability that does not walk through the standard
// library: CHA resolves a func-typed call inside e.g. sync.Once.Do to every
// func() of the module, which joins unrelated parts of the program.  From a
// module function the module callees of the CHA graph are followed; calls back
// out of non-module code are accounted for by (a) every module function whose
// value is taken (closure or function value operand) in a reached function and
// (b) the methods, of every module type converted to an interface in a reached
// function, whose name is invoked through an interface somewhere in non-module
// code.  Values reaching non-module code only through package-level variables
// initialised elsewhere are not followed (stated in DESIGN.md).
func (p *Program) ModuleReach(roots ...*ssa.Function) map[*ssa.Function]bool {
	g := p.CallGraph()
	if p.stdInvoke == nil {
		p.stdInvoke = map[string]bool{}
		for fn := range ssautil.AllFunctions(p.SSA) {
			if InModule(fn) {
				continue
			}
			for _, b := range fn.Blocks {
				for _, ins := range b.Instrs {
					if c, ok := ins.(ssa.CallInstruction); ok && c.Common().IsInvoke() {
						p.stdInvoke[c.Common().Method.Name()] = true
					}
				}
			}
		}
	}
	seen := map[*ssa.Function]bool{}
	var stack []*ssa.Function
	push := func(f *ssa.Function) {
		if f != nil && !seen[f] && InModule(f) {
			seen[f] = true
			stack = append(stack, f)
		}
	}
	for _, r := range roots {
		push(r)
	}
	for len(stack) > 0 {
		f := stack[len(stack)-1]
		stack = stack[:len(stack)-1]
		if n := g.Nodes[f]; n != nil {
			for _, e := range n.Out {
				push(e.Callee.Func)
			}
		}
		for _, an := range f.AnonFuncs {
			push(an)
		}
		for _, b := range f.Blocks {
			for _, ins := range b.Instrs {
				for _, op := range ins.Operands(nil) {
					if op == nil || *op == nil {
						continue
					}
					if fv, ok := (*op).(*ssa.Function); ok {
						push(fv)
					}
				}
				if mi, ok := ins.(*ssa.MakeInterface); ok {
					ms := p.SSA.MethodSets.MethodSet(mi.X.Type())
					for i := 0; i < ms.Len(); i++ {
						sel := ms.At(i)
						if p.stdInvoke[sel.Obj().Name()] {
							push(p.SSA.MethodValue(sel))
						}
					}
				}
			}
		}
	}
	return seen
}

var otherArch struct {
	key string
	p   *Program
	err error
}

// OtherArch loads (once per process) the build configuration whose file set differs from the native one:
// GOARCH=arm64 selects the portable siblings of the amd64 assembly.  A program that is itself a
// non-native configuration returns nil.
func (p *Program) OtherArch() (*Program, error) {
	if p.Cfg.GOARCH != "" {
		return nil, nil
	}
	if otherArch.key != p.Dir {
		cfg := p.Cfg
		cfg.GOARCH = "arm64"
		cfg.VTA = false
		otherArch.key = p.Dir
		otherArch.p, otherArch.err = Load(cfg)
	}
	return otherArch.p, otherArch.err
}

// HasFile reports whether the configuration parsed the file (repo-relative path).
func (p *Program) HasFile(rel string) bool {
	for _, pk := range p.Pkgs {
		for _, f := range pk.GoFiles {
			if r, err := filepath.Rel(p.Dir, f); err == nil && r == rel {
				return true
			}
		}
	}
	return false
}
