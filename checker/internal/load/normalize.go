package load

import (
	"go/ast"
	"go/token"
	"go/types"
	"os"

	"golang.org/x/tools/go/ast/astutil"
	"golang.org/x/tools/go/packages"
)

// normalize rewrites the syntax trees of the module's packages into a normal form *after* type checking
// and *before* the SSA form is built, so that every rule — AST matcher, source interpreter or SSA walk —
// sees one spelling of constructs a maintainer can write in several equivalent ways:
//
//	N1  x += 1, x -= 1                       ->  x++, x--
//	N2  a > b, a >= b                        ->  b < a, b <= a          (operands without calls)
//	    K == x, K != x (K constant or nil)   ->  x == K, x != K
//	N3  !(a == b), !(a < b) (integers), !!x  ->  a != b, b <= a, x
//	    if !c { A } else { B }               ->  if c { B } else { A }
//	    if a != b / a <= b { A } else { B }  ->  if a == b / b < a { B } else { A }
//	N5  if c { ...; return } else { R }      ->  if c { ...; return }; R        (also break/continue/goto/panic)
//	N6  switch { case a: A case b: B default: D } -> if a { A } else if b { B } else { D }
//	    (single-expression cases, no fallthrough, no break that binds to the switch)
//
// Only existing expression nodes are re-linked (their entries in types.Info stay valid); new nodes are
// statements, which carry no type information.  Every rewrite preserves behaviour; none is applied where
// it would not (ordered comparisons of floats are not negated, operands with calls are not swapped).
// MPCVERIF_NONORM=1 switches the pass off (used to measure what it buys).
func normalize(pkg *packages.Package) {
	if os.Getenv("MPCVERIF_NONORM") != "" {
		return
	}
	n := &normalizer{info: pkg.TypesInfo}
	for _, f := range pkg.Syntax {
		astutil.Apply(f, nil, n.post)
	}
}

type normalizer struct {
	info *types.Info
}

func unparen(e ast.Expr) ast.Expr {
	for {
		p, ok := e.(*ast.ParenExpr)
		if !ok {
			return e
		}
		e = p.X
	}
}

func hasCall(e ast.Expr) bool {
	found := false
	ast.Inspect(e, func(n ast.Node) bool {
		switch t := n.(type) {
		case *ast.CallExpr, *ast.FuncLit:
			found = true
		case *ast.UnaryExpr:
			if t.Op == token.ARROW {
				found = true
			}
		}
		return !found
	})
	return found
}

func (n *normalizer) constLike(e ast.Expr) bool {
	tv, ok := n.info.Types[e]
	return ok && (tv.Value != nil || tv.IsNil())
}

func (n *normalizer) orderedNonFloat(e ast.Expr) bool {
	tv, ok := n.info.Types[e]
	if !ok || tv.Type == nil {
		return false
	}
	b, ok := tv.Type.Underlying().(*types.Basic)
	return ok && b.Info()&(types.IsInteger|types.IsString) != 0
}

// normCmp puts a comparison into its normal direction.
func (n *normalizer) normCmp(be *ast.BinaryExpr) {
	switch be.Op {
	case token.GTR, token.GEQ:
		if !hasCall(be.X) && !hasCall(be.Y) {
			be.X, be.Y = be.Y, be.X
			if be.Op == token.GTR {
				be.Op = token.LSS
			} else {
				be.Op = token.LEQ
			}
		}
	case token.EQL, token.NEQ:
		if n.constLike(unparen(be.X)) && !n.constLike(unparen(be.Y)) && !hasCall(be.Y) {
			be.X, be.Y = be.Y, be.X
		}
	}
}

// negate returns the negation of a boolean expression if it can be written without a new typed node.
func (n *normalizer) negate(e ast.Expr) (ast.Expr, bool) {
	switch t := unparen(e).(type) {
	case *ast.UnaryExpr:
		if t.Op == token.NOT {
			return unparen(t.X), true
		}
	case *ast.BinaryExpr:
		switch t.Op {
		case token.EQL:
			t.Op = token.NEQ
			return t, true
		case token.NEQ:
			t.Op = token.EQL
			return t, true
		case token.LSS, token.LEQ, token.GTR, token.GEQ:
			if n.orderedNonFloat(t.X) && n.orderedNonFloat(t.Y) {
				t.Op = map[token.Token]token.Token{token.LSS: token.GEQ, token.LEQ: token.GTR, token.GTR: token.LEQ, token.GEQ: token.LSS}[t.Op]
				n.normCmp(t)
				return t, true
			}
		}
	}
	return nil, false
}

func terminates(b *ast.BlockStmt) bool {
	if b == nil || len(b.List) == 0 {
		return false
	}
	switch t := b.List[len(b.List)-1].(type) {
	case *ast.ReturnStmt:
		return true
	case *ast.BranchStmt:
		return t.Tok != token.FALLTHROUGH
	case *ast.ExprStmt:
		if c, ok := t.X.(*ast.CallExpr); ok {
			if id, ok := c.Fun.(*ast.Ident); ok && id.Name == "panic" {
				return true
			}
		}
	}
	return false
}

// bindsToSwitch reports a break (unlabelled, outside inner loops/switches/selects) or a fallthrough in list.
func bindsToSwitch(list []ast.Stmt) bool {
	found := false
	var visit func(n ast.Node) bool
	visit = func(n ast.Node) bool {
		switch t := n.(type) {
		case *ast.ForStmt, *ast.RangeStmt, *ast.SwitchStmt, *ast.TypeSwitchStmt, *ast.SelectStmt, *ast.FuncLit:
			return false
		case *ast.BranchStmt:
			if (t.Tok == token.BREAK && t.Label == nil) || t.Tok == token.FALLTHROUGH {
				found = true
			}
		}
		return !found
	}
	for _, s := range list {
		ast.Inspect(s, visit)
	}
	return found
}

func hasLabel(list []ast.Stmt) bool {
	for _, s := range list {
		if _, ok := s.(*ast.LabeledStmt); ok {
			return true
		}
	}
	return false
}

func (n *normalizer) post(c *astutil.Cursor) bool {
	switch t := c.Node().(type) {
	case *ast.BinaryExpr:
		n.normCmp(t)
	case *ast.UnaryExpr:
		if t.Op == token.NOT {
			if neg, ok := n.negate(t.X); ok {
				c.Replace(neg)
			}
		}
	case *ast.AssignStmt:
		if (t.Tok == token.ADD_ASSIGN || t.Tok == token.SUB_ASSIGN) && len(t.Lhs) == 1 && len(t.Rhs) == 1 {
			if lit, ok := unparen(t.Rhs[0]).(*ast.BasicLit); ok && lit.Kind == token.INT && lit.Value == "1" {
				tok := token.INC
				if t.Tok == token.SUB_ASSIGN {
					tok = token.DEC
				}
				c.Replace(&ast.IncDecStmt{X: t.Lhs[0], TokPos: t.TokPos, Tok: tok})
			}
		}
	case *ast.SwitchStmt:
		if t.Tag == nil && t.Init == nil {
			if is := switchToIf(t); is != nil {
				c.Replace(is)
				// the new if statements were not visited: normalise them now
				for cur := ast.Stmt(is); cur != nil; {
					i, ok := cur.(*ast.IfStmt)
					if !ok {
						break
					}
					n.normIfCond(i)
					cur = i.Else
				}
			}
		}
	case *ast.IfStmt:
		n.normIfCond(t)
		// N5: the then-branch ends the flow: what follows needs no else
		if t.Else != nil && terminates(t.Body) && c.Index() >= 0 {
			var rest []ast.Stmt
			for e := t.Else; e != nil; {
				switch x := e.(type) {
				case *ast.BlockStmt:
					rest = append(rest, x.List...)
					e = nil
				case *ast.IfStmt:
					rest = append(rest, x)
					e = nil
					if x.Else != nil && terminates(x.Body) {
						e, x.Else = x.Else, nil
					}
				default:
					e = nil
				}
			}
			if !hasLabel(rest) {
				t.Else = nil
				for i := len(rest) - 1; i >= 0; i-- {
					c.InsertAfter(rest[i])
				}
			}
		}
	}
	return true
}

// normIfCond: negated or "negative" conditions of an if with an else block swap the branches.
func (n *normalizer) normIfCond(t *ast.IfStmt) {
	eb, ok := t.Else.(*ast.BlockStmt)
	if !ok {
		return
	}
	cond := unparen(t.Cond)
	swap := false
	switch x := cond.(type) {
	case *ast.UnaryExpr:
		if x.Op == token.NOT {
			swap = true
		}
	case *ast.BinaryExpr:
		if x.Op == token.NEQ || (x.Op == token.LEQ && n.orderedNonFloat(x.X) && n.orderedNonFloat(x.Y)) {
			swap = true
		}
	}
	// do not undo N5: a terminating then-branch stays first
	if !swap || terminates(t.Body) {
		return
	}
	if neg, ok := n.negate(cond); ok {
		t.Cond = neg
		t.Body, t.Else = eb, t.Body
	}
}

func switchToIf(s *ast.SwitchStmt) *ast.IfStmt {
	var cases []*ast.CaseClause
	var deflt *ast.CaseClause
	for _, cl := range s.Body.List {
		cc := cl.(*ast.CaseClause)
		if bindsToSwitch(cc.Body) {
			return nil
		}
		if cc.List == nil {
			deflt = cc
			continue
		}
		if len(cc.List) != 1 {
			return nil
		}
		cases = append(cases, cc)
	}
	if len(cases) == 0 {
		return nil
	}
	var first, last *ast.IfStmt
	for _, cc := range cases {
		is := &ast.IfStmt{If: cc.Case, Cond: cc.List[0], Body: &ast.BlockStmt{Lbrace: cc.Colon, List: cc.Body, Rbrace: cc.End()}}
		if first == nil {
			first = is
		} else {
			last.Else = is
		}
		last = is
	}
	if deflt != nil {
		last.Else = &ast.BlockStmt{Lbrace: deflt.Colon, List: deflt.Body, Rbrace: deflt.End()}
	}
	return first
}
