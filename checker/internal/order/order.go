// Package order decides whether a nondeterministic iteration order can reach emitted code.
package order

import (
	"fmt"
	"go/ast"
	"go/token"
	"go/types"
	"sort"
	"strings"

	"golang.org/x/tools/go/packages"
	"golang.org/x/tools/go/ssa"
	"golang.org/x/tools/go/types/typeutil"

	"mpcverif/internal/load"
	"mpcverif/internal/report"
)

// short is the module-relative name of a function.
func short(f *ssa.Function) string {
	return strings.ReplaceAll(f.RelString(nil), load.Module+"/", "")
}

// inScope excludes the command-line tools and reference code.
func inScope(f *ssa.Function) bool {
	if !load.InModule(f) {
		return false
	}
	path := f.Pkg.Pkg.Path()
	return !strings.HasPrefix(path, load.Module+"/apps/") && !strings.HasPrefix(path, load.Module+"/docs/")
}

// reachableBlocks follows the CFG from the entry, pruning branches on constant conditions.
func reachableBlocks(fn *ssa.Function) map[*ssa.BasicBlock]bool {
	seen := map[*ssa.BasicBlock]bool{}
	if len(fn.Blocks) == 0 {
		return seen
	}
	stack := []*ssa.BasicBlock{fn.Blocks[0]}
	for len(stack) > 0 {
		b := stack[len(stack)-1]
		stack = stack[:len(stack)-1]
		if seen[b] {
			continue
		}
		seen[b] = true
		if iff, ok := b.Instrs[len(b.Instrs)-1].(*ssa.If); ok {
			if c, ok := iff.Cond.(*ssa.Const); ok && c.Value != nil {
				if c.Value.String() == "true" {
					stack = append(stack, b.Succs[0])
				} else {
					stack = append(stack, b.Succs[1])
				}
				continue
			}
		}
		stack = append(stack, b.Succs...)
	}
	return seen
}

func isMap(t types.Type) bool {
	if t == nil {
		return false
	}
	_, ok := t.Underlying().(*types.Map)
	return ok
}

type site struct {
	pkg *packages.Package
	fd  *ast.FuncDecl
	rs  *ast.RangeStmt
	fn  *ssa.Function
}

// liveMapRanges returns the map ranges that exist in the SSA form (dead code is gone) of reachable functions.
func liveMapRanges(p *load.Program, reach map[*ssa.Function]bool) []site {
	// position of the ranged expression -> live
	livePos := map[token.Pos]*ssa.Function{}
	for fn := range reach {
		if !inScope(fn) {
			continue
		}
		live := reachableBlocks(fn)
		for _, b := range fn.Blocks {
			if !live[b] {
				continue
			}
			for _, ins := range b.Instrs {
				if r, ok := ins.(*ssa.Range); ok && isMap(r.X.Type()) {
					livePos[r.Pos()] = fn
				}
			}
		}
	}
	var out []site
	for _, pkg := range p.Pkgs {
		for _, f := range pkg.Syntax {
			for _, d := range f.Decls {
				fd, ok := d.(*ast.FuncDecl)
				if !ok || fd.Body == nil {
					continue
				}
				ast.Inspect(fd.Body, func(n ast.Node) bool {
					rs, ok := n.(*ast.RangeStmt)
					if !ok || !isMap(pkg.TypesInfo.TypeOf(rs.X)) {
						return true
					}
					for pos, fn := range livePos {
						if pos >= rs.Pos() && pos <= rs.Body.Pos() {
							out = append(out, site{pkg, fd, rs, fn})
							break
						}
					}
					return true
				})
			}
		}
	}
	sort.Slice(out, func(i, j int) bool { return out[i].rs.Pos() < out[j].rs.Pos() })
	return out
}

type classifier struct {
	s    site
	info *types.Info
	bad  []string
	call []*ast.CallExpr // calls into module functions that need an effect verdict
	// return statements in the body, and how many of them are error exits
	returns, errReturns int
}

func (c *classifier) sortedLater(obj types.Object) bool {
	found := false
	ast.Inspect(c.s.fd.Body, func(n ast.Node) bool {
		call, ok := n.(*ast.CallExpr)
		if !ok || call.Pos() < c.s.rs.End() {
			return true
		}
		sel, ok := call.Fun.(*ast.SelectorExpr)
		if !ok {
			return true
		}
		pk, ok := sel.X.(*ast.Ident)
		if !ok {
			return true
		}
		if pn, ok := c.info.Uses[pk].(*types.PkgName); ok {
			if (pn.Imported().Path() == "sort" || pn.Imported().Path() == "slices") && len(call.Args) > 0 {
				if id, ok := call.Args[0].(*ast.Ident); ok && c.info.Uses[id] == obj {
					found = true
					if why := c.sortKeyNotTotal(call); why != "" {
						c.bad = append(c.bad, why)
					}
				}
			}
		}
		return true
	})
	return found
}

func (c *classifier) checkCall(call *ast.CallExpr) {
	switch f := call.Fun.(type) {
	case *ast.Ident:
		if _, ok := c.info.Uses[f].(*types.Builtin); ok {
			return
		}
		if _, ok := c.info.Uses[f].(*types.TypeName); ok {
			return
		}
	case *ast.SelectorExpr:
		if s, ok := c.info.Selections[f]; ok && isMap(s.Recv()) {
			return // keyed operation on a map-typed receiver (Set.Add, Set.Remove)
		}
		if pk, ok := f.X.(*ast.Ident); ok {
			if pn, ok := c.info.Uses[pk].(*types.PkgName); ok {
				switch pn.Imported().Path() {
				case "strings", "strconv", "math":
					return
				case "fmt":
					if strings.HasPrefix(f.Sel.Name, "Sprint") || f.Sel.Name == "Errorf" {
						return
					}
				}
			}
		}
	case *ast.ArrayType, *ast.ParenExpr:
		return
	}
	c.call = append(c.call, call)
}

func (c *classifier) walk(stmts []ast.Stmt) {
	for _, st := range stmts {
		switch s := st.(type) {
		case *ast.AssignStmt:
			for _, r := range s.Rhs {
				ast.Inspect(r, func(n ast.Node) bool {
					if call, ok := n.(*ast.CallExpr); ok {
						c.checkCall(call)
					}
					return true
				})
			}
			for i, lhs := range s.Lhs {
				switch l := lhs.(type) {
				case *ast.IndexExpr:
					if !isMap(c.info.TypeOf(l.X)) {
						c.bad = append(c.bad, "indexed store "+types.ExprString(l))
					}
				case *ast.Ident:
					obj := c.info.ObjectOf(l)
					if obj == nil || l.Name == "_" || (obj.Pos() >= c.s.rs.Pos() && obj.Pos() <= c.s.rs.End()) {
						continue
					}
					if i < len(s.Rhs) {
						if call, ok := s.Rhs[i].(*ast.CallExpr); ok {
							if id, ok := call.Fun.(*ast.Ident); ok && id.Name == "append" {
								if !c.sortedLater(obj) {
									c.bad = append(c.bad, "append to "+l.Name+" without a later sort")
								}
								continue
							}
						}
					}
					switch s.Tok {
					case token.ADD_ASSIGN, token.OR_ASSIGN, token.AND_ASSIGN, token.XOR_ASSIGN:
						continue
					}
					c.bad = append(c.bad, "assign outer "+l.Name)
				default:
					c.bad = append(c.bad, "store "+types.ExprString(lhs))
				}
			}
		case *ast.IncDecStmt, *ast.BranchStmt, *ast.DeclStmt, *ast.EmptyStmt:
		case *ast.ExprStmt:
			ast.Inspect(s, func(n ast.Node) bool {
				if call, ok := n.(*ast.CallExpr); ok {
					c.checkCall(call)
				}
				return true
			})
		case *ast.IfStmt:
			if s.Init != nil {
				c.walk([]ast.Stmt{s.Init})
			}
			ast.Inspect(s.Cond, func(n ast.Node) bool {
				if call, ok := n.(*ast.CallExpr); ok {
					c.checkCall(call)
				}
				return true
			})
			c.walk(s.Body.List)
			switch e := s.Else.(type) {
			case *ast.BlockStmt:
				c.walk(e.List)
			case *ast.IfStmt:
				c.walk([]ast.Stmt{e})
			}
		case *ast.BlockStmt:
			c.walk(s.List)
		case *ast.ForStmt:
			c.walk(s.Body.List)
		case *ast.RangeStmt:
			c.walk(s.Body.List)
		case *ast.ReturnStmt:
			for _, r := range s.Results {
				ast.Inspect(r, func(n ast.Node) bool {
					if call, ok := n.(*ast.CallExpr); ok {
						c.checkCall(call)
					}
					return true
				})
			}
			c.returns++
			if n := len(s.Results); n > 0 {
				if tv, ok := c.info.Types[s.Results[n-1]]; ok && tv.Type != nil && tv.Type.String() == "error" && !tv.IsNil() {
					c.errReturns++ // an error exit: no output is produced on this path
				}
			}
			c.bad = append(c.bad, "return")
		default:
			c.bad = append(c.bad, fmt.Sprintf("statement %T", st))
		}
	}
}

func (c *classifier) uniqueMatch() bool {
	if len(c.s.rs.Body.List) != 1 {
		return false
	}
	ifs, ok := c.s.rs.Body.List[0].(*ast.IfStmt)
	if !ok || ifs.Else != nil || len(ifs.Body.List) == 0 {
		return false
	}
	be, ok := ifs.Cond.(*ast.BinaryExpr)
	if !ok || be.Op != token.EQL {
		return false
	}
	switch l := ifs.Body.List[len(ifs.Body.List)-1].(type) {
	case *ast.ReturnStmt:
		return true
	case *ast.BranchStmt:
		return l.Tok == token.BREAK
	}
	return false
}

func (c *classifier) maxMin() bool {
	for _, b := range c.bad {
		if !strings.HasPrefix(b, "assign outer ") {
			return false
		}
	}
	ok := len(c.bad) > 0
	ast.Inspect(c.s.rs.Body, func(n ast.Node) bool {
		if ifs, isIf := n.(*ast.IfStmt); isIf {
			be, isBin := ifs.Cond.(*ast.BinaryExpr)
			if !isBin || (be.Op != token.GTR && be.Op != token.LSS && be.Op != token.GEQ && be.Op != token.LEQ) {
				ok = false
				return true
			}
			// what the branch keeps is the extreme value itself: `if d < best { best = d }`.  Anything else
			// kept with it (the entry that had the extreme value) is decided by the order among equal entries.
			x, y := types.ExprString(ast.Unparen(be.X)), types.ExprString(ast.Unparen(be.Y))
			for _, st := range ifs.Body.List {
				as, isAssign := st.(*ast.AssignStmt)
				if !isAssign || len(as.Lhs) != 1 || len(as.Rhs) != 1 {
					ok = false
					continue
				}
				l, r := types.ExprString(as.Lhs[0]), types.ExprString(ast.Unparen(as.Rhs[0]))
				if !(l == x && r == y || l == y && r == x) {
					if id, isId := as.Lhs[0].(*ast.Ident); isId {
						if obj := c.info.ObjectOf(id); obj != nil && obj.Pos() >= c.s.rs.Pos() && obj.Pos() <= c.s.rs.End() {
							continue // a local of the body
						}
					}
					ok = false
				}
			}
		}
		return true
	})
	return ok
}

// argminTotal accepts the selection of one entry by a total order: the body computes a measure d of the
// entry from its key, and one `if` keeps the entry when d is strictly better than the best so far, or equal
// with a strictly smaller (or larger) key — map keys are distinct, so (d, key) orders the entries totally
// and the entry kept at the end is the same for every iteration order.  A first-iteration test `best == 0`
// in the condition is sound only if d is never 0: accepted when d is the distance |key - c| and the
// function has returned earlier on a successful lookup of c in the same map.
func (c *classifier) argminTotal() bool {
	rs := c.s.rs
	key, ok := rs.Key.(*ast.Ident)
	if !ok || key.Name == "_" {
		return false
	}
	keyObj := c.info.ObjectOf(key)
	var sel *ast.IfStmt
	inBody := func(o types.Object) bool { return o != nil && o.Pos() >= rs.Pos() && o.Pos() <= rs.End() }
	for _, st := range rs.Body.List {
		switch t := st.(type) {
		case *ast.AssignStmt:
			for _, l := range t.Lhs {
				id, isId := l.(*ast.Ident)
				if !isId || !inBody(c.info.ObjectOf(id)) {
					return false
				}
			}
		case *ast.IfStmt:
			// an adjustment of a local (`if d < 0 { d = -d }`) or the selection
			local := t.Else == nil
			for _, b := range t.Body.List {
				as, isAssign := b.(*ast.AssignStmt)
				if !isAssign {
					return false
				}
				for _, l := range as.Lhs {
					id, isId := l.(*ast.Ident)
					if !isId {
						return false
					}
					if !inBody(c.info.ObjectOf(id)) {
						local = false
					}
				}
			}
			if local {
				continue
			}
			if sel != nil || t.Else != nil {
				return false
			}
			sel = t
		default:
			return false
		}
	}
	if sel == nil {
		return false
	}
	assigned := map[string]string{} // outer variable -> expression it is set to
	for _, b := range sel.Body.List {
		as := b.(*ast.AssignStmt)
		if len(as.Lhs) != len(as.Rhs) || as.Tok != token.ASSIGN {
			return false
		}
		for i := range as.Lhs {
			assigned[types.ExprString(as.Lhs[i])] = types.ExprString(ast.Unparen(as.Rhs[i]))
		}
	}
	var disj []ast.Expr
	var flat func(e ast.Expr)
	flat = func(e ast.Expr) {
		e = ast.Unparen(e)
		if be, ok := e.(*ast.BinaryExpr); ok && be.Op == token.LOR {
			flat(be.X)
			flat(be.Y)
			return
		}
		disj = append(disj, e)
	}
	flat(sel.Cond)
	strict, tie := "", false
	measure, best := "", ""
	var sentinels []*ast.BinaryExpr
	cmp := func(e ast.Expr) (l, r string, op token.Token, ok bool) {
		be, isBin := ast.Unparen(e).(*ast.BinaryExpr)
		if !isBin {
			return "", "", 0, false
		}
		return types.ExprString(ast.Unparen(be.X)), types.ExprString(ast.Unparen(be.Y)), be.Op, true
	}
	for _, d := range disj {
		if l, r, op, ok := cmp(d); ok && (op == token.LSS || op == token.GTR) {
			// measure < best with best = measure in the body (either side)
			if assigned[r] == l {
				measure, best, strict = l, r, op.String()
				continue
			}
			if assigned[l] == r {
				measure, best = r, l
				strict = map[token.Token]string{token.LSS: ">", token.GTR: "<"}[op]
				continue
			}
		}
		if be, ok := ast.Unparen(d).(*ast.BinaryExpr); ok && be.Op == token.LAND {
			l1, r1, op1, ok1 := cmp(be.X)
			l2, r2, op2, ok2 := cmp(be.Y)
			if ok1 && ok2 && op1 == token.EQL && (op2 == token.LSS || op2 == token.GTR) {
				eq := assigned[r1] == l1 || assigned[l1] == r1
				byKey := (l2 == key.Name && assigned[r2] == key.Name) || (r2 == key.Name && assigned[l2] == key.Name)
				if eq && byKey {
					tie = true
					continue
				}
			}
			return false
		}
		if be, ok := ast.Unparen(d).(*ast.BinaryExpr); ok && be.Op == token.EQL {
			sentinels = append(sentinels, be)
			continue
		}
		return false
	}
	if strict == "" || !tie || measure == "" {
		return false
	}
	_ = keyObj
	for _, sb := range sentinels {
		// best == 0 (first iteration): sound only when the measure is never 0
		l, r := types.ExprString(ast.Unparen(sb.X)), types.ExprString(ast.Unparen(sb.Y))
		if !(l == best && r == "0" || r == best && l == "0") || strict != "<" {
			return false
		}
		if !c.distanceNeverZero(measure, key.Name) {
			return false
		}
	}
	return true
}

// distanceNeverZero: measure is a local set to key - c (or c - key), made non-negative by `if m < 0 { m = -m }`,
// and the enclosing function returns when c is found in the ranged map before the loop.
func (c *classifier) distanceNeverZero(measure, key string) bool {
	rs := c.s.rs
	other := ""
	for _, st := range rs.Body.List {
		if as, ok := st.(*ast.AssignStmt); ok && len(as.Lhs) == 1 && len(as.Rhs) == 1 && types.ExprString(as.Lhs[0]) == measure {
			if be, ok := ast.Unparen(as.Rhs[0]).(*ast.BinaryExpr); ok && be.Op == token.SUB {
				l, r := types.ExprString(ast.Unparen(be.X)), types.ExprString(ast.Unparen(be.Y))
				if l == key {
					other = r
				} else if r == key {
					other = l
				}
			}
		}
	}
	if other == "" {
		return false
	}
	m := types.ExprString(rs.X)
	found := false
	ast.Inspect(c.s.fd.Body, func(n ast.Node) bool {
		blk, ok := n.(*ast.BlockStmt)
		if !ok {
			return true
		}
		for i, st := range blk.List {
			as, ok := st.(*ast.AssignStmt)
			if !ok || len(as.Lhs) != 2 || len(as.Rhs) != 1 || st.End() > rs.Pos() {
				continue
			}
			ix, ok := ast.Unparen(as.Rhs[0]).(*ast.IndexExpr)
			if !ok || types.ExprString(ix.X) != m || types.ExprString(ast.Unparen(ix.Index)) != other {
				continue
			}
			okName := types.ExprString(as.Lhs[1])
			for _, nx := range blk.List[i+1:] {
				if ifs, isIf := nx.(*ast.IfStmt); isIf && types.ExprString(ast.Unparen(ifs.Cond)) == okName && len(ifs.Body.List) > 0 {
					if _, isRet := ifs.Body.List[len(ifs.Body.List)-1].(*ast.ReturnStmt); isRet && nx.End() < rs.Pos() {
						found = true
					}
				}
			}
		}
		return true
	})
	return found
}

// Frozen is a reasoned verdict for a map range whose body calls into the module.
type Frozen struct {
	Reason string
	// NoGlobalWritesFrom: precondition re-checked on every run: no function
	// reachable from this callee stores to a package-level variable.
	NoGlobalWritesFrom struct{ Pkg, Type, Name string }
}

// MapRanges classifies every live map range in the scope.
func MapRanges(p *load.Program, run *report.Run, roots []*ssa.Function, frozen map[string]Frozen) {
	rule := "map-range-order"
	allPkgs = p.Pkgs
	reach := p.Reachable(roots...)
	n := 0
	for f := range reach {
		if inScope(f) {
			n++
		}
	}
	run.Count("functions-in-scope", n)
	for _, s := range liveMapRanges(p, reach) {
		run.Count("map-ranges", 1)
		c := &classifier{s: s, info: s.pkg.TypesInfo}
		c.walk(s.rs.Body.List)
		key := short(s.fn) + "/range " + types.ExprString(s.rs.X)
		pos := p.Rel(s.rs.Pos())
		switch {
		case len(c.bad) == 0 && len(c.call) == 0:
			run.OK(rule, key, pos, "keyed inserts / commutative updates / collect-then-sort")
		case len(c.call) == 0 && c.uniqueMatch():
			run.OK(rule, key, pos, "unique-match search")
		case len(c.call) == 0 && c.maxMin():
			run.OK(rule, key, pos, "max/min accumulation")
		case len(c.call) == 0 && c.argminTotal():
			run.OK(rule, key, pos, "selection of one entry by a total order (measure, then key)")
		default:
			if fz, ok := frozen[key]; ok {
				pre := fz.NoGlobalWritesFrom
				var callee *ssa.Function
				var err error
				if pre.Type == "" {
					callee, err = p.Func(pre.Pkg, pre.Name)
				} else {
					callee, err = p.Method(pre.Pkg, pre.Type, pre.Name)
				}
				if err != nil {
					run.Undecided(rule, key, pos, "frozen verdict: "+err.Error())
					continue
				}
				// the frozen verdict covers the named callee only: every other effect of the body must be
				// order-insensitive by the ordinary classification
				var rest []string
				for _, b := range c.bad {
					if b == "return" && c.returns == c.errReturns {
						continue // only error exits leave the loop early: which error is reported first is not an output of a successful compilation
					}
					rest = append(rest, b)
				}
				for _, cl := range c.call {
					if obj := typeutil.Callee(c.info, cl); obj != nil && callee.Object() != nil && obj == callee.Object() {
						continue
					}
					rest = append(rest, "calls "+types.ExprString(cl.Fun))
				}
				if len(rest) > 0 {
					run.Violate(rule, key, pos, "iteration order of the map reaches order-sensitive effects besides the frozen callee: "+strings.Join(rest, "; "), nil)
					continue
				}
				w := globalWrites(p, callee)
				w = append(w, receiverFieldStores(p, callee)...)
				w = append(w, lenNumbering(p, callee)...)
				if len(w) > 0 {
					run.Violate(rule, key, pos, "frozen verdict no longer holds: callee chain writes package-level state, appends to a field of its receiver or numbers map entries by insertion order", w)
				} else {
					run.OK(rule, key, pos, "frozen: "+fz.Reason)
				}
				continue
			}
			var why []string
			why = append(why, c.bad...)
			for _, cl := range c.call {
				why = append(why, "calls "+types.ExprString(cl.Fun))
			}
			run.Violate(rule, key, pos, "iteration order of the map reaches order-sensitive effects: "+strings.Join(why, "; "), nil)
		}
	}
}

// receiverFieldStores lists stores into fields of the callee's receiver type in
// functions reachable from f (map updates are keyed and are not stores).
func receiverFieldStores(p *load.Program, f *ssa.Function) []string {
	var out []string
	if f.Signature.Recv() == nil {
		return nil
	}
	recvT := f.Signature.Recv().Type()
	for fn := range p.Reachable(f) {
		if !inScope(fn) {
			continue
		}
		for _, b := range fn.Blocks {
			for _, ins := range b.Instrs {
				st, ok := ins.(*ssa.Store)
				if !ok {
					continue
				}
				// an append into a field of the receiver records the order of the calls
				if fa, ok := st.Addr.(*ssa.FieldAddr); ok && types.Identical(fa.X.Type(), recvT) && isAppend(st.Val) {
					out = append(out, fn.RelString(nil)+" appends to a field of "+recvT.String()+" at "+p.Rel(st.Pos()))
				}
			}
		}
	}
	sort.Strings(out)
	return out
}

// lenNumbering lists map updates m[k] = f(len(m)) in functions reachable from f: the
// value an entry gets is its insertion rank, so it records the order of the calls.
func lenNumbering(p *load.Program, f *ssa.Function) []string {
	var out []string
	for fn := range p.ModuleReach(f) {
		if !inScope(fn) {
			continue
		}
		for _, b := range fn.Blocks {
			for _, ins := range b.Instrs {
				mu, ok := ins.(*ssa.MapUpdate)
				if !ok {
					continue
				}
				if derivesFromLenOf(mu.Value, mu.Map, 0) {
					out = append(out, fn.RelString(nil)+" numbers the entries of a map by insertion order at "+p.Rel(mu.Pos()))
				}
			}
		}
	}
	sort.Strings(out)
	return out
}

func derivesFromLenOf(v, m ssa.Value, depth int) bool {
	if depth > 4 {
		return false
	}
	switch t := v.(type) {
	case *ssa.Call:
		if b, ok := t.Call.Value.(*ssa.Builtin); ok && b.Name() == "len" && len(t.Call.Args) == 1 {
			return sameMapValue(t.Call.Args[0], m)
		}
	case *ssa.Convert:
		return derivesFromLenOf(t.X, m, depth+1)
	case *ssa.BinOp:
		return derivesFromLenOf(t.X, m, depth+1) || derivesFromLenOf(t.Y, m, depth+1)
	case *ssa.Phi:
		for _, e := range t.Edges {
			if derivesFromLenOf(e, m, depth+1) {
				return true
			}
		}
	case *ssa.MakeInterface:
		return derivesFromLenOf(t.X, m, depth+1)
	}
	return false
}

// sameMapValue: the two values are loads of the same field/variable (or the same SSA value).
func sameMapValue(a, b ssa.Value) bool {
	if a == b {
		return true
	}
	la, ok1 := a.(*ssa.UnOp)
	lb, ok2 := b.(*ssa.UnOp)
	if !ok1 || !ok2 {
		return false
	}
	fa, ok1 := la.X.(*ssa.FieldAddr)
	fb, ok2 := lb.X.(*ssa.FieldAddr)
	if ok1 && ok2 {
		return fa.Field == fb.Field && (fa.X == fb.X || sameMapValue(fa.X, fb.X))
	}
	return la.X == lb.X
}

func isAppend(v ssa.Value) bool {
	if c, ok := v.(*ssa.Call); ok {
		if b, ok := c.Call.Value.(*ssa.Builtin); ok && b.Name() == "append" {
			return true
		}
	}
	return false
}

// globalWrites lists stores to package-level variables in functions reachable from f.
func globalWrites(p *load.Program, f *ssa.Function) []string {
	var out []string
	for fn := range p.Reachable(f) {
		if !inScope(fn) || strings.HasPrefix(fn.Name(), "init") {
			continue
		}
		for _, b := range fn.Blocks {
			for _, ins := range b.Instrs {
				if st, ok := ins.(*ssa.Store); ok {
					addr := st.Addr
					for {
						switch t := addr.(type) {
						case *ssa.FieldAddr:
							addr = t.X
							continue
						case *ssa.IndexAddr:
							addr = t.X
							continue
						}
						break
					}
					if g, ok := addr.(*ssa.Global); ok && load.InModule(fn) && g.Pkg == fn.Pkg {
						out = append(out, fn.RelString(nil)+" writes "+g.Name()+" at "+p.Rel(st.Pos()))
					}
				}
			}
		}
	}
	sort.Strings(out)
	return out
}

// ForbiddenSources reports nondeterministic sources other than map order in the scope.
func ForbiddenSources(p *load.Program, run *report.Run, roots []*ssa.Function, allowed map[string]string) {
	rule := "nondeterministic-source"
	reach := p.Reachable(roots...)
	for fn := range reach {
		if !load.InModule(fn) {
			continue
		}
		for _, b := range fn.Blocks {
			for _, ins := range b.Instrs {
				var what string
				switch t := ins.(type) {
				case *ssa.Go:
					what = "go statement"
				case *ssa.Select:
					what = "select"
				case ssa.CallInstruction:
					if callee := t.Common().StaticCallee(); callee != nil && callee.Pkg != nil {
						switch callee.Pkg.Pkg.Path() {
						case "math/rand", "math/rand/v2":
							what = "call " + callee.String()
						case "crypto/rand":
							what = "call " + callee.String()
						case "time":
							if callee.Name() == "Now" || callee.Name() == "Since" {
								what = "call " + callee.String()
							}
						}
					}
				}
				if what == "" {
					continue
				}
				key := short(fn) + "/" + what
				run.Count("nondeterministic-sources", 1)
				if why, ok := allowed[key]; ok {
					run.OK(rule, key, p.Rel(ins.Pos()), "allowed: "+why)
				} else {
					run.Violate(rule, key, p.Rel(ins.Pos()), what+" in the compilation call graph and not in the allowed (sink-free) table", nil)
				}
			}
		}
	}
}

// CachedStateLeak is rule R4.
func CachedStateLeak(p *load.Program, run *report.Run) {
	rule := "compile-state-on-cache"
	compilerT, err := p.Type("compiler", "Compiler")
	if err != nil {
		run.Undecided(rule, "compiler.Compiler", "", err.Error())
		return
	}
	pkgCompile, err := p.Method("compiler/ast", "Package", "Compile")
	if err != nil {
		run.Undecided(rule, "compiler/ast.Package.Compile", "", err.Error())
		return
	}
	astPkg, _ := p.Pkg("compiler/ast")
	// cached types: named struct types of compiler/ast
	cached := func(t types.Type) bool {
		if pt, ok := t.(*types.Pointer); ok {
			t = pt.Elem()
		}
		n, ok := t.(*types.Named)
		if !ok || n.Obj().Pkg() != astPkg.Pkg {
			return false
		}
		_, isStruct := n.Underlying().(*types.Struct)
		return isStruct && n.Obj().Name() != "Codegen" && n.Obj().Name() != "Env" && n.Obj().Name() != "LRValue" && n.Obj().Name() != "Compilation"
	}
	var leaks []string
	for fn := range p.Reachable(pkgCompile) {
		if !load.InModule(fn) {
			continue
		}
		for _, b := range fn.Blocks {
			for _, ins := range b.Instrs {
				st, ok := ins.(*ssa.Store)
				if !ok {
					continue
				}
				fa, ok := st.Addr.(*ssa.FieldAddr)
				if !ok {
					continue
				}
				// only objects that come from outside the function (receiver, parameter, loaded pointer), not fresh allocations
				base := fa.X
				if _, fresh := base.(*ssa.Alloc); fresh {
					continue
				}
				if cached(base.Type()) {
					st2 := base.Type().(*types.Pointer).Elem().Underlying().(*types.Struct)
					leaks = append(leaks, fmt.Sprintf("%s: %s.%s at %s", short(fn),
						base.Type().(*types.Pointer).Elem().(*types.Named).Obj().Name(), st2.Field(fa.Field).Name(), p.Rel(st.Pos())))
				}
			}
		}
	}
	sort.Strings(leaks)
	run.Count("cached-object-stores", len(leaks))
	if len(leaks) == 0 {
		run.OK(rule, "compiler/ast.Package.Compile", p.Rel(pkgCompile.Pos()), "code generation does not write to cached AST objects")
		return
	}
	// the cache must never meet code generation twice
	mset := p.SSA.MethodSets.MethodSet(types.NewPointer(compilerT))
	pkgField := -1
	st := compilerT.Underlying().(*types.Struct)
	for i := 0; i < st.NumFields(); i++ {
		if isMap(st.Field(i).Type()) {
			pkgField = i
		}
	}
	for i := 0; i < mset.Len(); i++ {
		m := p.SSA.MethodValue(mset.At(i))
		if m == nil || len(m.Blocks) == 0 {
			continue
		}
		// does it reach code generation directly (calls Package.Compile)?
		var gen ssa.Instruction
		for _, b := range m.Blocks {
			for _, ins := range b.Instrs {
				if c, ok := ins.(ssa.CallInstruction); ok && c.Common().StaticCallee() == pkgCompile {
					gen = ins
				}
			}
		}
		if gen == nil {
			continue
		}
		run.Count("codegen-entry-points", 1)
		key := short(m)
		resetStore := func(ins ssa.Instruction, recv ssa.Value) bool {
			s, ok := ins.(*ssa.Store)
			if !ok {
				return false
			}
			fa, ok := s.Addr.(*ssa.FieldAddr)
			if !ok || fa.Field != pkgField {
				return false
			}
			_, fresh := s.Val.(*ssa.MakeMap)
			return fresh
		}
		// a helper (method or closure) that re-creates the cache
		resets := func(f *ssa.Function) bool {
			if f == nil {
				return false
			}
			for _, fb := range f.Blocks {
				for _, fi := range fb.Instrs {
					if resetStore(fi, nil) {
						return true
					}
				}
			}
			return false
		}
		before, after := false, false
		for _, b := range m.Blocks {
			for _, ins := range b.Instrs {
				if resetStore(ins, m.Params[0]) && b.Dominates(gen.Block()) {
					before = true
				}
				if c, ok := ins.(*ssa.Call); ok && resets(c.Call.StaticCallee()) && b.Dominates(gen.Block()) {
					before = true
				}
				if d, ok := ins.(*ssa.Defer); ok && resets(d.Call.StaticCallee()) && b.Dominates(gen.Block()) {
					after = true
				}
				if d, ok := ins.(*ssa.Defer); ok {
					if mc, ok := d.Call.Value.(*ssa.MakeClosure); ok {
						if af, ok := mc.Fn.(*ssa.Function); ok {
							for _, ab := range af.Blocks {
								for _, ai := range ab.Instrs {
									if resetStore(ai, nil) && b.Dominates(gen.Block()) {
										after = true
									}
								}
							}
						}
					}
				}
			}
		}
		switch {
		case before:
			run.OK(rule, key, p.Rel(m.Pos()), "the package cache is re-created before parsing")
		case after:
			run.OK(rule, key, p.Rel(m.Pos()), "the package cache is dropped when the compilation ends (deferred)")
		default:
			show := leaks
			if len(show) > 6 {
				show = append(show[:6:6], fmt.Sprintf("... %d more", len(leaks)-6))
			}
			run.Violate(rule, key, p.Rel(m.Pos()), "code generation writes per-compilation state into cached AST objects and this entry point neither re-creates nor drops the package cache: a second compilation by the same Compiler sees stale state", show)
		}
	}
}

// TimeIntoData (rule R2): inside the code-generating packages a clock reading may be printed or kept as a duration,
// but never turned into a number that other data depends on; random sources are limited to an allow-list.
func TimeIntoData(p *load.Program, run *report.Run, pkgs map[string]bool, allowedRand map[string]string) {
	rule := "nondeterministic-source"
	isTime := func(t types.Type) bool {
		n, ok := t.(*types.Named)
		return ok && n.Obj().Pkg() != nil && n.Obj().Pkg().Path() == "time" && (n.Obj().Name() == "Time" || n.Obj().Name() == "Duration")
	}
	printer := func(f *ssa.Function) bool {
		if f == nil || f.Pkg == nil {
			return false
		}
		path := f.Pkg.Pkg.Path()
		return path == "fmt" || path == "time" || strings.HasSuffix(path, "/tabulate") || strings.Contains(f.String(), "Timing)") || strings.Contains(f.String(), ".Logger)")
	}
	for _, fn := range p.AllFunctions() {
		if fn.Pkg == nil || !pkgs[fn.Pkg.Pkg.Path()] || fn.Blocks == nil {
			continue
		}
		for _, b := range fn.Blocks {
			for _, ins := range b.Instrs {
				c, ok := ins.(ssa.CallInstruction)
				if ok {
					if callee := c.Common().StaticCallee(); callee != nil && callee.Pkg != nil && callee.Name() != "init" {
						perProcess := false
						switch callee.Pkg.Pkg.Path() {
						case "hash/maphash":
							// every maphash value depends on a seed that is random per process
							perProcess = true
						case "os":
							perProcess = callee.Name() == "Getpid" || callee.Name() == "Getppid" || callee.Name() == "Hostname"
						case "runtime":
							perProcess = callee.Name() == "NumGoroutine" || callee.Name() == "NumCPU" || callee.Name() == "GOMAXPROCS"
						}
						if perProcess {
							key := short(fn) + "/" + callee.String()
							run.Count("random-sources", 1)
							if why, ok := allowedRand[key]; ok {
								run.OK(rule, key, p.Rel(ins.Pos()), "allowed: "+why)
							} else {
								run.Violate(rule, key, p.Rel(ins.Pos()), "a value that differs between processes (hash seed, process or machine identity) in the code-generating packages: what is derived from it — a name, an order, a table index — differs between two parties compiling the same source", nil)
							}
						}
						switch callee.Pkg.Pkg.Path() {
						case "math/rand", "math/rand/v2", "crypto/rand":
							key := short(fn) + "/" + callee.String()
							run.Count("random-sources", 1)
							if why, ok := allowedRand[key]; ok {
								run.OK(rule, key, p.Rel(ins.Pos()), "allowed: "+why)
							} else {
								run.Violate(rule, key, p.Rel(ins.Pos()), "a random source in the code-generating packages that is not in the allowed table", nil)
							}
						}
					}
				}
				// a time value leaving the time domain
				v, isVal := ins.(ssa.Value)
				if !isVal {
					continue
				}
				leaves := false
				switch t := ins.(type) {
				case *ssa.Convert:
					leaves = isTime(t.X.Type()) && !isTime(t.Type())
				case *ssa.Call:
					if callee := t.Call.StaticCallee(); callee != nil && callee.Signature.Recv() != nil && isTime(callee.Signature.Recv().Type()) {
						if bt, ok := t.Type().Underlying().(*types.Basic); ok && bt.Info()&types.IsNumeric != 0 && !isTime(t.Type()) {
							leaves = true
						}
					}
				}
				if !leaves {
					continue
				}
				run.Count("clock-readings-as-numbers", 1)
				// every use must end in printing
				bad := ""
				seen := map[ssa.Value]bool{}
				var walk func(x ssa.Value, depth int)
				walk = func(x ssa.Value, depth int) {
					if seen[x] || depth > 6 || bad != "" {
						return
					}
					seen[x] = true
					for _, r := range *x.Referrers() {
						switch u := r.(type) {
						case *ssa.MakeInterface, *ssa.Convert, *ssa.BinOp, *ssa.UnOp, *ssa.Phi:
							walk(u.(ssa.Value), depth+1)
						case *ssa.Store:
							// into a varargs array for a print call, or a local
							if ia, ok := u.Addr.(*ssa.IndexAddr); ok {
								if al, ok := ia.X.(*ssa.Alloc); ok {
									walk(al, depth+1)
									continue
								}
							}
							if al, ok := u.Addr.(*ssa.Alloc); ok {
								walk(al, depth+1)
								continue
							}
							bad = "stored at " + p.Rel(u.Pos())
						case *ssa.Slice, *ssa.IndexAddr:
							walk(u.(ssa.Value), depth+1)
						case ssa.CallInstruction:
							if !printer(u.Common().StaticCallee()) {
								bad = "passed to " + u.Common().String()
							}
						case *ssa.If:
							// comparing an elapsed time to decide whether to print progress is not data
						case *ssa.DebugRef:
						default:
							bad = fmt.Sprintf("used by %T at %s", r, p.Rel(r.Pos()))
						}
					}
				}
				walk(v, 0)
				key := short(fn) + "/clock-as-number"
				if bad != "" {
					run.Violate(rule, key, p.Rel(ins.Pos()), "a clock reading is turned into a number and "+bad+": emitted code may depend on the time of day", nil)
				} else {
					run.OK(rule, key, p.Rel(ins.Pos()), "printed only")
				}
			}
		}
	}
}

// allPkgs is set by MapRanges: the insertion sites of a map may be in another package than the range.
var allPkgs []*packages.Package

// sortKeyNotTotal (rule R3): a slice collected from a map is in map order until it is sorted by a key that is unique per
// entry.  Accepted: the collected elements are the map keys and are compared themselves (sort.Strings, slices.Sort, or a
// comparator on the elements); or the comparator compares the field F of the elements and every insertion into a map
// with the same value type indexes it by a selector ending in .F.
func (c *classifier) sortKeyNotTotal(call *ast.CallExpr) string {
	rs := c.s.rs
	keyVar, valVar := "", ""
	if id, ok := rs.Key.(*ast.Ident); ok {
		keyVar = id.Name
	}
	if id, ok := rs.Value.(*ast.Ident); ok {
		valVar = id.Name
	}
	// what is appended
	appended := ""
	ast.Inspect(rs.Body, func(n ast.Node) bool {
		if cl, ok := n.(*ast.CallExpr); ok {
			if id, ok := cl.Fun.(*ast.Ident); ok && id.Name == "append" && len(cl.Args) == 2 {
				appended = types.ExprString(cl.Args[1])
			}
		}
		return true
	})
	fromKeys := appended == keyVar && keyVar != "" && keyVar != "_"
	name := types.ExprString(call.Fun)
	if name == "sort.Strings" || name == "sort.Ints" || name == "slices.Sort" {
		if fromKeys {
			return ""
		}
		return "sorted as plain values although the elements are not the map keys"
	}
	if len(call.Args) < 2 {
		return ""
	}
	fl, ok := call.Args[1].(*ast.FuncLit)
	if !ok {
		return ""
	}
	// the field the comparator looks at
	field := ""
	plain := false
	ast.Inspect(fl.Body, func(n ast.Node) bool {
		switch t := n.(type) {
		case *ast.SelectorExpr:
			if field == "" {
				if _, isIdx := t.X.(*ast.IndexExpr); isIdx {
					field = t.Sel.Name
				} else if id, isId := t.X.(*ast.Ident); isId && len(fl.Type.Params.List) > 0 {
					for _, prm := range fl.Type.Params.List {
						for _, pn := range prm.Names {
							if pn.Name == id.Name {
								field = t.Sel.Name
							}
						}
					}
				}
			}
		case *ast.BinaryExpr:
			if _, isIdx := t.X.(*ast.IndexExpr); isIdx {
				plain = true
			}
		}
		return true
	})
	if fromKeys && (plain || field == "") {
		return ""
	}
	if field == "" {
		return ""
	}
	// insertion sites of maps with the same value type
	mt, ok := c.info.TypeOf(rs.X).Underlying().(*types.Map)
	if !ok || valVar == "" {
		return ""
	}
	keyFields := map[string]bool{}
	for _, pk := range allPkgs {
		for _, f := range pk.Syntax {
			ast.Inspect(f, func(n ast.Node) bool {
				as, ok := n.(*ast.AssignStmt)
				if !ok {
					return true
				}
				for _, l := range as.Lhs {
					ix, ok := l.(*ast.IndexExpr)
					if !ok {
						continue
					}
					m2, ok := pk.TypesInfo.TypeOf(ix.X).Underlying().(*types.Map)
					if !ok || !types.Identical(m2.Elem(), mt.Elem()) {
						continue
					}
					if sel, ok := ix.Index.(*ast.SelectorExpr); ok {
						keyFields[sel.Sel.Name] = true
					} else {
						keyFields["<"+types.ExprString(ix.Index)+">"] = true
					}
				}
				return true
			})
		}
	}
	if len(keyFields) == 1 && keyFields[field] {
		return ""
	}
	var ks []string
	for k := range keyFields {
		ks = append(ks, k)
	}
	sort.Strings(ks)
	return fmt.Sprintf("sorted by .%s, but the map is keyed by %v: entries with equal .%s keep the map's iteration order", field, ks, field)
}
