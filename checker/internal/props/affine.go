package props

import (
	"fmt"
	"go/constant"
	"go/token"
	"go/types"
	"sort"
	"strings"

	"golang.org/x/tools/go/ssa"
)

// aff is an integer expression a0 + Σ ci·si over named symbols.  Symbols are canonical renderings of the
// places an integer can come from without being computed: a field reached from a parameter (rendered by the
// parameter's *type*, so its spelling does not matter: "<Circuit>.Inputs[0].Type.Bits"), a niladic method
// on such a path ("<Circuit>.Outputs.Size()"), the counter of a counting loop ("i#<n>", its initial value
// added), the k-th integer received from the peer ("recv#k").
type aff struct {
	k   int64
	sym map[string]int64
	ok  bool
}

func affConst(k int64) aff { return aff{k: k, sym: map[string]int64{}, ok: true} }
func affSym(s string) aff  { return aff{sym: map[string]int64{s: 1}, ok: true} }

func (a aff) add(b aff, sign int64) aff {
	if !a.ok || !b.ok {
		return aff{}
	}
	r := aff{k: a.k + sign*b.k, sym: map[string]int64{}, ok: true}
	for s, c := range a.sym {
		r.sym[s] += c
	}
	for s, c := range b.sym {
		r.sym[s] += sign * c
	}
	for s, c := range r.sym {
		if c == 0 {
			delete(r.sym, s)
		}
	}
	return r
}

func (a aff) scale(k int64) aff {
	if !a.ok {
		return a
	}
	r := aff{k: a.k * k, sym: map[string]int64{}, ok: true}
	for s, c := range a.sym {
		if c*k != 0 {
			r.sym[s] = c * k
		}
	}
	return r
}

func (a aff) isConst() (int64, bool) { return a.k, a.ok && len(a.sym) == 0 }

func (a aff) eq(b aff) bool {
	if !a.ok || !b.ok {
		return false
	}
	d := a.add(b, -1)
	return d.k == 0 && len(d.sym) == 0
}

func (a aff) String() string {
	if !a.ok {
		return "?"
	}
	var parts []string
	var names []string
	for s := range a.sym {
		names = append(names, s)
	}
	sort.Strings(names)
	for _, s := range names {
		c := a.sym[s]
		switch c {
		case 1:
			parts = append(parts, s)
		case -1:
			parts = append(parts, "-"+s)
		default:
			parts = append(parts, fmt.Sprintf("%d*%s", c, s))
		}
	}
	if a.k != 0 || len(parts) == 0 {
		parts = append(parts, fmt.Sprint(a.k))
	}
	return strings.Join(parts, " + ")
}

// without drops loop-counter symbols (the value at the first iteration, counters start where their initial
// value says).
func (a aff) without(prefix string) aff {
	if !a.ok {
		return a
	}
	r := aff{k: a.k, sym: map[string]int64{}, ok: true}
	for s, c := range a.sym {
		if !strings.HasPrefix(s, prefix) {
			r.sym[s] = c
		}
	}
	return r
}

func (a aff) mentions(sub string) bool {
	for s := range a.sym {
		if strings.Contains(s, sub) {
			return true
		}
	}
	return false
}

// affEnv evaluates SSA integer values of one function.
type affEnv struct {
	fn    *ssa.Function
	bind  map[ssa.Value]aff // driver bindings (received integers, parameters of an inlined callee)
	loops map[*ssa.Phi]aff
	seen  map[ssa.Value]bool
}

func newAffEnv(fn *ssa.Function) *affEnv {
	return &affEnv{fn: fn, bind: map[ssa.Value]aff{}, loops: map[*ssa.Phi]aff{}, seen: map[ssa.Value]bool{}}
}

// pathOf renders a value reached from a parameter through fields, constant indices and niladic methods.
func (e *affEnv) pathOf(v ssa.Value, depth int) (string, bool) {
	if depth > 10 {
		return "", false
	}
	switch t := v.(type) {
	case *ssa.Parameter:
		return "<" + typeName(t.Type()) + ">", typeName(t.Type()) != ""
	case *ssa.UnOp:
		if t.Op == token.MUL {
			return e.pathOf(t.X, depth+1)
		}
	case *ssa.FieldAddr:
		base, ok := e.pathOf(t.X, depth+1)
		if !ok {
			return "", false
		}
		return base + "." + structFieldName(t.X.Type(), t.Field), true
	case *ssa.Field:
		base, ok := e.pathOf(t.X, depth+1)
		if !ok {
			return "", false
		}
		if st, ok := t.X.Type().Underlying().(*types.Struct); ok {
			return base + "." + st.Field(t.Field).Name(), true
		}
	case *ssa.IndexAddr:
		base, ok := e.pathOf(t.X, depth+1)
		if !ok {
			return "", false
		}
		if k, isK := e.eval(t.Index).isConst(); isK {
			return fmt.Sprintf("%s[%d]", base, k), true
		}
	case *ssa.Index:
		base, ok := e.pathOf(t.X, depth+1)
		if !ok {
			return "", false
		}
		if k, isK := e.eval(t.Index).isConst(); isK {
			return fmt.Sprintf("%s[%d]", base, k), true
		}
	case *ssa.Call:
		// a niladic method on a path: circ.Outputs.Size()
		if callee := t.Call.StaticCallee(); callee != nil && callee.Signature.Recv() != nil && len(t.Call.Args) == 1 {
			if base, ok := e.pathOf(t.Call.Args[0], depth+1); ok {
				return base + "." + callee.Name() + "()", true
			}
		}
	case *ssa.Convert:
		return e.pathOf(t.X, depth+1)
	case *ssa.ChangeType:
		return e.pathOf(t.X, depth+1)
	}
	return "", false
}

func (e *affEnv) eval(v ssa.Value) aff {
	if a, ok := e.bind[v]; ok {
		return a
	}
	if e.seen[v] {
		return aff{}
	}
	e.seen[v] = true
	defer delete(e.seen, v)
	switch t := v.(type) {
	case *ssa.Const:
		if t.Value != nil && t.Value.Kind() == constant.Int {
			if k, exact := constant.Int64Val(t.Value); exact {
				return affConst(k)
			}
		}
		return aff{}
	case *ssa.Convert:
		if bt, ok := t.Type().Underlying().(*types.Basic); ok && bt.Info()&types.IsInteger != 0 {
			return e.eval(t.X)
		}
	case *ssa.ChangeType:
		return e.eval(t.X)
	case *ssa.BinOp:
		switch t.Op {
		case token.ADD:
			return e.eval(t.X).add(e.eval(t.Y), 1)
		case token.SUB:
			return e.eval(t.X).add(e.eval(t.Y), -1)
		case token.MUL:
			x, y := e.eval(t.X), e.eval(t.Y)
			if k, ok := x.isConst(); ok {
				return y.scale(k)
			}
			if k, ok := y.isConst(); ok {
				return x.scale(k)
			}
		case token.SHL:
			if k, ok := e.eval(t.Y).isConst(); ok && k >= 0 && k < 32 {
				return e.eval(t.X).scale(1 << uint(k))
			}
		}
		return aff{}
	case *ssa.Phi:
		// a counting loop: one edge is the start, the other is this phi plus a positive constant
		if a, ok := e.loops[t]; ok {
			return a
		}
		{
			// one start edge, every other edge is this phi plus one positive constant
			var start ssa.Value
			var step *ssa.BinOp
			shape := len(t.Edges) >= 2
			for _, ed := range t.Edges {
				if bo, ok := ed.(*ssa.BinOp); ok && bo.Op == token.ADD && bo.X == ssa.Value(t) {
					if step != nil && step != bo {
						shape = false
					}
					step = bo
					continue
				}
				if start != nil && start != ed {
					shape = false
				}
				start = ed
			}
			if shape && start != nil && step != nil {
				if k, isK := e.eval(step.Y).isConst(); isK && k > 0 {
					name := fmt.Sprintf("i#%d", len(e.loops))
					e.loops[t] = affSym(name) // while the start is evaluated
					st := e.eval(start)
					if !st.ok {
						delete(e.loops, t)
						return aff{}
					}
					e.loops[t] = affSym(name).add(st, 1)
					return e.loops[t]
				}
			}
		}
		// a merge of equal values
		var first aff
		for i, ed := range t.Edges {
			a := e.eval(ed)
			if !a.ok {
				return aff{}
			}
			if i == 0 {
				first = a
			} else if !first.eq(a) {
				return aff{}
			}
		}
		return first
	case *ssa.Call:
		if b, ok := t.Call.Value.(*ssa.Builtin); ok && (b.Name() == "len" || b.Name() == "cap") && len(t.Call.Args) == 1 {
			return e.lenOf(t.Call.Args[0], 0)
		}
		// a conversion method: func (w Wire) Int() int { return int(w) }
		if callee := t.Call.StaticCallee(); callee != nil && len(t.Call.Args) == 1 && len(callee.Params) == 1 && len(callee.Blocks) > 0 && len(callee.Blocks) <= 4 {
			// every return hands back the (converted) parameter; other exits panic
			rets, all := 0, true
			for _, cb := range callee.Blocks {
				r, ok := cb.Instrs[len(cb.Instrs)-1].(*ssa.Return)
				if !ok {
					continue
				}
				rets++
				if len(r.Results) != 1 {
					all = false
					continue
				}
				v := r.Results[0]
				for {
					if c, ok := v.(*ssa.Convert); ok {
						v = c.X
						continue
					}
					if c, ok := v.(*ssa.ChangeType); ok {
						v = c.X
						continue
					}
					break
				}
				if v != ssa.Value(callee.Params[0]) {
					all = false
				}
			}
			if rets > 0 && all {
				return e.eval(t.Call.Args[0])
			}
		}
		if p, ok := e.pathOf(t, 0); ok {
			return affSym(p)
		}
	case *ssa.Extract:
		// handled by driver bindings only
		return aff{}
	case *ssa.UnOp:
		if t.Op == token.MUL {
			if p, ok := e.pathOf(t, 0); ok {
				return affSym(p)
			}
			// a local cell assigned once
			if al, ok := t.X.(*ssa.Alloc); ok && al.Referrers() != nil {
				var stores []*ssa.Store
				for _, r := range *al.Referrers() {
					if st, ok := r.(*ssa.Store); ok && st.Addr == ssa.Value(al) {
						stores = append(stores, st)
					}
				}
				if len(stores) == 1 {
					return e.eval(stores[0].Val)
				}
			}
		}
	case *ssa.Field, *ssa.Parameter:
		if p, ok := e.pathOf(v, 0); ok {
			return affSym(p)
		}
	}
	return aff{}
}

// lenOf: the extent of a slice value.
func (e *affEnv) lenOf(v ssa.Value, depth int) aff {
	if depth > 6 {
		return aff{}
	}
	switch t := v.(type) {
	case *ssa.MakeSlice:
		return e.eval(t.Len)
	case *ssa.Slice:
		lo := affConst(0)
		if t.Low != nil {
			lo = e.eval(t.Low)
		}
		if t.High != nil {
			return e.eval(t.High).add(lo, -1)
		}
		return e.lenOf(t.X, depth+1).add(lo, -1)
	case *ssa.Phi:
		var first aff
		for i, ed := range t.Edges {
			a := e.lenOf(ed, depth+1)
			if !a.ok {
				return aff{}
			}
			if i == 0 {
				first = a
			} else if !first.eq(a) {
				return aff{}
			}
		}
		return first
	}
	if a, ok := e.bind[v]; ok {
		return a
	}
	if p, ok := e.pathOf(v, 0); ok {
		return affSym("len(" + p + ")")
	}
	return aff{}
}

// view is a window into an array: the canonical name of the array and the offset of element 0.
type view struct {
	base string
	off  aff
	ok   bool
}

// viewOf resolves a slice value to the array it looks into.  copies records `copy(dst, src)` of whole
// fresh slices (dst[j] == src[j]), so a private copy of a window stands for the window.
func (e *affEnv) viewOf(v ssa.Value, copies map[ssa.Value]ssa.Value, params map[ssa.Value]view, depth int) view {
	if depth > 8 {
		return view{}
	}
	if pv, ok := params[v]; ok {
		return pv
	}
	switch t := v.(type) {
	case *ssa.Slice:
		b := e.viewOf(t.X, copies, params, depth+1)
		if !b.ok {
			return view{}
		}
		lo := affConst(0)
		if t.Low != nil {
			lo = e.eval(t.Low)
		}
		if !lo.ok {
			return view{}
		}
		return view{b.base, b.off.add(lo, 1), true}
	case *ssa.MakeSlice:
		if src, ok := copies[t]; ok {
			return e.viewOf(src, copies, params, depth+1)
		}
		return view{"make@" + fmt.Sprint(e.fn.Prog.Fset.Position(t.Pos()).Line), affConst(0), true}
	case *ssa.Phi:
		var first view
		for i, ed := range t.Edges {
			a := e.viewOf(ed, copies, params, depth+1)
			if !a.ok {
				return view{}
			}
			if i == 0 {
				first = a
			} else if first.base != a.base || !first.off.eq(a.off) {
				return view{}
			}
		}
		return first
	case *ssa.UnOp:
		if t.Op == token.MUL {
			if p, ok := e.pathOf(t, 0); ok {
				return view{p, affConst(0), true}
			}
			if fa, ok := t.X.(*ssa.FieldAddr); ok {
				// a field of a local handle: <*Garbled>.Wires
				n := typeName(fa.X.Type())
				if pt, ok := fa.X.Type().Underlying().(*types.Pointer); ok && n == "" {
					n = typeName(pt.Elem())
				}
				return view{"<" + n + ">." + structFieldName(fa.X.Type(), fa.Field), affConst(0), true}
			}
			if al, ok := t.X.(*ssa.Alloc); ok && al.Referrers() != nil {
				var stores []*ssa.Store
				for _, r := range *al.Referrers() {
					if st, ok := r.(*ssa.Store); ok && st.Addr == ssa.Value(al) {
						stores = append(stores, st)
					}
				}
				if len(stores) == 1 {
					return e.viewOf(stores[0].Val, copies, params, depth+1)
				}
			}
		}
	case *ssa.Parameter:
		return view{"<param " + t.Name() + ">", affConst(0), true}
	}
	return view{}
}
