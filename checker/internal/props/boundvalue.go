package props

import (
	"go/ast"
	"go/token"
	"go/types"
	"strings"

	"mpcverif/internal/load"
	"mpcverif/internal/report"
)

// BoundValueIsNamedValue: a name is bound to the value it was made from.
//
// `lValue := constVar; lValue.Name = def.Name; Bindings.Define(lValue, &constVar)`: the binding's key is a copy of
// a value given the declared name, the binding's value is that same value.  The type of a typed constant lives
// in that value (`gen.Constant(init, declaredType)`); binding the name to another variable that happens to be in
// scope — the untyped initialiser, one letter away — compiles, type-checks every mixed use, and makes constant
// folding happen at the initialiser's width: `const A uint64 = 65536; A*A` folds to 0.
func BoundValueIsNamedValue(p *load.Program, run *report.Run) {
	const rule = "bound-value-is-the-named-value"
	run.Rule(rule, "in compiler/ast: for every call Define(k, &v) whose key k is a local defined as a plain copy `k := c` of another local, v is c")
	pkg := p.ByPath[load.Module+"/compiler/ast"]
	if pkg == nil {
		run.Undecided(rule, "compiler/ast", "", "package not loaded")
		return
	}
	info := pkg.TypesInfo
	n := 0
	for _, f := range pkg.Syntax {
		if strings.HasSuffix(p.Fset.Position(f.Pos()).Filename, "_test.go") {
			continue
		}
		for _, d := range f.Decls {
			fd, ok := d.(*ast.FuncDecl)
			if !ok || fd.Body == nil {
				continue
			}
			// locals defined as a plain copy of another local
			copyOf := map[types.Object]types.Object{}
			ast.Inspect(fd.Body, func(x ast.Node) bool {
				as, ok := x.(*ast.AssignStmt)
				if !ok || as.Tok != token.DEFINE || len(as.Lhs) != 1 || len(as.Rhs) != 1 {
					return true
				}
				l, ok1 := as.Lhs[0].(*ast.Ident)
				r, ok2 := ast.Unparen(as.Rhs[0]).(*ast.Ident)
				if ok1 && ok2 {
					if lo, ro := info.ObjectOf(l), info.ObjectOf(r); lo != nil && ro != nil {
						if _, isVar := ro.(*types.Var); isVar {
							copyOf[lo] = ro
						}
					}
				}
				return true
			})
			ast.Inspect(fd.Body, func(x ast.Node) bool {
				c, ok := x.(*ast.CallExpr)
				if !ok || len(c.Args) != 2 {
					return true
				}
				sel, ok := c.Fun.(*ast.SelectorExpr)
				if !ok || sel.Sel.Name != "Define" {
					return true
				}
				k, ok := ast.Unparen(c.Args[0]).(*ast.Ident)
				if !ok {
					return true
				}
				src := copyOf[info.ObjectOf(k)]
				if src == nil {
					return true
				}
				u, ok := ast.Unparen(c.Args[1]).(*ast.UnaryExpr)
				if !ok || u.Op != token.AND {
					return true
				}
				v, ok := ast.Unparen(u.X).(*ast.Ident)
				if !ok {
					return true
				}
				n++
				key := "compiler/ast." + fd.Name.Name + "/Define(" + k.Name + ")"
				if info.ObjectOf(v) == src {
					run.OK(rule, key, p.Rel(c.Pos()), "bound to the value the key was copied from")
				} else {
					run.Violate(rule, key, p.Rel(c.Pos()), "the key is a copy of "+src.Name()+" but the name is bound to "+v.Name+": the binding carries another value's type (a typed constant bound to its untyped initialiser is folded at the initialiser's width)", nil)
				}
				return true
			})
		}
	}
	run.Count("copy-keyed-bindings", n)
	run.Floor("copy-keyed-bindings", 1)
}
