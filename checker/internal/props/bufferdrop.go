package props

import (
	"fmt"
	"go/token"
	"go/types"
	"sort"
	"strings"

	"golang.org/x/tools/go/ssa"

	"mpcverif/internal/load"
	"mpcverif/internal/report"
)

// BufferedBytesKept: nothing rewinds a connection's buffers while they hold bytes.
//
// What a p2p.Conn has read from the transport and not yet handed to a Receive (ReadStart..ReadEnd), and what a
// Send has written and Flush has not yet handed to the writer (0..WritePos), is part of the stream.  A peer
// may already have sent its next message behind the one being read — Fill takes whatever the socket holds.
// Setting ReadEnd or WritePos to zero is therefore only right where the window is known to be empty
// (ReadStart >= ReadEnd) or the buffer has just been handed over (a send on toWriter): a "reset the accounting"
// helper that rewinds both throws away the first application message that arrived with the handshake.
func BufferedBytesKept(p *load.Program, run *report.Run) {
	const rule = "buffered-bytes-not-dropped"
	run.Rule(rule, "every store of 0 to the ReadEnd field of an existing p2p.Conn lies on the edge of a test of ReadStart against ReadEnd on which the window is empty; every store of 0 to WritePos is preceded on every path by the hand-off of the buffer (a send on toWriter, or a Write of WriteBuf[0:WritePos] to the transport) or lies on the edge of a test on which WritePos is 0; stores into a Conn under construction are exempt; with built-in examples")
	pkg, err := p.Pkg("p2p")
	if err != nil {
		run.Undecided(rule, "p2p", "", err.Error())
		return
	}
	var fns []*ssa.Function
	for _, fn := range p.AllFunctions() {
		if fn.Pkg == pkg && fn.Blocks != nil && fn.Synthetic == "" && !strings.HasSuffix(p.Fset.Position(fn.Pos()).Filename, "_test.go") {
			fns = append(fns, fn)
		}
	}
	sort.Slice(fns, func(i, j int) bool { return fns[i].Pos() < fns[j].Pos() })
	n := 0
	for _, fn := range fns {
		for _, r := range rewinds(fn) {
			n++
			key := "p2p." + fn.Name() + "/" + r.field + "=0"
			if r.ok {
				run.OK(rule, key, p.Rel(r.pos), r.why)
			} else {
				run.Violate(rule, key, p.Rel(r.pos), fmt.Sprintf("%s is set to zero where the buffer may still hold bytes (%s): bytes the peer has already sent, or the caller has already written, are thrown away and the stream continues in the middle of a message", r.field, r.why), nil)
			}
		}
	}
	run.Count("buffer-rewinds", n)
	run.Floor("buffer-rewinds", 2)
	look, err := buildExample(bufferDropExample)
	if err != nil {
		run.Undecided(rule, "built-in example", "", err.Error())
		return
	}
	sum := func(name string) string {
		out := ""
		for _, r := range rewinds(look(name)) {
			if r.ok {
				out += "o"
			} else {
				out += "x"
			}
		}
		return out
	}
	var fill, flush, reset string
	for _, f := range exampleFuncsOf(look, "anchor") {
		switch f.Name() {
		case "Fill":
			fill = sumOf(rewinds(f))
		case "Flush":
			flush = sumOf(rewinds(f))
		case "Reset":
			reset = sumOf(rewinds(f))
		}
	}
	_ = sum
	if fill != "o" || flush != "o" || reset != "xx" {
		run.Undecided(rule, "built-in example", "", fmt.Sprintf("the rule misclassifies its built-in example (%q %q %q)", fill, flush, reset))
		return
	}
	run.Count("buffer-rewind-examples", 3)
	run.OK(rule, "built-in examples", "", "the rewind of an empty read window and of a handed-over write buffer accepted; an unconditional reset of both reported")
	run.Floor("buffer-rewind-examples", 3)
}

type rewind struct {
	field string
	pos   token.Pos
	ok    bool
	why   string
}

func sumOf(rs []rewind) string {
	out := ""
	for _, r := range rs {
		if r.ok {
			out += "o"
		} else {
			out += "x"
		}
	}
	return out
}

func rewinds(fn *ssa.Function) []rewind {
	if fn == nil {
		return nil
	}
	var out []rewind
	fieldOf := func(v ssa.Value) (string, ssa.Value) {
		fa, ok := v.(*ssa.FieldAddr)
		if !ok {
			return "", nil
		}
		pt, ok := fa.X.Type().Underlying().(*types.Pointer)
		if !ok {
			return "", nil
		}
		st, ok := pt.Elem().Underlying().(*types.Struct)
		if !ok {
			return "", nil
		}
		if nt, ok := pt.Elem().(*types.Named); !ok || nt.Obj().Name() != "Conn" {
			return "", nil
		}
		return st.Field(fa.Field).Name(), fa.X
	}
	loadOf := func(v ssa.Value, field string, base ssa.Value) bool {
		for {
			if c, ok := v.(*ssa.Convert); ok {
				v = c.X
				continue
			}
			break
		}
		ld, ok := v.(*ssa.UnOp)
		if !ok || ld.Op != token.MUL {
			return false
		}
		f, b := fieldOf(ld.X)
		return f == field && b == base
	}
	for _, b := range fn.Blocks {
		for i, ins := range b.Instrs {
			st, ok := ins.(*ssa.Store)
			if !ok {
				continue
			}
			field, base := fieldOf(st.Addr)
			if field != "ReadEnd" && field != "WritePos" {
				continue
			}
			k, isC := st.Val.(*ssa.Const)
			if !isC || k.Value == nil || k.Int64() != 0 {
				continue
			}
			if _, fresh := base.(*ssa.Alloc); fresh {
				continue // a connection under construction
			}
			r := rewind{field: field, pos: st.Pos(), why: "no test of the window, no hand-off before it"}
			// on an edge where the window is empty / the position is zero
			for _, g := range fn.Blocks {
				iff, ok := g.Instrs[len(g.Instrs)-1].(*ssa.If)
				if !ok {
					continue
				}
				cmp, ok := iff.Cond.(*ssa.BinOp)
				if !ok {
					continue
				}
				emptyEdge := -1
				if field == "ReadEnd" {
					switch {
					case loadOf(cmp.X, "ReadStart", base) && loadOf(cmp.Y, "ReadEnd", base):
						switch cmp.Op {
						case token.LSS, token.NEQ:
							emptyEdge = 1
						case token.GEQ, token.EQL:
							emptyEdge = 0
						}
					case loadOf(cmp.X, "ReadEnd", base) && loadOf(cmp.Y, "ReadStart", base):
						switch cmp.Op {
						case token.GTR, token.NEQ:
							emptyEdge = 1
						case token.LEQ, token.EQL:
							emptyEdge = 0
						}
					}
				} else if loadOf(cmp.X, "WritePos", base) {
					if c, ok := cmp.Y.(*ssa.Const); ok && c.Value != nil && c.Int64() == 0 {
						switch cmp.Op {
						case token.GTR, token.NEQ:
							emptyEdge = 1
						case token.EQL, token.LEQ:
							emptyEdge = 0
						}
					}
				}
				if emptyEdge < 0 {
					continue
				}
				e := g.Succs[emptyEdge]
				if len(e.Preds) == 1 && (e == b || e.Dominates(b)) {
					r.ok, r.why = true, "the buffer is empty on this edge"
				}
			}
			// after the hand-off
			if field == "WritePos" && !r.ok {
				for _, g := range fn.Blocks {
					for j, x := range g.Instrs {
						// written to the transport directly: conn.Write(WriteBuf[0:WritePos])
						if c, ok := x.(*ssa.Call); ok && c.Call.IsInvoke() && c.Call.Method.Name() == "Write" && len(c.Call.Args) == 1 {
							if sl, ok := c.Call.Args[0].(*ssa.Slice); ok && loadOf(sl.X, "WriteBuf", base) && sl.High != nil && loadOf(sl.High, "WritePos", base) {
								if g == b && j < i || g != b && g.Dominates(b) {
									r.ok, r.why = true, "the buffered bytes have been written to the transport"
								}
							}
						}
						if snd, ok := x.(*ssa.Send); ok {
							if f, bb := fieldOf(chanFieldAddr(snd.Chan)); f == "toWriter" && bb == base {
								if g == b && j < i || g != b && g.Dominates(b) {
									r.ok, r.why = true, "the buffer has been handed to the writer"
								}
							}
						}
					}
				}
			}
			out = append(out, r)
		}
	}
	return out
}

// chanFieldAddr: v is *(&conn.f); returns &conn.f.
func chanFieldAddr(v ssa.Value) ssa.Value {
	if ld, ok := v.(*ssa.UnOp); ok && ld.Op == token.MUL {
		return ld.X
	}
	return nil
}

const bufferDropExample = `package example

func anchor() {}

type Conn struct {
	ReadBuf   []byte
	ReadStart int
	ReadEnd   int
	WriteBuf  []byte
	WritePos  int
	toWriter  chan []byte
	back      chan []byte
}

func (c *Conn) Fill(n int) {
	if c.ReadStart < c.ReadEnd {
		copy(c.ReadBuf, c.ReadBuf[c.ReadStart:c.ReadEnd])
		c.ReadEnd -= c.ReadStart
		c.ReadStart = 0
	} else {
		c.ReadStart = 0
		c.ReadEnd = 0
	}
}

func (c *Conn) Flush() {
	if c.WritePos > 0 {
		c.toWriter <- c.WriteBuf[:c.WritePos]
		c.WriteBuf = <-c.back
		c.WritePos = 0
	}
}

func (c *Conn) Reset() {
	c.WritePos = 0
	c.ReadStart = 0
	c.ReadEnd = 0
}
`
