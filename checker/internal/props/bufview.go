package props

import (
	"fmt"
	"go/token"
	"go/types"
	"sort"
	"strings"

	"golang.org/x/tools/go/ssa"

	"mpcverif/internal/load"
	"mpcverif/internal/report"
)

// BufViews: a view of the connection's write buffer does not outlive the call that may replace the buffer.
//
// p2p.Conn rotates its write buffers: Flush hands the current one to the writer goroutine and installs the
// next (`c.WriteBuf = next`).  Code that encodes straight into the buffer (the streaming garbler does)
// must therefore read conn.WriteBuf *after* the last call that can flush — NeedSpace, Flush, any Send*.
// A local copy taken before (`buf := conn.WriteBuf` hoisted out of a loop that calls NeedSpace) keeps
// pointing at the buffer that is in flight: the rows are written into memory the writer goroutine is
// sending or has recycled, while WritePos advances over the new buffer.  It only shows once a message
// exceeds one buffer.  For every load of the field and every use of the loaded slice (indexing, slicing,
// passing it on): no call that can store to the field lies on a path from the load to the use that does
// not pass through the load again.
func BufViews(p *load.Program, run *report.Run) {
	const rule = "write-buffer-view-not-held-across-flush"
	run.Rule(rule, "for every load of p2p.Conn.WriteBuf in the module (outside tests) and every use of the loaded slice value: no call to a function from which a store to Conn.WriteBuf is reachable by static calls (Flush, NeedSpace, Send*, Close) lies on a control-flow path from the load to the use that does not re-execute the load; with built-in examples")
	var fns []*ssa.Function
	for _, fn := range p.AllFunctions() {
		if fn.Pkg == nil || !load.InModule(fn) || fn.Blocks == nil || strings.Contains(fn.Pkg.Pkg.Path(), "/apps/") || strings.HasSuffix(p.Fset.Position(fn.Pos()).Filename, "_test.go") {
			continue
		}
		fns = append(fns, fn)
	}
	sort.Slice(fns, func(i, j int) bool { return fns[i].Pos() < fns[j].Pos() })
	isField := func(fa *ssa.FieldAddr) bool {
		pt, ok := fa.X.Type().Underlying().(*types.Pointer)
		if !ok {
			return false
		}
		n, ok := pt.Elem().(*types.Named)
		return ok && n.Obj().Pkg() != nil && n.Obj().Pkg().Path() == load.Module+"/p2p" && n.Obj().Name() == "Conn" && structFieldName(fa.X.Type(), fa.Field) == "WriteBuf"
	}
	loads, bad := bufViewCheck(fns, isField)
	run.Count("write-buffer-loads", loads)
	for _, b := range bad {
		run.Violate(rule, strings.ReplaceAll(b.fn.RelString(nil), load.Module+"/", "")+"/WriteBuf view", p.Rel(b.use.Pos()), fmt.Sprintf("the slice read from Conn.WriteBuf at %s is used here after %s, which can flush and install the next buffer: the bytes go into a buffer that is being sent or reused, not into the one WritePos now refers to", p.Rel(b.load.Pos()), b.via), nil)
	}
	if len(bad) == 0 {
		run.OK(rule, "module", "", fmt.Sprintf("%d loads of Conn.WriteBuf, every use before the next possible flush", loads))
	}
	look, err := buildExample(bufViewExample)
	if err != nil {
		run.Undecided(rule, "built-in example", "", err.Error())
		return
	}
	ex := exampleFuncsOf(look, "hoisted")
	n, b := bufViewCheck(ex, func(fa *ssa.FieldAddr) bool { return structFieldName(fa.X.Type(), fa.Field) == "WriteBuf" })
	if n < 4 || len(b) != 1 || b[0].fn.Name() != "hoisted" {
		run.Undecided(rule, "built-in example", "", fmt.Sprintf("the rule misclassifies its built-in examples (%d loads, %d reports)", n, len(b)))
		return
	}
	run.Count("buffer-view-examples", 2)
	run.OK(rule, "built-in examples", "", "a view hoisted out of the loop that calls NeedSpace is reported; a view re-read after NeedSpace is accepted")
	run.Floor("buffer-view-examples", 2)
	run.Floor("write-buffer-loads", 10)
}

type bvViolation struct {
	fn        *ssa.Function
	load, use ssa.Instruction
	via       string
}

func bufViewCheck(fns []*ssa.Function, isField func(*ssa.FieldAddr) bool) (int, []bvViolation) {
	// functions that may store to the field
	direct := map[*ssa.Function]bool{}
	for _, fn := range fns {
		for _, b := range fn.Blocks {
			for _, ins := range b.Instrs {
				if st, ok := ins.(*ssa.Store); ok {
					if fa, ok := st.Addr.(*ssa.FieldAddr); ok && isField(fa) {
						direct[fn] = true
					}
				}
			}
		}
	}
	swaps := map[*ssa.Function]bool{}
	for f := range direct {
		swaps[f] = true
	}
	for changed := true; changed; {
		changed = false
		for _, fn := range fns {
			if swaps[fn] {
				continue
			}
			for _, b := range fn.Blocks {
				for _, ins := range b.Instrs {
					if c, ok := ins.(ssa.CallInstruction); ok {
						if callee := c.Common().StaticCallee(); callee != nil && swaps[callee] {
							swaps[fn] = true
							changed = true
						}
					}
				}
			}
		}
	}
	loads := 0
	var bad []bvViolation
	for _, fn := range fns {
		isSwap := func(ins ssa.Instruction) string {
			if c, ok := ins.(ssa.CallInstruction); ok {
				if callee := c.Common().StaticCallee(); callee != nil && swaps[callee] {
					return callee.Name()
				}
			}
			return ""
		}
		// the views: loads of the field and what is derived from them
		views := map[ssa.Value]bool{}
		var loadIns []ssa.Instruction
		anySwap := false
		for _, b := range fn.Blocks {
			for _, ins := range b.Instrs {
				if isSwap(ins) != "" {
					anySwap = true
				}
				if ld, ok := ins.(*ssa.UnOp); ok && ld.Op == token.MUL {
					if fa, ok := ld.X.(*ssa.FieldAddr); ok && isField(fa) {
						views[ld] = true
						loadIns = append(loadIns, ld)
						loads++
					}
				}
			}
		}
		if len(loadIns) == 0 || !anySwap {
			continue
		}
		for changed := true; changed; {
			changed = false
			for v := range views {
				if v.Referrers() == nil {
					continue
				}
				for _, r := range *v.Referrers() {
					switch t := r.(type) {
					case *ssa.Slice:
						if t.X == v && !views[t] {
							views[t] = true
							changed = true
						}
					case *ssa.IndexAddr:
						if t.X == v && !views[t] {
							views[t] = true
							changed = true
						}
					case *ssa.Phi:
						if !views[t] {
							views[t] = true
							changed = true
						}
					}
				}
			}
		}
		// forward may-analysis: the views that a flush may have invalidated
		out := make([]map[ssa.Value]string, len(fn.Blocks))
		reported := map[ssa.Value]bool{}
		var report func(u ssa.Instruction, v ssa.Value, via string)
		final := false
		report = func(u ssa.Instruction, v ssa.Value, via string) {
			if !final || len(reported) > 0 {
				return
			}
			reported[v] = true
			// the load the view stems from (for the message)
			var ld ssa.Instruction = loadIns[0]
			bad = append(bad, bvViolation{fn, ld, u, via})
		}
		transfer := func(b *ssa.BasicBlock, in map[ssa.Value]string) map[ssa.Value]string {
			st := map[ssa.Value]string{}
			for k, v := range in {
				st[k] = v
			}
			for _, ins := range b.Instrs {
				if _, isPhi := ins.(*ssa.Phi); isPhi {
					continue
				}
				if via := isSwap(ins); via != "" {
					// the call's own arguments are evaluated before it runs
					for v := range views {
						st[v] = via
					}
					continue
				}
				if v, ok := ins.(ssa.Value); ok && views[v] {
					switch t := ins.(type) {
					case *ssa.UnOp:
						delete(st, v) // a fresh read of the field
					case *ssa.Slice:
						if via, stale := st[t.X]; stale {
							report(ins, t.X, via)
							st[v] = via
						} else {
							delete(st, v)
						}
					case *ssa.IndexAddr:
						if via, stale := st[t.X]; stale {
							report(ins, t.X, via)
							st[v] = via
						} else {
							delete(st, v)
						}
					}
					continue
				}
				if stIns, ok := ins.(*ssa.Store); ok && views[stIns.Val] {
					continue
				}
				for _, op := range ins.Operands(nil) {
					if *op != nil && views[*op] {
						if via, stale := st[*op]; stale {
							report(ins, *op, via)
						}
					}
				}
			}
			return st
		}
		entryOf := func(b *ssa.BasicBlock) map[ssa.Value]string {
			in := map[ssa.Value]string{}
			for k, p := range b.Preds {
				po := out[p.Index]
				if po == nil {
					continue
				}
				for v, via := range po {
					if ph, isPhi := v.(*ssa.Phi); isPhi && ph.Block() == b {
						continue
					}
					in[v] = via
				}
				for _, ins := range b.Instrs {
					ph, ok := ins.(*ssa.Phi)
					if !ok {
						break
					}
					if views[ph] && k < len(ph.Edges) {
						if via, stale := po[ph.Edges[k]]; stale {
							in[ph] = via
						}
					}
				}
			}
			return in
		}
		for round := 0; round < 50; round++ {
			changed := false
			for _, b := range fn.Blocks {
				o := transfer(b, entryOf(b))
				if out[b.Index] == nil || len(o) != len(out[b.Index]) {
					changed = true
				} else {
					for k := range o {
						if _, ok := out[b.Index][k]; !ok {
							changed = true
						}
					}
				}
				out[b.Index] = o
			}
			if !changed {
				break
			}
		}
		final = true
		for _, b := range fn.Blocks {
			transfer(b, entryOf(b))
		}
	}
	return loads, bad
}

// exampleFuncsOf lists the functions, methods and function literals of the example package that any names.
func exampleFuncsOf(look func(string) *ssa.Function, any string) []*ssa.Function {
	f := look(any)
	if f == nil || f.Pkg == nil {
		return nil
	}
	seen := map[*ssa.Function]bool{}
	var out []*ssa.Function
	var add func(fn *ssa.Function)
	add = func(fn *ssa.Function) {
		if fn == nil || seen[fn] || fn.Blocks == nil || fn.Synthetic != "" {
			return
		}
		seen[fn] = true
		out = append(out, fn)
		for _, a := range fn.AnonFuncs {
			add(a)
		}
	}
	for _, m := range f.Pkg.Members {
		switch t := m.(type) {
		case *ssa.Function:
			add(t)
		case *ssa.Type:
			for _, recv := range []types.Type{t.Type(), types.NewPointer(t.Type())} {
				ms := f.Pkg.Prog.MethodSets.MethodSet(recv)
				for i := 0; i < ms.Len(); i++ {
					add(f.Pkg.Prog.MethodValue(ms.At(i)))
				}
			}
		}
	}
	sort.Slice(out, func(i, j int) bool { return out[i].Pos() < out[j].Pos() })
	return out
}

const bufViewExample = `package example

type Conn struct {
	WriteBuf []byte
	WritePos int
	next     []byte
}

func (c *Conn) Flush() {
	c.WriteBuf, c.next = c.next, c.WriteBuf
	c.WritePos = 0
}

func (c *Conn) NeedSpace(n int) {
	if c.WritePos+n > len(c.WriteBuf) {
		c.Flush()
	}
}

func hoisted(c *Conn, rows [][]byte) {
	buf := c.WriteBuf
	for _, r := range rows {
		c.NeedSpace(len(r))
		c.WritePos += copy(buf[c.WritePos:], r)
	}
}

func reread(c *Conn, rows [][]byte) {
	for _, r := range rows {
		c.NeedSpace(len(r))
		buf := c.WriteBuf
		c.WritePos += copy(buf[c.WritePos:], r)
	}
}
`
