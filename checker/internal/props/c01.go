// Package props wires the engines to the properties.
package props

import (
	"fmt"
	"go/token"
	"go/types"
	"strings"

	"golang.org/x/tools/go/ssa"

	"mpcverif/internal/fpai"
	"mpcverif/internal/load"
	"mpcverif/internal/report"
)

var opNames = []string{"XOR", "XNOR", "AND", "OR", "INV"}

func b01(b bool) int {
	if b {
		return 1
	}
	return 0
}

// GateForms is what E1 derives for one garbler partition.
type GateForms struct {
	Op         int
	PA, PB     bool
	L0, L1     fpai.LabelV
	Rows       []fpai.LabelV
	Start, Cnt int
	IDAfter    fpai.IntV
}

func newGate(op int) *fpai.Obj {
	return &fpai.Obj{Name: "gate", V: fpai.StructV{F: []fpai.Val{
		fpai.IntV{Sym: "in0"}, fpai.IntV{Sym: "in1"}, fpai.IntV{Sym: "out"}, fpai.IntV{K: int64(op)}, fpai.IntV{}}}}
}

func garblerWires() *fpai.SymSlice {
	return &fpai.SymSlice{Name: "wires", M: map[string]*fpai.Obj{
		"in0": {V: fpai.StructV{F: []fpai.Val{fpai.Lab("a0"), fpai.Lab("a0", "r")}}},
		"in1": {V: fpai.StructV{F: []fpai.Val{fpai.Lab("b0"), fpai.Lab("b0", "r")}}},
		// the output slot holds whatever an earlier garbling left in the pooled scratch
		"out": {V: fpai.StructV{F: []fpai.Val{fpai.Lab("stale:wire.L0"), fpai.Lab("stale:wire.L1")}}},
	}}
}

// halfGateRef: circuit.encryptHalfReference when encryptHalf was shown to be its hand-inlined form
// (halfGateByReference, decided once per run by PrepareModels); nil keeps encryptHalf uninterpreted.
var halfGateRef *ssa.Function
var halfGateWhy = "not decided"

// PrepareModels decides, from the source of this run, which model the garbling interpreter uses for the
// half-gate hash.
func PrepareModels(p *load.Program) {
	halfGateRef, halfGateWhy = halfGateByReference(p)
}

func newInterp(pa, pb bool) *fpai.Interp {
	in := fpai.New(load.Module)
	in.SBit = map[string]bool{"a0": pa, "b0": pb, "r": true}
	fpai.OpaqueEncryptHalf(in)
	if halfGateRef != nil {
		ref := halfGateRef
		in.Models[load.Module+"/circuit.encryptHalf"] = func(in *fpai.Interp, a []fpai.Val, _ ssa.CallInstruction) (fpai.Val, error) {
			return in.Call(ref, a)
		}
	}
	return in
}

// truthTables derives f_op(va,vb) from Circuit.Compute by interpreting the
// body of its gate loop under the partition (op, wires[in0], wires[in1]).
func truthTables(p *load.Program, run *report.Run) (map[[3]int]int, error) {
	compute, err := p.Method("circuit", "Circuit", "Compute")
	if err != nil {
		return nil, err
	}
	gateT, err := p.Type("circuit", "Gate")
	if err != nil {
		return nil, err
	}
	// the range loop over c.Gates: find the IndexAddr producing *Gate
	ia := fpai.FindInstr(compute, func(i ssa.Instruction) bool {
		x, ok := i.(*ssa.IndexAddr)
		return ok && types.Identical(x.Type(), types.NewPointer(gateT))
	})
	if ia == nil {
		return nil, fmt.Errorf("Compute: loop over c.Gates not found")
	}
	loop, ok := fpai.EnclosingLoop(ia.Block())
	if !ok {
		return nil, fmt.Errorf("Compute: gate access is not inside a loop")
	}
	free := fpai.FreeValues(loop)
	tt := map[[3]int]int{}
	for op := 0; op < 5; op++ {
		for va := 0; va < 2; va++ {
			for vb := 0; vb < 2; vb++ {
				in := newInterp(false, false)
				wires := &fpai.SymSlice{Name: "wires", M: map[string]*fpai.Obj{
					"in0": {V: fpai.IntV{K: int64(va)}}, "in1": {V: fpai.IntV{K: int64(vb)}}, "out": {V: fpai.IntV{K: -1}}}}
				gates := &fpai.SymSlice{Name: "gates", M: map[string]*fpai.Obj{"0": newGate(op)}, Len: fpai.IntV{K: 1}}
				env := map[ssa.Value]fpai.Val{}
				for _, v := range free {
					switch {
					case types.Identical(v.Type(), types.NewSlice(gateT)):
						env[v] = gates
					case types.Identical(v.Type(), types.NewSlice(types.Typ[types.Byte])):
						env[v] = wires
					case types.Identical(v.Type().Underlying(), types.Typ[types.Int]):
						env[v] = fpai.IntV{K: 0}
					// a variable whose address is taken (handed to a deferred Store, captured by a closure) lives in a cell
					case types.Identical(v.Type(), types.NewPointer(types.NewSlice(types.Typ[types.Byte]))):
						env[v] = fpai.PtrV{O: &fpai.Obj{V: wires}}
					case types.Identical(v.Type(), types.NewPointer(types.NewSlice(gateT))):
						env[v] = fpai.PtrV{O: &fpai.Obj{V: gates}}
					default:
						env[v] = fpai.OpaqueV{Name: v.Name()}
					}
				}
				_, _, err := in.RunRegion(compute, loop.Body, loop.Header, env, func(from, to *ssa.BasicBlock) bool { return to == loop.Header })
				key := fmt.Sprintf("circuit.Circuit.Compute/%s/va=%d,vb=%d", opNames[op], va, vb)
				if err != nil {
					run.Undecided("O6-truth-table", key, p.Rel(compute.Pos()), err.Error())
					continue
				}
				res, ok := wires.M["out"].V.(fpai.IntV)
				if !ok || !res.Const() || (res.K != 0 && res.K != 1) {
					run.Undecided("O6-truth-table", key, p.Rel(compute.Pos()), fmt.Sprintf("result %v", wires.M["out"].V))
					continue
				}
				tt[[3]int{op, va, vb}] = int(res.K)
				run.OK("O6-truth-table", key, p.Rel(compute.Pos()), fmt.Sprintf("f=%d", res.K))
			}
		}
	}
	run.Count("compute-partitions", len(tt))
	return tt, nil
}

// GarbleForms derives O3 for a whole-circuit garbler function.
func garbleForms(p *load.Program, run *report.Run, fn *ssa.Function, rule string) map[[3]int]*GateForms {
	out := map[[3]int]*GateForms{}
	sameWireAsked = false
	for op := 0; op < 5; op++ {
		for _, pa := range []bool{false, true} {
			for _, pb := range []bool{false, true} {
				for _, same := range []bool{false, true} {
					// a gate whose two inputs are one wire (x AND x): only if the code asks, and then the two
					// inputs are the same object with one permute bit
					if same && (!sameWireAsked || op == 4 || pa != pb) {
						continue
					}
					key := fmt.Sprintf("%s/%s/pa=%d,pb=%d", fn.RelString(nil), opNames[op], b01(pa), b01(pb))
					if same {
						key += "/same-wire"
					}
					var res fpai.Val
					var err error
					var wires *fpai.SymSlice
					var idp, table *fpai.Obj
					for attempt := 0; attempt < 2; attempt++ {
						in := newInterp(pa, pb)
						if sameWireAsked || attempt == 1 {
							in.Assume[sameWireSym] = same
						}
						wires = garblerWires()
						if same {
							wires.M["in1"] = wires.M["in0"]
						}
						idp = &fpai.Obj{V: fpai.IntV{Sym: "id0"}}
						data := &fpai.Obj{V: fpai.DataV{}}
						// the row table is scratch too: rows of an earlier gate / garbling
						table = &fpai.Obj{V: fpai.ArrV{E: []fpai.Val{fpai.Lab("stale:row0"), fpai.Lab("stale:row1"), fpai.Lab("stale:row2"), fpai.Lab("stale:row3")}}}
						res, err = in.Call(fn, []fpai.Val{fpai.PtrV{O: newGate(op)}, wires, fpai.OpaqueV{Name: "enc"}, fpai.Lab("r"),
							fpai.PtrV{O: idp}, fpai.PtrV{O: data}, fpai.PtrV{O: table}})
						if nf, isFork := err.(*fpai.NeedFork); isFork && nf.Sym == sameWireSym && !sameWireAsked {
							sameWireAsked = true
							continue
						}
						break
					}
					run.Count("garbler-partitions", 1)
					if err != nil {
						run.Undecided(rule, key, p.Rel(fn.Pos()), err.Error())
						continue
					}
					tup, ok := res.(fpai.TupleV)
					if !ok || len(tup) != 3 {
						run.Undecided(rule, key, p.Rel(fn.Pos()), "unexpected result shape")
						continue
					}
					if _, isErr := tup[2].(fpai.ErrV); isErr {
						run.Violate(rule, key, p.Rel(fn.Pos()), "garbling returns an error for a valid gate", nil)
						continue
					}
					start, ok1 := tup[0].(fpai.IntV)
					count, ok2 := tup[1].(fpai.IntV)
					if !ok1 || !ok2 || !start.Const() || !count.Const() {
						run.Undecided(rule, key, p.Rel(fn.Pos()), "start/count not constant")
						continue
					}
					cw := wires.M["out"].V.(fpai.StructV)
					gf := &GateForms{Op: op, PA: pa, PB: pb, L0: cw.F[0].(fpai.LabelV), L1: cw.F[1].(fpai.LabelV),
						Start: int(start.K), Cnt: int(count.K), IDAfter: idp.V.(fpai.IntV)}
					tab := table.V.(fpai.ArrV)
					bad := false
					for k := 0; k < gf.Cnt; k++ {
						if gf.Start+k >= len(tab.E) {
							run.Violate(rule, key, p.Rel(fn.Pos()), fmt.Sprintf("row %d beyond the table", gf.Start+k), nil)
							bad = true
							break
						}
						gf.Rows = append(gf.Rows, tab.E[gf.Start+k].(fpai.LabelV))
					}
					if bad {
						continue
					}
					if d := fpai.Xor(fpai.Xor(gf.L0, gf.L1), fpai.Lab("r")); len(d) != 0 {
						run.Violate(rule, key, p.Rel(fn.Pos()), "output wire does not satisfy L1 = L0 ^ r",
							map[string]string{"L0": gf.L0.Canon(), "L1": gf.L1.Canon()})
						continue
					}
					run.OK(rule, key, p.Rel(fn.Pos()), fmt.Sprintf("L0=%s rows=%d start=%d id'=%s", gf.L0.Canon(), gf.Cnt, gf.Start, gf.IDAfter))
					if same {
						out[[3]int{op + sameWireOp, b01(pa), b01(pb)}] = gf
					} else {
						out[[3]int{op, b01(pa), b01(pb)}] = gf
					}
				}
			}
		}
	}
	return out
}

// sameWireSym is the unknown the interpreter asks about when the code compares a gate's two input wires;
// sameWireAsked is set once the code has been seen to ask (the same-wire family is then interpreted too,
// filed under op+sameWireOp).
const sameWireSym = "(in0==in1)"
const sameWireOp = 10

var sameWireAsked bool

// C01 decides the per-gate correctness obligations.
func C01(p *load.Program, run *report.Run) {
	run.Rule("O2", "makeLabels returns {L0, L0^r}")
	run.Rule("O3", "garbleInto: for every op and permute bits the output wire satisfies L1=L0^r; rows, start, count derived")
	run.Rule("O4", "Eval: for every op, permute bits and input bits the output label is L0 ^ f_op(va,vb)*r with f_op from Compute")
	run.Rule("O5", "tweak counters of garbler and evaluator advance identically")
	run.Rule("O6", "Compute's truth table per op")
	run.Rule("O7", "LabelForBit / BitFromLabel select and decode exactly")
	run.Rule("O8", "garbleScratchPool slab increments equal the derived row counts; Garble copies table[start:start+count]")
	run.Rule("O9", "scratch buffer is written before it is read in encrypt/decrypt (checked by the DataV defined flag)")
	run.Rule("O10", "decrypt(encrypt(c)) = c for symbolic a,b,c,t")
	run.Notes = append(run.Notes,
		"induction over the gate list (paper): every wire keeps L1=L0^r; the evaluator holds L0^v*r; counters equal at every gate",
		"AES, encryptHalf, Mul2, Mul4 are uninterpreted deterministic functions of canonical arguments",
		"go/types, go/ssa (x/tools v0.50.0), the fpai interpreter",
		"slab/p2p copying is the identity on labels")

	garbleInto, err1 := p.Method("circuit", "Gate", "garbleInto")
	eval, err2 := p.Method("circuit", "Circuit", "Eval")
	circT, err3 := p.Type("circuit", "Circuit")
	for _, e := range []error{err1, err2, err3} {
		if e != nil {
			run.Undecided("anchor", "circuit", "", e.Error())
			return
		}
	}
	tt, err := truthTables(p, run)
	if err != nil {
		run.Undecided("O6-truth-table", "circuit.Circuit.Compute", "", err.Error())
		return
	}
	forms := garbleForms(p, run, garbleInto, "O3-garble-invariant")

	// O4 + O5
	for _, same := range []bool{false, true} {
		for op := 0; op < 5; op++ {
			for pa := 0; pa < 2; pa++ {
				for pb := 0; pb < 2; pb++ {
					gf := forms[[3]int{op, pa, pb}]
					if same {
						gf = forms[[3]int{op + sameWireOp, pa, pb}]
					}
					if gf == nil {
						continue
					}
					for va := 0; va < 2; va++ {
						for vb := 0; vb < 2; vb++ {
							if op == 4 && vb == 1 {
								continue
							}
							if same && va != vb {
								continue
							}
							key := fmt.Sprintf("circuit.Circuit.Eval/%s/pa=%d,pb=%d/va=%d,vb=%d", opNames[op], pa, pb, va, vb)
							if same {
								key += "/same-wire"
							}
							f, ok := tt[[3]int{op, va, vb}]
							if !ok {
								continue
							}
							a, b := fpai.Lab("a0"), fpai.Lab("b0")
							if va == 1 {
								a = fpai.Lab("a0", "r")
							}
							if vb == 1 {
								b = fpai.Lab("b0", "r")
							}
							ev := newInterp(pa == 1, pb == 1)
							if sameWireAsked {
								ev.Assume[sameWireSym] = same
							}
							if same {
								b = a
							}
							// the gate under evaluation is at an arbitrary position of the list: everything the
							// loop carries is unknown — the tweak counter is the symbol id0, a carried label is a
							// fresh atom (a value left over from the previous gate), the loop index stays concrete
							idKey := ""
							ev.HavocPhi = func(fn *ssa.Function, phi *ssa.Phi, key string) (fpai.Val, bool) {
								if fn != eval {
									return nil, false
								}
								switch t := phi.Type().Underlying().(type) {
								case *types.Basic:
									if t.Kind() == types.Uint32 {
										idKey = key
										return fpai.IntV{Sym: "id0"}, true
									}
								case *types.Struct:
									if typeName(phi.Type()) == "Label" {
										return fpai.Lab("carried:" + key), true
									}
								}
								return nil, false
							}
							rows := fpai.ArrV{}
							for _, r := range gf.Rows {
								rows.E = append(rows.E, r)
							}
							rowsObj := &fpai.Obj{V: rows}
							ewires := &fpai.SymSlice{Name: "wires", M: map[string]*fpai.Obj{"in0": {V: a}, "in1": {V: b}, "out": {V: fpai.LabelV{}}}}
							if same {
								ewires.M["in1"] = ewires.M["in0"]
							}
							circ := &fpai.Obj{V: fpai.ZeroVal(circT)}
							cs := circ.V.(fpai.StructV)
							gi := fieldIndex(circT, "Gates")
							if gi < 0 {
								run.Undecided("anchor", "circuit.Circuit.Gates", "", "field not found")
								return
							}
							cs.F[gi] = &fpai.SymSlice{Name: "gates", M: map[string]*fpai.Obj{"0": newGate(op)}, Len: fpai.IntV{K: 1}}
							garbled := &fpai.SymSlice{Name: "garbled", M: map[string]*fpai.Obj{"0": {V: fpai.SliceV{O: rowsObj, Lo: 0, Hi: len(rows.E)}}}, Len: fpai.IntV{K: 1}}
							r, err := ev.Call(eval, []fpai.Val{fpai.PtrV{O: circ}, fpai.OpaqueV{Name: "key"}, ewires, garbled})
							run.Count("evaluator-partitions", 1)
							if err != nil {
								run.Undecided("O4-eval-output", key, p.Rel(eval.Pos()), err.Error())
								continue
							}
							if _, isErr := r.(fpai.ErrV); isErr {
								run.Violate("O4-eval-output", key, p.Rel(eval.Pos()), "Eval rejects the honest garbling", nil)
								continue
							}
							want := gf.L0
							if f == 1 {
								want = gf.L1
							}
							got, _ := ewires.M["out"].V.(fpai.LabelV)
							if got.Canon() != want.Canon() {
								run.Violate("O4-eval-output", key, p.Rel(eval.Pos()), "evaluated label differs from the label of f_op(va,vb)",
									map[string]string{"got": got.Canon(), "want": want.Canon()})
							} else {
								run.OK("O4-eval-output", key, p.Rel(eval.Pos()), "= "+want.Canon())
							}
							if eid, ok := ev.LastPhi[idKey].(fpai.IntV); !ok || eid != gf.IDAfter {
								run.Violate("O5-tweak-lockstep", key, p.Rel(eval.Pos()),
									fmt.Sprintf("evaluator counter %v, garbler counter %v", ev.LastPhi[idKey], gf.IDAfter), nil)
							} else {
								run.OK("O5-tweak-lockstep", key, p.Rel(eval.Pos()), eid.String())
							}
						}
					}
				}
			}
		}
	}
	c01Helpers(p, run, forms)
	run.Floor("garbler-partitions", 20)
	run.Floor("evaluator-partitions", 72)
	run.Floor("compute-partitions", 20)
}

func fieldIndex(t types.Type, name string) int {
	st, ok := t.Underlying().(*types.Struct)
	if !ok {
		return -1
	}
	for i := 0; i < st.NumFields(); i++ {
		if st.Field(i).Name() == name {
			return i
		}
	}
	return -1
}

func c01Helpers(p *load.Program, run *report.Run, forms map[[3]int]*GateForms) {
	// O2 makeLabels
	if mk, err := p.Func("circuit", "makeLabels"); err != nil {
		run.Undecided("O2-makeLabels", "circuit.makeLabels", "", err.Error())
	} else {
		in := newInterp(false, false)
		in.Models["github.com/markkurossi/mpc/ot.NewLabel"] = func(in *fpai.Interp, a []fpai.Val, _ ssa.CallInstruction) (fpai.Val, error) {
			return fpai.TupleV{fpai.Lab("fresh"), fpai.NilV{}}, nil
		}
		res, err := in.Call(mk, []fpai.Val{fpai.OpaqueV{Name: "rand"}, fpai.Lab("r")})
		key := "circuit.makeLabels"
		if err != nil {
			run.Undecided("O2-makeLabels", key, p.Rel(mk.Pos()), err.Error())
		} else if tup, ok := res.(fpai.TupleV); ok {
			w, ok := tup[0].(fpai.StructV)
			if ok && fpai.Xor(fpai.Xor(w.F[0].(fpai.LabelV), w.F[1].(fpai.LabelV)), fpai.Lab("r")).Canon() == "0" && w.F[0].(fpai.LabelV).Canon() == "fresh" {
				run.OK("O2-makeLabels", key, p.Rel(mk.Pos()), "{fresh, fresh^r}")
			} else {
				run.Violate("O2-makeLabels", key, p.Rel(mk.Pos()), "input wire is not {L0, L0^r}", fmt.Sprint(tup[0]))
			}
		}
	}
	// O7 LabelForBit / BitFromLabel
	if lf, err := p.Func("circuit", "LabelForBit"); err != nil {
		run.Undecided("O7-decode", "circuit.LabelForBit", "", err.Error())
	} else {
		w := fpai.StructV{F: []fpai.Val{fpai.Lab("w0"), fpai.Lab("w0", "r")}}
		for _, bit := range []bool{false, true} {
			in := newInterp(false, false)
			res, err := in.Call(lf, []fpai.Val{fpai.Clone(w), fpai.BoolV{Known: true, B: bit}})
			key := fmt.Sprintf("circuit.LabelForBit/bit=%d", b01(bit))
			want := w.F[b01(bit)].(fpai.LabelV).Canon()
			if err != nil {
				run.Undecided("O7-decode", key, p.Rel(lf.Pos()), err.Error())
			} else if l, ok := res.(fpai.LabelV); !ok || l.Canon() != want {
				run.Violate("O7-decode", key, p.Rel(lf.Pos()), "selects the wrong label", fmt.Sprint(res))
			} else {
				run.OK("O7-decode", key, p.Rel(lf.Pos()), want)
			}
		}
	}
	if bf, err := p.Func("circuit", "BitFromLabel"); err != nil {
		run.Undecided("O7-decode", "circuit.BitFromLabel", "", err.Error())
	} else {
		w := fpai.StructV{F: []fpai.Val{fpai.Lab("w0"), fpai.Lab("w0", "r")}}
		cases := []struct {
			name string
			l    fpai.LabelV
			want string
		}{{"L0", fpai.Lab("w0"), "false"}, {"L1", fpai.Lab("w0", "r"), "true"}, {"other", fpai.Lab("junk"), "error"}}
		for _, c := range cases {
			c := c
			key := "circuit.BitFromLabel/label=" + c.name
			var outcomes []string
			_, err := fpai.Explore(map[string]bool{}, func(assume map[string]bool) error {
				in := newInterp(false, false)
				in.Assume = assume
				res, err := in.Call(bf, []fpai.Val{fpai.Clone(w), c.l})
				if err != nil {
					return err
				}
				tup := res.(fpai.TupleV)
				got := "error"
				if _, isErr := tup[1].(fpai.ErrV); !isErr {
					got = fmt.Sprint(tup[0].(fpai.BoolV).B)
				}
				outcomes = append(outcomes, got+assumeKey(assume))
				if got != c.want {
					run.Violate("O7-decode", key+assumeKey(assume), p.Rel(bf.Pos()), "decodes to "+got+", want "+c.want+" (a wire label may be any value, the zero label included)", nil)
				}
				return nil
			}, 6)
			if err != nil {
				run.Undecided("O7-decode", key, p.Rel(bf.Pos()), err.Error())
				continue
			}
			run.OK("O7-decode", key, p.Rel(bf.Pos()), strings.Join(outcomes, " "))
		}
	}
	// O10 encrypt/decrypt
	enc, e1 := p.Func("circuit", "encrypt")
	dec, e2 := p.Func("circuit", "decrypt")
	if e1 != nil || e2 != nil {
		run.Undecided("O10-encrypt-decrypt", "circuit.encrypt/decrypt", "", fmt.Sprint(e1, e2))
	} else {
		in := newInterp(false, false)
		data := &fpai.Obj{V: fpai.DataV{}}
		t := fpai.IntV{Sym: "t"}
		ct, err := in.Call(enc, []fpai.Val{fpai.OpaqueV{Name: "alg"}, fpai.Lab("x"), fpai.Lab("y"), fpai.Lab("c"), t, fpai.PtrV{O: data}})
		key := "circuit.encrypt+decrypt"
		if err != nil {
			run.Undecided("O10-encrypt-decrypt", key, p.Rel(enc.Pos()), err.Error())
		} else {
			data.V = fpai.DataV{}
			pt, err := in.Call(dec, []fpai.Val{fpai.OpaqueV{Name: "alg"}, fpai.Lab("x"), fpai.Lab("y"), t, ct, fpai.PtrV{O: data}})
			if err != nil {
				run.Undecided("O10-encrypt-decrypt", key, p.Rel(dec.Pos()), err.Error())
			} else if l, ok := pt.(fpai.LabelV); !ok || l.Canon() != "c" {
				run.Violate("O10-encrypt-decrypt", key, p.Rel(dec.Pos()), "decrypt(encrypt(c)) != c", map[string]string{"ciphertext": fmt.Sprint(ct), "plaintext": fmt.Sprint(pt)})
			} else {
				run.OK("O10-encrypt-decrypt", key, p.Rel(enc.Pos()), "ciphertext "+ct.(fpai.LabelV).Canon())
			}
		}
	}
	// O8 slab increments per op
	if gsp, err := p.Method("circuit", "Circuit", "garbleScratchPool"); err != nil {
		run.Undecided("O8-slab", "circuit.Circuit.garbleScratchPool", "", err.Error())
	} else {
		slabDeltas(p, run, gsp, forms)
	}
}

// slabDeltas interprets the body of the slab-size loop per op.
func slabDeltas(p *load.Program, run *report.Run, fn *ssa.Function, forms map[[3]int]*GateForms) {
	gateT, _ := p.Type("circuit", "Gate")
	ia := fpai.FindInstr(fn, func(i ssa.Instruction) bool {
		x, ok := i.(*ssa.IndexAddr)
		return ok && types.Identical(x.Type(), types.NewPointer(gateT))
	})
	if ia == nil {
		run.Undecided("O8-slab", fn.RelString(nil), p.Rel(fn.Pos()), "loop over c.Gates not found")
		return
	}
	loop, ok := fpai.EnclosingLoop(ia.Block())
	if !ok {
		run.Undecided("O8-slab", fn.RelString(nil), p.Rel(fn.Pos()), "gate access not in a loop")
		return
	}
	free := fpai.FreeValues(loop)
	// the accumulator is either a loop-header phi or (when captured by a
	// closure, as today) a heap cell of type *int that the body updates.
	for op := 0; op < 5; op++ {
		in := newInterp(false, false)
		env := map[ssa.Value]fpai.Val{}
		gates := &fpai.SymSlice{Name: "gates", M: map[string]*fpai.Obj{"0": newGate(op)}, Len: fpai.IntV{K: 1}}
		var phis []*ssa.Phi
		var cells []*fpai.Obj
		var structCell *fpai.Obj
		var hist *fpai.Obj
		var histVal ssa.Value
		for _, v := range free {
			// a histogram of the operations (stats[op]++), weighed after the loop by a function of the package
			if pt, ok := v.Type().Underlying().(*types.Pointer); ok && hist == nil {
				if at, ok := pt.Elem().Underlying().(*types.Array); ok {
					if bt, ok := at.Elem().Underlying().(*types.Basic); ok && bt.Info()&types.IsInteger != 0 {
						av := fpai.ArrV{}
						for i := int64(0); i < at.Len(); i++ {
							av.E = append(av.E, fpai.IntV{K: 0})
						}
						hist = &fpai.Obj{V: av}
						histVal = v
						env[v] = fpai.PtrV{O: hist}
						continue
					}
				}
			}
			switch {
			case types.Identical(v.Type(), types.NewSlice(gateT)):
				env[v] = gates
			case types.Identical(v.Type(), types.NewPointer(types.Typ[types.Int])):
				o := &fpai.Obj{V: fpai.IntV{Sym: "slab0"}}
				cells = append(cells, o)
				env[v] = fpai.PtrV{O: o}
			default:
				if ph, ok := v.(*ssa.Phi); ok && ph.Block() == loop.Header {
					if types.Identical(ph.Type(), types.Typ[types.Int]) && len(loop.Header.Instrs) > 0 && !isIndexPhi(ph, ia.(*ssa.IndexAddr)) {
						env[v] = fpai.IntV{Sym: "slab0"}
						phis = append(phis, ph)
					} else {
						env[v] = fpai.IntV{K: 0}
					}
				} else if pt, ok := v.Type().Underlying().(*types.Pointer); ok {
					circT, _ := p.Type("circuit", "Circuit")
					circ := &fpai.Obj{V: fpai.ZeroVal(circT)}
					cs := circ.V.(fpai.StructV)
					cs.F[fieldIndex(circT, "Gates")] = gates
					switch {
					case types.Identical(pt.Elem(), circT):
						env[v] = fpai.PtrV{O: circ}
					case types.Identical(pt.Elem(), types.NewPointer(circT)):
						env[v] = fpai.PtrV{O: &fpai.Obj{V: fpai.PtrV{O: circ}}}
					default:
						// a record of sizes kept in a struct (dims.rows += 2): every integer field starts as
						// its own symbol, the one the loop adds to is the accumulator
						if st, isStruct := pt.Elem().Underlying().(*types.Struct); isStruct && structCell == nil {
							zv, isSV := fpai.ZeroVal(pt.Elem()).(fpai.StructV)
							ints := 0
							if isSV {
								for i := 0; i < st.NumFields(); i++ {
									if bt, ok := st.Field(i).Type().Underlying().(*types.Basic); ok && bt.Info()&types.IsInteger != 0 {
										zv.F[i] = fpai.IntV{Sym: fmt.Sprintf("fld%d", i)}
										ints++
									}
								}
							}
							if isSV && ints > 0 {
								structCell = &fpai.Obj{V: zv}
								env[v] = fpai.PtrV{O: structCell}
								break
							}
						}
						env[v] = fpai.OpaqueV{Name: v.Name()}
					}
				} else if bt, ok := v.Type().Underlying().(*types.Basic); ok && bt.Info()&types.IsInteger != 0 {
					env[v] = fpai.IntV{K: 0} // the range index
				} else {
					env[v] = fpai.OpaqueV{Name: v.Name()}
				}
			}
		}
		key := fmt.Sprintf("%s/%s", fn.RelString(nil), opNames[op])
		if len(phis)+len(cells) != 1 && !(len(phis)+len(cells) == 0 && (structCell != nil || hist != nil)) {
			run.Undecided("O8-slab", key, p.Rel(fn.Pos()), fmt.Sprintf("slab accumulator not identified (%d candidates)", len(phis)+len(cells)))
			continue
		}
		ret, out, err := in.RunRegion(fn, loop.Body, loop.Header, env, func(from, to *ssa.BasicBlock) bool { return to == loop.Header })
		if err != nil {
			run.Undecided("O8-slab", key, p.Rel(fn.Pos()), err.Error())
			continue
		}
		exit, ok := ret.(fpai.RegionExit)
		if !ok {
			run.Undecided("O8-slab", key, p.Rel(fn.Pos()), "region did not reach the back edge")
			continue
		}
		var next fpai.Val
		if len(phis)+len(cells) == 0 && structCell == nil && hist != nil {
			w, why := histWeight(p, fn, hist, histVal, op)
			if why != "" {
				run.Undecided("O8-slab", key, p.Rel(fn.Pos()), why)
				continue
			}
			next = fpai.IntV{Sym: "slab0", K: w}
		} else if len(phis)+len(cells) == 0 && structCell != nil {
			// the field that grew
			if sv, ok := structCell.V.(fpai.StructV); ok {
				grown := 0
				for i, f := range sv.F {
					if iv, ok := f.(fpai.IntV); ok && iv.Sym == fmt.Sprintf("fld%d", i) && iv.K != 0 {
						next = fpai.IntV{Sym: "slab0", K: iv.K}
						grown++
					}
				}
				if grown == 0 {
					next = fpai.IntV{Sym: "slab0"}
				} else if grown > 1 {
					next = nil
				}
			}
		} else if len(cells) == 1 {
			next = cells[0].V
		} else {
			for k, pred := range loop.Header.Preds {
				if pred == exit.From {
					e := phis[0].Edges[k]
					next = out[e]
					if next == nil && e == ssa.Value(phis[0]) {
						next = fpai.IntV{Sym: "slab0"}
					}
				}
			}
		}
		nv, ok := next.(fpai.IntV)
		if !ok || nv.Sym != "slab0" {
			run.Undecided("O8-slab", key, p.Rel(fn.Pos()), fmt.Sprintf("accumulator update %v", next))
			continue
		}
		want := -1
		if gf := forms[[3]int{op, 0, 0}]; gf != nil {
			want = gf.Cnt
		}
		if int(nv.K) < want {
			run.Violate("O8-slab", key, p.Rel(fn.Pos()), fmt.Sprintf("slab grows by %d but garbleInto emits %d rows", nv.K, want), nil)
		} else {
			run.OK("O8-slab", key, p.Rel(fn.Pos()), fmt.Sprintf("+%d", nv.K))
		}
	}
}

// histWeight: the loop body counted the gate in a histogram; the slab size is a function of the package applied to
// the histogram after the loop.  Returns what one gate of the operation adds to that size: the body must add
// one to exactly the operation's own cell, and the function — interpreted on 0, 1 and 2 gates of the operation —
// must be linear.
func histWeight(p *load.Program, fn *ssa.Function, hist *fpai.Obj, histVal ssa.Value, op int) (int64, string) {
	av, ok := hist.V.(fpai.ArrV)
	if !ok {
		return 0, "the histogram is no longer an array"
	}
	for i, e := range av.E {
		iv, ok := e.(fpai.IntV)
		want := int64(0)
		if i == op {
			want = 1
		}
		if !ok || iv.Sym != "" || iv.K != want {
			return 0, fmt.Sprintf("a %s gate leaves cell %d of the histogram at %v", opNames[op], i, e)
		}
	}
	if op >= len(av.E) {
		return 0, "the histogram has no cell for the operation"
	}
	var weigh *ssa.Function
	for _, b := range fn.Blocks {
		for _, ins := range b.Instrs {
			c, ok := ins.(*ssa.Call)
			if !ok || c.Call.StaticCallee() == nil || c.Call.StaticCallee().Blocks == nil || len(c.Call.Args) != 1 {
				continue
			}
			a := c.Call.Args[0]
			if ld, ok := a.(*ssa.UnOp); ok && ld.Op == token.MUL {
				a = ld.X
			}
			if a != histVal {
				continue
			}
			if bt, ok := c.Type().Underlying().(*types.Basic); !ok || bt.Info()&types.IsInteger == 0 {
				continue
			}
			if weigh != nil {
				return 0, "the histogram is weighed more than once"
			}
			weigh = c.Call.StaticCallee()
		}
	}
	if weigh == nil {
		return 0, "the function that turns the histogram into a size was not found"
	}
	var ks [3]int64
	for n := int64(0); n < 3; n++ {
		arg := fpai.ArrV{}
		for i := range av.E {
			k := int64(0)
			if i == op {
				k = n
			}
			arg.E = append(arg.E, fpai.IntV{K: k})
		}
		in := newInterp(false, false)
		var a fpai.Val = arg
		if _, isPtr := weigh.Params[0].Type().Underlying().(*types.Pointer); isPtr {
			a = fpai.PtrV{O: &fpai.Obj{V: arg}}
		}
		r, err := in.Call(weigh, []fpai.Val{a})
		if err != nil {
			return 0, "weighing the histogram: " + err.Error()
		}
		iv, ok := r.(fpai.IntV)
		if !ok || iv.Sym != "" {
			return 0, fmt.Sprintf("the weight of %d %s gates is %v", n, opNames[op], r)
		}
		ks[n] = iv.K
	}
	if ks[0] != 0 || ks[2] != 2*ks[1] {
		return 0, fmt.Sprintf("the size is not linear in the number of %s gates (%d, %d, %d)", opNames[op], ks[0], ks[1], ks[2])
	}
	return ks[1], ""
}

// isIndexPhi reports whether ph is the induction variable used to index the gate slice.
func isIndexPhi(ph *ssa.Phi, ia *ssa.IndexAddr) bool {
	return ia.Index == ssa.Value(ph)
}

// HalfGateModel reports which model of the half-gate hash this run's garbling interpreter uses.
func HalfGateModel(p *load.Program, run *report.Run) {
	const rule = "half-gate-hash-model"
	run.Rule(rule, "circuit.encryptHalf is interpreted through circuit.encryptHalfReference when both, evaluated on symbolic 64-bit words (label methods and NewTweak inlined from their bodies, the cipher uninterpreted), return the same two words; otherwise it is an uninterpreted function — either way the rules using it are sound, the first model also relates it to encrypt/decrypt with a zero second label")
	if halfGateRef != nil {
		run.OK(rule, "circuit.encryptHalf", p.Rel(halfGateRef.Pos()), "the hand-inlined hash equals its reference on symbolic words: interpreted through the reference")
	} else {
		run.OK(rule, "circuit.encryptHalf", "", "kept uninterpreted: "+halfGateWhy)
	}
}
