package props

import (
	"fmt"
	"go/ast"
	"go/constant"
	"go/token"
	"go/types"
	"sort"
	"strings"

	"mpcverif/internal/dispatch"
	"mpcverif/internal/load"
	"mpcverif/internal/report"
)

// C01labels: the label primitives are what the label algebra of the proof assumes.
//
// The abstract interpretation of garbling and evaluation (E1) replaces
// ot.Label's methods by models: Xor is the bitwise sum of all 128 bits, S is
// one fixed bit, Equal is equality of all 128 bits, Mul2/Mul4 are fixed
// linear maps.  This rule interprets the bodies of those methods from source
// with every bit of the receiver and of the operand as a boolean variable —
// words are vectors of 64 boolean functions, each a truth table over the few
// variables it depends on; a comparison of words is a conjunction of per-bit
// functions — and compares the result with the model, bit for bit.  Nothing is
// sampled: each per-bit function is compared as a whole truth table.
func C01labels(p *load.Program, run *report.Run) {
	run.Rule("label-primitives", "the bodies of ot.Label's Equal, Xor, And, S, SetS, Mul2 and Mul4, interpreted with each of the 2x128 bits as a boolean variable (per-bit truth tables, word comparisons as conjunctions), are: equality of all 128 bits, bitwise xor/and into the receiver, bit 63 of D0, setting exactly that bit, and the 128-bit left shift by 1 and 2")
	pkg := p.ByPath[load.Module+"/ot"]
	if pkg == nil {
		run.Undecided("label-primitives", "ot.Label", "", "package not found")
		return
	}
	word := func(name string) bword {
		var w bword
		for i := range w {
			w[i] = bvar(fmt.Sprintf("%s[%d]", name, i))
		}
		return w
	}
	type spec struct {
		name  string
		check func(ev *labelEval, ret bval, hasRet bool) string
	}
	specs := []spec{
		{"Equal", func(ev *labelEval, ret bval, hasRet bool) string {
			if !hasRet {
				return "no boolean result"
			}
			var want []bfun
			for i := 0; i < 64; i++ {
				want = append(want, bxnor(bvar(fmt.Sprintf("l.D0[%d]", i)), bvar(fmt.Sprintf("o.D0[%d]", i))))
				want = append(want, bxnor(bvar(fmt.Sprintf("l.D1[%d]", i)), bvar(fmt.Sprintf("o.D1[%d]", i))))
			}
			return cmpBool(ret, bval{kind: "and", fs: want})
		}},
		{"S", func(ev *labelEval, ret bval, hasRet bool) string {
			if !hasRet {
				return "no boolean result"
			}
			return cmpBool(ret, bval{kind: "and", fs: []bfun{bvar("l.D0[63]")}})
		}},
		{"Xor", func(ev *labelEval, _ bval, _ bool) string {
			return cmpWords(ev, func(f string, i int) bfun {
				return bxor(bvar(fmt.Sprintf("l.%s[%d]", f, i)), bvar(fmt.Sprintf("o.%s[%d]", f, i)))
			})
		}},
		{"And", func(ev *labelEval, _ bval, _ bool) string {
			return cmpWords(ev, func(f string, i int) bfun {
				return band(bvar(fmt.Sprintf("l.%s[%d]", f, i)), bvar(fmt.Sprintf("o.%s[%d]", f, i)))
			})
		}},
		{"SetS", func(ev *labelEval, _ bval, _ bool) string {
			return cmpWords(ev, func(f string, i int) bfun {
				if f == "D0" && i == 63 {
					return bvar("set")
				}
				return bvar(fmt.Sprintf("l.%s[%d]", f, i))
			})
		}},
		{"Mul2", func(ev *labelEval, _ bval, _ bool) string { return cmpWords(ev, shiftSpec(1)) }},
		{"Mul4", func(ev *labelEval, _ bval, _ bool) string { return cmpWords(ev, shiftSpec(2)) }},
	}
	for _, sp := range specs {
		key := "ot.Label." + sp.name
		run.Count("label-primitives", 1)
		_, fd := dispatch.FindFunc(p, "ot", "Label", sp.name)
		if fd == nil || fd.Recv == nil || len(fd.Recv.List) != 1 || len(fd.Recv.List[0].Names) != 1 {
			run.Undecided("label-primitives", key, "", "method not found")
			continue
		}
		ev := &labelEval{info: pkg.TypesInfo, words: map[string]bword{}, bools: map[string]bfun{}}
		recv := fd.Recv.List[0].Names[0].Name
		ev.alias = map[string]string{recv: "l"}
		ev.words["l.D0"], ev.words["l.D1"] = word("l.D0"), word("l.D1")
		for _, f := range fd.Type.Params.List {
			for _, n := range f.Names {
				switch t := pkg.TypesInfo.TypeOf(f.Type).(type) {
				case *types.Named:
					if t.Obj().Name() == "Label" {
						ev.alias[n.Name] = "o"
						ev.words["o.D0"], ev.words["o.D1"] = word("o.D0"), word("o.D1")
					}
				case *types.Basic:
					if t.Kind() == types.Bool {
						ev.alias[n.Name] = "set"
						ev.bools["set"] = bvar("set")
					}
				}
			}
		}
		ret, hasRet := ev.block(fd.Body.List, btrue())
		msg := ev.fail
		if msg == "" {
			msg = sp.check(ev, ret, hasRet)
		}
		if msg != "" {
			run.Violate("label-primitives", key, p.Rel(fd.Pos()), msg, nil)
		} else {
			run.OK("label-primitives", key, p.Rel(fd.Pos()), "agrees with the model on every bit")
		}
	}
	run.Floor("label-primitives", 7)
}

func shiftSpec(k int) func(f string, i int) bfun {
	return func(f string, i int) bfun {
		// the label is D0 (high) : D1 (low); bit i of D1 is bit i, bit i of D0 is bit 64+i
		pos := i
		if f == "D0" {
			pos += 64
		}
		src := pos - k
		switch {
		case src < 0:
			return bfalse()
		case src >= 64:
			return bvar(fmt.Sprintf("l.D0[%d]", src-64))
		default:
			return bvar(fmt.Sprintf("l.D1[%d]", src))
		}
	}
}

func cmpWords(ev *labelEval, want func(f string, i int) bfun) string {
	for _, f := range []string{"D0", "D1"} {
		w := ev.words["l."+f]
		for i := 0; i < 64; i++ {
			if w[i].canon() != want(f, i).canon() {
				return fmt.Sprintf("bit %d of %s becomes %s, the model has %s", i, f, w[i].canon(), want(f, i).canon())
			}
		}
	}
	return ""
}

// ---- per-bit boolean functions

type bfun struct {
	vars []string
	tt   []bool // indexed by the assignment of vars (bit k of the index = vars[k])
}

func btrue() bfun         { return bfun{tt: []bool{true}} }
func bfalse() bfun        { return bfun{tt: []bool{false}} }
func bvar(n string) bfun  { return bfun{vars: []string{n}, tt: []bool{false, true}} }
func bnot(a bfun) bfun    { return bmap1(a, func(x bool) bool { return !x }) }
func bxor(a, b bfun) bfun { return bmap2(a, b, func(x, y bool) bool { return x != y }) }
func bxnor(a, b bfun) bfun {
	return bmap2(a, b, func(x, y bool) bool { return x == y })
}
func band(a, b bfun) bfun { return bmap2(a, b, func(x, y bool) bool { return x && y }) }
func bor(a, b bfun) bfun  { return bmap2(a, b, func(x, y bool) bool { return x || y }) }
func bite(c, t, f bfun) bfun {
	return bor(band(c, t), band(bnot(c), f))
}

func bmap1(a bfun, f func(bool) bool) bfun {
	out := bfun{vars: a.vars, tt: make([]bool, len(a.tt))}
	for i, v := range a.tt {
		out.tt[i] = f(v)
	}
	return out.reduce()
}

func bmap2(a, b bfun, f func(x, y bool) bool) bfun {
	set := map[string]bool{}
	for _, v := range a.vars {
		set[v] = true
	}
	for _, v := range b.vars {
		set[v] = true
	}
	var vars []string
	for v := range set {
		vars = append(vars, v)
	}
	sort.Strings(vars)
	if len(vars) > 12 {
		return bfun{vars: []string{"TOO-MANY-VARIABLES"}, tt: []bool{false, true}}
	}
	idx := func(f bfun, assign int) int {
		k := 0
		for i, v := range f.vars {
			for j, w := range vars {
				if v == w && assign&(1<<j) != 0 {
					k |= 1 << i
				}
			}
		}
		return k
	}
	out := bfun{vars: vars, tt: make([]bool, 1<<len(vars))}
	for m := range out.tt {
		out.tt[m] = f(a.tt[idx(a, m)], b.tt[idx(b, m)])
	}
	return out.reduce()
}

// reduce drops variables the function does not depend on.
func (a bfun) reduce() bfun {
	for k := 0; k < len(a.vars); k++ {
		dep := false
		for m := range a.tt {
			if a.tt[m] != a.tt[m^(1<<k)] {
				dep = true
				break
			}
		}
		if dep {
			continue
		}
		nv := append(append([]string{}, a.vars[:k]...), a.vars[k+1:]...)
		nt := make([]bool, len(a.tt)/2)
		for m := range nt {
			lo := m & ((1 << k) - 1)
			hi := (m >> k) << (k + 1)
			nt[m] = a.tt[hi|lo]
		}
		return bfun{vars: nv, tt: nt}.reduce()
	}
	return a
}

func (a bfun) canon() string {
	var sb strings.Builder
	sb.WriteString(strings.Join(a.vars, ","))
	sb.WriteByte(':')
	for _, v := range a.tt {
		if v {
			sb.WriteByte('1')
		} else {
			sb.WriteByte('0')
		}
	}
	return sb.String()
}

type bword [64]bfun

// bval: a boolean result: a conjunction ("and") or disjunction ("or") of per-bit functions.
type bval struct {
	kind string
	fs   []bfun
}

func cmpBool(got, want bval) string {
	gk, wk := got.kind, want.kind
	if len(got.fs) <= 1 {
		gk = wk
	}
	if len(want.fs) <= 1 {
		wk = gk
	}
	if gk != wk {
		return fmt.Sprintf("the result is a %s of per-bit conditions, the model a %s", gk, wk)
	}
	// classes of variables connected through a condition of either side
	parent := map[string]string{}
	var find func(x string) string
	find = func(x string) string {
		if parent[x] == "" || parent[x] == x {
			parent[x] = x
			return x
		}
		r := find(parent[x])
		parent[x] = r
		return r
	}
	for _, side := range [][]bfun{got.fs, want.fs} {
		for _, f := range side {
			for k := 1; k < len(f.vars); k++ {
				parent[find(f.vars[k])] = find(f.vars[0])
			}
			if len(f.vars) == 1 {
				find(f.vars[0])
			}
		}
	}
	neutral := btrue()
	combine := band
	if gk == "or" {
		neutral, combine = bfalse(), bor
	}
	gc, wc := map[string]bfun{}, map[string]bfun{}
	constG, constW := neutral, neutral
	add := func(m map[string]bfun, c *bfun, f bfun) {
		if len(f.vars) == 0 {
			*c = combine(*c, f)
			return
		}
		r := find(f.vars[0])
		cur, ok := m[r]
		if !ok {
			cur = neutral
		}
		m[r] = combine(cur, f)
	}
	for _, f := range got.fs {
		add(gc, &constG, f)
	}
	for _, f := range want.fs {
		add(wc, &constW, f)
	}
	if constG.canon() != constW.canon() {
		return fmt.Sprintf("the result is constantly %s", constG.canon())
	}
	var roots []string
	seen := map[string]bool{}
	for x := range parent {
		if r := find(x); !seen[r] {
			seen[r] = true
			roots = append(roots, r)
		}
	}
	sort.Strings(roots)
	for _, r := range roots {
		g, okg := gc[r]
		w, okw := wc[r]
		if !okg {
			g = neutral
		}
		if !okw {
			w = neutral
		}
		if g.canon() != w.canon() {
			return fmt.Sprintf("on the bits {%s} the result is %s, the model has %s", strings.Join(w.vars, " "), g.canon(), w.canon())
		}
	}
	return ""
}

// ---- the interpreter

type labelEval struct {
	info  *types.Info
	alias map[string]string
	words map[string]bword
	bools map[string]bfun
	fail  string
}

func (e *labelEval) bad(f string, a ...any) {
	if e.fail == "" {
		e.fail = "not interpreted: " + fmt.Sprintf(f, a...)
	}
}

func (e *labelEval) fieldKey(x ast.Expr) (string, bool) {
	sel, ok := ast.Unparen(x).(*ast.SelectorExpr)
	if !ok {
		return "", false
	}
	id, ok := ast.Unparen(sel.X).(*ast.Ident)
	if !ok {
		return "", false
	}
	a, ok := e.alias[id.Name]
	if !ok {
		return "", false
	}
	k := a + "." + sel.Sel.Name
	_, ok = e.words[k]
	return k, ok
}

func constWord(v uint64) bword {
	var w bword
	for i := range w {
		if v&(1<<uint(i)) != 0 {
			w[i] = btrue()
		} else {
			w[i] = bfalse()
		}
	}
	return w
}

func (e *labelEval) word(x ast.Expr) (bword, bool) {
	x = ast.Unparen(x)
	if tv, ok := e.info.Types[x]; ok && tv.Value != nil && tv.Value.Kind() == constant.Int {
		if u, ok := constant.Uint64Val(tv.Value); ok {
			return constWord(u), true
		}
	}
	if k, ok := e.fieldKey(x); ok {
		return e.words[k], true
	}
	switch t := x.(type) {
	case *ast.BinaryExpr:
		switch t.Op {
		case token.XOR, token.AND, token.OR, token.AND_NOT:
			a, ok1 := e.word(t.X)
			b, ok2 := e.word(t.Y)
			if !ok1 || !ok2 {
				return bword{}, false
			}
			var w bword
			for i := range w {
				switch t.Op {
				case token.XOR:
					w[i] = bxor(a[i], b[i])
				case token.AND:
					w[i] = band(a[i], b[i])
				case token.OR:
					w[i] = bor(a[i], b[i])
				default:
					w[i] = band(a[i], bnot(b[i]))
				}
			}
			return w, true
		case token.SHL, token.SHR:
			a, ok := e.word(t.X)
			tv, isC := e.info.Types[t.Y]
			if !ok || !isC || tv.Value == nil {
				return bword{}, false
			}
			k, _ := constant.Int64Val(tv.Value)
			return shiftWord(a, int(k), t.Op == token.SHL), true
		}
	case *ast.UnaryExpr:
		if t.Op == token.XOR {
			a, ok := e.word(t.X)
			if !ok {
				return bword{}, false
			}
			var w bword
			for i := range w {
				w[i] = bnot(a[i])
			}
			return w, true
		}
	case *ast.CallExpr:
		// conversions between unsigned integer types of at most 64 bits
		if tv, ok := e.info.Types[t.Fun]; ok && tv.IsType() && len(t.Args) == 1 {
			return e.word(t.Args[0])
		}
	}
	return bword{}, false
}

func shiftWord(a bword, k int, left bool) bword {
	var w bword
	for i := range w {
		src := i - k
		if !left {
			src = i + k
		}
		if src < 0 || src >= 64 {
			w[i] = bfalse()
		} else {
			w[i] = a[src]
		}
	}
	return w
}

func (e *labelEval) boolean(x ast.Expr) (bval, bool) {
	x = ast.Unparen(x)
	switch t := x.(type) {
	case *ast.Ident:
		if a, ok := e.alias[t.Name]; ok {
			if f, ok := e.bools[a]; ok {
				return bval{kind: "and", fs: []bfun{f}}, true
			}
		}
	case *ast.UnaryExpr:
		if t.Op == token.NOT {
			v, ok := e.boolean(t.X)
			if !ok {
				return bval{}, false
			}
			out := bval{kind: map[string]string{"and": "or", "or": "and"}[v.kind]}
			for _, f := range v.fs {
				out.fs = append(out.fs, bnot(f))
			}
			return out, true
		}
	case *ast.BinaryExpr:
		switch t.Op {
		case token.LAND, token.LOR:
			a, ok1 := e.boolean(t.X)
			b, ok2 := e.boolean(t.Y)
			if !ok1 || !ok2 {
				return bval{}, false
			}
			want := "and"
			if t.Op == token.LOR {
				want = "or"
			}
			if (a.kind != want && len(a.fs) > 1) || (b.kind != want && len(b.fs) > 1) {
				e.bad("mixed conjunction and disjunction in %s", types.ExprString(x))
				return bval{}, false
			}
			return bval{kind: want, fs: append(append([]bfun{}, a.fs...), b.fs...)}, true
		case token.EQL, token.NEQ:
			a, ok1 := e.word(t.X)
			b, ok2 := e.word(t.Y)
			if !ok1 || !ok2 {
				return bval{}, false
			}
			out := bval{kind: "and"}
			if t.Op == token.NEQ {
				out.kind = "or"
			}
			for i := 0; i < 64; i++ {
				if t.Op == token.EQL {
					out.fs = append(out.fs, bxnor(a[i], b[i]))
				} else {
					out.fs = append(out.fs, bxor(a[i], b[i]))
				}
			}
			return out, true
		}
	}
	return bval{}, false
}

// block interprets statements under the path condition cond; returns the result of a return statement.
func (e *labelEval) block(list []ast.Stmt, cond bfun) (bval, bool) {
	for _, st := range list {
		if e.fail != "" {
			return bval{}, false
		}
		switch t := st.(type) {
		case *ast.EmptyStmt:
		case *ast.ReturnStmt:
			if len(t.Results) == 0 {
				return bval{}, false
			}
			if len(t.Results) != 1 {
				e.bad("return of %d values", len(t.Results))
				return bval{}, false
			}
			v, ok := e.boolean(t.Results[0])
			if !ok {
				e.bad("result %s", types.ExprString(t.Results[0]))
				return bval{}, false
			}
			return v, true
		case *ast.AssignStmt:
			allBlank := true
			for _, l := range t.Lhs {
				if id, ok := l.(*ast.Ident); !ok || id.Name != "_" {
					allBlank = false
				}
			}
			if allBlank {
				continue
			}
			if len(t.Lhs) != 1 || len(t.Rhs) != 1 {
				e.bad("assignment %s", types.ExprString(t.Lhs[0]))
				continue
			}
			k, ok := e.fieldKey(t.Lhs[0])
			if !ok {
				e.bad("assignment to %s", types.ExprString(t.Lhs[0]))
				continue
			}
			r, ok := e.word(t.Rhs[0])
			if !ok {
				e.bad("value %s", types.ExprString(t.Rhs[0]))
				continue
			}
			cur := e.words[k]
			var nw bword
			for i := range nw {
				var v bfun
				switch t.Tok {
				case token.ASSIGN:
					v = r[i]
				case token.XOR_ASSIGN:
					v = bxor(cur[i], r[i])
				case token.AND_ASSIGN:
					v = band(cur[i], r[i])
				case token.OR_ASSIGN:
					v = bor(cur[i], r[i])
				case token.AND_NOT_ASSIGN:
					v = band(cur[i], bnot(r[i]))
				case token.SHL_ASSIGN, token.SHR_ASSIGN:
					v = bfalse() // filled below
				default:
					e.bad("assignment operator %s", t.Tok)
				}
				nw[i] = v
			}
			if t.Tok == token.SHL_ASSIGN || t.Tok == token.SHR_ASSIGN {
				tv, isC := e.info.Types[t.Rhs[0]]
				if !isC || tv.Value == nil {
					e.bad("shift by a non-constant")
					continue
				}
				kk, _ := constant.Int64Val(tv.Value)
				nw = shiftWord(cur, int(kk), t.Tok == token.SHL_ASSIGN)
			}
			// under the path condition
			for i := range nw {
				nw[i] = bite(cond, nw[i], cur[i])
			}
			e.words[k] = nw
		case *ast.IfStmt:
			if t.Init != nil {
				e.bad("if with an init statement")
				continue
			}
			c, ok := e.boolean(t.Cond)
			if !ok || len(c.fs) != 1 {
				e.bad("condition %s", types.ExprString(t.Cond))
				continue
			}
			if _, ok := e.block(t.Body.List, band(cond, c.fs[0])); ok {
				e.bad("return inside a branch")
			}
			switch el := t.Else.(type) {
			case nil:
			case *ast.BlockStmt:
				if _, ok := e.block(el.List, band(cond, bnot(c.fs[0]))); ok {
					e.bad("return inside a branch")
				}
			default:
				e.bad("else-if chain")
			}
		case *ast.DeferStmt:
			if fl, ok := t.Call.Fun.(*ast.FuncLit); !ok || len(fl.Body.List) != 0 {
				e.bad("defer")
			}
		default:
			e.bad("statement %T", st)
		}
	}
	return bval{}, false
}
