package props

import (
	"fmt"
	"go/token"
	"strings"

	"golang.org/x/tools/go/ssa"

	"mpcverif/internal/load"
	"mpcverif/internal/report"
)

// C01offset (O1): the free-XOR offset has its permute bit set before it is used.
func C01offset(p *load.Program, run *report.Run) {
	run.Rule("O1-offset-permute-bit", "where the free-XOR offset r is drawn (Circuit.Garble, NewStreaming), r.SetS(true) is called on it and dominates every later read of r — the algebra of O2–O10 assumes S(r)=1 (point-and-permute)")
	type ref struct{ typ, name string }
	for _, r := range []ref{{"Circuit", "Garble"}, {"", "NewStreaming"}} {
		var fn *ssa.Function
		var err error
		key := "circuit." + r.name
		if r.typ != "" {
			fn, err = p.Method("circuit", r.typ, r.name)
			key = "circuit." + r.typ + "." + r.name
		} else {
			fn, err = p.Func("circuit", r.name)
		}
		if err != nil {
			run.Undecided("O1-offset-permute-bit", key, "", err.Error())
			continue
		}
		run.Count("offset-sites", 1)
		// the SetS(true) call and the cell it is applied to
		var set *ssa.Call
		var cell ssa.Value
		for _, b := range fn.Blocks {
			for _, ins := range b.Instrs {
				c, ok := ins.(*ssa.Call)
				if !ok || c.Call.StaticCallee() == nil || c.Call.StaticCallee().String() != "(*"+load.Module+"/ot.Label).SetS" {
					continue
				}
				if k, ok := c.Call.Args[1].(*ssa.Const); ok && k.Value != nil && k.Value.String() == "true" {
					set, cell = c, c.Call.Args[0]
				}
			}
		}
		if set == nil {
			run.Violate("O1-offset-permute-bit", key, p.Rel(fn.Pos()), "the offset is never given its permute bit (no r.SetS(true))", nil)
			continue
		}
		// every read of the cell must come after the call
		bad := ""
		for _, b := range fn.Blocks {
			for i, ins := range b.Instrs {
				u, ok := ins.(*ssa.UnOp)
				if !ok || u.Op != token.MUL || u.X != cell {
					continue
				}
				after := set.Block().Dominates(b) && (set.Block() != b || instrIndex(set) < i)
				if !after {
					bad = p.Rel(u.Pos())
				}
			}
		}
		if bad != "" {
			run.Violate("O1-offset-permute-bit", key, p.Rel(set.Pos()), "the offset is read at "+bad+" before its permute bit is set", nil)
		} else {
			run.OK("O1-offset-permute-bit", key, p.Rel(set.Pos()), "SetS(true) dominates every read of r")
		}
		inputWireOrigin(p, run, fn, key, cell)
	}
	run.Floor("offset-sites", 2)
	run.Floor("input-wire-stores", 2)
}

// inputWireOrigin (base case of the induction behind O2–O4): every wire the
// constructor itself places into the wire storage is the first result of
// makeLabels(rand, r) — the helper proved by O2 to return {fresh, fresh^r} — drawn
// in the same loop iteration as the store, with r the offset cell of O1.
func inputWireOrigin(p *load.Program, run *report.Run, fn *ssa.Function, key string, cell ssa.Value) {
	rule := "O2-input-wires-from-makeLabels"
	mk, err := p.Func("circuit", "makeLabels")
	if err != nil {
		run.Undecided(rule, key, "", err.Error())
		return
	}
	isWire := func(v ssa.Value) bool { return typeName(v.Type()) == "Wire" && isWireType(v.Type()) }
	// is v a load of the offset: *cell, or *(&obj.f) where obj.f was stored from *cell
	var isOffset func(v ssa.Value, depth int) bool
	isOffset = func(v ssa.Value, depth int) bool {
		u, ok := v.(*ssa.UnOp)
		if !ok || u.Op != token.MUL || depth > 3 {
			return false
		}
		if u.X == cell {
			return true
		}
		fa, ok := u.X.(*ssa.FieldAddr)
		if !ok {
			return false
		}
		for _, b := range fn.Blocks {
			for _, ins := range b.Instrs {
				if st, ok := ins.(*ssa.Store); ok {
					if fa2, ok := st.Addr.(*ssa.FieldAddr); ok && fa2.X == fa.X && fa2.Field == fa.Field && isOffset(st.Val, depth+1) {
						return true
					}
				}
			}
		}
		return false
	}
	check := func(v ssa.Value, at ssa.Instruction) {
		run.Count("input-wire-stores", 1)
		pos := p.Rel(at.Pos())
		ex, ok := v.(*ssa.Extract)
		if !ok || ex.Index != 0 {
			// the pair built in place: L0 from a window of a buffer filled by one io.ReadFull of the entropy source,
			// the window advanced by a label per wire, L1 a copy of L0 xor the offset
			if why := inlineFreshPair(v, isOffset); why == "" {
				run.OK(rule, key, pos, "L0 from its own window of a buffer filled by io.ReadFull, L1 = L0 xor r")
				return
			}
			run.Violate(rule, key, pos, "a wire placed into the wire storage is not the result of makeLabels: that it is {fresh, fresh^r} is not established", nil)
			return
		}
		call, ok := ex.Tuple.(*ssa.Call)
		if !ok || call.Call.StaticCallee() != mk {
			run.Violate(rule, key, pos, "a wire placed into the wire storage is not the result of makeLabels: that it is {fresh, fresh^r} is not established", nil)
			return
		}
		if len(call.Call.Args) != 2 || !isOffset(call.Call.Args[1], 0) {
			run.Violate(rule, key, pos, "makeLabels is not given the offset whose permute bit O1 establishes", nil)
			return
		}
		// drawn per wire: the call is in the loop of the store
		if !sameLoops(call.Block(), at.Block()) {
			run.Violate(rule, key, pos, "the labels are not drawn in the loop iteration that stores them (one draw serves several wires)", nil)
			return
		}
		run.OK(rule, key, pos, "makeLabels(rand, r) per stored wire")
	}
	for _, b := range fn.Blocks {
		for _, ins := range b.Instrs {
			switch t := ins.(type) {
			case *ssa.Store:
				if isWire(t.Val) {
					check(t.Val, t)
				}
			case *ssa.Call:
				// a helper that builds the pairs in place in a window of the wire storage
				if cal := t.Call.StaticCallee(); cal != nil && load.InModule(cal) && cal != mk {
					if ri, wi, ok := inPlacePairMaker(cal); ok && ri < len(t.Call.Args) && wi < len(t.Call.Args) {
						run.Count("input-wire-stores", 2)
						pos := p.Rel(t.Pos())
						if !isOffset(t.Call.Args[ri], 0) {
							run.Violate(rule, key, pos, cal.Name()+" is not given the offset whose permute bit O1 establishes", nil)
						} else {
							run.OK(rule, key, pos, cal.Name()+" stores {fresh, fresh^r} into every element of the window it is given")
						}
						continue
					}
				}
				if cal := t.Call.StaticCallee(); cal != nil && load.InModule(cal) && cal != mk {
					for _, a := range t.Call.Args {
						if isWire(a) {
							check(a, t)
						}
					}
				}
			}
		}
	}
}

// sameLoops: the two blocks lie in the same set of natural loops.
func sameLoops(a, b *ssa.BasicBlock) bool {
	return loopSet(a) == loopSet(b)
}

func loopSet(b *ssa.BasicBlock) string {
	fn := b.Parent()
	out := ""
	for _, h := range fn.Blocks {
		in := false
		for _, pr := range h.Preds {
			if !h.Dominates(pr) {
				continue
			}
			body := map[*ssa.BasicBlock]bool{h: true}
			stack := []*ssa.BasicBlock{pr}
			for len(stack) > 0 {
				x := stack[len(stack)-1]
				stack = stack[:len(stack)-1]
				if body[x] {
					continue
				}
				body[x] = true
				stack = append(stack, x.Preds...)
			}
			if body[b] {
				in = true
			}
		}
		if in {
			out += fmt.Sprintf("L%d ", h.Index)
		}
	}
	return out
}

// inPlacePairMaker: fn fills every element of a []ot.Wire parameter, in one loop, with a fresh label and
// that label xor the ot.Label parameter: `w[i].L0, err = ot.NewLabel(rand); w[i].L1 = w[i].L0;
// w[i].L1.Xor(r)`.  It returns the indices of the offset parameter and of the window parameter.
func inPlacePairMaker(fn *ssa.Function) (rIdx, wIdx int, ok bool) {
	rIdx, wIdx = -1, -1
	for i, prm := range fn.Params {
		switch {
		case strings.HasSuffix(prm.Type().String(), "/ot.Label"):
			rIdx = i
		case prm.Type().String() == "[]"+load.Module+"/ot.Wire":
			wIdx = i
		}
	}
	if rIdx < 0 || wIdx < 0 || fn.Blocks == nil {
		return 0, 0, false
	}
	wires := fn.Params[wIdx]
	elemField := func(addr ssa.Value) (idx ssa.Value, field string, ok bool) {
		fa, isFA := addr.(*ssa.FieldAddr)
		if !isFA {
			return nil, "", false
		}
		ia, isIA := fa.X.(*ssa.IndexAddr)
		if !isIA || ia.X != ssa.Value(wires) {
			return nil, "", false
		}
		return ia.Index, structFieldName(fa.X.Type(), fa.Field), true
	}
	var l0Fresh, l1Copy, l1Xor bool
	other := false
	for _, b := range fn.Blocks {
		for _, ins := range b.Instrs {
			switch t := ins.(type) {
			case *ssa.Store:
				_, f, isEl := elemField(t.Addr)
				if !isEl {
					if ia, isIA := t.Addr.(*ssa.IndexAddr); isIA && ia.X == ssa.Value(wires) {
						other = true // a whole wire stored: not this idiom
					}
					continue
				}
				switch f {
				case "L0":
					if ex, isEx := t.Val.(*ssa.Extract); isEx && ex.Index == 0 {
						if c, isC := ex.Tuple.(*ssa.Call); isC && c.Call.StaticCallee() != nil && c.Call.StaticCallee().String() == load.Module+"/ot.NewLabel" && blockReaches(b, b) {
							l0Fresh = true
							continue
						}
					}
					other = true
				case "L1":
					if ld, isLd := t.Val.(*ssa.UnOp); isLd && ld.Op == token.MUL {
						if _, f2, isEl2 := elemField(ld.X); isEl2 && f2 == "L0" {
							l1Copy = true
							continue
						}
					}
					other = true
				}
			case *ssa.Call:
				if cal := t.Call.StaticCallee(); cal != nil && cal.String() == "(*"+load.Module+"/ot.Label).Xor" && len(t.Call.Args) == 2 {
					if _, f, isEl := elemField(t.Call.Args[0]); isEl && f == "L1" && t.Call.Args[1] == ssa.Value(fn.Params[rIdx]) {
						l1Xor = true
					}
				}
			}
		}
	}
	return rIdx, wIdx, l0Fresh && l1Copy && l1Xor && !other
}

// inlineFreshPair: v is `ot.Wire{L0: l0, L1: l1}` with l0 set by SetBytes from a window of a byte buffer that one
// io.ReadFull(rand, buf) — error tested — filled before the loop, the window advancing by at least a label per
// iteration (`seed = seed[16:]`), and l1 a copy of l0 to which Xor(offset) is applied.  Returns "" if so.
func inlineFreshPair(v ssa.Value, isOffset func(ssa.Value, int) bool) string {
	ld, ok := v.(*ssa.UnOp)
	if !ok || ld.Op != token.MUL {
		return "not a composite value"
	}
	al, ok := ld.X.(*ssa.Alloc)
	if !ok || al.Referrers() == nil {
		return "not a local composite"
	}
	cellOf := func(field string) *ssa.Alloc {
		var out *ssa.Alloc
		n := 0
		for _, rf := range *al.Referrers() {
			fa, ok := rf.(*ssa.FieldAddr)
			if !ok || structFieldName(fa.X.Type(), fa.Field) != field || fa.Referrers() == nil {
				continue
			}
			for _, r2 := range *fa.Referrers() {
				st, ok := r2.(*ssa.Store)
				if !ok || st.Addr != ssa.Value(fa) {
					continue
				}
				n++
				if l, ok := st.Val.(*ssa.UnOp); ok && l.Op == token.MUL {
					if c, ok := l.X.(*ssa.Alloc); ok {
						out = c
					}
				}
			}
		}
		if n != 1 {
			return nil
		}
		return out
	}
	a, b := cellOf("L0"), cellOf("L1")
	if a == nil || b == nil || a == b || a.Referrers() == nil || b.Referrers() == nil {
		return "L0 and L1 are not two local labels"
	}
	// l1 := l0; l1.Xor(r)
	copied, xored := 0, 0
	for _, rf := range *b.Referrers() {
		switch t := rf.(type) {
		case *ssa.Store:
			if t.Addr != ssa.Value(b) {
				continue
			}
			if l, ok := t.Val.(*ssa.UnOp); ok && l.Op == token.MUL && l.X == ssa.Value(a) {
				copied++
			} else {
				return "L1 is assigned something other than L0"
			}
		case *ssa.Call:
			callee := t.Call.StaticCallee()
			if callee == nil || len(t.Call.Args) == 0 || t.Call.Args[0] != ssa.Value(b) {
				continue
			}
			if callee.Name() == "Xor" && len(t.Call.Args) == 2 && isOffset(t.Call.Args[1], 0) {
				xored++
			} else if callee.Name() != "Xor" {
				return "L1 is changed by " + callee.Name()
			} else {
				return "L1 is xored with something other than the offset"
			}
		}
	}
	if copied != 1 || xored != 1 {
		return "L1 is not one copy of L0 with one Xor of the offset"
	}
	// l0.SetBytes(window)
	var win ssa.Value
	for _, rf := range *a.Referrers() {
		switch t := rf.(type) {
		case *ssa.Store:
			if t.Addr == ssa.Value(a) {
				return "L0 is assigned directly"
			}
		case *ssa.Call:
			callee := t.Call.StaticCallee()
			if callee == nil || len(t.Call.Args) == 0 || t.Call.Args[0] != ssa.Value(a) {
				continue
			}
			if callee.Name() == "SetBytes" && len(t.Call.Args) == 2 && win == nil {
				win = t.Call.Args[1]
			} else {
				return "L0 is changed by " + callee.Name()
			}
		}
	}
	ph, ok := win.(*ssa.Phi)
	if !ok {
		return "L0 is not read from an advancing window"
	}
	var buf ssa.Value
	advanced := false
	for _, e := range ph.Edges {
		if sl, ok := e.(*ssa.Slice); ok && sl.X == ssa.Value(ph) && sl.High == nil {
			if k, ok := sl.Low.(*ssa.Const); ok && k.Value != nil && k.Int64() >= 16 {
				advanced = true
				continue
			}
			return "the window does not advance by a label"
		}
		if buf != nil && buf != e {
			return "the window starts from more than one buffer"
		}
		buf = e
	}
	if !advanced || buf == nil {
		return "the window does not advance"
	}
	// io.ReadFull(rand, buf) with its error tested, before the loop
	fn := ph.Parent()
	for _, blk := range fn.Blocks {
		for _, ins := range blk.Instrs {
			c, ok := ins.(*ssa.Call)
			if !ok || c.Call.StaticCallee() == nil || c.Call.StaticCallee().String() != "io.ReadFull" || len(c.Call.Args) != 2 || c.Call.Args[1] != buf {
				continue
			}
			if !blk.Dominates(ph.Block()) || c.Referrers() == nil {
				continue
			}
			for _, rf := range *c.Referrers() {
				ex, ok := rf.(*ssa.Extract)
				if !ok || ex.Index != 1 || ex.Referrers() == nil {
					continue
				}
				for _, r2 := range *ex.Referrers() {
					bo, ok := r2.(*ssa.BinOp)
					if !ok || bo.Op != token.NEQ || bo.Referrers() == nil {
						continue
					}
					for _, r3 := range *bo.Referrers() {
						if iff, ok := r3.(*ssa.If); ok && errorExit(iff.Block().Succs[0]) {
							return ""
						}
					}
				}
			}
		}
	}
	return "the buffer is not filled by an io.ReadFull whose error ends the function"
}
