package props

import (
	"go/token"

	"golang.org/x/tools/go/ssa"

	"mpcverif/internal/load"
	"mpcverif/internal/report"
)

// C01offset (O1): the free-XOR offset has its permute bit set before it is used.
func C01offset(p *load.Program, run *report.Run) {
	run.Rule("O1-offset-permute-bit", "where the free-XOR offset r is drawn (Circuit.Garble, NewStreaming), r.SetS(true) is called on it and dominates every later read of r — the algebra of O2–O10 assumes S(r)=1 (point-and-permute)")
	type ref struct{ typ, name string }
	for _, r := range []ref{{"Circuit", "Garble"}, {"", "NewStreaming"}} {
		var fn *ssa.Function
		var err error
		key := "circuit." + r.name
		if r.typ != "" {
			fn, err = p.Method("circuit", r.typ, r.name)
			key = "circuit." + r.typ + "." + r.name
		} else {
			fn, err = p.Func("circuit", r.name)
		}
		if err != nil {
			run.Undecided("O1-offset-permute-bit", key, "", err.Error())
			continue
		}
		run.Count("offset-sites", 1)
		// the SetS(true) call and the cell it is applied to
		var set *ssa.Call
		var cell ssa.Value
		for _, b := range fn.Blocks {
			for _, ins := range b.Instrs {
				c, ok := ins.(*ssa.Call)
				if !ok || c.Call.StaticCallee() == nil || c.Call.StaticCallee().String() != "(*"+load.Module+"/ot.Label).SetS" {
					continue
				}
				if k, ok := c.Call.Args[1].(*ssa.Const); ok && k.Value != nil && k.Value.String() == "true" {
					set, cell = c, c.Call.Args[0]
				}
			}
		}
		if set == nil {
			run.Violate("O1-offset-permute-bit", key, p.Rel(fn.Pos()), "the offset is never given its permute bit (no r.SetS(true))", nil)
			continue
		}
		// every read of the cell must come after the call
		bad := ""
		for _, b := range fn.Blocks {
			for i, ins := range b.Instrs {
				u, ok := ins.(*ssa.UnOp)
				if !ok || u.Op != token.MUL || u.X != cell {
					continue
				}
				after := set.Block().Dominates(b) && (set.Block() != b || instrIndex(set) < i)
				if !after {
					bad = p.Rel(u.Pos())
				}
			}
		}
		if bad != "" {
			run.Violate("O1-offset-permute-bit", key, p.Rel(set.Pos()), "the offset is read at "+bad+" before its permute bit is set", nil)
		} else {
			run.OK("O1-offset-permute-bit", key, p.Rel(set.Pos()), "SetS(true) dominates every read of r")
		}
	}
	run.Floor("offset-sites", 2)
}
