package props

import (
	"fmt"
	"go/ast"
	"go/token"
	"go/types"
	"strings"

	"golang.org/x/tools/go/packages"

	"mpcverif/internal/dispatch"
	"mpcverif/internal/load"
	"mpcverif/internal/report"
)

// bitTest recognises X.Bit(J) == 1 / != 0 (positive) and == 0 / != 1 (negative).
func bitTest(pkg *packages.Package, e ast.Expr) (index string, positive, ok bool) {
	be, isBin := ast.Unparen(e).(*ast.BinaryExpr)
	if !isBin || (be.Op != token.EQL && be.Op != token.NEQ) {
		return "", false, false
	}
	call, k := be.X, be.Y
	if _, isCall := ast.Unparen(call).(*ast.CallExpr); !isCall {
		call, k = k, call
	}
	c, isCall := ast.Unparen(call).(*ast.CallExpr)
	if !isCall || len(c.Args) != 1 || !isSel(c.Fun, "Bit") {
		return "", false, false
	}
	v, isConst := constOf(pkg, k)
	if !isConst || (v != 0 && v != 1) {
		return "", false, false
	}
	return types.ExprString(ast.Unparen(unwrapConv(c.Args[0]))), (v == 1) == (be.Op == token.EQL), true
}

// localDef returns the expression a local is defined with inside body (x := e), or e itself.
func localDef(body *ast.BlockStmt, e ast.Expr) ast.Expr {
	id, ok := ast.Unparen(e).(*ast.Ident)
	if !ok {
		return e
	}
	var def ast.Expr
	ast.Inspect(body, func(n ast.Node) bool {
		if as, ok := n.(*ast.AssignStmt); ok && as.Tok == token.DEFINE && len(as.Rhs) == 1 {
			for i, l := range as.Lhs {
				if li, ok := l.(*ast.Ident); ok && li.Name == id.Name && i == 0 {
					def = as.Rhs[0]
				}
			}
		}
		return true
	})
	if def != nil {
		return def
	}
	return e
}

// loopVar is the counter of a classic or range loop.
func loopVar(s ast.Stmt) (string, *ast.BlockStmt) {
	switch t := s.(type) {
	case *ast.ForStmt:
		if as, ok := t.Init.(*ast.AssignStmt); ok && len(as.Lhs) == 1 {
			return types.ExprString(as.Lhs[0]), t.Body
		}
	case *ast.RangeStmt:
		if t.Key != nil {
			return types.ExprString(t.Key), t.Body
		}
	}
	return "", nil
}

// C02bits: input bit i selects the label of input wire i with the right
// polarity, and result label i becomes result bit i.
func C02bits(p *load.Program, run *report.Run) {
	run.Rule("bit-wire-correspondence", "LabelForBit returns L1 for true and L0 for false; the garbler encodes input bit i as LabelForBit(Wires[i], inputs.Bit(i) == 1); the evaluator sets choice flag i from inputs.Bit(i) == 1; the garbler (and the streamer) store the bit decoded from result label i with SetBit(result, i, bit), bit = 1 exactly when the decoded value is true")
	pkg := p.ByPath[load.Module+"/circuit"]
	if pkg == nil {
		run.Undecided("bit-wire-correspondence", "circuit", "", "package not found")
		return
	}
	// LabelForBit
	if _, fd := dispatch.FindFunc(p, "circuit", "", "LabelForBit"); fd == nil {
		run.Undecided("bit-wire-correspondence", "circuit.LabelForBit", "", "function not found")
	} else {
		params := wireParams(fd) // all but the first: the bool
		verdict, why := "undecided", "shape not recognised"
		if len(params) == 1 && len(fd.Body.List) >= 1 {
			bit := params[0]
			field := func(s ast.Stmt) string {
				if r, ok := s.(*ast.ReturnStmt); ok && len(r.Results) == 1 {
					if sel, ok := r.Results[0].(*ast.SelectorExpr); ok {
						return sel.Sel.Name
					}
				}
				return ""
			}
			list := effectiveQ(pkg.TypesInfo, fd.Body.List)
			if ifs, ok := list[0].(*ast.IfStmt); ok && len(effectiveQ(pkg.TypesInfo, ifs.Body.List)) == 1 {
				cond := types.ExprString(ast.Unparen(ifs.Cond))
				then := field(effectiveQ(pkg.TypesInfo, ifs.Body.List)[0])
				other := ""
				if ifs.Else != nil {
					if eb, ok := ifs.Else.(*ast.BlockStmt); ok && len(effectiveQ(pkg.TypesInfo, eb.List)) == 1 {
						other = field(effectiveQ(pkg.TypesInfo, eb.List)[0])
					}
				} else if len(list) == 2 {
					other = field(list[1])
				}
				if cond == "!"+bit {
					then, other = other, then
					cond = bit
				}
				if cond == bit && then != "" && other != "" {
					if then == "L1" && other == "L0" {
						verdict = "ok"
					} else {
						verdict, why = "bad", fmt.Sprintf("true selects %s, false selects %s", then, other)
					}
				}
			}
		}
		switch verdict {
		case "ok":
			run.OK("bit-wire-correspondence", "circuit.LabelForBit", p.Rel(fd.Pos()), "true -> L1, false -> L0")
		case "bad":
			run.Violate("bit-wire-correspondence", "circuit.LabelForBit", p.Rel(fd.Pos()), why, nil)
		default:
			run.Undecided("bit-wire-correspondence", "circuit.LabelForBit", p.Rel(fd.Pos()), why)
		}
	}
	// the loops of the roles
	roleNames := map[string]bool{"Garbler": true, "Evaluator": true, "StreamEvaluator": true, "Stream": true, "LabelForBit": true, "BitFromLabel": true}
	type role struct{ pkg, typ, name string }
	for _, r := range []role{{"circuit", "", "Garbler"}, {"circuit", "", "Evaluator"}, {"circuit", "", "StreamEvaluator"}, {"compiler/ssa", "Program", "Stream"}} {
		rpkg0, fd0 := dispatch.FindFunc(p, r.pkg, r.typ, r.name)
		key0 := r.pkg + "." + r.name
		if fd0 == nil {
			run.Undecided("bit-wire-correspondence", key0, "", "function not found")
			continue
		}
		// the role and the helpers of its own package it delegates to (one level): a decode loop moved into a
		// helper is still a site of the role
		units := []declRef{{rpkg0, fd0}}
		for _, cd := range calleeDecls(p, rpkg0, fd0, 1) {
			if cd.pkg != rpkg0 || roleNames[cd.fd.Name.Name] {
				continue
			}
			decides := false
			ast.Inspect(cd.fd.Body, func(n ast.Node) bool {
				if c, ok := n.(*ast.CallExpr); ok {
					if _, name, _ := callName(c); name == "BitFromLabel" || name == "LabelForBit" {
						decides = true
					} else if name == "Equal" && len(c.Args) == 1 {
						// the label compared with a wire's L0 / L1 directly
						if sel, ok := ast.Unparen(c.Args[0]).(*ast.SelectorExpr); ok && (sel.Sel.Name == "L0" || sel.Sel.Name == "L1") {
							decides = true
						}
					}
				}
				return !decides
			})
			if decides {
				units = append(units, cd)
			}
		}
		for ui, u := range units {
			rpkg, fd := u.pkg, u.fd
			key := key0
			if ui > 0 {
				key = key0 + "/" + fd.Name.Name
			}
			ast.Inspect(fd.Body, func(n ast.Node) bool {
				st, ok := n.(ast.Stmt)
				if !ok {
					return true
				}
				iv, body := loopVar(st)
				if body == nil {
					return true
				}
				ast.Inspect(body, func(m ast.Node) bool {
					switch t := m.(type) {
					case *ast.ForStmt, *ast.RangeStmt:
						return m == ast.Node(body) // inner loops are visited on their own
					case *ast.AssignStmt:
						// the result collected in a big-endian byte buffer: B[len(B)-1-i/8] |= 1 << (i%8) sets bit i
						// of the value that SetBytes(B) yields
						if t.Tok == token.OR_ASSIGN && len(t.Lhs) == 1 && len(t.Rhs) == 1 {
							if ix, ok := t.Lhs[0].(*ast.IndexExpr); ok {
								if bt := rpkg.TypesInfo.TypeOf(ix.X); bt != nil && bt.String() == "[]byte" {
									bname := types.ExprString(ix.X)
									idx := strings.ReplaceAll(types.ExprString(ix.Index), " ", "")
									rhs := strings.ReplaceAll(types.ExprString(t.Rhs[0]), " ", "")
									if strings.Contains(rhs, "<<") && strings.Contains(idx, "/8") {
										run.Count("bit-sites", 1)
										wantIdx := "len(" + bname + ")-1-" + iv + "/8"
										wantRhs := "1<<(" + iv + "%8)"
										if idx == wantIdx && (rhs == wantRhs || rhs == "byte("+wantRhs+")" || rhs == "1<<uint("+iv+"%8)") {
											run.OK("bit-wire-correspondence", key+"/result-byte", p.Rel(t.Pos()), "byte len-1-i/8, bit i%8 of the big-endian buffer is bit i of the value")
										} else {
											run.Violate("bit-wire-correspondence", key+"/result-byte", p.Rel(t.Pos()), fmt.Sprintf("result bit of wire %s is stored at byte %s, bit %s of a buffer read big-endian: that is not bit %s of the value", iv, idx, rhs, iv), nil)
										}
									}
								}
							}
						}
					case *ast.CallExpr:
						_, name, _ := callName(t)
						switch {
						case name == "LabelForBit" && len(t.Args) == 2:
							run.Count("bit-sites", 1)
							w := ast.Unparen(localDef(body, t.Args[0]))
							c := localDef(body, t.Args[1])
							widx := ""
							switch d := w.(type) {
							case *ast.IndexExpr:
								widx = types.ExprString(ast.Unparen(unwrapConv(d.Index)))
							case *ast.CallExpr:
								if len(d.Args) == 1 {
									widx = types.ExprString(ast.Unparen(unwrapConv(d.Args[0])))
								}
							}
							bidx, pos, okc := bitTest(rpkg, c)
							switch {
							case !okc || widx == "":
								run.Undecided("bit-wire-correspondence", key+"/input-label", p.Rel(t.Pos()), "the wire or the bit test of LabelForBit was not recognised")
							case widx != iv || bidx != iv:
								run.Violate("bit-wire-correspondence", key+"/input-label", p.Rel(t.Pos()), fmt.Sprintf("wire %s gets the label for input bit %s (loop variable %s)", widx, bidx, iv), nil)
							case !pos:
								run.Violate("bit-wire-correspondence", key+"/input-label", p.Rel(t.Pos()), "the label for true is sent when the input bit is 0", nil)
							default:
								run.OK("bit-wire-correspondence", key+"/input-label", p.Rel(t.Pos()), "Wires[i] <- Bit(i) == 1")
							}
						case name == "SetBit" && len(t.Args) == 3:
							run.Count("bit-sites", 1)
							k := types.ExprString(ast.Unparen(unwrapConv(t.Args[1])))
							// polarity of the stored bit: `if B { bit = 1 }` or the streamer's chain (decided by C16)
							pol := ""
							if id, ok := ast.Unparen(t.Args[2]).(*ast.Ident); ok {
								ast.Inspect(body, func(q ast.Node) bool {
									ifs, ok := q.(*ast.IfStmt)
									if !ok {
										return true
									}
									for _, s := range effectiveQ(rpkg.TypesInfo, ifs.Body.List) {
										if as, ok := s.(*ast.AssignStmt); ok && len(as.Lhs) == 1 && types.ExprString(as.Lhs[0]) == id.Name {
											if v, ok := constOf(rpkg, as.Rhs[0]); ok {
												cond := ast.Unparen(ifs.Cond)
												if _, isCall := cond.(*ast.CallExpr); isCall {
													pol = "by-comparison"
												} else if u, ok := cond.(*ast.UnaryExpr); ok && u.Op == token.NOT {
													pol = map[bool]string{true: "neg", false: "pos"}[v == 1]
												} else if _, ok := cond.(*ast.Ident); ok {
													pol = map[bool]string{true: "pos", false: "neg"}[v == 1]
												}
											}
										}
									}
									return true
								})
							}
							// SetBit(result, i, 1) under `if bit` (the zero bits are the fresh integer's own)
							if v, ok := constOf(rpkg, t.Args[2]); ok && pol == "" {
								ast.Inspect(body, func(q ast.Node) bool {
									ifs, ok := q.(*ast.IfStmt)
									if !ok || ifs.Else != nil {
										return true
									}
									inside := false
									ast.Inspect(ifs.Body, func(r ast.Node) bool {
										if r == ast.Node(t) {
											inside = true
										}
										return !inside
									})
									if !inside {
										return true
									}
									cond := ast.Unparen(ifs.Cond)
									if u, ok := cond.(*ast.UnaryExpr); ok && u.Op == token.NOT {
										if _, isId := ast.Unparen(u.X).(*ast.Ident); isId {
											pol = map[bool]string{true: "neg", false: "pos"}[v == 1]
										}
									} else if _, ok := cond.(*ast.Ident); ok {
										pol = map[bool]string{true: "pos", false: "neg"}[v == 1]
									}
									return true
								})
							}
							// SetBit(result, i, 1) on the arm of the comparison chain taken for L1 (label.Equal(wire.L1)); the
							// rejection of a label that is neither is C16's rule
							if v, ok := constOf(rpkg, t.Args[2]); ok && pol == "" {
								ast.Inspect(body, func(q ast.Node) bool {
									ifs, ok := q.(*ast.IfStmt)
									if !ok {
										return true
									}
									direct := false
									for _, st := range ifs.Body.List {
										if es, ok := st.(*ast.ExprStmt); ok && ast.Unparen(es.X) == ast.Expr(t) {
											direct = true
										}
									}
									call, isCall := ast.Unparen(ifs.Cond).(*ast.CallExpr)
									if !direct || !isCall || len(call.Args) != 1 {
										return true
									}
									if sel, ok := ast.Unparen(call.Fun).(*ast.SelectorExpr); !ok || sel.Sel.Name != "Equal" {
										return true
									}
									which := ""
									for _, e := range []ast.Expr{call.Args[0], call.Fun.(*ast.SelectorExpr).X} {
										if sel, ok := ast.Unparen(e).(*ast.SelectorExpr); ok && (sel.Sel.Name == "L0" || sel.Sel.Name == "L1") {
											which = sel.Sel.Name
										}
									}
									switch {
									case which == "L1" && v == 1, which == "L0" && v == 0:
										pol = "by-comparison"
									case which != "":
										pol = "neg"
									}
									return true
								})
							}
							// the bit is the first result of a function that resolves the label against the wire and
							// that the three-case evaluation accepts (L0 -> 0, L1 -> 1)
							if call, ok := ast.Unparen(unwrapConv(t.Args[2])).(*ast.CallExpr); ok && pol == "" {
								var fid *ast.Ident
								switch f := ast.Unparen(call.Fun).(type) {
								case *ast.Ident:
									fid = f
								case *ast.SelectorExpr:
									fid = f.Sel
								}
								if fid != nil {
									if fo, ok := rpkg.TypesInfo.Uses[fid].(*types.Func); ok {
										if sf := p.SSA.FuncValue(fo); sf != nil && labelDecider(sf).ok {
											pol = "by-decider"
										}
									}
								}
							}
							if id, ok := ast.Unparen(unwrapConv(t.Args[2])).(*ast.Ident); ok && pol == "" {
								ast.Inspect(body, func(q ast.Node) bool {
									as, ok := q.(*ast.AssignStmt)
									if !ok || len(as.Rhs) != 1 || len(as.Lhs) < 1 || types.ExprString(as.Lhs[0]) != id.Name {
										return true
									}
									call, ok := ast.Unparen(as.Rhs[0]).(*ast.CallExpr)
									if !ok {
										return true
									}
									var fid *ast.Ident
									switch f := ast.Unparen(call.Fun).(type) {
									case *ast.Ident:
										fid = f
									case *ast.SelectorExpr:
										fid = f.Sel
									}
									if fid == nil {
										return true
									}
									if fo, ok := rpkg.TypesInfo.Uses[fid].(*types.Func); ok {
										if sf := p.SSA.FuncValue(fo); sf != nil && labelDecider(sf).ok {
											pol = "by-decider"
										}
									}
									return true
								})
							}
							switch {
							case k != iv:
								run.Violate("bit-wire-correspondence", key+"/result-bit", p.Rel(t.Pos()), fmt.Sprintf("the bit decoded from result label %s is stored as result bit %s", iv, k), nil)
							case pol == "neg":
								run.Violate("bit-wire-correspondence", key+"/result-bit", p.Rel(t.Pos()), "a decoded true is stored as 0", nil)
							case pol == "":
								run.Undecided("bit-wire-correspondence", key+"/result-bit", p.Rel(t.Pos()), "how the stored bit follows from the decoded value was not recognised")
							default:
								run.OK("bit-wire-correspondence", key+"/result-bit", p.Rel(t.Pos()), "SetBit(result, i, bit)")
							}
						}
					case *ast.IfStmt:
						// the evaluator's choice flags
						bidx, pos, okc := bitTest(rpkg, t.Cond)
						if !okc {
							return true
						}
						// the inline selection: if bit { n = w.L1 } else { n = w.L0 }
						selOf := func(list []ast.Stmt) (field string, wire ast.Expr) {
							l := effectiveQ(rpkg.TypesInfo, list)
							if len(l) != 1 {
								return "", nil
							}
							if as, ok := l[0].(*ast.AssignStmt); ok && len(as.Rhs) == 1 {
								if sel, ok := as.Rhs[0].(*ast.SelectorExpr); ok && (sel.Sel.Name == "L0" || sel.Sel.Name == "L1") {
									return sel.Sel.Name, sel.X
								}
							}
							return "", nil
						}
						if eb, ok := t.Else.(*ast.BlockStmt); ok {
							thenF, w := selOf(t.Body.List)
							elseF, _ := selOf(eb.List)
							if thenF != "" && elseF != "" {
								run.Count("bit-sites", 1)
								def := ast.Unparen(localDef(body, w))
								widx := ""
								switch d := def.(type) {
								case *ast.IndexExpr:
									widx = types.ExprString(ast.Unparen(unwrapConv(d.Index)))
								case *ast.CallExpr:
									if len(d.Args) == 1 {
										widx = types.ExprString(ast.Unparen(unwrapConv(d.Args[0])))
									}
								}
								if !pos {
									thenF, elseF = elseF, thenF
								}
								switch {
								case widx == "":
									run.Undecided("bit-wire-correspondence", key+"/input-label", p.Rel(t.Pos()), "the wire of the selected label was not recognised")
								case widx != iv || bidx != iv:
									run.Violate("bit-wire-correspondence", key+"/input-label", p.Rel(t.Pos()), fmt.Sprintf("wire %s gets the label for input bit %s (loop variable %s)", widx, bidx, iv), nil)
								case thenF != "L1" || elseF != "L0":
									run.Violate("bit-wire-correspondence", key+"/input-label", p.Rel(t.Pos()), "the label for true is selected when the input bit is 0", nil)
								default:
									run.OK("bit-wire-correspondence", key+"/input-label", p.Rel(t.Pos()), "wire i <- Bit(i) == 1 ? L1 : L0")
								}
								return true
							}
						}
						for _, s := range effectiveQ(rpkg.TypesInfo, t.Body.List) {
							as, ok := s.(*ast.AssignStmt)
							if !ok || len(as.Lhs) != 1 {
								continue
							}
							ix, ok := as.Lhs[0].(*ast.IndexExpr)
							if !ok || types.ExprString(as.Rhs[0]) != "true" {
								continue
							}
							if tt := rpkg.TypesInfo.TypeOf(ix.X); tt == nil || tt.String() != "[]bool" {
								continue
							}
							run.Count("bit-sites", 1)
							fidx := types.ExprString(ast.Unparen(ix.Index))
							switch {
							case fidx != iv || bidx != iv:
								run.Violate("bit-wire-correspondence", key+"/choice-flag", p.Rel(as.Pos()), fmt.Sprintf("choice flag %s is set from input bit %s", fidx, bidx), nil)
							case !pos:
								run.Violate("bit-wire-correspondence", key+"/choice-flag", p.Rel(as.Pos()), "the flag is set when the input bit is 0", nil)
							default:
								run.OK("bit-wire-correspondence", key+"/choice-flag", p.Rel(as.Pos()), "flags[i] <- Bit(i) == 1")
							}
						}
					}
					return true
				})
				return true
			})
		}
	}
	run.Floor("bit-sites", 6)
}
