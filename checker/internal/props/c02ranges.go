package props

import (
	"fmt"
	"go/ast"
	"go/token"
	"go/types"
	"strings"

	"golang.org/x/tools/go/packages"

	"mpcverif/internal/dispatch"
	"mpcverif/internal/load"
	"mpcverif/internal/report"
)

// rangeFacts is what one role of the two-party protocol does with wire numbers, evaluated for given input widths.
type rangeFacts struct {
	labelLoopBound int64   // number of garbler-input labels sent / received one by one
	labelIndex     string  // how the loop index addresses the wires ("i")
	sent           []int64 // Uint32 values sent after the OT initialisation (evaluator) ...
	checked        []int64 // ... and what the garbler compares the received values with, in order
	otLo, otHi     int64   // the wire range handed to the OT
	flagsLen       int64
	outLo          int64 // first output wire for result index 0
	why            string
}

// evalRoleRanges walks the top-level statements of a role in order, tracking integer locals.
func evalRoleRanges(pkg *packages.Package, fd *ast.FuncDecl, n0, n1, nw, nout int64, recvd []int64) rangeFacts {
	f := rangeFacts{labelLoopBound: -1, otLo: -1, otHi: -1, flagsLen: -1, outLo: -1}
	env := miniEnv{
		"int(circ.Inputs[0].Type.Bits)": n0, "circ.Inputs[0].Type.Bits": n0,
		"int(circ.Inputs[1].Type.Bits)": n1, "circ.Inputs[1].Type.Bits": n1,
		"circ.NumWires": nw, "circ.Outputs.Size()": nout, "i": 0,
	}
	// the circuit is whatever the *Circuit parameter is called
	ren := map[string]string{}
	for _, fl := range fd.Type.Params.List {
		if len(fl.Names) == 1 && namedType(pkg.TypesInfo, fl.Names[0]) == "Circuit" {
			ren[fl.Names[0].Name] = "circ"
		}
	}
	ev := func(e ast.Expr) (int64, bool) {
		saved := ren19
		ren19 = ren
		defer func() { ren19 = saved }()
		m := &miniEval{pkg: pkg, env: env}
		return m.intOf(e)
	}
	isWires := func(e ast.Expr) bool {
		t := pkg.TypesInfo.TypeOf(e)
		if t == nil {
			return false
		}
		sl, ok := t.Underlying().(*types.Slice)
		if !ok {
			return false
		}
		n := typeName(sl.Elem())
		return n == "Wire" || n == "Label"
	}
	nrecv := 0
	afterOTInit := false
	ast.Inspect(fd.Body, func(n ast.Node) bool {
		switch t := n.(type) {
		case *ast.AssignStmt:
			if len(t.Lhs) >= 1 && len(t.Rhs) == 1 {
				if c, ok := t.Rhs[0].(*ast.CallExpr); ok {
					_, name, _ := callName(c)
					switch name {
					case "ReceiveUint32":
						if afterOTInit && nrecv < len(recvd) {
							env[types.ExprString(t.Lhs[0])] = recvd[nrecv]
							nrecv++
						}
						return true
					case "InitSender", "InitReceiver":
						afterOTInit = true
						return true
					case "make":
						if len(c.Args) >= 2 && types.ExprString(c.Args[0]) == "[]bool" {
							if v, ok := ev(c.Args[1]); ok {
								f.flagsLen = v
							}
						}
						return true
					}
				}
				if id, ok := t.Lhs[0].(*ast.Ident); ok {
					if tv, ok := pkg.TypesInfo.Types[t.Rhs[0]]; ok {
						if b, ok := tv.Type.Underlying().(*types.Basic); ok && b.Info()&types.IsInteger != 0 {
							if v, ok := ev(t.Rhs[0]); ok {
								env[id.Name] = v
							}
						}
					}
					// wire := garbled.Wires[<expr>] in the result loop
					if ix, ok := t.Rhs[0].(*ast.IndexExpr); ok && isWires(ix.X) {
						if be, ok := ast.Unparen(unwrapConv(ix.Index)).(*ast.BinaryExpr); ok {
							if v, ok := ev(be); ok {
								f.outLo = v // with i = 0
							}
						}
					}
				}
			}
		case *ast.ForStmt:
			// the label loop: its body sends or receives one label per iteration and has a constant bound
			if cond, ok := t.Cond.(*ast.BinaryExpr); ok && cond.Op == token.LSS && f.labelLoopBound < 0 {
				hasLabel, hasLFB := false, false
				ast.Inspect(t.Body, func(m ast.Node) bool {
					if c, ok := m.(*ast.CallExpr); ok {
						_, nm, _ := callName(c)
						if nm == "ReceiveLabel" {
							hasLabel = true
						}
						if nm == "LabelForBit" {
							hasLFB = true
						}
					}
					return true
				})
				if v, ok := ev(cond.Y); ok && (hasLabel || hasLFB) {
					f.labelLoopBound = v
					ast.Inspect(t.Body, func(m ast.Node) bool {
						if ix, ok := m.(*ast.IndexExpr); ok && isWires(ix.X) {
							f.labelIndex = types.ExprString(ast.Unparen(unwrapConv(ix.Index)))
						}
						return true
					})
				}
			}
		case *ast.IfStmt:
			// sends inside `if err := conn.SendUint32(x); err != nil`
			if as, ok := t.Init.(*ast.AssignStmt); ok && len(as.Rhs) == 1 {
				if c, ok := as.Rhs[0].(*ast.CallExpr); ok {
					if _, name, _ := callName(c); name == "SendUint32" && afterOTInit {
						if v, ok := ev(c.Args[0]); ok {
							f.sent = append(f.sent, v)
						}
					}
				}
			}
			// the garbler's range check: offset != X || count != Y
			if be, ok := t.Cond.(*ast.BinaryExpr); ok && be.Op == token.LOR {
				for _, side := range []ast.Expr{be.X, be.Y} {
					if c, ok := side.(*ast.BinaryExpr); ok && c.Op == token.NEQ {
						if v, ok := ev(c.Y); ok {
							if l, ok := ev(c.X); ok && l != v {
								f.why = fmt.Sprintf("the range check rejects the honest values (%d vs %d)", l, v)
							}
							f.checked = append(f.checked, v)
						}
					}
				}
			}
		case *ast.CallExpr:
			// the garbler-input labels moved as one vector: X.ReceiveLabels(wires[:n]) / SendLabels(wires[:n])
			if _, name, _ := callName(t); f.labelLoopBound < 0 && len(t.Args) == 1 && (strings.HasPrefix(name, "Receive") || strings.HasPrefix(name, "Send")) && strings.HasSuffix(name, "Labels") {
				if sl, ok := t.Args[0].(*ast.SliceExpr); ok && isWires(sl.X) && sl.High != nil {
					lo := int64(0)
					okLo := true
					if sl.Low != nil {
						lo, okLo = ev(sl.Low)
					}
					if hi, ok := ev(sl.High); ok && okLo && lo == 0 {
						f.labelLoopBound = hi
						f.labelIndex = "i" // element i of a window that starts at wire 0
					}
				}
			}
			if _, name, _ := callName(t); (name == "Send" || name == "Receive") && len(t.Args) >= 1 {
				arg := t.Args[len(t.Args)-1]
				if sl, ok := arg.(*ast.SliceExpr); ok && sl.Low != nil && sl.High != nil {
					lo, ok1 := ev(sl.Low)
					hi, ok2 := ev(sl.High)
					if ok1 && ok2 {
						f.otLo, f.otHi = lo, hi
					}
				}
			}
		}
		return true
	})
	return f
}

// C02ranges: the two roles agree on which wires carry whose input and where the outputs are.
func C02ranges(p *load.Program, run *report.Run) {
	run.Rule("wire-range-agreement", "garbler and evaluator agree on the wire ranges: n0 garbler-input labels one by one onto wires 0..n0-1, the evaluator announces (offset, count) = (n0, n1) in the order in which the garbler checks them, both hand wires [n0, n0+n1) to the OT with n1 choice flags, and the result labels are the last Outputs.Size() wires — evaluated for two pairs of widths so that n0, n1 and their sum cannot be confused")
	pkg := p.ByPath[load.Module+"/circuit"]
	_, fg := dispatch.FindFunc(p, "circuit", "", "Garbler")
	_, fe := dispatch.FindFunc(p, "circuit", "", "Evaluator")
	if pkg == nil || fg == nil || fe == nil {
		run.Undecided("wire-range-agreement", "circuit.Garbler/Evaluator", "", "function not found")
		return
	}
	for _, w := range [][4]int64{{3, 5, 40, 7}, {11, 2, 90, 4}} {
		n0, n1, nw, nout := w[0], w[1], w[2], w[3]
		run.Count("width-assignments", 1)
		key := fmt.Sprintf("circuit.Garbler/Evaluator/n0=%d,n1=%d", n0, n1)
		e := evalRoleRanges(pkg, fe, n0, n1, nw, nout, nil)
		g := evalRoleRanges(pkg, fg, n0, n1, nw, nout, e.sent)
		bad := ""
		switch {
		case e.labelLoopBound != n0 || g.labelLoopBound != n0:
			bad = fmt.Sprintf("garbler-input labels: the garbler sends %d, the evaluator reads %d, the garbler's input has %d bits", g.labelLoopBound, e.labelLoopBound, n0)
		case e.labelIndex != "i" || g.labelIndex != "i":
			bad = fmt.Sprintf("garbler-input labels are addressed as wires[%s] / Wires[%s], not by their bit number", e.labelIndex, g.labelIndex)
		case len(e.sent) != 2 || e.sent[0] != n0 || e.sent[1] != n1:
			bad = fmt.Sprintf("the evaluator announces %v, expected offset %d and count %d", e.sent, n0, n1)
		case len(g.checked) != 2 || g.checked[0] != n0 || g.checked[1] != n1 || g.why != "":
			bad = fmt.Sprintf("the garbler checks the announced range against %v %s", g.checked, g.why)
		}
		if bad != "" {
			run.Violate("wire-range-agreement", key, p.Rel(fe.Pos()), bad, nil)
		} else {
			run.OK("wire-range-agreement", key, p.Rel(fe.Pos()), "")
		}
	}
	// the OT window, the choice flags and the output wires: affine facts of the SSA form
	sg, e1 := p.Func("circuit", "Garbler")
	se, e2 := p.Func("circuit", "Evaluator")
	if e1 != nil || e2 != nil {
		run.Undecided("wire-range-agreement", "circuit.Garbler/Evaluator/windows", "", "role functions not found")
	} else {
		ef := ssaRanges(se, nil)
		gf := ssaRanges(sg, ef.sent)
		key := "circuit.Garbler/Evaluator/windows"
		switch bad := checkSSARanges(gf, ef); {
		case strings.HasPrefix(bad, "undecided: "):
			run.Undecided("wire-range-agreement", key, p.Rel(se.Pos()), strings.TrimPrefix(bad, "undecided: "))
		case bad != "":
			run.Violate("wire-range-agreement", key, p.Rel(se.Pos()), bad, nil)
		default:
			run.OK("wire-range-agreement", key, p.Rel(se.Pos()), fmt.Sprintf("OT window [I0, I0+I1) on both sides, %d+%d output accesses at NumWires-Outputs.Size()+i", len(gf.outputs), len(ef.outputs)))
		}
		run.Count("wire-element-accesses", len(gf.elems)+len(ef.elems))
	}
	run.Floor("width-assignments", 2)
	run.Floor("wire-element-accesses", 4)
}
