package props

import (
	"fmt"
	"strings"

	"golang.org/x/tools/go/ssa"

	"mpcverif/internal/load"
)

// ssaRangeFacts is what a role does with the wire array, read from the SSA form as affine expressions over
// the circuit's dimensions: robust against temporaries, guards around the OT call, private copies of the
// output window and decoding through a helper.
type ssaRangeFacts struct {
	sent     []aff // integers announced after the OT initialisation
	otFound  bool
	otView   view
	otLen    aff
	flagsLen aff
	outputs  []view // element accesses whose position depends on NumWires
	elems    []view // all element accesses of wire/label arrays
	why      string
}

func isWireSlice(v ssa.Value) bool {
	s := v.Type().String()
	return strings.HasPrefix(s, "[]") && (strings.HasSuffix(s, "/ot.Wire") || strings.HasSuffix(s, "/ot.Label"))
}

func ssaRanges(fn *ssa.Function, peerSent []aff) ssaRangeFacts {
	var f ssaRangeFacts
	env := newAffEnv(fn)
	// OT initialisation
	var initBlk *ssa.BasicBlock
	for _, b := range fn.Blocks {
		for _, ins := range b.Instrs {
			if c, ok := ins.(ssa.CallInstruction); ok && c.Common().IsInvoke() && strings.HasSuffix(c.Common().Value.Type().String(), "/ot.OT") {
				if n := c.Common().Method.Name(); n == "InitSender" || n == "InitReceiver" {
					initBlk = b
				}
			}
		}
	}
	after := func(b *ssa.BasicBlock) bool { return initBlk != nil && (b == initBlk || initBlk.Dominates(b)) }
	copies := map[ssa.Value]ssa.Value{}
	nrecv := 0
	for _, b := range fn.Blocks {
		for _, ins := range b.Instrs {
			c, ok := ins.(*ssa.Call)
			if !ok {
				continue
			}
			if bi, ok := c.Call.Value.(*ssa.Builtin); ok && bi.Name() == "copy" && len(c.Call.Args) == 2 {
				if mk, ok := c.Call.Args[0].(*ssa.MakeSlice); ok {
					copies[mk] = c.Call.Args[1]
				}
			}
			callee := c.Call.StaticCallee()
			if callee == nil || !after(b) {
				continue
			}
			switch {
			case recvWrapper(callee) == "ReceiveUint32" && callee.Signature.Results().Len() == 1:
				// the integer arrives through a wrapper of the transfer (errWriter idiom)
				if nrecv < len(peerSent) {
					env.bind[c] = peerSent[nrecv]
				}
				nrecv++
			case callee.Name() == "ReceiveUint32" && callee.Signature.Recv() != nil && strings.HasSuffix(callee.Signature.Recv().Type().String(), "/p2p.Conn"):
				if c.Referrers() != nil {
					for _, r := range *c.Referrers() {
						if ex, ok := r.(*ssa.Extract); ok && ex.Index == 0 {
							if nrecv < len(peerSent) {
								env.bind[ex] = peerSent[nrecv]
							}
							nrecv++
						}
					}
				}
			}
		}
	}
	for _, b := range fn.Blocks {
		for _, ins := range b.Instrs {
			c, ok := ins.(ssa.CallInstruction)
			if !ok {
				continue
			}
			cc := c.Common()
			if callee := cc.StaticCallee(); callee != nil && callee.Name() == "SendUint32" && callee.Signature.Recv() != nil && strings.HasSuffix(callee.Signature.Recv().Type().String(), "/p2p.Conn") && after(b) {
				f.sent = append(f.sent, env.eval(cc.Args[1]))
			} else if callee != nil && after(b) && load.InModule(callee) && callee.Blocks != nil {
				// a wrapper that sends its integer parameter
				if k := sendsParam(callee, "SendUint32"); k >= 0 && k < len(cc.Args) {
					f.sent = append(f.sent, env.eval(cc.Args[k]))
				}
			}
			if cc.IsInvoke() && strings.HasSuffix(cc.Value.Type().String(), "/ot.OT") && (cc.Method.Name() == "Send" || cc.Method.Name() == "Receive") && len(cc.Args) >= 1 {
				arg := cc.Args[len(cc.Args)-1]
				f.otFound = true
				f.otView = env.viewOf(arg, copies, nil, 0)
				f.otLen = env.lenOf(arg, 0)
				if cc.Method.Name() == "Receive" && len(cc.Args) == 2 {
					f.flagsLen = env.lenOf(cc.Args[0], 0)
				}
			}
		}
	}
	// element accesses, here and one level into module helpers that are handed a window
	var collect func(g *ssa.Function, ge *affEnv, params map[ssa.Value]view, depth int)
	collect = func(g *ssa.Function, ge *affEnv, params map[ssa.Value]view, depth int) {
		for _, b := range g.Blocks {
			for _, ins := range b.Instrs {
				switch t := ins.(type) {
				case *ssa.IndexAddr:
					if !isWireSlice(t.X) {
						continue
					}
					v := ge.viewOf(t.X, copies, params, 0)
					idx := ge.eval(t.Index)
					if !v.ok || !idx.ok {
						continue
					}
					el := view{v.base, v.off.add(idx, 1), true}
					f.elems = append(f.elems, el)
					if el.off.mentions("NumWires") {
						f.outputs = append(f.outputs, el)
					}
				case *ssa.Call:
					callee := t.Call.StaticCallee()
					if callee == nil || !load.InModule(callee) || callee.Blocks == nil || depth >= 1 || callee == g {
						continue
					}
					sub := map[ssa.Value]view{}
					se := newAffEnv(callee)
					for i, a := range t.Call.Args {
						if i >= len(callee.Params) {
							break
						}
						if isWireSlice(a) {
							if v := ge.viewOf(a, copies, params, 0); v.ok {
								sub[callee.Params[i]] = v
							}
						} else if x := ge.eval(a); x.ok {
							se.bind[callee.Params[i]] = x
						}
					}
					// helpers that are handed a window, and methods of the garbling handle
					onHandle := callee.Signature.Recv() != nil && strings.HasSuffix(callee.Signature.Recv().Type().String(), "/circuit.Garbled")
					if len(sub) > 0 || onHandle {
						collect(callee, se, sub, depth+1)
					}
				}
			}
		}
	}
	collect(fn, env, nil, 0)
	return f
}

// checkSSARanges compares the facts of the two roles with the protocol's layout.
func checkSSARanges(g, e ssaRangeFacts) string {
	i0 := affSym("<Circuit>.Inputs[0].Type.Bits")
	i1 := affSym("<Circuit>.Inputs[1].Type.Bits")
	outStart := affSym("<Circuit>.NumWires").add(affSym("<Circuit>.Outputs.Size()"), -1)
	for _, r := range []struct {
		name string
		f    ssaRangeFacts
	}{{"garbler", g}, {"evaluator", e}} {
		if !r.f.otFound {
			return "the " + r.name + " hands no wire range to the OT"
		}
		if !r.f.otView.ok || !r.f.otLen.ok {
			return "undecided: the wire range the " + r.name + " hands to the OT is not an affine window of the wire array"
		}
		if !r.f.otView.off.eq(i0) || !r.f.otLen.eq(i1) {
			return fmt.Sprintf("OT range of the %s: wires [%s, +%s), expected [%s, +%s)", r.name, r.f.otView.off, r.f.otLen, i0, i1)
		}
		if len(r.f.outputs) == 0 {
			return "undecided: no access of the " + r.name + " to the output wires was found"
		}
		for _, o := range r.f.outputs {
			if o.base != r.f.otView.base {
				return fmt.Sprintf("the %s reads result labels from %s but hands %s to the OT", r.name, o.base, r.f.otView.base)
			}
			first := o.off.without("i#")
			if !first.eq(outStart) {
				return fmt.Sprintf("the %s takes result 0 from wire %s, the outputs start at %s", r.name, first, outStart)
			}
			for s, c := range o.off.sym {
				if strings.HasPrefix(s, "i#") && c != 1 {
					return fmt.Sprintf("the %s steps through the output wires with stride %d", r.name, c)
				}
			}
		}
	}
	if !e.flagsLen.ok || !e.flagsLen.eq(i1) {
		return fmt.Sprintf("%s choice flags for %s evaluator input bits", e.flagsLen, i1)
	}
	return ""
}

// sendsParam: callee hands one of its parameters to Conn.<method> (and does no other transfer); the index
// of that parameter, or -1.
func sendsParam(callee *ssa.Function, method string) int {
	if len(callee.Blocks) > 6 {
		return -1
	}
	idx := -1
	for _, b := range callee.Blocks {
		for _, ins := range b.Instrs {
			c, ok := ins.(ssa.CallInstruction)
			if !ok {
				continue
			}
			cal := c.Common().StaticCallee()
			if cal == nil || cal.Signature.Recv() == nil || !strings.HasSuffix(cal.Signature.Recv().Type().String(), "/p2p.Conn") {
				continue
			}
			if cal.Name() != method || len(c.Common().Args) < 2 {
				return -1
			}
			for i, prm := range callee.Params {
				if c.Common().Args[1] == ssa.Value(prm) {
					idx = i
				}
			}
		}
	}
	return idx
}
