package props

import (
	"fmt"
	"go/ast"
	"go/types"
	"strings"

	"mpcverif/internal/load"
	"mpcverif/internal/report"
)

// C03ctors: instruction constructors select the opcode of the operand's signedness.
func C03ctors(p *load.Program, run *report.Run) {
	run.Rule("constructor-signedness", "every ssa.New*Instr that switches on the operand type assigns an I* opcode under types.TInt, a U* opcode under types.TUint and an F* opcode under types.TFloat, all of one operation")
	pkg := p.ByPath[load.Module+"/compiler/ssa"]
	if pkg == nil {
		run.Undecided("constructor-signedness", "compiler/ssa", "", "package not loaded")
		return
	}
	for _, f := range pkg.Syntax {
		for _, d := range f.Decls {
			fd, ok := d.(*ast.FuncDecl)
			if !ok || fd.Body == nil || !strings.HasPrefix(fd.Name.Name, "New") || !strings.HasSuffix(fd.Name.Name, "Instr") {
				continue
			}
			var sw *ast.SwitchStmt
			ast.Inspect(fd.Body, func(n ast.Node) bool {
				if s, ok := n.(*ast.SwitchStmt); ok && sw == nil && s.Tag != nil && strings.HasSuffix(types.ExprString(s.Tag), ".Type") {
					sw = s
				}
				return true
			})
			if sw == nil {
				continue
			}
			run.Count("typed-constructors", 1)
			key := "compiler/ssa." + fd.Name.Name
			byType := map[string]string{}
			for _, st := range sw.Body.List {
				cc := st.(*ast.CaseClause)
				op := ""
				for _, b := range cc.Body {
					if as, ok := b.(*ast.AssignStmt); ok && len(as.Lhs) == 1 && namedType(pkg.TypesInfo, as.Lhs[0]) == "Operand" {
						op = types.ExprString(as.Rhs[0])
					}
				}
				for _, n := range caseNames(cc) {
					byType[n] = op
				}
			}
			bad := ""
			stem := ""
			for tc, prefix := range map[string]string{"TInt": "I", "TUint": "U", "TFloat": "F"} {
				op, ok := byType[tc]
				if !ok || op == "" {
					continue
				}
				if !strings.HasPrefix(op, prefix) {
					bad = fmt.Sprintf("types.%s selects %s", tc, op)
					break
				}
				if stem == "" {
					stem = op[1:]
				} else if op[1:] != stem {
					bad = fmt.Sprintf("types.%s selects %s, another case selects *%s", tc, op, stem)
					break
				}
			}
			if bad != "" {
				run.Violate("constructor-signedness", key, p.Rel(fd.Pos()), bad, nil)
			} else {
				run.OK("constructor-signedness", key, p.Rel(fd.Pos()), fmt.Sprintf("I/U/F%s", stem))
			}
		}
	}
	run.Floor("typed-constructors", 9)
}
