package props

import (
	"fmt"
	"strings"

	"golang.org/x/tools/go/ssa"

	"mpcverif/internal/load"
	"mpcverif/internal/report"
)

// C03lrvalue: an l-value is resolved when it is stored into, not before.
//
// Codegen.LookupVar returns an LRValue that captures the current SSA value of
// the variable's container (for s.f: the whole struct s).  LRValue.Set emits
// the store on that captured value.  If another store happens between the
// lookup and the Set — `p.x, p.y = a, b` with both lookups hoisted in front of
// the stores — the second store starts from the container as it was before
// the first and the first store is lost.  For every call of LRValue.Set in
// compiler/ast, no path from the LookupVar call that produced its receiver to
// the Set may pass through a Set call (another one, or the same one in an
// earlier iteration of a loop) without passing through that LookupVar again.
// Receivers kept in a slice or field are traced to the lookups stored there.
func C03lrvalue(p *load.Program, run *report.Run) {
	run.Rule("lvalue-resolved-at-store", "for every LRValue.Set in compiler/ast, on no control-flow path from the LookupVar (or Indirect) call that produced the receiver — through locals, phis, or a slice/field it was stored in — does another LRValue.Set (or the same Set in an earlier loop iteration) run before it without that lookup running again")
	pkg, err := p.Pkg("compiler/ast")
	if err != nil {
		run.Undecided("lvalue-resolved-at-store", "compiler/ast", "", err.Error())
		return
	}
	isSet := func(c ssa.CallInstruction) bool {
		f := c.Common().StaticCallee()
		return f != nil && f.Name() == "Set" && f.Signature.Recv() != nil && strings.HasSuffix(f.Signature.Recv().Type().String(), "ast.LRValue")
	}
	isLookup := func(v ssa.Value) *ssa.Call {
		c, ok := v.(*ssa.Call)
		if !ok {
			return nil
		}
		f := c.Call.StaticCallee()
		if f != nil && (f.Name() == "LookupVar" || f.Name() == "Indirect") {
			return c
		}
		return nil
	}
	for _, fn := range p.AllFunctions() {
		if fn.Pkg != pkg || fn.Blocks == nil {
			continue
		}
		var sets []ssa.CallInstruction
		for _, b := range fn.Blocks {
			for _, ins := range b.Instrs {
				if c, ok := ins.(ssa.CallInstruction); ok && isSet(c) {
					sets = append(sets, c)
				}
			}
		}
		if len(sets) == 0 {
			continue
		}
		name := strings.ReplaceAll(fn.RelString(nil), load.Module+"/", "")
		for n, s := range sets {
			run.Count("lvalue-stores", 1)
			key := fmt.Sprintf("%s/Set#%d", name, n+1)
			// origins of the receiver
			var origins []*ssa.Call
			unknown := ""
			seen := map[ssa.Value]bool{}
			var trace func(v ssa.Value, depth int)
			trace = func(v ssa.Value, depth int) {
				if seen[v] || depth > 12 {
					return
				}
				seen[v] = true
				if c := isLookup(v); c != nil {
					origins = append(origins, c)
					return
				}
				switch t := v.(type) {
				case *ssa.Extract:
					trace(t.Tuple, depth+1)
				case *ssa.Phi:
					for _, e := range t.Edges {
						trace(e, depth+1)
					}
				case *ssa.UnOp:
					// *ptr (the value receiver) or a load from memory
					switch a := t.X.(type) {
					case *ssa.IndexAddr, *ssa.FieldAddr:
						// every value stored into the same slice/field in this function
						base := addrBase(a)
						found := false
						for _, b := range fn.Blocks {
							for _, ins := range b.Instrs {
								if st, ok := ins.(*ssa.Store); ok && addrBase(st.Addr) == base && base != nil {
									found = true
									trace(st.Val, depth+1)
								}
							}
						}
						if !found {
							unknown = "the receiver is loaded from memory this function does not fill"
						}
					default:
						trace(t.X, depth+1)
					}
				case *ssa.Const:
					// nil on an untaken path
				case *ssa.Parameter, *ssa.FreeVar:
					unknown = "the receiver is handed in from outside"
				case *ssa.Call:
					unknown = "the receiver comes from " + t.Call.Value.Name()
				default:
					unknown = fmt.Sprintf("the receiver has an origin the rule does not follow (%T)", v)
				}
			}
			trace(s.Common().Args[0], 0)
			if len(origins) == 0 {
				if unknown != "" {
					run.OK("lvalue-resolved-at-store", key, p.Rel(s.Pos()), "receiver not resolved in this function ("+unknown+"): nothing to order")
				} else {
					run.OK("lvalue-resolved-at-store", key, p.Rel(s.Pos()), "no lookup in this function")
				}
				continue
			}
			bad := ""
			for _, l := range origins {
				for _, other := range sets {
					if reachAvoiding(l, other, l) && reachAvoiding(other, s, l) {
						bad = fmt.Sprintf("the l-value looked up at %s is stored into at %s after the store at %s has already run: the captured container misses that store", p.Rel(l.Pos()), p.Rel(s.Pos()), p.Rel(other.Pos()))
					}
				}
			}
			if bad != "" {
				run.Violate("lvalue-resolved-at-store", key, p.Rel(s.Pos()), bad, nil)
			} else {
				run.OK("lvalue-resolved-at-store", key, p.Rel(s.Pos()), "looked up and stored without a store in between")
			}
		}
	}
	run.Floor("lvalue-stores", 3)
}

func addrBase(v ssa.Value) ssa.Value {
	for i := 0; i < 6; i++ {
		switch t := v.(type) {
		case *ssa.IndexAddr:
			v = t.X
		case *ssa.FieldAddr:
			v = t.X
		case *ssa.UnOp:
			v = t.X
		default:
			return v
		}
	}
	return v
}

// reachAvoiding: some path executes `to` strictly after `from` without executing `avoid` in between.
func reachAvoiding(from, to, avoid ssa.Instruction) bool {
	idx := func(ins ssa.Instruction) int {
		for i, x := range ins.Block().Instrs {
			if x == ins {
				return i
			}
		}
		return -1
	}
	fb, fi := from.Block(), idx(from)
	tb, ti := to.Block(), idx(to)
	ab, ai := avoid.Block(), idx(avoid)
	// the rest of from's block
	limit := len(fb.Instrs)
	if ab == fb && ai > fi {
		limit = ai
	}
	if tb == fb && ti > fi && ti < limit {
		return true
	}
	if limit < len(fb.Instrs) {
		return false
	}
	seen := map[*ssa.BasicBlock]bool{}
	stack := append([]*ssa.BasicBlock{}, fb.Succs...)
	for len(stack) > 0 {
		b := stack[len(stack)-1]
		stack = stack[:len(stack)-1]
		if seen[b] {
			continue
		}
		seen[b] = true
		lim := len(b.Instrs)
		if ab == b {
			lim = ai
		}
		if tb == b && ti < lim {
			return true
		}
		if lim < len(b.Instrs) {
			continue
		}
		stack = append(stack, b.Succs...)
	}
	return false
}
