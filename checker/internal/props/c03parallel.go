package props

import (
	"fmt"
	"go/types"
	"sort"
	"strings"

	"golang.org/x/tools/go/ssa"

	"mpcverif/internal/load"
	"mpcverif/internal/report"
)

// C03parallel: a multi-value statement (a, b = b, a+b; for-clause init/post;
// var a, b = ...) is a parallel assignment: every right-hand side is evaluated
// in the environment before the statement, then the left-hand sides are bound.
//
// In every method of an AST node with an `Exprs` field (the right-hand sides)
// that also rebinds variables (Env.Set, Bindings.Define/Set), no evaluation of
// an element of Exprs (an interface call of Eval or SSA on it, directly or
// inside a closure of the method) may be reachable in the control-flow graph
// from a rebinding: otherwise expression k sees left-hand sides 0..k-1 already
// assigned.
func C03parallel(p *load.Program, run *report.Run) {
	run.Rule("evaluate-before-bind", "in every method of an AST node type with an Exprs field that rebinds variables (Env.Set, Bindings.Define/Set), no Eval/SSA call on an element of Exprs is reachable (CFG, closures of the method included) from a rebinding call: all right-hand sides of a multi-value assignment are evaluated before the first left-hand side is bound")
	pkg, err := p.Pkg("compiler/ast")
	if err != nil {
		run.Undecided("evaluate-before-bind", "compiler/ast", "", err.Error())
		return
	}
	var fns []*ssa.Function
	for _, m := range pkg.Members {
		t, ok := m.(*ssa.Type)
		if !ok {
			continue
		}
		st, ok := t.Type().Underlying().(*types.Struct)
		if !ok {
			continue
		}
		has := false
		for i := 0; i < st.NumFields(); i++ {
			if st.Field(i).Name() == "Exprs" {
				has = true
			}
		}
		if !has {
			continue
		}
		ms := p.SSA.MethodSets.MethodSet(types.NewPointer(t.Type()))
		for i := 0; i < ms.Len(); i++ {
			if f := p.SSA.MethodValue(ms.At(i)); f != nil && f.Blocks != nil && f.Synthetic == "" {
				fns = append(fns, f)
			}
		}
	}
	sort.Slice(fns, func(i, j int) bool { return fns[i].RelString(nil) < fns[j].RelString(nil) })
	for _, fn := range fns {
		evals, binds := parallelSites(fn)
		if len(binds) == 0 || len(evals) == 0 {
			continue
		}
		run.Count("multi-value-binders", 1)
		name := strings.ReplaceAll(fn.RelString(nil), load.Module+"/", "")
		var bad []string
		pos := ""
		for _, b := range binds {
			for _, e := range evals {
				if instrReaches(b, e) {
					bad = append(bad, fmt.Sprintf("right-hand side evaluated at %s after the rebinding at %s", p.Rel(e.Pos()), p.Rel(b.Pos())))
					if pos == "" {
						pos = p.Rel(e.Pos())
					}
				}
			}
		}
		if len(bad) > 0 {
			sort.Strings(bad)
			run.Violate("evaluate-before-bind", name, pos, "a right-hand side of the statement is evaluated after a left-hand side has been rebound: a, b = b, a+b is no longer a parallel assignment", bad)
		} else {
			run.OK("evaluate-before-bind", name, p.Rel(fn.Pos()), fmt.Sprintf("%d evaluation site(s) all precede the %d rebinding site(s)", len(evals), len(binds)))
		}
	}
	run.Floor("multi-value-binders", 3)
}

// parallelSites returns, for a method, the instructions of the method itself
// that evaluate an element of the receiver's Exprs (directly or by calling a
// closure of the method that does) and those that rebind a variable.
func parallelSites(fn *ssa.Function) (evals, binds []ssa.Instruction) {
	closureEvals := map[*ssa.Function]bool{}
	var scan func(f *ssa.Function) bool
	scan = func(f *ssa.Function) bool {
		found := false
		for _, b := range f.Blocks {
			for _, ins := range b.Instrs {
				if c, ok := ins.(ssa.CallInstruction); ok && isExprsEval(c.Common()) {
					found = true
				}
			}
		}
		for _, an := range f.AnonFuncs {
			if scan(an) {
				found = true
			}
		}
		closureEvals[f] = found
		return found
	}
	for _, an := range fn.AnonFuncs {
		scan(an)
	}
	for _, b := range fn.Blocks {
		if b == fn.Recover {
			continue
		}
		for _, ins := range b.Instrs {
			c, ok := ins.(ssa.CallInstruction)
			if !ok {
				continue
			}
			cc := c.Common()
			if isExprsEval(cc) {
				evals = append(evals, ins)
				continue
			}
			if callee := cc.StaticCallee(); callee != nil {
				if closureEvals[callee] {
					evals = append(evals, ins)
					continue
				}
				if isRebind(callee) {
					binds = append(binds, ins)
				}
				continue
			}
			// a call through a local variable holding a closure of this method
			if closureCallee(cc.Value, closureEvals) {
				evals = append(evals, ins)
			}
		}
	}
	return
}

func closureCallee(v ssa.Value, set map[*ssa.Function]bool) bool {
	switch t := v.(type) {
	case *ssa.MakeClosure:
		if f, ok := t.Fn.(*ssa.Function); ok {
			return set[f]
		}
	case *ssa.Function:
		return set[t]
	case *ssa.UnOp:
		// load of a local cell: any store of a closure into it
		if a, ok := t.X.(*ssa.Alloc); ok {
			for _, ref := range *a.Referrers() {
				if st, ok := ref.(*ssa.Store); ok && st.Addr == a && closureCallee(st.Val, set) {
					return true
				}
			}
		}
	case *ssa.Phi:
		for _, e := range t.Edges {
			if closureCallee(e, set) {
				return true
			}
		}
	}
	return false
}

// isExprsEval: an interface call of Eval or SSA whose receiver is an element of a field named Exprs.
func isExprsEval(cc *ssa.CallCommon) bool {
	if !cc.IsInvoke() || (cc.Method.Name() != "Eval" && cc.Method.Name() != "SSA") {
		return false
	}
	return fromExprs(cc.Value, 0)
}

func fromExprs(v ssa.Value, depth int) bool {
	if depth > 8 {
		return false
	}
	switch t := v.(type) {
	case *ssa.UnOp:
		return fromExprs(t.X, depth+1)
	case *ssa.IndexAddr:
		return fromExprs(t.X, depth+1)
	case *ssa.Index:
		return fromExprs(t.X, depth+1)
	case *ssa.Slice:
		return fromExprs(t.X, depth+1)
	case *ssa.FieldAddr:
		return structFieldName(t.X.Type(), t.Field) == "Exprs"
	case *ssa.Field:
		return structFieldName(t.X.Type(), t.Field) == "Exprs"
	case *ssa.Extract:
		// range over a slice is lowered to IndexAddr; a `next` tuple only for maps/strings
		return false
	case *ssa.Phi:
		for _, e := range t.Edges {
			if fromExprs(e, depth+1) {
				return true
			}
		}
	}
	return false
}

func structFieldName(t types.Type, i int) string {
	if p, ok := t.Underlying().(*types.Pointer); ok {
		t = p.Elem()
	}
	if st, ok := t.Underlying().(*types.Struct); ok && i < st.NumFields() {
		return st.Field(i).Name()
	}
	return ""
}

// isRebind: Env.Set of compiler/ast, Bindings.Define / Bindings.Set of compiler/ssa.
func isRebind(f *ssa.Function) bool {
	if f.Signature.Recv() == nil || f.Pkg == nil {
		return false
	}
	rt := f.Signature.Recv().Type()
	if p, ok := rt.(*types.Pointer); ok {
		rt = p.Elem()
	}
	n, ok := rt.(*types.Named)
	if !ok {
		return false
	}
	path := f.Pkg.Pkg.Path()
	switch {
	case path == load.Module+"/compiler/ast" && n.Obj().Name() == "Env" && f.Name() == "Set":
		return true
	case path == load.Module+"/compiler/ssa" && n.Obj().Name() == "Bindings" && (f.Name() == "Define" || f.Name() == "Set"):
		return true
	}
	return false
}

// instrReaches: b is executed before e on some path of the function.
func instrReaches(b, e ssa.Instruction) bool {
	bb, eb := b.Block(), e.Block()
	if bb == eb {
		bi, ei := -1, -1
		for i, ins := range bb.Instrs {
			if ins == b {
				bi = i
			}
			if ins == e {
				ei = i
			}
		}
		if bi < ei {
			return true
		}
	}
	// a path of at least one edge from bb to eb
	seen := map[*ssa.BasicBlock]bool{}
	stack := append([]*ssa.BasicBlock{}, bb.Succs...)
	for len(stack) > 0 {
		x := stack[len(stack)-1]
		stack = stack[:len(stack)-1]
		if seen[x] {
			continue
		}
		seen[x] = true
		if x == eb {
			return true
		}
		stack = append(stack, x.Succs...)
	}
	return false
}
