package props

import (
	"fmt"
	"go/ast"
	"go/token"
	"go/types"
	"sort"
	"strings"

	"mpcverif/internal/dispatch"
	"mpcverif/internal/load"
	"mpcverif/internal/report"
)

// C03prec: the parser gives the binary operators Go's precedence.
//
// MPCL is Go-like: `a | b &^ m` is a | (b &^ m).  The parser fixes the precedence of each binary operator
// either by the recursive-descent function that consumes it (parseExprLogicalOr calls …And calls …
// Multiplicative calls the unary level) or by a table function from token to level.  Both shapes are read
// from the source and compared, operator by operator, with the five levels of the Go specification (and of
// docs/mpcl.iso-ebnf): || < && < comparisons < + - | ^ < * / % << >> & &^.  An operator on the wrong
// level parses every unparenthesised mix with its neighbours into another tree — no program in the suite
// has one — and the circuit computes another function without any error.
func C03prec(p *load.Program, run *report.Run) {
	const rule = "binary-operator-precedence"
	want := map[string]int{
		"TOr": 1, "TAnd": 2,
		"TEq": 3, "TNeq": 3, "TLt": 3, "TLe": 3, "TGt": 3, "TGe": 3,
		"'+'": 4, "'-'": 4, "'|'": 4, "'^'": 4,
		"'*'": 5, "'/'": 5, "'%'": 5, "TLshift": 5, "TRshift": 5, "'&'": 5, "TBitClear": 5,
	}
	run.Rule(rule, "the level at which compiler.Parser consumes each binary operator token — read from the chain of parseExpr… functions (level = depth in the chain, tokens = the case list or the != comparand of its loop) or from a token-to-level switch function called by a precedence-climbing parser — is the Go level: || 1, && 2, == != < <= > >= 3, + - | ^ 4, * / % << >> & &^ 5")
	pkg, top := dispatch.FindFunc(p, "compiler", "Parser", "parseExpr")
	if pkg == nil || top == nil {
		run.Undecided(rule, "compiler.Parser.parseExpr", "", "function not found")
		return
	}
	methods := map[string]*ast.FuncDecl{}
	funcs := map[string]*ast.FuncDecl{}
	for _, f := range pkg.Syntax {
		for _, d := range f.Decls {
			fd, ok := d.(*ast.FuncDecl)
			if !ok || fd.Body == nil {
				continue
			}
			if fd.Recv != nil {
				methods[fd.Name.Name] = fd
			} else {
				funcs[fd.Name.Name] = fd
			}
		}
	}
	got := map[string]int{}
	// shape 2: a function TokenType -> int made of one switch with constant returns
	for name, fd := range funcs {
		if fd.Type.Params == nil || len(fd.Type.Params.List) != 1 || fd.Type.Results == nil || len(fd.Type.Results.List) != 1 {
			continue
		}
		if types.ExprString(fd.Type.Params.List[0].Type) != "TokenType" || types.ExprString(fd.Type.Results.List[0].Type) != "int" {
			continue
		}
		// it must be used by the expression parser
		used := false
		for _, m := range methods {
			if strings.HasPrefix(m.Name.Name, "parseExpr") && containsCall(m.Body, name) {
				used = true
			}
		}
		if !used {
			continue
		}
		ast.Inspect(fd.Body, func(n ast.Node) bool {
			cc, ok := n.(*ast.CaseClause)
			if !ok {
				return true
			}
			for _, st := range cc.Body {
				if r, ok := st.(*ast.ReturnStmt); ok && len(r.Results) == 1 {
					if k, ok := constOf(pkg, r.Results[0]); ok && k > 0 {
						for _, e := range cc.List {
							got[types.ExprString(e)] = int(k)
						}
					}
				}
			}
			return true
		})
	}
	if len(got) == 0 {
		// shape 1: the chain
		next := func(fd *ast.FuncDecl) string {
			// the parse function called for the operands
			name := ""
			ast.Inspect(fd.Body, func(n ast.Node) bool {
				c, ok := n.(*ast.CallExpr)
				if !ok || name != "" {
					return true
				}
				if sel, ok := c.Fun.(*ast.SelectorExpr); ok && strings.HasPrefix(sel.Sel.Name, "parseExpr") && sel.Sel.Name != fd.Name.Name {
					name = sel.Sel.Name
				}
				return true
			})
			return name
		}
		cur := next(top)
		for level := 1; level <= 8 && cur != ""; level++ {
			fd := methods[cur]
			if fd == nil {
				break
			}
			var toks []string
			ast.Inspect(fd.Body, func(n ast.Node) bool {
				switch t := n.(type) {
				case *ast.BinaryExpr:
					if t.Op == token.NEQ && strings.HasSuffix(types.ExprString(t.X), ".Type") {
						if _, isNil := t.Y.(*ast.Ident); isNil || true {
							if s := types.ExprString(t.Y); s != "nil" && s != "io.EOF" {
								toks = append(toks, s)
							}
						}
					}
				case *ast.SwitchStmt:
					if t.Tag != nil && strings.HasSuffix(types.ExprString(t.Tag), ".Type") {
						for _, cl := range t.Body.List {
							cc := cl.(*ast.CaseClause)
							// an operator arm builds a binary node
							isOp := false
							ast.Inspect(cc, func(m ast.Node) bool {
								if cl, ok := m.(*ast.CompositeLit); ok && strings.HasSuffix(types.ExprString(cl.Type), "Binary") {
									isOp = true
								}
								return true
							})
							if isOp {
								for _, e := range cc.List {
									toks = append(toks, types.ExprString(e))
								}
							}
						}
					}
				}
				return true
			})
			// a level function builds binary nodes; the unary level does not
			builds := false
			ast.Inspect(fd.Body, func(n ast.Node) bool {
				if cl, ok := n.(*ast.CompositeLit); ok && strings.HasSuffix(types.ExprString(cl.Type), "ast.Binary") {
					builds = true
				}
				return true
			})
			if !builds || len(toks) == 0 {
				break
			}
			for _, t := range toks {
				got[t] = level
			}
			cur = next(fd)
		}
	}
	if len(got) == 0 {
		run.Undecided(rule, "compiler.Parser", p.Rel(top.Pos()), "neither a chain of level functions nor a precedence table was recognised")
		return
	}
	var names []string
	for n := range want {
		names = append(names, n)
	}
	sort.Strings(names)
	for _, n := range names {
		run.Count("binary-operators", 1)
		key := "compiler.Parser/" + n
		switch {
		case got[n] == 0:
			run.Violate(rule, key, p.Rel(top.Pos()), "the operator is not consumed at any binary level", nil)
		case got[n] != want[n]:
			run.Violate(rule, key, p.Rel(top.Pos()), fmt.Sprintf("the operator is parsed at level %d, Go's level is %d: unparenthesised mixes with its neighbours build another tree", got[n], want[n]), nil)
		default:
			run.OK(rule, key, p.Rel(top.Pos()), fmt.Sprintf("level %d", got[n]))
		}
	}
	for n := range got {
		if _, known := want[n]; !known {
			run.Violate(rule, "compiler.Parser/"+n, p.Rel(top.Pos()), "a token outside Go's binary operators is parsed as one", nil)
		}
	}
	run.Floor("binary-operators", 19)
}
