package props

import (
	"fmt"
	"go/ast"
	"go/types"
	"sort"
	"strings"

	"mpcverif/internal/dispatch"
	"mpcverif/internal/load"
	"mpcverif/internal/report"
)

// C03rewrite: operator rewrites in ast.Binary.SSA (strength reductions on constant
// operands) may not change an operator's signed meaning.
//
// An operator is signedness-dependent when its lowering arm can select a signed
// and an unsigned opcode (Idiv/Udiv, Imod/Umod, Srshift/Rshift, Ilt/Ult, ...): its
// result differs between int and uint operands.  A switch arm of Binary.SSA that
// handles operator A by building another Binary node with operator B (or by
// calling the constructor of another operator) replaces A's circuit by B's.  If A
// or B is signedness-dependent the two agree for unsigned operands at best
// (x / 2^k = x >> k only for x >= 0), so the arm must test the operand type for
// unsignedness; without that test the rewrite is wrong for negative values.
func C03rewrite(p *load.Program, run *report.Run) {
	run.Rule("operator-rewrite-signedness", "an arm of Binary.SSA that rewrites operator A into operator B, one of them with distinct signed and unsigned opcodes, is guarded by a test for an unsigned operand type; rewrites between signedness-independent operators (x * 2^k -> x << k) are free")
	pkgA, fd := dispatch.FindFunc(p, "compiler/ast", "Binary", "SSA")
	if fd == nil {
		run.Undecided("operator-rewrite-signedness", "compiler/ast.Binary.SSA", "", "function not found")
		return
	}
	info := pkgA.TypesInfo
	// operator -> opcodes of its own lowering arm
	lowered := map[string][]string{}
	for _, sw := range allSwitches(fd, "recv.Op") {
		for _, st := range sw.Body.List {
			cc := st.(*ast.CaseClause)
			var ops []string
			for _, fn := range calledFuncs(pkgA, cc) {
				if fn.Pkg() != nil && fn.Pkg().Path() == load.Module+"/compiler/ssa" && strings.HasSuffix(fn.Name(), "Instr") {
					ops = append(ops, opcodesOf(p, fn)...)
				}
			}
			for _, c := range caseNames(cc) {
				lowered[c] = append(lowered[c], ops...)
			}
		}
	}
	dependent := func(op string) bool {
		hasI, hasU, hasS, hasR := false, false, false, false
		for _, o := range lowered[op] {
			switch {
			case o == "Srshift":
				hasS = true
			case o == "Rshift":
				hasR = true
			case strings.HasPrefix(o, "I") && len(o) > 1 && o[1] >= 'a' && o[1] <= 'z':
				hasI = true
			case strings.HasPrefix(o, "U") && len(o) > 1 && o[1] >= 'a' && o[1] <= 'z':
				hasU = true
			}
		}
		return (hasI && hasU) || (hasS && hasR)
	}
	var deps []string
	for op := range lowered {
		if dependent(op) {
			deps = append(deps, op)
		}
	}
	sort.Strings(deps)
	run.Count("signedness-dependent-operators", len(deps))
	arms := 0
	for _, sw := range allSwitches(fd, "recv.Op") {
		for _, st := range sw.Body.List {
			cc := st.(*ast.CaseClause)
			names := caseNames(cc)
			if len(names) == 0 {
				continue
			}
			arms++
			own := map[string]bool{}
			for _, n := range names {
				own[n] = true
			}
			// operators the arm rewrites to: &Binary{Op: K} with K not one of the arm's own
			var targets []string
			ast.Inspect(cc, func(n ast.Node) bool {
				cl, ok := n.(*ast.CompositeLit)
				if !ok || typeName(info.TypeOf(cl)) != "Binary" {
					return true
				}
				for _, e := range cl.Elts {
					kv, ok := e.(*ast.KeyValueExpr)
					if !ok || types.ExprString(kv.Key) != "Op" {
						continue
					}
					k := types.ExprString(kv.Value)
					if !own[k] {
						if _, isConst := info.ObjectOf(lastIdent(kv.Value)).(*types.Const); isConst {
							targets = append(targets, k)
						}
					}
				}
				return true
			})
			if len(targets) == 0 {
				continue
			}
			// does the arm test for an unsigned operand type?
			unsignedGuard := false
			ast.Inspect(cc, func(n ast.Node) bool {
				if id, ok := n.(*ast.Ident); ok && id.Name == "TUint" {
					if c, ok := info.ObjectOf(id).(*types.Const); ok && c.Pkg() != nil && c.Pkg().Path() == load.Module+"/types" {
						unsignedGuard = true
					}
				}
				return true
			})
			for _, tgt := range targets {
				for _, src := range names {
					key := fmt.Sprintf("compiler/ast.Binary.SSA/%s->%s", src, tgt)
					run.Count("operator-rewrites", 1)
					switch {
					case !dependent(src) && !dependent(tgt):
						run.OK("operator-rewrite-signedness", key, p.Rel(cc.Pos()), "both operators have one opcode for int and uint")
					case unsignedGuard:
						run.OK("operator-rewrite-signedness", key, p.Rel(cc.Pos()), "guarded by a test for types.TUint")
					default:
						run.Violate("operator-rewrite-signedness", key, p.Rel(cc.Pos()), fmt.Sprintf("the arm replaces %s by %s without testing for an unsigned operand: %v have distinct signed and unsigned circuits, and the two operators agree for non-negative values only", src, tgt, deps), nil)
					}
				}
			}
		}
	}
	run.Count("binary-ssa-arms", arms)
	run.Floor("binary-ssa-arms", 15)
	run.Floor("signedness-dependent-operators", 4)
	run.OK("operator-rewrite-signedness", "compiler/ast.Binary.SSA/arms", p.Rel(fd.Pos()), fmt.Sprintf("%d arms inspected, dependent operators %v", arms, deps))
}

func lastIdent(e ast.Expr) *ast.Ident {
	switch t := e.(type) {
	case *ast.Ident:
		return t
	case *ast.SelectorExpr:
		return t.Sel
	}
	return &ast.Ident{Name: "_"}
}
