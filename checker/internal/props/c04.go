package props

import (
	"fmt"
	"go/token"
	"go/types"
	"strings"

	"golang.org/x/tools/go/ssa"

	"mpcverif/internal/flow"
	"mpcverif/internal/load"
	"mpcverif/internal/report"
)

func isWireType(t types.Type) bool {
	for {
		switch u := t.(type) {
		case *types.Pointer:
			t = u.Elem()
			continue
		case *types.Slice:
			t = u.Elem()
			continue
		case *types.Array:
			t = u.Elem()
			continue
		}
		break
	}
	n, ok := t.(*types.Named)
	return ok && n.Obj().Pkg() != nil && n.Obj().Pkg().Path() == load.Module+"/ot" && n.Obj().Name() == "Wire"
}

// secretField: the free-XOR offset fields.
func secretField(fa *ssa.FieldAddr) bool {
	pt, ok := fa.X.Type().Underlying().(*types.Pointer)
	if !ok {
		return false
	}
	n, ok := pt.Elem().(*types.Named)
	if !ok || n.Obj().Pkg() == nil || n.Obj().Pkg().Path() != load.Module+"/circuit" {
		return false
	}
	st, ok := n.Underlying().(*types.Struct)
	if !ok {
		return false
	}
	name := st.Field(fa.Field).Name()
	return (n.Obj().Name() == "Garbled" && name == "R") || (n.Obj().Name() == "Streaming" && name == "r")
}

// oneOfTwo: phi over the L0 and L1 fields of one wire.
func oneOfTwo(phi *ssa.Phi) bool {
	if len(phi.Edges) != 2 {
		return false
	}
	fields := map[int]bool{}
	var base ssa.Value
	for _, e := range phi.Edges {
		var b ssa.Value
		f := -1
		switch t := e.(type) {
		case *ssa.UnOp:
			if fa, ok := t.X.(*ssa.FieldAddr); ok && t.Op == token.MUL && isWireType(fa.X.Type()) {
				b, f = fa.X, fa.Field
			}
		case *ssa.Field:
			if isWireType(t.X.Type()) {
				b, f = t.X, t.Field
			}
		}
		if f < 0 {
			return false
		}
		if base != nil && base != b {
			return false
		}
		base = b
		fields[f] = true
	}
	return len(fields) == 2
}

// C04 decides that no raw offset or wire (both labels) reaches a transmission sink.
func C04(p *load.Program, run *report.Run) {
	run.Rule("no-raw-secret-to-sink", "in the garbler roles no value derived from the free-XOR offset or from a whole wire (both labels) reaches a Send*, a payload field or the stream buffer; declassifiers: LabelForBit, a one-of-two select on one wire, BitFromLabel/Equal (the output bit), the OT send")
	type ref struct{ pkg, typ, name string }
	for _, r := range []ref{{"circuit", "", "Garbler"}, {"compiler/ssa", "Program", "Stream"}, {"sha2pc", "", "GarblerRound1"}, {"sha2pc", "", "GarblerRound3"}} {
		var f *ssa.Function
		var err error
		if r.typ == "" {
			f, err = p.Func(r.pkg, r.name)
		} else {
			f, err = p.Method(r.pkg, r.typ, r.name)
		}
		key := r.pkg + "." + r.name
		if r.typ != "" {
			key = r.pkg + "." + r.typ + "." + r.name
		}
		if err != nil {
			run.Undecided("no-raw-secret-to-sink", key, "", err.Error())
			continue
		}
		run.Count("garbler-roles", 1)
		helperMemo := map[*ssa.Function]bool{}
		var helperDeclassifies func(callee *ssa.Function) bool
		ta := &flow.Taint{Fn: f,
			CleanLen:  true, // the secrets are label contents; how many wires there are is public
			KeepClean: func(t types.Type) bool { return t.String() == "error" },
			PhiClean:  oneOfTwo,
			Source: func(ins ssa.Instruction) []ssa.Value {
				v, ok := ins.(ssa.Value)
				if !ok {
					return nil
				}
				if isWireType(v.Type()) {
					// a FieldAddr of a payload struct is a destination, not a secret-bearing value
					if fa, ok := ins.(*ssa.FieldAddr); ok && !isWireType(fa.X.Type()) {
						return nil
					}
					if _, ok := ins.(*ssa.Alloc); ok {
						return nil
					}
					if _, ok := ins.(*ssa.MakeSlice); ok {
						return nil
					}
					return []ssa.Value{v}
				}
				if ld, ok := ins.(*ssa.UnOp); ok && ld.Op == token.MUL {
					if fa, ok := ld.X.(*ssa.FieldAddr); ok && secretField(fa) {
						return []ssa.Value{v}
					}
				}
				return nil
			},
			Sanitizer: func(c ssa.CallInstruction) bool {
				cc := c.Common()
				if cc.IsInvoke() {
					return strings.HasSuffix(cc.Value.Type().String(), "/ot.OT") && cc.Method.Name() == "Send"
				}
				callee := cc.StaticCallee()
				if callee == nil {
					return false
				}
				switch callee.String() {
				case load.Module + "/circuit.LabelForBit", load.Module + "/circuit.BitFromLabel",
					"(" + load.Module + "/ot.Label).Equal", load.Module + "/ot.EncryptCOCiphertexts":
					return true
				}
				// a function that resolves a label against a wire, accepted by the three-case evaluation:
				// its results are the output bit and a verdict
				if labelDecider(callee).ok {
					return true
				}
				// a helper of the module that itself lets wires reach its results only through those
				// declassifiers (a decode loop moved into a function) declassifies like them
				return helperDeclassifies(callee)
			},
		}
		helperDeclassifies = func(callee *ssa.Function) bool {
			if v, ok := helperMemo[callee]; ok {
				return v
			}
			helperMemo[callee] = false // while being computed, and for recursion
			if callee.Blocks == nil || !load.InModule(callee) || len(helperMemo) > 200 {
				return false
			}
			var seeds []ssa.Value
			for _, prm := range callee.Params {
				if isWireType(prm.Type()) {
					seeds = append(seeds, prm)
				}
			}
			if len(seeds) == 0 {
				return false
			}
			st := &flow.Taint{Fn: callee, KeepClean: ta.KeepClean, PhiClean: ta.PhiClean, Sanitizer: ta.Sanitizer, Seed: seeds,
				Source: func(ssa.Instruction) []ssa.Value { return nil }}
			st.Run()
			// it must contain a declassifying call, and no non-error result may carry the wires
			has := false
			for _, b := range callee.Blocks {
				for _, ins := range b.Instrs {
					if c, ok := ins.(ssa.CallInstruction); ok && ta.Sanitizer(c) {
						has = true
					}
				}
			}
			clean := has && len(st.TaintedReturns()) == 0
			helperMemo[callee] = clean
			return clean
		}
		ta.Run()
		nsinks, bad := 0, 0
		mk := func(g *ssa.Function, seed []ssa.Value) *flow.Taint {
			return &flow.Taint{Fn: g, KeepClean: ta.KeepClean, PhiClean: ta.PhiClean, Sanitizer: ta.Sanitizer, Seed: seed,
				Source: func(ssa.Instruction) []ssa.Value { return nil }}
		}
		// scan reports the sinks of g reached by tainted values of t; helpers of the module are followed through summaries.
		type hit struct {
			what string
			pos  token.Pos
			v    ssa.Value
		}
		var scan func(g *ssa.Function, t *flow.Taint, depth int, seen map[*ssa.Function]bool) (int, []hit)
		scan = func(g *ssa.Function, t *flow.Taint, depth int, seen map[*ssa.Function]bool) (int, []hit) {
			n := 0
			var hits []hit
			for _, b := range g.Blocks {
				for _, ins := range b.Instrs {
					switch x := ins.(type) {
					case ssa.CallInstruction:
						cc := x.Common()
						name := ""
						if cc.IsInvoke() {
							if strings.HasSuffix(cc.Value.Type().String(), "/ot.IO") {
								name = cc.Method.Name()
							}
						} else if callee := cc.StaticCallee(); callee != nil && callee.Signature.Recv() != nil &&
							strings.HasSuffix(callee.Signature.Recv().Type().String(), "/p2p.Conn") {
							name = callee.Name()
						}
						if strings.HasPrefix(name, "Send") {
							n++
							for _, a := range cc.Args {
								if t.T[a] {
									hits = append(hits, hit{name, ins.Pos(), a})
								}
							}
							continue
						}
						// a helper of the module: its own sinks count, and a tainted argument that reaches one is a hit
						callee := cc.StaticCallee()
						if callee == nil || callee.Blocks == nil || !load.InModule(callee) || depth >= 3 || seen[callee] || (ta.Sanitizer != nil && ta.Sanitizer(x)) {
							continue
						}
						pkgPath := ""
						if callee.Pkg != nil {
							pkgPath = callee.Pkg.Pkg.Path()
						}
						if strings.HasSuffix(pkgPath, "/p2p") || strings.HasSuffix(pkgPath, "/ot") {
							continue
						}
						seen[callee] = true
						cn, _ := scan(callee, mk(callee, nil), depth+1, seen)
						n += cn
						for i, a := range cc.Args {
							if !t.T[a] || i >= len(callee.Params) {
								continue
							}
							st := mk(callee, []ssa.Value{callee.Params[i]})
							st.Run()
							if _, sub := scan(callee, st, depth+1, map[*ssa.Function]bool{callee: true}); len(sub) > 0 {
								hits = append(hits, hit{callee.Name() + "→" + sub[0].what, ins.Pos(), a})
							}
						}
						delete(seen, callee)
					case *ssa.Store:
						fa, ok := x.Addr.(*ssa.FieldAddr)
						if !ok {
							continue
						}
						pt, ok := fa.X.Type().Underlying().(*types.Pointer)
						if !ok {
							continue
						}
						nt, ok := pt.Elem().(*types.Named)
						if !ok || !strings.HasSuffix(nt.Obj().Name(), "Payload") {
							continue
						}
						n++
						if t.T[x.Val] {
							fname := nt.Underlying().(*types.Struct).Field(fa.Field).Name()
							hits = append(hits, hit{nt.Obj().Name() + "." + fname, x.Pos(), x.Val})
						}
					}
				}
			}
			return n, hits
		}
		var hits []hit
		nsinks, hits = scan(f, ta, 0, map[*ssa.Function]bool{f: true})
		for _, h := range hits {
			bad++
			msg := "a raw secret reaches " + h.what
			if strings.Contains(h.what, "Payload.") {
				msg = "both labels of wires are placed into the transmitted payload field " + h.what[strings.Index(h.what, ".")+1:]
			}
			run.Violate("no-raw-secret-to-sink", key+"/"+h.what, p.Rel(h.pos), msg, ta.Why(h.v, 8))
		}
		run.Count("sinks", nsinks)
		if bad == 0 {
			run.OK("no-raw-secret-to-sink", key, p.Rel(f.Pos()), fmt.Sprintf("%d sinks", nsinks))
		}
	}
	run.Floor("garbler-roles", 4)
	run.Floor("sinks", 20)
}
