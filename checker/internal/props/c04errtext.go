package props

import (
	"fmt"
	"strings"

	"golang.org/x/tools/go/ssa"

	"mpcverif/internal/flow"
	"mpcverif/internal/load"
	"mpcverif/internal/report"
)

// C04errtext: what a party sends to its peer is never the text of an error.
//
// The errors of the label primitives name the labels they failed on
// (BitFromLabel: "unknown label <L> for wire <L0>/<L1>" prints both labels of
// the wire, whose XOR is the offset R).  The taint rule treats error values as
// clean because they stay local; this rule makes that an obligation: in
// circuit, compiler/ssa and sha2pc no argument of a Send* on the connection or
// the OT channel, and no payload field, depends on error.Error() or on an
// error formatted by fmt.
func C04errtext(p *load.Program, run *report.Run) {
	run.Rule("error-text-not-sent", "in circuit, compiler/ssa, sha2pc and ot no argument of a Send* call on p2p.Conn / ot.IO (backward data-flow slice within the function) contains a call of error.Error() or an fmt formatting call with an error operand: errors of the label primitives print both labels of a wire")
	pkgs := map[string]bool{}
	for _, r := range []string{"circuit", "compiler/ssa", "sha2pc", "ot", "gmw"} {
		pkgs[load.Module+"/"+r] = true
	}
	isErr := func(v ssa.Value) bool {
		if mi, ok := v.(*ssa.MakeInterface); ok {
			v = mi.X
		}
		return v.Type().String() == "error"
	}
	sends := 0
	for _, fn := range p.AllFunctions() {
		if fn.Pkg == nil || !pkgs[fn.Pkg.Pkg.Path()] || fn.Blocks == nil || strings.HasSuffix(p.Fset.Position(fn.Pos()).Filename, "_test.go") {
			continue
		}
		name := strings.ReplaceAll(fn.RelString(nil), load.Module+"/", "")
		for _, b := range fn.Blocks {
			for _, ins := range b.Instrs {
				c, ok := ins.(ssa.CallInstruction)
				if !ok {
					continue
				}
				cc := c.Common()
				mname := ""
				if cc.IsInvoke() {
					if strings.HasSuffix(cc.Value.Type().String(), "/ot.IO") {
						mname = cc.Method.Name()
					}
				} else if callee := cc.StaticCallee(); callee != nil && callee.Signature.Recv() != nil && strings.HasSuffix(callee.Signature.Recv().Type().String(), "p2p.Conn") {
					mname = callee.Name()
				}
				if !strings.HasPrefix(mname, "Send") {
					continue
				}
				sends++
				run.Count("send-sites", 1)
				args := cc.Args
				if !cc.IsInvoke() && len(args) > 0 {
					args = args[1:]
				}
				if len(args) == 0 {
					continue
				}
				slice := flow.BackwardSlice(fn, args...)
				bad := ""
				for si := range slice {
					sc, ok := si.(ssa.CallInstruction)
					if !ok {
						continue
					}
					scc := sc.Common()
					if scc.IsInvoke() && scc.Method.Name() == "Error" && scc.Value.Type().String() == "error" {
						bad = fmt.Sprintf("the text of an error (Error() at %s)", p.Rel(si.Pos()))
					}
					if callee := scc.StaticCallee(); callee != nil && callee.Pkg != nil && callee.Pkg.Pkg.Path() == "fmt" {
						for _, a := range scc.Args {
							if isErr(a) {
								bad = fmt.Sprintf("an error formatted by fmt.%s at %s", callee.Name(), p.Rel(si.Pos()))
							}
							// variadic: the operands are stored into a slice
							if sl, ok := a.(*ssa.Slice); ok {
								if al, ok := sl.X.(*ssa.Alloc); ok {
									for _, r := range *al.Referrers() {
										if ia, ok := r.(*ssa.IndexAddr); ok {
											for _, rr := range *ia.Referrers() {
												if st, ok := rr.(*ssa.Store); ok && isErr(st.Val) {
													bad = fmt.Sprintf("an error formatted by fmt.%s at %s", callee.Name(), p.Rel(si.Pos()))
												}
											}
										}
									}
								}
							}
						}
					}
				}
				if bad != "" {
					run.Violate("error-text-not-sent", fmt.Sprintf("%s/%s", name, mname), p.Rel(ins.Pos()), "the peer is sent "+bad+": the errors of the label primitives print the labels they failed on, both labels of a wire give the offset R", nil)
				}
			}
		}
	}
	if sends > 0 {
		run.OK("error-text-not-sent", "send sites", "", fmt.Sprintf("%d Send* call sites examined", sends))
	}
	run.Floor("send-sites", 40)
}
