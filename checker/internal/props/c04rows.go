package props

import (
	"fmt"
	"strings"

	"mpcverif/internal/fpai"
	"mpcverif/internal/load"
	"mpcverif/internal/report"
)

// C04rows: what the garbled rows reveal, decided on the forms E1 derives for
// Gate.garbleInto (all labels, keys and randomness at once).
//
//   - every row carries a hash atom that does not cancel (a row without one is an
//     affine combination of labels and R in the clear);
//   - every hash atom of a row is *tweaked by the gate counter*: its argument
//     contains T(id0+k) (AES key derivation) or the half-gate tweak id0+k.  A hash
//     input without the counter repeats across gates that share an input wire —
//     the INV key 2a equals the half-gate input of tweak 0 — and the XOR of the
//     two transmitted rows is R;
//   - no two rows of one gate, and no row alone, equal R up to hash atoms that
//     cancel: the XOR of any two rows still contains a hash atom.
func C04rows(p *load.Program, run *report.Run) {
	run.Rule("rows-hash-tweaked", "every row Gate.garbleInto emits contains a hash atom; every hash atom in it has the gate's tweak counter in its argument; the XOR of any two rows of a gate still contains a hash atom (derived forms, all op x permute-bit partitions)")
	garbleInto, err := p.Method("circuit", "Gate", "garbleInto")
	if err != nil {
		run.Undecided("rows-hash-tweaked", "circuit.Gate.garbleInto", "", err.Error())
		return
	}
	forms := garbleForms(p, run, garbleInto, "O3-garble-invariant")
	n := 0
	for op := 0; op < 5; op++ {
		for pa := 0; pa < 2; pa++ {
			for pb := 0; pb < 2; pb++ {
				gf := forms[[3]int{op, pa, pb}]
				if gf == nil {
					continue
				}
				key := fmt.Sprintf("circuit.Gate.garbleInto/%s/pa=%d,pb=%d/rows", opNames[op], pa, pb)
				n++
				bad := ""
				for k, row := range gf.Rows {
					if !row.HasHashAtom() {
						bad = fmt.Sprintf("row %d has no hash atom: %s", k, row.Canon())
					}
					for atom := range row {
						if why := untweaked(atom); why != "" {
							bad = fmt.Sprintf("row %d: %s", k, why)
						}
					}
				}
				for i := 0; i < len(gf.Rows) && bad == ""; i++ {
					for j := i + 1; j < len(gf.Rows); j++ {
						if d := fpai.Xor(gf.Rows[i], gf.Rows[j]); !d.HasHashAtom() {
							bad = fmt.Sprintf("rows %d and %d differ by %s, which contains no hash value", i, j, d.Canon())
						}
					}
				}
				if bad != "" {
					run.Violate("rows-hash-tweaked", key, p.Rel(garbleInto.Pos()), bad+": transmitted values combine to the offset R", nil)
				} else {
					run.OK("rows-hash-tweaked", key, p.Rel(garbleInto.Pos()), fmt.Sprintf("%d rows", len(gf.Rows)))
				}
			}
		}
	}
	run.Count("row-partitions", n)
	run.Floor("row-partitions", 20)
}

// untweaked: a hash atom whose argument lacks the gate counter.
func untweaked(atom string) string {
	switch {
	case strings.HasPrefix(atom, "AES("):
		if !strings.Contains(atom, "T(id0") {
			return "the hash input " + atom + " does not contain the gate tweak T(id0+k): the same input recurs in other gates on the same wire"
		}
	case strings.HasPrefix(atom, "EH("):
		if !strings.Contains(atom, ",id0") {
			return "the half-gate hash " + atom + " is not tweaked by the gate counter"
		}
	}
	return ""
}
