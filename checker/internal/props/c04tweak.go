package props

import (
	"fmt"
	"go/constant"
	"go/token"
	"go/types"
	"sort"
	"strings"

	"golang.org/x/tools/go/ssa"

	"mpcverif/internal/load"
	"mpcverif/internal/report"
)

// C04tweak: the counter that makes the hash tweaks of the garbled rows unique
// must live exactly as long as the cipher key it is used with.
//
// Half-gate rows are H(label, tweak) xor H(label^R, tweak) xor p*R.  If one
// label is hashed twice under one key with one tweak, the XOR of the two
// transmitted rows is R whenever the other inputs' permute bits differ.  In
// whole-circuit mode key, wires and counter are all created per garbling.  In
// streaming mode key and wires belong to the session object, so the counter
// must belong to it too; a counter that is re-created per streamed circuit (or
// inside the evaluator's per-circuit loop) repeats tweaks under one key.
func C04tweak(p *load.Program, run *report.Run) {
	run.Rule("tweak-scope", "at every call of encrypt/decrypt/encryptHalf the tweak counter lives as long as the cipher key: both locals created at the same loop nesting of one activation, or both fields of one session object; a key that outlives its counter repeats tweaks")
	spkg, err := p.Pkg("circuit")
	if err != nil {
		run.Undecided("tweak-scope", "circuit", "", err.Error())
		return
	}
	prims := map[*ssa.Function]bool{}
	for _, n := range []string{"encrypt", "decrypt", "encryptHalf"} {
		if f := spkg.Func(n); f != nil {
			prims[f] = true
		}
	}
	if len(prims) != 3 {
		run.Undecided("tweak-scope", "circuit.encrypt/decrypt/encryptHalf", "", "hash primitives not found")
		return
	}
	cg := p.CallGraph()
	type origin struct {
		kind string // field | local
		typ  string // field: struct type
		name string // field: field name
		fn   *ssa.Function
		blk  *ssa.BasicBlock
	}
	var resolve func(v ssa.Value, depth int, seen map[ssa.Value]bool) ([]origin, string)
	var loopsOfFwd func(b *ssa.BasicBlock) string
	structOf := func(t types.Type) string {
		if pt, ok := t.Underlying().(*types.Pointer); ok {
			t = pt.Elem()
		}
		if n, ok := t.(*types.Named); ok {
			return n.Obj().Name()
		}
		return ""
	}
	fieldName := func(t types.Type, i int) string {
		if pt, ok := t.Underlying().(*types.Pointer); ok {
			t = pt.Elem()
		}
		if st, ok := t.Underlying().(*types.Struct); ok && i < st.NumFields() {
			return st.Field(i).Name()
		}
		return "?"
	}
	resolve = func(v ssa.Value, depth int, seen map[ssa.Value]bool) ([]origin, string) {
		if depth > 12 {
			return nil, "origin chain too long"
		}
		if seen[v] {
			return nil, ""
		}
		seen[v] = true
		switch t := v.(type) {
		case *ssa.Const:
			return nil, "" // handled at the phi edge
		case *ssa.UnOp:
			return resolve(t.X, depth+1, seen)
		case *ssa.BinOp:
			if _, ok := t.Y.(*ssa.Const); ok {
				return resolve(t.X, depth+1, seen)
			}
			if _, ok := t.X.(*ssa.Const); ok {
				return resolve(t.Y, depth+1, seen)
			}
			a, e1 := resolve(t.X, depth+1, seen)
			b, e2 := resolve(t.Y, depth+1, seen)
			// a sum of a longer-lived counter and a shorter-lived index (session position + index in the
			// circuit) lives as long as the longer-lived part: fields before locals, outer locals before inner
			all := append(a, b...)
			if (t.Op == token.ADD || t.Op == token.OR) && e1+e2 == "" && len(a) > 0 && len(b) > 0 {
				var fields, locals []origin
				for _, o := range all {
					if o.kind == "field" {
						fields = append(fields, o)
					} else {
						locals = append(locals, o)
					}
				}
				if len(fields) > 0 {
					return fields, ""
				}
				best := locals[0]
				for _, o := range locals[1:] {
					if o.fn == best.fn && len(loopsOfFwd(o.blk)) < len(loopsOfFwd(best.blk)) {
						best = o
					}
				}
				sameFn := true
				for _, o := range locals {
					if o.fn != best.fn {
						sameFn = false
					}
				}
				if sameFn {
					return []origin{best}, ""
				}
			}
			return all, e1 + e2
		case *ssa.Convert:
			return resolve(t.X, depth+1, seen)
		case *ssa.ChangeType:
			return resolve(t.X, depth+1, seen)
		case *ssa.MakeInterface:
			return resolve(t.X, depth+1, seen)
		case *ssa.Extract:
			return resolve(t.Tuple, depth+1, seen)
		case *ssa.Alloc:
			// a local that is (re)initialised from longer-lived state — `id := (session.position + i) << 1`
			// handed on by address — lives as long as what it is computed from
			if t.Referrers() != nil {
				var from []origin
				for _, r := range *t.Referrers() {
					if st, ok := r.(*ssa.Store); ok && st.Addr == ssa.Value(t) {
						if _, isConst := st.Val.(*ssa.Const); isConst {
							from = nil
							break
						}
						o, er := resolve(st.Val, depth+1, seen)
						if er != "" {
							from = nil
							break
						}
						from = append(from, o...)
					}
				}
				var fields []origin
				for _, o := range from {
					if o.kind == "field" {
						fields = append(fields, o)
					}
				}
				if len(fields) > 0 {
					return fields, ""
				}
			}
			return []origin{{kind: "local", fn: t.Parent(), blk: t.Block()}}, ""
		case *ssa.Call:
			return []origin{{kind: "local", fn: t.Parent(), blk: t.Block()}}, ""
		case *ssa.FieldAddr:
			if _, isParam := t.X.(*ssa.Parameter); isParam {
				return []origin{{kind: "field", typ: structOf(t.X.Type()), name: fieldName(t.X.Type(), t.Field)}}, ""
			}
			if _, isFree := t.X.(*ssa.FreeVar); isFree {
				return []origin{{kind: "field", typ: structOf(t.X.Type()), name: fieldName(t.X.Type(), t.Field)}}, ""
			}
			// a field of an object the function made itself lives as long as that object
			return resolve(t.X, depth+1, seen)
		case *ssa.Field:
			return resolve(t.X, depth+1, seen)
		case *ssa.Phi:
			var out []origin
			errs := ""
			for k, e := range t.Edges {
				pred := t.Block().Preds[k]
				if t.Block().Dominates(pred) {
					continue // back edge: the value derives from the phi itself
				}
				if c, ok := e.(*ssa.Const); ok {
					_ = c
					out = append(out, origin{kind: "local", fn: t.Parent(), blk: pred})
					continue
				}
				o, er := resolve(e, depth+1, seen)
				out = append(out, o...)
				errs += er
			}
			return out, errs
		case *ssa.Parameter:
			fn := t.Parent()
			idx := -1
			for i, q := range fn.Params {
				if q == t {
					idx = i
				}
			}
			node := cg.Nodes[fn]
			if node == nil || idx < 0 {
				return nil, "no caller of " + fn.Name()
			}
			var out []origin
			errs := ""
			n := 0
			for _, in := range node.In {
				if in.Site == nil || !load.InModule(in.Caller.Func) || strings.HasSuffix(p.Fset.Position(in.Caller.Func.Pos()).Filename, "_test.go") {
					continue
				}
				cc := in.Site.Common()
				if cc.StaticCallee() != fn {
					continue
				}
				args := cc.Args
				if idx >= len(args) {
					continue
				}
				n++
				o, er := resolve(args[idx], depth+1, seen)
				out = append(out, o...)
				errs += er
			}
			if n == 0 {
				return nil, "no static caller of " + fn.Name()
			}
			return out, errs
		case *ssa.TypeAssert:
			// an object taken out of a sync.Pool belongs to this activation until it is put back: what its
			// fields hold was put there by this activation or validated by it (a cached key schedule that
			// is compared with the key at hand), so it lives like a local created where the object was taken
			if c, ok := t.X.(*ssa.Call); ok && c.Call.StaticCallee() != nil && c.Call.StaticCallee().String() == "(*sync.Pool).Get" {
				return []origin{{kind: "local", fn: t.Parent(), blk: t.Block()}}, ""
			}
		}
		return nil, fmt.Sprintf("unmodelled origin %T", v)
	}
	loopsOf := func(b *ssa.BasicBlock) string {
		// the headers of the natural loops containing b
		fn := b.Parent()
		var hs []int
		for _, h := range fn.Blocks {
			for _, pr := range h.Preds {
				if !h.Dominates(pr) {
					continue
				}
				// body of the loop of back edge pr->h: blocks that reach pr without passing h
				body := map[*ssa.BasicBlock]bool{h: true}
				stack := []*ssa.BasicBlock{pr}
				for len(stack) > 0 {
					x := stack[len(stack)-1]
					stack = stack[:len(stack)-1]
					if body[x] {
						continue
					}
					body[x] = true
					stack = append(stack, x.Preds...)
				}
				if body[b] {
					hs = append(hs, h.Index)
				}
			}
		}
		sort.Ints(hs)
		out := ""
		last := -1
		for _, h := range hs {
			if h != last {
				out += fmt.Sprintf("L%d ", h)
			}
			last = h
		}
		return out
	}
	loopsOfFwd = loopsOf
	render := func(o origin) string {
		if o.kind == "field" {
			return "field " + o.typ + "." + o.name
		}
		return fmt.Sprintf("local of %s (loops: %s)", o.fn.Name(), strings.TrimSpace(loopsOf(o.blk)))
	}
	ord := map[string]int{}
	for _, fn := range p.AllFunctions() {
		if !load.InModule(fn) || fn.Blocks == nil || strings.HasSuffix(p.Fset.Position(fn.Pos()).Filename, "_test.go") {
			continue
		}
		for _, b := range fn.Blocks {
			for _, ins := range b.Instrs {
				call, ok := ins.(*ssa.Call)
				if !ok || !prims[call.Call.StaticCallee()] {
					continue
				}
				callee := call.Call.StaticCallee()
				var algArg, twArg ssa.Value
				for i, prm := range callee.Params {
					if b, ok := prm.Type().Underlying().(*types.Basic); ok && b.Kind() == types.Uint32 {
						twArg = call.Call.Args[i]
					}
					if n, ok := prm.Type().(*types.Named); ok && n.Obj().Name() == "Block" {
						algArg = call.Call.Args[i]
					}
				}
				ord[fn.RelString(nil)+callee.Name()]++
				key := fmt.Sprintf("%s/%s#%d", fn.RelString(nil), callee.Name(), ord[fn.RelString(nil)+callee.Name()])
				if algArg == nil || twArg == nil {
					run.Undecided("tweak-scope", key, p.Rel(call.Pos()), "cipher or tweak parameter not identified")
					continue
				}
				run.Count("tweaked-hash-calls", 1)
				if c, ok := twArg.(*ssa.Const); ok && c.Value != nil && c.Value.Kind() == constant.Int {
					run.Violate("tweak-scope", key, p.Rel(call.Pos()), "constant tweak", nil)
					continue
				}
				as, e1 := resolve(algArg, 0, map[ssa.Value]bool{})
				ws, e2 := resolve(twArg, 0, map[ssa.Value]bool{})
				if e1+e2 != "" || len(as) == 0 || len(ws) == 0 {
					run.Undecided("tweak-scope", key, p.Rel(call.Pos()), fmt.Sprintf("origins not resolved: %s %s (key %d, counter %d)", e1, e2, len(as), len(ws)))
					continue
				}
				bad := ""
				for _, a := range as {
					for _, w := range ws {
						switch {
						case a.kind == "field" && w.kind == "field":
							if a.typ != w.typ {
								bad = fmt.Sprintf("key is %s, counter is %s", render(a), render(w))
							}
						case a.kind == "field" && w.kind == "local":
							bad = fmt.Sprintf("key is %s but the counter is a %s: it restarts while the key and the session's wire labels persist", render(a), render(w))
						case a.kind == "local" && w.kind == "local":
							if a.fn != w.fn {
								bad = fmt.Sprintf("key is a %s, counter a %s: lifetimes not comparable", render(a), render(w))
							} else if loopsOf(a.blk) != loopsOf(w.blk) {
								bad = fmt.Sprintf("key is a %s but the counter is initialised as a %s: it restarts inside a loop the key is created outside of", render(a), render(w))
							}
						}
					}
				}
				if bad != "" {
					run.Violate("tweak-scope", key, p.Rel(call.Pos()), bad+"; a tweak is reused under one key", nil)
				} else {
					run.OK("tweak-scope", key, p.Rel(call.Pos()), fmt.Sprintf("key: %s; counter: %s", render(as[0]), render(ws[0])))
				}
			}
		}
	}
	run.Floor("tweaked-hash-calls", 20)
	c04positions(p, run)
}

// c04positions: tweaks derived from a gate's position keep the windows of consecutive circuits apart.
//
// A streamed session may number its tweaks by position instead of by a running counter: gate i of a
// circuit that starts at session position S gets the tweaks a·S + b·i + c … (+1), and S advances by the
// number of gates.  Within one circuit the windows are disjoint when b covers what a gate uses (two); the
// next circuit starts at a·(S+n), which clears this circuit's last window b·(n-1)+… only if a >= b.
// `first + uint32(i)<<1` (Go's precedence: first + 2·i) has a = 1, b = 2: the upper half of every
// circuit's windows is handed out again to the next circuit, and two gates with the same first input
// and the same tweak leak the offset.  The rule evaluates the per-gate tweak base as an affine form and
// requires a == b >= 2; a running counter (no loop index in the form) is the other, accepted, design.
func c04positions(p *load.Program, run *report.Run) {
	const rule = "position-tweaks-disjoint"
	run.Rule(rule, "in Streaming.Garble: if the tweak counter handed to garbleGate is a local computed per gate as a*S + b*i + c (S a field of the session, i the gate index), then a == b and b >= 2; a counter kept in the session object itself is decided by tweak-scope")
	f, err := p.Method("circuit", "Streaming", "Garble")
	if err != nil {
		run.Undecided(rule, "circuit.Streaming.Garble", "", err.Error())
		return
	}
	key := "circuit.Streaming.Garble/tweak base"
	found := false
	for _, b := range f.Blocks {
		for _, ins := range b.Instrs {
			c, ok := ins.(*ssa.Call)
			if !ok || c.Call.StaticCallee() == nil || c.Call.StaticCallee().Name() != "garbleGate" {
				continue
			}
			for i, prm := range c.Call.StaticCallee().Params {
				pt, ok := prm.Type().Underlying().(*types.Pointer)
				if !ok || i >= len(c.Call.Args) {
					continue
				}
				if bt, ok := pt.Elem().Underlying().(*types.Basic); !ok || bt.Kind() != types.Uint32 {
					continue
				}
				found = true
				al, isLocal := c.Call.Args[i].(*ssa.Alloc)
				if !isLocal {
					run.OK(rule, key, p.Rel(c.Pos()), "a running counter kept outside the gate loop")
					continue
				}
				var vals []ssa.Value
				if al.Referrers() != nil {
					for _, r := range *al.Referrers() {
						if st, ok := r.(*ssa.Store); ok && st.Addr == ssa.Value(al) {
							vals = append(vals, st.Val)
						}
					}
				}
				if len(vals) != 1 {
					run.OK(rule, key, p.Rel(c.Pos()), "not a per-gate affine form")
					continue
				}
				a := newAffEnv(f).eval(vals[0])
				if !a.ok {
					run.OK(rule, key, p.Rel(c.Pos()), "not a per-gate affine form")
					continue
				}
				var ci, cs int64
				nloop, nsym := 0, 0
				for s, k := range a.sym {
					if strings.HasPrefix(s, "i#") {
						ci, nloop = k, nloop+1
					} else {
						cs, nsym = k, nsym+1
					}
				}
				switch {
				case nloop == 0:
					run.OK(rule, key, p.Rel(c.Pos()), "a running counter")
				case nloop != 1 || nsym != 1:
					run.OK(rule, key, p.Rel(c.Pos()), "not a position-plus-index form")
				case cs == ci && ci >= 2:
					run.OK(rule, key, p.Rel(c.Pos()), fmt.Sprintf("tweak base %d*(position + index)", ci))
				default:
					run.Violate(rule, key, p.Rel(c.Pos()), fmt.Sprintf("the tweak base is %d*position + %d*index: a gate uses up to two tweaks and the position advances by one per gate, so the windows of consecutive circuits overlap unless both factors are equal and at least two — tweaks are reused under the session key", cs, ci), nil)
				}
			}
		}
	}
	if !found {
		run.Undecided(rule, key, p.Rel(f.Pos()), "no call of garbleGate with a tweak counter found")
	}
}
