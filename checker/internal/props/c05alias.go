package props

import (
	"fmt"
	"go/ast"
	"go/token"
	"go/types"
	"sort"

	"mpcverif/internal/dispatch"
	"mpcverif/internal/load"
	"mpcverif/internal/report"
)

// C05alias: alias liveness in Program.GC is reachability.
//
// The streaming garbage collector may release the wires of a dead value only if
// no alias of it — direct or through a chain of aliases (a slice of a shift of
// the value) — is still live.  compiler/ssa.aliasLive answers that question.  It
// is interpreted on abstract alias graphs (every directed graph on 3 nodes, plus
// chains and cycles on 4 and 5), every set of live nodes and every start node;
// its answer must be "a live node is reachable from the start over one or more
// alias edges".  Any further parameter the function has (a scratch set handed in
// by the caller) starts with arbitrary contents — every subset — and the answer
// may not depend on it: state left over from an earlier query must not matter.
func C05alias(p *load.Program, run *report.Run) {
	run.Rule("alias-liveness-is-reachability", "compiler/ssa.aliasLive returns true iff a live value is reachable from the queried value over alias edges, on every small alias graph, live set and start node, whatever a caller-supplied scratch set contains")
	pkg, fd := dispatch.FindFunc(p, "compiler/ssa", "", "aliasLive")
	if fd == nil {
		run.Undecided("alias-liveness-is-reachability", "compiler/ssa.aliasLive", "", "function not found (Program.GC must decide alias liveness through it)")
		return
	}
	info := pkg.TypesInfo
	// classify the parameters by type
	var graphP, liveP, startP types.Object
	var scratch []types.Object
	for _, f := range fd.Type.Params.List {
		for _, n := range f.Names {
			obj := info.ObjectOf(n)
			switch t := obj.Type().Underlying().(type) {
			case *types.Map:
				if _, isSlice := t.Elem().Underlying().(*types.Slice); isSlice {
					graphP = obj
				} else {
					scratch = append(scratch, obj)
				}
			case *types.Pointer:
				// the live set: *big.Int, or a set type of the module queried through a membership method
				if _, named := t.Elem().(*types.Named); named {
					liveP = obj
				}
			case *types.Basic:
				startP = obj
			default:
				scratch = append(scratch, obj)
			}
		}
	}
	if graphP == nil || liveP == nil || startP == nil {
		run.Undecided("alias-liveness-is-reachability", "compiler/ssa.aliasLive", p.Rel(fd.Pos()), "parameters (alias map, live set, start value) not identified")
		return
	}
	type graph struct {
		n     int
		edges map[int][]int
	}
	var graphs []graph
	// all directed graphs without self loops on 3 nodes
	pairs := [][2]int{{0, 1}, {0, 2}, {1, 0}, {1, 2}, {2, 0}, {2, 1}}
	for m := 0; m < 1<<len(pairs); m++ {
		g := graph{n: 3, edges: map[int][]int{}}
		for k, pr := range pairs {
			if m&(1<<k) != 0 {
				g.edges[pr[0]] = append(g.edges[pr[0]], pr[1])
			}
		}
		graphs = append(graphs, g)
	}
	for _, n := range []int{4, 5} {
		chain := graph{n: n, edges: map[int][]int{}}
		cyc := graph{n: n, edges: map[int][]int{}}
		diamond := graph{n: n, edges: map[int][]int{0: {1, 2}, 1: {3}, 2: {3}}}
		for i := 0; i+1 < n; i++ {
			chain.edges[i] = []int{i + 1}
			cyc.edges[i] = []int{i + 1}
		}
		cyc.edges[n-1] = []int{0}
		graphs = append(graphs, chain, cyc, diamond)
	}
	cells := 0
	bad, und := "", ""
	for _, g := range graphs {
		for live := 0; live < 1<<g.n && bad == "" && und == ""; live++ {
			for start := 0; start < g.n && bad == "" && und == ""; start++ {
				// reference: reachability over >= 1 edge
				reach := map[int]bool{}
				stack := append([]int{}, g.edges[start]...)
				for len(stack) > 0 {
					x := stack[len(stack)-1]
					stack = stack[:len(stack)-1]
					if reach[x] {
						continue
					}
					reach[x] = true
					stack = append(stack, g.edges[x]...)
				}
				want := false
				for x := range reach {
					if live&(1<<x) != 0 {
						want = true
					}
				}
				nsub := 1
				if len(scratch) > 0 {
					nsub = 1 << g.n
				}
				for sub := 0; sub < nsub; sub++ {
					cells++
					ev := &aliasEval{info: info, env: map[types.Object]any{}, graph: g.edges, live: live, graphP: graphP, liveP: liveP}
					ev.env[startP] = start
					for _, sp := range scratch {
						m := map[int]bool{}
						for x := 0; x < g.n; x++ {
							if sub&(1<<x) != 0 {
								m[x] = true
							}
						}
						ev.env[sp] = m
					}
					ev.block(fd.Body.List)
					if ev.fail != "" {
						und = ev.fail
						break
					}
					got, ok := ev.ret.(bool)
					if !ok {
						und = "no boolean result"
						break
					}
					if got != want {
						var es []string
						for a, bs := range g.edges {
							for _, b := range bs {
								es = append(es, fmt.Sprintf("%d->%d", a, b))
							}
						}
						sort.Strings(es)
						extra := ""
						if len(scratch) > 0 {
							extra = fmt.Sprintf(", scratch set %03b left by an earlier query", sub)
						}
						bad = fmt.Sprintf("aliases %v, live set %0*b, query %d%s: answers %v, reachability says %v — a value is collected while an alias of it is live (or kept for nothing)", es, g.n, live, start, extra, got, want)
						break
					}
				}
			}
		}
		if bad != "" || und != "" {
			break
		}
	}
	run.Count("alias-graph-cells", cells)
	key := "compiler/ssa.aliasLive"
	switch {
	case und != "":
		run.Undecided("alias-liveness-is-reachability", key, p.Rel(fd.Pos()), und)
	case bad != "":
		run.Violate("alias-liveness-is-reachability", key, p.Rel(fd.Pos()), bad, nil)
	default:
		run.OK("alias-liveness-is-reachability", key, p.Rel(fd.Pos()), fmt.Sprintf("%d graph/live-set/start cells", cells))
	}
	run.Floor("alias-graph-cells", 1000)
	// Program.GC must use it: a call of aliasLive in GC
	_, gc := dispatch.FindFunc(p, "compiler/ssa", "Program", "GC")
	if gc == nil || !containsCall(gc.Body, "aliasLive") {
		run.Violate("alias-liveness-is-reachability", "compiler/ssa.Program.GC/uses aliasLive", "", "Program.GC does not decide alias liveness through aliasLive", nil)
	} else {
		run.OK("alias-liveness-is-reachability", "compiler/ssa.Program.GC/uses aliasLive", p.Rel(gc.Pos()), "")
	}
}

type aliasEval struct {
	info   *types.Info
	env    map[types.Object]any // int, bool, []int, map[int]bool
	graph  map[int][]int
	live   int
	graphP types.Object
	liveP  types.Object
	fail   string
	ret    any
	done   bool
	steps  int
}

func (e *aliasEval) bad(f string, a ...any) any {
	if e.fail == "" {
		e.fail = fmt.Sprintf(f, a...)
	}
	return nil
}

func (e *aliasEval) block(list []ast.Stmt) {
	for _, st := range effectiveQ(e.info, list) {
		if e.fail != "" || e.done {
			return
		}
		e.stmt(st)
	}
}

func (e *aliasEval) stmt(st ast.Stmt) {
	e.steps++
	if e.steps > 20000 {
		e.bad("step budget exceeded (the search does not terminate)")
		return
	}
	switch s := st.(type) {
	case *ast.AssignStmt:
		if len(s.Lhs) != 1 || len(s.Rhs) != 1 {
			e.bad("multi-assignment not modelled")
			return
		}
		v := e.expr(s.Rhs[0])
		if e.fail != "" {
			return
		}
		switch l := ast.Unparen(s.Lhs[0]).(type) {
		case *ast.Ident:
			if l.Name != "_" {
				e.env[e.info.ObjectOf(l)] = v
			}
		case *ast.IndexExpr:
			m, ok := e.expr(l.X).(map[int]bool)
			k, ok2 := e.expr(l.Index).(int)
			b, ok3 := v.(bool)
			if !ok || !ok2 || !ok3 {
				e.bad("store %s not modelled", types.ExprString(s.Lhs[0]))
				return
			}
			m[k] = b
		default:
			e.bad("assignment to %s not modelled", types.ExprString(s.Lhs[0]))
		}
	case *ast.DeclStmt:
		gd, _ := s.Decl.(*ast.GenDecl)
		if gd == nil || gd.Tok != token.VAR {
			e.bad("declaration not modelled")
			return
		}
		for _, sp := range gd.Specs {
			vs := sp.(*ast.ValueSpec)
			for i, n := range vs.Names {
				obj := e.info.ObjectOf(n)
				if len(vs.Values) > i {
					e.env[obj] = e.expr(vs.Values[i])
					continue
				}
				switch obj.Type().Underlying().(type) {
				case *types.Slice:
					e.env[obj] = []int{}
				case *types.Map:
					e.env[obj] = map[int]bool(nil)
				case *types.Basic:
					if obj.Type().Underlying().(*types.Basic).Info()&types.IsBoolean != 0 {
						e.env[obj] = false
					} else {
						e.env[obj] = 0
					}
				}
			}
		}
	case *ast.IfStmt:
		if s.Init != nil {
			e.stmt(s.Init)
		}
		c, ok := e.expr(s.Cond).(bool)
		if !ok {
			e.bad("condition %s not decided", types.ExprString(s.Cond))
			return
		}
		if c {
			e.block(s.Body.List)
		} else if s.Else != nil {
			if b, ok := s.Else.(*ast.BlockStmt); ok {
				e.block(b.List)
			} else {
				e.stmt(s.Else)
			}
		}
	case *ast.ForStmt:
		if s.Init != nil {
			e.stmt(s.Init)
		}
		for e.fail == "" && !e.done {
			if s.Cond != nil {
				c, ok := e.expr(s.Cond).(bool)
				if !ok {
					e.bad("loop condition %s not decided", types.ExprString(s.Cond))
					return
				}
				if !c {
					break
				}
			}
			e.block(s.Body.List)
			if s.Post != nil && !e.done {
				e.stmt(s.Post)
			}
			e.steps++
			if e.steps > 20000 {
				e.bad("step budget exceeded (the search does not terminate)")
			}
		}
	case *ast.RangeStmt:
		seq, ok := e.expr(s.X).([]int)
		if !ok {
			e.bad("range over %s not modelled", types.ExprString(s.X))
			return
		}
		for i, v := range append([]int{}, seq...) {
			if id, ok := s.Key.(*ast.Ident); ok && id.Name != "_" {
				e.env[e.info.ObjectOf(id)] = i
			}
			if id, ok := s.Value.(*ast.Ident); ok && id.Name != "_" {
				e.env[e.info.ObjectOf(id)] = v
			}
			e.block(s.Body.List)
			if e.done || e.fail != "" {
				return
			}
		}
	case *ast.IncDecStmt:
		if id, ok := s.X.(*ast.Ident); ok {
			if v, ok := e.env[e.info.ObjectOf(id)].(int); ok {
				if s.Tok == token.INC {
					v++
				} else {
					v--
				}
				e.env[e.info.ObjectOf(id)] = v
				return
			}
		}
		e.bad("inc/dec not modelled")
	case *ast.ReturnStmt:
		if len(s.Results) == 1 {
			e.ret = e.expr(s.Results[0])
		}
		e.done = true
	case *ast.BlockStmt:
		e.block(s.List)
	case *ast.BranchStmt:
		e.bad("branch statement %s not modelled", s.Tok)
	default:
		e.bad("statement %T not modelled", st)
	}
}

func (e *aliasEval) expr(x ast.Expr) any {
	if e.fail != "" {
		return nil
	}
	x = ast.Unparen(x)
	if tv, ok := e.info.Types[x]; ok && tv.Value != nil {
		s := tv.Value.String()
		if s == "true" || s == "false" {
			return s == "true"
		}
		var n int
		if _, err := fmt.Sscan(s, &n); err == nil {
			return n
		}
	}
	switch t := x.(type) {
	case *ast.Ident:
		if t.Name == "nil" {
			return nil
		}
		if v, ok := e.env[e.info.ObjectOf(t)]; ok {
			return v
		}
		return e.bad("unbound %s", t.Name)
	case *ast.SelectorExpr:
		// <value>.ID of an alias entry: the node itself
		if v, ok := e.expr(t.X).(int); ok {
			return v
		}
		return e.bad("selector %s not modelled", types.ExprString(t))
	case *ast.CompositeLit:
		var out []int
		for _, el := range t.Elts {
			v, ok := e.expr(el).(int)
			if !ok {
				return e.bad("composite literal %s not modelled", types.ExprString(t))
			}
			out = append(out, v)
		}
		if out == nil {
			out = []int{}
		}
		return out
	case *ast.UnaryExpr:
		if t.Op == token.NOT {
			if b, ok := e.expr(t.X).(bool); ok {
				return !b
			}
		}
		return e.bad("unary %s not modelled", t.Op)
	case *ast.IndexExpr:
		// aliases[cur]
		if id, ok := ast.Unparen(t.X).(*ast.Ident); ok && e.info.ObjectOf(id) == e.graphP {
			k, ok := e.expr(t.Index).(int)
			if !ok {
				return e.bad("alias map index not decided")
			}
			return append([]int{}, e.graph[k]...)
		}
		base := e.expr(t.X)
		k, ok := e.expr(t.Index).(int)
		if !ok {
			return e.bad("index %s not decided", types.ExprString(t.Index))
		}
		switch b := base.(type) {
		case map[int]bool:
			return b[k]
		case []int:
			if k < 0 || k >= len(b) {
				return e.bad("index %d out of range [0,%d)", k, len(b))
			}
			return b[k]
		}
		return e.bad("index of %s not modelled", types.ExprString(t.X))
	case *ast.SliceExpr:
		b, ok := e.expr(t.X).([]int)
		if !ok {
			return e.bad("slice of %s not modelled", types.ExprString(t.X))
		}
		lo, hi := 0, len(b)
		if t.Low != nil {
			lo, _ = e.expr(t.Low).(int)
		}
		if t.High != nil {
			hi, _ = e.expr(t.High).(int)
		}
		if lo < 0 || hi < lo || hi > len(b) {
			return e.bad("slice bounds [%d:%d] of %d", lo, hi, len(b))
		}
		return append([]int{}, b[lo:hi]...)
	case *ast.BinaryExpr:
		a, b := e.expr(t.X), e.expr(t.Y)
		if e.fail != "" {
			return nil
		}
		switch av := a.(type) {
		case int:
			bv, ok := b.(int)
			if !ok {
				break
			}
			switch t.Op {
			case token.ADD:
				return av + bv
			case token.SUB:
				return av - bv
			case token.EQL:
				return av == bv
			case token.NEQ:
				return av != bv
			case token.LSS:
				return av < bv
			case token.LEQ:
				return av <= bv
			case token.GTR:
				return av > bv
			case token.GEQ:
				return av >= bv
			}
		case bool:
			bv, ok := b.(bool)
			if !ok {
				break
			}
			switch t.Op {
			case token.LAND:
				return av && bv
			case token.LOR:
				return av || bv
			case token.EQL:
				return av == bv
			case token.NEQ:
				return av != bv
			}
		}
		return e.bad("operator %s not modelled on %v, %v", t.Op, a, b)
	case *ast.CallExpr:
		if tv, ok := e.info.Types[t.Fun]; ok && tv.IsType() && len(t.Args) == 1 {
			return e.expr(t.Args[0]) // conversion
		}
		if id, ok := t.Fun.(*ast.Ident); ok {
			if _, isB := e.info.ObjectOf(id).(*types.Builtin); isB {
				switch id.Name {
				case "len":
					switch v := e.expr(t.Args[0]).(type) {
					case []int:
						return len(v)
					case map[int]bool:
						return len(v)
					}
					return e.bad("len of %s not modelled", types.ExprString(t.Args[0]))
				case "make":
					switch e.info.TypeOf(t).Underlying().(type) {
					case *types.Map:
						return map[int]bool{}
					case *types.Slice:
						return []int{}
					}
				case "append":
					base, _ := e.expr(t.Args[0]).([]int)
					out := append([]int{}, base...)
					for _, a := range t.Args[1:] {
						v, ok := e.expr(a).(int)
						if !ok {
							return e.bad("append of %s not modelled", types.ExprString(a))
						}
						out = append(out, v)
					}
					return out
				case "clear":
					if m, ok := e.expr(t.Args[0]).(map[int]bool); ok {
						for k := range m {
							delete(m, k)
						}
						return nil
					}
				case "delete":
					if m, ok := e.expr(t.Args[0]).(map[int]bool); ok {
						if k, ok := e.expr(t.Args[1]).(int); ok {
							delete(m, k)
							return nil
						}
					}
				}
				return e.bad("builtin %s not modelled", id.Name)
			}
		}
		if sel, ok := t.Fun.(*ast.SelectorExpr); ok && len(t.Args) == 1 {
			if id, ok := ast.Unparen(sel.X).(*ast.Ident); ok && e.info.ObjectOf(id) == e.liveP {
				// a membership query of the live set: Bit of a big.Int (0/1), or a one-argument method of a set
				// type that answers with a bool (its name is the set's contract: Contains, Has, Test)
				k, ok := e.expr(t.Args[0]).(int)
				if !ok {
					return e.bad("bit index not decided")
				}
				in := e.live&(1<<k) != 0
				if tv, ok := e.info.Types[t]; ok {
					if b, isBasic := tv.Type.Underlying().(*types.Basic); isBasic && b.Kind() == types.Bool {
						switch sel.Sel.Name {
						case "Contains", "Has", "Test", "IsSet", "Member":
							return in
						}
						return e.bad("query %s of the live set not modelled", sel.Sel.Name)
					}
				}
				if sel.Sel.Name != "Bit" {
					return e.bad("query %s of the live set not modelled", sel.Sel.Name)
				}
				if in {
					return 1
				}
				return 0
			}
		}
		return e.bad("call %s not modelled", types.ExprString(t.Fun))
	}
	return e.bad("expression %s not modelled", types.ExprString(x))
}
