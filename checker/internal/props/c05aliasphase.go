package props

import (
	"fmt"
	"strings"

	"golang.org/x/tools/go/ssa"

	"mpcverif/internal/load"
	"mpcverif/internal/report"
)

// C05aliasphase: Program.GC knows every alias before it decides that a value is dead.
//
// The backward walk of GC inserts `gc x` after the last use of x unless an
// alias of x is still live.  The alias map must therefore be complete — built
// from all steps — before the first liveness decision reads it.  Populating it
// inside the same backward walk leaves an alias created by an earlier step
// unknown when a later direct use of its source is examined: the source is
// collected while the alias still reads its wires.  In Program.GC, no update
// of a map that is passed to aliasLive (or read for that decision) may be
// reachable from such a read.
func C05aliasphase(p *load.Program, run *report.Run) {
	run.Rule("aliases-complete-before-liveness", "in compiler/ssa.Program.GC, every map that is handed to aliasLive is only updated in code from which no call of aliasLive (and no lookup in that map) has been reached: the alias relation is built over all steps first, then read")
	fn, err := p.Method("compiler/ssa", "Program", "GC")
	if err != nil {
		run.Undecided("aliases-complete-before-liveness", "compiler/ssa.Program.GC", "", err.Error())
		return
	}
	// maps passed to aliasLive
	maps := map[ssa.Value]bool{}
	var reads []ssa.Instruction
	for _, b := range fn.Blocks {
		for _, ins := range b.Instrs {
			c, ok := ins.(ssa.CallInstruction)
			if !ok {
				continue
			}
			callee := c.Common().StaticCallee()
			if callee == nil || callee.Name() != "aliasLive" {
				continue
			}
			for _, a := range c.Common().Args {
				if strings.HasPrefix(a.Type().Underlying().String(), "map[") {
					maps[a] = true
				}
			}
			reads = append(reads, ins)
		}
	}
	if len(reads) == 0 || len(maps) == 0 {
		run.Undecided("aliases-complete-before-liveness", "compiler/ssa.Program.GC", p.Rel(fn.Pos()), "no call of aliasLive with a map argument found")
		return
	}
	var bad []string
	updates := 0
	for _, b := range fn.Blocks {
		for _, ins := range b.Instrs {
			switch t := ins.(type) {
			case *ssa.Lookup:
				if maps[t.X] {
					reads = append(reads, ins)
				}
			}
		}
	}
	for _, b := range fn.Blocks {
		for _, ins := range b.Instrs {
			mu, ok := ins.(*ssa.MapUpdate)
			if !ok || !maps[mu.Map] {
				continue
			}
			// the alias relation only: maps whose updates are lists of values (appends); the live set is
			// maintained during the walk by design
			if !strings.Contains(mu.Value.Type().String(), "[]") {
				continue
			}
			updates++
			for _, r := range reads {
				if _, isLookup := r.(*ssa.Lookup); isLookup && r.Block() == mu.Block() {
					// aliases[k] = append(aliases[k], v): the lookup feeding this very update
					if l := r.(*ssa.Lookup); l.X == mu.Map && feeds(l, mu.Value, 0) {
						continue
					}
				}
				if instrReaches(r, ins) {
					bad = append(bad, fmt.Sprintf("the alias map is updated at %s after it has been read at %s", p.Rel(mu.Pos()), p.Rel(r.Pos())))
					break
				}
			}
		}
	}
	run.Count("alias-map-updates", updates)
	key := "compiler/ssa.Program.GC/alias map"
	if len(bad) > 0 {
		run.Violate("aliases-complete-before-liveness", key, p.Rel(fn.Pos()), "the alias relation is still being built while liveness is decided: an alias created by an earlier step is unknown when a later use of its source is examined, and the source is collected while the alias lives", bad)
	} else {
		run.OK("aliases-complete-before-liveness", key, p.Rel(fn.Pos()), fmt.Sprintf("%d update site(s), all before the first read", updates))
	}
	run.Floor("alias-map-updates", 1)
	_ = load.Module
}

func feeds(src ssa.Value, dst ssa.Value, depth int) bool {
	if src == dst {
		return true
	}
	if depth > 6 {
		return false
	}
	switch t := dst.(type) {
	case *ssa.Call:
		for _, a := range t.Call.Args {
			if feeds(src, a, depth+1) {
				return true
			}
		}
	case *ssa.Extract:
		return feeds(src, t.Tuple, depth+1)
	case *ssa.Phi:
		for _, e := range t.Edges {
			if feeds(src, e, depth+1) {
				return true
			}
		}
	case *ssa.Slice:
		return feeds(src, t.X, depth+1)
	}
	return false
}
