package props

import (
	"fmt"
	"go/ast"
	"go/types"
	"sort"
	"strings"

	"golang.org/x/tools/go/packages"

	"mpcverif/internal/dispatch"
	"mpcverif/internal/load"
	"mpcverif/internal/report"
)

// nonKeyReads lists what a generator body reads from its instruction beyond what the cache key (opcode and operand types) encodes.
func nonKeyReads(pkg *packages.Package, body ast.Node, instrParam string) []string {
	return instrReads(body, instrParam, func(path string) bool {
		switch {
		case path == "Op", strings.HasPrefix(path, "Op."):
			return true
		case strings.HasPrefix(path, "In.[].Type"), strings.HasPrefix(path, "Out.Type"):
			return true
		}
		return false
	})
}

// instrReads lists the selector chains rooted at the instruction variable that covered does not accept.
func instrReads(body ast.Node, instrParam string, covered func(path string) bool) []string {
	set := map[string]bool{}
	// `for _, in := range instr.In`: the value variable stands for an element of that field
	alias := map[string]string{}
	ast.Inspect(body, func(n ast.Node) bool {
		rs, ok := n.(*ast.RangeStmt)
		if !ok || rs.Value == nil {
			return true
		}
		if sel, ok := ast.Unparen(rs.X).(*ast.SelectorExpr); ok {
			if id, ok := ast.Unparen(sel.X).(*ast.Ident); ok && id.Name == instrParam {
				if v, ok := rs.Value.(*ast.Ident); ok {
					alias[v.Name] = sel.Sel.Name + ".[]"
				}
			}
		}
		return true
	})
	ast.Inspect(body, func(n ast.Node) bool {
		sel, ok := n.(*ast.SelectorExpr)
		if !ok {
			return true
		}
		// walk down to the root of the selector chain
		root := ast.Expr(sel)
		var chain []string
		for {
			switch t := root.(type) {
			case *ast.SelectorExpr:
				chain = append([]string{t.Sel.Name}, chain...)
				root = t.X
				continue
			case *ast.IndexExpr:
				chain = append([]string{"[]"}, chain...)
				root = t.X
				continue
			case *ast.ParenExpr:
				root = t.X
				continue
			case *ast.StarExpr:
				root = t.X
				continue
			}
			break
		}
		id, ok := root.(*ast.Ident)
		if !ok {
			return true
		}
		if pre, isAlias := alias[id.Name]; isAlias {
			chain = append(strings.Split(pre, "."), chain...)
		} else if id.Name != instrParam {
			return true
		}
		path := strings.Join(chain, ".")
		switch {
		case covered(path):
		case path == "In" || path == "In.[]" || path == "Out" || path == "In.[].Type" || path == "Out.Type":
			// prefixes of longer chains are visited separately
			return true
		default:
			set[path] = true
		}
		return false
	})
	var out []string
	for k := range set {
		out = append(out, k)
	}
	sort.Strings(out)
	return out
}

// returnsCacheable reports whether a return of the body yields the literal true as its first result.
func returnsCacheable(body ast.Node) bool {
	yes := false
	ast.Inspect(body, func(n ast.Node) bool {
		if _, isLit := n.(*ast.FuncLit); isLit && n != body {
			return false
		}
		if r, ok := n.(*ast.ReturnStmt); ok && len(r.Results) == 2 {
			if id, ok := r.Results[0].(*ast.Ident); ok && id.Name == "true" {
				yes = true
			} else if !ok {
				yes = true // a computed flag: treated as possibly true
			}
		}
		return true
	})
	return yes
}

// C05cache: circuits cached by the streamer are determined by the cache key.
func C05cache(p *load.Program, run *report.Run) {
	canonFor(p)
	run.Rule("stream-cache-key", "a generator that lets its circuit be cached reads nothing from the instruction but the opcode and the operand/result types, which is all the cache key (Instr.StringTyped) encodes")
	pkg, gens := dispatch.MapLiteral(p, "compiler/ssa", "circuitGenerators")
	if gens == nil {
		run.Undecided("stream-cache-key", "compiler/ssa.circuitGenerators", "", "registry not found")
		return
	}
	// the rule is about the key the streamer actually uses
	pkgS, fdS := dispatch.FindFunc(p, "compiler/ssa", "Program", "Stream")
	keys := map[string]bool{}
	if fdS != nil {
		ast.Inspect(fdS.Body, func(n ast.Node) bool {
			if ix, ok := n.(*ast.IndexExpr); ok && strings.HasPrefix(dispatch.TypedString(pkgS, ix.X), "<map[") && strings.HasSuffix(dispatch.TypedString(pkgS, ix.X), "]*Circuit>") {
				keys[cx(ix.Index)] = true
			}
			return true
		})
	}
	// what the key encodes: the typed string (opcode and all operand/result types), or the fields a helper that
	// builds the key from the instruction reads
	covered := func(path string) bool {
		switch {
		case path == "Op", strings.HasPrefix(path, "Op."):
			return true
		case strings.HasPrefix(path, "In.[].Type"), strings.HasPrefix(path, "Out.Type"):
			return true
		}
		return false
	}
	// Instr.String() is the typed string plus the operands' names: a finer key, which covers the same fields
	if len(keys) != 1 || !(keys["instr.StringTyped()"] || keys["instr.String()"]) {
		// a key variable: find the call that builds it from the instruction
		var keyPaths []string
		resolved := false
		if fdS != nil && len(keys) == 1 {
			var kname string
			for k := range keys {
				kname = k
			}
			ast.Inspect(fdS.Body, func(n ast.Node) bool {
				as, ok := n.(*ast.AssignStmt)
				if !ok || len(as.Rhs) != 1 || len(as.Lhs) == 0 || cx(as.Lhs[0]) != kname {
					return true
				}
				call, ok := as.Rhs[0].(*ast.CallExpr)
				if !ok || len(call.Args) != 1 || cx(call.Args[0]) != "instr" {
					return true
				}
				var id *ast.Ident
				switch f := call.Fun.(type) {
				case *ast.Ident:
					id = f
				case *ast.SelectorExpr:
					id = f.Sel
				}
				if fn, ok := pkgS.TypesInfo.Uses[id].(*types.Func); ok {
					if _, fd := declOf(p, fn); fd != nil && len(fd.Type.Params.List) == 1 && len(fd.Type.Params.List[0].Names) == 1 {
						keyPaths = instrReads(fd.Body, fd.Type.Params.List[0].Names[0].Name, func(string) bool { return false })
						resolved = true
					}
				}
				return true
			})
		}
		if !resolved {
			var ks []string
			for k := range keys {
				ks = append(ks, k)
			}
			sort.Strings(ks)
			run.Undecided("stream-cache-key", "compiler/ssa.Program.Stream/cache-key", "", fmt.Sprintf("the streamer's circuit cache is keyed by %v; how that key is built from the instruction was not recognised", ks))
			return
		}
		run.Notes = append(run.Notes, fmt.Sprintf("the streamer's circuit cache key is built from instr.%s", strings.Join(keyPaths, ", instr.")))
		covered = func(path string) bool {
			for _, k := range keyPaths {
				if path == k || strings.HasPrefix(path, k+".") {
					return true
				}
			}
			// the signedness of integer operations is part of the opcode
			return false
		}
		// what the streamer itself reads from the instruction while it builds the circuit that is then cached:
		// the statement list that contains the store into the cache
		var missBody ast.Node
		isCache := func(e ast.Expr) bool {
			t := dispatch.TypedString(pkgS, e)
			return strings.HasPrefix(t, "<map[") && strings.HasSuffix(t, "]*Circuit>")
		}
		// the outermost block that stores into the cache but does not look it up: the path taken on a miss
		ast.Inspect(fdS.Body, func(n ast.Node) bool {
			blk, ok := n.(*ast.BlockStmt)
			if !ok || missBody != nil {
				return true
			}
			stores, lookups := false, false
			ast.Inspect(blk, func(m ast.Node) bool {
				switch t := m.(type) {
				case *ast.AssignStmt:
					for _, l := range t.Lhs {
						if ix, ok := l.(*ast.IndexExpr); ok && isCache(ix.X) {
							stores = true
						}
					}
					for _, r := range t.Rhs {
						if ix, ok := ast.Unparen(r).(*ast.IndexExpr); ok && isCache(ix.X) {
							lookups = true
						}
					}
				}
				return true
			})
			if stores && !lookups {
				missBody = blk
				return false
			}
			return true
		})
		if missBody == nil {
			run.Undecided("stream-cache-key", "compiler/ssa.Program.Stream/cache-key", "", "the statement that stores a circuit into the cache was not found")
			return
		}
		var off []string
		for _, r := range instrReads(missBody, "instr", covered) {
			if strings.HasPrefix(r, "In.[].Type") || strings.HasPrefix(r, "Out.Type") || r == "Op" {
				off = append(off, r)
			}
		}
		if len(off) > 0 {
			run.Violate("stream-cache-key", "compiler/ssa.Program.Stream/cache-key", p.Rel(missBody.Pos()), fmt.Sprintf("the circuit that is cached is built from instr.%s, which the cache key (built from instr.%s) does not contain: two instructions that differ only there share one circuit", strings.Join(off, ", instr."), strings.Join(keyPaths, ", instr.")), nil)
		} else {
			run.OK("stream-cache-key", "compiler/ssa.Program.Stream/cache-key", p.Rel(missBody.Pos()), "every instruction field the cached circuit is built from is part of the key")
		}
	}
	// distinct builtins ever put into a Builtin instruction
	builtins := map[string]bool{}
	for _, pk := range p.Pkgs {
		if !strings.HasPrefix(pk.PkgPath, load.Module+"/compiler") {
			continue
		}
		for _, f := range pk.Syntax {
			ast.Inspect(f, func(n ast.Node) bool {
				c, ok := n.(*ast.CallExpr)
				if !ok {
					return true
				}
				if sel, ok := c.Fun.(*ast.SelectorExpr); ok && sel.Sel.Name == "NewBuiltinInstr" && len(c.Args) > 0 {
					builtins[cx(c.Args[0])] = true
				}
				return true
			})
		}
	}
	var ops []string
	for k := range gens {
		ops = append(ops, k)
	}
	sort.Strings(ops)
	for _, op := range ops {
		key := "compiler/ssa.circuitGenerators/" + op
		run.Count("generators", 1)
		var body ast.Node
		param := "instr"
		resolve := func(e ast.Expr) {
			switch t := e.(type) {
			case *ast.FuncLit:
				body = t.Body
				if len(t.Type.Params.List) > 1 && len(t.Type.Params.List[1].Names) > 0 {
					param = t.Type.Params.List[1].Names[0].Name
				}
			case *ast.Ident:
				if fn, ok := pkg.TypesInfo.Uses[t].(*types.Func); ok {
					if _, fd := declOf(p, fn); fd != nil {
						body = fd.Body
						if len(fd.Type.Params.List) > 1 && len(fd.Type.Params.List[1].Names) > 0 {
							param = fd.Type.Params.List[1].Names[0].Name
						}
					}
				}
			case *ast.CallExpr:
				// newBinary(f): the closure returned by the wrapper
				if id, ok := t.Fun.(*ast.Ident); ok {
					if fn, ok := pkg.TypesInfo.Uses[id].(*types.Func); ok {
						if _, fd := declOf(p, fn); fd != nil {
							ast.Inspect(fd.Body, func(n ast.Node) bool {
								if fl, ok := n.(*ast.FuncLit); ok && body == nil {
									body = fl.Body
									if len(fl.Type.Params.List) > 1 && len(fl.Type.Params.List[1].Names) > 0 {
										param = fl.Type.Params.List[1].Names[0].Name
									}
								}
								return true
							})
						}
					}
				}
			}
		}
		resolve(gens[op])
		if body == nil {
			run.Undecided("stream-cache-key", key, "", "generator body not resolved")
			continue
		}
		reads := instrReads(body, param, covered)
		var offending []string
		for _, r := range reads {
			if r == "Builtin" && len(builtins) <= 1 {
				continue // a single builtin exists: the opcode identifies it
			}
			offending = append(offending, r)
		}
		switch {
		case len(offending) > 0 && returnsCacheable(body):
			run.Violate("stream-cache-key", key, p.Rel(body.Pos()), fmt.Sprintf("the circuit depends on instr.%s, which the cache key does not contain, but the generator marks it cacheable", strings.Join(offending, ", instr.")), nil)
		default:
			run.OK("stream-cache-key", key, p.Rel(body.Pos()), fmt.Sprintf("non-key reads %v", reads))
		}
	}
	run.Floor("generators", 30)
}
