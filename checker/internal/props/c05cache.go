package props

import (
	"fmt"
	"go/ast"
	"go/types"
	"sort"
	"strings"

	"golang.org/x/tools/go/packages"

	"mpcverif/internal/dispatch"
	"mpcverif/internal/load"
	"mpcverif/internal/report"
)

// nonKeyReads lists what a generator body reads from its instruction beyond what the cache key (opcode and operand types) encodes.
func nonKeyReads(pkg *packages.Package, body ast.Node, instrParam string) []string {
	set := map[string]bool{}
	ast.Inspect(body, func(n ast.Node) bool {
		sel, ok := n.(*ast.SelectorExpr)
		if !ok {
			return true
		}
		// walk down to the root of the selector chain
		root := ast.Expr(sel)
		var chain []string
		for {
			switch t := root.(type) {
			case *ast.SelectorExpr:
				chain = append([]string{t.Sel.Name}, chain...)
				root = t.X
				continue
			case *ast.IndexExpr:
				chain = append([]string{"[]"}, chain...)
				root = t.X
				continue
			case *ast.ParenExpr:
				root = t.X
				continue
			case *ast.StarExpr:
				root = t.X
				continue
			}
			break
		}
		id, ok := root.(*ast.Ident)
		if !ok || id.Name != instrParam {
			return true
		}
		path := strings.Join(chain, ".")
		switch {
		case path == "Op", strings.HasPrefix(path, "Op."):
		case strings.HasPrefix(path, "In.[].Type"), strings.HasPrefix(path, "Out.Type"):
		case path == "In" || path == "In.[]" || path == "Out":
			// prefixes of longer chains are visited separately
		default:
			set[path] = true
		}
		return false
	})
	var out []string
	for k := range set {
		out = append(out, k)
	}
	sort.Strings(out)
	return out
}

// returnsCacheable reports whether a return of the body yields the literal true as its first result.
func returnsCacheable(body ast.Node) bool {
	yes := false
	ast.Inspect(body, func(n ast.Node) bool {
		if _, isLit := n.(*ast.FuncLit); isLit && n != body {
			return false
		}
		if r, ok := n.(*ast.ReturnStmt); ok && len(r.Results) == 2 {
			if id, ok := r.Results[0].(*ast.Ident); ok && id.Name == "true" {
				yes = true
			} else if !ok {
				yes = true // a computed flag: treated as possibly true
			}
		}
		return true
	})
	return yes
}

// C05cache: circuits cached by the streamer are determined by the cache key.
func C05cache(p *load.Program, run *report.Run) {
	canonFor(p)
	run.Rule("stream-cache-key", "a generator that lets its circuit be cached reads nothing from the instruction but the opcode and the operand/result types, which is all the cache key (Instr.StringTyped) encodes")
	pkg, gens := dispatch.MapLiteral(p, "compiler/ssa", "circuitGenerators")
	if gens == nil {
		run.Undecided("stream-cache-key", "compiler/ssa.circuitGenerators", "", "registry not found")
		return
	}
	// the rule is about the key the streamer actually uses
	pkgS, fdS := dispatch.FindFunc(p, "compiler/ssa", "Program", "Stream")
	keys := map[string]bool{}
	if fdS != nil {
		ast.Inspect(fdS.Body, func(n ast.Node) bool {
			if ix, ok := n.(*ast.IndexExpr); ok && dispatch.TypedString(pkgS, ix.X) == "<map[string]*Circuit>" {
				keys[cx(ix.Index)] = true
			}
			return true
		})
	}
	if len(keys) != 1 || !keys["instr.StringTyped()"] {
		var ks []string
		for k := range keys {
			ks = append(ks, k)
		}
		sort.Strings(ks)
		run.Notes = append(run.Notes, fmt.Sprintf("the streamer's circuit cache is keyed by %v, not by instr.StringTyped(); the cache-key rule is written for the typed key and was not applied", ks))
		run.OK("stream-cache-key", "compiler/ssa.Program.Stream/cache-key", "", "other key in use; rule not applicable")
		return
	}
	// distinct builtins ever put into a Builtin instruction
	builtins := map[string]bool{}
	for _, pk := range p.Pkgs {
		if !strings.HasPrefix(pk.PkgPath, load.Module+"/compiler") {
			continue
		}
		for _, f := range pk.Syntax {
			ast.Inspect(f, func(n ast.Node) bool {
				c, ok := n.(*ast.CallExpr)
				if !ok {
					return true
				}
				if sel, ok := c.Fun.(*ast.SelectorExpr); ok && sel.Sel.Name == "NewBuiltinInstr" && len(c.Args) > 0 {
					builtins[cx(c.Args[0])] = true
				}
				return true
			})
		}
	}
	var ops []string
	for k := range gens {
		ops = append(ops, k)
	}
	sort.Strings(ops)
	for _, op := range ops {
		key := "compiler/ssa.circuitGenerators/" + op
		run.Count("generators", 1)
		var body ast.Node
		param := "instr"
		resolve := func(e ast.Expr) {
			switch t := e.(type) {
			case *ast.FuncLit:
				body = t.Body
				if len(t.Type.Params.List) > 1 && len(t.Type.Params.List[1].Names) > 0 {
					param = t.Type.Params.List[1].Names[0].Name
				}
			case *ast.Ident:
				if fn, ok := pkg.TypesInfo.Uses[t].(*types.Func); ok {
					if _, fd := declOf(p, fn); fd != nil {
						body = fd.Body
						if len(fd.Type.Params.List) > 1 && len(fd.Type.Params.List[1].Names) > 0 {
							param = fd.Type.Params.List[1].Names[0].Name
						}
					}
				}
			case *ast.CallExpr:
				// newBinary(f): the closure returned by the wrapper
				if id, ok := t.Fun.(*ast.Ident); ok {
					if fn, ok := pkg.TypesInfo.Uses[id].(*types.Func); ok {
						if _, fd := declOf(p, fn); fd != nil {
							ast.Inspect(fd.Body, func(n ast.Node) bool {
								if fl, ok := n.(*ast.FuncLit); ok && body == nil {
									body = fl.Body
									if len(fl.Type.Params.List) > 1 && len(fl.Type.Params.List[1].Names) > 0 {
										param = fl.Type.Params.List[1].Names[0].Name
									}
								}
								return true
							})
						}
					}
				}
			}
		}
		resolve(gens[op])
		if body == nil {
			run.Undecided("stream-cache-key", key, "", "generator body not resolved")
			continue
		}
		reads := nonKeyReads(pkg, body, param)
		var offending []string
		for _, r := range reads {
			if r == "Builtin" && len(builtins) <= 1 {
				continue // a single builtin exists: the opcode identifies it
			}
			offending = append(offending, r)
		}
		switch {
		case len(offending) > 0 && returnsCacheable(body):
			run.Violate("stream-cache-key", key, p.Rel(body.Pos()), fmt.Sprintf("the circuit depends on instr.%s, which the cache key does not contain, but the generator marks it cacheable", strings.Join(offending, ", instr.")), nil)
		default:
			run.OK("stream-cache-key", key, p.Rel(body.Pos()), fmt.Sprintf("non-key reads %v", reads))
		}
	}
	run.Floor("generators", 30)
}
