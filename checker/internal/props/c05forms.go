package props

import (
	"fmt"
	"go/token"
	"go/types"
	"strings"

	"golang.org/x/tools/go/ssa"

	"mpcverif/internal/fpai"
	"mpcverif/internal/load"
	"mpcverif/internal/report"
)

// streamRecord is what the streaming garbler was derived to write for one gate.
type streamRecord struct {
	assume map[string]bool
	log    []fpai.SinkWrite
	l0, l1 fpai.LabelV
	idNext fpai.IntV
	bytes  fpai.IntV
	// storage the garbler used for the two inputs and the output: "wire:<index>" or "tmp:<index>"
	locA, locB, locC string
}

func mentions(sym, what string) bool { return strings.Contains(sym, what) }

// wireFor picks the abstract wire a symbolic index refers to.
func wireFor(key string, a, b *fpai.Obj) (*fpai.Obj, error) {
	switch {
	case mentions(key, "in0") && !mentions(key, "in1"):
		return a, nil
	case mentions(key, "in1") && !mentions(key, "in0"):
		return b, nil
	}
	return nil, fmt.Errorf("wire index %s is not derived from one gate input", key)
}

// C05forms: the streaming garbler/evaluator pair computes the same forms as the whole-circuit pair,
// and the evaluator consumes exactly the record the garbler writes.
func C05forms(p *load.Program, run *report.Run) {
	run.Rule("stream-garble-forms", "Streaming.garbleGate yields, per op and permute bits and for every wire class / id width, the same output wire, rows and tweak use as Gate.garbleInto")
	run.Rule("stream-record-codec", "the gate record written by garbleGate (op byte with flags, wire ids, rows) is exactly what StreamEvaluator's gate loop consumes")
	run.Rule("stream-eval-forms", "StreamEvaluator's gate body yields L0 ^ f_op(va,vb)*r on the garbler's record")
	garbleInto, e1 := p.Method("circuit", "Gate", "garbleInto")
	garbleGate, e2 := p.Method("circuit", "Streaming", "garbleGate")
	streamT, e3 := p.Type("circuit", "Streaming")
	evalFn, e4 := p.Func("circuit", "StreamEvaluator")
	for _, e := range []error{e1, e2, e3, e4} {
		if e != nil {
			run.Undecided("anchor", "circuit", "", e.Error())
			return
		}
	}
	tt, err := truthTables(p, run)
	if err != nil {
		run.Undecided("stream-eval-forms", "circuit.Circuit.Compute", "", err.Error())
		return
	}
	whole := garbleForms(p, run, garbleInto, "O3-garble-invariant")
	ss := streamT.Underlying().(*types.Struct)
	mod := "(*" + load.Module + "/circuit.Streaming)."
	region, rerr := evalRegion(p, evalFn)
	if rerr != nil {
		run.Undecided("stream-eval-forms", "circuit.StreamEvaluator", p.Rel(evalFn.Pos()), rerr.Error())
	}

	// the space Streaming.Garble reserves before each garbleGate call
	reserve, maxRecord := int64(-1), int64(0)
	if g, err := p.Method("circuit", "Streaming", "Garble"); err == nil {
		reserve = reservedPerCall(g, garbleGate)
	}
	run.Rule("stream-record-space", "the bytes garbleGate writes equal its buffer-position advance and fit the space Streaming.Garble reserves for the call: a constant NeedSpace(K) that dominates it (K per record), or NeedSpace(K) under `i % B == 0` for the gate counter i (from 0, step 1) in a test that dominates the call (K/B per record)")
	if reserve < 0 {
		run.Violate("stream-record-space", "circuit.Streaming.Garble/NeedSpace", p.Rel(garbleGate.Pos()), "no constant space reservation dominates the garbleGate call", nil)
	}
	defer func() {
		if reserve >= 0 {
			run.OK("stream-record-space", "circuit.Streaming.Garble/NeedSpace", p.Rel(garbleGate.Pos()), fmt.Sprintf("largest record %d bytes, %d reserved", maxRecord, reserve))
		}
	}()
	narrowFlags := map[string]string{}
	for op := 0; op < 5; op++ {
		for pa := 0; pa < 2; pa++ {
			for pb := 0; pb < 2; pb++ {
				gf := whole[[3]int{op, pa, pb}]
				if gf == nil {
					continue
				}
				base := fmt.Sprintf("circuit.Streaming.garbleGate/%s/pa=%d,pb=%d", opNames[op], pa, pb)
				var records []*streamRecord
				leaves, err := fpai.Explore(map[string]bool{}, func(assume map[string]bool) error {
					in := newInterp(pa == 1, pb == 1)
					in.Assume = assume
					// a flag of the session that selects the narrow encoding for the whole circuit: the narrowing keeps
					// the index if the flag is set only when every index of the circuit fits (narrowFlagInvariant)
					in.NarrowOK = func(in *fpai.Interp, sym string, max int64) bool {
						if max < 0xffff {
							return false
						}
						for k, v := range in.Assume {
							if !v || !strings.HasPrefix(k, "Streaming.") {
								continue
							}
							f := strings.TrimPrefix(k, "Streaming.")
							why, seen := narrowFlags[f]
							if !seen {
								why = narrowFlagInvariant(p, f)
								narrowFlags[f] = why
							}
							if why == "" {
								return true
							}
						}
						return false
					}
					aw := &fpai.Obj{V: fpai.StructV{F: []fpai.Val{fpai.Lab("a0"), fpai.Lab("a0", "r")}}}
					bw := &fpai.Obj{V: fpai.StructV{F: []fpai.Val{fpai.Lab("b0"), fpai.Lab("b0", "r")}}}
					var outWire fpai.Val
					locA, locB, locC := "tmp:in0", "tmp:in1", "tmp:out"
					in.Models[mod+"wire"] = func(in *fpai.Interp, a []fpai.Val, _ ssa.CallInstruction) (fpai.Val, error) {
						key := a[1].(fpai.IntV).String()
						w, err := wireFor(key, aw, bw)
						if err != nil {
							return nil, &fpai.Undecided{Why: err.Error()}
						}
						if w == aw {
							locA = "wire:" + key
						} else {
							locB = "wire:" + key
						}
						return fpai.Clone(w.V), nil
					}
					in.Models[mod+"setWire"] = func(in *fpai.Interp, a []fpai.Val, _ ssa.CallInstruction) (fpai.Val, error) {
						outWire = fpai.Clone(a[2])
						locC = "wire:" + a[1].(fpai.IntV).String()
						return fpai.NilV{}, nil
					}
					for _, w := range []string{"16", "32"} {
						w := w
						in.Models["(encoding/binary.bigEndian).PutUint"+w] = func(in *fpai.Interp, a []fpai.Val, _ ssa.CallInstruction) (fpai.Val, error) {
							s, ok := a[1].(*fpai.Sink)
							if !ok {
								return nil, &fpai.Undecided{Why: fmt.Sprintf("PutUint%s into %T", w, a[1])}
							}
							s.Log = append(s.Log, fpai.SinkWrite{Kind: "u" + w, V: a[2]})
							return fpai.NilV{}, nil
						}
					}
					stream := fpai.ZeroVal(streamT).(fpai.StructV)
					tmp := &fpai.SymSlice{Name: "tmp", M: map[string]*fpai.Obj{"in0": aw, "in1": bw, "out": {V: fpai.StructV{F: []fpai.Val{fpai.Lab("stale:wire.L0"), fpai.Lab("stale:wire.L1")}}}}}
					idxSlice := func(name string) *fpai.SymSlice {
						return &fpai.SymSlice{Name: name, M: map[string]*fpai.Obj{}, Default: func(key string) *fpai.Obj {
							return &fpai.Obj{V: fpai.IntV{Sym: name + "[" + key + "]"}}
						}}
					}
					for i := 0; i < ss.NumFields(); i++ {
						switch ss.Field(i).Name() {
						case "r":
							stream.F[i] = fpai.Lab("r")
						case "alg":
							stream.F[i] = fpai.OpaqueV{Name: "alg"}
						case "tmp":
							stream.F[i] = tmp
						case "in":
							stream.F[i] = idxSlice("in")
						case "out":
							stream.F[i] = idxSlice("out")
						case "firstTmp":
							stream.F[i] = fpai.IntV{Sym: "firstTmp"}
						case "firstOut":
							stream.F[i] = fpai.IntV{Sym: "firstOut"}
						default:
							// any other scalar state of the session object is unknown at an arbitrary gate:
							// a flag is an open condition (both values are explored), a number a symbol
							if bt, ok := ss.Field(i).Type().Underlying().(*types.Basic); ok {
								switch {
								case bt.Info()&types.IsBoolean != 0:
									stream.F[i] = fpai.BoolV{Sym: "Streaming." + ss.Field(i).Name()}
								case bt.Info()&types.IsInteger != 0:
									stream.F[i] = fpai.IntV{Sym: "Streaming." + ss.Field(i).Name()}
								}
							}
						}
					}
					idp := &fpai.Obj{V: fpai.IntV{Sym: "id0"}}
					table := &fpai.Obj{V: fpai.ArrV{E: []fpai.Val{fpai.Lab("stale:row0"), fpai.Lab("stale:row1"), fpai.Lab("stale:row2"), fpai.Lab("stale:row3")}}}
					sink := &fpai.Sink{Name: "buf"}
					bufpos := &fpai.Obj{V: fpai.IntV{Sym: "bp"}}
					res, err := in.Call(garbleGate, []fpai.Val{fpai.PtrV{O: &fpai.Obj{V: stream}}, fpai.PtrV{O: newGate(op)}, fpai.PtrV{O: idp},
						fpai.SliceV{O: table, Lo: 0, Hi: 4}, fpai.PtrV{O: &fpai.Obj{V: fpai.DataV{}}}, sink, fpai.PtrV{O: bufpos}})
					if err != nil {
						return err
					}
					if _, isErr := res.(fpai.ErrV); isErr {
						return &fpai.Undecided{Why: "garbleGate returns an error for a valid gate"}
					}
					if outWire == nil {
						outWire = tmp.M["out"].V
					}
					ow, ok := outWire.(fpai.StructV)
					if !ok {
						return &fpai.Undecided{Why: "no output wire written"}
					}
					if op == 4 {
						locB = ""
					}
					rec := &streamRecord{locA: locA, locB: locB, locC: locC, assume: assume, log: sink.Log, l0: ow.F[0].(fpai.LabelV), l1: ow.F[1].(fpai.LabelV), idNext: idp.V.(fpai.IntV)}
					if bp, ok := bufpos.V.(fpai.IntV); ok {
						rec.bytes = bp
					}
					records = append(records, rec)
					return nil
				}, 12)
				run.Count("stream-garbler-leaves", leaves)
				if err != nil {
					run.Undecided("stream-garble-forms", base, p.Rel(garbleGate.Pos()), err.Error())
					continue
				}
				okAll := true
				for _, rec := range records {
					var rows []fpai.LabelV
					for _, w := range rec.log {
						if w.Kind == "label" {
							rows = append(rows, w.V.(fpai.LabelV))
						}
					}
					switch {
					case rec.l0.Canon() != gf.L0.Canon() || rec.l1.Canon() != gf.L1.Canon():
						run.Violate("stream-garble-forms", base+assumeKey(rec.assume), p.Rel(garbleGate.Pos()), "output wire differs from garbleInto",
							map[string]string{"stream L0": rec.l0.Canon(), "whole L0": gf.L0.Canon()})
						okAll = false
					case len(rows) != len(gf.Rows):
						run.Violate("stream-garble-forms", base+assumeKey(rec.assume), p.Rel(garbleGate.Pos()), fmt.Sprintf("%d rows streamed, %d rows in garbleInto", len(rows), len(gf.Rows)), nil)
						okAll = false
					case rec.idNext != gf.IDAfter:
						run.Violate("stream-garble-forms", base+assumeKey(rec.assume), p.Rel(garbleGate.Pos()), fmt.Sprintf("tweak counter %v vs %v", rec.idNext, gf.IDAfter), nil)
						okAll = false
					default:
						for k := range rows {
							if rows[k].Canon() != gf.Rows[k].Canon() {
								run.Violate("stream-garble-forms", fmt.Sprintf("%s%s/row[%d]", base, assumeKey(rec.assume), k), p.Rel(garbleGate.Pos()), "row differs from garbleInto",
									map[string]string{"stream": rows[k].Canon(), "whole": gf.Rows[k].Canon()})
								okAll = false
							}
							if !rows[k].HasHashAtom() {
								run.Violate("stream-garble-forms", fmt.Sprintf("%s%s/row[%d]", base, assumeKey(rec.assume), k), p.Rel(garbleGate.Pos()), "a row without a hash atom is written to the stream", nil)
								okAll = false
							}
						}
					}
				}
				for _, rec := range records {
					width := int64(0)
					for _, w := range rec.log {
						width += map[string]int64{"u8": 1, "u16": 2, "u32": 4, "label": 16}[w.Kind]
					}
					switch {
					case rec.bytes.Sym != "bp" || rec.bytes.K != width:
						run.Violate("stream-record-space", base+assumeKey(rec.assume), p.Rel(garbleGate.Pos()), fmt.Sprintf("buffer position advances by %v for a %d-byte record", rec.bytes, width), nil)
						okAll = false
					case reserve >= 0 && width > reserve:
						run.Violate("stream-record-space", base+assumeKey(rec.assume), p.Rel(garbleGate.Pos()), fmt.Sprintf("a %d-byte record is written after reserving %d bytes", width, reserve), nil)
						okAll = false
					}
					if width > maxRecord {
						maxRecord = width
					}
				}
				if okAll {
					run.OK("stream-garble-forms", base, p.Rel(garbleGate.Pos()), fmt.Sprintf("%d wire-class/id-width leaves agree with garbleInto", len(records)))
				}
				// evaluator side on every record
				if region == nil {
					continue
				}
				for _, rec := range records {
					for va := 0; va < 2; va++ {
						for vb := 0; vb < 2; vb++ {
							if op == 4 && vb == 1 {
								continue
							}
							key := fmt.Sprintf("circuit.StreamEvaluator/%s/pa=%d,pb=%d/va=%d,vb=%d%s", opNames[op], pa, pb, va, vb, assumeKey(rec.assume))
							got, idNext, left, err := region.run(p, rec, pa == 1, pb == 1, va == 1, vb == 1)
							run.Count("stream-evaluator-cells", 1)
							if err != nil {
								if u, ok := err.(*fpai.Undecided); ok {
									run.Undecided("stream-eval-forms", key, p.Rel(evalFn.Pos()), u.Why)
								} else {
									run.Violate("stream-record-codec", key, p.Rel(evalFn.Pos()), err.Error(), nil)
								}
								continue
							}
							want := gf.L0
							if tt[[3]int{op, va, vb}] == 1 {
								want = gf.L1
							}
							switch {
							case left != 0:
								run.Violate("stream-record-codec", key, p.Rel(evalFn.Pos()), fmt.Sprintf("%d fields of the garbler's record are not consumed by the evaluator", left), nil)
							case got.Canon() != want.Canon():
								run.Violate("stream-eval-forms", key, p.Rel(evalFn.Pos()), "evaluated label differs from the label of f_op(va,vb)",
									map[string]string{"got": got.Canon(), "want": want.Canon()})
							case region.idPhi != nil && idNext != gf.IDAfter:
								run.Violate("stream-eval-forms", key, p.Rel(evalFn.Pos()), fmt.Sprintf("tweak counter %v vs garbler %v", idNext, gf.IDAfter), nil)
							default:
								run.OK("stream-eval-forms", key, p.Rel(evalFn.Pos()), "")
							}
						}
					}
				}
			}
		}
	}
	for f, why := range narrowFlags {
		key := "circuit.Streaming." + f + "/selects the 16-bit encoding"
		if why != "" {
			run.Violate("stream-record-codec", key, p.Rel(garbleGate.Pos()), "the flag selects 16-bit wire indices for a whole circuit, but "+why, nil)
		} else {
			run.OK("stream-record-codec", key, p.Rel(garbleGate.Pos()), "set only when every permanent index and every circuit wire number of the circuit fits 16 bits")
		}
	}
	run.Floor("stream-garbler-leaves", 100)
	run.Floor("stream-evaluator-cells", 300)
}

func assumeKey(a map[string]bool) string {
	var ks []string
	for k, v := range a {
		if v {
			ks = append(ks, k)
		} else {
			ks = append(ks, "!"+k)
		}
	}
	if len(ks) == 0 {
		return ""
	}
	// stable order
	for i := range ks {
		for j := i + 1; j < len(ks); j++ {
			if ks[j] < ks[i] {
				ks[i], ks[j] = ks[j], ks[i]
			}
		}
	}
	return "/" + strings.Join(ks, ",")
}

// evalRegionT is the gate body of StreamEvaluator.
type evalRegionT struct {
	fn    *ssa.Function
	loop  fpai.Loop
	free  []ssa.Value
	idPhi *ssa.Phi
	// idBase: without a running counter, the value every tweak of the gate body is an offset of
	idBase ssa.Value
}

func evalRegion(p *load.Program, fn *ssa.Function) (*evalRegionT, error) {
	rb := fpai.FindInstr(fn, func(i ssa.Instruction) bool {
		c, ok := i.(*ssa.Call)
		return ok && c.Call.StaticCallee() != nil && c.Call.StaticCallee().String() == "(*"+load.Module+"/p2p.Conn).ReceiveByte"
	})
	if rb == nil {
		return nil, fmt.Errorf("gate opcode read (ReceiveByte) not found")
	}
	loop, ok := fpai.EnclosingLoop(rb.Block())
	if !ok {
		return nil, fmt.Errorf("gate opcode read is not in a loop")
	}
	r := &evalRegionT{fn: fn, loop: loop, free: fpai.FreeValues(loop)}
	for _, ins := range loop.Header.Instrs {
		if ph, ok := ins.(*ssa.Phi); ok && ph.Comment == "id" {
			r.idPhi = ph
		}
	}
	if r.idPhi == nil {
		// tweaks derived from the gate's position instead of a running counter: every tweak handed to the
		// hash primitives in the gate body is one base value plus a constant; the base is kept symbolic
		bases := map[ssa.Value]bool{}
		for _, b := range fn.Blocks {
			// the blocks of the gate loop: dominated by its body and able to come back to the header
			if !(loop.Body.Dominates(b) && (b == loop.Header || blockReaches(b, loop.Header))) {
				continue
			}
			for _, ins := range b.Instrs {
				c, ok := ins.(*ssa.Call)
				if !ok || c.Call.StaticCallee() == nil || c.Call.StaticCallee().Pkg == nil || c.Call.StaticCallee().Pkg.Pkg.Path() != load.Module+"/circuit" {
					continue
				}
				switch c.Call.StaticCallee().Name() {
				case "encrypt", "decrypt", "encryptHalf":
				default:
					continue
				}
				for i, prm := range c.Call.StaticCallee().Params {
					if bt, ok := prm.Type().Underlying().(*types.Basic); ok && bt.Kind() == types.Uint32 && i < len(c.Call.Args) {
						v := c.Call.Args[i]
						for {
							if bo, ok := v.(*ssa.BinOp); ok && (bo.Op == token.ADD || bo.Op == token.OR) {
								if _, isK := bo.Y.(*ssa.Const); isK {
									v = bo.X
									continue
								}
							}
							break
						}
						bases[v] = true
					}
				}
			}
		}
		if len(bases) == 1 {
			for v := range bases {
				if _, isConst := v.(*ssa.Const); !isConst {
					r.idBase = v
				}
			}
		}
	}
	if r.idPhi == nil && r.idBase == nil {
		return nil, fmt.Errorf("tweak counter of the gate loop not found")
	}
	return r, nil
}

func (r *evalRegionT) run(p *load.Program, rec *streamRecord, pa, pb, va, vb bool) (out fpai.LabelV, idNext fpai.IntV, left int, err error) {
	in := newInterp(pa, pb)
	in.Assume = map[string]bool{}
	pos := 0
	next := func(kinds ...string) (fpai.Val, error) {
		if pos >= len(rec.log) {
			return nil, fmt.Errorf("the evaluator reads a field the garbler did not write (after %d fields)", pos)
		}
		w := rec.log[pos]
		okKind := false
		for _, k := range kinds {
			if w.Kind == k {
				okKind = true
			}
		}
		if !okKind {
			return nil, fmt.Errorf("field %d: the garbler wrote %s, the evaluator reads %v", pos, w.Kind, kinds)
		}
		pos++
		return w.V, nil
	}
	conn := "(*" + load.Module + "/p2p.Conn)."
	var codecErr error
	recv := func(kind string, tuple bool) fpai.Model {
		return func(in *fpai.Interp, a []fpai.Val, _ ssa.CallInstruction) (fpai.Val, error) {
			v, err := next(kind)
			if err != nil {
				codecErr = err
				return nil, &fpai.Undecided{Why: err.Error()}
			}
			return fpai.TupleV{v, fpai.NilV{}}, nil
		}
	}
	in.Models[conn+"ReceiveByte"] = recv("u8", true)
	in.Models[conn+"ReceiveUint16"] = recv("u16", true)
	in.Models[conn+"ReceiveUint32"] = recv("u32", true)
	in.Models[conn+"ReceiveLabel"] = func(in *fpai.Interp, a []fpai.Val, _ ssa.CallInstruction) (fpai.Val, error) {
		v, err := next("label")
		if err != nil {
			codecErr = err
			return nil, &fpai.Undecided{Why: err.Error()}
		}
		if e := in.Store(a[1], v); e != nil {
			return nil, e
		}
		return fpai.NilV{}, nil
	}
	al, bl := fpai.Lab("a0"), fpai.Lab("b0")
	if va {
		al = fpai.Lab("a0", "r")
	}
	if vb {
		bl = fpai.Lab("b0", "r")
	}
	se := "(*" + load.Module + "/circuit.StreamEval)."
	loc := func(tmp, idx fpai.Val) (string, error) {
		t, ok1 := tmp.(fpai.BoolV)
		i, ok2 := idx.(fpai.IntV)
		if !ok1 || !ok2 || !t.Known {
			return "", &fpai.Undecided{Why: fmt.Sprintf("wire address (%T, %T) is not decided", tmp, idx)}
		}
		if t.B {
			return "tmp:" + i.String(), nil
		}
		return "wire:" + i.String(), nil
	}
	in.Models[se+"Get"] = func(in *fpai.Interp, a []fpai.Val, _ ssa.CallInstruction) (fpai.Val, error) {
		l, err := loc(a[1], a[2])
		if err != nil {
			return nil, err
		}
		switch l {
		case rec.locA:
			return al, nil
		case rec.locB:
			return bl, nil
		}
		codecErr = fmt.Errorf("the evaluator reads %s; the garbler's inputs are %s and %s", l, rec.locA, rec.locB)
		return nil, &fpai.Undecided{Why: codecErr.Error()}
	}
	var result fpai.Val
	in.Models[se+"Set"] = func(in *fpai.Interp, a []fpai.Val, _ ssa.CallInstruction) (fpai.Val, error) {
		l, err := loc(a[1], a[2])
		if err != nil {
			return nil, err
		}
		if l != rec.locC {
			codecErr = fmt.Errorf("the evaluator stores the output at %s; the garbler stored it at %s", l, rec.locC)
			return nil, &fpai.Undecided{Why: codecErr.Error()}
		}
		result = a[3]
		return fpai.NilV{}, nil
	}
	env := map[ssa.Value]fpai.Val{}
	for _, v := range r.free {
		switch t := v.(type) {
		case *ssa.Alloc:
			env[v] = fpai.PtrV{O: &fpai.Obj{V: fpai.ZeroVal(t.Type().(*types.Pointer).Elem())}}
		case *ssa.Phi:
			if t == r.idPhi {
				env[v] = fpai.IntV{Sym: "id0"}
			} else {
				env[v] = fpai.IntV{K: 0}
			}
		default:
			if bt, ok := v.Type().Underlying().(*types.Basic); ok && bt.Info()&types.IsInteger != 0 {
				env[v] = fpai.IntV{K: 1}
			} else {
				env[v] = fpai.OpaqueV{Name: v.Name()}
			}
		}
	}
	if r.idBase != nil {
		in.ValueOverride = map[ssa.Value]fpai.Val{r.idBase: fpai.IntV{Sym: "id0"}}
	}
	ret, outEnv, err := in.RunRegion(r.fn, r.loop.Body, r.loop.Header, env, func(from, to *ssa.BasicBlock) bool { return to == r.loop.Header })
	if codecErr != nil {
		return nil, fpai.IntV{}, 0, codecErr
	}
	if err != nil {
		return nil, fpai.IntV{}, 0, err
	}
	exit, ok := ret.(fpai.RegionExit)
	if !ok {
		return nil, fpai.IntV{}, 0, fmt.Errorf("the evaluator rejects the honest record")
	}
	for k, pred := range r.loop.Header.Preds {
		if r.idPhi == nil {
			break
		}
		if pred == exit.From {
			if v, ok := outEnv[r.idPhi.Edges[k]].(fpai.IntV); ok {
				idNext = v
			} else if r.idPhi.Edges[k] == ssa.Value(r.idPhi) {
				idNext = fpai.IntV{Sym: "id0"}
			}
		}
	}
	lv, ok := result.(fpai.LabelV)
	if !ok {
		return nil, fpai.IntV{}, 0, &fpai.Undecided{Why: "no output label stored"}
	}
	return lv, idNext, len(rec.log) - pos, nil
}

// reservedPerCall: the constant number of bytes role reserves (NeedSpace) for each call of record, or -1.
func reservedPerCall(role, record *ssa.Function) int64 {
	var recCalls []*ssa.Call
	for _, b := range role.Blocks {
		for _, ins := range b.Instrs {
			if c, ok := ins.(*ssa.Call); ok && c.Call.StaticCallee() == record {
				recCalls = append(recCalls, c)
			}
		}
	}
	if len(recCalls) == 0 {
		return -1
	}
	best := int64(-1)
	for _, b := range role.Blocks {
		for _, ins := range b.Instrs {
			c, ok := ins.(*ssa.Call)
			if !ok || c.Call.StaticCallee() == nil || c.Call.StaticCallee().Name() != "NeedSpace" || len(c.Call.Args) < 2 {
				continue
			}
			k, ok := c.Call.Args[1].(*ssa.Const)
			if !ok {
				continue
			}
			all := true
			for _, rc := range recCalls {
				if !(b.Dominates(rc.Block()) && (b != rc.Block() || instrIndex(c) < instrIndex(rc))) {
					all = false
				}
			}
			if all {
				best = k.Int64()
				continue
			}
			// batched: the reservation sits on the true edge of `i % B == 0` of a block that dominates the calls
			for _, p := range role.Blocks {
				iff, ok := p.Instrs[len(p.Instrs)-1].(*ssa.If)
				if !ok || len(p.Succs) != 2 {
					continue
				}
				eq, ok := iff.Cond.(*ssa.BinOp)
				if !ok || eq.Op != token.EQL {
					continue
				}
				z, ok := eq.Y.(*ssa.Const)
				if !ok || z.Value == nil || z.Int64() != 0 {
					continue
				}
				rem, ok := eq.X.(*ssa.BinOp)
				if !ok || rem.Op != token.REM {
					continue
				}
				bc, ok := rem.Y.(*ssa.Const)
				if !ok || bc.Value == nil || bc.Int64() <= 0 {
					continue
				}
				if !(p.Succs[0] == b || p.Succs[0].Dominates(b)) || p.Succs[1] == b || p.Succs[1].Dominates(b) {
					continue
				}
				// the counter: phi(0, phi+1)
				ph, ok := rem.X.(*ssa.Phi)
				if !ok || len(ph.Edges) != 2 {
					continue
				}
				zero, step := false, false
				for _, e := range ph.Edges {
					if kc, ok := e.(*ssa.Const); ok && kc.Value != nil && kc.Int64() == 0 {
						zero = true
					}
					if add, ok := e.(*ssa.BinOp); ok && add.Op == token.ADD && add.X == ssa.Value(ph) {
						if one, ok := add.Y.(*ssa.Const); ok && one.Value != nil && one.Int64() == 1 {
							step = true
						}
					}
				}
				if !zero || !step {
					continue
				}
				dom := true
				for _, rc := range recCalls {
					if !p.Dominates(rc.Block()) || !blockReaches(ph.Block(), ph.Block()) {
						dom = false
					}
					// exactly one record per iteration: the call is not in a loop nested inside the counter's loop
				}
				if dom {
					best = k.Int64() / bc.Int64()
				}
			}
		}
	}
	return best
}
