package props

import (
	"fmt"
	"go/ast"
	"go/types"
	"strings"

	"mpcverif/internal/dispatch"
	"mpcverif/internal/load"
	"mpcverif/internal/report"
)

// C05header: the four numbers that precede a streamed circuit are used for what they were sent as.
func C05header(p *load.Program, run *report.Run) {
	run.Rule("stream-header-use", "Program.garble sends step, gate count, size of the circuit-local wire space and highest wire id + 1; StreamEvaluator uses the second as the bound of its gate loop, the third to size the temporary wires and the fourth to grow the permanent wire store (all four are Uint32, so only their use tells them apart)")
	pkgS := p.ByPath[load.Module+"/compiler/ssa"]
	pkgC := p.ByPath[load.Module+"/circuit"]
	_, fg := dispatch.FindFunc(p, "compiler/ssa", "Program", "garble")
	_, fe := dispatch.FindFunc(p, "circuit", "", "StreamEvaluator")
	_, fi := dispatch.FindFunc(p, "circuit", "StreamEval", "InitCircuit")
	if pkgS == nil || pkgC == nil || fg == nil || fe == nil || fi == nil {
		run.Undecided("stream-header-use", "compiler/ssa.Program.garble/circuit.StreamEvaluator", "", "function not found")
		return
	}
	// what is sent
	var sent []string
	ast.Inspect(fg.Body, func(n ast.Node) bool {
		c, ok := n.(*ast.CallExpr)
		if !ok {
			return true
		}
		if _, name, _ := callName(c); name == "SendUint32" && len(c.Args) == 1 {
			a := types.ExprString(c.Args[0])
			switch {
			case strings.Contains(a, "OpCircuit"):
			case strings.Contains(a, "NumGates"):
				sent = append(sent, "gates")
			case strings.Contains(a, "NumWires"):
				sent = append(sent, "tmp-space")
			case strings.Contains(a, "maxID"):
				sent = append(sent, "max-id")
			default:
				sent = append(sent, "step")
			}
		}
		return true
	})
	// InitCircuit: which parameter grows the store, which sizes tmp
	role := map[int]string{}
	var params []string
	for _, f := range fi.Type.Params.List {
		for _, n := range f.Names {
			params = append(params, n.Name)
		}
	}
	ast.Inspect(fi.Body, func(n ast.Node) bool {
		c, ok := n.(*ast.CallExpr)
		if !ok {
			return true
		}
		_, name, _ := callName(c)
		for i, prm := range params {
			for _, a := range c.Args {
				if types.ExprString(a) == prm {
					if name == "ensureWires" {
						role[i] = "max-id"
					}
					if name == "make" {
						role[i] = "tmp-space"
					}
				}
			}
		}
		return true
	})
	// the OpCircuit arm of the evaluator
	var arm *ast.CaseClause
	ast.Inspect(fe.Body, func(n ast.Node) bool {
		if cc, ok := n.(*ast.CaseClause); ok && arm == nil {
			for _, e := range cc.List {
				if types.ExprString(e) == "OpCircuit" {
					arm = cc
				}
			}
		}
		return true
	})
	if arm == nil {
		run.Undecided("stream-header-use", "circuit.StreamEvaluator/OpCircuit", p.Rel(fe.Pos()), "arm not found")
		return
	}
	var vars []string
	for _, s := range arm.Body {
		if as, ok := s.(*ast.AssignStmt); ok && len(as.Rhs) == 1 {
			if c, ok := as.Rhs[0].(*ast.CallExpr); ok {
				if _, name, _ := callName(c); name == "ReceiveUint32" && len(vars) < 4 {
					vars = append(vars, types.ExprString(as.Lhs[0]))
				}
			}
		}
	}
	use := map[string]string{}
	ast.Inspect(arm, func(n ast.Node) bool {
		switch t := n.(type) {
		case *ast.ForStmt:
			if be, ok := t.Cond.(*ast.BinaryExpr); ok {
				hasGateRead := false
				ast.Inspect(t.Body, func(m ast.Node) bool {
					if c, ok := m.(*ast.CallExpr); ok {
						if _, name, _ := callName(c); name == "ReceiveByte" {
							hasGateRead = true
						}
					}
					return true
				})
				if hasGateRead {
					use[types.ExprString(be.Y)] = "gates"
				}
			}
		case *ast.CallExpr:
			if _, name, _ := callName(t); name == "InitCircuit" {
				for i, a := range t.Args {
					if r, ok := role[i]; ok {
						use[types.ExprString(a)] = r
					}
				}
			}
		}
		return true
	})
	var got []string
	for i, v := range vars {
		if i == 0 {
			got = append(got, "step")
			continue
		}
		got = append(got, use[v])
	}
	key := "compiler/ssa.Program.garble/circuit.StreamEvaluator/header"
	run.Count("header-fields", len(sent))
	if len(sent) == 4 && fmt.Sprint(sent) == fmt.Sprint(got) {
		run.OK("stream-header-use", key, p.Rel(fg.Pos()), strings.Join(sent, ", "))
	} else {
		run.Violate("stream-header-use", key, p.Rel(fe.Pos()), fmt.Sprintf("sent as %v, used as %v", sent, got), nil)
	}
	run.Floor("header-fields", 4)
}

// C19setconn: a connection slot of a peer is assigned at most once.
func C19setconn(p *load.Program, run *report.Run) {
	run.Rule("setconn-once", "Peer.SetConn refuses to overwrite a slot that already holds a connection (two connections for one id would leave one of them unread)")
	_, fd := dispatch.FindFunc(p, "p2p", "Peer", "SetConn")
	if fd == nil {
		run.Undecided("setconn-once", "p2p.Peer.SetConn", "", "function not found")
		return
	}
	slot := ""
	guarded := false
	for _, s := range fd.Body.List {
		switch t := s.(type) {
		case *ast.IfStmt:
			if be, ok := t.Cond.(*ast.BinaryExpr); ok && types.ExprString(be.Y) == "nil" && be.Op.String() == "!=" && len(t.Body.List) > 0 {
				if r, ok := t.Body.List[len(t.Body.List)-1].(*ast.ReturnStmt); ok && len(r.Results) == 1 && types.ExprString(r.Results[0]) != "nil" {
					slot = types.ExprString(be.X)
				}
			}
		case *ast.AssignStmt:
			if len(t.Lhs) == 1 && slot != "" && types.ExprString(t.Lhs[0]) == slot {
				guarded = true
			}
		}
	}
	run.Count("setconn-sites", 1)
	if guarded {
		run.OK("setconn-once", "p2p.Peer.SetConn", p.Rel(fd.Pos()), slot+" checked before it is assigned")
	} else {
		run.Violate("setconn-once", "p2p.Peer.SetConn", p.Rel(fd.Pos()), "a slot can be overwritten", nil)
	}
	run.Floor("setconn-sites", 1)
}
