package props

import (
	"fmt"
	"go/ast"
	"go/types"

	"mpcverif/internal/dispatch"
	"mpcverif/internal/load"
	"mpcverif/internal/report"
)

// C05native: a native circuit gets every one of its input wires, in both generators.
//
// `native("x.circ", a, b)` hands the operands' wires to a pre-built circuit whose inputs have their own
// widths.  An operand may carry fewer wires than the circuit's input (a constant argument): both
// generators must fill the input up with the zero wire, or every later argument lands on the wrong input
// wires — in streaming mode the missing inputs are then read from whatever an earlier circuit left in
// the label store, and both parties agree on a wrong value.  The input-collecting part of the Circ arm of
// Program.Circuit and Program.Stream is interpreted for operands shorter than, equal to and (one wire)
// short of the circuit's inputs; the collected list must be, input by input, the operand's wires followed
// by zero wires up to the input's width.
func C05native(p *load.Program, run *report.Run) {
	const rule = "native-circuit-inputs-padded"
	canonFor(p)
	run.Rule(rule, "the Circ arm of Program.Circuit and of Program.Stream, interpreted from source up to the point where the input wires are collected, yields for two inputs of widths 2..3 and operands of 0..width wires the list operand0 ++ zero^(B0-n0) ++ operand1 ++ zero^(B1-n1)")
	pkg, fdC := dispatch.FindFunc(p, "compiler/ssa", "Program", "Circuit")
	_, fdS := dispatch.FindFunc(p, "compiler/ssa", "Program", "Stream")
	if fdC == nil || fdS == nil {
		run.Undecided(rule, "compiler/ssa.Program.Circuit/Stream", "", "function not found")
		return
	}
	for side, fd := range map[string]*ast.FuncDecl{"Circuit": fdC, "Stream": fdS} {
		key := "compiler/ssa.Program." + side + "/Circ"
		var arm *ast.CaseClause
		for _, sw := range allSwitches(fd, "instr.Op") {
			for _, st := range sw.Body.List {
				cc := st.(*ast.CaseClause)
				for _, n := range caseNames(cc) {
					if n == "Circ" && arm == nil {
						arm = cc
					}
				}
			}
		}
		if arm == nil {
			run.Undecided(rule, key, p.Rel(fd.Pos()), "no arm for Circ")
			continue
		}
		// the list the operands' wires are appended to: the first append target in the arm
		target := ""
		ast.Inspect(arm, func(n ast.Node) bool {
			as, ok := n.(*ast.AssignStmt)
			if !ok || target != "" || len(as.Rhs) != 1 {
				return true
			}
			// X = append(X, …), or X = helper(X, …) with a helper of the package that appends for it
			if c, ok := as.Rhs[0].(*ast.CallExpr); ok && len(c.Args) >= 1 && cx(c.Args[0]) == cx(as.Lhs[0]) {
				if cx(c.Fun) == "append" {
					target = cx(as.Lhs[0])
				} else if id, ok := c.Fun.(*ast.Ident); ok {
					if fn, ok := pkg.TypesInfo.Uses[id].(*types.Func); ok && fn.Pkg() == pkg.Types {
						target = cx(as.Lhs[0])
					}
				}
			}
			return true
		})
		if target == "" {
			run.Undecided(rule, key, p.Rel(arm.Pos()), "the list of input wires was not found")
			continue
		}
		bad := ""
		cells := 0
		for b0 := 2; b0 <= 3 && bad == ""; b0++ {
			for b1 := 2; b1 <= 3 && bad == ""; b1++ {
				for n0 := 0; n0 <= b0 && bad == ""; n0++ {
					for n1 := 0; n1 <= b1 && bad == ""; n1++ {
						cells++
						w := &wInterp{pkg: pkg}
						w.push()
						a0, a1 := atoms("a", n0), atoms("b", n1)
						w.set("wires", []wv{a0, a1}, true)
						w.set("instr.Circ.Inputs", []wv{"in0", "in1"}, true)
						w.set("in0.Type", "in0.Type", true)
						w.set("in1.Type", "in1.Type", true)
						w.set("in0.Type.Bits", int64(b0), true)
						w.set("in1.Type.Bits", int64(b1), true)
						w.set("prog.zeroWire", "ZERO", true)
						w.set(target, []wv{}, true)
						w.set("iIDs", []wv{}, true)
						w.set("oIDs", []wv{}, true)
						var mk func(x *wInterp) func(name string, c *ast.CallExpr) (wv, bool)
						mk = func(x *wInterp) func(name string, c *ast.CallExpr) (wv, bool) {
							return func(name string, c *ast.CallExpr) (wv, bool) {
								if name == "ID" && len(c.Args) == 0 {
									return x.expr(c.Fun.(*ast.SelectorExpr).X), true
								}
								if _, isIdent := c.Fun.(*ast.Ident); isIdent {
									return peerHelper(pkg, x, c, mk)
								}
								return nil, false
							}
						}
						w.hook = mk(w)
						for _, st := range arm.Body {
							// stop at the first statement that leaves the part the model covers
							mentions := false
							ast.Inspect(st, func(n ast.Node) bool {
								if id, ok := n.(*ast.Ident); ok && id.Name == "Ret" {
									mentions = true
								}
								return true
							})
							if mentions {
								break
							}
							w.stmt(st)
							if w.fail != "" {
								break
							}
						}
						got, _ := w.lookup(target)
						gs, _ := got.([]wv)
						var want []wv
						want = append(want, a0...)
						for i := n0; i < b0; i++ {
							want = append(want, "ZERO")
						}
						want = append(want, a1...)
						for i := n1; i < b1; i++ {
							want = append(want, "ZERO")
						}
						if fmt.Sprint(gs) != fmt.Sprint(want) {
							why := ""
							if w.fail != "" {
								why = " (" + w.fail + ")"
							}
							bad = fmt.Sprintf("inputs of %d and %d bits, operands of %d and %d wires: collected %v, the circuit's inputs are %v%s", b0, b1, n0, n1, gs, want, why)
						}
					}
				}
			}
		}
		run.Count("native-input-cells", cells)
		if bad != "" {
			run.Violate(rule, key, p.Rel(arm.Pos()), bad, nil)
		} else {
			run.OK(rule, key, p.Rel(arm.Pos()), fmt.Sprintf("%d shapes", cells))
		}
	}
	run.Floor("native-input-cells", 90)
}

var _ = load.Module
