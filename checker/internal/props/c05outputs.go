package props

import (
	"fmt"
	"go/ast"
	"go/token"
	"go/types"
	"sort"

	"mpcverif/internal/dispatch"
	"mpcverif/internal/load"
	"mpcverif/internal/report"
)

// C05outputs: constant result wires in streaming mode.
//
// The builders of compiler/circuits may replace an element of their result
// slice by the shared constant wire (z[i] = cc.ZeroWire() for leftover high bits,
// a comparator of empty operands, ...).  In whole-circuit mode results are
// intermediate wires and the program's outputs are re-created by identity gates
// in the Ret arm.  In streaming mode every instruction is compiled as its own
// circuit whose output wires are the builder's result slice; a constant wire
// there is already assigned when circuits.Compiler.Compile reaches the outputs,
// and Compile panics.  So, if any builder reachable from the streamer's
// generator table can store a constant wire into its result parameter, the
// streamer must re-establish the outputs between the generator call and
// Compile: for every result element that is no longer an output wire, a fresh
// output wire fed by an identity gate.
func C05outputs(p *load.Program, run *report.Run) {
	run.Rule("stream-constant-outputs", "if a circuit builder reachable from circuitGenerators can store the constant zero/one wire into its result parameter, Program.Stream routes every replaced result element to a fresh output wire (Output() test, identity gate, store back) between the generator call and Compile, and circuits.NewCompiler keeps the very slice it was given as its output wires, so the store back reaches the compiler")
	compiledOutputs(p, run, "stream-constant-outputs", "compiler/ssa", "Program", "Stream", true)
}

// C12outputs: the same obligation for the circuit that folds wide constants.
func C12outputs(p *load.Program, run *report.Run) {
	run.Rule("fold-constant-outputs", "mpa.Int.bin, which folds operators on constants wider than 64 bits by compiling a builder's circuit, routes every result element the builder replaced by a constant wire to a fresh output wire before Compile (otherwise folding x + y crashes the compiler)")
	compiledOutputs(p, run, "fold-constant-outputs", "compiler/mpa", "Int", "bin", false)
}

func compiledOutputs(p *load.Program, run *report.Run, rule, relPkg, recv, fname string, viaTable bool) {
	cpkg := p.ByPath[load.Module+"/compiler/circuits"]
	spkg := p.ByPath[load.Module+"/"+relPkg]
	var gens map[string]ast.Expr
	if viaTable {
		_, gens = dispatch.MapLiteral(p, relPkg, "circuitGenerators")
	} else {
		gens = map[string]ast.Expr{}
	}
	_, stream := dispatch.FindFunc(p, relPkg, recv, fname)
	if spkg != nil && stream != nil {
		// the compile step may live in a helper of the named function (bin -> binCircuit)
		hasCompile := func(fd *ast.FuncDecl) bool {
			found := false
			ast.Inspect(fd.Body, func(n ast.Node) bool {
				if c, ok := n.(*ast.CallExpr); ok {
					if sel, ok := c.Fun.(*ast.SelectorExpr); ok && sel.Sel.Name == "Compile" && len(c.Args) == 0 {
						found = true
					}
				}
				return !found
			})
			return found
		}
		if !hasCompile(stream) {
			decls := map[types.Object]*ast.FuncDecl{}
			for _, f := range spkg.Syntax {
				for _, d := range f.Decls {
					if fd, ok := d.(*ast.FuncDecl); ok && fd.Body != nil {
						decls[spkg.TypesInfo.Defs[fd.Name]] = fd
					}
				}
			}
			var helper *ast.FuncDecl
			ast.Inspect(stream.Body, func(n ast.Node) bool {
				if c, ok := n.(*ast.CallExpr); ok && helper == nil {
					var obj types.Object
					switch f := c.Fun.(type) {
					case *ast.Ident:
						obj = spkg.TypesInfo.Uses[f]
					case *ast.SelectorExpr:
						obj = spkg.TypesInfo.Uses[f.Sel]
					}
					if h := decls[obj]; h != nil && h != stream && hasCompile(h) {
						helper = h
					}
				}
				return true
			})
			if helper != nil {
				stream = helper
			}
		}
	}
	if cpkg == nil || spkg == nil || gens == nil || stream == nil {
		run.Undecided(rule, relPkg+"."+recv+"."+fname, "", "anchors not found")
		return
	}
	cinfo := cpkg.TypesInfo
	isWireSlice := func(t types.Type) bool {
		sl, ok := t.Underlying().(*types.Slice)
		return ok && typeName(sl.Elem()) == "Wire"
	}
	// R: function -> set of []*Wire parameter indexes into which a constant wire may be stored
	type fn struct {
		decl   *ast.FuncDecl
		params []types.Object
	}
	fns := map[types.Object]*fn{}
	for _, f := range cpkg.Syntax {
		for _, d := range f.Decls {
			fd, ok := d.(*ast.FuncDecl)
			if !ok || fd.Body == nil {
				continue
			}
			e := &fn{decl: fd}
			for _, fl := range fd.Type.Params.List {
				for _, n := range fl.Names {
					e.params = append(e.params, cinfo.ObjectOf(n))
				}
			}
			fns[cinfo.ObjectOf(fd.Name)] = e
		}
	}
	marks := map[types.Object]map[int]bool{}
	mark := func(f types.Object, i int) bool {
		if marks[f] == nil {
			marks[f] = map[int]bool{}
		}
		if marks[f][i] {
			return false
		}
		marks[f][i] = true
		return true
	}
	paramIndex := func(e *fn, x ast.Expr) int {
		id := lintRoot(x)
		if id == nil {
			return -1
		}
		obj := cinfo.ObjectOf(id)
		for i, pr := range e.params {
			if pr == obj && isWireSlice(pr.Type()) {
				return i
			}
		}
		return -1
	}
	isConstWire := func(x ast.Expr) bool {
		call, ok := ast.Unparen(x).(*ast.CallExpr)
		if !ok {
			return false
		}
		sel, ok := call.Fun.(*ast.SelectorExpr)
		if !ok {
			return false
		}
		return sel.Sel.Name == "ZeroWire" || sel.Sel.Name == "OneWire"
	}
	for changed := true; changed; {
		changed = false
		for obj, e := range fns {
			ast.Inspect(e.decl.Body, func(n ast.Node) bool {
				switch t := n.(type) {
				case *ast.AssignStmt:
					for k, l := range t.Lhs {
						ix, ok := ast.Unparen(l).(*ast.IndexExpr)
						if !ok || k >= len(t.Rhs) || !isConstWire(t.Rhs[k]) {
							continue
						}
						if i := paramIndex(e, ix.X); i >= 0 && mark(obj, i) {
							changed = true
						}
					}
				case *ast.CallExpr:
					var callee types.Object
					switch f := t.Fun.(type) {
					case *ast.Ident:
						callee = cinfo.ObjectOf(f)
					case *ast.SelectorExpr:
						callee = cinfo.ObjectOf(f.Sel)
					}
					ce := fns[callee]
					if ce == nil {
						return true
					}
					off := 0
					if ce.decl.Recv != nil {
						off = 0 // receiver is not among params
					}
					for ai, a := range t.Args {
						if marks[callee][ai+off] {
							if i := paramIndex(e, a); i >= 0 && mark(obj, i) {
								changed = true
							}
						}
					}
				}
				return true
			})
		}
	}
	run.Count("builders-storing-constants", len(marks))
	// builders named in the generator table or in the generator functions of the streamer's file
	reach := map[string]bool{}
	sinfo := spkg.TypesInfo
	collect := func(n ast.Node) {
		ast.Inspect(n, func(m ast.Node) bool {
			sel, ok := m.(*ast.SelectorExpr)
			if !ok {
				return true
			}
			obj := sinfo.ObjectOf(sel.Sel)
			if obj != nil && obj.Pkg() != nil && obj.Pkg().Path() == load.Module+"/compiler/circuits" && marks[obj] != nil {
				reach[obj.Name()] = true
			}
			return true
		})
	}
	for _, v := range gens {
		collect(v)
		// a named generator function: its body
		if id, ok := v.(*ast.Ident); ok {
			if fobj, ok := sinfo.ObjectOf(id).(*types.Func); ok {
				if _, fd := declOf(p, fobj); fd != nil {
					collect(fd)
				}
			}
		}
	}
	if !viaTable {
		for _, f := range spkg.Syntax {
			collect(f)
		}
	}
	run.Count("stream-generators", len(gens))
	var names []string
	for n := range reach {
		names = append(names, n)
	}
	sort.Strings(names)
	key := relPkg + "." + recv + "." + fname + "/compiled result slice"
	if len(names) == 0 {
		run.OK(rule, key, p.Rel(stream.Pos()), "no builder reachable from the generator table stores a constant wire into its result")
		if viaTable {
			run.Floor("stream-generators", 20)
		}
		return
	}
	// the generator call f(cc, instr, cIn, cOut) and the Compile call that follows it
	var genCall, compile *ast.CallExpr
	var outVar types.Object
	ast.Inspect(stream.Body, func(n ast.Node) bool {
		call, ok := n.(*ast.CallExpr)
		if !ok {
			return true
		}
		if id, ok := call.Fun.(*ast.Ident); ok && genCall == nil && len(call.Args) == 4 {
			if sig, ok := sinfo.TypeOf(id).Underlying().(*types.Signature); ok && sig.Params().Len() == 4 && isWireSlice(sig.Params().At(3).Type()) {
				genCall = call
				if oid := lintRoot(call.Args[3]); oid != nil {
					outVar = sinfo.ObjectOf(oid)
				}
			}
		}
		if sel, ok := call.Fun.(*ast.SelectorExpr); ok && sel.Sel.Name == "Compile" && genCall != nil && compile == nil && call.Pos() > genCall.Pos() {
			if typeName(sinfo.TypeOf(sel.X)) == "Compiler" {
				compile = call
			}
		}
		return true
	})
	if genCall == nil || compile == nil || outVar == nil {
		run.Undecided(rule, key, p.Rel(stream.Pos()), "generator call or Compile call not found in Program.Stream")
		return
	}
	rewired := false
	ast.Inspect(stream.Body, func(n ast.Node) bool {
		rs, ok := n.(*ast.RangeStmt)
		if !ok || rs.Pos() < genCall.End() || rs.End() > compile.Pos() {
			return true
		}
		if id := lintRoot(rs.X); id == nil || sinfo.ObjectOf(id) != outVar {
			return true
		}
		tested, gate, stored := false, false, false
		ast.Inspect(rs.Body, func(m ast.Node) bool {
			switch t := m.(type) {
			case *ast.CallExpr:
				if sel, ok := t.Fun.(*ast.SelectorExpr); ok {
					switch sel.Sel.Name {
					case "Output":
						tested = true
					case "ID":
						if typeName(sinfo.TypeOf(sel.X)) == "Compiler" {
							gate = true
						}
					}
				}
			case *ast.AssignStmt:
				if t.Tok == token.ASSIGN && len(t.Lhs) == 1 {
					if ix, ok := t.Lhs[0].(*ast.IndexExpr); ok {
						if id := lintRoot(ix.X); id != nil && sinfo.ObjectOf(id) == outVar {
							stored = true
						}
					}
				}
			}
			return true
		})
		if tested && gate && stored {
			rewired = true
		}
		return true
	})
	if rewired && !newCompilerSharesOutputs(p) {
		run.Violate(rule, key, p.Rel(genCall.Pos()), "the fresh output wires are stored back into the caller's result slice, but circuits.NewCompiler keeps its own copy of the output wires: the compiler still lists the replaced constant wires as outputs and the fresh wires never get an id", nil)
		return
	}
	if rewired {
		run.OK(rule, key, p.Rel(genCall.Pos()), fmt.Sprintf("%d builders can return constant result wires (%v …); replaced results are routed to fresh output wires before Compile", len(names), names[:min(3, len(names))]))
	} else {
		run.Violate(rule, key, p.Rel(genCall.Pos()), fmt.Sprintf("builders reachable from circuitGenerators (%v) can replace a result wire by the shared constant wire, and %s.%s compiles the builder's result slice as the circuit's outputs unchanged: circuits.Compiler.Compile panics (\"Output already assigned\") when that happens", names, recv, fname), nil)
	}
	if viaTable {
		run.Floor("stream-generators", 20)
	}
}

// newCompilerSharesOutputs: circuits.NewCompiler stores its output-wire parameter itself (not a
// copy) in Compiler.OutputWires, so a store through the caller's slice is seen by the compiler.
func newCompilerSharesOutputs(p *load.Program) bool {
	pkg, fd := dispatch.FindFunc(p, "compiler/circuits", "", "NewCompiler")
	if fd == nil {
		return false
	}
	params := map[types.Object]bool{}
	for _, f := range fd.Type.Params.List {
		for _, n := range f.Names {
			params[pkg.TypesInfo.ObjectOf(n)] = true
		}
	}
	shares := false
	ast.Inspect(fd.Body, func(n ast.Node) bool {
		switch t := n.(type) {
		case *ast.KeyValueExpr:
			if k, ok := t.Key.(*ast.Ident); ok && k.Name == "OutputWires" {
				if v, ok := ast.Unparen(t.Value).(*ast.Ident); ok && params[pkg.TypesInfo.ObjectOf(v)] {
					shares = true
				}
			}
		case *ast.AssignStmt:
			for i, l := range t.Lhs {
				if sel, ok := l.(*ast.SelectorExpr); ok && sel.Sel.Name == "OutputWires" && i < len(t.Rhs) {
					if v, ok := ast.Unparen(t.Rhs[i]).(*ast.Ident); ok && params[pkg.TypesInfo.ObjectOf(v)] {
						shares = true
					}
				}
			}
		}
		return true
	})
	return shares
}

func lintRoot(e ast.Expr) *ast.Ident {
	for {
		switch t := ast.Unparen(e).(type) {
		case *ast.Ident:
			return t
		case *ast.IndexExpr:
			e = t.X
		case *ast.SliceExpr:
			e = t.X
		default:
			return nil
		}
	}
}
