package props

import (
	"fmt"
	"go/ast"
	"go/token"
	"go/types"

	"mpcverif/internal/dispatch"
	"mpcverif/internal/load"
	"mpcverif/internal/report"
)

// C05walloc: the hash chains of the streaming wire allocator.
//
// WireAllocator keeps the wires of every live value in singly linked hash
// buckets; lookup moves a found entry to the bucket head, remove unlinks it when
// the value is collected.  A chain operation that loses another entry makes the
// next use of that value allocate fresh wire ids silently: both parties still
// agree with each other, but not with the whole-circuit result — and only when
// two live values collide in a bucket.  The two functions are interpreted on
// abstract chains (nodes n0..n(k-1), k <= 5, the target at every position and
// absent); values are node references and pointer-to-link locations, nothing is
// executed.  Obligations: lookup returns the target's node and the bucket still
// holds every node exactly once; remove returns the target's node and the
// bucket holds exactly the other nodes.
func C05walloc(p *load.Program, run *report.Run) {
	run.Rule("hash-chain-integrity", "WireAllocator.lookup and remove, interpreted on abstract chains of up to 5 entries with the target at every position and absent: the found node is returned, lookup keeps every entry exactly once, remove keeps exactly the other entries")
	pkg, lookup := dispatch.FindFunc(p, "compiler/ssa", "WireAllocator", "lookup")
	_, remove := dispatch.FindFunc(p, "compiler/ssa", "WireAllocator", "remove")
	if lookup == nil || remove == nil {
		run.Undecided("hash-chain-integrity", "compiler/ssa.WireAllocator", "", "lookup/remove not found")
		return
	}
	fns := map[string]*ast.FuncDecl{"lookup": lookup, "remove": remove}
	for _, name := range []string{"lookup", "remove"} {
		bad, und := "", ""
		cells := 0
		for k := 1; k <= bound(5, 8) && bad == "" && und == ""; k++ {
			for t := -1; t < k && bad == "" && und == ""; t++ {
				cells++
				ev := &chainEval{info: pkg.TypesInfo, fns: fns, next: make([]int, k), head: -1, target: t}
				for i := 0; i < k; i++ {
					ev.next[i] = i + 1
					if i == k-1 {
						ev.next[i] = -1
					}
				}
				if k > 0 {
					ev.head = 0
				}
				res := ev.call(fns[name])
				if ev.fail != "" {
					und = fmt.Sprintf("chain of %d, target %d: %s", k, t, ev.fail)
					break
				}
				// returned node
				want := chainVal{kind: "node", n: t}
				if t < 0 {
					want = chainVal{kind: "node", n: -1}
				}
				if res.kind != "node" || res.n != want.n {
					bad = fmt.Sprintf("chain of %d, target at %d: returns %s, expected n%d", k, t, res, t)
					break
				}
				// chain contents
				seen := map[int]int{}
				cur, steps := ev.head, 0
				for cur >= 0 && steps <= k+1 {
					seen[cur]++
					cur = ev.next[cur]
					steps++
				}
				if steps > k+1 {
					bad = fmt.Sprintf("chain of %d, target at %d: the bucket has a cycle afterwards", k, t)
					break
				}
				for i := 0; i < k; i++ {
					wantIn := 1
					if name == "remove" && i == t {
						wantIn = 0
					}
					if seen[i] != wantIn {
						if wantIn == 1 {
							bad = fmt.Sprintf("chain of %d, target at %d: entry n%d is no longer in the bucket (a live value loses its wires)", k, t, i)
						} else {
							bad = fmt.Sprintf("chain of %d, target at %d: the removed entry n%d is still in the bucket", k, t, i)
						}
						break
					}
				}
			}
		}
		run.Count("chain-cells", cells)
		key := "compiler/ssa.WireAllocator." + name
		switch {
		case und != "":
			run.Undecided("hash-chain-integrity", key, p.Rel(fns[name].Pos()), und)
		case bad != "":
			run.Violate("hash-chain-integrity", key, p.Rel(fns[name].Pos()), bad, nil)
		default:
			run.OK("hash-chain-integrity", key, p.Rel(fns[name].Pos()), fmt.Sprintf("%d chain/target cells", cells))
		}
	}
	run.Floor("chain-cells", 30)
}

type chainVal struct {
	kind string // node | loc | int | bool | none
	n    int    // node id (-1 nil); loc: -1 head, i = &n_i.next
	b    bool
}

func (v chainVal) String() string {
	switch v.kind {
	case "node":
		if v.n < 0 {
			return "nil"
		}
		return fmt.Sprintf("n%d", v.n)
	case "loc":
		if v.n < 0 {
			return "&head"
		}
		return fmt.Sprintf("&n%d.next", v.n)
	case "int":
		return fmt.Sprint(v.n)
	case "bool":
		return fmt.Sprint(v.b)
	}
	return "?"
}

type chainEval struct {
	info   *types.Info
	fns    map[string]*ast.FuncDecl
	next   []int
	head   int
	target int
	env    []map[types.Object]chainVal
	fail   string
	steps  int
	ret    *chainVal
}

func (e *chainEval) bad(f string, a ...any) chainVal {
	if e.fail == "" {
		e.fail = fmt.Sprintf(f, a...)
	}
	return chainVal{kind: "none"}
}

func (e *chainEval) call(fd *ast.FuncDecl) chainVal {
	e.env = append(e.env, map[types.Object]chainVal{})
	saved := e.ret
	e.ret = nil
	e.block(fd.Body.List)
	r := chainVal{kind: "node", n: -1}
	if e.ret != nil {
		r = *e.ret
	}
	e.ret = saved
	e.env = e.env[:len(e.env)-1]
	return r
}

func (e *chainEval) get(o types.Object) (chainVal, bool) {
	v, ok := e.env[len(e.env)-1][o]
	return v, ok
}

func (e *chainEval) load(loc chainVal) chainVal {
	if loc.kind != "loc" {
		return e.bad("load through %s", loc)
	}
	if loc.n < 0 {
		return chainVal{kind: "node", n: e.head}
	}
	return chainVal{kind: "node", n: e.next[loc.n]}
}

func (e *chainEval) store(loc, v chainVal) {
	if loc.kind != "loc" || v.kind != "node" {
		e.bad("store of %s through %s", v, loc)
		return
	}
	if loc.n < 0 {
		e.head = v.n
	} else {
		e.next[loc.n] = v.n
	}
}

func (e *chainEval) block(list []ast.Stmt) {
	for _, st := range effectiveQ(e.info, list) {
		if e.fail != "" || e.ret != nil {
			return
		}
		e.stmt(st)
	}
}

// isLinkType: *allocByValue (a node reference).
func (e *chainEval) isNodeType(t types.Type) bool {
	pt, ok := t.(*types.Pointer)
	return ok && typeName(pt.Elem()) == "allocByValue"
}

func (e *chainEval) stmt(st ast.Stmt) {
	e.steps++
	if e.steps > 5000 {
		e.bad("step budget exceeded (cycle?)")
		return
	}
	switch s := st.(type) {
	case *ast.DeclStmt:
		gd, _ := s.Decl.(*ast.GenDecl)
		if gd == nil || gd.Tok != token.VAR {
			e.bad("declaration not modelled")
			return
		}
		for _, sp := range gd.Specs {
			for _, n := range sp.(*ast.ValueSpec).Names {
				obj := e.info.ObjectOf(n)
				if e.isNodeType(obj.Type()) {
					e.env[len(e.env)-1][obj] = chainVal{kind: "node", n: -1}
				} else {
					e.env[len(e.env)-1][obj] = chainVal{kind: "int"}
				}
			}
		}
	case *ast.AssignStmt:
		if len(s.Lhs) != 1 || len(s.Rhs) != 1 {
			e.bad("multi-assignment not modelled")
			return
		}
		if s.Tok == token.ADD_ASSIGN || s.Tok == token.SUB_ASSIGN {
			// counters: a local int or a statistics field of the allocator
			if id, ok := s.Lhs[0].(*ast.Ident); ok {
				if v, ok := e.get(e.info.ObjectOf(id)); ok && v.kind == "int" {
					d := e.expr(s.Rhs[0])
					if s.Tok == token.SUB_ASSIGN {
						d.n = -d.n
					}
					v.n += d.n
					e.env[len(e.env)-1][e.info.ObjectOf(id)] = v
				}
			}
			return
		}
		v := e.expr(s.Rhs[0])
		if e.fail != "" {
			return
		}
		e.assign(s.Lhs[0], v)
	case *ast.IncDecStmt:
		if id, ok := s.X.(*ast.Ident); ok {
			if v, ok := e.get(e.info.ObjectOf(id)); ok && v.kind == "int" {
				if s.Tok == token.INC {
					v.n++
				} else {
					v.n--
				}
				e.env[len(e.env)-1][e.info.ObjectOf(id)] = v
				return
			}
		}
		// statistics counters of the allocator
		if bt, ok := e.info.TypeOf(s.X).Underlying().(*types.Basic); ok && bt.Info()&types.IsInteger != 0 {
			return
		}
		e.bad("inc/dec of %s", types.ExprString(s.X))
	case *ast.IfStmt:
		if s.Init != nil {
			e.stmt(s.Init)
		}
		c := e.expr(s.Cond)
		if c.kind != "bool" {
			e.bad("condition %s is not decided", types.ExprString(s.Cond))
			return
		}
		if c.b {
			e.block(s.Body.List)
		} else if s.Else != nil {
			if b, ok := s.Else.(*ast.BlockStmt); ok {
				e.block(b.List)
			} else {
				e.stmt(s.Else)
			}
		}
	case *ast.ForStmt:
		if s.Init != nil {
			e.stmt(s.Init)
		}
		for it := 0; e.fail == "" && e.ret == nil; it++ {
			if it > 64 {
				e.bad("loop does not terminate (cycle in the chain)")
				return
			}
			if s.Cond != nil {
				c := e.expr(s.Cond)
				if c.kind != "bool" {
					e.bad("loop condition %s is not decided", types.ExprString(s.Cond))
					return
				}
				if !c.b {
					break
				}
			}
			e.block(s.Body.List)
			if e.ret != nil || e.fail != "" {
				return
			}
			if s.Post != nil {
				e.stmt(s.Post)
			}
		}
	case *ast.ReturnStmt:
		r := chainVal{kind: "node", n: -1}
		if len(s.Results) > 0 {
			r = e.expr(s.Results[0])
		}
		e.ret = &r
	case *ast.BlockStmt:
		e.block(s.List)
	default:
		e.bad("statement %T not modelled", st)
	}
}

func (e *chainEval) assign(lhs ast.Expr, v chainVal) {
	switch t := ast.Unparen(lhs).(type) {
	case *ast.Ident:
		if t.Name != "_" {
			e.env[len(e.env)-1][e.info.ObjectOf(t)] = v
		}
	case *ast.StarExpr: // *ptr = x
		e.store(e.expr(t.X), v)
	case *ast.SelectorExpr: // x.next = y ; counters
		if t.Sel.Name == "next" || e.isNodeType(e.info.TypeOf(t)) {
			base := e.expr(t.X)
			if base.kind != "node" || base.n < 0 {
				e.bad("store to the link of %s", base)
				return
			}
			e.store(chainVal{kind: "loc", n: base.n}, v)
			return
		}
		if bt, ok := e.info.TypeOf(t).Underlying().(*types.Basic); ok && bt.Info()&types.IsInteger != 0 {
			return // statistics
		}
		e.bad("assignment to %s", types.ExprString(lhs))
	case *ast.IndexExpr: // walloc.hash[hash] = x
		if e.isNodeType(e.info.TypeOf(t)) {
			e.store(chainVal{kind: "loc", n: -1}, v)
			return
		}
		e.bad("assignment to %s", types.ExprString(lhs))
	default:
		e.bad("assignment to %s", types.ExprString(lhs))
	}
}

func (e *chainEval) expr(x ast.Expr) chainVal {
	if e.fail != "" {
		return chainVal{kind: "none"}
	}
	x = ast.Unparen(x)
	if tv, ok := e.info.Types[x]; ok && tv.Value != nil {
		var n int
		if _, err := fmt.Sscan(tv.Value.String(), &n); err == nil {
			return chainVal{kind: "int", n: n}
		}
		if tv.Value.String() == "true" || tv.Value.String() == "false" {
			return chainVal{kind: "bool", b: tv.Value.String() == "true"}
		}
	}
	switch t := x.(type) {
	case *ast.Ident:
		if t.Name == "nil" {
			return chainVal{kind: "node", n: -1}
		}
		if v, ok := e.get(e.info.ObjectOf(t)); ok {
			return v
		}
		return e.bad("unbound %s", t.Name)
	case *ast.StarExpr:
		return e.load(e.expr(t.X))
	case *ast.UnaryExpr:
		switch t.Op {
		case token.AND:
			// &walloc.hash[hash]  or  &(*ptr).next / &x.next
			switch u := ast.Unparen(t.X).(type) {
			case *ast.IndexExpr:
				if e.isNodeType(e.info.TypeOf(u)) {
					return chainVal{kind: "loc", n: -1}
				}
			case *ast.SelectorExpr:
				if e.isNodeType(e.info.TypeOf(u)) {
					base := e.expr(u.X)
					if base.kind == "node" && base.n >= 0 {
						return chainVal{kind: "loc", n: base.n}
					}
					return e.bad("address of the link of %s", base)
				}
			}
			return e.bad("address of %s", types.ExprString(t.X))
		case token.NOT:
			v := e.expr(t.X)
			if v.kind == "bool" {
				return chainVal{kind: "bool", b: !v.b}
			}
		}
		return e.bad("unary %s", t.Op)
	case *ast.SelectorExpr:
		if e.isNodeType(e.info.TypeOf(t)) { // x.next
			base := e.expr(t.X)
			if base.kind != "node" || base.n < 0 {
				return e.bad("link of %s", base)
			}
			return chainVal{kind: "node", n: e.next[base.n]}
		}
		return e.bad("selector %s", types.ExprString(t))
	case *ast.IndexExpr:
		if e.isNodeType(e.info.TypeOf(t)) { // walloc.hash[hash]
			return chainVal{kind: "node", n: e.head}
		}
		return e.bad("index %s", types.ExprString(t))
	case *ast.BinaryExpr:
		a, b := e.expr(t.X), e.expr(t.Y)
		if e.fail != "" {
			return chainVal{kind: "none"}
		}
		switch {
		case a.kind == "node" && b.kind == "node":
			switch t.Op {
			case token.EQL:
				return chainVal{kind: "bool", b: a.n == b.n}
			case token.NEQ:
				return chainVal{kind: "bool", b: a.n != b.n}
			}
		case a.kind == "int" && b.kind == "int":
			switch t.Op {
			case token.GTR:
				return chainVal{kind: "bool", b: a.n > b.n}
			case token.GEQ:
				return chainVal{kind: "bool", b: a.n >= b.n}
			case token.LSS:
				return chainVal{kind: "bool", b: a.n < b.n}
			case token.LEQ:
				return chainVal{kind: "bool", b: a.n <= b.n}
			case token.EQL:
				return chainVal{kind: "bool", b: a.n == b.n}
			case token.NEQ:
				return chainVal{kind: "bool", b: a.n != b.n}
			case token.ADD:
				return chainVal{kind: "int", n: a.n + b.n}
			case token.SUB:
				return chainVal{kind: "int", n: a.n - b.n}
			}
		case a.kind == "bool" && b.kind == "bool":
			switch t.Op {
			case token.LAND:
				return chainVal{kind: "bool", b: a.b && b.b}
			case token.LOR:
				return chainVal{kind: "bool", b: a.b || b.b}
			}
		}
		return e.bad("operator %s on %s, %s", t.Op, a, b)
	case *ast.CallExpr:
		sel, ok := t.Fun.(*ast.SelectorExpr)
		if !ok {
			return e.bad("call %s", types.ExprString(t.Fun))
		}
		// <node>.key.Equal(&v): is this the entry of the value looked for
		if sel.Sel.Name == "Equal" {
			if ks, ok := ast.Unparen(sel.X).(*ast.SelectorExpr); ok {
				base := e.expr(ks.X)
				if base.kind == "node" && base.n >= 0 {
					return chainVal{kind: "bool", b: base.n == e.target}
				}
			}
			return e.bad("Equal on %s", types.ExprString(sel.X))
		}
		if fd, ok := e.fns[sel.Sel.Name]; ok && typeName(e.info.TypeOf(sel.X)) == "WireAllocator" {
			return e.call(fd)
		}
		return e.bad("call %s", types.ExprString(t.Fun))
	}
	return e.bad("expression %s", types.ExprString(x))
}
