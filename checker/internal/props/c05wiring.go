package props

import (
	"fmt"
	"go/ast"
	"go/constant"
	"go/token"
	"go/types"
	"math"
	"math/bits"
	"strings"

	"golang.org/x/tools/go/packages"

	"mpcverif/internal/dispatch"
	"mpcverif/internal/load"
	"mpcverif/internal/report"
)

// wv is a value of the wiring interpreter: int64, bool, string (a wire atom or an opcode name), []wv, nil, or wtuple.
type wv any
type wtuple []wv

// wword is a machine word as a vector of bit atoms (index 0 = least significant): "0", "1" or a name.
type wword []string

type wOutcome struct {
	kind string // "", "return", "continue", "break"
	err  bool   // a return with a non-nil error
	vals []wv   // the returned values
}

type wInterp struct {
	pkg    *packages.Package
	env    []map[string]wv
	result []wv
	fail   string // why the interpretation could not be carried out
	// zeroInts: make([]intType, n) yields zeros instead of the "UNSET" marker (interpreters of data structures)
	zeroInts bool
	objects  int
	steps    int
	hook     func(name string, c *ast.CallExpr) (wv, bool)
	depth    int // nesting of helper interpretations
	// for type switches: the dynamic type of the switched value and the value bound in the chosen clause
	dynType  types.Type
	dynValue wv
}

func (w *wInterp) push() { w.env = append(w.env, map[string]wv{}) }

// envSetGlobal binds a name in the outermost scope (fields of objects outlive the block that made them).
func (w *wInterp) envSetGlobal(n string, v wv) {
	if len(w.env) == 0 {
		w.push()
	}
	w.env[0][n] = v
}
func (w *wInterp) pop() { w.env = w.env[:len(w.env)-1] }
func (w *wInterp) lookup(n string) (wv, bool) {
	for i := len(w.env) - 1; i >= 0; i-- {
		if v, ok := w.env[i][n]; ok {
			return v, true
		}
	}
	return nil, false
}
func (w *wInterp) set(n string, v wv, define bool) {
	if !define {
		for i := len(w.env) - 1; i >= 0; i-- {
			if _, ok := w.env[i][n]; ok {
				w.env[i][n] = v
				return
			}
		}
	}
	w.env[len(w.env)-1][n] = v
}
func (w *wInterp) bad(f string, a ...any) wv {
	if w.fail == "" {
		w.fail = fmt.Sprintf(f, a...)
	}
	return nil
}

// wfunc is a function literal as a value (it may use its own parameters and package-level names only).
type wfunc struct{ lit *ast.FuncLit }

func (w *wInterp) expr(e ast.Expr) wv {
	if w.fail != "" {
		return nil
	}
	e = ast.Unparen(e)
	// a function literal is a value: the driver that can call declared functions calls it the same way
	if fl, ok := e.(*ast.FuncLit); ok {
		return wfunc{fl}
	}
	// selector chains and calls the driver binds by their text
	if v, ok := w.lookup(cx(e)); ok {
		return v
	}
	if tv, ok := w.pkg.TypesInfo.Types[e]; ok && tv.Value != nil {
		switch tv.Value.Kind() {
		case constant.Int:
			// opcode constants are kept symbolic
			if id, isId := e.(*ast.Ident); isId {
				if c, isC := w.pkg.TypesInfo.Uses[id].(*types.Const); isC {
					if nt, ok := c.Type().(*types.Named); ok && (nt.Obj().Name() == "Operand" || nt.Obj().Name() == "Operation") {
						return c.Name()
					}
				}
			}
			k, _ := constant.Int64Val(tv.Value)
			return k
		case constant.Bool:
			return constant.BoolVal(tv.Value)
		}
	}
	switch t := e.(type) {
	case *ast.Ident:
		if t.Name == "nil" {
			return nil
		}
		return w.bad("unbound identifier %s", t.Name)
	case *ast.StarExpr:
		return w.expr(t.X)
	case *ast.SelectorExpr:
		// a field of an object handle: the handle is a string h, its fields are bound as "h.field"
		if h, ok := w.expr(t.X).(string); ok && w.fail == "" {
			if v, ok := w.lookup(h + "." + t.Sel.Name); ok {
				return v
			}
		}
		if w.fail != "" {
			return nil
		}
		return w.bad("selector %s", cx(e))
	case *ast.UnaryExpr:
		x := w.expr(t.X)
		switch t.Op {
		case token.AND:
			return x // the address of an object is its handle
		case token.NOT:
			if b, ok := x.(bool); ok {
				return !b
			}
		case token.SUB:
			if k, ok := x.(int64); ok {
				return -k
			}
		}
		return w.bad("unary %s", t.Op)
	case *ast.BinaryExpr:
		if t.Op == token.LAND || t.Op == token.LOR {
			x, ok := w.expr(t.X).(bool)
			if !ok {
				return w.bad("non-boolean operand of %s", t.Op)
			}
			if (t.Op == token.LAND && !x) || (t.Op == token.LOR && x) {
				return x
			}
			y, ok := w.expr(t.Y).(bool)
			if !ok {
				return w.bad("non-boolean operand of %s", t.Op)
			}
			return y
		}
		x, y := w.expr(t.X), w.expr(t.Y)
		if t.Op == token.EQL || t.Op == token.NEQ {
			// error comparisons and atom comparisons
			eq := fmt.Sprint(x) == fmt.Sprint(y) && (x == nil) == (y == nil)
			return eq == (t.Op == token.EQL)
		}
		if xw, isW := x.(wword); isW {
			if k, isK := y.(int64); isK {
				out := make(wword, len(xw))
				for i := range out {
					out[i] = "0"
				}
				switch t.Op {
				case token.SHR:
					for i := range out {
						if j := int64(i) + k; k >= 0 && j < int64(len(xw)) {
							out[i] = xw[j]
						}
					}
					return out
				case token.SHL:
					for i := range out {
						if j := int64(i) - k; k >= 0 && j >= 0 {
							out[i] = xw[j]
						}
					}
					return out
				case token.AND:
					for i := range out {
						if i < 63 && k>>uint(i)&1 == 1 || i == 63 && k < 0 {
							out[i] = xw[i]
						}
					}
					return out
				case token.OR, token.XOR:
					if k == 0 {
						return xw
					}
				}
			}
			return w.bad("word operation %s in %s", t.Op, cx(e))
		}
		a, ok1 := x.(int64)
		b, ok2 := y.(int64)
		if !ok1 || !ok2 {
			return w.bad("arithmetic on non-integers in %s", cx(e))
		}
		switch t.Op {
		case token.ADD:
			return a + b
		case token.SUB:
			return a - b
		case token.MUL:
			return a * b
		case token.QUO:
			if b == 0 {
				return w.bad("division by zero in %s", cx(e))
			}
			return a / b
		case token.REM:
			if b == 0 {
				return w.bad("division by zero in %s", cx(e))
			}
			return a % b
		case token.SHL:
			if b >= 0 && b < 64 {
				return int64(uint64(a) << uint(b)) // the bit pattern; word-sized operands wrap as in Go
			}
		case token.SHR:
			if b >= 0 && b < 64 {
				if a < 0 {
					return int64(uint64(a) >> uint(b))
				}
				return a >> uint(b)
			}
		case token.AND:
			return a & b
		case token.OR:
			return a | b
		case token.XOR:
			return a ^ b
		case token.LSS:
			return a < b
		case token.LEQ:
			return a <= b
		case token.GTR:
			return a > b
		case token.GEQ:
			return a >= b
		}
		return w.bad("operator %s", t.Op)
	case *ast.IndexExpr:
		s, ok := w.expr(t.X).([]wv)
		i, ok2 := w.expr(t.Index).(int64)
		if !ok || !ok2 {
			return w.bad("index of non-slice %s", cx(e))
		}
		if i < 0 || i >= int64(len(s)) {
			return w.bad("index %d out of range [0,%d) in %s", i, len(s), cx(e))
		}
		return s[i]
	case *ast.SliceExpr:
		// x[lo:hi] shares its elements with x, as in Go (copy into a sub-slice writes through)
		base, ok := w.expr(t.X).([]wv)
		if !ok {
			return w.bad("slice of non-slice %s", cx(e))
		}
		lo, hi := int64(0), int64(len(base))
		if t.Low != nil {
			v, ok := w.expr(t.Low).(int64)
			if !ok {
				return w.bad("non-constant slice bound in %s", cx(e))
			}
			lo = v
		}
		if t.High != nil {
			v, ok := w.expr(t.High).(int64)
			if !ok {
				return w.bad("non-constant slice bound in %s", cx(e))
			}
			hi = v
		}
		if lo < 0 || hi < lo || hi > int64(len(base)) {
			return w.bad("slice bounds [%d:%d] out of range [0,%d] in %s", lo, hi, len(base), cx(e))
		}
		return base[lo:hi]
	case *ast.CallExpr:
		return w.call(t)
	case *ast.CompositeLit:
		// a struct literal with keys: an object handle whose fields are bound as "handle.field"
		if _, isArr := t.Type.(*ast.ArrayType); !isArr {
			if tv, ok := w.pkg.TypesInfo.Types[e]; ok {
				if _, isStruct := tv.Type.Underlying().(*types.Struct); isStruct {
					w.objects++
					h := fmt.Sprintf("obj#%d", w.objects)
					for _, el := range t.Elts {
						kv, isKV := el.(*ast.KeyValueExpr)
						if !isKV {
							return w.bad("positional struct literal %s", cx(e))
						}
						w.envSetGlobal(h+"."+cx(kv.Key), w.expr(kv.Value))
					}
					return h
				}
			}
		}
		// a slice literal of elements: []*Wire{a, b}
		if _, isArr := t.Type.(*ast.ArrayType); isArr {
			out := make([]wv, 0, len(t.Elts))
			for _, el := range t.Elts {
				if _, kv := el.(*ast.KeyValueExpr); kv {
					return w.bad("keyed literal %s", cx(e))
				}
				out = append(out, w.expr(el))
			}
			return out
		}
	}
	return w.bad("expression %s", cx(e))
}

func (w *wInterp) call(c *ast.CallExpr) wv {
	// conversions
	if tv, ok := w.pkg.TypesInfo.Types[c.Fun]; ok && tv.IsType() && len(c.Args) == 1 {
		v := w.expr(c.Args[0])
		if ww, isW := v.(wword); isW {
			return convertWord(ww, tv.Type)
		}
		if bt, ok := tv.Type.Underlying().(*types.Basic); ok {
			switch x := v.(type) {
			case float64:
				if bt.Info()&types.IsInteger != 0 {
					return int64(x)
				}
			case int64:
				if bt.Info()&types.IsFloat != 0 {
					return float64(x)
				}
			}
		}
		return v
	}
	name := ""
	switch f := c.Fun.(type) {
	case *ast.Ident:
		name = f.Name
	case *ast.SelectorExpr:
		name = f.Sel.Name
	}
	if w.hook != nil {
		if v, ok := w.hook(name, c); ok {
			return v
		}
	}
	switch name {
	case "len", "cap":
		// the interpreter's slices have no spare capacity: cap is len, and a nil slice has neither
		v := w.expr(c.Args[0])
		if s, ok := v.([]wv); ok {
			return int64(len(s))
		}
		if v == nil {
			return int64(0)
		}
		return w.bad("len of non-slice")
	case "make":
		n, ok := w.expr(c.Args[1]).(int64)
		if !ok || n < 0 || n > 4096 {
			return w.bad("make with a non-constant size")
		}
		s := make([]wv, n)
		nested := false
		if tv, ok := w.pkg.TypesInfo.Types[c.Args[0]]; ok && tv.IsType() {
			if st, ok := tv.Type.Underlying().(*types.Slice); ok {
				_, nested = st.Elem().Underlying().(*types.Slice)
			}
		}
		var zero wv = "UNSET"
		if tv, ok := w.pkg.TypesInfo.Types[c.Args[0]]; ok && tv.IsType() {
			if st, ok := tv.Type.Underlying().(*types.Slice); ok {
				if bt, ok := st.Elem().Underlying().(*types.Basic); ok {
					switch {
					case bt.Info()&types.IsBoolean != 0:
						zero = false
					case bt.Info()&types.IsInteger != 0 && w.zeroInts:
						zero = int64(0)
					}
				}
			}
		}
		for i := range s {
			if nested {
				s[i] = []wv{}
			} else {
				s[i] = zero
			}
		}
		return s
	case "copy":
		d, ok1 := w.expr(c.Args[0]).([]wv)
		s, ok2 := w.expr(c.Args[1]).([]wv)
		if !ok1 || !ok2 {
			return w.bad("copy of non-slices")
		}
		return int64(copy(d, s))
	case "append":
		base, _ := w.expr(c.Args[0]).([]wv)
		out := append([]wv{}, base...)
		for i, a := range c.Args[1:] {
			if c.Ellipsis.IsValid() && i == len(c.Args)-2 {
				if more, ok := w.expr(a).([]wv); ok {
					out = append(out, more...)
					continue
				}
				return w.bad("append of a non-slice with ...")
			}
			out = append(out, w.expr(a))
		}
		return out
	case "ZeroWire":
		if len(c.Args) == 0 {
			return "ZERO"
		}
		return wtuple{"ZERO", nil}
	case "ID":
		return w.expr(c.Fun.(*ast.SelectorExpr).X)
	case "ConstInt":
		// instr.In[k].ConstInt()
		if v, ok := w.lookup(cx(c.Fun.(*ast.SelectorExpr).X) + ".ConstInt()"); ok {
			return wtuple{v, nil}
		}
		return w.bad("unbound constant operand %s", cx(c))
	case "SetWires":
		if s, ok := w.expr(c.Args[1]).([]wv); ok {
			w.result = s
			return nil
		}
		return w.bad("SetWires of a non-slice")
	case "Errorf":
		return "error"
	case "Len", "Len8", "Len16", "Len32", "Len64", "TrailingZeros", "TrailingZeros32", "TrailingZeros64", "OnesCount", "OnesCount64":
		if sel, ok := c.Fun.(*ast.SelectorExpr); ok && cx(sel.X) == "bits" && len(c.Args) == 1 {
			if x, ok := w.expr(c.Args[0]).(int64); ok && x >= 0 {
				switch {
				case strings.HasPrefix(name, "Len"):
					return int64(bits.Len64(uint64(x)))
				case strings.HasPrefix(name, "TrailingZeros"):
					return int64(bits.TrailingZeros64(uint64(x)))
				default:
					return int64(bits.OnesCount64(uint64(x)))
				}
			}
		}
	case "Log2", "Ceil", "Floor":
		if sel, ok := c.Fun.(*ast.SelectorExpr); ok && cx(sel.X) == "math" && len(c.Args) == 1 {
			if x, ok := w.expr(c.Args[0]).(float64); ok {
				switch name {
				case "Log2":
					return math.Log2(x)
				case "Ceil":
					return math.Ceil(x)
				case "Floor":
					return math.Floor(x)
				}
			}
		}
	}
	return w.bad("call %s", cx(c.Fun))
}

func (w *wInterp) assign(lhs ast.Expr, v wv, define bool) {
	switch t := ast.Unparen(lhs).(type) {
	case *ast.Ident:
		if t.Name != "_" {
			w.set(cx(t), v, define)
		}
	case *ast.IndexExpr:
		s, ok := w.expr(t.X).([]wv)
		i, ok2 := w.expr(t.Index).(int64)
		if !ok || !ok2 {
			w.bad("store into non-slice %s", cx(lhs))
			return
		}
		if i < 0 || i >= int64(len(s)) {
			w.bad("store index %d out of range [0,%d) in %s", i, len(s), cx(lhs))
			return
		}
		s[i] = v
	case *ast.SelectorExpr:
		// a field of an element (c.Gates[i].Level = v): the element is an object handle
		if _, isIndex := ast.Unparen(t.X).(*ast.IndexExpr); isIndex {
			if h, ok := w.expr(t.X).(string); ok && w.fail == "" {
				w.envSetGlobal(h+"."+t.Sel.Name, v)
				return
			}
		}
		w.set(cx(t), v, define)
	default:
		w.bad("assignment to %s", cx(lhs))
	}
}

func (w *wInterp) stmts(list []ast.Stmt) wOutcome {
	for _, s := range list {
		if o := w.stmt(s); o.kind != "" || w.fail != "" {
			return o
		}
	}
	return wOutcome{}
}

func (w *wInterp) stmt(s ast.Stmt) wOutcome {
	w.steps++
	if w.steps > 20000 {
		w.bad("step limit")
	}
	if w.fail != "" {
		return wOutcome{}
	}
	if isQuiet(w.pkg.TypesInfo, s) {
		return wOutcome{}
	}
	switch t := s.(type) {
	case *ast.BlockStmt:
		w.push()
		defer w.pop()
		return w.stmts(t.List)
	case *ast.DeclStmt:
		gd := t.Decl.(*ast.GenDecl)
		for _, sp := range gd.Specs {
			vs, ok := sp.(*ast.ValueSpec)
			if !ok {
				continue
			}
			for i, n := range vs.Names {
				var v wv = "UNSET"
				if b, ok := w.pkg.TypesInfo.Defs[n].Type().Underlying().(*types.Basic); ok && b.Info()&types.IsInteger != 0 {
					v = int64(0)
				} else if ok && b.Info()&types.IsBoolean != 0 {
					v = false
				} else if _, isPtr := w.pkg.TypesInfo.Defs[n].Type().Underlying().(*types.Pointer); isPtr {
					v = nil
				} else if _, isSlice := w.pkg.TypesInfo.Defs[n].Type().Underlying().(*types.Slice); isSlice {
					v = []wv{}
				}
				if i < len(vs.Values) {
					v = w.expr(vs.Values[i])
				}
				w.set(cx(n), v, true)
			}
		}
	case *ast.AssignStmt:
		define := t.Tok == token.DEFINE
		if len(t.Lhs) > 1 && len(t.Rhs) == 1 {
			tu, ok := w.expr(t.Rhs[0]).(wtuple)
			if !ok || len(tu) != len(t.Lhs) {
				w.bad("tuple assignment from %s", cx(t.Rhs[0]))
				return wOutcome{}
			}
			for i, l := range t.Lhs {
				w.assign(l, tu[i], define)
			}
			return wOutcome{}
		}
		if len(t.Lhs) > 1 && len(t.Rhs) == len(t.Lhs) && (t.Tok == token.ASSIGN || t.Tok == token.DEFINE) {
			// a, b = b, a: every right-hand side is evaluated before anything is assigned
			vals := make([]wv, len(t.Rhs))
			for i := range t.Rhs {
				vals[i] = w.expr(t.Rhs[i])
				if tu, ok := vals[i].(wtuple); ok && len(tu) == 1 {
					vals[i] = tu[0]
				}
			}
			for i, l := range t.Lhs {
				w.assign(l, vals[i], define)
			}
			return wOutcome{}
		}
		for i, l := range t.Lhs {
			v := w.expr(t.Rhs[i])
			if tu, ok := v.(wtuple); ok && len(tu) == 1 {
				v = tu[0]
			}
			switch t.Tok {
			case token.OR_ASSIGN, token.AND_ASSIGN, token.XOR_ASSIGN, token.SHL_ASSIGN, token.SHR_ASSIGN, token.AND_NOT_ASSIGN:
				a, ok1 := w.expr(l).(int64)
				b, ok2 := v.(int64)
				if !ok1 || !ok2 {
					w.bad("compound assignment on non-integers")
					return wOutcome{}
				}
				switch t.Tok {
				case token.OR_ASSIGN:
					v = a | b
				case token.AND_ASSIGN:
					v = a & b
				case token.XOR_ASSIGN:
					v = a ^ b
				case token.AND_NOT_ASSIGN:
					v = a &^ b
				case token.SHL_ASSIGN:
					v = int64(uint64(a) << uint(b&63))
				default:
					v = int64(uint64(a) >> uint(b&63))
				}
			case token.ADD_ASSIGN, token.SUB_ASSIGN, token.MUL_ASSIGN, token.QUO_ASSIGN:
				a, ok1 := w.expr(l).(int64)
				b, ok2 := v.(int64)
				if !ok1 || !ok2 || (t.Tok == token.QUO_ASSIGN && b == 0) {
					w.bad("compound assignment on non-integers")
					return wOutcome{}
				}
				switch t.Tok {
				case token.ADD_ASSIGN:
					v = a + b
				case token.SUB_ASSIGN:
					v = a - b
				case token.MUL_ASSIGN:
					v = a * b
				default:
					v = a / b
				}
			}
			w.assign(l, v, define)
		}
	case *ast.IncDecStmt:
		a, ok := w.expr(t.X).(int64)
		if !ok {
			w.bad("++ on a non-integer")
			return wOutcome{}
		}
		if t.Tok == token.INC {
			a++
		} else {
			a--
		}
		w.assign(t.X, a, false)
	case *ast.ExprStmt:
		w.expr(t.X)
	case *ast.IfStmt:
		w.push()
		defer w.pop()
		if t.Init != nil {
			if o := w.stmt(t.Init); o.kind != "" {
				return o
			}
		}
		c, ok := w.expr(t.Cond).(bool)
		if !ok {
			w.bad("condition %s is not decided", cx(t.Cond))
			return wOutcome{}
		}
		if c {
			return w.stmt(t.Body)
		}
		if t.Else != nil {
			return w.stmt(t.Else)
		}
	case *ast.ForStmt:
		w.push()
		defer w.pop()
		if t.Init != nil {
			w.stmt(t.Init)
		}
		for w.fail == "" {
			if t.Cond != nil {
				c, ok := w.expr(t.Cond).(bool)
				if !ok {
					w.bad("loop condition %s is not decided", cx(t.Cond))
					break
				}
				if !c {
					break
				}
			}
			o := w.stmt(t.Body)
			if o.kind == "return" {
				return o
			}
			if o.kind == "break" {
				break
			}
			if t.Post != nil {
				w.stmt(t.Post)
			}
		}
	case *ast.RangeStmt:
		// range over an integer or over a tuple of wires
		w.push()
		defer w.pop()
		var n int64
		var elems wtuple
		switch v := w.expr(t.X).(type) {
		case int64:
			n = v
		case wtuple:
			n, elems = int64(len(v)), v
		case []wv:
			n, elems = int64(len(v)), wtuple(v)
		default:
			w.bad("range over %s is not decided", cx(t.X))
			return wOutcome{}
		}
		for i := int64(0); i < n && w.fail == ""; i++ {
			if t.Key != nil && cx(t.Key) != "_" {
				w.set(cx(t.Key), i, true)
			}
			if t.Value != nil && elems != nil && cx(t.Value) != "_" {
				w.set(cx(t.Value), elems[i], true)
			}
			o := w.stmt(t.Body)
			if o.kind == "return" {
				return o
			}
			if o.kind == "break" {
				break
			}
		}
	case *ast.SwitchStmt:
		w.push()
		defer w.pop()
		if t.Init != nil {
			w.stmt(t.Init)
		}
		var tag wv = true
		if t.Tag != nil {
			tag = w.expr(t.Tag)
		}
		var chosen, deflt *ast.CaseClause
		for _, cl := range t.Body.List {
			cc := cl.(*ast.CaseClause)
			if cc.List == nil {
				deflt = cc
				continue
			}
			for _, e := range cc.List {
				v := w.expr(e)
				if w.fail != "" {
					return wOutcome{}
				}
				if chosen == nil && fmt.Sprint(v) == fmt.Sprint(tag) && (v == nil) == (tag == nil) {
					chosen = cc
				}
			}
		}
		if chosen == nil {
			chosen = deflt
		}
		if chosen != nil {
			o := w.stmts(chosen.Body)
			if o.kind == "break" {
				return wOutcome{}
			}
			return o
		}
	case *ast.TypeSwitchStmt:
		// x := v.(type): the driver fixes the dynamic type (w.dynType) and the value bound in the clause (w.dynValue)
		if w.dynType == nil {
			w.bad("type switch without a fixed dynamic type")
			return wOutcome{}
		}
		w.push()
		defer w.pop()
		var chosen, deflt *ast.CaseClause
		for _, cl := range t.Body.List {
			cc := cl.(*ast.CaseClause)
			if cc.List == nil {
				deflt = cc
				continue
			}
			for _, e := range cc.List {
				if tt := w.pkg.TypesInfo.TypeOf(e); tt != nil && types.Identical(tt, w.dynType) && chosen == nil {
					chosen = cc
				}
			}
		}
		if chosen == nil {
			chosen = deflt
		}
		if chosen != nil {
			if as, ok := t.Assign.(*ast.AssignStmt); ok && len(as.Lhs) == 1 {
				w.set(cx(as.Lhs[0]), w.dynValue, true)
			}
			o := w.stmts(chosen.Body)
			if o.kind == "break" {
				return wOutcome{}
			}
			return o
		}
	case *ast.BranchStmt:
		if t.Tok == token.CONTINUE {
			return wOutcome{kind: "continue"}
		}
		if t.Tok == token.BREAK {
			return wOutcome{kind: "break"}
		}
		w.bad("branch %s", t.Tok)
	case *ast.ReturnStmt:
		isErr := false
		var vals []wv
		for _, r := range t.Results {
			vals = append(vals, w.expr(r))
		}
		if len(vals) > 0 {
			isErr = vals[len(vals)-1] != nil
		}
		return wOutcome{kind: "return", err: isErr, vals: vals}
	default:
		if emptyDefer(s) {
			return wOutcome{}
		}
		w.bad("statement %T", s)
	}
	return wOutcome{}
}

// wiringShape is one abstract instruction instance.
type wiringShape struct {
	op         string
	n0, n1, m  int
	c1, c2, c3 int64 // constant operands (count / from,to)
	hasC       [4]bool
}

func (s wiringShape) String() string {
	return fmt.Sprintf("%s n0=%d n1=%d out=%d consts=%d,%d,%d", s.op, s.n0, s.n1, s.m, s.c1, s.c2, s.c3)
}

func atoms(prefix string, n int) []wv {
	out := make([]wv, n)
	for i := range out {
		out[i] = fmt.Sprintf("%s[%d]", prefix, i)
	}
	return out
}

// spec is the reference meaning of the wiring opcodes.
func wiringSpec(s wiringShape) []wv {
	w0, w1 := atoms("w0", s.n0), atoms("w1", s.n1)
	out := make([]wv, s.m)
	for b := range out {
		out[b] = "UNSET"
	}
	sign := wv("ZERO")
	if (s.op == "Srshift" || s.op == "Smov") && s.n0 > 0 {
		sign = w0[s.n0-1]
	}
	for b := 0; b < s.m; b++ {
		switch s.op {
		case "Concat":
			if b < s.n0 {
				out[b] = w0[b]
			} else if b-s.n0 < s.n1 {
				out[b] = w1[b-s.n0]
			}
		case "Lshift":
			if k := b - int(s.c1); k >= 0 && k < s.n0 {
				out[b] = w0[k]
			} else {
				out[b] = "ZERO"
			}
		case "Rshift", "Srshift":
			if k := b + int(s.c1); k < s.n0 {
				out[b] = w0[k]
			} else {
				out[b] = sign
			}
		case "Slice":
			if k := b + int(s.c1); k < int(s.c2) {
				if k < s.n0 {
					out[b] = w0[k]
				} else {
					out[b] = "ZERO"
				}
			} else {
				out[b] = "ZERO"
			}
		case "Mov", "Smov":
			if b < s.n0 {
				out[b] = w0[b]
			} else {
				out[b] = sign
			}
		case "Amov":
			if int64(b) < s.c2 || int64(b) >= s.c3 {
				if b < s.n1 {
					out[b] = w1[b]
				} else {
					out[b] = "ZERO"
				}
			} else if k := b - int(s.c2); k < s.n0 {
				out[b] = w0[k]
			} else {
				out[b] = "ZERO"
			}
		}
	}
	return out
}

func wiringShapes(op string) []wiringShape {
	var out []wiringShape
	switch op {
	case "Concat":
		for n0 := 1; n0 <= bound(3, 5); n0++ {
			for n1 := 1; n1 <= bound(3, 5); n1++ {
				out = append(out, wiringShape{op: op, n0: n0, n1: n1, m: n0 + n1})
			}
		}
	case "Lshift", "Rshift", "Srshift":
		for n0 := 1; n0 <= bound(5, 9); n0++ {
			for c := int64(0); c <= int64(n0)+1; c++ {
				out = append(out, wiringShape{op: op, n0: n0, m: n0, c1: c, hasC: [4]bool{false, true}})
			}
		}
	case "Slice":
		for n0 := 1; n0 <= bound(5, 8); n0++ {
			for from := int64(0); from <= int64(n0); from++ {
				for to := from + 1; to <= int64(n0)+1; to++ {
					out = append(out, wiringShape{op: op, n0: n0, m: int(to - from), c1: from, c2: to, hasC: [4]bool{false, true, true}})
				}
			}
		}
	case "Mov", "Smov":
		for n0 := 1; n0 <= bound(4, 7); n0++ {
			for m := 1; m <= bound(5, 8); m++ {
				out = append(out, wiringShape{op: op, n0: n0, m: m})
			}
		}
	case "Amov":
		for n1 := 2; n1 <= bound(5, 7); n1++ {
			for from := int64(0); from < int64(n1); from++ {
				for to := from + 1; to <= int64(n1); to++ {
					for n0 := 1; n0 <= int(to-from)+1; n0++ {
						out = append(out, wiringShape{op: op, n0: n0, n1: n1, m: n1, c2: from, c3: to, hasC: [4]bool{false, false, true, true}})
					}
				}
			}
		}
	}
	return out
}

// runWiringArm interprets the arm of fd's instr.Op switch for the shape.
func runWiringArm(pkg *packages.Package, arm *ast.CaseClause, s wiringShape, stream bool) ([]wv, string) {
	w := &wInterp{pkg: pkg}
	w.push()
	wires := []wv{atoms("w0", s.n0), atoms("w1", s.n1)}
	w.set("wires", wires, true)
	w.set("instr.Op", s.op, true)
	w.set("instr.Out.Type.Bits", int64(s.m), true)
	for k, c := range []int64{0, s.c1, s.c2, s.c3} {
		if s.hasC[k] {
			w.set(fmt.Sprintf("instr.In[%d].ConstInt()", k), wtuple{c, nil}, true)
		}
	}
	var out []wv
	if stream {
		out = atoms("OUT", s.m)
		w.set("out", out, true)
		w.set("err", nil, true)
		w.set("zero", "ZERO", true)
	}
	o := w.stmts(arm.Body)
	if w.fail != "" {
		return nil, w.fail
	}
	if o.kind == "return" {
		return nil, "the arm returns an error for a well-formed instruction"
	}
	res := w.result
	if stream {
		res = out
	}
	if res == nil {
		return nil, "no output wires were set"
	}
	norm := make([]wv, len(res))
	for i, v := range res {
		if a, ok := v.(string); ok && strings.HasPrefix(a, "OUT[") {
			v = "UNSET"
		}
		norm[i] = v
	}
	return norm, ""
}

// C05wiring: the wiring (alias) opcodes of Program.Circuit and Program.Stream against their reference meaning.
func C05wiring(p *load.Program, run *report.Run) {
	canonFor(p)
	run.Rule("wiring-spec", "for every wiring opcode and every small well-formed shape, the arm of Program.Circuit and the arm of Program.Stream connect each output bit to the wire the opcode's meaning prescribes (input bit, sign bit or zero); no output bit stays unwired")
	pkgC, fdC := dispatch.FindFunc(p, "compiler/ssa", "Program", "Circuit")
	_, fdS := dispatch.FindFunc(p, "compiler/ssa", "Program", "Stream")
	if fdC == nil || fdS == nil {
		run.Undecided("anchor", "compiler/ssa.Program.Circuit/Stream", "", "function not found")
		return
	}
	arms := func(fd *ast.FuncDecl) map[string]*ast.CaseClause {
		out := map[string]*ast.CaseClause{}
		for _, sw := range allSwitches(fd, "instr.Op") {
			for _, st := range sw.Body.List {
				cc := st.(*ast.CaseClause)
				for _, n := range caseNames(cc) {
					if _, dup := out[n]; !dup {
						out[n] = cc
					}
				}
			}
		}
		return out
	}
	c05padding(p, run, pkgC, map[string]*ast.FuncDecl{"Circuit": fdC, "Stream": fdS})
	c05segments(p, run)
	ac, as := arms(fdC), arms(fdS)
	for _, op := range []string{"Concat", "Lshift", "Rshift", "Srshift", "Slice", "Mov", "Smov", "Amov"} {
		for side, m := range map[string]map[string]*ast.CaseClause{"Circuit": ac, "Stream": as} {
			key := fmt.Sprintf("compiler/ssa.Program.%s/%s", side, op)
			arm := m[op]
			if arm == nil {
				run.Violate("wiring-spec", key, "", "opcode has no arm", nil)
				continue
			}
			bad := ""
			n := 0
			for _, s := range wiringShapes(op) {
				n++
				got, why := runWiringArm(pkgC, arm, s, side == "Stream")
				want := wiringSpec(s)
				if why != "" {
					bad = fmt.Sprintf("%s: %s", s, why)
					break
				}
				if fmt.Sprint(got) != fmt.Sprint(want) {
					bad = fmt.Sprintf("%s: wires %v, meaning %v", s, got, want)
					break
				}
			}
			run.Count("wiring-shapes", n)
			if bad != "" {
				run.Violate("wiring-spec", key, p.Rel(arm.Pos()), bad, nil)
			} else {
				run.OK("wiring-spec", key, p.Rel(arm.Pos()), fmt.Sprintf("%d shapes", n))
			}
		}
	}
	run.Floor("wiring-shapes", 400)
}

// operand padding: both functions widen or narrow an operand's wires to the operand type before dispatching.
func c05padding(p *load.Program, run *report.Run, pkg *packages.Package, fds map[string]*ast.FuncDecl) {
	run.Rule("operand-padding", "an operand with fewer wires than its type is extended with its sign wire (signed, non-empty) or the zero wire, one with more is truncated — identically in Program.Circuit and Program.Stream")
	tInt, ok1 := int64(0), false
	tUint, ok2 := int64(0), false
	if tp := p.ByPath[load.Module+"/types"]; tp != nil {
		if c, ok := tp.Types.Scope().Lookup("TInt").(*types.Const); ok {
			tInt, _ = constant.Int64Val(c.Val())
			ok1 = true
		}
		if c, ok := tp.Types.Scope().Lookup("TUint").(*types.Const); ok {
			tUint, _ = constant.Int64Val(c.Val())
			ok2 = true
		}
	}
	if !ok1 || !ok2 {
		run.Undecided("operand-padding", "types.TInt/TUint", "", "constants not found")
		return
	}
	for side, fd := range fds {
		key := "compiler/ssa.Program." + side + "/operand-padding"
		var ifs *ast.IfStmt
		var rng *ast.RangeStmt
		ast.Inspect(fd.Body, func(n ast.Node) bool {
			r, ok := n.(*ast.RangeStmt)
			if !ok || cx(r.X) != "instr.In" || ifs != nil {
				return true
			}
			rng = r
			for _, st := range r.Body.List {
				if i, ok := st.(*ast.IfStmt); ok {
					if be, ok := i.Cond.(*ast.BinaryExpr); ok && (be.Op == token.NEQ || be.Op == token.EQL) {
						if c, ok := be.X.(*ast.CallExpr); ok && cx(c.Fun) == "len" {
							ifs = i
						}
					}
				}
			}
			return true
		})
		if ifs == nil {
			run.Undecided("operand-padding", key, p.Rel(fd.Pos()), "padding statement not found")
			continue
		}
		lenArg := cx(ifs.Cond.(*ast.BinaryExpr).X.(*ast.CallExpr).Args[0])
		// slices declared at function level (`var a, b [][]circuit.Wire`) that the block mentions
		var freeLists []string
		for _, st := range fd.Body.List {
			ds, ok := st.(*ast.DeclStmt)
			if !ok {
				continue
			}
			gd, ok := ds.Decl.(*ast.GenDecl)
			if !ok {
				continue
			}
			for _, sp := range gd.Specs {
				vs, ok := sp.(*ast.ValueSpec)
				if !ok || len(vs.Values) != 0 {
					continue
				}
				if _, isSlice := pkg.TypesInfo.TypeOf(vs.Type).Underlying().(*types.Slice); !isSlice {
					continue
				}
				for _, nm := range vs.Names {
					used := false
					ast.Inspect(ifs, func(x ast.Node) bool {
						if id, ok := x.(*ast.Ident); ok && id.Name == nm.Name {
							used = true
						}
						return !used
					})
					if used && nm.Name != "wires" {
						freeLists = append(freeLists, nm.Name)
					}
				}
			}
		}
		bad := ""
		cells := 0
		for n := 0; n <= 4 && bad == ""; n++ {
			for bits := 1; bits <= 5 && bad == ""; bits++ {
				for _, signed := range []bool{false, true} {
					cells++
					w := &wInterp{pkg: pkg}
					w.push()
					in := atoms("w", n)
					w.set(lenArg, in, true)
					w.set("in.Type.Bits", int64(bits), true)
					tt := tUint
					if signed {
						tt = tInt
					}
					w.set("in.Type.Type", tt, true)
					w.set("wires", []wv{}, true)
					w.set("zero", "ZERO", true)
					w.set("err", nil, true)
					// the operand's position and function-level scratch lists the block may use (empty at an arbitrary
					// instruction: what they hold is overwritten before it is read, or the result shows UNSET)
					if rng != nil {
						if k, ok := rng.Key.(*ast.Ident); ok && k.Name != "_" {
							w.set(k.Name, int64(0), true)
						}
					}
					for _, name := range freeLists {
						w.set(name, []wv{}, true)
					}
					o := w.stmt(ifs)
					want := make([]wv, bits)
					for b := range want {
						switch {
						case b < n:
							want[b] = in[b]
						case signed && n > 0:
							want[b] = in[n-1]
						default:
							want[b] = "ZERO"
						}
					}
					if n == bits {
						want = in
					}
					ws, _ := w.lookup("wires")
					got, _ := ws.([]wv)
					switch {
					case w.fail != "":
						bad = fmt.Sprintf("wires=%d bits=%d signed=%v: %s", n, bits, signed, w.fail)
					case o.kind == "return":
						bad = fmt.Sprintf("wires=%d bits=%d signed=%v: returns", n, bits, signed)
					case len(got) != 1 || fmt.Sprint(got[0]) != fmt.Sprint(want):
						bad = fmt.Sprintf("wires=%d bits=%d signed=%v: operand becomes %v, expected %v", n, bits, signed, got, want)
					}
				}
			}
		}
		run.Count("padding-cells", cells)
		if bad != "" {
			run.Violate("operand-padding", key, p.Rel(ifs.Pos()), bad, nil)
		} else {
			run.OK("operand-padding", key, p.Rel(ifs.Pos()), fmt.Sprintf("%d cells", cells))
		}
	}
	run.Floor("padding-cells", 100)
}

// c05segments: the segmented wire stores of the streaming garbler and evaluator.
func c05segments(p *load.Program, run *report.Run) {
	run.Rule("segment-geometry", "Streaming and StreamEval address wire w as wires[w>>k][w&(2^k-1)], grow in segments of 2^k while len*2^k <= max, with one k on both sides")
	pkg := p.ByPath[load.Module+"/circuit"]
	if pkg == nil {
		return
	}
	ks := map[string]int64{}
	for _, typ := range []string{"Streaming", "StreamEval"} {
		key := "circuit." + typ + "/segments"
		var shift, mask, mul, seg int64 = -1, -1, -1, -1
		leq := false
		okShape := true
		for _, name := range []string{"wire", "setWire"} {
			_, fd := dispatch.FindFunc(p, "circuit", typ, name)
			if fd == nil {
				okShape = false
				continue
			}
			ast.Inspect(fd.Body, func(n ast.Node) bool {
				ix, ok := n.(*ast.IndexExpr)
				if !ok {
					return true
				}
				inner, ok := ix.X.(*ast.IndexExpr)
				if !ok {
					return true
				}
				hi, ok1 := inner.Index.(*ast.BinaryExpr)
				lo, ok2 := ix.Index.(*ast.BinaryExpr)
				if !ok1 || !ok2 || hi.Op != token.SHR || lo.Op != token.AND || cx(hi.X) != cx(lo.X) {
					okShape = false
					return true
				}
				s, _ := constOf(pkg, hi.Y)
				m, _ := constOf(pkg, lo.Y)
				if (shift >= 0 && shift != s) || (mask >= 0 && mask != m) {
					okShape = false
				}
				shift, mask = s, m
				return false
			})
		}
		_, fd := dispatch.FindFunc(p, "circuit", typ, "ensureWires")
		if fd != nil {
			ast.Inspect(fd.Body, func(n ast.Node) bool {
				switch t := n.(type) {
				case *ast.ForStmt:
					if be, ok := t.Cond.(*ast.BinaryExpr); ok {
						leq = be.Op == token.LEQ
						if m, ok := be.X.(*ast.BinaryExpr); ok && m.Op == token.MUL {
							mul, _ = constOf(pkg, m.Y)
						}
					}
				case *ast.CallExpr:
					if id, ok := t.Fun.(*ast.Ident); ok && id.Name == "make" && len(t.Args) == 2 {
						seg, _ = constOf(pkg, t.Args[1])
					}
				}
				return true
			})
		}
		run.Count("segment-stores", 1)
		switch {
		case !okShape || shift < 0:
			run.Undecided("segment-geometry", key, "", "wire/setWire are not wires[w>>k][w&m]")
		case mask != (int64(1)<<shift)-1 || mul != int64(1)<<shift || seg != int64(1)<<shift || !leq:
			run.Violate("segment-geometry", key, "", fmt.Sprintf("shift %d, mask %#x, growth test len*%#x (<=: %v), segment %#x are inconsistent", shift, mask, mul, leq, seg), nil)
		default:
			run.OK("segment-geometry", key, "", fmt.Sprintf("k=%d", shift))
			ks[typ] = shift
		}
	}
	if len(ks) == 2 && ks["Streaming"] != ks["StreamEval"] {
		run.Violate("segment-geometry", "circuit.Streaming/StreamEval", "", "the two sides use different segment sizes", nil)
	}
	run.Floor("segment-stores", 2)

	// every access to a segmented store resolves both levels from one wire id
	run.Rule("segment-access", "every index into a segmented store (a [][]Wire / [][]Label field of Streaming or StreamEval) is the first level of wires[e>>k][e&(2^k-1)] with the same e at both levels: a segment resolved once for a range of ids wraps around at a segment boundary")
	for _, f := range pkg.Syntax {
		for _, d := range f.Decls {
			fd, ok := d.(*ast.FuncDecl)
			if !ok || fd.Body == nil {
				continue
			}
			parent := map[ast.Node]ast.Node{}
			var st []ast.Node
			ast.Inspect(fd.Body, func(n ast.Node) bool {
				if n == nil {
					st = st[:len(st)-1]
					return true
				}
				if len(st) > 0 {
					parent[n] = st[len(st)-1]
				}
				st = append(st, n)
				return true
			})
			ast.Inspect(fd.Body, func(n ast.Node) bool {
				ix, ok := n.(*ast.IndexExpr)
				if !ok {
					return true
				}
				sel, ok := ix.X.(*ast.SelectorExpr)
				if !ok {
					return true
				}
				t := pkg.TypesInfo.TypeOf(sel)
				outer, ok := t.Underlying().(*types.Slice)
				if !ok {
					return true
				}
				if _, ok := outer.Elem().Underlying().(*types.Slice); !ok {
					return true
				}
				owner := typeName(pkg.TypesInfo.TypeOf(sel.X))
				if owner != "Streaming" && owner != "StreamEval" {
					return true
				}
				run.Count("segment-accesses", 1)
				key := fmt.Sprintf("circuit.%s/<%s>.%s[…]", fd.Name.Name, owner, sel.Sel.Name)
				up, _ := parent[ix].(*ast.IndexExpr)
				good := false
				if up != nil && up.X == ast.Expr(ix) {
					hi, ok1 := ast.Unparen(ix.Index).(*ast.BinaryExpr)
					lo, ok2 := ast.Unparen(up.Index).(*ast.BinaryExpr)
					if ok1 && ok2 && hi.Op == token.SHR && lo.Op == token.AND && types.ExprString(hi.X) == types.ExprString(lo.X) {
						good = true
					}
				}
				if good {
					run.OK("segment-access", key, p.Rel(ix.Pos()), "both levels from one id")
				} else {
					run.Violate("segment-access", key, p.Rel(ix.Pos()), "a segment of the store is selected without selecting the element from the same wire id: ids beyond the segment's end wrap around to its start instead of moving to the next segment", nil)
				}
				return true
			})
		}
	}
	run.Floor("segment-accesses", 4)
}

// convertWord models an integer conversion on a word kept sign- or zero-extended to its full length: the
// low bits of the target width are kept and extended according to the target's signedness.
func convertWord(x wword, to types.Type) wword {
	b, ok := to.Underlying().(*types.Basic)
	if !ok || b.Info()&types.IsInteger == 0 {
		return x
	}
	width := map[types.BasicKind]int{types.Int8: 8, types.Uint8: 8, types.Int16: 16, types.Uint16: 16, types.Int32: 32, types.Uint32: 32,
		types.Int64: 64, types.Uint64: 64, types.Int: 64, types.Uint: 64, types.Uintptr: 64}[b.Kind()]
	if width == 0 || width >= len(x) {
		return x
	}
	out := make(wword, len(x))
	copy(out, x[:width])
	fill := "0"
	if b.Info()&types.IsUnsigned == 0 {
		fill = x[width-1]
	}
	for i := width; i < len(out); i++ {
		out[i] = fill
	}
	return out
}
