package props

import (
	"fmt"
	"go/ast"
	"go/constant"
	"go/token"
	"go/types"

	"golang.org/x/tools/go/packages"

	"mpcverif/internal/dispatch"
	"mpcverif/internal/load"
	"mpcverif/internal/report"
)

func constOf(pkg *packages.Package, e ast.Expr) (int64, bool) {
	if tv, ok := pkg.TypesInfo.Types[e]; ok && tv.Value != nil && tv.Value.Kind() == constant.Int {
		k, _ := constant.Int64Val(tv.Value)
		return k, true
	}
	return 0, false
}

func pkgConst(pkg *packages.Package, name string) (int64, bool) {
	if c, ok := pkg.Types.Scope().Lookup(name).(*types.Const); ok && c.Val().Kind() == constant.Int {
		k, _ := constant.Int64Val(c.Val())
		return k, true
	}
	return 0, false
}

// C06geom: chunk geometry agreement of the IKNP sender and receiver loops.
func C06geom(p *load.Program, run *report.Run) {
	run.Rule("chunk-constants", "chunkByteRows*K = chunkSize, chunkRows = 8*chunkByteRows, chunkRows is a multiple of 64 (word addressing of the packed form)")
	run.Rule("chunk-length-inverse", "the receiver sends byteRows*C bytes per chunk and the sender recovers byteRows = len(chunk)/C' after rejecting len(chunk)%C'' != 0, with C = C' = K (and C'' = K where the divisibility guard is present)")
	run.Rule("chunk-stride", "in both roles every buffer that is cut into columns is cut with one stride in all its accesses ([i*S+e : (i+1)*S+e] or [i*S+e:]); the matrix handed to createLabels has the stride createLabels gets as width, which is the chunk width recovered from / used for the length on the wire, and the received chunk is cut with that width")
	run.Rule("chunk-advance", "the receiver advances by rows = min(chunkRows, remaining); the sender by byteRows*8 or min(byteRows*8, remaining)")
	pkg := p.ByPath[load.Module+"/ot"]
	if pkg == nil {
		run.Undecided("anchor", "ot", "", "package not loaded")
		return
	}
	K, ok1 := pkgConst(pkg, "K")
	cs, ok2 := pkgConst(pkg, "chunkSize")
	cbr, ok3 := pkgConst(pkg, "chunkByteRows")
	cr, ok4 := pkgConst(pkg, "chunkRows")
	if !ok1 || !ok2 || !ok3 || !ok4 {
		run.Undecided("chunk-constants", "ot/iknp constants", "", "K, chunkSize, chunkByteRows or chunkRows not found")
		return
	}
	if cbr*K == cs && cr == 8*cbr && cr%64 == 0 {
		run.OK("chunk-constants", "ot.K/chunkSize/chunkByteRows/chunkRows", "", fmt.Sprintf("K=%d chunkSize=%d chunkByteRows=%d chunkRows=%d", K, cs, cbr, cr))
	} else {
		run.Violate("chunk-constants", "ot.K/chunkSize/chunkByteRows/chunkRows", "", fmt.Sprintf("K=%d chunkSize=%d chunkByteRows=%d chunkRows=%d are inconsistent", K, cs, cbr, cr), nil)
	}
	type side struct {
		recv, name string
		sender     bool
	}
	for _, pr := range [][2]side{
		{{"IKNPSender", "send", true}, {"IKNPReceiver", "receive", false}},
		{{"IKNPSender", "SendBits", true}, {"IKNPReceiver", "ReceiveBits", false}},
	} {
		key := fmt.Sprintf("ot.%s.%s/ot.%s.%s", pr[0].recv, pr[0].name, pr[1].recv, pr[1].name)
		_, fs := dispatch.FindFunc(p, "ot", pr[0].recv, pr[0].name)
		_, fr := dispatch.FindFunc(p, "ot", pr[1].recv, pr[1].name)
		if fs == nil || fr == nil {
			run.Undecided("chunk-length-inverse", key, "", "function not found")
			continue
		}
		run.Count("chunk-pairs", 1)
		// receiver: SendData(x[:byteRows*C])
		var c1 int64 = -1
		widthVar := ""
		ast.Inspect(fr.Body, func(n ast.Node) bool {
			call, ok := n.(*ast.CallExpr)
			if !ok {
				return true
			}
			if sel, ok := call.Fun.(*ast.SelectorExpr); ok && sel.Sel.Name == "SendData" && len(call.Args) == 1 {
				if sl, ok := call.Args[0].(*ast.SliceExpr); ok && sl.High != nil {
					if be, ok := sl.High.(*ast.BinaryExpr); ok && be.Op == token.MUL {
						if k, ok := constOf(pkg, be.Y); ok {
							c1 = k
							widthVar = types.ExprString(be.X)
						}
					}
				}
			}
			return true
		})
		// sender: byteRows := len(chunk)/C2 ; if len(chunk)%C3 != 0 { return err }
		var c2, c3 int64 = -1, -1
		sWidth := ""
		chunkVar, _ := chunkLoopVars(fs)
		lenChunk := "len(" + chunkVar + ")"
		ast.Inspect(fs.Body, func(n ast.Node) bool {
			switch t := n.(type) {
			case *ast.AssignStmt:
				if len(t.Rhs) == 1 {
					if be, ok := t.Rhs[0].(*ast.BinaryExpr); ok && be.Op == token.QUO && types.ExprString(be.X) == lenChunk {
						if k, ok := constOf(pkg, be.Y); ok {
							c2 = k
							sWidth = types.ExprString(t.Lhs[0])
						}
					}
				}
			case *ast.IfStmt:
				if be, ok := t.Cond.(*ast.BinaryExpr); ok && be.Op == token.NEQ {
					if m, ok := be.X.(*ast.BinaryExpr); ok && m.Op == token.REM && types.ExprString(m.X) == lenChunk {
						if k, ok := constOf(pkg, m.Y); ok {
							if z, ok := constOf(pkg, be.Y); ok && z == 0 && len(t.Body.List) > 0 {
								if _, isRet := t.Body.List[len(t.Body.List)-1].(*ast.ReturnStmt); isRet {
									c3 = k
								}
							}
						}
					}
				}
			}
			return true
		})
		if c1 == K && c2 == K && (c3 == K || c3 == -1) {
			run.OK("chunk-length-inverse", key, p.Rel(fr.Pos()), fmt.Sprintf("%s*%d sent, len(chunk)/%d recovered, %%%d checked", widthVar, c1, c2, c3))
		} else {
			run.Violate("chunk-length-inverse", key, p.Rel(fr.Pos()), fmt.Sprintf("receiver sends width*%d, sender divides by %d and checks %% %d; K=%d", c1, c2, c3, K), nil)
		}
		// stride and createLabels width
		// Every buffer that is cut into columns has one stride: B[X*S+E : (X+1)*S+E] or B[X*S+E:] with the same
		// S in every access of the function.  The matrix handed to createLabels has the stride that
		// createLabels is given as width, and the chunk on the wire has the width recovered from (or used
		// for) its length.
		strideOK := func(fd *ast.FuncDecl, w string, wire string) (bool, int) {
			okAll, n := true, 0
			strides := map[string]string{}
			split := func(e ast.Expr) (idx, stride, extra string, ok bool) {
				e = ast.Unparen(e)
				if be, isBin := e.(*ast.BinaryExpr); isBin && be.Op == token.ADD {
					if m, isM := ast.Unparen(be.X).(*ast.BinaryExpr); isM && m.Op == token.MUL {
						return types.ExprString(ast.Unparen(m.X)), types.ExprString(m.Y), types.ExprString(be.Y), true
					}
					if m, isM := ast.Unparen(be.Y).(*ast.BinaryExpr); isM && m.Op == token.MUL {
						return types.ExprString(ast.Unparen(m.X)), types.ExprString(m.Y), types.ExprString(be.X), true
					}
					return "", "", "", false
				}
				if m, isM := e.(*ast.BinaryExpr); isM && m.Op == token.MUL {
					return types.ExprString(ast.Unparen(m.X)), types.ExprString(m.Y), "", true
				}
				return "", "", "", false
			}
			ast.Inspect(fd.Body, func(nd ast.Node) bool {
				switch t := nd.(type) {
				case *ast.CallExpr:
					if id, ok := t.Fun.(*ast.Ident); ok && id.Name == "createLabels" {
						n++
						if len(t.Args) != 3 || types.ExprString(t.Args[2]) != w {
							okAll = false
						} else {
							base := t.Args[1]
							if sl, ok := base.(*ast.SliceExpr); ok {
								base = sl.X
							}
							b := types.ExprString(base)
							if st, seen := strides[b]; seen && st != w {
								okAll = false
							}
							strides[b] = w
						}
					}
				case *ast.SliceExpr:
					if t.Low == nil {
						return true
					}
					idx, stride, extra, ok := split(t.Low)
					if !ok {
						return true
					}
					n++
					b := types.ExprString(t.X)
					if st, seen := strides[b]; seen && st != stride {
						okAll = false // the same buffer cut with two different strides
					}
					strides[b] = stride
					if t.High != nil {
						hIdx, hStride, hExtra, hok := split(t.High)
						if !hok || hStride != stride || hExtra != extra || (hIdx != idx+" + 1" && hIdx != "1 + "+idx) {
							okAll = false
						}
					}
				}
				return true
			})
			if wire != "" {
				if st, seen := strides[wire]; seen && st != w {
					okAll = false
				}
			}
			return okAll, n
		}
		okS, nS := strideOK(fs, sWidth, chunkVar)
		okR, nR := strideOK(fr, widthVar, "")
		if okS && okR && nS >= 3 && nR >= 3 {
			run.OK("chunk-stride", key, p.Rel(fs.Pos()), fmt.Sprintf("%d+%d column accesses with stride %s/%s", nS, nR, sWidth, widthVar))
		} else {
			run.Violate("chunk-stride", key, p.Rel(fs.Pos()), "a buffer is cut into columns with two different strides, the matrix handed to createLabels or the received chunk is cut with a stride other than the chunk's width, or createLabels gets another width", nil)
		}
		// advance
		ofsOf := func(fd *ast.FuncDecl) string {
			_, o := chunkLoopVars(fd)
			return o
		}
		adv := func(fd *ast.FuncDecl) string {
			out := ""
			ast.Inspect(fd.Body, func(nd ast.Node) bool {
				if as, ok := nd.(*ast.AssignStmt); ok && as.Tok == token.ADD_ASSIGN && types.ExprString(as.Lhs[0]) == ofsOf(fd) {
					out = types.ExprString(as.Rhs[0])
				}
				return true
			})
			return out
		}
		// the advance variable must be min(X, remaining): `v := X; if v > R { v = R }`
		minInit := func(fd *ast.FuncDecl, v string) (init, bound string) {
			ast.Inspect(fd.Body, func(nd ast.Node) bool {
				switch t := nd.(type) {
				case *ast.AssignStmt:
					if t.Tok == token.DEFINE && len(t.Lhs) == 1 && types.ExprString(t.Lhs[0]) == v {
						init = types.ExprString(t.Rhs[0])
					}
				case *ast.IfStmt:
					if big, small, strict, ok := ordCmp(t.Cond); ok && strict && types.ExprString(big) == v && len(effectiveQ(pkg.TypesInfo, t.Body.List)) == 1 {
						if as, ok := effectiveQ(pkg.TypesInfo, t.Body.List)[0].(*ast.AssignStmt); ok && types.ExprString(as.Lhs[0]) == v && types.ExprString(as.Rhs[0]) == types.ExprString(small) {
							bound = types.ExprString(small)
						}
					}
				}
				return true
			})
			return
		}
		sa, ra := adv(fs), adv(fr)
		rInit, rBound := minInit(fr, ra)
		okAdv := rInit == "chunkRows" && rBound != ""
		// the width variable's own definition (byteRows := len(chunk) / K) written out in the advance
		sWidthDef := ""
		ast.Inspect(fs.Body, func(nd ast.Node) bool {
			if as, ok := nd.(*ast.AssignStmt); ok && as.Tok == token.DEFINE && len(as.Lhs) == 1 && len(as.Rhs) == 1 && types.ExprString(as.Lhs[0]) == sWidth {
				sWidthDef = types.ExprString(as.Rhs[0])
			}
			return true
		})
		switch {
		case sa == sWidth+" * 8":
		case sWidthDef != "" && sa == sWidthDef+" * 8":
		default:
			i, b := minInit(fs, sa)
			// rows := byteRows*8; maxRows := rows; if maxRows > n-ofs {...}
			if b == "" {
				okAdv = false
			}
			if i != sWidth+" * 8" {
				i2, _ := minInit(fs, i)
				if i2 != sWidth+" * 8" {
					okAdv = false
				}
			}
		}
		if okAdv {
			run.OK("chunk-advance", key, p.Rel(fs.Pos()), fmt.Sprintf("sender ofs += %s, receiver ofs += %s = min(%s, %s)", sa, ra, rInit, rBound))
		} else {
			run.Violate("chunk-advance", key, p.Rel(fs.Pos()), fmt.Sprintf("sender ofs += %s, receiver ofs += %s (init %s): the two sides do not cover the same rows per chunk", sa, ra, rInit), nil)
		}
	}
	run.Floor("chunk-pairs", 2)
}

// chunkLoopVars finds, in a function that exchanges chunks, the variable the
// received chunk is bound to and the row offset the chunk loop advances.
func chunkLoopVars(fd *ast.FuncDecl) (chunk, ofs string) {
	ast.Inspect(fd.Body, func(n ast.Node) bool {
		switch t := n.(type) {
		case *ast.ForStmt:
			if ofs == "" && (containsCall(t.Body, "ReceiveData") || containsCall(t.Body, "SendData")) {
				if be, ok := t.Cond.(*ast.BinaryExpr); ok {
					if id, ok := be.X.(*ast.Ident); ok {
						ofs = id.Name
					}
				}
			}
		case *ast.AssignStmt:
			if chunk == "" && len(t.Lhs) >= 1 && containsCall(t, "ReceiveData") {
				chunk = types.ExprString(t.Lhs[0])
			}
		}
		return true
	})
	return
}
