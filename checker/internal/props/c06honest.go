package props

import (
	"fmt"
	"go/constant"
	"go/token"
	"sort"
	"strings"

	"golang.org/x/tools/go/ssa"

	"mpcverif/internal/load"
	"mpcverif/internal/report"
)

// C06honest: the size checks of the IKNP sender accept every chunk an honest receiver sends.
//
// The receiver sends, per chunk, byteRows·K bytes for byteRows in 1..chunkByteRows (chunk-length-inverse,
// chunk-advance); the largest is chunkSize, exactly the size of the sender's matrix buffer.  A validation of
// the received length is welcome (an oversized chunk would otherwise overrun the buffer), but it has to
// leave the honest lengths alone: `len(chunk) >= len(t)` rejects the full chunk, so every extension of 505
// or more labels fails with "invalid chunk size" while every test (short extensions) passes.  Each branch
// on a value computed from len(chunk) and constants whose one side ends the function with an error is
// evaluated for all honest lengths; none may take the error side.
func C06honest(p *load.Program, run *report.Run) {
	const rule = "honest-chunk-lengths-accepted"
	run.Rule(rule, "in IKNPSender.send and IKNPSender.SendBits: every conditional branch whose condition is a comparison of an expression over len(<received chunk>) and integer constants, and one of whose sides leaves the function with a non-nil error, does not take that side for any length byteRows*K with 1 <= byteRows <= chunkByteRows")
	pkg := p.ByPath[load.Module+"/ot"]
	if pkg == nil {
		run.Undecided(rule, "ot", "", "package not loaded")
		return
	}
	K, ok1 := pkgConst(pkg, "K")
	cbr, ok2 := pkgConst(pkg, "chunkByteRows")
	if !ok1 || !ok2 {
		run.Undecided(rule, "ot.K/chunkByteRows", "", "constants not found")
		return
	}
	for _, name := range []string{"send", "SendBits"} {
		fn, err := p.Method("ot", "IKNPSender", name)
		key := "ot.IKNPSender." + name
		if err != nil {
			run.Undecided(rule, key, "", err.Error())
			continue
		}
		// the received chunk: the []byte result of ReceiveData
		chunks := map[ssa.Value]bool{}
		for _, b := range fn.Blocks {
			for _, ins := range b.Instrs {
				c, ok := ins.(*ssa.Call)
				if !ok || !c.Call.IsInvoke() || c.Call.Method.Name() != "ReceiveData" || c.Referrers() == nil {
					continue
				}
				for _, r := range *c.Referrers() {
					if ex, ok := r.(*ssa.Extract); ok && ex.Index == 0 {
						chunks[ex] = true
					}
				}
			}
		}
		if len(chunks) == 0 {
			run.Undecided(rule, key, p.Rel(fn.Pos()), "no chunk received through ReceiveData")
			continue
		}
		var eval func(v ssa.Value, n int64, depth int) (int64, bool)
		eval = func(v ssa.Value, n int64, depth int) (int64, bool) {
			if depth > 8 {
				return 0, false
			}
			switch t := v.(type) {
			case *ssa.Const:
				if t.Value != nil && t.Value.Kind() == constant.Int {
					return t.Int64(), true
				}
			case *ssa.Convert:
				return eval(t.X, n, depth+1)
			case *ssa.Call:
				if bi, ok := t.Call.Value.(*ssa.Builtin); ok && bi.Name() == "len" && len(t.Call.Args) == 1 && chunks[t.Call.Args[0]] {
					return n, true
				}
			case *ssa.BinOp:
				x, ok1 := eval(t.X, n, depth+1)
				y, ok2 := eval(t.Y, n, depth+1)
				if !ok1 || !ok2 {
					return 0, false
				}
				switch t.Op {
				case token.ADD:
					return x + y, true
				case token.SUB:
					return x - y, true
				case token.MUL:
					return x * y, true
				case token.QUO:
					if y != 0 {
						return x / y, true
					}
				case token.REM:
					if y != 0 {
						return x % y, true
					}
				}
			}
			return 0, false
		}
		checks := 0
		for _, b := range fn.Blocks {
			iff, ok := b.Instrs[len(b.Instrs)-1].(*ssa.If)
			if !ok {
				continue
			}
			bo, ok := iff.Cond.(*ssa.BinOp)
			if !ok {
				continue
			}
			switch bo.Op {
			case token.EQL, token.NEQ, token.LSS, token.LEQ, token.GTR, token.GEQ:
			default:
				continue
			}
			if _, ok := eval(bo.X, K, 0); !ok {
				continue
			}
			if _, ok := eval(bo.Y, K, 0); !ok {
				continue
			}
			// it must involve the chunk length
			depends := false
			x1, _ := eval(bo.X, K, 0)
			y1, _ := eval(bo.Y, K, 0)
			for _, probe := range []int64{K + 1, 2*K + 3, 7} {
				x2, _ := eval(bo.X, probe, 0)
				y2, _ := eval(bo.Y, probe, 0)
				if x1 != x2 || y1 != y2 {
					depends = true
				}
			}
			if !depends {
				continue
			}
			errSide := -1
			if errorExit(b.Succs[0]) {
				errSide = 0
			} else if errorExit(b.Succs[1]) {
				errSide = 1
			}
			if errSide < 0 {
				continue
			}
			checks++
			ckey := fmt.Sprintf("%s/length check#%d", key, checks)
			var rejected []string
			for r := int64(1); r <= cbr; r++ {
				n := r * K
				x, _ := eval(bo.X, n, 0)
				y, _ := eval(bo.Y, n, 0)
				var c bool
				switch bo.Op {
				case token.EQL:
					c = x == y
				case token.NEQ:
					c = x != y
				case token.LSS:
					c = x < y
				case token.LEQ:
					c = x <= y
				case token.GTR:
					c = x > y
				case token.GEQ:
					c = x >= y
				}
				if c == (errSide == 0) {
					rejected = append(rejected, fmt.Sprint(n))
				}
			}
			if len(rejected) > 0 {
				sort.Strings(rejected)
				show := rejected
				if len(show) > 4 {
					show = append(show[:2], "…", show[len(show)-1])
				}
				run.Violate(rule, ckey, p.Rel(bo.Pos()), fmt.Sprintf("this check ends the transfer with an error for the honest chunk length(s) %s (of byteRows*K, byteRows = 1..%d)", strings.Join(show, ", "), cbr), nil)
			} else {
				run.OK(rule, ckey, p.Rel(bo.Pos()), fmt.Sprintf("passes all %d honest lengths", cbr))
			}
		}
		run.Count("chunk-length-checks", checks)
	}
	run.Floor("chunk-length-checks", 1)
}
