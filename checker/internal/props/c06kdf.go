package props

import (
	"fmt"
	"go/ast"
	"go/types"
	"sort"
	"strings"

	"mpcverif/internal/dispatch"
	"mpcverif/internal/load"
	"mpcverif/internal/report"
)

// C06kdf: both ends of the Chou-Orlandi transfer separate their key derivations by the same value.
func C06kdf(p *load.Program, run *report.Run) {
	run.Rule("mask-domain-agreement", "sender and receiver pass the same domain-separation value to deriveMask: the index of the transfer within the batch (the variable that also indexes the result) in the batched helpers, one constant in the single-transfer form")
	pkg := p.ByPath[load.Module+"/ot"]
	if pkg == nil {
		return
	}
	classes := func(recv, name string) ([]string, string) {
		_, fd := dispatch.FindFunc(p, "ot", recv, name)
		if fd == nil {
			return nil, "function not found"
		}
		// the transfer index is the variable of the innermost loop around the call
		set := map[string]bool{}
		var loops []string
		var walk func(n ast.Node)
		walk = func(n ast.Node) {
			if n == nil {
				return
			}
			pushed := false
			switch t := n.(type) {
			case *ast.RangeStmt:
				if t.Key != nil {
					loops = append(loops, types.ExprString(t.Key))
					pushed = true
				}
			case *ast.ForStmt:
				if as, ok := t.Init.(*ast.AssignStmt); ok && len(as.Lhs) == 1 {
					loops = append(loops, types.ExprString(as.Lhs[0]))
					pushed = true
				}
			case *ast.CallExpr:
				if types.ExprString(t.Fun) == "deriveMask" && len(t.Args) == 3 {
					arg := ast.Unparen(unwrapConv(t.Args[2]))
					if k, ok := constOf(pkg, arg); ok {
						set[fmt.Sprintf("const:%d", k)] = true
					} else if len(loops) > 0 && types.ExprString(arg) == loops[len(loops)-1] {
						set["transfer-index"] = true
					} else {
						set["other:"+types.ExprString(arg)] = true
					}
				}
			}
			ast.Inspect(n, func(c ast.Node) bool {
				if c == n || c == nil {
					return c == n
				}
				walk(c)
				return false
			})
			if pushed {
				loops = loops[:len(loops)-1]
			}
		}
		walk(fd.Body)
		var out []string
		for k := range set {
			out = append(out, k)
		}
		sort.Strings(out)
		if len(out) == 0 {
			return nil, "no deriveMask call"
		}
		return out, ""
	}
	for _, pr := range [][4]string{{"", "EncryptCOCiphertexts", "", "DecryptCOCiphertexts"}, {"COSenderXfer", "ReceiveB", "COReceiverXfer", "ReceiveE"}} {
		key := fmt.Sprintf("ot.%s/%s", strings.TrimPrefix(pr[0]+"."+pr[1], "."), strings.TrimPrefix(pr[2]+"."+pr[3], "."))
		run.Count("mask-pairs", 1)
		a, w1 := classes(pr[0], pr[1])
		b, w2 := classes(pr[2], pr[3])
		switch {
		case w1 != "" || w2 != "":
			run.Undecided("mask-domain-agreement", key, "", w1+" "+w2)
		case strings.Join(a, ",") != strings.Join(b, ","):
			run.Violate("mask-domain-agreement", key, "", fmt.Sprintf("the sender separates by %v, the receiver by %v: their masks differ for every transfer but the one where the two coincide", a, b), nil)
		default:
			run.OK("mask-domain-agreement", key, "", strings.Join(a, ","))
		}
	}
	run.Floor("mask-pairs", 2)
}
