package props

import (
	"fmt"
	"go/ast"
	"go/types"
	"sort"
	"strings"

	"mpcverif/internal/dispatch"
	"mpcverif/internal/load"
	"mpcverif/internal/report"
)

// C06kdf: both ends of the Chou-Orlandi transfer separate their key derivations by the same value.
func C06kdf(p *load.Program, run *report.Run) {
	run.Rule("mask-domain-agreement", "sender and receiver pass the same domain-separation value to deriveMask: the index of the transfer within the batch (the variable that also indexes the result) in the batched helpers, one constant in the single-transfer form")
	pkg := p.ByPath[load.Module+"/ot"]
	if pkg == nil {
		return
	}
	classes := func(recv, name string) ([]string, string) {
		_, fd := dispatch.FindFunc(p, "ot", recv, name)
		if fd == nil {
			return nil, "function not found"
		}
		// the transfer index is the variable of the innermost loop around the call
		set := map[string]bool{}
		var loops []string
		var walk func(n ast.Node)
		walk = func(n ast.Node) {
			if n == nil {
				return
			}
			pushed := false
			switch t := n.(type) {
			case *ast.RangeStmt:
				if t.Key != nil {
					loops = append(loops, types.ExprString(t.Key))
					pushed = true
				}
			case *ast.ForStmt:
				if as, ok := t.Init.(*ast.AssignStmt); ok && len(as.Lhs) == 1 {
					loops = append(loops, types.ExprString(as.Lhs[0]))
					pushed = true
				}
			case *ast.CallExpr:
				if types.ExprString(t.Fun) == "deriveMask" && len(t.Args) == 3 {
					arg := ast.Unparen(unwrapConv(t.Args[2]))
					if k, ok := constOf(pkg, arg); ok {
						set[fmt.Sprintf("const:%d", k)] = true
					} else if len(loops) > 0 && types.ExprString(arg) == loops[len(loops)-1] {
						set["transfer-index"] = true
					} else {
						set["other:"+types.ExprString(arg)] = true
					}
				}
			}
			ast.Inspect(n, func(c ast.Node) bool {
				if c == n || c == nil {
					return c == n
				}
				walk(c)
				return false
			})
			if pushed {
				loops = loops[:len(loops)-1]
			}
		}
		walk(fd.Body)
		var out []string
		for k := range set {
			out = append(out, k)
		}
		sort.Strings(out)
		if len(out) == 0 {
			return nil, "no deriveMask call"
		}
		return out, ""
	}
	for _, pr := range [][4]string{{"", "EncryptCOCiphertexts", "", "DecryptCOCiphertexts"}, {"COSenderXfer", "ReceiveB", "COReceiverXfer", "ReceiveE"}} {
		key := fmt.Sprintf("ot.%s/%s", strings.TrimPrefix(pr[0]+"."+pr[1], "."), strings.TrimPrefix(pr[2]+"."+pr[3], "."))
		run.Count("mask-pairs", 1)
		a, w1 := classes(pr[0], pr[1])
		b, w2 := classes(pr[2], pr[3])
		switch {
		case w1 != "" || w2 != "":
			run.Undecided("mask-domain-agreement", key, "", w1+" "+w2)
		case strings.Join(a, ",") != strings.Join(b, ","):
			run.Violate("mask-domain-agreement", key, "", fmt.Sprintf("the sender separates by %v, the receiver by %v: their masks differ for every transfer but the one where the two coincide", a, b), nil)
		default:
			run.OK("mask-domain-agreement", key, "", strings.Join(a, ","))
		}
	}
	run.Floor("mask-pairs", 2)

	// the batched helpers number the transfers by their position in the slice they are given:
	// a caller that hands them a batch piecewise (a call inside a loop) restarts the numbering
	// at every piece, on its side only
	run.Rule("mask-domain-batch", "the batched helpers EncryptCOCiphertexts / DecryptCOCiphertexts, which separate transfers by position within their argument, are called once per batch: no call site lies inside a loop of its caller")
	helpers := map[types.Object]string{}
	for _, n := range []string{"EncryptCOCiphertexts", "DecryptCOCiphertexts"} {
		if o := pkg.Types.Scope().Lookup(n); o != nil {
			helpers[o] = n
		}
	}
	if len(helpers) != 2 {
		run.Undecided("mask-domain-batch", "ot.EncryptCOCiphertexts/DecryptCOCiphertexts", "", "helpers not found")
		return
	}
	for _, q := range p.Pkgs {
		if !strings.HasPrefix(q.PkgPath, load.Module) || strings.Contains(q.PkgPath, "/apps/") {
			continue
		}
		for _, f := range q.Syntax {
			if strings.HasSuffix(p.Fset.Position(f.Pos()).Filename, "_test.go") {
				continue
			}
			for _, d := range f.Decls {
				fd, ok := d.(*ast.FuncDecl)
				if !ok || fd.Body == nil {
					continue
				}
				var stack []ast.Node
				ast.Inspect(fd.Body, func(n ast.Node) bool {
					if n == nil {
						stack = stack[:len(stack)-1]
						return true
					}
					stack = append(stack, n)
					call, ok := n.(*ast.CallExpr)
					if !ok {
						return true
					}
					var obj types.Object
					switch t := call.Fun.(type) {
					case *ast.Ident:
						obj = q.TypesInfo.ObjectOf(t)
					case *ast.SelectorExpr:
						obj = q.TypesInfo.ObjectOf(t.Sel)
					}
					name, isHelper := helpers[obj]
					if !isHelper {
						return true
					}
					run.Count("batched-helper-calls", 1)
					inLoop := false
					for _, s := range stack {
						switch s.(type) {
						case *ast.ForStmt, *ast.RangeStmt:
							inLoop = true
						}
					}
					key := fmt.Sprintf("%s.%s/%s", strings.TrimPrefix(q.PkgPath, load.Module+"/"), fd.Name.Name, name)
					if inLoop {
						run.Violate("mask-domain-batch", key, p.Rel(call.Pos()), name+" is called inside a loop: each piece is numbered from 0 again, so the masks of this side differ from the peer's for every piece but the first", nil)
					} else {
						run.OK("mask-domain-batch", key, p.Rel(call.Pos()), "one call per batch")
					}
					return true
				})
			}
		}
	}
	run.Floor("batched-helper-calls", 4)
}
