package props

import (
	"fmt"
	"go/ast"
	"go/token"
	"go/types"

	"mpcverif/internal/dispatch"
	"mpcverif/internal/load"
	"mpcverif/internal/report"
)

// C06mitccrh: both ends of the correlated/random OT drive the tweakable hash with the same key schedule.
func C06mitccrh(p *load.Program, run *report.Run) {
	run.Rule("mitccrh-schedule", "sender and receiver create the MITCCRH with the same batch size, consume the same number k of keys per Hash call (the sender hashing 2 blocks per key, the receiver 1), size their pad as k*h and advance the OT index by k per call")
	pkg := p.ByPath[load.Module+"/ot"]
	if pkg == nil {
		return
	}
	type shape struct {
		batch, k, h, stride, pad int64
		ok                       bool
		why                      string
		// scope: "per-call" when the hash object is created unconditionally at the top level of the
		// role function and kept in a local; anything else (a field, a conditional creation) persists
		scope string
	}
	extract := func(recv, name string) shape {
		_, fd := dispatch.FindFunc(p, "ot", recv, name)
		s := shape{batch: -1, k: -1, h: -1, stride: -1, pad: -1}
		if fd == nil {
			s.why = "function not found"
			return s
		}
		padVar := ""
		s.scope = "none"
		for _, st := range effectiveQ(pkg.TypesInfo, fd.Body.List) {
			if as, ok := st.(*ast.AssignStmt); ok && len(as.Rhs) == 1 && len(as.Lhs) == 1 {
				if c, ok := as.Rhs[0].(*ast.CallExpr); ok {
					if _, nm, _ := callName(c); nm == "NewMITCCRH" {
						if _, isLocal := as.Lhs[0].(*ast.Ident); isLocal {
							s.scope = "per-call"
						}
					}
				}
			}
		}
		if s.scope == "none" && containsCall(fd.Body, "NewMITCCRH") {
			s.scope = "persistent"
		}
		ast.Inspect(fd.Body, func(n ast.Node) bool {
			switch t := n.(type) {
			case *ast.CallExpr:
				_, nm, _ := callName(t)
				switch nm {
				case "NewMITCCRH":
					if k, ok := constOf(pkg, t.Args[1]); ok {
						s.batch = k
					}
				case "Hash":
					if len(t.Args) == 3 {
						if k, ok := constOf(pkg, t.Args[1]); ok {
							s.k = k
						}
						if h, ok := constOf(pkg, t.Args[2]); ok {
							s.h = h
						}
						padVar = baseName(t.Args[0])
					}
				}
			case *ast.ForStmt:
				if as, ok := t.Post.(*ast.AssignStmt); ok && as.Tok == token.ADD_ASSIGN {
					if k, ok := constOf(pkg, as.Rhs[0]); ok && s.stride < 0 {
						s.stride = k
					}
				}
			}
			return true
		})
		ast.Inspect(fd.Body, func(n ast.Node) bool {
			if as, ok := n.(*ast.AssignStmt); ok && len(as.Lhs) == 1 && types.ExprString(as.Lhs[0]) == padVar && len(as.Rhs) == 1 {
				if c, ok := as.Rhs[0].(*ast.CallExpr); ok {
					if id, ok := c.Fun.(*ast.Ident); ok && id.Name == "make" && len(c.Args) >= 2 {
						if k, ok := constOf(pkg, c.Args[1]); ok {
							s.pad = k
						}
					}
				}
			}
			return true
		})
		s.ok = s.batch > 0 && s.k > 0 && s.h > 0 && s.stride > 0 && s.pad > 0
		if !s.ok {
			s.why = fmt.Sprintf("batch=%d k=%d h=%d stride=%d pad=%d not all constant", s.batch, s.k, s.h, s.stride, s.pad)
		}
		return s
	}
	for _, pr := range [][3]string{{"COT", "Send", "Receive"}, {"ROT", "Send", "Receive"}} {
		// the random OT may name its roles differently; fall back to the functions that call Hash
		snd, rcv := extract(pr[0], pr[1]), extract(pr[0], pr[2])
		key := fmt.Sprintf("ot.%s.%s/%s", pr[0], pr[1], pr[2])
		run.Count("mitccrh-pairs", 1)
		switch {
		case snd.scope != rcv.scope:
			run.Violate("mitccrh-schedule", key, "", fmt.Sprintf("the sender's hash object is %s, the receiver's %s: the tweak counter of one side runs on over batches while the other restarts, so every batch after the first derives different pads", snd.scope, rcv.scope), nil)
		case !snd.ok || !rcv.ok:
			run.Undecided("mitccrh-schedule", key, "", "sender: "+snd.why+"; receiver: "+rcv.why)
		case snd.batch != rcv.batch:
			run.Violate("mitccrh-schedule", key, "", fmt.Sprintf("batch sizes %d and %d", snd.batch, rcv.batch), nil)
		case snd.k != rcv.k:
			run.Violate("mitccrh-schedule", key, "", fmt.Sprintf("the sender consumes %d keys per call, the receiver %d: their keys drift apart", snd.k, rcv.k), nil)
		case snd.h != 2 || rcv.h != 1:
			run.Violate("mitccrh-schedule", key, "", fmt.Sprintf("blocks per key: sender %d (two pads per transfer), receiver %d (one)", snd.h, rcv.h), nil)
		case snd.pad != snd.k*snd.h || rcv.pad != rcv.k*rcv.h:
			run.Violate("mitccrh-schedule", key, "", fmt.Sprintf("pad sizes %d and %d are not k*h", snd.pad, rcv.pad), nil)
		case snd.stride != snd.k || rcv.stride != rcv.k:
			run.Violate("mitccrh-schedule", key, "", fmt.Sprintf("index strides %d and %d differ from the keys consumed per call (%d)", snd.stride, rcv.stride, snd.k), nil)
		default:
			run.OK("mitccrh-schedule", key, "", fmt.Sprintf("batch %d, k=%d, h=2/1", snd.batch, snd.k))
		}
	}
	run.Floor("mitccrh-pairs", 2)
}
