package props

import (
	"fmt"
	"go/ast"
	"go/token"
	"go/types"

	"golang.org/x/tools/go/packages"

	"mpcverif/internal/dispatch"
	"mpcverif/internal/load"
	"mpcverif/internal/report"
)

// C06prg: lock step of the per-column key streams of the IKNP extension.
//
// Sender and receiver each hold, per column i < K, stream ciphers seeded by the
// base OT (the sender one per column, the receiver two).  Every extension
// chunk consumes byteRows bytes of every stream on both sides; the label form
// and the packed-bit form share the streams.  If one role function skips a
// column, draws conditionally, or draws another width, the streams of the two
// parties drift apart and every later batch on the same instance is garbage.
func C06prg(p *load.Program, run *report.Run) {
	run.Rule("prg-lockstep", "in each of the four IKNP role loops every stream-array field of the role's struct is advanced, unconditionally and for every column i in [0,K), by exactly the chunk's byteRows bytes in every chunk iteration — or once per batch, after the chunk loop, by the sum of the chunks' byteRows that the loop accumulates")
	pkg := p.ByPath[load.Module+"/ot"]
	if pkg == nil {
		run.Undecided("anchor", "ot", "", "package not loaded")
		return
	}
	info := pkg.TypesInfo
	K, ok := pkgConst(pkg, "K")
	prgObj := pkg.Types.Scope().Lookup("prg")
	if !ok || prgObj == nil {
		run.Undecided("prg-lockstep", "ot.prg/ot.K", "", "prg or K not found")
		return
	}
	for _, role := range [][2]string{{"IKNPSender", "send"}, {"IKNPSender", "SendBits"}, {"IKNPReceiver", "receive"}, {"IKNPReceiver", "ReceiveBits"}} {
		key := "ot." + role[0] + "." + role[1]
		_, fd := dispatch.FindFunc(p, "ot", role[0], role[1])
		tn, _ := pkg.Types.Scope().Lookup(role[0]).(*types.TypeName)
		if fd == nil || tn == nil {
			run.Undecided("prg-lockstep", key, "", "role function or type not found")
			continue
		}
		// the stream-array fields of the role struct
		var streams []*types.Var
		if st, ok := tn.Type().Underlying().(*types.Struct); ok {
			for i := 0; i < st.NumFields(); i++ {
				f := st.Field(i)
				if arr, ok := f.Type().Underlying().(*types.Array); ok && arr.Len() == K {
					if named, ok := arr.Elem().(*types.Named); ok && named.Obj().Name() == "Stream" && named.Obj().Pkg() != nil && named.Obj().Pkg().Path() == "crypto/cipher" {
						streams = append(streams, f)
					}
				}
			}
		}
		if len(streams) == 0 {
			run.Undecided("prg-lockstep", key, "", "no [K]cipher.Stream field in "+role[0])
			continue
		}
		// the chunk loop
		var chunkLoop *ast.ForStmt
		ast.Inspect(fd.Body, func(n ast.Node) bool {
			if f, ok := n.(*ast.ForStmt); ok && chunkLoop == nil && (containsCall(f.Body, "ReceiveData") || containsCall(f.Body, "SendData")) {
				chunkLoop = f
			}
			return true
		})
		if chunkLoop == nil {
			run.Undecided("prg-lockstep", key, p.Rel(fd.Pos()), "no chunk loop (a for statement around SendData/ReceiveData)")
			continue
		}
		// collect, then process: the receiving loop appends every chunk to a list (one append per iteration, at
		// the top level of its body) and a later `for _, c := range list` does the work — that loop sees
		// exactly the chunks of the batch and is the chunk loop for what follows
		if !containsCall(chunkLoop.Body, "prg") {
			lists := map[string]bool{}
			for _, st := range effectiveQ(info, chunkLoop.Body.List) {
				if as, ok := st.(*ast.AssignStmt); ok && len(as.Lhs) == 1 && len(as.Rhs) == 1 {
					if c, ok := as.Rhs[0].(*ast.CallExpr); ok && types.ExprString(c.Fun) == "append" && len(c.Args) == 2 && types.ExprString(c.Args[0]) == types.ExprString(as.Lhs[0]) {
						lists[types.ExprString(as.Lhs[0])] = true
					}
				}
			}
			for _, st := range fd.Body.List {
				if rs, ok := st.(*ast.RangeStmt); ok && rs.Pos() > chunkLoop.End() && lists[types.ExprString(rs.X)] && containsCall(rs.Body, "prg") {
					chunkLoop = &ast.ForStmt{For: rs.For, Body: rs.Body}
					break
				}
			}
		}
		// the width variable of the chunk: the third argument of createLabels, else the variable defined from len(chunk)/K or (rows+7)/8
		width := ""
		ast.Inspect(chunkLoop.Body, func(n ast.Node) bool {
			if call, ok := n.(*ast.CallExpr); ok {
				if id, ok := call.Fun.(*ast.Ident); ok && id.Name == "createLabels" && len(call.Args) == 3 {
					width = types.ExprString(call.Args[2])
				}
			}
			return true
		})
		if width == "" {
			ast.Inspect(chunkLoop.Body, func(n ast.Node) bool {
				if as, ok := n.(*ast.AssignStmt); ok && as.Tok == token.DEFINE && len(as.Rhs) == 1 && width == "" {
					if be, ok := as.Rhs[0].(*ast.BinaryExpr); ok && be.Op == token.QUO {
						if k, ok := constOf(pkg, be.Y); ok && (k == K || k == 8) {
							width = types.ExprString(as.Lhs[0])
						}
					}
				}
				return true
			})
		}
		// draws: prg(<recv>.<field>[i], dst) directly in the body of `for i := 0; i < K; i++` directly in the chunk loop body
		drawn := map[*types.Var]string{}
		drawsIn := func(list []ast.Stmt, into map[*types.Var]string) {
			for _, st := range effectiveQ(info, list) {
				col, ok := st.(*ast.ForStmt)
				if !ok {
					continue
				}
				iv := columnLoopVar(pkg, col, K)
				if iv == nil {
					continue
				}
				for _, cs := range effectiveQ(info, col.Body.List) {
					es, ok := cs.(*ast.ExprStmt)
					if !ok {
						continue
					}
					call, ok := es.X.(*ast.CallExpr)
					if !ok || len(call.Args) != 2 {
						continue
					}
					id, ok := call.Fun.(*ast.Ident)
					if !ok || info.ObjectOf(id) != prgObj {
						continue
					}
					ix, ok := call.Args[0].(*ast.IndexExpr)
					if !ok {
						continue
					}
					sel, ok := ix.X.(*ast.SelectorExpr)
					if !ok {
						continue
					}
					fld, _ := info.ObjectOf(sel.Sel).(*types.Var)
					ii, ok := ix.Index.(*ast.Ident)
					if fld == nil || !ok || info.ObjectOf(ii) != iv {
						continue
					}
					into[fld] = sliceWidth(call.Args[1], ii.Name)
				}
			}
		}
		drawsIn(chunkLoop.Body.List, drawn)
		// one draw per batch: the chunk loop sums the chunk widths (`total += byteRows`, unconditionally, from
		// a zero-valued declaration) and the column loop after it advances every stream by that sum — the
		// key stream is sequential, so the bytes are the ones the per-chunk draws of the peer produce
		if len(drawn) == 0 && width == "" {
			ast.Inspect(chunkLoop.Body, func(n ast.Node) bool {
				if as, ok := n.(*ast.AssignStmt); ok && as.Tok == token.DEFINE && len(as.Rhs) == 1 && width == "" {
					if be, ok := as.Rhs[0].(*ast.BinaryExpr); ok && be.Op == token.QUO {
						if k, ok := constOf(pkg, be.Y); ok && (k == K || k == 8) {
							width = types.ExprString(as.Lhs[0])
						}
					}
				}
				return true
			})
		}
		if len(drawn) == 0 {
			batch := map[*types.Var]string{}
			drawsIn(fd.Body.List, batch)
			for f, w := range batch {
				// w is a variable the chunk loop accumulates the chunk width into
				summed := false
				for _, st := range effectiveQ(info, chunkLoop.Body.List) {
					if as, ok := st.(*ast.AssignStmt); ok && as.Tok == token.ADD_ASSIGN && len(as.Lhs) == 1 && types.ExprString(as.Lhs[0]) == w && types.ExprString(as.Rhs[0]) == width && width != "" {
						summed = true
					}
				}
				zeroDecl := false
				ast.Inspect(fd.Body, func(n ast.Node) bool {
					if vs, ok := n.(*ast.ValueSpec); ok && len(vs.Values) == 0 {
						for _, nm := range vs.Names {
							if nm.Name == w {
								zeroDecl = true
							}
						}
					}
					if as, ok := n.(*ast.AssignStmt); ok && as.Tok == token.DEFINE && len(as.Lhs) == 1 && len(as.Rhs) == 1 && types.ExprString(as.Lhs[0]) == w {
						if z, ok := constOf(pkg, as.Rhs[0]); ok && z == 0 {
							zeroDecl = true
						}
					}
					return true
				})
				if summed && zeroDecl {
					drawn[f] = width
				} else {
					drawn[f] = w
				}
			}
		}
		run.Count("prg-role-loops", 1)
		bad := ""
		for _, f := range streams {
			w, ok := drawn[f]
			switch {
			case !ok:
				bad += fmt.Sprintf("stream field %s is not advanced for every column in every chunk; ", f.Name())
			case w != width || width == "":
				bad += fmt.Sprintf("stream field %s is advanced by %q bytes, the chunk is %q bytes per column; ", f.Name(), w, width)
			}
		}
		if bad == "" {
			names := ""
			for _, f := range streams {
				names += f.Name() + " "
			}
			run.OK("prg-lockstep", key, p.Rel(chunkLoop.Pos()), fmt.Sprintf("streams %sadvanced by %s bytes for all %d columns per chunk", names, width, K))
		} else {
			run.Violate("prg-lockstep", key, p.Rel(chunkLoop.Pos()), bad+"the two parties' key streams lose lock step and later batches on the instance are wrong", nil)
		}
	}
	run.Floor("prg-role-loops", 4)
}

// columnLoopVar: `for i := 0; i < K; i++` → the object of i.
func columnLoopVar(pkg *packages.Package, f *ast.ForStmt, K int64) types.Object {
	init, ok := f.Init.(*ast.AssignStmt)
	if !ok || init.Tok != token.DEFINE || len(init.Lhs) != 1 || len(init.Rhs) != 1 {
		return nil
	}
	if z, ok := constOf(pkg, init.Rhs[0]); !ok || z != 0 {
		return nil
	}
	id, ok := init.Lhs[0].(*ast.Ident)
	if !ok {
		return nil
	}
	obj := pkg.TypesInfo.ObjectOf(id)
	cond, ok := f.Cond.(*ast.BinaryExpr)
	if !ok || cond.Op != token.LSS {
		return nil
	}
	if ci, ok := cond.X.(*ast.Ident); !ok || pkg.TypesInfo.ObjectOf(ci) != obj {
		return nil
	}
	if k, ok := constOf(pkg, cond.Y); !ok || k != K {
		return nil
	}
	post, ok := f.Post.(*ast.IncDecStmt)
	if !ok || post.Tok != token.INC {
		return nil
	}
	if pi, ok := post.X.(*ast.Ident); !ok || pkg.TypesInfo.ObjectOf(pi) != obj {
		return nil
	}
	return obj
}

// sliceWidth: the length of a destination slice written as X[i*w:(i+1)*w],
// X[:w] or X[lo:lo+w], rendered as the text of w ("" if not of that shape).
func sliceWidth(e ast.Expr, iv string) string {
	sl, ok := ast.Unparen(e).(*ast.SliceExpr)
	if !ok || sl.High == nil {
		return ""
	}
	if sl.Low == nil {
		return types.ExprString(sl.High)
	}
	lo, ok1 := ast.Unparen(sl.Low).(*ast.BinaryExpr)
	hi, ok2 := ast.Unparen(sl.High).(*ast.BinaryExpr)
	if ok1 && ok2 && lo.Op == token.MUL && hi.Op == token.MUL && types.ExprString(lo.X) == iv {
		if pe, ok := ast.Unparen(hi.X).(*ast.BinaryExpr); ok && pe.Op == token.ADD && types.ExprString(pe.X) == iv && types.ExprString(pe.Y) == "1" && types.ExprString(hi.Y) == types.ExprString(lo.Y) {
			return types.ExprString(lo.Y)
		}
	}
	if ok2 && hi.Op == token.ADD && types.ExprString(hi.X) == types.ExprString(sl.Low) {
		return types.ExprString(hi.Y)
	}
	return ""
}
