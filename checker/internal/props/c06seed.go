package props

import (
	"go/token"
	"strings"

	"golang.org/x/tools/go/ssa"

	"mpcverif/internal/load"
	"mpcverif/internal/report"
)

// C06seed: the column streams of the IKNP receiver are keyed from the wires as
// the base OT leaves them.
//
// NewIKNPReceiver offers K label pairs through base.Send and keys its 2K
// streams from them; the sender keys its K streams from what base.Receive
// delivered.  OT.Send is an interface call that may replace the caller's wires
// (the random OT writes its pads into them), so the receiver must read the
// pairs back from the array it passed, after the call.  Keying from the values
// drawn before the call agrees with the sender only for base OTs that leave the
// wires alone.
func C06seed(p *load.Program, run *report.Run) {
	run.Rule("seeds-read-after-base-ot", "in NewIKNPReceiver every newPrg key is loaded from the wire array passed to base.Send, in code dominated by that call")
	fn, err := p.Func("ot", "NewIKNPReceiver")
	newPrg, err2 := p.Func("ot", "newPrg")
	if err != nil || err2 != nil {
		run.Undecided("seeds-read-after-base-ot", "ot.NewIKNPReceiver", "", "function not found")
		return
	}
	// the base OT call: an invoke of Send on an ot.OT value with a slice of a local array
	var send *ssa.Call
	var arr ssa.Value
	for _, b := range fn.Blocks {
		for _, ins := range b.Instrs {
			c, ok := ins.(*ssa.Call)
			if !ok || !c.Call.IsInvoke() || c.Call.Method.Name() != "Send" || !strings.HasSuffix(c.Call.Value.Type().String(), "/ot.OT") {
				continue
			}
			if sl, ok := c.Call.Args[0].(*ssa.Slice); ok {
				send, arr = c, sl.X
			}
		}
	}
	key := "ot.NewIKNPReceiver"
	if send == nil {
		run.Undecided("seeds-read-after-base-ot", key, p.Rel(fn.Pos()), "no base.Send(<array>[:]) call found")
		return
	}
	n, bad := 0, ""
	for _, b := range fn.Blocks {
		for i, ins := range b.Instrs {
			c, ok := ins.(*ssa.Call)
			if !ok || c.Call.StaticCallee() != newPrg {
				continue
			}
			n++
			// the key: *(&(&arr[i]).Lx)
			okLoad := false
			if ld, ok := c.Call.Args[0].(*ssa.UnOp); ok && ld.Op == token.MUL {
				addr := ld.X
				if fa, ok := addr.(*ssa.FieldAddr); ok {
					addr = fa.X
				}
				if ia, ok := addr.(*ssa.IndexAddr); ok && ia.X == arr {
					after := send.Block().Dominates(ld.Block()) && (send.Block() != ld.Block() || instrIndex(send) < instrIndexOf(ld))
					okLoad = after
				}
			}
			_ = i
			if !okLoad {
				bad = p.Rel(c.Pos())
			}
		}
	}
	run.Count("prg-key-sites", n)
	if bad != "" {
		run.Violate("seeds-read-after-base-ot", key, bad, "a column stream is keyed from a value that is not read back from the offered wires after base.Send: a base OT that rewrites the wires (the random OT) leaves sender and receiver with different streams", nil)
	} else {
		run.OK("seeds-read-after-base-ot", key, p.Rel(send.Pos()), "2K keys loaded from the wires after the base OT")
	}
	run.Floor("prg-key-sites", 2)
}

func instrIndexOf(v ssa.Instruction) int {
	for i, ins := range v.Block().Instrs {
		if ins == v {
			return i
		}
	}
	return -1
}
