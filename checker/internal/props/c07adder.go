package props

import (
	"fmt"
	"go/ast"
	"go/types"
	"math/big"
	"os"
	"sort"
	"strings"

	"golang.org/x/tools/go/packages"

	"mpcverif/internal/dispatch"
	"mpcverif/internal/load"
	"mpcverif/internal/report"
)

// C07adder (builder-words): the arithmetic and comparison builders drive every result bit with the right function.
//
// Each builder is interpreted from its source, gate by gate, for every small shape and for both targets
// (the GMW target selects the Kogge-Stone forms): wires are atoms, a gate drives its output wire with the
// truth table of its operation over the operand bits, helper builders of the package are interpreted by
// their own bodies, the compiler's constant wires are the constants.  Every result wire is then read as
// a truth table and compared with the word-level meaning: bit i of x+y, of x-y (with the borrow above),
// x<y and its siblings for unsigned operands and for two's-complement operands of one width, x==y.  A
// result bit that nothing drives (the carry of a 1-bit addition left on a scratch wire), a comparison
// taken from the sign of an n-bit difference (wrong when the subtraction overflows), or a column dropped
// from a multiplier shows up as a shape and a bit.
func C07adder(p *load.Program, run *report.Run) {
	const rule = "builder-words"
	run.Rule(rule, "NewAdder, NewSubtractor, the eight ordered comparators, NewEqComparator, NewNeqComparator (operand widths 1..3 for the adder and subtractor with result widths up to max+2; 1..6, thorough 1..7, for the comparisons with one result bit; both targets) and the multipliers NewArrayMultiplier, NewWallaceMultiplier, NewKaratsubaMultiplier with threshold 3, NewMultiplier (operand widths 1..4, 1..5 for Karatsuba, result widths up to nx+ny), and the unsigned dividers NewUDividerLong/Restoring/Array/NewUDivider on the Yao target (operands of 1..4 bits, every non-zero divisor), NewUDivider on the GMW target (the Goldschmidt divider with its reciprocal ROM, logarithmic shifters, Kogge-Stone adders and correction step; operands of 1..8 bits, thorough 1..10, every non-zero divisor), interpreted gate by gate from source: each result wire is driven exactly once, no gate reads a result wire (Wire.Assign does not schedule the consumers of a wire flagged as output, which result wires are in streaming mode), and its truth table over the operand bits is that of the word-level operation (signed comparisons on operands of one width)")
	pkg := p.ByPath[load.Module+"/compiler/circuits"]
	if pkg == nil {
		run.Undecided(rule, "compiler/circuits", "", "package not loaded")
		return
	}
	decls := map[string]*ast.FuncDecl{}
	for _, f := range pkg.Syntax {
		for _, d := range f.Decls {
			if fd, ok := d.(*ast.FuncDecl); ok && fd.Recv == nil && fd.Body != nil {
				decls[fd.Name.Name] = fd
			}
		}
	}
	gmw, okT := pkgConstIn(p, "compiler/utils", "TargetGMW")
	if !okT {
		run.Undecided(rule, "compiler/utils.TargetGMW", "", "constant not found")
		return
	}
	gateOps = map[int64]string{}
	for _, n := range []string{"XOR", "XNOR", "AND", "OR", "INV"} {
		k, ok := pkgConstIn(p, "circuit", n)
		if !ok {
			run.Undecided(rule, "circuit."+n, "", "gate operation constant not found")
			return
		}
		gateOps[k] = n
	}
	gateConsts = map[string]int64{}
	for _, n := range []string{"Unknown", "Zero", "One"} {
		k, ok := pkgConstIn(p, "compiler/circuits", n)
		if !ok {
			run.Undecided(rule, "compiler/circuits."+n, "", "wire value constant not found")
			return
		}
		gateConsts[n] = k
	}
	signed := func(v, n int) int {
		if v>>(uint(n)-1)&1 == 1 {
			return v - 1<<uint(n)
		}
		return v
	}
	b2i := func(b bool) int {
		if b {
			return 1
		}
		return 0
	}
	type spec struct {
		name   string
		cmp    bool // one result bit
		signed bool // operands of one width only
		want   func(x, y, nx, ny, nz int) int
		maxW   int  // largest operand width (0: 3)
		wide   bool // result widths up to nx+ny+1 instead of max+2
		gmwToo bool
		capped bool // result widths up to the wider operand only (the builder leaves higher result bits alone)
	}
	specs := []spec{
		{name: "NewBinaryAND", want: func(x, y, nx, ny, nz int) int { return x & y }, gmwToo: true, capped: true},
		{name: "NewBinaryClear", want: func(x, y, nx, ny, nz int) int { return x &^ y }, gmwToo: true, capped: true},
		{name: "NewBinaryOR", want: func(x, y, nx, ny, nz int) int { return x | y }, gmwToo: true, capped: true},
		{name: "NewBinaryXOR", want: func(x, y, nx, ny, nz int) int { return x ^ y }, gmwToo: true, capped: true},
		{"NewAdder", false, false, func(x, y, nx, ny, nz int) int { return x + y }, 0, false, true, false},
		{"NewSubtractor", false, false, func(x, y, nx, ny, nz int) int { return (x - y) & (1<<uint(nz) - 1) }, 0, false, true, false},
		{"NewUintGtComparator", true, false, func(x, y, nx, ny, nz int) int { return b2i(x > y) }, 0, false, true, false},
		{"NewUintGeComparator", true, false, func(x, y, nx, ny, nz int) int { return b2i(x >= y) }, 0, false, true, false},
		{"NewUintLtComparator", true, false, func(x, y, nx, ny, nz int) int { return b2i(x < y) }, 0, false, true, false},
		{"NewUintLeComparator", true, false, func(x, y, nx, ny, nz int) int { return b2i(x <= y) }, 0, false, true, false},
		{"NewIntGtComparator", true, true, func(x, y, nx, ny, nz int) int { return b2i(signed(x, nx) > signed(y, ny)) }, 0, false, true, false},
		{"NewIntGeComparator", true, true, func(x, y, nx, ny, nz int) int { return b2i(signed(x, nx) >= signed(y, ny)) }, 0, false, true, false},
		{"NewIntLtComparator", true, true, func(x, y, nx, ny, nz int) int { return b2i(signed(x, nx) < signed(y, ny)) }, 0, false, true, false},
		{"NewIntLeComparator", true, true, func(x, y, nx, ny, nz int) int { return b2i(signed(x, nx) <= signed(y, ny)) }, 0, false, true, false},
		{"NewEqComparator", true, false, func(x, y, nx, ny, nz int) int { return b2i(x == y) }, 0, false, true, false},
		{"NewNeqComparator", true, false, func(x, y, nx, ny, nz int) int { return b2i(x != y) }, 0, false, true, false},
		{"NewArrayMultiplier", false, false, func(x, y, nx, ny, nz int) int { return x * y }, 4, true, false, false},
		{"NewWallaceMultiplier", false, false, func(x, y, nx, ny, nz int) int { return x * y }, 4, true, false, false},
		{"NewKaratsubaMultiplier", false, false, func(x, y, nx, ny, nz int) int { return x * y }, 5, true, false, false},
		{"NewMultiplier", false, false, func(x, y, nx, ny, nz int) int { return x * y }, 4, true, true, false},
	}
	// result wires are sinks when Wire.Assign stops at wires flagged as outputs
	resultWiresAreSinks = false
	if _, fd := dispatch.FindFunc(p, "compiler/circuits", "Wire", "Assign"); fd != nil && fd.Body != nil {
		for _, st := range fd.Body.List {
			ifs, ok := st.(*ast.IfStmt)
			if !ok || ifs.Else != nil || len(ifs.Body.List) != 1 {
				continue
			}
			if _, isRet := ifs.Body.List[0].(*ast.ReturnStmt); !isRet {
				continue
			}
			if c, ok := ifs.Cond.(*ast.CallExpr); ok {
				if sel, ok := c.Fun.(*ast.SelectorExpr); ok && sel.Sel.Name == "Output" {
					resultWiresAreSinks = true
				}
			}
			break
		}
	}
	run.Count("result-wires-are-sinks", map[bool]int{false: 0, true: 1}[resultWiresAreSinks])
	total := 0
	for _, sp := range specs {
		top := decls[sp.name]
		key := "compiler/circuits." + sp.name
		if top == nil {
			run.Undecided(rule, key, "", "function not found")
			continue
		}
		shapes := 0
		bad := ""
		maxW := sp.maxW
		if maxW == 0 {
			maxW = 3
		}
		if sp.cmp {
			// one result bit: operands of up to 6 (thorough: 7) bits are cheap, and widths that are neither
			// 2^k nor 3*2^k exercise the odd levels of a reduction tree
			maxW = bound(6, 7)
		}
		for _, target := range []int64{-1, gmw} {
			tname := "yao"
			if target == gmw {
				tname = "gmw"
				if !sp.gmwToo {
					continue
				}
			}
			for nx := 1; nx <= maxW && bad == ""; nx++ {
				for ny := 1; ny <= maxW && bad == ""; ny++ {
					if sp.signed && nx != ny {
						continue
					}
					mx := nx
					if ny > mx {
						mx = ny
					}
					lo, hi := 1, mx+2
					if sp.wide {
						hi = nx + ny
					}
					if sp.cmp {
						lo, hi = 1, 1
					}
					if sp.capped {
						hi = mx
					}
					for nz := lo; nz <= hi && bad == ""; nz++ {
						shapes++
						if why := builderShape(pkg, decls, top, target, nx, ny, nz, sp.want); why != "" {
							bad = fmt.Sprintf("%s target, %d-bit and %d-bit operands, %d result bit(s): %s", tname, nx, ny, nz, why)
						}
					}
				}
			}
		}
		total += shapes
		if bad != "" {
			run.Violate(rule, key, p.Rel(top.Pos()), bad, nil)
		} else {
			run.OK(rule, key, p.Rel(top.Pos()), fmt.Sprintf("%d shapes", shapes))
		}
	}
	// dividers: quotient and remainder, operands of one width, divisor not zero
	for _, name := range []string{"NewUDividerLong", "NewUDividerRestoring", "NewUDividerArray", "NewUDivider"} {
		top := decls[name]
		key := "compiler/circuits." + name
		if top == nil {
			continue // a divider variant may be removed; the dispatcher NewUDivider is checked below
		}
		shapes := 0
		bad := ""
		for n := 1; n <= 4 && bad == ""; n++ {
			shapes++
			q := func(x, y, nx, ny, nz int) int {
				if y == 0 {
					return -1
				}
				return x / y
			}
			r := func(x, y, nx, ny, nz int) int {
				if y == 0 {
					return -1
				}
				return x % y
			}
			if why := builderShape2(pkg, decls, top, -1, n, n, n, q, r); why != "" {
				bad = fmt.Sprintf("yao target, %d-bit operands: %s", n, why)
			}
		}
		total += shapes
		if bad != "" {
			run.Violate(rule, key, p.Rel(top.Pos()), bad, nil)
		} else {
			run.OK(rule, key, p.Rel(top.Pos()), fmt.Sprintf("%d shapes, quotient and remainder for every non-zero divisor", shapes))
		}
	}
	// the signed divider on both targets: quotient truncated towards zero with the sign of a*b, remainder
	// |a| mod |b| (the behaviour the repository's annotated programs divi.mpcl and modi.mpcl fix), and the
	// modulo-only form (no quotient vector)
	if top := decls["NewIDivider"]; top != nil {
		key := "compiler/circuits.NewIDivider"
		shapes := 0
		bad := ""
		abs := func(v, n int) int {
			if v>>(uint(n)-1)&1 == 1 {
				return 1<<uint(n) - v
			}
			return v
		}
		q := func(x, y, nx, ny, nz int) int {
			if y == 0 {
				return -1
			}
			v := abs(x, nx) / abs(y, ny)
			if (x>>(uint(nx)-1))&1 != (y>>(uint(ny)-1))&1 {
				v = -v
			}
			return v & (1<<uint(nz) - 1)
		}
		r := func(x, y, nx, ny, nz int) int {
			if y == 0 {
				return -1
			}
			return abs(x, nx) % abs(y, ny)
		}
		for _, target := range []int64{-1, gmw} {
			tname := "yao"
			hi := 4
			if target == gmw {
				tname, hi = "gmw", bound(6, 8)
			}
			for n := 1; n <= hi; n++ {
				shapes += 2
				if why := builderShape2(pkg, decls, top, target, n, n, n, q, r); why != "" {
					bad += fmt.Sprintf("%s target, %d-bit operands: %s; ", tname, n, why)
				}
				if why := builderShape3(pkg, decls, top, target, n, n, n, 0, q, r); why != "" {
					bad += fmt.Sprintf("%s target, %d-bit operands, remainder only: %s; ", tname, n, why)
				}
			}
		}
		total += shapes
		if bad != "" {
			run.Violate(rule, key, p.Rel(top.Pos()), bad, nil)
		} else {
			run.OK(rule, key, p.Rel(top.Pos()), fmt.Sprintf("%d shapes, quotient and remainder for every non-zero divisor, both targets", shapes))
		}
	}
	// the GMW target's divider: the Goldschmidt divider with its ROM seed, shifters and correction step
	if top := decls["NewUDivider"]; top != nil {
		key := "compiler/circuits.NewUDivider/gmw"
		shapes := 0
		bad := ""
		for n := 1; n <= bound(8, 10); n++ {
			shapes++
			q := func(x, y, nx, ny, nz int) int {
				if y == 0 {
					return -1
				}
				return x / y
			}
			r := func(x, y, nx, ny, nz int) int {
				if y == 0 {
					return -1
				}
				return x % y
			}
			if why := builderShape2(pkg, decls, top, gmw, n, n, n, q, r); why != "" {
				bad += fmt.Sprintf("gmw target, %d-bit operands: %s; ", n, why)
			}
		}
		total += shapes
		if bad != "" {
			run.Violate(rule, key, p.Rel(top.Pos()), bad, nil)
		} else {
			run.OK(rule, key, p.Rel(top.Pos()), fmt.Sprintf("%d shapes, quotient and remainder for every non-zero divisor", shapes))
		}
	}
	run.Count("builder-shapes", total)
	run.Floor("builder-shapes", 150)
	var src, mdl []string
	for n := range methodsFromSource {
		if _, also := methodsFromModel[n]; !also {
			src = append(src, n)
		}
	}
	for n, why := range methodsFromModel {
		mdl = append(mdl, n+" ("+why+")")
	}
	sort.Strings(src)
	sort.Strings(mdl)
	if os.Getenv("MPCVERIF_DEBUG") != "" {
		fmt.Fprintln(os.Stderr, "methods", src, mdl)
	}
	run.Count("compiler-methods-from-source", len(src))
	run.OK(rule, "compiler/circuits.Compiler methods", "", fmt.Sprintf("interpreted from their source: %v; through the model because the interpreter cannot follow the source: %v", src, mdl))
}

func pkgConstIn(p *load.Program, rel, name string) (int64, bool) {
	pk := p.ByPath[load.Module+"/"+rel]
	if pk == nil {
		return 0, false
	}
	return pkgConst(pk, name)
}

type gateWorld struct {
	pkg    *packages.Package
	decls  map[string]*ast.FuncDecl
	table  map[string]*big.Int
	full   *big.Int
	fresh  int
	depth  int
	target int64
	ops    map[int64]string
	consts map[string]int64
	// results: the wires of the top-level result vectors; readsResult: the first of them a gate reads
	results     map[string]bool
	readsResult string
	// modelOnly: methods whose source the interpreter could not follow (their model in the hook is used)
	modelOnly map[string]bool
}

func (g *gateWorld) read(v wv) (*big.Int, bool) {
	s, ok := v.(string)
	if !ok {
		return nil, false
	}
	if g.results[s] && g.readsResult == "" {
		g.readsResult = s
	}
	t, ok := g.table[s]
	return t, ok
}

func (g *gateWorld) drive(v wv, t *big.Int) string {
	s, ok := v.(string)
	if !ok || s == "ZERO" || s == "ONE" || s == "UNSET" {
		return fmt.Sprintf("a gate drives %v, which is not a wire of its own", v)
	}
	if _, twice := g.table[s]; twice {
		return fmt.Sprintf("wire %s is driven twice", s)
	}
	g.table[s] = new(big.Int).And(t, g.full)
	return ""
}

func (g *gateWorld) hook(w *wInterp) func(name string, c *ast.CallExpr) (wv, bool) {
	return func(name string, c *ast.CallExpr) (wv, bool) {
		_, isMethod := c.Fun.(*ast.SelectorExpr)
		if isMethod && sourceFirst[name] && !g.modelOnly[name] {
			if fd := g.compilerMethod(c); fd != nil {
				// the method's own source decides what it does; the model below stands in only where the
				// interpreter cannot follow the source
				saved := make(map[string]*big.Int, len(g.table))
				for k, v := range g.table {
					saved[k] = v
				}
				fresh := g.fresh
				v, failed := g.fromSource(w, fd, c)
				if !failed {
					methodsFromSource[name] = true
					return v, true
				}
				g.table, g.fresh = saved, fresh
				if g.modelOnly == nil {
					g.modelOnly = map[string]bool{}
				}
				g.modelOnly[name] = true
				methodsFromModel[name] = fmt.Sprint(v)
			}
		}
		switch name {
		case "Wire":
			if len(c.Args) == 0 {
				g.fresh++
				return fmt.Sprintf("w%d", g.fresh), true
			}
		case "ZeroWire":
			if len(c.Args) == 0 {
				return "ZERO", true
			}
		case "OneWire":
			if len(c.Args) == 0 {
				return "ONE", true
			}
		case "Wires":
			if isMethod && len(c.Args) == 1 {
				n, ok := w.expr(c.Args[0]).(int64)
				if !ok || n < 0 || n > 64 {
					return w.bad("Wires with a size that is not decided"), true
				}
				out := make([]wv, n)
				for i := range out {
					g.fresh++
					out[i] = fmt.Sprintf("w%d", g.fresh)
				}
				return out, true
			}
		case "Value":
			// constness of a wire: the compiler's constant wires are the only ones with a known value here
			if isMethod && len(c.Args) == 0 {
				v := w.expr(c.Fun.(*ast.SelectorExpr).X)
				switch v {
				case wv("ZERO"):
					return g.consts["Zero"], true
				case wv("ONE"):
					return g.consts["One"], true
				}
				return g.consts["Unknown"], true
			}
		case "BinaryGate":
			if len(c.Args) == 4 {
				return []wv{"GATE", w.expr(c.Args[0]), w.expr(c.Args[1]), w.expr(c.Args[2]), w.expr(c.Args[3])}, true
			}
		case "INVGate":
			if len(c.Args) == 2 {
				return []wv{"GATE", "INV", w.expr(c.Args[0]), nil, w.expr(c.Args[1])}, true
			}
		case "AddGate":
			if len(c.Args) == 1 {
				gt, ok := w.expr(c.Args[0]).([]wv)
				if !ok || len(gt) != 5 || gt[0] != wv("GATE") {
					return w.bad("AddGate of something that is not a gate"), true
				}
				a, ok1 := g.read(gt[2])
				if !ok1 {
					return w.bad("a gate reads %v, which nothing drives", gt[2]), true
				}
				bt := new(big.Int)
				if k, isInt := gt[1].(int64); isInt {
					gt[1] = g.ops[k]
				}
				if gt[1] != wv("INV") {
					var ok2 bool
					bt, ok2 = g.read(gt[3])
					if !ok2 {
						return w.bad("a gate reads %v, which nothing drives", gt[3]), true
					}
				}
				out := new(big.Int)
				if k, isInt := gt[1].(int64); isInt {
					gt[1] = g.ops[k]
				}
				switch gt[1] {
				case wv("XOR"):
					out.Xor(a, bt)
				case wv("XNOR"):
					out.Xor(a, bt).Xor(out, g.full)
				case wv("AND"):
					out.And(a, bt)
				case wv("OR"):
					out.Or(a, bt)
				case wv("INV"):
					out.Xor(a, g.full)
				default:
					return w.bad("gate operation %v", gt[1]), true
				}
				if why := g.drive(gt[4], out); why != "" {
					return w.bad("%s", why), true
				}
				return nil, true
			}
		case "INV", "ID":
			if isMethod && len(c.Args) == 2 {
				a, ok := g.read(w.expr(c.Args[0]))
				if !ok {
					return w.bad("%s reads a wire nothing drives", name), true
				}
				if name == "INV" {
					a = new(big.Int).Xor(a, g.full)
				}
				if why := g.drive(w.expr(c.Args[1]), a); why != "" {
					return w.bad("%s", why), true
				}
				return nil, true
			}
		case "OR":
			if isMethod && len(c.Args) == 3 {
				a, ok1 := g.read(w.expr(c.Args[0]))
				b, ok2 := g.read(w.expr(c.Args[1]))
				if !ok1 || !ok2 {
					return w.bad("OR reads a wire nothing drives"), true
				}
				if why := g.drive(w.expr(c.Args[2]), new(big.Int).Or(a, b)); why != "" {
					return w.bad("%s", why), true
				}
				return nil, true
			}
		case "Pad":
			if isMethod && len(c.Args) == 2 {
				a, ok1 := w.expr(c.Args[0]).([]wv)
				n, ok2 := w.expr(c.Args[1]).(int64)
				if !ok1 || !ok2 {
					return w.bad("Pad of a non-vector"), true
				}
				if int64(len(a)) >= n {
					return a, true
				}
				out := append([]wv{}, a...)
				for int64(len(out)) < n {
					out = append(out, "ZERO")
				}
				return out, true
			}
		case "ShiftLeft":
			if isMethod && len(c.Args) == 3 {
				a, ok1 := w.expr(c.Args[0]).([]wv)
				size, ok2 := w.expr(c.Args[1]).(int64)
				count, ok3 := w.expr(c.Args[2]).(int64)
				if !ok1 || !ok2 || !ok3 || size < 0 || size > 64 || count < 0 {
					return w.bad("ShiftLeft with operands that are not decided"), true
				}
				out := make([]wv, size)
				for i := range out {
					out[i] = "ZERO"
					if j := int64(i) - count; j >= 0 && j < int64(len(a)) {
						out[i] = a[j]
					}
				}
				return out, true
			}
		case "ZeroPad":
			if isMethod && len(c.Args) == 2 {
				a, ok1 := w.expr(c.Args[0]).([]wv)
				b, ok2 := w.expr(c.Args[1]).([]wv)
				if !ok1 || !ok2 {
					return w.bad("ZeroPad of a non-vector"), true
				}
				if len(a) == len(b) {
					return wtuple{a, b}, true
				}
				a, b = append([]wv{}, a...), append([]wv{}, b...)
				for len(a) < len(b) {
					a = append(a, "ZERO")
				}
				for len(b) < len(a) {
					b = append(b, "ZERO")
				}
				return wtuple{a, b}, true
			}
		}
		fd := g.decls[name]
		if isMethod {
			fd = g.compilerMethod(c)
		}
		if id, isID := c.Fun.(*ast.Ident); isID && fd == nil {
			// a call through a parameter that holds a function literal (a per-bit operation handed to a shared loop)
			if v, ok := w.lookup(id.Name); ok {
				if fl, ok := v.(wfunc); ok {
					fd = &ast.FuncDecl{Name: ast.NewIdent(id.Name), Type: fl.lit.Type, Body: fl.lit.Body}
				}
			}
		}
		if fd == nil {
			return nil, false
		}
		v, failed := g.fromSource(w, fd, c)
		if failed {
			return w.bad("%s", v), true
		}
		return v, true
	}
}

var methodsFromSource = map[string]bool{}
var methodsFromModel = map[string]string{}

// sourceFirst: methods of Compiler that have a model in the hook and are interpreted from their source when
// the interpreter can follow it.
var sourceFirst = map[string]bool{"INV": true, "ID": true, "OR": true, "Pad": true, "ZeroPad": true, "ShiftLeft": true}

// compilerMethod: the declaration of the method of *Compiler the call names, nil for anything else.
func (g *gateWorld) compilerMethod(c *ast.CallExpr) *ast.FuncDecl {
	sel, ok := c.Fun.(*ast.SelectorExpr)
	if !ok {
		return nil
	}
	fn, ok := g.pkg.TypesInfo.Uses[sel.Sel].(*types.Func)
	if !ok || fn.Pkg() != g.pkg.Types {
		return nil
	}
	sig := fn.Type().(*types.Signature)
	if sig.Recv() == nil || !strings.HasSuffix(sig.Recv().Type().String(), "circuits.Compiler") {
		return nil
	}
	for _, f := range g.pkg.Syntax {
		for _, d := range f.Decls {
			if fd, ok := d.(*ast.FuncDecl); ok && fd.Recv != nil && fd.Body != nil && g.pkg.TypesInfo.Defs[fd.Name] == types.Object(fn) {
				return fd
			}
		}
	}
	return nil
}

// fromSource interprets the body of a builder or of a Compiler method on the call's arguments.  failed
// reports that the interpreter could not follow it; the value is then the reason.
func (g *gateWorld) fromSource(w *wInterp, fd *ast.FuncDecl, c *ast.CallExpr) (wv, bool) {
	name := fd.Name.Name
	g.depth++
	defer func() { g.depth-- }()
	if g.depth > 8 {
		return "builders nested deeper than 8", true
	}
	sub := &wInterp{pkg: g.pkg}
	sub.hook = g.hook(sub)
	sub.push()
	sub.set("cc.Params.Target", g.target, true)
	if fd.Recv != nil && len(fd.Recv.List) == 1 && len(fd.Recv.List[0].Names) == 1 {
		rn := fd.Recv.List[0].Names[0].Name
		sub.set(rn, "cc", true)
		sub.set(rn+".Params.Target", g.target, true)
	}
	i := 0
	for _, fl := range fd.Type.Params.List {
		for _, nm := range fl.Names {
			if i < len(c.Args) {
				if i == 0 && cx(fl.Type) == "*Compiler" {
					sub.set(nm.Name, "cc", true)
					sub.set(nm.Name+".Params.Target", g.target, true)
				} else {
					sub.set(nm.Name, w.expr(c.Args[i]), true)
				}
			}
			i++
		}
	}
	if w.fail != "" {
		return w.fail, true
	}
	o := sub.stmts(fd.Body.List)
	if sub.fail != "" {
		return fmt.Sprintf("%s: %s", name, sub.fail), true
	}
	if fd.Type.Results == nil {
		return nil, false
	}
	if o.kind != "return" {
		return fmt.Sprintf("%s does not return", name), true
	}
	res := fd.Type.Results.List
	if cx(res[len(res)-1].Type) != "error" {
		// a helper that computes a value (min, max, a padded vector)
		switch len(o.vals) {
		case 1:
			return o.vals[0], false
		default:
			return wtuple(o.vals), false
		}
	}
	if len(o.vals) > 1 {
		// (value, error)
		return wtuple(o.vals), false
	}
	if o.err {
		return "error", false
	}
	return nil, false
}

// resultWiresAreSinks: Wire.Assign returns at once for a wire flagged as output (decided from its source on every run).
var resultWiresAreSinks bool

var gateOps map[int64]string
var gateConsts map[string]int64

func builderShape(pkg *packages.Package, decls map[string]*ast.FuncDecl, top *ast.FuncDecl, target int64, nx, ny, nz int, want func(x, y, nx, ny, nz int) int) string {
	return builderShape2(pkg, decls, top, target, nx, ny, nz, want, nil)
}

// builderShape2 interprets one builder on one shape; want2, if given, is the meaning of a second result
// vector of the same width (quotient and remainder).  A wanted value of -1 marks an input that is not
// compared (division by zero).
func builderShape2(pkg *packages.Package, decls map[string]*ast.FuncDecl, top *ast.FuncDecl, target int64, nx, ny, nz int, want, want2 func(x, y, nx, ny, nz int) int) string {
	return builderShape3(pkg, decls, top, target, nx, ny, nz, nz, want, want2)
}

// builderShape3: nq is the width of the first result vector when there are two (0: the builder is asked for
// the second result only).
func builderShape3(pkg *packages.Package, decls map[string]*ast.FuncDecl, top *ast.FuncDecl, target int64, nx, ny, nz, nq int, want, want2 func(x, y, nx, ny, nz int) int) string {
	nin := nx + ny
	rows := uint(1) << uint(nin)
	full := new(big.Int).Sub(new(big.Int).Lsh(big.NewInt(1), rows), big.NewInt(1))
	g := &gateWorld{pkg: pkg, decls: decls, table: map[string]*big.Int{"ZERO": new(big.Int), "ONE": full}, full: full, target: target, ops: gateOps, consts: gateConsts}
	input := func(k int) *big.Int {
		t := new(big.Int)
		for r := uint(0); r < rows; r++ {
			if r>>uint(k)&1 == 1 {
				t.SetBit(t, int(r), 1)
			}
		}
		return t
	}
	x := make([]wv, nx)
	for i := range x {
		x[i] = fmt.Sprintf("x%d", i)
		g.table[fmt.Sprint(x[i])] = input(i)
	}
	y := make([]wv, ny)
	for i := range y {
		y[i] = fmt.Sprintf("y%d", i)
		g.table[fmt.Sprint(y[i])] = input(nx + i)
	}
	z := make([]wv, nz)
	for i := range z {
		z[i] = fmt.Sprintf("z%d", i)
	}
	g.results = map[string]bool{}
	for i := 0; i < nz; i++ {
		g.results[fmt.Sprintf("z%d", i)] = true
		g.results[fmt.Sprintf("r%d", i)] = true
	}
	w := &wInterp{pkg: pkg}
	w.hook = g.hook(w)
	w.push()
	w.set("cc.Params.Target", target, true)
	vals := []wv{"cc", x, y, z}
	var z2 []wv
	if want2 != nil {
		z2 = make([]wv, nz)
		for i := range z2 {
			z2[i] = fmt.Sprintf("r%d", i)
		}
		vals = []wv{"cc", x, y, z[:nq], z2}
	}
	var names []string
	for _, fl := range top.Type.Params.List {
		for _, nm := range fl.Names {
			names = append(names, nm.Name)
		}
	}
	if len(names) == 5 && want2 == nil {
		// a threshold below which the builder falls back to a simpler one: small, so that both are exercised
		limit := int64(3)
		if top.Name.Name == "NewMultiplier" {
			limit = 8 // a given threshold: the tuned table is for widths beyond this rule's shapes
		}
		vals = []wv{"cc", limit, x, y, z}
	}
	if len(names) != len(vals) {
		return fmt.Sprintf("%s has %d parameters, the model binds %d", top.Name.Name, len(names), len(vals))
	}
	for i, n := range names {
		w.set(n, vals[i], true)
	}
	w.set(names[0]+".Params.Target", target, true)
	o := w.stmts(top.Body.List)
	if w.fail != "" {
		return w.fail
	}
	if o.kind != "return" || o.err {
		return "the builder returns an error for a well-formed shape"
	}
	if g.readsResult != "" && resultWiresAreSinks {
		return fmt.Sprintf("a gate of the builder reads the result wire %s: when the result wires are flagged as circuit outputs before the builder runs (streaming mode, constant folding) Wire.Assign does not schedule the gates fed by an output wire, and everything computed from %s is dropped from the circuit", g.readsResult, g.readsResult)
	}
	outs := []struct {
		name string
		want func(x, y, nx, ny, nz int) int
	}{{names[len(names)-1], want}}
	if want2 != nil {
		outs[0].name = names[len(names)-2]
		outs = append(outs, struct {
			name string
			want func(x, y, nx, ny, nz int) int
		}{names[len(names)-1], want2})
	}
	for oi, ov := range outs {
		want := ov.want
		zv, _ := w.lookup(ov.name)
		zs, ok := zv.([]wv)
		nz := nz
		if want2 != nil && oi == 0 {
			nz = nq
		}
		if !ok || len(zs) != nz {
			return "the result vector was replaced"
		}
		for bit := 0; bit < nz; bit++ {
			got, driven := g.read(zs[bit])
			if !driven {
				return fmt.Sprintf("result bit %d (%v) is driven by nothing", bit, zs[bit])
			}
			wantT := new(big.Int)
			var firstBad []string
			for r := uint(0); r < rows; r++ {
				xv := int(r) & (1<<uint(nx) - 1)
				yv := int(r) >> uint(nx)
				wv := want(xv, yv, nx, ny, nz)
				if wv < 0 {
					// not compared: take what the circuit gives
					wantT.SetBit(wantT, int(r), got.Bit(int(r)))
					continue
				}
				if wv>>uint(bit)&1 == 1 {
					wantT.SetBit(wantT, int(r), 1)
				}
			}
			if got.Cmp(wantT) != 0 {
				diff := new(big.Int).Xor(got, wantT)
				for r := uint(0); r < rows && len(firstBad) < 3; r++ {
					if diff.Bit(int(r)) == 1 {
						firstBad = append(firstBad, fmt.Sprintf("x=%d,y=%d", int(r)&(1<<uint(nx)-1), int(r)>>uint(nx)))
					}
				}
				sort.Strings(firstBad)
				return fmt.Sprintf("result bit %d differs from the word-level operation, e.g. for %v", bit, firstBad)
			}
		}
	}
	return ""
}
