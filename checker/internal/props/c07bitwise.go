package props

import (
	"fmt"
	"go/ast"
	"go/types"
	"strings"

	"golang.org/x/tools/go/packages"

	"mpcverif/internal/dispatch"
	"mpcverif/internal/load"
	"mpcverif/internal/report"
)

// gateEval interprets gate-building statements over GF(2) polynomials; one bit position stands for all.
type gateEval struct {
	p    *load.Program
	pkg  *packages.Package
	env  map[string]gpoly
	fail string
	tmp  int
	// known: construction-time value of a wire name (0, 1); absent = not known
	known    map[string]int
	returned bool
	alias    map[string]string
}

// name resolves local aliases of wire names (a := lhs).
func (g *gateEval) name(e ast.Expr) string {
	k := baseName(e)
	for i := 0; i < 8; i++ {
		n, ok := g.alias[k]
		if !ok {
			break
		}
		k = n
	}
	return k
}

func (g *gateEval) bad(f string, a ...any) {
	if g.fail == "" {
		g.fail = fmt.Sprintf(f, a...)
	}
}

func (g *gateEval) wire(e ast.Expr) gpoly {
	e = ast.Unparen(e)
	if c, ok := e.(*ast.CallExpr); ok {
		_, name, _ := callName(c)
		switch name {
		case "ZeroWire":
			return gpoly{}
		case "OneWire":
			return gone()
		}
	}
	k := g.name(e)
	if v, ok := g.env[k]; ok {
		return v
	}
	g.bad("wire %s is read before it is driven", types.ExprString(e))
	return nil
}

func (g *gateEval) stmts(list []ast.Stmt) {
	for _, s := range list {
		if g.fail != "" || g.returned {
			return
		}
		if isQuiet(g.pkg.TypesInfo, s) {
			continue
		}
		switch x := s.(type) {
		case *ast.ReturnStmt:
			if len(x.Results) == 0 {
				g.returned = true
				continue
			}
			g.bad("return of a value is not part of a gate helper")
		case *ast.SwitchStmt:
			// a tagless switch on construction-time wire values (fast paths for constant operands)
			if x.Tag != nil || x.Init != nil {
				g.bad("switch statement is not part of a bit-parallel body")
				continue
			}
			var chosen, deflt *ast.CaseClause
			for _, st := range x.Body.List {
				cc := st.(*ast.CaseClause)
				if cc.List == nil {
					deflt = cc
					continue
				}
				if chosen != nil {
					continue
				}
				for _, c := range cc.List {
					v, ok := g.cond(c)
					if !ok {
						g.bad("condition %s is not a test of construction-time wire values", types.ExprString(c))
						break
					}
					if v {
						chosen = cc
						break
					}
				}
				if g.fail != "" {
					break
				}
			}
			if g.fail != "" {
				continue
			}
			if chosen == nil {
				chosen = deflt
			}
			if chosen != nil {
				g.stmts(chosen.Body)
			}
		case *ast.AssignStmt:
			if len(x.Lhs) == 1 && len(x.Rhs) == 1 {
				if c, ok := x.Rhs[0].(*ast.CallExpr); ok {
					if _, name, _ := callName(c); name == "Wire" {
						// a fresh intermediate wire: undriven until a gate writes it
						continue
					}
				}
			}
			// local names for wires: a, b := lhs, rhs
			if len(x.Lhs) == len(x.Rhs) {
				all := true
				for i := range x.Lhs {
					l, ok1 := x.Lhs[i].(*ast.Ident)
					r, ok2 := ast.Unparen(x.Rhs[i]).(*ast.Ident)
					if !ok1 || !ok2 || !g.isWire(r) {
						all = false
					}
					_ = l
				}
				if all {
					if g.alias == nil {
						g.alias = map[string]string{}
					}
					names := make([]string, len(x.Rhs))
					for i := range x.Rhs {
						names[i] = g.name(x.Rhs[i])
					}
					for i := range x.Lhs {
						if l := x.Lhs[i].(*ast.Ident); l.Name != "_" {
							g.alias[l.Name] = names[i]
						}
					}
					continue
				}
			}
			g.bad("assignment %s is not part of the bit-parallel body", types.ExprString(x.Lhs[0]))
		case *ast.IfStmt:
			// optional outputs: `if cout != nil { ... }` — the cell is checked with every output requested
			if be, ok := x.Cond.(*ast.BinaryExpr); ok && types.ExprString(be.Y) == "nil" && be.Op.String() == "!=" && x.Else == nil {
				g.stmts(x.Body.List)
				continue
			}
			if v, ok := g.cond(x.Cond); ok && x.Init == nil {
				if v {
					g.stmts(x.Body.List)
				} else if x.Else != nil {
					switch e := x.Else.(type) {
					case *ast.BlockStmt:
						g.stmts(e.List)
					case *ast.IfStmt:
						g.stmts([]ast.Stmt{e})
					}
				}
				continue
			}
			g.bad("branch on %s is not part of a straight-line cell", types.ExprString(x.Cond))
		case *ast.ExprStmt:
			c, ok := x.X.(*ast.CallExpr)
			if !ok {
				g.bad("statement not modelled")
				return
			}
			g.call(c)
		default:
			if emptyDefer(s) {
				continue
			}
			g.bad("statement %T is not part of a bit-parallel body", s)
		}
	}
}

// isWire: the identifier has type *circuits.Wire.
func (g *gateEval) isWire(id *ast.Ident) bool {
	o := g.pkg.TypesInfo.ObjectOf(id)
	if o == nil {
		return false
	}
	pt, ok := o.Type().(*types.Pointer)
	if !ok {
		return false
	}
	n, ok := pt.Elem().(*types.Named)
	return ok && n.Obj().Name() == "Wire" && n.Obj().Pkg() != nil && n.Obj().Pkg().Path() == load.Module+"/compiler/circuits"
}

// cond evaluates a test of construction-time wire values: W.Value() ==/!= Zero|One|Unknown
// over the wires whose constness this evaluation fixes, combined with &&, || and !.
func (g *gateEval) cond(e ast.Expr) (bool, bool) {
	e = ast.Unparen(e)
	switch t := e.(type) {
	case *ast.UnaryExpr:
		if t.Op.String() == "!" {
			v, ok := g.cond(t.X)
			return !v, ok
		}
	case *ast.BinaryExpr:
		switch t.Op.String() {
		case "&&":
			a, ok1 := g.cond(t.X)
			b, ok2 := g.cond(t.Y)
			return a && b, ok1 && ok2
		case "||":
			a, ok1 := g.cond(t.X)
			b, ok2 := g.cond(t.Y)
			return a || b, ok1 && ok2
		case "==", "!=":
			x, y := t.X, t.Y
			if _, isCall := ast.Unparen(x).(*ast.CallExpr); !isCall {
				x, y = y, x
			}
			c, ok := ast.Unparen(x).(*ast.CallExpr)
			if !ok || len(c.Args) != 0 || g.known == nil {
				return false, false
			}
			sel, ok := c.Fun.(*ast.SelectorExpr)
			if !ok || sel.Sel.Name != "Value" {
				return false, false
			}
			fn, _ := g.pkg.TypesInfo.Uses[sel.Sel].(*types.Func)
			if fn == nil || fn.Pkg() == nil || fn.Pkg().Path() != load.Module+"/compiler/circuits" {
				return false, false
			}
			w, ok := ast.Unparen(sel.X).(*ast.Ident)
			if !ok {
				return false, false
			}
			wn := g.name(w)
			if _, bound := g.env[wn]; !bound {
				return false, false
			}
			tv, ok := g.pkg.TypesInfo.Types[y]
			if !ok || tv.Value == nil {
				return false, false
			}
			// the WireValue constant this wire carries at construction time
			cname := "Unknown"
			if k, isKnown := g.known[wn]; isKnown {
				cname = []string{"Zero", "One"}[k]
			}
			co, _ := fn.Pkg().Scope().Lookup(cname).(*types.Const)
			if co == nil {
				return false, false
			}
			eq := tv.Value.ExactString() == co.Val().ExactString()
			if t.Op.String() == "!=" {
				eq = !eq
			}
			return eq, true
		}
	}
	return false, false
}

func (g *gateEval) call(c *ast.CallExpr) {
	_, name, _ := callName(c)
	switch name {
	case "AddGate":
		gate, ok := c.Args[0].(*ast.CallExpr)
		if !ok {
			g.bad("AddGate of a non-literal gate")
			return
		}
		if _, gn, _ := callName(gate); gn != "BinaryGate" || len(gate.Args) != 4 {
			g.bad("gate constructor %s is not modelled", types.ExprString(gate.Fun))
			return
		}
		op := types.ExprString(gate.Args[0])
		a, b := g.wire(gate.Args[1]), g.wire(gate.Args[2])
		if a == nil || b == nil {
			return
		}
		var o gpoly
		switch {
		case strings.HasSuffix(op, "XOR"):
			o = a.xor(b)
		case strings.HasSuffix(op, "XNOR"):
			o = a.xor(b).xor(gone())
		case strings.HasSuffix(op, "AND"):
			o = a.and(b)
		case strings.HasSuffix(op, "OR"):
			o = a.xor(b).xor(a.and(b))
		default:
			g.bad("gate operation %s", op)
			return
		}
		out := g.name(gate.Args[3])
		if _, driven := g.env[out]; driven && !strings.HasPrefix(out, "in:") {
			g.bad("wire %s is driven twice", out)
			return
		}
		g.env[out] = o
	default:
		// a method of the compiler built from gates (INV, OR, ID): interpret its body with the wires bound by name
		var fn *types.Func
		if sel, ok := c.Fun.(*ast.SelectorExpr); ok {
			fn, _ = g.pkg.TypesInfo.Uses[sel.Sel].(*types.Func)
		}
		if fn == nil {
			g.bad("call %s is not modelled", types.ExprString(c.Fun))
			return
		}
		_, fd := declOf(g.p, fn)
		if fd == nil || fd.Body == nil {
			g.bad("no body for %s", fn.Name())
			return
		}
		g.tmp++
		sub := &gateEval{p: g.p, pkg: g.pkg, env: map[string]gpoly{}, tmp: g.tmp, known: map[string]int{}}
		var outs [][2]string
		i := 0
		for _, f := range fd.Type.Params.List {
			for _, n := range f.Names {
				if i < len(c.Args) {
					if v, ok := g.env[g.name(c.Args[i])]; ok {
						sub.env[n.Name] = v
						if k, isKnown := g.known[g.name(c.Args[i])]; isKnown {
							sub.known[n.Name] = k
						}
					} else if k, isConst := constWireCall(c.Args[i]); isConst {
						sub.env[n.Name] = gpoly{}
						if k == 1 {
							sub.env[n.Name] = gone()
						}
						sub.known[n.Name] = k
					} else {
						outs = append(outs, [2]string{n.Name, g.name(c.Args[i])})
					}
				}
				i++
			}
		}
		sub.stmts(fd.Body.List)
		if sub.fail != "" {
			g.bad("%s: %s", fn.Name(), sub.fail)
			return
		}
		for _, o := range outs {
			if v, ok := sub.env[o[0]]; ok {
				g.env[o[1]] = v
			}
		}
	}
}

// constWireCall: cc.ZeroWire() / cc.OneWire() as an argument.
func constWireCall(e ast.Expr) (int, bool) {
	if c, ok := ast.Unparen(e).(*ast.CallExpr); ok {
		switch _, name, _ := callName(c); name {
		case "ZeroWire":
			return 0, true
		case "OneWire":
			return 1, true
		}
	}
	return 0, false
}

// GateHelpers: the compiler's one-gate helpers compute their operator for every
// combination of construction-time operand values (a variable wire, the zero wire,
// the one wire): fast paths for constant operands are checked arm by arm.
func GateHelpers(p *load.Program, run *report.Run) {
	run.Rule("gate-helpers", "Compiler.INV, Compiler.OR and Compiler.ID, interpreted as GF(2) polynomials for every combination of operands being a variable wire, the constant-zero wire or the constant-one wire (tests of Wire.Value() decided per combination), compute not i, a or b and i")
	pkg := p.ByPath[load.Module+"/compiler/circuits"]
	a, b := gvar("a"), gvar("b")
	or := func(x, y gpoly) gpoly { return x.xor(y).xor(x.and(y)) }
	specs := []struct {
		name string
		ins  int
		want func(in []gpoly) gpoly
	}{
		{"INV", 1, func(in []gpoly) gpoly { return in[0].xor(gone()) }},
		{"ID", 1, func(in []gpoly) gpoly { return in[0] }},
		{"OR", 2, func(in []gpoly) gpoly { return or(in[0], in[1]) }},
	}
	for _, sp := range specs {
		key := "compiler/circuits.Compiler." + sp.name
		_, fd := dispatch.FindFunc(p, "compiler/circuits", "Compiler", sp.name)
		if fd == nil || pkg == nil {
			run.Undecided("gate-helpers", key, "", "function not found")
			continue
		}
		var params []string
		for _, f := range fd.Type.Params.List {
			for _, n := range f.Names {
				params = append(params, n.Name)
			}
		}
		if len(params) != sp.ins+1 {
			run.Undecided("gate-helpers", key, p.Rel(fd.Pos()), fmt.Sprintf("%d wire parameters, the specification has %d", len(params), sp.ins+1))
			continue
		}
		vars := []gpoly{a, b}
		combos := 1
		for i := 0; i < sp.ins; i++ {
			combos *= 3
		}
		bad := ""
		for c := 0; c < combos && bad == ""; c++ {
			g := &gateEval{p: p, pkg: pkg, env: map[string]gpoly{}, known: map[string]int{}}
			in := make([]gpoly, sp.ins)
			desc := ""
			for i, cc := 0, c; i < sp.ins; i, cc = i+1, cc/3 {
				switch cc % 3 {
				case 0:
					in[i] = vars[i]
					desc += params[i] + " variable "
				case 1:
					in[i] = gpoly{}
					g.known[params[i]] = 0
					desc += params[i] + "=0 "
				case 2:
					in[i] = gone()
					g.known[params[i]] = 1
					desc += params[i] + "=1 "
				}
				g.env[params[i]] = in[i]
			}
			run.Count("gate-helper-cases", 1)
			g.stmts(fd.Body.List)
			got, driven := g.env[params[sp.ins]]
			want := sp.want(in)
			switch {
			case g.fail != "":
				bad = desc + ": " + g.fail
			case !driven:
				bad = desc + ": the output wire is never driven"
			case got.String() != want.String():
				bad = fmt.Sprintf("%s: output = %s, the operator gives %s", strings.TrimSpace(desc), got, want)
			}
		}
		if bad != "" {
			run.Violate("gate-helpers", key, p.Rel(fd.Pos()), bad, nil)
		} else {
			run.OK("gate-helpers", key, p.Rel(fd.Pos()), fmt.Sprintf("%d operand-constness combinations", combos))
		}
	}
	run.Floor("gate-helper-cases", 15)
}

// C07bitwise: the bit-parallel builders compute their operator on every bit.
func C07bitwise(p *load.Program, run *report.Run) {
	run.Rule("bitwise-builders", "the per-bit body of NewBinaryAND/Clear/OR/XOR and NewMUX, interpreted as GF(2) polynomials of the input bits (gates, and the compiler's INV/OR helpers by their own bodies), is x&y, x&^y, x|y, x^y and cond?t:f; every intermediate wire is driven before it is read and no output bit is driven twice")
	pkg := p.ByPath[load.Module+"/compiler/circuits"]
	x, y, c, t, f := gvar("x"), gvar("y"), gvar("c"), gvar("t"), gvar("f")
	specs := []struct {
		name string
		in   map[string]gpoly
		out  string
		want gpoly
	}{
		{"NewBinaryAND", map[string]gpoly{"x": x, "y": y}, "r", x.and(y)},
		{"NewBinaryClear", map[string]gpoly{"x": x, "y": y}, "r", x.and(y.xor(gone()))},
		{"NewBinaryOR", map[string]gpoly{"x": x, "y": y}, "r", x.xor(y).xor(x.and(y))},
		{"NewBinaryXOR", map[string]gpoly{"x": x, "y": y}, "r", x.xor(y)},
		{"NewMUX", map[string]gpoly{"cond": c, "t": t, "f": f}, "out", c.and(t).xor(c.xor(gone()).and(f))},
	}
	for _, sp := range specs {
		key := "compiler/circuits." + sp.name
		run.Count("bitwise-builders", 1)
		_, fd := dispatch.FindFunc(p, "compiler/circuits", "", sp.name)
		if fd == nil || pkg == nil {
			run.Undecided("bitwise-builders", key, "", "function not found")
			continue
		}
		// the per-bit loop: the last for or range statement of the body
		var loop ast.Stmt
		var body *ast.BlockStmt
		for _, s := range fd.Body.List {
			switch fs := s.(type) {
			case *ast.ForStmt:
				loop, body = fs, fs.Body
			case *ast.RangeStmt:
				if fs.Value == nil {
					loop, body = fs, fs.Body
				}
			}
		}
		// the four word operations are also interpreted whole, on operand and result widths, by builder-words: a
		// body this rule cannot read bit by bit is left to it
		wordLevel := sp.name != "NewMUX"
		if loop == nil {
			if wordLevel {
				run.OK("bitwise-builders", key, p.Rel(fd.Pos()), "no per-bit loop in the function itself: decided by builder-words on whole words")
				continue
			}
			run.Undecided("bitwise-builders", key, p.Rel(fd.Pos()), "per-bit loop not found")
			continue
		}
		canon := map[string][]string{"NewMUX": {"cond", "t", "f", "out"}}[sp.name]
		if canon == nil {
			canon = []string{"x", "y", "r"}
		}
		actual := wireParams(fd)
		if len(actual) != len(canon) {
			run.Undecided("bitwise-builders", key, p.Rel(fd.Pos()), fmt.Sprintf("%d wire parameters, the specification has %d", len(actual), len(canon)))
			continue
		}
		g := &gateEval{p: p, pkg: pkg, env: map[string]gpoly{}}
		for k, v := range remap(sp.in, canon, actual) {
			g.env[k] = v
		}
		g.stmts(body.List)
		got, driven := g.env[remapName(sp.out, canon, actual)]
		switch {
		case g.fail != "" && wordLevel:
			run.OK("bitwise-builders", key, p.Rel(loop.Pos()), "the loop body is not a plain bit-parallel body ("+g.fail+"): decided by builder-words on whole words")
		case g.fail != "":
			run.Violate("bitwise-builders", key, p.Rel(loop.Pos()), g.fail, nil)
		case !driven:
			run.Violate("bitwise-builders", key, p.Rel(loop.Pos()), "the output bit is never driven", nil)
		case got.String() != sp.want.String():
			run.Violate("bitwise-builders", key, p.Rel(loop.Pos()), fmt.Sprintf("every output bit is %s, the operator is %s", got, sp.want), nil)
		default:
			run.OK("bitwise-builders", key, p.Rel(loop.Pos()), "out = "+got.String())
		}
	}
	run.Floor("bitwise-builders", 5)

	// one-bit arithmetic cells: straight-line gate sequences
	run.Rule("arithmetic-cells", "NewHalfAdder, NewFullAdder and NewFullSubtractor, interpreted as GF(2) polynomials, are the sum/carry and difference/borrow of their one-bit operands (the subtractor cell computes y - x - cin, as its caller notes)")
	a, b, ci := gvar("a"), gvar("b"), gvar("cin")
	one := gone()
	cells := []struct {
		name string
		in   map[string]gpoly
		want map[string]gpoly
	}{
		{"NewHalfAdder", map[string]gpoly{"a": a, "b": b}, map[string]gpoly{"s": a.xor(b), "c": a.and(b)}},
		{"NewFullAdder", map[string]gpoly{"a": a, "b": b, "cin": ci}, map[string]gpoly{"s": a.xor(b).xor(ci), "cout": a.and(b).xor(a.and(ci)).xor(b.and(ci))}},
		{"NewFullSubtractor", map[string]gpoly{"x": x, "y": y, "cin": ci}, map[string]gpoly{"d": x.xor(y).xor(ci), "cout": y.xor(one).and(x).xor(y.xor(one).and(ci)).xor(x.and(ci))}},
	}
	for _, cell := range cells {
		key := "compiler/circuits." + cell.name
		run.Count("arithmetic-cells", 1)
		_, fd := dispatch.FindFunc(p, "compiler/circuits", "", cell.name)
		if fd == nil {
			run.Undecided("arithmetic-cells", key, "", "function not found")
			continue
		}
		canon := map[string][]string{"NewHalfAdder": {"a", "b", "s", "c"}, "NewFullAdder": {"a", "b", "cin", "s", "cout"}, "NewFullSubtractor": {"x", "y", "cin", "d", "cout"}}[cell.name]
		actual := wireParams(fd)
		if len(actual) != len(canon) {
			run.Undecided("arithmetic-cells", key, p.Rel(fd.Pos()), fmt.Sprintf("%d wire parameters, the specification has %d", len(actual), len(canon)))
			continue
		}
		g := &gateEval{p: p, pkg: pkg, env: map[string]gpoly{}}
		for k, v := range remap(cell.in, canon, actual) {
			g.env[k] = v
		}
		g.stmts(fd.Body.List)
		bad := g.fail
		for out, want := range cell.want {
			got, ok := g.env[remapName(out, canon, actual)]
			if bad == "" && !ok {
				bad = "output " + out + " is never driven"
			}
			if bad == "" && got.String() != want.String() {
				bad = fmt.Sprintf("%s = %s, expected %s", out, got, want)
			}
		}
		if bad != "" {
			run.Violate("arithmetic-cells", key, p.Rel(fd.Pos()), bad, nil)
		} else {
			run.OK("arithmetic-cells", key, p.Rel(fd.Pos()), "")
		}
	}
	run.Floor("arithmetic-cells", 3)
}

// wireParams lists the names of the parameters after the compiler, in order:
// the specifications below bind inputs and outputs by position, not by name.
func wireParams(fd *ast.FuncDecl) []string {
	var out []string
	for i, f := range fd.Type.Params.List {
		if i == 0 {
			continue
		}
		for _, n := range f.Names {
			out = append(out, n.Name)
		}
	}
	return out
}

// remap renames the keys of a by-name table written against the repository's
// current parameter names (canon, in order) to the names actually used.
func remap(m map[string]gpoly, canon, actual []string) map[string]gpoly {
	out := map[string]gpoly{}
	for k, v := range m {
		for i, c := range canon {
			if c == k && i < len(actual) {
				k = actual[i]
				break
			}
		}
		out[k] = v
	}
	return out
}

func remapName(n string, canon, actual []string) string {
	for i, c := range canon {
		if c == n && i < len(actual) {
			return actual[i]
		}
	}
	return n
}
