package props

import (
	"fmt"
	"go/ast"
	"go/types"
	"sort"

	"mpcverif/internal/dispatch"
	"mpcverif/internal/load"
	"mpcverif/internal/report"
)

// C07dividers: the division algorithms behind NewUDivider agree on how they
// normalise their operands.
//
// NewUDivider picks an algorithm by target; NewIDivider pads and delegates.
// Operands reach them with different widths (an untyped constant is 32 bits
// wide whatever the other operand is), so every implementation first brings
// both operands to one width with cc.ZeroPad and takes its width from the
// padded vectors.  An implementation that takes len(a) alone truncates a wider
// divisor and indexes past a narrower one.
func C07dividers(p *load.Program, run *report.Run) {
	run.Rule("divider-operands-normalised", "every function NewUDivider can return a call of, and every other NewUDivider*/NewIDivider* builder of compiler/circuits with the (cc, a, b, q, r) signature, starts by assigning its two operand parameters from cc.ZeroPad of those parameters, before any other statement reads them")
	pkg := p.ByPath[load.Module+"/compiler/circuits"]
	if pkg == nil {
		run.Undecided("divider-operands-normalised", "compiler/circuits", "", "package not found")
		return
	}
	names := map[string]bool{}
	_, sel := dispatch.FindFunc(p, "compiler/circuits", "", "NewUDivider")
	if sel == nil {
		run.Undecided("divider-operands-normalised", "compiler/circuits.NewUDivider", "", "function not found")
		return
	}
	ast.Inspect(sel.Body, func(n ast.Node) bool {
		if r, ok := n.(*ast.ReturnStmt); ok && len(r.Results) == 1 {
			if c, ok := r.Results[0].(*ast.CallExpr); ok {
				if id, ok := c.Fun.(*ast.Ident); ok {
					if _, isFn := pkg.TypesInfo.Uses[id].(*types.Func); isFn {
						names[id.Name] = true
					}
				}
			}
		}
		return true
	})
	selected := len(names)
	for _, f := range pkg.Syntax {
		for _, d := range f.Decls {
			fd, ok := d.(*ast.FuncDecl)
			if !ok || fd.Recv != nil || fd.Body == nil || fd == sel {
				continue
			}
			n := fd.Name.Name
			if (len(n) > 11 && n[:11] == "NewUDivider") || (len(n) >= 11 && n[:11] == "NewIDivider") {
				names[n] = true
			}
		}
	}
	var list []string
	for n := range names {
		list = append(list, n)
	}
	sort.Strings(list)
	run.Count("divider-selections", selected)
	for _, n := range list {
		_, fd := dispatch.FindFunc(p, "compiler/circuits", "", n)
		key := "compiler/circuits." + n
		if fd == nil {
			run.Undecided("divider-operands-normalised", key, "", "function not found")
			continue
		}
		params := wireParams(fd)
		if len(params) != 4 {
			continue
		}
		run.Count("divider-implementations", 1)
		bad := ""
		found := false
		for _, st := range fd.Body.List {
			if isQuiet(pkg.TypesInfo, st) {
				continue
			}
			as, ok := st.(*ast.AssignStmt)
			if ok && len(as.Lhs) == 2 && len(as.Rhs) == 1 {
				call, isCall := as.Rhs[0].(*ast.CallExpr)
				if isCall && len(call.Args) == 2 {
					if _, name, _ := callName(call); name == "ZeroPad" &&
						types.ExprString(as.Lhs[0]) == params[0] && types.ExprString(as.Lhs[1]) == params[1] &&
						types.ExprString(call.Args[0]) == params[0] && types.ExprString(call.Args[1]) == params[1] {
						found = true
						break
					}
				}
			}
			// another statement first: it must not mention the operands
			reads := false
			ast.Inspect(st, func(m ast.Node) bool {
				if id, ok := m.(*ast.Ident); ok && (id.Name == params[0] || id.Name == params[1]) {
					if _, isVar := pkg.TypesInfo.ObjectOf(id).(*types.Var); isVar {
						reads = true
					}
				}
				return !reads
			})
			if reads {
				bad = fmt.Sprintf("reads its operands at %s before bringing them to one width", p.Rel(st.Pos()))
				break
			}
		}
		switch {
		case bad != "":
			run.Violate("divider-operands-normalised", key, p.Rel(fd.Pos()), bad+": a divisor of another width than the dividend is truncated or indexed out of range", nil)
		case !found:
			run.Violate("divider-operands-normalised", key, p.Rel(fd.Pos()), "never pads its operands to one width with cc.ZeroPad", nil)
		default:
			run.OK("divider-operands-normalised", key, p.Rel(fd.Pos()), "a, b = cc.ZeroPad(a, b) first")
		}
	}
	run.Floor("divider-selections", 2)
	run.Floor("divider-implementations", 4)
}
