package props

import (
	"fmt"
	"go/ast"
	"go/token"
	"go/types"
	"math/bits"
	"strings"

	"mpcverif/internal/dispatch"
	"mpcverif/internal/load"
	"mpcverif/internal/report"
)

// C07hamming: interval analysis of the Hamming-distance adder tree.
//
// circuits.Hamming XORs the operands bitwise and adds the difference bits in a
// tree of adders whose result widths it chooses itself.  The tree is exact iff
// no adder in it truncates.  The body is interpreted in the interval domain:
// a wire vector is (length, largest value it can hold); a difference bit is
// (1, 1); NewAdder(x, y, z) yields (len(z), max(x)+max(y)) and is required to
// satisfy max(x)+max(y) < 2^len(z); lists of vectors are concrete lists.  The
// operand width n is the only shape parameter and runs over the property's
// whole range 1..130; the result is wide enough for n.  No gate is built and
// nothing is executed; the adders themselves are the business of the other
// C07 rules.
func C07hamming(p *load.Program, run *report.Run) {
	run.Rule("hamming-tree-no-truncation", "in circuits.Hamming every adder of the tree has a result wide enough for the largest sum of its operands (interval analysis over vector lengths and maxima), and the value delivered has maximum n, for every operand width n in 1..130")
	pkg, fd := dispatch.FindFunc(p, "compiler/circuits", "", "Hamming")
	if fd == nil {
		run.Undecided("hamming-tree-no-truncation", "compiler/circuits.Hamming", "", "function not found")
		return
	}
	info := pkg.TypesInfo
	var params []types.Object
	for _, f := range fd.Type.Params.List {
		for _, n := range f.Names {
			if _, ok := info.TypeOf(n).Underlying().(*types.Slice); ok {
				params = append(params, info.ObjectOf(n))
			}
		}
	}
	if len(params) != 3 {
		run.Undecided("hamming-tree-no-truncation", "compiler/circuits.Hamming", p.Rel(fd.Pos()), "expected three wire-vector parameters")
		return
	}
	bad, und := "", ""
	split := false
	widths := 0
	for n := 1; n <= 130 && bad == "" && und == ""; n++ {
		widths++
		ev := &hamEval{info: info, env: map[types.Object]any{}}
		ev.env[params[0]] = hvec{n, 1<<62 - 1, true}
		ev.env[params[1]] = hvec{n, 1<<62 - 1, true}
		rlen := bits.Len(uint(n)) + 3
		ev.env[params[2]] = hvec{rlen, 0, false}
		ev.resultObj = params[2]
		ev.block(fd.Body.List)
		if ev.targetSplit {
			split = true
		}
		switch {
		case ev.fail != "":
			und = fmt.Sprintf("width %d: %s", n, ev.fail)
		case ev.trunc != "":
			bad = fmt.Sprintf("width %d: %s", n, ev.trunc)
		case !ev.delivered:
			und = fmt.Sprintf("width %d: no adder writes the result", n)
		case ev.final != int64(n):
			bad = fmt.Sprintf("width %d: the delivered count has maximum %d, the distance can be %d (difference bits are dropped or counted twice)", n, ev.final, n)
		}
	}
	run.Count("hamming-widths", widths)
	key := "compiler/circuits.Hamming"
	switch {
	case und != "":
		run.Undecided("hamming-tree-no-truncation", key, p.Rel(fd.Pos()), und)
	case bad != "":
		run.Violate("hamming-tree-no-truncation", key, p.Rel(fd.Pos()), bad, nil)
	default:
		if split {
			run.OK("hamming-tree-no-truncation", key, p.Rel(fd.Pos()), "widths 1..130 on the default target's adder tree; the construction chosen for another target is not an adder tree and is not decided by this rule")
		} else {
			run.OK("hamming-tree-no-truncation", key, p.Rel(fd.Pos()), "widths 1..130")
		}
	}
	run.Floor("hamming-widths", 130)
}

// hvec: a wire vector: its length, the largest value it can hold, and whether it is an operand
// (operands are not counters; only their length matters).
type hvec struct {
	n       int
	max     int64
	operand bool
}

type hamEval struct {
	info      *types.Info
	env       map[types.Object]any // int, hvec, []hvec, "err"
	resultObj types.Object
	fail      string
	trunc     string
	final     int64
	delivered bool
	// targetSplit: the function chooses another construction for another compilation target
	targetSplit bool
	done        bool
	steps       int
}

func (e *hamEval) bad(f string, a ...any) any {
	if e.fail == "" {
		e.fail = fmt.Sprintf(f, a...)
	}
	return nil
}

func (e *hamEval) block(list []ast.Stmt) {
	for _, st := range effectiveQ(e.info, list) {
		if e.fail != "" || e.done {
			return
		}
		e.stmt(st)
	}
}

func (e *hamEval) stmt(st ast.Stmt) {
	e.steps++
	if e.steps > 100000 {
		e.bad("step budget exceeded")
		return
	}
	switch s := st.(type) {
	case *ast.DeclStmt:
		gd, _ := s.Decl.(*ast.GenDecl)
		if gd == nil || gd.Tok != token.VAR {
			e.bad("declaration not modelled")
			return
		}
		for _, sp := range gd.Specs {
			vs := sp.(*ast.ValueSpec)
			for i, n := range vs.Names {
				obj := e.info.ObjectOf(n)
				if len(vs.Values) > i {
					e.env[obj] = e.expr(vs.Values[i])
					continue
				}
				switch t := obj.Type().Underlying().(type) {
				case *types.Slice:
					if _, nested := t.Elem().Underlying().(*types.Slice); nested {
						e.env[obj] = []hvec{}
					} else {
						e.env[obj] = hvec{}
					}
				default:
					e.env[obj] = 0
				}
			}
		}
	case *ast.AssignStmt:
		if len(s.Lhs) == len(s.Rhs) {
			vals := make([]any, len(s.Rhs))
			for i, r := range s.Rhs {
				vals[i] = e.expr(r)
			}
			for i, l := range s.Lhs {
				e.assign(l, vals[i], s.Tok)
			}
			return
		}
		if len(s.Rhs) == 1 {
			// a, b = cc.ZeroPad(a, b)
			if call, ok := s.Rhs[0].(*ast.CallExpr); ok && len(s.Lhs) == 2 && len(call.Args) == 2 {
				if sel, ok := call.Fun.(*ast.SelectorExpr); ok && sel.Sel.Name == "ZeroPad" {
					x, ok1 := e.expr(call.Args[0]).(hvec)
					y, ok2 := e.expr(call.Args[1]).(hvec)
					if ok1 && ok2 {
						m := x.n
						if y.n > m {
							m = y.n
						}
						x.n, y.n = m, m
						e.assign(s.Lhs[0], x, s.Tok)
						e.assign(s.Lhs[1], y, s.Tok)
						return
					}
				}
			}
		}
		e.bad("assignment shape not modelled")
	case *ast.IncDecStmt:
		if id, ok := s.X.(*ast.Ident); ok {
			if v, ok := e.env[e.info.ObjectOf(id)].(int); ok {
				if s.Tok == token.INC {
					v++
				} else {
					v--
				}
				e.env[e.info.ObjectOf(id)] = v
				return
			}
		}
		e.bad("inc/dec not modelled")
	case *ast.ExprStmt:
		call, ok := s.X.(*ast.CallExpr)
		if !ok {
			e.bad("expression statement not modelled")
			return
		}
		if sel, ok := call.Fun.(*ast.SelectorExpr); ok && sel.Sel.Name == "AddGate" {
			return // a one-bit gate: its output is a one-bit vector, created by Calloc.Wire()
		}
		e.expr(call)
	case *ast.IfStmt:
		if s.Init != nil {
			e.stmt(s.Init)
		}
		// if err != nil { return err }: the honest path has no error
		if be, ok := s.Cond.(*ast.BinaryExpr); ok {
			if t := e.info.TypeOf(be.X); t != nil && t.String() == "error" {
				if be.Op == token.EQL {
					e.block(s.Body.List)
				} else if s.Else != nil {
					if b, ok := s.Else.(*ast.BlockStmt); ok {
						e.block(b.List)
					}
				}
				return
			}
		}
		// a path chosen by the compilation target: this rule follows the adder tree of the default (Yao) target;
		// a popcount built another way for another target is not an adder tree and is not decided here
		if be, ok := s.Cond.(*ast.BinaryExpr); ok && (be.Op == token.EQL || be.Op == token.NEQ) && (strings.Contains(types.ExprString(be.X), "Params.Target") || strings.Contains(types.ExprString(be.Y), "Params.Target")) {
			e.targetSplit = true
			if be.Op == token.NEQ {
				e.block(s.Body.List)
			} else if s.Else != nil {
				if b, ok := s.Else.(*ast.BlockStmt); ok {
					e.block(b.List)
				}
			}
			return
		}
		c, ok := e.expr(s.Cond).(bool)
		if !ok {
			e.bad("condition %s not decided", types.ExprString(s.Cond))
			return
		}
		if c {
			e.block(s.Body.List)
		} else if s.Else != nil {
			if b, ok := s.Else.(*ast.BlockStmt); ok {
				e.block(b.List)
			} else {
				e.stmt(s.Else)
			}
		}
	case *ast.ForStmt:
		if s.Init != nil {
			e.stmt(s.Init)
		}
		for e.fail == "" && !e.done {
			if s.Cond != nil {
				c, ok := e.expr(s.Cond).(bool)
				if !ok {
					e.bad("loop condition %s not decided", types.ExprString(s.Cond))
					return
				}
				if !c {
					break
				}
			}
			e.block(s.Body.List)
			if s.Post != nil && !e.done {
				e.stmt(s.Post)
			}
			e.steps++
			if e.steps > 100000 {
				e.bad("step budget exceeded")
			}
		}
	case *ast.RangeStmt:
		seq, ok := e.expr(s.X).([]hvec)
		if !ok {
			e.bad("range over %s not modelled", types.ExprString(s.X))
			return
		}
		for i, v := range append([]hvec{}, seq...) {
			if id, ok := s.Key.(*ast.Ident); ok && id.Name != "_" {
				e.env[e.info.ObjectOf(id)] = i
			}
			if id, ok := s.Value.(*ast.Ident); ok && id.Name != "_" {
				e.env[e.info.ObjectOf(id)] = v
			}
			e.block(s.Body.List)
		}
	case *ast.ReturnStmt:
		for _, r := range s.Results {
			e.expr(r)
		}
		e.done = true
	case *ast.BlockStmt:
		e.block(s.List)
	default:
		if emptyDefer(st) {
			return
		}
		e.bad("statement %T not modelled", st)
	}
}

func (e *hamEval) assign(lhs ast.Expr, v any, tok token.Token) {
	switch l := ast.Unparen(lhs).(type) {
	case *ast.Ident:
		if l.Name == "_" {
			return
		}
		obj := e.info.ObjectOf(l)
		if tok == token.ADD_ASSIGN || tok == token.SUB_ASSIGN {
			a, ok1 := e.env[obj].(int)
			b, ok2 := v.(int)
			if !ok1 || !ok2 {
				e.bad("compound assignment not modelled")
				return
			}
			if tok == token.SUB_ASSIGN {
				b = -b
			}
			v = a + b
		}
		e.env[obj] = v
	default:
		e.bad("assignment to %s not modelled", types.ExprString(lhs))
	}
}

func (e *hamEval) expr(x ast.Expr) any {
	if e.fail != "" {
		return nil
	}
	x = ast.Unparen(x)
	if tv, ok := e.info.Types[x]; ok && tv.Value != nil {
		s := tv.Value.String()
		if s == "true" || s == "false" {
			return s == "true"
		}
		var n int
		if _, err := fmt.Sscan(s, &n); err == nil {
			return n
		}
	}
	switch t := x.(type) {
	case *ast.Ident:
		if t.Name == "nil" {
			return nil
		}
		if v, ok := e.env[e.info.ObjectOf(t)]; ok {
			return v
		}
		return e.bad("unbound %s", t.Name)
	case *ast.CompositeLit:
		// []*Wire{w, ...}: a vector of one-bit wires
		n := 0
		var max int64
		for _, el := range t.Elts {
			v, ok := e.expr(el).(hvec)
			if !ok || v.n != 1 {
				return e.bad("composite literal %s not modelled", types.ExprString(t))
			}
			max += v.max << uint(n)
			n++
		}
		return hvec{n, max, false}
	case *ast.IndexExpr:
		k, ok := e.expr(t.Index).(int)
		if !ok {
			return e.bad("index %s not decided", types.ExprString(t.Index))
		}
		switch b := e.expr(t.X).(type) {
		case []hvec:
			if k < 0 || k >= len(b) {
				return e.bad("index %d out of range [0,%d)", k, len(b))
			}
			return b[k]
		case hvec:
			if k < 0 || k >= b.n {
				return e.bad("index %d out of range [0,%d)", k, b.n)
			}
			return hvec{1, 1, b.operand}
		}
		return e.bad("index of %s not modelled", types.ExprString(t.X))
	case *ast.BinaryExpr:
		a, b := e.expr(t.X), e.expr(t.Y)
		if e.fail != "" {
			return nil
		}
		if av, ok := a.(int); ok {
			if bv, ok := b.(int); ok {
				switch t.Op {
				case token.ADD:
					return av + bv
				case token.SUB:
					return av - bv
				case token.MUL:
					return av * bv
				case token.QUO:
					if bv != 0 {
						return av / bv
					}
				case token.REM:
					if bv != 0 {
						return av % bv
					}
				case token.EQL:
					return av == bv
				case token.NEQ:
					return av != bv
				case token.LSS:
					return av < bv
				case token.LEQ:
					return av <= bv
				case token.GTR:
					return av > bv
				case token.GEQ:
					return av >= bv
				}
			}
		}
		if av, ok := a.(bool); ok {
			if bv, ok := b.(bool); ok {
				switch t.Op {
				case token.LAND:
					return av && bv
				case token.LOR:
					return av || bv
				}
			}
		}
		return e.bad("operator %s not modelled", t.Op)
	case *ast.CallExpr:
		if tv, ok := e.info.Types[t.Fun]; ok && tv.IsType() && len(t.Args) == 1 {
			return e.expr(t.Args[0])
		}
		if id, ok := t.Fun.(*ast.Ident); ok {
			if _, isB := e.info.ObjectOf(id).(*types.Builtin); isB {
				switch id.Name {
				case "len":
					switch v := e.expr(t.Args[0]).(type) {
					case hvec:
						return v.n
					case []hvec:
						return len(v)
					}
				case "append":
					base, _ := e.expr(t.Args[0]).([]hvec)
					out := append([]hvec{}, base...)
					for _, a := range t.Args[1:] {
						v, ok := e.expr(a).(hvec)
						if !ok {
							return e.bad("append of %s not modelled", types.ExprString(a))
						}
						out = append(out, v)
					}
					return out
				}
				return e.bad("builtin %s not modelled", id.Name)
			}
			if id.Name == "NewAdder" && len(t.Args) == 4 {
				return e.adder(t)
			}
			return e.bad("call %s not modelled", id.Name)
		}
		if sel, ok := t.Fun.(*ast.SelectorExpr); ok {
			switch sel.Sel.Name {
			case "Wire": // cc.Calloc.Wire(): the output of a difference XOR
				return hvec{1, 1, false}
			case "Wires":
				n, ok := e.expr(t.Args[0]).(int)
				if !ok {
					return e.bad("vector size not decided")
				}
				return hvec{n, 0, false}
			case "ZeroWire":
				return hvec{1, 0, false}
			case "OneWire":
				return hvec{1, 1, false}
			}
		}
		return e.bad("call %s not modelled", types.ExprString(t.Fun))
	}
	return e.bad("expression %s not modelled", types.ExprString(x))
}

// adder: NewAdder(cc, x, y, z) in the interval domain.
func (e *hamEval) adder(call *ast.CallExpr) any {
	x, ok1 := e.expr(call.Args[1]).(hvec)
	y, ok2 := e.expr(call.Args[2]).(hvec)
	z, ok3 := e.expr(call.Args[3]).(hvec)
	if !ok1 || !ok2 || !ok3 {
		return e.bad("adder operands not modelled")
	}
	if x.operand || y.operand {
		return e.bad("an operand vector is added directly")
	}
	sum := x.max + y.max
	if z.n < 62 && sum >= int64(1)<<uint(z.n) && e.trunc == "" {
		e.trunc = fmt.Sprintf("an adder of the tree adds counters with maxima %d and %d into %d result bits: the sum %d does not fit and is truncated", x.max, y.max, z.n, sum)
	}
	z.max = sum
	// the result vector is updated in place where it is a variable
	if id, ok := ast.Unparen(call.Args[3]).(*ast.Ident); ok {
		obj := e.info.ObjectOf(id)
		e.env[obj] = z
		if obj == e.resultObj {
			e.final = sum
			e.delivered = true
		}
	}
	return "err"
}
