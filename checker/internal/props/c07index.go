package props

import (
	"fmt"
	"go/ast"

	"golang.org/x/tools/go/packages"

	"mpcverif/internal/dispatch"
	"mpcverif/internal/load"
	"mpcverif/internal/report"
)

// C07index: the array-index builder selects element `index` of the array.
//
// NewIndex and its recursive helper are interpreted from their source for every
// small shape (element size, element count, index width): wires are atoms, a
// fresh wire is driven by the multiplexer that names it as output, NewMUX is
// out[i] = cond ? t[i] : f[i] (what bitwise-builders decides for its body).  The
// resulting selection tree is then read for every index value: it must give
// array[index mod 2^bits] (bits = the tree depth for the element count), and
// the zero default where that is past the end.
func C07index(p *load.Program, run *report.Run) {
	run.Rule("index-tree", "NewIndex and newIndex, interpreted from source for element sizes 1-2, 1-17 (thorough: 1-40) elements and index widths 1-6, build a multiplexer tree that yields array[index mod 2^depth] (zero past the end) for every index value; integers are concrete, wires are atoms, NewMUX is modelled as cond ? t : f with its argument-length check")
	pkg := p.ByPath[load.Module+"/compiler/circuits"]
	_, top := dispatch.FindFunc(p, "compiler/circuits", "", "NewIndex")
	if pkg == nil || top == nil {
		run.Undecided("index-tree", "compiler/circuits.NewIndex", "", "function not found")
		return
	}
	decls := map[string]*ast.FuncDecl{}
	for _, f := range pkg.Syntax {
		for _, d := range f.Decls {
			if fd, ok := d.(*ast.FuncDecl); ok && fd.Recv == nil && fd.Body != nil {
				decls[fd.Name.Name] = fd
			}
		}
	}
	maxN := bound(17, 40)
	bad := ""
	shapes := 0
	for size := 1; size <= 2 && bad == ""; size++ {
		for n := 1; n <= maxN && bad == ""; n++ {
			for iw := 1; iw <= 6 && bad == ""; iw++ {
				shapes++
				bad = indexShape(pkg, decls, top, size, n, iw)
				if bad != "" {
					bad = fmt.Sprintf("%d element(s) of %d bit(s), %d-bit index: %s", n, size, iw, bad)
				}
			}
		}
	}
	run.Count("index-shapes", shapes)
	if bad != "" {
		run.Violate("index-tree", "compiler/circuits.NewIndex", p.Rel(top.Pos()), bad, nil)
	} else {
		run.OK("index-tree", "compiler/circuits.NewIndex", p.Rel(top.Pos()), fmt.Sprintf("%d shapes", shapes))
	}
	run.Floor("index-shapes", 100)
}

type indexSel struct {
	c, t, f string
}

type indexWorld struct {
	pkg    *packages.Package
	decls  map[string]*ast.FuncDecl
	driven map[string]indexSel
	fresh  int
	depth  int
	fail   string
}

func (iw *indexWorld) hook(w *wInterp) func(name string, c *ast.CallExpr) (wv, bool) {
	return func(name string, c *ast.CallExpr) (wv, bool) {
		switch name {
		case "Wire":
			if len(c.Args) == 0 {
				iw.fresh++
				return fmt.Sprintf("w%d", iw.fresh), true
			}
		case "NewMUX":
			if len(c.Args) != 5 {
				return nil, false
			}
			var a [4][]wv
			for i := 0; i < 4; i++ {
				s, ok := w.expr(c.Args[i+1]).([]wv)
				if !ok {
					return w.bad("NewMUX argument %d is not a wire vector", i+1), true
				}
				a[i] = s
			}
			cond, t, f, out := a[0], a[1], a[2], a[3]
			// ZeroPad
			for len(t) < len(f) {
				t = append(append([]wv{}, t...), "ZERO")
			}
			for len(f) < len(t) {
				f = append(append([]wv{}, f...), "ZERO")
			}
			if len(cond) != 1 || len(t) != len(out) {
				return "error", true
			}
			for i := range out {
				o, _ := out[i].(string)
				if _, twice := iw.driven[o]; twice || o == "" || o == "ZERO" || o == "UNSET" || o[0] == 'a' || o[0] == 'i' {
					return w.bad("NewMUX drives %v, which is not a fresh undriven wire", out[i]), true
				}
				iw.driven[o] = indexSel{fmt.Sprint(cond[0]), fmt.Sprint(t[i]), fmt.Sprint(f[i])}
			}
			return nil, true
		}
		fd := iw.decls[name]
		if fd == nil {
			return nil, false
		}
		if _, isIdent := c.Fun.(*ast.Ident); !isIdent {
			return nil, false
		}
		// a function of the package: interpret its body with the arguments bound
		iw.depth++
		defer func() { iw.depth-- }()
		if iw.depth > 12 {
			return w.bad("recursion deeper than 12"), true
		}
		sub := &wInterp{pkg: iw.pkg}
		sub.hook = iw.hook(sub)
		sub.push()
		i := 0
		for _, fl := range fd.Type.Params.List {
			for _, nm := range fl.Names {
				if i < len(c.Args) {
					if i == 0 {
						sub.set(nm.Name, "cc", true)
					} else {
						sub.set(nm.Name, w.expr(c.Args[i]), true)
					}
				}
				i++
			}
		}
		if w.fail != "" {
			return nil, true
		}
		o := sub.stmts(fd.Body.List)
		if sub.fail != "" {
			return w.bad("%s: %s", name, sub.fail), true
		}
		if o.kind != "return" {
			return w.bad("%s does not return", name), true
		}
		if o.err {
			return "error", true
		}
		return nil, true
	}
}

func indexShape(pkg *packages.Package, decls map[string]*ast.FuncDecl, top *ast.FuncDecl, size, n, width int) string {
	world := &indexWorld{pkg: pkg, decls: decls, driven: map[string]indexSel{}}
	w := &wInterp{pkg: pkg}
	w.hook = world.hook(w)
	w.push()
	array := make([]wv, n*size)
	for k := range array {
		array[k] = fmt.Sprintf("a%d.%d", k/size, k%size)
	}
	index := make([]wv, width)
	for k := range index {
		index[k] = fmt.Sprintf("i%d", k)
	}
	out := make([]wv, size)
	for k := range out {
		world.fresh++
		out[k] = fmt.Sprintf("w%d", world.fresh)
	}
	vals := []wv{"cc", int64(size), array, index, out}
	i := 0
	for _, fl := range top.Type.Params.List {
		for _, nm := range fl.Names {
			if i < len(vals) {
				w.set(nm.Name, vals[i], true)
			}
			i++
		}
	}
	if i != len(vals) {
		return fmt.Sprintf("NewIndex has %d parameters, the model binds %d", i, len(vals))
	}
	o := w.stmts(top.Body.List)
	if w.fail != "" {
		return w.fail
	}
	if o.kind != "return" || o.err {
		return "the builder returns an error for a well-formed shape"
	}
	depth := 1
	for l := 2; l < n; l *= 2 {
		depth++
	}
	var eval func(a string, v, fuel int) string
	eval = func(a string, v, fuel int) string {
		if fuel == 0 {
			return "CYCLE"
		}
		d, ok := world.driven[a]
		if !ok {
			return a
		}
		if len(d.c) < 2 || d.c[0] != 'i' {
			return "COND:" + d.c
		}
		var b int
		fmt.Sscan(d.c[1:], &b)
		if (v>>b)&1 == 1 {
			return eval(d.t, v, fuel-1)
		}
		return eval(d.f, v, fuel-1)
	}
	for v := 0; v < 1<<width; v++ {
		e := v % (1 << depth)
		for bit := 0; bit < size; bit++ {
			want := "ZERO"
			if e < n {
				want = fmt.Sprintf("a%d.%d", e, bit)
			}
			got := eval(fmt.Sprint(out[bit]), v, 64)
			if got != want {
				return fmt.Sprintf("index %d selects %s for result bit %d, expected %s", v, got, bit, want)
			}
		}
	}
	return ""
}
