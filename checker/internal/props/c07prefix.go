package props

import (
	"fmt"
	"go/ast"
	"go/constant"
	"go/token"
	"go/types"
	"math"
	"math/bits"

	"golang.org/x/tools/go/packages"

	"mpcverif/internal/dispatch"
	"mpcverif/internal/load"
	"mpcverif/internal/report"
)

// C07prefix: the integer skeleton of the parallel-prefix (Kogge-Stone) adder and
// subtractor, the arithmetic of the GMW target.  Their gate bodies are not
// interpreted; what is decided is the part of them that is pure integer
// arithmetic on operand lengths, for every width of the property's range:
//
//   - operand-width prologue: the working width n covers every operand bit that
//     can influence a result bit, n >= min(len(z), max(len(x), len(y))), and
//     both operands are at least n long afterwards (no index out of range);
//   - prefix depth: the distances d_1, d_2, ... the prefix loop combines at
//     (the d in p[i-d]) reach every lower position: d_k <= 1 + d_1+...+d_(k-1)
//     and d_1+...+d_last >= n-1.  A stage count of floor(log2 n) instead of
//     ceil(log2 n) is one stage short exactly when n is not a power of two.
func C07prefix(p *load.Program, run *report.Run) {
	run.Rule("prefix-operand-width", "Kogge-Stone adder/subtractor: the working width computed from len(x), len(y), len(z) covers min(len(z), max(len(x), len(y))) and both operands are padded to it (evaluated for all length triples up to 6 and the diagonal up to 131)")
	run.Rule("prefix-depth", "Kogge-Stone adder/subtractor: the combine distances of the prefix loop have no gap and sum to at least n-1, for every working width 1..131")
	pkg := p.ByPath[load.Module+"/compiler/circuits"]
	if pkg == nil {
		run.Undecided("prefix-depth", "compiler/circuits", "", "package not loaded")
		return
	}
	for _, name := range []string{"NewKoggeStoneAdder", "NewKoggeStoneSubtractor"} {
		_, fd := dispatch.FindFunc(p, "compiler/circuits", "", name)
		key := "compiler/circuits." + name
		if fd == nil || fd.Type.Params.NumFields() < 4 {
			run.Undecided("prefix-depth", key, "", "function not found")
			continue
		}
		info := pkg.TypesInfo
		var ops []types.Object // x, y, z: the three slice parameters
		for _, f := range fd.Type.Params.List {
			for _, n := range f.Names {
				if _, ok := info.TypeOf(n).Underlying().(*types.Slice); ok {
					ops = append(ops, info.ObjectOf(n))
				}
			}
		}
		if len(ops) != 3 {
			run.Undecided("prefix-depth", key, p.Rel(fd.Pos()), "expected three slice parameters")
			continue
		}
		// split the body: prologue = leading statements without make/loops; the prefix loop = first loop indexing [i-d]
		var prologue []ast.Stmt
		rest := effectiveQ(info, fd.Body.List)
		for len(rest) > 0 {
			st := rest[0]
			if _, isFor := st.(*ast.ForStmt); isFor || containsCall(st, "make") {
				break
			}
			prologue = append(prologue, st)
			rest = rest[1:]
		}
		var loop *ast.ForStmt
		var dist types.Object
		var between []ast.Stmt // integer definitions between the prologue and the prefix loop (numStages := …)
		for _, st := range rest {
			fs, ok := st.(*ast.ForStmt)
			if !ok {
				if as, ok := st.(*ast.AssignStmt); ok && as.Tok == token.DEFINE && len(as.Lhs) == 1 {
					if bt, ok := info.TypeOf(as.Lhs[0]).Underlying().(*types.Basic); ok && bt.Info()&types.IsInteger != 0 {
						between = append(between, st)
					}
				}
				continue
			}
			if d := distanceVar(info, fs); d != nil {
				loop, dist = fs, d
				break
			}
		}
		if loop == nil {
			run.Undecided("prefix-depth", key, p.Rel(fd.Pos()), "no loop combining position i with position i-d found")
			continue
		}
		type shape struct{ lx, ly, lz int64 }
		var shapes []shape
		for a := int64(1); a <= 6; a++ {
			for b := int64(1); b <= 6; b++ {
				for c := int64(1); c <= 7; c++ {
					shapes = append(shapes, shape{a, b, c})
				}
			}
		}
		for k := int64(7); k <= 130; k++ {
			shapes = append(shapes, shape{k, k, k}, shape{k, k, k + 1}, shape{1, k, k})
		}
		badW, badD, und := "", "", ""
		nShapes := 0
		for _, sh := range shapes {
			ev := &lenEval{pkg: pkg, info: info, ints: map[types.Object]int64{}, lens: map[types.Object]int64{ops[0]: sh.lx, ops[1]: sh.ly, ops[2]: sh.lz}}
			ev.block(prologue)
			if ev.fail != "" {
				und = ev.fail
				break
			}
			// the working width: the bound of the prefix loop's inner position loop, or the variable named in the cond
			n, ok := ev.widthOf(loop)
			if !ok {
				und = "working width of the prefix loop not identified: " + ev.fail
				break
			}
			nShapes++
			need := sh.lx
			if sh.ly > need {
				need = sh.ly
			}
			if sh.lz < need {
				need = sh.lz
			}
			if badW == "" {
				switch {
				case n < need:
					badW = fmt.Sprintf("len(x)=%d len(y)=%d len(z)=%d: working width %d < %d, operand bits that reach the result are ignored", sh.lx, sh.ly, sh.lz, n, need)
				case ev.lens[ops[0]] < n || ev.lens[ops[1]] < n:
					badW = fmt.Sprintf("len(x)=%d len(y)=%d len(z)=%d: operands are %d and %d long for working width %d (index out of range)", sh.lx, sh.ly, sh.lz, ev.lens[ops[0]], ev.lens[ops[1]], n)
				case n > sh.lz:
					badW = fmt.Sprintf("len(x)=%d len(y)=%d len(z)=%d: working width %d exceeds the result", sh.lx, sh.ly, sh.lz, n)
				}
			}
			// simulate the loop control
			ev.block(between)
			ds, err := ev.distances(loop, dist)
			if err != "" {
				und = err
				break
			}
			if badD == "" {
				var sum int64
				for k, d := range ds {
					if d < 1 || d > sum+1 {
						badD = fmt.Sprintf("width %d: stage %d combines at distance %d after a reach of %d (gap)", n, k+1, d, sum)
						break
					}
					sum += d
				}
				if badD == "" && sum < n-1 {
					badD = fmt.Sprintf("width %d: the prefix stages reach back %d positions, %d are needed (carries from further down are lost)", n, sum, n-1)
				}
			}
		}
		run.Count("prefix-builders", 1)
		run.Count("prefix-shapes", nShapes)
		if und != "" {
			run.Undecided("prefix-depth", key, p.Rel(fd.Pos()), und)
			continue
		}
		if badW != "" {
			run.Violate("prefix-operand-width", key, p.Rel(fd.Pos()), badW, nil)
		} else {
			run.OK("prefix-operand-width", key, p.Rel(fd.Pos()), fmt.Sprintf("%d length triples", nShapes))
		}
		if badD != "" {
			run.Violate("prefix-depth", key, p.Rel(loop.Pos()), badD, nil)
		} else {
			run.OK("prefix-depth", key, p.Rel(loop.Pos()), fmt.Sprintf("%d widths", nShapes))
		}
	}
	run.Floor("prefix-builders", 2)
	run.Floor("prefix-shapes", 500)
}

// distanceVar: the loop body indexes some slice at [i - d] with d an identifier.
func distanceVar(info *types.Info, fs *ast.ForStmt) types.Object {
	var d types.Object
	ast.Inspect(fs.Body, func(n ast.Node) bool {
		ix, ok := n.(*ast.IndexExpr)
		if !ok || d != nil {
			return true
		}
		if be, ok := ast.Unparen(ix.Index).(*ast.BinaryExpr); ok && be.Op == token.SUB {
			if _, isConst := info.Types[be.Y]; isConst && info.Types[be.Y].Value != nil {
				return true
			}
			if id, ok := ast.Unparen(be.Y).(*ast.Ident); ok {
				d = info.ObjectOf(id)
			}
		}
		return true
	})
	return d
}

type lenEval struct {
	pkg  *packages.Package
	info *types.Info
	ints map[types.Object]int64
	lens map[types.Object]int64
	fail string
}

func (e *lenEval) bad(f string, a ...any) {
	if e.fail == "" {
		e.fail = fmt.Sprintf(f, a...)
	}
}

func (e *lenEval) block(list []ast.Stmt) {
	for _, st := range list {
		if e.fail != "" {
			return
		}
		e.stmt(st)
	}
}

func (e *lenEval) stmt(st ast.Stmt) {
	switch s := st.(type) {
	case *ast.EmptyStmt:
	case *ast.AssignStmt:
		if len(s.Lhs) != len(s.Rhs) {
			e.bad("assignment shape not modelled")
			return
		}
		type upd struct {
			obj   types.Object
			v     int64
			slice bool
		}
		var us []upd
		for i, l := range s.Lhs {
			id, ok := l.(*ast.Ident)
			if !ok {
				e.bad("assignment to %s not modelled", types.ExprString(l))
				return
			}
			if id.Name == "_" {
				continue
			}
			obj := e.info.ObjectOf(id)
			if _, isSlice := obj.Type().Underlying().(*types.Slice); isSlice {
				us = append(us, upd{obj, e.lenVal(s.Rhs[i]), true})
				continue
			}
			v := e.intVal(s.Rhs[i])
			switch s.Tok {
			case token.DEFINE, token.ASSIGN:
			case token.ADD_ASSIGN:
				v = e.ints[obj] + v
			case token.SUB_ASSIGN:
				v = e.ints[obj] - v
			case token.MUL_ASSIGN:
				v = e.ints[obj] * v
			case token.SHL_ASSIGN:
				v = e.ints[obj] << uint(v)
			default:
				e.bad("operator %s not modelled", s.Tok)
			}
			us = append(us, upd{obj, v, false})
		}
		for _, u := range us {
			if u.slice {
				e.lens[u.obj] = u.v
			} else {
				e.ints[u.obj] = u.v
			}
		}
	case *ast.IncDecStmt:
		id, ok := s.X.(*ast.Ident)
		if !ok {
			e.bad("inc/dec target not modelled")
			return
		}
		if s.Tok == token.INC {
			e.ints[e.info.ObjectOf(id)]++
		} else {
			e.ints[e.info.ObjectOf(id)]--
		}
	case *ast.IfStmt:
		if s.Init != nil {
			e.stmt(s.Init)
		}
		c, ok := e.cond(s.Cond)
		if !ok {
			return
		}
		if c {
			e.block(s.Body.List)
		} else if s.Else != nil {
			if b, ok := s.Else.(*ast.BlockStmt); ok {
				e.block(b.List)
			} else {
				e.stmt(s.Else)
			}
		}
	case *ast.DeclStmt:
		gd, ok := s.Decl.(*ast.GenDecl)
		if !ok || gd.Tok != token.VAR {
			e.bad("declaration not modelled")
			return
		}
		for _, sp := range gd.Specs {
			vs := sp.(*ast.ValueSpec)
			for i, n := range vs.Names {
				if len(vs.Values) > i {
					e.ints[e.info.ObjectOf(n)] = e.intVal(vs.Values[i])
				} else {
					e.ints[e.info.ObjectOf(n)] = 0
				}
			}
		}
	case *ast.ExprStmt:
		if c, ok := s.X.(*ast.CallExpr); ok && stdQuiet(e.info, c) {
			return
		}
		e.bad("statement %s not modelled", types.ExprString(s.X))
	default:
		e.bad("statement %T not modelled in the width prologue", st)
	}
}

func (e *lenEval) cond(x ast.Expr) (bool, bool) {
	be, ok := ast.Unparen(x).(*ast.BinaryExpr)
	if !ok {
		e.bad("condition %s not modelled", types.ExprString(x))
		return false, false
	}
	switch be.Op {
	case token.LAND:
		a, ok1 := e.cond(be.X)
		b, ok2 := e.cond(be.Y)
		return a && b, ok1 && ok2
	case token.LOR:
		a, ok1 := e.cond(be.X)
		b, ok2 := e.cond(be.Y)
		return a || b, ok1 && ok2
	}
	a, b := e.intVal(be.X), e.intVal(be.Y)
	switch be.Op {
	case token.LSS:
		return a < b, true
	case token.LEQ:
		return a <= b, true
	case token.GTR:
		return a > b, true
	case token.GEQ:
		return a >= b, true
	case token.EQL:
		return a == b, true
	case token.NEQ:
		return a != b, true
	}
	e.bad("comparison %s not modelled", be.Op)
	return false, false
}

// lenVal: the length of a slice-valued expression.
func (e *lenEval) lenVal(x ast.Expr) int64 {
	x = ast.Unparen(x)
	switch t := x.(type) {
	case *ast.Ident:
		if v, ok := e.lens[e.info.ObjectOf(t)]; ok {
			return v
		}
		e.bad("length of %s not known", t.Name)
	case *ast.SliceExpr:
		base := e.lenVal(t.X)
		lo, hi := int64(0), base
		if t.Low != nil {
			lo = e.intVal(t.Low)
		}
		if t.High != nil {
			hi = e.intVal(t.High)
		}
		if lo < 0 || hi < lo || hi > base {
			e.bad("slice [%d:%d] of a sequence of length %d", lo, hi, base)
			return 0
		}
		return hi - lo
	case *ast.CallExpr:
		// padding helper: a method whose body returns its argument when it is long enough and a
		// sequence of the requested length otherwise (checked by shape: named Pad, two arguments)
		if sel, ok := t.Fun.(*ast.SelectorExpr); ok && len(t.Args) == 2 {
			if fn, ok := e.info.ObjectOf(sel.Sel).(*types.Func); ok && fn.Name() == "Pad" {
				l, n := e.lenVal(t.Args[0]), e.intVal(t.Args[1])
				if l >= n {
					return l
				}
				return n
			}
		}
		e.bad("length of call %s not modelled", types.ExprString(t.Fun))
	default:
		e.bad("length of %s not modelled", types.ExprString(x))
	}
	return 0
}

func (e *lenEval) floatVal(x ast.Expr) (float64, bool) {
	x = ast.Unparen(x)
	if tv, ok := e.info.Types[x]; ok && tv.Value != nil {
		f, _ := constant.Float64Val(constant.ToFloat(tv.Value))
		return f, true
	}
	call, ok := x.(*ast.CallExpr)
	if !ok {
		return 0, false
	}
	if tv, ok := e.info.Types[call.Fun]; ok && tv.IsType() && len(call.Args) == 1 {
		if bt, ok := tv.Type.Underlying().(*types.Basic); ok && bt.Info()&types.IsFloat != 0 {
			if f, ok := e.floatVal(call.Args[0]); ok {
				return f, true
			}
			return float64(e.intVal(call.Args[0])), true
		}
		return 0, false
	}
	if sel, ok := call.Fun.(*ast.SelectorExpr); ok {
		if fn, ok := e.info.ObjectOf(sel.Sel).(*types.Func); ok && fn.Pkg() != nil && fn.Pkg().Path() == "math" && len(call.Args) == 1 {
			a, ok := e.floatVal(call.Args[0])
			if !ok {
				return 0, false
			}
			switch fn.Name() {
			case "Ceil":
				return math.Ceil(a), true
			case "Floor":
				return math.Floor(a), true
			case "Log2":
				return math.Log2(a), true
			case "Sqrt":
				return math.Sqrt(a), true
			case "Round":
				return math.Round(a), true
			case "Trunc":
				return math.Trunc(a), true
			}
		}
	}
	return 0, false
}

func (e *lenEval) intVal(x ast.Expr) int64 {
	x = ast.Unparen(x)
	if tv, ok := e.info.Types[x]; ok && tv.Value != nil && tv.Value.Kind() == constant.Int {
		v, _ := constant.Int64Val(tv.Value)
		return v
	}
	switch t := x.(type) {
	case *ast.Ident:
		if v, ok := e.ints[e.info.ObjectOf(t)]; ok {
			return v
		}
		e.bad("integer %s not known", t.Name)
	case *ast.BinaryExpr:
		a, b := e.intVal(t.X), e.intVal(t.Y)
		switch t.Op {
		case token.ADD:
			return a + b
		case token.SUB:
			return a - b
		case token.MUL:
			return a * b
		case token.QUO:
			if b != 0 {
				return a / b
			}
		case token.REM:
			if b != 0 {
				return a % b
			}
		case token.SHL:
			if b >= 0 && b < 62 {
				return a << uint(b)
			}
		case token.SHR:
			if b >= 0 && b < 62 {
				return a >> uint(b)
			}
		}
		e.bad("integer operator %s not modelled", t.Op)
	case *ast.CallExpr:
		if id, ok := t.Fun.(*ast.Ident); ok && len(t.Args) >= 1 {
			if _, b := e.info.ObjectOf(id).(*types.Builtin); b {
				switch id.Name {
				case "len":
					return e.lenVal(t.Args[0])
				case "min", "max":
					v := e.intVal(t.Args[0])
					for _, a := range t.Args[1:] {
						w := e.intVal(a)
						if (id.Name == "min" && w < v) || (id.Name == "max" && w > v) {
							v = w
						}
					}
					return v
				}
			}
		}
		if tv, ok := e.info.Types[t.Fun]; ok && tv.IsType() && len(t.Args) == 1 {
			if f, ok := e.floatVal(t.Args[0]); ok {
				if _, isInt := e.info.TypeOf(t.Args[0]).Underlying().(*types.Basic); isInt && e.info.TypeOf(t.Args[0]).Underlying().(*types.Basic).Info()&types.IsFloat != 0 {
					return int64(f)
				}
			}
			return e.intVal(t.Args[0])
		}
		if sel, ok := t.Fun.(*ast.SelectorExpr); ok {
			if fn, ok := e.info.ObjectOf(sel.Sel).(*types.Func); ok && fn.Pkg() != nil && fn.Pkg().Path() == "math/bits" && len(t.Args) == 1 {
				a := e.intVal(t.Args[0])
				switch fn.Name() {
				case "Len", "Len64", "Len32":
					return int64(bits.Len64(uint64(a)))
				case "TrailingZeros", "TrailingZeros64":
					return int64(bits.TrailingZeros64(uint64(a)))
				case "OnesCount", "OnesCount64":
					return int64(bits.OnesCount64(uint64(a)))
				}
			}
		}
		e.bad("integer call %s not modelled", types.ExprString(t.Fun))
	default:
		e.bad("integer expression %s not modelled", types.ExprString(x))
	}
	return 0
}

// widthOf: the working width of the prefix loop: the bound of the position loop
// inside it (for i := …; i < n; i++), evaluated in the current environment.
func (e *lenEval) widthOf(loop *ast.ForStmt) (int64, bool) {
	var bound ast.Expr
	ast.Inspect(loop.Body, func(n ast.Node) bool {
		fs, ok := n.(*ast.ForStmt)
		if !ok || bound != nil {
			return true
		}
		if be, ok := fs.Cond.(*ast.BinaryExpr); ok && be.Op == token.LSS {
			if _, isPost := fs.Post.(*ast.IncDecStmt); isPost && containsIndexSub(fs.Body) {
				bound = be.Y
			}
		}
		return true
	})
	if bound == nil {
		e.bad("no position loop inside the prefix loop")
		return 0, false
	}
	v := e.intVal(bound)
	return v, e.fail == ""
}

func containsIndexSub(n ast.Node) bool {
	found := false
	ast.Inspect(n, func(m ast.Node) bool {
		if ix, ok := m.(*ast.IndexExpr); ok {
			if be, ok := ast.Unparen(ix.Index).(*ast.BinaryExpr); ok && be.Op == token.SUB {
				found = true
			}
		}
		return !found
	})
	return found
}

// distances simulates the control of the prefix loop (init, condition, post and the
// integer definitions at the top level of its body) and returns the value of the
// distance variable in every iteration.
func (e *lenEval) distances(loop *ast.ForStmt, dist types.Object) ([]int64, string) {
	if loop.Init != nil {
		e.stmt(loop.Init)
	}
	var out []int64
	for it := 0; ; it++ {
		if it > 64 {
			return nil, "prefix loop does not terminate within 64 stages"
		}
		if loop.Cond != nil {
			c, ok := e.cond(loop.Cond)
			if !ok || e.fail != "" {
				return nil, "prefix loop condition: " + e.fail
			}
			if !c {
				break
			}
		}
		for _, st := range effectiveQ(e.info, loop.Body.List) {
			as, ok := st.(*ast.AssignStmt)
			if !ok || as.Tok != token.DEFINE || len(as.Lhs) != 1 {
				continue
			}
			id, ok := as.Lhs[0].(*ast.Ident)
			if !ok {
				continue
			}
			if bt, ok := e.info.TypeOf(id).Underlying().(*types.Basic); ok && bt.Info()&types.IsInteger != 0 {
				e.stmt(as)
			}
		}
		if e.fail != "" {
			return nil, "prefix loop body: " + e.fail
		}
		d, ok := e.ints[dist]
		if !ok {
			return nil, "distance variable has no value in the loop"
		}
		out = append(out, d)
		if loop.Post != nil {
			e.stmt(loop.Post)
		}
		if e.fail != "" {
			return nil, "prefix loop post: " + e.fail
		}
	}
	return out, ""
}
