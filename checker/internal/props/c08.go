package props

import (
	"golang.org/x/tools/go/ssa"

	"mpcverif/internal/load"
	"mpcverif/internal/order"
	"mpcverif/internal/report"
)

// C08 decides the order-dependence clauses of compilation determinism.
func C08(p *load.Program, run *report.Run) {
	run.Rule("map-range-order", "no map iteration order reaches emitted code: every live map range in the compilation call graph has an order-insensitive body")
	run.Rule("nondeterministic-source", "no go/select/time/rand in the compilation call graph outside the allowed sink-free uses")
	run.Rule("compile-state-on-cache", "code generation does not leave per-compilation state on AST objects that a later compilation by the same Compiler reuses")
	var roots []*ssa.Function
	for _, r := range [][3]string{
		{"compiler", "Compiler", "Compile"}, {"compiler", "Compiler", "CompileFile"}, {"compiler", "Compiler", "CompileSSA"},
		{"compiler", "Compiler", "Stream"}, {"compiler", "Compiler", "StreamFile"}, {"compiler", "Compiler", "ParseFile"},
		{"circuit", "Circuit", "Marshal"}, {"circuit", "Circuit", "MarshalBristol"}, {"circuit", "Circuit", "MarshalFormat"},
		{"compiler/ssa", "Program", "PP"},
	} {
		f, err := p.Method(r[0], r[1], r[2])
		if err != nil {
			run.Undecided("anchor", r[0]+"."+r[1]+"."+r[2], "", err.Error())
			continue
		}
		roots = append(roots, f)
	}
	fz := order.Frozen{Reason: "parsing registers each package under its alias (keyed insert) and the parser keeps no cross-package state"}
	fz.NoGlobalWritesFrom.Pkg, fz.NoGlobalWritesFrom.Type, fz.NoGlobalWritesFrom.Name = "compiler", "Compiler", "parsePkg"
	order.MapRanges(p, run, roots, map[string]order.Frozen{
		"(*compiler.Compiler).parse/range pkg.Imports": fz,
	})
	order.TimeIntoData(p, run, map[string]bool{load.Module + "/compiler": true, load.Module + "/compiler/ast": true, load.Module + "/compiler/ssa": true,
		load.Module + "/compiler/circuits": true, load.Module + "/compiler/mpa": true, load.Module + "/compiler/utils": true, load.Module + "/types": true}, c08AllowedSources)
	order.CachedStateLeak(p, run)
	run.Floor("map-ranges", 8)
	run.Floor("functions-in-scope", 300)
}

// c08AllowedSources: time/rand/go uses in the compilation call graph that do not feed emitted code (one reason each).
var c08AllowedSources = map[string]string{
	"(*compiler/ssa.Program).Stream/crypto/rand.Read": "the per-session garbling key of the streaming protocol; it is sent to the evaluator and never reaches instruction, wire or gate construction",
}
