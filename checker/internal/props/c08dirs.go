package props

import (
	"fmt"
	"go/ast"
	"go/types"
	"strings"

	"mpcverif/internal/dispatch"
	"mpcverif/internal/load"
	"mpcverif/internal/report"
)

// C08dirs: two further order sources of the compile path.
//
//   - directory-order: the names a directory listing returns (Readdirnames,
//     ReadDir of *os.File, filepath.Glob is sorted by contract and exempt) come
//     in file-system order.  In the code-generating packages every such listing
//     must be sorted (the listing variable, or a slice filtered from it, is the
//     argument of a sort call) before anything is parsed from it; otherwise two
//     parties compiling the same sources on different machines emit the
//     package initialisers in different orders.
//   - package-cache-key: the compiler caches parsed packages under the *alias*
//     of the import (last path component) but a package is identified by its
//     import path; a cache hit that is not checked against the path hands one
//     package to the importers of another with the same last component, and
//     which of the two wins is decided by the iteration order of the imports
//     map.
func C08dirs(p *load.Program, run *report.Run) {
	run.Rule("directory-order", "in the code-generating packages every directory listing (Readdirnames, File.ReadDir) is sorted — itself or the slice filtered from it — before it is used")
	run.Rule("package-cache-key", "a hit in the compiler's package cache, which is keyed by import alias, is validated against the import path before the cached package is returned")
	for _, rel := range []string{"compiler", "compiler/ast", "compiler/ssa", "compiler/utils"} {
		pkg := p.ByPath[load.Module+"/"+rel]
		if pkg == nil {
			continue
		}
		info := pkg.TypesInfo
		for _, f := range pkg.Syntax {
			if strings.HasSuffix(p.Fset.Position(f.Pos()).Filename, "_test.go") {
				continue
			}
			for _, d := range f.Decls {
				fd, ok := d.(*ast.FuncDecl)
				if !ok || fd.Body == nil {
					continue
				}
				ast.Inspect(fd.Body, func(n ast.Node) bool {
					as, ok := n.(*ast.AssignStmt)
					if !ok || len(as.Rhs) != 1 {
						return true
					}
					call, ok := as.Rhs[0].(*ast.CallExpr)
					if !ok {
						return true
					}
					sel, ok := call.Fun.(*ast.SelectorExpr)
					if !ok || (sel.Sel.Name != "Readdirnames" && sel.Sel.Name != "ReadDir" && sel.Sel.Name != "Readdir") {
						return true
					}
					if fn, ok := info.ObjectOf(sel.Sel).(*types.Func); !ok || fn.Pkg() == nil || fn.Pkg().Path() != "os" {
						return true
					}
					run.Count("directory-listings", 1)
					listing, ok := as.Lhs[0].(*ast.Ident)
					key := fmt.Sprintf("%s.%s/%s", rel, fd.Name.Name, sel.Sel.Name)
					if !ok {
						run.Undecided("directory-order", key, p.Rel(call.Pos()), "listing not bound to a variable")
						return true
					}
					// the listing, and slices appended from ranging over it
					derived := map[types.Object]bool{info.ObjectOf(listing): true}
					ast.Inspect(fd.Body, func(m ast.Node) bool {
						rs, ok := m.(*ast.RangeStmt)
						if !ok {
							return true
						}
						if id, ok := ast.Unparen(rs.X).(*ast.Ident); !ok || !derived[info.ObjectOf(id)] {
							return true
						}
						ast.Inspect(rs.Body, func(k ast.Node) bool {
							if a2, ok := k.(*ast.AssignStmt); ok && len(a2.Lhs) == 1 && len(a2.Rhs) == 1 {
								if c2, ok := a2.Rhs[0].(*ast.CallExpr); ok {
									if id, ok := c2.Fun.(*ast.Ident); ok && id.Name == "append" {
										if l, ok := a2.Lhs[0].(*ast.Ident); ok {
											derived[info.ObjectOf(l)] = true
										}
									}
								}
							}
							return true
						})
						return true
					})
					sorted := false
					ast.Inspect(fd.Body, func(m ast.Node) bool {
						c2, ok := m.(*ast.CallExpr)
						if !ok || len(c2.Args) == 0 {
							return true
						}
						s2, ok := c2.Fun.(*ast.SelectorExpr)
						if !ok {
							return true
						}
						if fn, ok := info.ObjectOf(s2.Sel).(*types.Func); ok && fn.Pkg() != nil && (fn.Pkg().Path() == "sort" || fn.Pkg().Path() == "slices") && strings.HasPrefix(fn.Name(), "S") {
							if id, ok := ast.Unparen(c2.Args[0]).(*ast.Ident); ok && derived[info.ObjectOf(id)] {
								sorted = true
							}
						}
						return true
					})
					if sorted {
						run.OK("directory-order", key, p.Rel(call.Pos()), "the listing is sorted before use")
					} else {
						run.Violate("directory-order", key, p.Rel(call.Pos()), "the directory listing is used in file-system order: the files of a package are parsed, and its initialisers emitted, in an order that differs between machines", nil)
					}
					return true
				})
			}
		}
	}
	run.Floor("directory-listings", 1)

	// package-cache-key
	pkg, fd := dispatch.FindFunc(p, "compiler", "Compiler", "parsePkg")
	if fd == nil || fd.Type.Params.NumFields() < 2 {
		run.Undecided("package-cache-key", "compiler.Compiler.parsePkg", "", "function not found")
		return
	}
	info := pkg.TypesInfo
	var params []types.Object
	for _, f := range fd.Type.Params.List {
		for _, n := range f.Names {
			params = append(params, info.ObjectOf(n))
		}
	}
	// the cache lookup: v, ok := <map[string]*ast.Package>[key]
	var keyObj types.Object
	var hit *ast.IfStmt
	body := effectiveQ(info, fd.Body.List)
	for i, st := range body {
		as, ok := st.(*ast.AssignStmt)
		if !ok || len(as.Rhs) != 1 {
			continue
		}
		ix, ok := as.Rhs[0].(*ast.IndexExpr)
		if !ok {
			continue
		}
		if _, isMap := info.TypeOf(ix.X).Underlying().(*types.Map); !isMap {
			continue
		}
		if id, ok := ast.Unparen(ix.Index).(*ast.Ident); ok {
			keyObj = info.ObjectOf(id)
		}
		if i+1 < len(body) {
			hit, _ = body[i+1].(*ast.IfStmt)
		}
		break
	}
	run.Count("package-cache-lookups", 1)
	key := "compiler.Compiler.parsePkg/packages[alias]"
	if keyObj == nil || hit == nil {
		run.Undecided("package-cache-key", key, p.Rel(fd.Pos()), "cache lookup followed by a hit test not found at the top of parsePkg")
		return
	}
	// the identifying parameter: the one passed on to the function that locates the package on disk
	var identity types.Object
	ast.Inspect(fd.Body, func(n ast.Node) bool {
		call, ok := n.(*ast.CallExpr)
		if !ok {
			return true
		}
		if sel, ok := call.Fun.(*ast.SelectorExpr); ok && strings.Contains(sel.Sel.Name, "arsePkg") {
			for _, a := range call.Args {
				if id, ok := ast.Unparen(a).(*ast.Ident); ok {
					for _, pr := range params {
						if info.ObjectOf(id) == pr && pr != keyObj {
							if bt, ok := pr.Type().Underlying().(*types.Basic); ok && bt.Info()&types.IsString != 0 {
								identity = pr
							}
						}
					}
				}
			}
		}
		return true
	})
	if identity == nil || identity == keyObj {
		run.OK("package-cache-key", key, p.Rel(hit.Pos()), "the cache key is the value that locates the package")
		return
	}
	checked := false
	ast.Inspect(hit, func(n ast.Node) bool {
		if id, ok := n.(*ast.Ident); ok && info.ObjectOf(id) == identity {
			checked = true
		}
		return true
	})
	if checked {
		run.OK("package-cache-key", key, p.Rel(hit.Pos()), "a cache hit is compared with the import path")
	} else {
		run.Violate("package-cache-key", key, p.Rel(hit.Pos()), "the package cache is keyed by the import alias and a hit is returned without comparing the import path: two imports whose paths end in the same name share whichever package was parsed first, and the imports map is walked in map order", nil)
	}
}
