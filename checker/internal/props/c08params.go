package props

import (
	"fmt"
	"strings"

	"golang.org/x/tools/go/ssa"

	"mpcverif/internal/load"
	"mpcverif/internal/report"
)

// C08params: compilation reads its parameters, it does not write them.
//
// One utils.Params is shared by every compilation of a process (the garbled
// evaluator loop, compileFiles, the test suite).  A store or map update
// through *Params from code reachable from the compiler's packages makes the
// circuit depend on what was compiled before with the same object: the
// long-running evaluator and the freshly started garbler then hold different
// circuits for one source.  Every such write in compiler, compiler/ast,
// compiler/ssa, compiler/circuits, compiler/mpa and circuit is reported by the
// field it changes (the methods of Params itself are its constructor and Close).
func C08params(p *load.Program, run *report.Run) {
	run.Rule("params-read-only", "no store to a field of utils.Params and no update of a map or slice element held in one, through a *Params value, in compiler, compiler/ast, compiler/ssa, compiler/circuits, compiler/mpa or circuit: what a compilation produces depends on the source, the sizes and the parameters, not on earlier compilations with the same Params")
	pkgs := map[string]bool{}
	for _, r := range []string{"compiler", "compiler/ast", "compiler/ssa", "compiler/circuits", "compiler/mpa", "circuit"} {
		pkgs[load.Module+"/"+r] = true
	}
	isParams := func(v ssa.Value) bool {
		return strings.HasSuffix(strings.TrimPrefix(v.Type().String(), "*"), "compiler/utils.Params")
	}
	// the field of Params an address or map value derives from
	var fieldOf func(v ssa.Value, depth int) string
	fieldOf = func(v ssa.Value, depth int) string {
		if depth > 8 {
			return ""
		}
		switch t := v.(type) {
		case *ssa.FieldAddr:
			if isParams(t.X) {
				return structFieldName(t.X.Type(), t.Field)
			}
			return fieldOf(t.X, depth+1)
		case *ssa.IndexAddr:
			return fieldOf(t.X, depth+1)
		case *ssa.UnOp:
			return fieldOf(t.X, depth+1)
		case *ssa.Field:
			return fieldOf(t.X, depth+1)
		}
		return ""
	}
	reads := 0
	found := map[string]bool{}
	for _, fn := range p.AllFunctions() {
		if fn.Pkg == nil || !pkgs[fn.Pkg.Pkg.Path()] || fn.Blocks == nil {
			continue
		}
		if strings.HasSuffix(p.Fset.Position(fn.Pos()).Filename, "_test.go") {
			continue
		}
		name := strings.ReplaceAll(fn.RelString(nil), load.Module+"/", "")
		for _, b := range fn.Blocks {
			for _, ins := range b.Instrs {
				var fld string
				switch t := ins.(type) {
				case *ssa.Store:
					fld = fieldOf(t.Addr, 0)
				case *ssa.MapUpdate:
					fld = fieldOf(t.Map, 0)
				case *ssa.FieldAddr:
					if isParams(t.X) {
						reads++
					}
					continue
				default:
					continue
				}
				if fld == "" {
					continue
				}
				key := fmt.Sprintf("%s/Params.%s", name, fld)
				if found[key] {
					continue
				}
				found[key] = true
				run.Violate("params-read-only", key, p.Rel(ins.Pos()), fmt.Sprintf("the compilation writes Params.%s: the next compilation with the same Params starts from what this one left there", fld), nil)
			}
		}
	}
	run.Count("params-field-accesses", reads)
	run.Floor("params-field-accesses", 30)
	if len(found) == 0 {
		run.OK("params-read-only", "compiler/*", "", fmt.Sprintf("%d field accesses, no write", reads))
	}
}
