package props

import (
	"fmt"
	"go/types"

	"golang.org/x/tools/go/ssa"

	"mpcverif/internal/fpai"
	"mpcverif/internal/load"
	"mpcverif/internal/report"
)

// C09 decides the soundness of the constant-propagation rule table.
func C09(p *load.Program, run *report.Run) {
	run.Rule("constprop-table", "for every op and every known/unknown combination of input wire values, the action ConstPropagate takes (set output constant, short-circuit to an input) agrees with the gate's truth table for all completions of the unknown inputs")
	run.Rule("constprop-rewire", "an input is replaced only by the constant wire of its own value")
	tt, err := truthTables(p, run)
	if err != nil {
		run.Undecided("constprop-table", "circuit.Circuit.Compute", "", err.Error())
		return
	}
	fn, err := p.Method("compiler/circuits", "Compiler", "ConstPropagate")
	if err != nil {
		run.Undecided("constprop-table", "compiler/circuits.Compiler.ConstPropagate", "", err.Error())
		return
	}
	gateT, _ := p.Type("compiler/circuits", "Gate")
	wireT, _ := p.Type("compiler/circuits", "Wire")
	compT, _ := p.Type("compiler/circuits", "Compiler")
	ia := fpai.FindInstr(fn, func(i ssa.Instruction) bool {
		x, ok := i.(*ssa.IndexAddr)
		return ok && types.Identical(x.Type(), types.NewPointer(types.NewPointer(gateT)))
	})
	if ia == nil {
		run.Undecided("constprop-table", "compiler/circuits.Compiler.ConstPropagate", p.Rel(fn.Pos()), "loop over cc.Gates not found")
		return
	}
	loop, ok := fpai.EnclosingLoop(ia.Block())
	if !ok {
		run.Undecided("constprop-table", "compiler/circuits.Compiler.ConstPropagate", p.Rel(fn.Pos()), "gate access not in a loop")
		return
	}
	free := fpai.FreeValues(loop)
	valNames := []string{"?", "0", "1"}
	mod := "(*" + load.Module + "/compiler/circuits."
	for op := 0; op < 5; op++ {
		for av := 0; av < 3; av++ {
			for bv := 0; bv < 3; bv++ {
				if op == 4 && bv != 0 {
					continue
				}
				key := fmt.Sprintf("compiler/circuits.Compiler.ConstPropagate/%s/A=%s,B=%s", opNames[op], valNames[av], valNames[bv])
				newWire := func(name string, val int) *fpai.Obj {
					w := fpai.ZeroVal(wireT).(fpai.StructV)
					w.F[0] = fpai.IntV{K: int64(val) << 29} // ovnum: value bits
					return &fpai.Obj{Name: name, V: w}
				}
				wa, wb, wo := newWire("A", av), newWire("B", bv), newWire("O", 0)
				zero, one := newWire("ZERO", 1), newWire("ONE", 2)
				gate := fpai.ZeroVal(gateT).(fpai.StructV)
				gs := gateT.Underlying().(*types.Struct)
				for i := 0; i < gs.NumFields(); i++ {
					switch gs.Field(i).Name() {
					case "Op":
						gate.F[i] = fpai.IntV{K: int64(op)}
					case "A":
						gate.F[i] = fpai.PtrV{O: wa}
					case "B":
						if op == 4 {
							gate.F[i] = fpai.NilV{}
						} else {
							gate.F[i] = fpai.PtrV{O: wb}
						}
					case "O":
						gate.F[i] = fpai.PtrV{O: wo}
					}
				}
				gobj := &fpai.Obj{Name: "gate", V: gate}
				in := fpai.New(load.Module)
				var short *fpai.Obj
				in.Models[mod+"Gate).ShortCircuit"] = func(in *fpai.Interp, a []fpai.Val, _ ssa.CallInstruction) (fpai.Val, error) {
					if pv, ok := a[1].(fpai.PtrV); ok {
						short = pv.O
					}
					return fpai.NilV{}, nil
				}
				nop := func(in *fpai.Interp, a []fpai.Val, _ ssa.CallInstruction) (fpai.Val, error) { return fpai.NilV{}, nil }
				in.Models[mod+"Wire).RemoveOutput"] = nop
				in.Models[mod+"Wire).AddOutput"] = nop
				in.Models[mod+"Compiler).ZeroWire"] = func(in *fpai.Interp, a []fpai.Val, _ ssa.CallInstruction) (fpai.Val, error) {
					return fpai.PtrV{O: zero}, nil
				}
				in.Models[mod+"Compiler).OneWire"] = func(in *fpai.Interp, a []fpai.Val, _ ssa.CallInstruction) (fpai.Val, error) {
					return fpai.PtrV{O: one}, nil
				}
				env := map[ssa.Value]fpai.Val{}
				for _, v := range free {
					switch {
					case types.Identical(v.Type(), types.NewSlice(types.NewPointer(gateT))):
						env[v] = &fpai.SymSlice{Name: "gates", M: map[string]*fpai.Obj{"0": {V: fpai.PtrV{O: gobj}}}, Len: fpai.IntV{K: 1}}
					case types.Identical(v.Type(), types.NewPointer(compT)):
						env[v] = fpai.PtrV{O: &fpai.Obj{V: fpai.ZeroVal(compT)}}
					default:
						if al, ok := v.(*ssa.Alloc); ok {
							env[v] = fpai.PtrV{O: &fpai.Obj{V: fpai.ZeroVal(al.Type().(*types.Pointer).Elem())}}
						} else if bt, ok := v.Type().Underlying().(*types.Basic); ok && bt.Info()&types.IsInteger != 0 {
							env[v] = fpai.IntV{K: 0}
						} else {
							env[v] = fpai.OpaqueV{Name: v.Name()}
						}
					}
				}
				_, _, err := in.RunRegion(fn, loop.Body, loop.Header, env, func(from, to *ssa.BasicBlock) bool { return to == loop.Header })
				run.Count("constprop-cells", 1)
				if err != nil {
					run.Undecided("constprop-table", key, p.Rel(fn.Pos()), err.Error())
					continue
				}
				outVal := int((wo.V.(fpai.StructV).F[0].(fpai.IntV).K >> 29) & 3)
				// completions
				vals := func(v int) []int {
					if v == 0 {
						return []int{0, 1}
					}
					return []int{v - 1}
				}
				sound, action := true, "none"
				switch {
				case outVal != 0:
					action = fmt.Sprintf("set %d", outVal-1)
					for _, a := range vals(av) {
						for _, b := range vals(bv) {
							if tt[[3]int{op, a, b}] != outVal-1 {
								sound = false
							}
						}
					}
				case short != nil:
					which := "A"
					if short == wb {
						which = "B"
					} else if short != wa {
						which = "other"
						sound = false
					}
					action = "short-circuit to " + which
					for _, a := range vals(av) {
						for _, b := range vals(bv) {
							want := a
							if which == "B" {
								want = b
							}
							if tt[[3]int{op, a, b}] != want {
								sound = false
							}
						}
					}
				}
				if sound {
					run.OK("constprop-table", key, p.Rel(fn.Pos()), action)
				} else {
					run.Violate("constprop-table", key, p.Rel(fn.Pos()), "action `"+action+"` contradicts the truth table of "+opNames[op]+" for some completion of the unknown inputs", nil)
				}
				// rewiring
				g := gobj.V.(fpai.StructV)
				removed := false
				for i := 0; i < gs.NumFields(); i++ {
					if gs.Field(i).Name() == "Dead" {
						if bv, ok := g.F[i].(fpai.BoolV); ok && bv.Known && bv.B {
							removed = true
						}
					}
				}
				for i := 0; i < gs.NumFields(); i++ {
					if removed {
						// a gate the pass removes is neither numbered nor compiled: its inputs are read by nobody
						// (that it does not drive a circuit output is rule dead-gate-not-output)
						if n := gs.Field(i).Name(); n == "A" || n == "B" {
							run.OK("constprop-rewire", key+"/input "+n, p.Rel(fn.Pos()), "the gate is removed")
						}
						continue
					}
					name := gs.Field(i).Name()
					if name != "A" && name != "B" {
						continue
					}
					pv, ok := g.F[i].(fpai.PtrV)
					if !ok {
						continue
					}
					known := av
					if name == "B" {
						known = bv
					}
					want := map[int]*fpai.Obj{1: zero, 2: one}[known]
					orig := wa
					if name == "B" {
						orig = wb
					}
					rk := key + "/input " + name
					switch {
					case known == 0 && pv.O == orig, known != 0 && pv.O == want:
						run.OK("constprop-rewire", rk, p.Rel(fn.Pos()), "")
					default:
						run.Violate("constprop-rewire", rk, p.Rel(fn.Pos()), "input rewired to a wire that is not the constant wire of its value", nil)
					}
				}
			}
		}
	}
	run.Floor("constprop-cells", 39)
}
