package props

import (
	"golang.org/x/tools/go/ssa"

	"fmt"
	"go/ast"
	"go/token"
	"go/types"
	"mpcverif/internal/flow"
	"strings"

	"mpcverif/internal/dispatch"
	"mpcverif/internal/load"
	"mpcverif/internal/report"
)

func conjuncts(e ast.Expr, op token.Token) []string {
	e = ast.Unparen(e)
	if be, ok := e.(*ast.BinaryExpr); ok && be.Op == op {
		return append(conjuncts(be.X, op), conjuncts(be.Y, op)...)
	}
	if be, ok := e.(*ast.BinaryExpr); ok && (be.Op == token.EQL || be.Op == token.NEQ) {
		// a == b and b == a are the same condition
		x, y := types.ExprString(be.X), types.ExprString(be.Y)
		if y < x {
			x, y = y, x
		}
		return []string{x + " " + be.Op.String() + " " + y}
	}
	return []string{types.ExprString(e)}
}

// C09guards: the optimisation passes rewrite only under their guards; the wire bit fields are consistent; the GMW sort keeps levels.
func C09guards(p *load.Program, run *report.Run) {
	run.Rule("wire-bit-fields", "outputMask, valueMask and numMask of circuits.Wire are pairwise disjoint, cover 32 bits, valueMask is two bits at valueShift and numMask everything below")
	run.Rule("xor-zero-shortcut-guard", "every path of ShortCircuitXORZero to a ResetOutput call passes the true edge of a test that an input of the gate has the value Zero, the false edge of IsInput() on the redirected wire, and either the edge on which the redirected wire has exactly one consumer or — the other consumers being re-pointed — the edge on which the gate's output is not a circuit output")
	run.Rule("prune-guard", "Gate.Prune kills a gate only if it is not already dead, its output is not a circuit output and has no consumer")
	run.Rule("gmw-level-sort", "the GMW re-sort of the assigned gates is stable and orders by Level first, so no gate moves before a producer of its inputs")
	pkg := p.ByPath[load.Module+"/compiler/circuits"]
	if pkg == nil {
		return
	}
	// (a)
	om, ok1 := pkgConst(pkg, "outputMask")
	vm, ok2 := pkgConst(pkg, "valueMask")
	nm, ok3 := pkgConst(pkg, "numMask")
	vs, ok4 := pkgConst(pkg, "valueShift")
	switch {
	case !ok1 || !ok2 || !ok3 || !ok4:
		run.Undecided("wire-bit-fields", "compiler/circuits.Wire/masks", "", "constants not found")
	case om&vm != 0 || om&nm != 0 || vm&nm != 0 || om|vm|nm != 0xffffffff || vm != 3<<uint(vs) || nm != (1<<uint(vs))-1:
		run.Violate("wire-bit-fields", "compiler/circuits.Wire/masks", "", fmt.Sprintf("outputMask=%#x valueMask=%#x numMask=%#x valueShift=%d", om, vm, nm, vs), nil)
	default:
		run.OK("wire-bit-fields", "compiler/circuits.Wire/masks", "", fmt.Sprintf("1+2+%d bits", vs))
	}
	// (b) on the SSA form: what must lie on every path to a ResetOutput, wherever the tests are written
	if fnS, err := p.Method("compiler/circuits", "Compiler", "ShortCircuitXORZero"); err == nil {
		c09shortcut(p, run, fnS)
	} else {
		run.Undecided("xor-zero-shortcut-guard", "compiler/circuits.Compiler.ShortCircuitXORZero", "", err.Error())
	}
	if _, fd := dispatch.FindFunc(p, "compiler/circuits", "Compiler", "ShortCircuitXORZero"); fd != nil {
		// the pass touches XOR gates only
		onlyXor := false
		ast.Inspect(fd.Body, func(x ast.Node) bool {
			if ifs, ok := x.(*ast.IfStmt); ok && isOpNeq(ifs.Cond, "XOR") && len(effectiveQ(pkg.TypesInfo, ifs.Body.List)) == 1 {
				if b, ok := effectiveQ(pkg.TypesInfo, ifs.Body.List)[0].(*ast.BranchStmt); ok && b.Tok == token.CONTINUE {
					onlyXor = true
				}
			}
			return true
		})
		if onlyXor {
			run.OK("xor-zero-shortcut-guard", "compiler/circuits.Compiler.ShortCircuitXORZero/op", p.Rel(fd.Pos()), "XOR only")
		} else {
			run.Violate("xor-zero-shortcut-guard", "compiler/circuits.Compiler.ShortCircuitXORZero/op", p.Rel(fd.Pos()), "the pass is not restricted to XOR gates (x ^ 0 = x holds for XOR only)", nil)
		}
	}
	run.Floor("shortcut-sites", 1)
	// (c)
	if _, fd := dispatch.FindFunc(p, "compiler/circuits", "Gate", "Prune"); fd != nil {
		okGuard := false
		if len(fd.Body.List) > 0 {
			if ifs, ok := fd.Body.List[0].(*ast.IfStmt); ok {
				cs := map[string]bool{}
				for _, c := range conjuncts(ifs.Cond, token.LOR) {
					cs[normNames(fd, c)] = true
				}
				ret := false
				if len(ifs.Body.List) == 1 {
					if r, ok := ifs.Body.List[0].(*ast.ReturnStmt); ok && len(r.Results) == 1 && types.ExprString(r.Results[0]) == "false" {
						ret = true
					}
				}
				okGuard = ret && cs["recv.Dead"] && cs["recv.O.Output()"] && (cs["recv.O.NumOutputs() > 0"] || cs["0 < recv.O.NumOutputs()"])
			}
		}
		if okGuard {
			run.OK("prune-guard", "compiler/circuits.Gate.Prune", p.Rel(fd.Pos()), "dead || output || consumed -> keep")
		} else {
			run.Violate("prune-guard", "compiler/circuits.Gate.Prune", p.Rel(fd.Pos()), "a gate can be killed although it is a circuit output or still has consumers", nil)
		}
	}
	// (d)
	if _, fd := dispatch.FindFunc(p, "compiler/circuits", "Compiler", "Compile"); fd != nil {
		verdict := "no sort of the assigned gates found"
		okSort := false
		ast.Inspect(fd.Body, func(x ast.Node) bool {
			c, ok := x.(*ast.CallExpr)
			if !ok || !strings.HasPrefix(types.ExprString(c.Fun), "sort.") || len(c.Args) != 2 {
				return true
			}
			if types.ExprString(c.Fun) != "sort.SliceStable" {
				verdict = "the sort is not stable: gates of one level and kind change their relative order from run to run"
				return true
			}
			fl, ok := c.Args[1].(*ast.FuncLit)
			if !ok {
				verdict = "comparator is not a literal"
				return true
			}
			// first deciding statement: if a.Level != b.Level { return a.Level < b.Level }
			for _, s := range fl.Body.List {
				ifs, ok := s.(*ast.IfStmt)
				if !ok {
					if _, isAssign := s.(*ast.AssignStmt); isAssign {
						continue
					}
					verdict = "the comparator decides on something before the level"
					return true
				}
				cond, ok := ifs.Cond.(*ast.BinaryExpr)
				if ok && cond.Op == token.NEQ && strings.HasSuffix(types.ExprString(cond.X), ".Level") && strings.HasSuffix(types.ExprString(cond.Y), ".Level") && len(effectiveQ(pkg.TypesInfo, ifs.Body.List)) == 1 {
					if r, ok := effectiveQ(pkg.TypesInfo, ifs.Body.List)[0].(*ast.ReturnStmt); ok && len(r.Results) == 1 {
						if lt, ok := r.Results[0].(*ast.BinaryExpr); ok && lt.Op == token.LSS &&
							((types.ExprString(lt.X) == types.ExprString(cond.X) && types.ExprString(lt.Y) == types.ExprString(cond.Y)) ||
								(types.ExprString(lt.X) == types.ExprString(cond.Y) && types.ExprString(lt.Y) == types.ExprString(cond.X))) {
							okSort = true
						}
					}
				}
				if !okSort {
					verdict = "the comparator's first key is not `Level` ascending"
				}
				return true
			}
			return true
		})
		if okSort {
			run.OK("gmw-level-sort", "compiler/circuits.Compiler.Compile/sort", p.Rel(fd.Pos()), "sort.SliceStable by Level, then kind")
		} else {
			run.Violate("gmw-level-sort", "compiler/circuits.Compiler.Compile/sort", p.Rel(fd.Pos()), verdict, nil)
		}
	}
}

// isOpNeq matches `<x>.Op != <pkg>.<op>` (either operand order).
func isOpNeq(e ast.Expr, op string) bool {
	be, ok := ast.Unparen(e).(*ast.BinaryExpr)
	if !ok || be.Op != token.NEQ {
		return false
	}
	x, y := be.X, be.Y
	if !isSel(x, "Op") {
		x, y = y, x
	}
	if !isSel(x, "Op") {
		return false
	}
	switch t := ast.Unparen(y).(type) {
	case *ast.SelectorExpr:
		return t.Sel.Name == op
	case *ast.Ident:
		return t.Name == op
	}
	return false
}

// c09shortcut: the guards of the XOR-with-zero shortcut as edges that every path to the rewrite must take.
func c09shortcut(p *load.Program, run *report.Run, fn *ssa.Function) {
	const rule = "xor-zero-shortcut-guard"
	calleeName := func(v ssa.Value) (string, []ssa.Value) {
		c, ok := v.(*ssa.Call)
		if !ok || c.Call.StaticCallee() == nil {
			return "", nil
		}
		return c.Call.StaticCallee().Name(), c.Call.Args
	}
	// edges
	zeroEdges := map[[2]int]bool{}
	oneConsumer := map[[2]int]bool{}
	notOutput := map[[2]int]bool{}
	notInput := map[ssa.Value]map[[2]int]bool{} // wire value -> edges on which it is not a circuit input
	zeroK, okZ := pkgConstIn(p, "compiler/circuits", "Zero")
	if !okZ {
		run.Undecided(rule, "compiler/circuits.Zero", "", "constant not found")
		return
	}
	for _, b := range fn.Blocks {
		iff, ok := b.Instrs[len(b.Instrs)-1].(*ssa.If)
		if !ok {
			continue
		}
		cond := iff.Cond
		neg := false
		for {
			if u, ok := cond.(*ssa.UnOp); ok && u.Op == token.NOT {
				cond, neg = u.X, !neg
				continue
			}
			break
		}
		edge := func(whenTrue bool) [2]int {
			if whenTrue != neg {
				return [2]int{b.Index, 0}
			}
			return [2]int{b.Index, 1}
		}
		if bo, ok := cond.(*ssa.BinOp); ok && (bo.Op == token.EQL || bo.Op == token.NEQ) {
			for _, side := range [][2]ssa.Value{{bo.X, bo.Y}, {bo.Y, bo.X}} {
				name, _ := calleeName(side[0])
				k, isK := side[1].(*ssa.Const)
				if !isK || k.Value == nil {
					continue
				}
				switch {
				case name == "Value" && k.Int64() == zeroK:
					zeroEdges[edge(bo.Op == token.EQL)] = true
				case name == "NumOutputs" && k.Int64() == 1:
					oneConsumer[edge(bo.Op == token.EQL)] = true
				}
			}
			continue
		}
		name, args := calleeName(cond)
		switch name {
		case "IsInput":
			if len(args) == 1 {
				if notInput[args[0]] == nil {
					notInput[args[0]] = map[[2]int]bool{}
				}
				notInput[args[0]][edge(false)] = true
			}
		case "Output":
			notOutput[edge(false)] = true
		}
	}
	sites := 0
	for _, b := range fn.Blocks {
		for _, ins := range b.Instrs {
			c, ok := ins.(*ssa.Call)
			if !ok || c.Call.StaticCallee() == nil || c.Call.StaticCallee().Name() != "ResetOutput" || len(c.Call.Args) < 1 {
				continue
			}
			sites++
			run.Count("shortcut-sites", 1)
			key := fmt.Sprintf("compiler/circuits.Compiler.ShortCircuitXORZero/rewrite#%d", sites)
			// the redirected wire: ResetOutput is called on wire.Input()
			var wire ssa.Value
			recv := c.Call.Args[0]
			for d := 0; d < 4 && wire == nil; d++ {
				switch t := recv.(type) {
				case *ssa.Call:
					if t.Call.StaticCallee() != nil && t.Call.StaticCallee().Name() == "Input" && len(t.Call.Args) == 1 {
						wire = t.Call.Args[0]
					} else {
						d = 4
					}
				case *ssa.Phi:
					// one driver variable for both inputs
					if len(t.Edges) > 0 {
						recv = t.Edges[0]
					}
				default:
					d = 4
				}
			}
			missing := ""
			if flow.ReachableWithoutEdges(fn, zeroEdges, b) {
				missing = "a test that an input of the gate is the constant zero"
			}
			if missing == "" {
				okIn := false
				for w, edges := range notInput {
					if wire != nil && !sameWireValue(w, wire) {
						continue
					}
					if !flow.ReachableWithoutEdges(fn, edges, b) {
						okIn = true
					}
				}
				if !okIn {
					missing = "a test that the redirected wire is not a circuit input"
				}
			}
			if missing == "" {
				alt := map[[2]int]bool{}
				for e := range oneConsumer {
					alt[e] = true
				}
				for e := range notOutput {
					alt[e] = true
				}
				if flow.ReachableWithoutEdges(fn, alt, b) {
					missing = "a test that the redirected wire has exactly one consumer, or (its other consumers being re-pointed to the gate's output) that the gate's output is not a circuit output"
				}
			}
			if missing != "" {
				run.Violate(rule, key, p.Rel(c.Pos()), "the rewrite can be reached without "+missing, nil)
			} else {
				run.OK(rule, key, p.Rel(c.Pos()), "zero input, not a circuit input, single consumer or re-pointed away from a circuit output")
			}
		}
	}
	if sites == 0 {
		run.Undecided(rule, "compiler/circuits.Compiler.ShortCircuitXORZero", p.Rel(fn.Pos()), "no ResetOutput call found")
	}
}

// sameWireValue: the two values are one SSA value, or loads of the same field of the same object.
func sameWireValue(a, b ssa.Value) bool {
	if a == b {
		return true
	}
	la, ok1 := a.(*ssa.UnOp)
	lb, ok2 := b.(*ssa.UnOp)
	if !ok1 || !ok2 || la.Op != token.MUL || lb.Op != token.MUL {
		return false
	}
	if la.X == lb.X {
		return true // two reads of one variable (a captured local lives in a cell)
	}
	fa, ok1 := la.X.(*ssa.FieldAddr)
	fb, ok2 := lb.X.(*ssa.FieldAddr)
	return ok1 && ok2 && fa.X == fb.X && fa.Field == fb.Field
}
