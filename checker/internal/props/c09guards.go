package props

import (
	"fmt"
	"go/ast"
	"go/token"
	"go/types"
	"strings"

	"mpcverif/internal/dispatch"
	"mpcverif/internal/load"
	"mpcverif/internal/report"
)

func conjuncts(e ast.Expr, op token.Token) []string {
	e = ast.Unparen(e)
	if be, ok := e.(*ast.BinaryExpr); ok && be.Op == op {
		return append(conjuncts(be.X, op), conjuncts(be.Y, op)...)
	}
	if be, ok := e.(*ast.BinaryExpr); ok && (be.Op == token.EQL || be.Op == token.NEQ) {
		// a == b and b == a are the same condition
		x, y := types.ExprString(be.X), types.ExprString(be.Y)
		if y < x {
			x, y = y, x
		}
		return []string{x + " " + be.Op.String() + " " + y}
	}
	return []string{types.ExprString(e)}
}

// C09guards: the optimisation passes rewrite only under their guards; the wire bit fields are consistent; the GMW sort keeps levels.
func C09guards(p *load.Program, run *report.Run) {
	run.Rule("wire-bit-fields", "outputMask, valueMask and numMask of circuits.Wire are pairwise disjoint, cover 32 bits, valueMask is two bits at valueShift and numMask everything below")
	run.Rule("xor-zero-shortcut-guard", "ShortCircuitXORZero redirects the producer of one input to the gate's output only if the other input is the constant zero, the redirected wire is not a circuit input and has exactly one consumer")
	run.Rule("prune-guard", "Gate.Prune kills a gate only if it is not already dead, its output is not a circuit output and has no consumer")
	run.Rule("gmw-level-sort", "the GMW re-sort of the assigned gates is stable and orders by Level first, so no gate moves before a producer of its inputs")
	pkg := p.ByPath[load.Module+"/compiler/circuits"]
	if pkg == nil {
		return
	}
	// (a)
	om, ok1 := pkgConst(pkg, "outputMask")
	vm, ok2 := pkgConst(pkg, "valueMask")
	nm, ok3 := pkgConst(pkg, "numMask")
	vs, ok4 := pkgConst(pkg, "valueShift")
	switch {
	case !ok1 || !ok2 || !ok3 || !ok4:
		run.Undecided("wire-bit-fields", "compiler/circuits.Wire/masks", "", "constants not found")
	case om&vm != 0 || om&nm != 0 || vm&nm != 0 || om|vm|nm != 0xffffffff || vm != 3<<uint(vs) || nm != (1<<uint(vs))-1:
		run.Violate("wire-bit-fields", "compiler/circuits.Wire/masks", "", fmt.Sprintf("outputMask=%#x valueMask=%#x numMask=%#x valueShift=%d", om, vm, nm, vs), nil)
	default:
		run.OK("wire-bit-fields", "compiler/circuits.Wire/masks", "", fmt.Sprintf("1+2+%d bits", vs))
	}
	// (b)
	if _, fd := dispatch.FindFunc(p, "compiler/circuits", "Compiler", "ShortCircuitXORZero"); fd != nil {
		n := 0
		ast.Inspect(fd.Body, func(x ast.Node) bool {
			ifs, ok := x.(*ast.IfStmt)
			if !ok {
				return true
			}
			var reset *ast.CallExpr
			for _, s := range ifs.Body.List {
				if es, ok := s.(*ast.ExprStmt); ok {
					if c, ok := es.X.(*ast.CallExpr); ok {
						if _, name, _ := callName(c); name == "ResetOutput" {
							reset = c
						}
					}
				}
			}
			if reset == nil {
				return true
			}
			n++
			run.Count("shortcut-sites", 1)
			// which input is redirected: g.B.Input().ResetOutput(...) -> "g.B"
			moved := strings.TrimSuffix(types.ExprString(reset.Fun), ".Input().ResetOutput")
			other := "g.A"
			if moved == "g.A" {
				other = "g.B"
			}
			cs := map[string]bool{}
			for _, c := range conjuncts(ifs.Cond, token.LAND) {
				cs[c] = true
			}
			key := fmt.Sprintf("compiler/circuits.Compiler.ShortCircuitXORZero/%s", moved)
			need := []string{"Zero == " + other + ".Value()", "!" + moved + ".IsInput()", "1 == " + moved + ".Input().O.NumOutputs()"}
			missing := ""
			for _, c := range need {
				if !cs[c] {
					missing = c
				}
			}
			if missing != "" {
				run.Violate("xor-zero-shortcut-guard", key, p.Rel(ifs.Pos()), "the rewrite is not guarded by "+missing, nil)
			} else {
				run.OK("xor-zero-shortcut-guard", key, p.Rel(ifs.Pos()), strings.Join(need, " && "))
			}
			return true
		})
		// the pass touches XOR gates only
		onlyXor := false
		ast.Inspect(fd.Body, func(x ast.Node) bool {
			if ifs, ok := x.(*ast.IfStmt); ok && isOpNeq(ifs.Cond, "XOR") && len(effectiveQ(pkg.TypesInfo, ifs.Body.List)) == 1 {
				if b, ok := effectiveQ(pkg.TypesInfo, ifs.Body.List)[0].(*ast.BranchStmt); ok && b.Tok == token.CONTINUE {
					onlyXor = true
				}
			}
			return true
		})
		if onlyXor {
			run.OK("xor-zero-shortcut-guard", "compiler/circuits.Compiler.ShortCircuitXORZero/op", p.Rel(fd.Pos()), "XOR only")
		} else {
			run.Violate("xor-zero-shortcut-guard", "compiler/circuits.Compiler.ShortCircuitXORZero/op", p.Rel(fd.Pos()), "the pass is not restricted to XOR gates (x ^ 0 = x holds for XOR only)", nil)
		}
	}
	run.Floor("shortcut-sites", 2)
	// (c)
	if _, fd := dispatch.FindFunc(p, "compiler/circuits", "Gate", "Prune"); fd != nil {
		okGuard := false
		if len(fd.Body.List) > 0 {
			if ifs, ok := fd.Body.List[0].(*ast.IfStmt); ok {
				cs := map[string]bool{}
				for _, c := range conjuncts(ifs.Cond, token.LOR) {
					cs[normNames(fd, c)] = true
				}
				ret := false
				if len(ifs.Body.List) == 1 {
					if r, ok := ifs.Body.List[0].(*ast.ReturnStmt); ok && len(r.Results) == 1 && types.ExprString(r.Results[0]) == "false" {
						ret = true
					}
				}
				okGuard = ret && cs["recv.Dead"] && cs["recv.O.Output()"] && (cs["recv.O.NumOutputs() > 0"] || cs["0 < recv.O.NumOutputs()"])
			}
		}
		if okGuard {
			run.OK("prune-guard", "compiler/circuits.Gate.Prune", p.Rel(fd.Pos()), "dead || output || consumed -> keep")
		} else {
			run.Violate("prune-guard", "compiler/circuits.Gate.Prune", p.Rel(fd.Pos()), "a gate can be killed although it is a circuit output or still has consumers", nil)
		}
	}
	// (d)
	if _, fd := dispatch.FindFunc(p, "compiler/circuits", "Compiler", "Compile"); fd != nil {
		verdict := "no sort of the assigned gates found"
		okSort := false
		ast.Inspect(fd.Body, func(x ast.Node) bool {
			c, ok := x.(*ast.CallExpr)
			if !ok || !strings.HasPrefix(types.ExprString(c.Fun), "sort.") || len(c.Args) != 2 {
				return true
			}
			if types.ExprString(c.Fun) != "sort.SliceStable" {
				verdict = "the sort is not stable: gates of one level and kind change their relative order from run to run"
				return true
			}
			fl, ok := c.Args[1].(*ast.FuncLit)
			if !ok {
				verdict = "comparator is not a literal"
				return true
			}
			// first deciding statement: if a.Level != b.Level { return a.Level < b.Level }
			for _, s := range fl.Body.List {
				ifs, ok := s.(*ast.IfStmt)
				if !ok {
					if _, isAssign := s.(*ast.AssignStmt); isAssign {
						continue
					}
					verdict = "the comparator decides on something before the level"
					return true
				}
				cond, ok := ifs.Cond.(*ast.BinaryExpr)
				if ok && cond.Op == token.NEQ && strings.HasSuffix(types.ExprString(cond.X), ".Level") && strings.HasSuffix(types.ExprString(cond.Y), ".Level") && len(effectiveQ(pkg.TypesInfo, ifs.Body.List)) == 1 {
					if r, ok := effectiveQ(pkg.TypesInfo, ifs.Body.List)[0].(*ast.ReturnStmt); ok && len(r.Results) == 1 {
						if lt, ok := r.Results[0].(*ast.BinaryExpr); ok && lt.Op == token.LSS &&
							((types.ExprString(lt.X) == types.ExprString(cond.X) && types.ExprString(lt.Y) == types.ExprString(cond.Y)) ||
								(types.ExprString(lt.X) == types.ExprString(cond.Y) && types.ExprString(lt.Y) == types.ExprString(cond.X))) {
							okSort = true
						}
					}
				}
				if !okSort {
					verdict = "the comparator's first key is not `Level` ascending"
				}
				return true
			}
			return true
		})
		if okSort {
			run.OK("gmw-level-sort", "compiler/circuits.Compiler.Compile/sort", p.Rel(fd.Pos()), "sort.SliceStable by Level, then kind")
		} else {
			run.Violate("gmw-level-sort", "compiler/circuits.Compiler.Compile/sort", p.Rel(fd.Pos()), verdict, nil)
		}
	}
}

// isOpNeq matches `<x>.Op != <pkg>.<op>` (either operand order).
func isOpNeq(e ast.Expr, op string) bool {
	be, ok := ast.Unparen(e).(*ast.BinaryExpr)
	if !ok || be.Op != token.NEQ {
		return false
	}
	x, y := be.X, be.Y
	if !isSel(x, "Op") {
		x, y = y, x
	}
	if !isSel(x, "Op") {
		return false
	}
	switch t := ast.Unparen(y).(type) {
	case *ast.SelectorExpr:
		return t.Sel.Name == op
	case *ast.Ident:
		return t.Name == op
	}
	return false
}
