package props

import (
	"go/ast"
	"go/types"
	"sort"
	"strings"

	"golang.org/x/tools/go/packages"

	"mpcverif/internal/dispatch"
	"mpcverif/internal/load"
	"mpcverif/internal/report"
)

// C09narrow: the circuit generators never decide on a machine-word view of a data operand.
//
// MPCL integers have any width; a constant operand is an mpa.Int.  Value.ConstInt() returns it as
// types.Size (an int32) and mpa.Int.Int64/Uint64 as 64 bits: views that are exact only for operands that
// are positions by construction — shift counts, slice bounds, indices, lengths — which the front end has
// already bounded by the operand's own width.  A generator arm of a *value* operation (add, multiply,
// divide, compare, and, or ...) that looks at such a view decides from the low bits of the constant: a
// strength reduction that tests "divisor is a power of two" on ConstInt() fires for 2^32+2^k.  The arms
// that may narrow are a frozen table read off today's generators; every other arm of the op switch of
// Program.Circuit and Program.StreamCircuit, with the package's helpers it calls, must not reach a
// narrowing accessor.
func C09narrow(p *load.Program, run *report.Run) {
	const rule = "value-operand-not-narrowed"
	// position ops: the operand narrowed is a count, an offset, an index or a length
	positional := map[string]string{
		"Lshift": "shift count", "Rshift": "shift count", "Srshift": "shift count",
		"Slice": "bit range", "Index": "element index", "Amov": "bit range", "Ptr": "offset",
		"Smov": "bit range", "Bts": "bit index", "Btc": "bit index",
	}
	run.Rule(rule, "in every arm of the `switch instr.Op` of (*Program).Circuit and of the streaming generator in compiler/ssa, except the arms of the position operations "+strings.Join(sortedKeys(positional), ", ")+": no call, directly or through functions of compiler/ssa called from the arm (two levels), to (*ssa.Value).ConstInt, (*mpa.Int).Int64/Uint64 or (*big.Int).Int64/Uint64")
	pkg := p.ByPath[load.Module+"/compiler/ssa"]
	if pkg == nil {
		run.Undecided(rule, "compiler/ssa", "", "package not loaded")
		return
	}
	narrow := func(fn *types.Func) bool {
		full := fn.FullName()
		switch {
		case strings.HasSuffix(full, "compiler/ssa.Value).ConstInt"),
			strings.HasSuffix(full, "compiler/mpa.Int).Int64"), strings.HasSuffix(full, "compiler/mpa.Int).Uint64"),
			full == "(*math/big.Int).Int64", full == "(*math/big.Int).Uint64":
			return true
		}
		return false
	}
	// make sure the declaration index is built
	var anyFd *ast.FuncDecl
	for _, f := range pkg.Syntax {
		for _, d := range f.Decls {
			if fd, ok := d.(*ast.FuncDecl); ok && fd.Body != nil && anyFd == nil {
				anyFd = fd
			}
		}
	}
	calleeDecls(p, pkg, anyFd, 1)
	var reach func(pk *packages.Package, n ast.Node, depth int, seen map[*ast.FuncDecl]bool) string
	reach = func(pk *packages.Package, n ast.Node, depth int, seen map[*ast.FuncDecl]bool) string {
		found := ""
		ast.Inspect(n, func(m ast.Node) bool {
			if found != "" {
				return false
			}
			c, ok := m.(*ast.CallExpr)
			if !ok {
				return true
			}
			var id *ast.Ident
			switch f := ast.Unparen(c.Fun).(type) {
			case *ast.Ident:
				id = f
			case *ast.SelectorExpr:
				id = f.Sel
			}
			if id == nil {
				return true
			}
			fn, ok := pk.TypesInfo.Uses[id].(*types.Func)
			if !ok {
				return true
			}
			if narrow(fn) {
				found = fn.Name() + " at " + p.Rel(c.Pos())
				return false
			}
			if ref, ok := declIndex[fn]; ok && ref.pkg == pkg && depth < 2 && !seen[ref.fd] {
				seen[ref.fd] = true
				if r := reach(ref.pkg, ref.fd.Body, depth+1, seen); r != "" {
					found = r + " (through " + fn.Name() + ")"
				}
			}
			return true
		})
		return found
	}
	switches := 0
	for _, f := range pkg.Syntax {
		for _, d := range f.Decls {
			fd, ok := d.(*ast.FuncDecl)
			if !ok || fd.Body == nil || strings.HasSuffix(p.Fset.Position(fd.Pos()).Filename, "_test.go") {
				continue
			}
			arms, sw := dispatch.SwitchArms(p, pkg, fd, "instr.Op")
			if sw == nil || len(arms) < 8 {
				continue
			}
			switches++
			for _, a := range arms {
				pos := false
				for _, c := range a.Consts {
					if _, ok := positional[c]; ok {
						pos = true
					}
				}
				key := fd.Name.Name + "/" + strings.Join(a.Consts, ",")
				cc := a.Node.(*ast.CaseClause)
				if pos {
					continue
				}
				run.Count("value-op-arms", 1)
				where := ""
				for _, st := range cc.Body {
					if r := reach(pkg, st, 0, map[*ast.FuncDecl]bool{}); r != "" {
						where = r
						break
					}
				}
				if where != "" {
					run.Violate(rule, key, p.Rel(cc.Pos()), "the generator arm of "+strings.Join(a.Consts, ", ")+" reaches the machine-word view "+where+": the operand of a value operation has any width, and a decision taken on its low 32 or 64 bits is wrong for constants beyond them", nil)
				} else {
					run.OK(rule, key, p.Rel(cc.Pos()), "no narrowing accessor reached")
				}
			}
		}
	}
	run.Count("op-switches", switches)
	run.Floor("op-switches", 2)
	run.Floor("value-op-arms", 30)
}

func sortedKeys(m map[string]string) []string {
	var out []string
	for k := range m {
		out = append(out, k)
	}
	sort.Strings(out)
	return out
}
