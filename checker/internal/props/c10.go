package props

import (
	"fmt"
	"go/types"

	"golang.org/x/tools/go/ssa"

	"mpcverif/internal/fpai"
	"mpcverif/internal/load"
	"mpcverif/internal/report"
)

// C10local decides the local (linear) gate rules of the GMW evaluation:
// every party XORs its shares, and exactly one party adds the gate's constant.
func C10local(p *load.Program, run *report.Run) {
	run.Rule("gmw-linear-gates", "for XOR, XNOR, INV the local rule is share-linear and the constant term is added by party 0 only and equals the gate's constant (from Compute's truth table)")
	tt, err := truthTables(p, run)
	if err != nil {
		run.Undecided("gmw-linear-gates", "circuit.Circuit.Compute", "", err.Error())
		return
	}
	fn, err := p.Method("gmw", "Network", "run")
	if err != nil {
		run.Undecided("gmw-linear-gates", "gmw.Network.run", "", err.Error())
		return
	}
	gateT, _ := p.Type("circuit", "Gate")
	peerT, _ := p.Type("gmw", "Peer")
	netT, _ := p.Type("gmw", "Network")
	// the loop over rest[i]: the innermost loop that reads a wire share with (*big.Int).Bit
	bitCall := fpai.FindInstr(fn, func(i ssa.Instruction) bool {
		c, ok := i.(*ssa.Call)
		return ok && c.Call.StaticCallee() != nil && c.Call.StaticCallee().String() == "(*math/big.Int).Bit"
	})
	if bitCall == nil {
		run.Undecided("gmw-linear-gates", "gmw.Network.run", p.Rel(fn.Pos()), "share read not found")
		return
	}
	loop, ok := fpai.EnclosingLoop(bitCall.Block())
	if !ok {
		run.Undecided("gmw-linear-gates", "gmw.Network.run", p.Rel(fn.Pos()), "share read not in a loop")
		return
	}
	free := fpai.FreeValues(loop)
	eval := func(op int, leader bool, a, b int) (int, error) {
		in := fpai.New(load.Module)
		shares := map[string]int{"in0": a, "in1": b}
		out := -1
		in.Models["(*math/big.Int).Bit"] = func(in *fpai.Interp, args []fpai.Val, _ ssa.CallInstruction) (fpai.Val, error) {
			idx, ok := args[1].(fpai.IntV)
			if !ok {
				return nil, fmt.Errorf("share index %T", args[1])
			}
			v, ok := shares[idx.Sym]
			if !ok {
				return nil, fmt.Errorf("read of share %s", idx)
			}
			return fpai.IntV{K: int64(v)}, nil
		}
		in.Models["(*math/big.Int).SetBit"] = func(in *fpai.Interp, args []fpai.Val, _ ssa.CallInstruction) (fpai.Val, error) {
			idx, ok1 := args[2].(fpai.IntV)
			bit, ok2 := args[3].(fpai.IntV)
			if !ok1 || !ok2 || idx.Sym != "out" || !bit.Const() {
				return nil, fmt.Errorf("unexpected share write %v := %v", args[2], args[3])
			}
			out = int(bit.K)
			return args[0], nil
		}
		in.Models["fmt.Errorf"] = func(in *fpai.Interp, a []fpai.Val, _ ssa.CallInstruction) (fpai.Val, error) {
			return fpai.ErrV{Msg: "errorf"}, nil
		}
		gate := &fpai.Obj{V: fpai.StructV{F: []fpai.Val{fpai.IntV{Sym: "in0"}, fpai.IntV{Sym: "in1"}, fpai.IntV{Sym: "out"}, fpai.IntV{K: int64(op)}, fpai.IntV{}}}}
		peer := fpai.ZeroVal(peerT).(fpai.StructV)
		ps := peerT.Underlying().(*types.Struct)
		for i := 0; i < ps.NumFields(); i++ {
			if ps.Field(i).Name() == "id" {
				if leader {
					peer.F[i] = fpai.IntV{K: 0}
				} else {
					peer.F[i] = fpai.IntV{K: 1}
				}
			}
		}
		peerObj := &fpai.Obj{V: peer}
		net := fpai.ZeroVal(netT).(fpai.StructV)
		ns := netT.Underlying().(*types.Struct)
		for i := 0; i < ns.NumFields(); i++ {
			switch ns.Field(i).Name() {
			case "wires":
				net.F[i] = fpai.PtrV{O: &fpai.Obj{V: fpai.OpaqueV{Name: "wires"}}}
			case "self":
				net.F[i] = fpai.PtrV{O: peerObj}
			}
		}
		env := map[ssa.Value]fpai.Val{}
		// bindFor: the abstract value of a free variable of the region, by its type; a variable that a closure
		// captures lives in a cell (a pointer to its type), which holds the same value
		var bindFor func(t types.Type, name string, depth int) fpai.Val
		bindFor = func(t types.Type, name string, depth int) fpai.Val {
			switch {
			case types.Identical(t, types.NewSlice(types.NewPointer(gateT))):
				return &fpai.SymSlice{Name: "gates", M: map[string]*fpai.Obj{"0": {V: fpai.PtrV{O: gate}}}, Len: fpai.IntV{K: 1}}
			case types.Identical(t, types.NewPointer(netT)):
				return fpai.PtrV{O: &fpai.Obj{V: net}}
			case types.Identical(t, types.NewPointer(peerT)):
				return fpai.PtrV{O: peerObj}
			}
			if bt, ok := t.Underlying().(*types.Basic); ok && bt.Info()&types.IsInteger != 0 {
				return fpai.IntV{K: 0}
			}
			if pt, ok := t.Underlying().(*types.Pointer); ok && depth < 2 {
				if inner := bindFor(pt.Elem(), name, depth+1); inner != nil {
					if _, opaque := inner.(fpai.OpaqueV); !opaque {
						return fpai.PtrV{O: &fpai.Obj{V: inner}}
					}
				}
			}
			return fpai.OpaqueV{Name: name}
		}
		for _, v := range free {
			env[v] = bindFor(v.Type(), v.Name(), 0)
		}
		ret, _, err := in.RunRegion(fn, loop.Body, loop.Header, env, func(from, to *ssa.BasicBlock) bool { return to == loop.Header })
		if err != nil {
			return 0, err
		}
		if _, ok := ret.(fpai.RegionExit); !ok {
			return 0, fmt.Errorf("the gate is rejected (%v)", ret)
		}
		if out < 0 {
			return 0, fmt.Errorf("no share written")
		}
		return out, nil
	}
	for _, op := range []int{0, 1, 4} {
		key := "gmw.Network.run/" + opNames[op]
		consts := map[bool]int{}
		okAll := true
		for _, leader := range []bool{true, false} {
			base, err := eval(op, leader, 0, 0)
			run.Count("gmw-cells", 1)
			if err != nil {
				run.Undecided("gmw-linear-gates", key, p.Rel(fn.Pos()), err.Error())
				okAll = false
				continue
			}
			consts[leader] = base
			for a := 0; a < 2; a++ {
				for b := 0; b < 2; b++ {
					if op == 4 && b == 1 {
						continue
					}
					v, err := eval(op, leader, a, b)
					run.Count("gmw-cells", 1)
					lin := a ^ b
					if op == 4 {
						lin = a
					}
					if err != nil || v != base^lin {
						run.Violate("gmw-linear-gates", fmt.Sprintf("%s/leader=%v/a=%d,b=%d", key, leader, a, b), p.Rel(fn.Pos()),
							fmt.Sprintf("local share %v (err %v) is not base^%d", v, err, lin), nil)
						okAll = false
					}
				}
			}
		}
		if !okAll {
			continue
		}
		want := tt[[3]int{op, 0, 0}]
		switch {
		case consts[false] != 0:
			run.Violate("gmw-linear-gates", key+"/constant", p.Rel(fn.Pos()), "a party other than party 0 adds a constant: with n parties it is added n-1 times", nil)
		case consts[true] != want:
			run.Violate("gmw-linear-gates", key+"/constant", p.Rel(fn.Pos()), fmt.Sprintf("party 0 adds constant %d but %s(0,0) = %d", consts[true], opNames[op], want), nil)
		default:
			run.OK("gmw-linear-gates", key, p.Rel(fn.Pos()), fmt.Sprintf("linear; constant %d added by party 0 only", want))
		}
	}
	run.Floor("gmw-cells", 20)
}
