package props

import (
	"fmt"
	"go/ast"
	"go/token"
	"sort"
	"strings"

	"mpcverif/internal/dispatch"
	"mpcverif/internal/load"
	"mpcverif/internal/report"
)

// gpoly is a polynomial over GF(2) with idempotent variables: a set of monomials, each a sorted "," joined variable list.
type gpoly map[string]bool

func gvar(v string) gpoly { return gpoly{v: true} }
func gone() gpoly         { return gpoly{"": true} }

func (a gpoly) xor(b gpoly) gpoly {
	r := gpoly{}
	for m := range a {
		r[m] = true
	}
	for m := range b {
		if r[m] {
			delete(r, m)
		} else {
			r[m] = true
		}
	}
	return r
}

func (a gpoly) and(b gpoly) gpoly {
	r := gpoly{}
	for m1 := range a {
		for m2 := range b {
			set := map[string]bool{}
			for _, v := range strings.Split(m1, ",") {
				if v != "" {
					set[v] = true
				}
			}
			for _, v := range strings.Split(m2, ",") {
				if v != "" {
					set[v] = true
				}
			}
			var vs []string
			for v := range set {
				vs = append(vs, v)
			}
			sort.Strings(vs)
			m := strings.Join(vs, ",")
			if r[m] {
				delete(r, m)
			} else {
				r[m] = true
			}
		}
	}
	return r
}

func (a gpoly) String() string {
	var ms []string
	for m := range a {
		if m == "" {
			m = "1"
		}
		ms = append(ms, strings.ReplaceAll(m, ",", "·"))
	}
	sort.Strings(ms)
	if len(ms) == 0 {
		return "0"
	}
	return strings.Join(ms, " ^ ")
}

// gpolyExpr evaluates an expression built from ^ and & over leaves bound by text.
func gpolyExpr(e ast.Expr, leaf func(string) (gpoly, bool)) (gpoly, error) {
	e = ast.Unparen(e)
	switch e.(type) {
	case *ast.IndexExpr, *ast.Ident, *ast.SelectorExpr:
		if v, ok := leaf(cx(e)); ok {
			return v, nil
		}
	}
	if be, ok := e.(*ast.BinaryExpr); ok {
		x, err := gpolyExpr(be.X, leaf)
		if err != nil {
			return nil, err
		}
		y, err := gpolyExpr(be.Y, leaf)
		if err != nil {
			return nil, err
		}
		switch be.Op {
		case token.XOR:
			return x.xor(y), nil
		case token.AND:
			return x.and(y), nil
		}
	}
	return nil, fmt.Errorf("cannot interpret %s over GF(2)", cx(e))
}

// C10beaver: the local AND rule of GMW is the Beaver identity.
func C10beaver(p *load.Program, run *report.Run) {
	canonFor(p)
	run.Rule("beaver-identity", "with d and e opened as the XOR of every party's x_i^a_i and y_i^b_i, the XOR over all parties of the local result of andBatchFlush equals (XOR x_i)&(XOR y_i) for every assignment of the shares, given a valid triple XOR c_i = (XOR a_i)&(XOR b_i) — a polynomial identity over GF(2), checked for 2, 3 and 4 parties")
	pkg := p.ByPath[load.Module+"/gmw"]
	_, fd := dispatch.FindFunc(p, "gmw", "Network", "andBatchFlush")
	if fd == nil || pkg == nil {
		run.Undecided("beaver-identity", "gmw.Network.andBatchFlush", "", "function not found")
		return
	}
	key := "gmw.Network.andBatchFlush"
	for _, n := range partyCounts() {
		run.Count("party-counts", 1)
		k := fmt.Sprintf("%s/parties=%d", key, n)
		sum := func(prefix string) gpoly {
			r := gpoly{}
			for i := 0; i < n; i++ {
				r = r.xor(gvar(fmt.Sprintf("%s%d", prefix, i)))
			}
			return r
		}
		c0 := sum("a").and(sum("b"))
		for i := 1; i < n; i++ {
			c0 = c0.xor(gvar(fmt.Sprintf("c%d", i)))
		}
		var ds, es, zs []gpoly
		fail := ""
		for i := 0; i < n; i++ {
			i := i
			t := &tripleParty{prog: p, pkg: pkg, self: i, n: n, env: map[string]gpoly{}, sent: map[int][]gpoly{}, nrecv: map[int]int{}, final: map[string]gpoly{}}
			var d, e, z gpoly
			t.leafHook = func(s string) (gpoly, bool) {
				switch {
				case strings.HasPrefix(s, "nw.triples.A"):
					return gvar(fmt.Sprintf("a%d", i)), true
				case strings.HasPrefix(s, "nw.triples.B"):
					return gvar(fmt.Sprintf("b%d", i)), true
				case strings.HasPrefix(s, "nw.triples.C"):
					if i == 0 {
						return c0, true
					}
					return gvar(fmt.Sprintf("c%d", i)), true
				}
				return nil, false
			}
			t.valHook = func(c *ast.CallExpr) (gpoly, bool) {
				recv, name, _ := callName(c)
				switch {
				case name == "Bit" && strings.HasSuffix(recv, "wires"):
					arg := cx(c.Args[0])
					if strings.Contains(arg, "Input0") {
						return gvar(fmt.Sprintf("x%d", i)), true
					}
					if strings.Contains(arg, "Input1") {
						return gvar(fmt.Sprintf("y%d", i)), true
					}
				case name == "expandClear":
					return gpoly{}, true
				case name == "bit":
					if v, ok := t.env[baseName(c.Args[0])]; ok {
						return v, true
					}
				}
				return nil, false
			}
			t.callHook = func(recv, name string, c *ast.CallExpr, lhs []ast.Expr) bool {
				switch {
				case name == "broadcastXORs":
					d, e = t.env[baseName(c.Args[0])], t.env[baseName(c.Args[1])]
					if len(lhs) >= 2 {
						t.env[cx(lhs[0])] = gvar("DOPEN")
						t.env[cx(lhs[1])] = gvar("EOPEN")
					}
					return true
				case name == "SetBit" && strings.HasSuffix(recv, "wires"):
					// the output share of the gate
					z = t.poly(c.Args[2])
					return true
				case name == "Bit" || name == "expandClear":
					if len(lhs) == 1 {
						if v, ok := t.valHook(c); ok {
							t.env[cx(lhs[0])] = v
						}
					}
					return true
				case name == "Get" || name == "Clear" || name == "debugf":
					return true
				}
				return false
			}
			t.condHook = func(e ast.Expr) (bool, bool) {
				cs := cx(e)
				switch {
				case strings.Contains(cs, "self.id"):
					m := &miniEval{pkg: pkg, env: miniEnv{"self.id": int64(i)}}
					return m.boolOf(e)
				case strings.Contains(cs, "len(batch) == 0"), strings.Contains(cs, "< words"), strings.Contains(cs, "> nw.andBatchMax"):
					return false, true
				case strings.Contains(cs, "len(batch)"), strings.Contains(cs, "% 64"), strings.Contains(cs, "%64"):
					// one representative bit of one full word
					return true, true
				}
				return false, false
			}
			t.stmts(fd.Body.List)
			switch {
			case t.fail != "":
				fail = fmt.Sprintf("party %d: %s", i, t.fail)
			case d == nil || e == nil:
				fail = fmt.Sprintf("party %d: the masked differences are not opened with broadcastXORs", i)
			case z == nil:
				fail = fmt.Sprintf("party %d: no output share is stored", i)
			}
			if fail != "" {
				break
			}
			ds, es, zs = append(ds, d), append(es, e), append(zs, z)
		}
		if fail != "" {
			run.Undecided("beaver-identity", k, p.Rel(fd.Pos()), fail)
			continue
		}
		dOpen, eOpen, z := gpoly{}, gpoly{}, gpoly{}
		for i := range ds {
			dOpen, eOpen = dOpen.xor(ds[i]), eOpen.xor(es[i])
		}
		sub := map[string]gpoly{"DOPEN": dOpen, "EOPEN": eOpen}
		for i := range zs {
			z = z.xor(zs[i].subst(sub))
		}
		want := sum("x").and(sum("y"))
		if z.String() != want.String() {
			run.Violate("beaver-identity", k, p.Rel(fd.Pos()), "the shares of the AND output do not add up to x&y; difference: "+z.xor(want).String(), nil)
		} else {
			run.OK("beaver-identity", k, p.Rel(fd.Pos()), fmt.Sprintf("XOR of %d local results = %d monomials = (XOR x)&(XOR y)", n, len(want)))
		}
	}
	run.Floor("party-counts", 3)
}
