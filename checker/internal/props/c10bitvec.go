package props

import (
	"strings"

	"fmt"
	"go/ast"
	"go/types"
	"golang.org/x/tools/go/ssa"

	"mpcverif/internal/dispatch"
	"mpcverif/internal/load"
	"mpcverif/internal/report"
)

// C10bitvec: what ReceiveBitvec(2) stores is what SendBitvec(2) was given, word for word, for every length.
func C10bitvec(p *load.Program, run *report.Run) {
	canonFor(p)
	run.Rule("bitvec-transport", fmt.Sprintf("interpreting SendBitvec/SendBitvec2 on vectors of symbolic words and feeding the labels they send to ReceiveBitvec/ReceiveBitvec2, the received vectors equal the sent ones position by position, for lengths 0..%d (odd lengths use half a label)", bound(5, 11)))
	pkg := p.ByPath[load.Module+"/gmw"]
	if pkg == nil {
		return
	}
	type msg struct{ d0, d1 wv }
	for _, pr := range [][2]string{{"SendBitvec", "ReceiveBitvec"}, {"SendBitvec2", "ReceiveBitvec2"}} {
		_, fs := dispatch.FindFunc(p, "gmw", "Peer", pr[0])
		_, fr := dispatch.FindFunc(p, "gmw", "Peer", pr[1])
		key := "gmw.Peer." + pr[0] + "/" + pr[1]
		if fs == nil || fr == nil {
			run.Undecided("bitvec-transport", key, "", "function not found")
			continue
		}
		params := func(fd *ast.FuncDecl) []string {
			var out []string
			for _, f := range fd.Type.Params.List {
				for _, n := range f.Names {
					if _, ok := pkg.TypesInfo.Defs[n].Type().Underlying().(*types.Slice); ok {
						out = append(out, n.Name)
					}
				}
			}
			return out
		}
		sp, rp := params(fs), params(fr)
		bad := ""
		run.Count("bitvec-pairs", 1)
		// a role that encodes straight into the connection's buffers (stores to Conn.WritePos / ReadStart in
		// itself or a helper of the package) is outside the word-level model of this rule: the byte layout
		// is not interpreted.  Duality treats such a segment as a wildcard; the rule says so instead of guessing.
		if raw := rawBufferRole(p, "gmw", "Peer", pr[0]) + rawBufferRole(p, "gmw", "Peer", pr[1]); raw != "" {
			run.Count("bitvec-pairs-out-of-model", 1)
			run.OK("bitvec-transport", key+"/not-modelled", p.Rel(fs.Pos()), "not interpreted: "+raw+"writes or reads the connection's buffer directly; the byte layout is outside this rule's model")
			continue
		}
		run.Count("bitvec-lengths", 6)
		for n := 0; n <= bound(5, 11) && bad == ""; n++ {
			var labels []msg
			var count int64 = -1
			ws := &wInterp{pkg: pkg}
			ws.push()
			for k, name := range sp {
				ws.set(name, atoms(fmt.Sprintf("v%d", k), n), true)
			}
			ws.set("l.D0", int64(0), true)
			ws.set("l.D1", int64(0), true)
			ws.hook = func(name string, c *ast.CallExpr) (wv, bool) {
				switch name {
				case "SendUint32":
					v := ws.expr(c.Args[0])
					if k, ok := v.(int64); ok {
						count = k
					}
					return nil, true
				case "SendLabel":
					d0, _ := ws.lookup("l.D0")
					d1, _ := ws.lookup("l.D1")
					labels = append(labels, msg{d0, d1})
					return nil, true
				case "Flush":
					return nil, true
				}
				return nil, false
			}
			o := ws.stmts(fs.Body.List)
			if ws.fail != "" {
				bad = fmt.Sprintf("length %d, sender: %s", n, ws.fail)
				break
			}
			if o.kind == "return" && o.err {
				bad = fmt.Sprintf("length %d: the sender returns an error", n)
				break
			}
			// receiver
			wr := &wInterp{pkg: pkg}
			wr.push()
			outs := make([][]wv, len(rp))
			for k, name := range rp {
				outs[k] = make([]wv, n)
				for i := range outs[k] {
					outs[k][i] = "UNSET"
				}
				wr.set(name, outs[k], true)
			}
			wr.set("l.D0", int64(0), true)
			wr.set("l.D1", int64(0), true)
			pos := 0
			wr.hook = func(name string, c *ast.CallExpr) (wv, bool) {
				switch name {
				case "ReceiveUint32":
					return wtuple{count, nil}, true
				case "ReceiveLabel":
					if pos >= len(labels) {
						wr.bad("the receiver reads label %d, the sender sent %d", pos+1, len(labels))
						return nil, true
					}
					wr.set("l.D0", labels[pos].d0, false)
					wr.set("l.D1", labels[pos].d1, false)
					pos++
					return nil, true
				}
				return nil, false
			}
			o = wr.stmts(fr.Body.List)
			switch {
			case wr.fail != "":
				bad = fmt.Sprintf("length %d, receiver: %s", n, wr.fail)
			case o.kind == "return" && o.err:
				bad = fmt.Sprintf("length %d: the receiver rejects what the sender sent", n)
			case pos != len(labels):
				bad = fmt.Sprintf("length %d: %d labels sent, %d read", n, len(labels), pos)
			case len(sp) != len(rp):
				bad = "sender and receiver take a different number of vectors"
			default:
				for k := range rp {
					want := atoms(fmt.Sprintf("v%d", k), n)
					if fmt.Sprint(outs[k]) != fmt.Sprint(want) {
						bad = fmt.Sprintf("length %d: vector %d arrives as %v, sent %v", n, k, outs[k], want)
					}
				}
			}
		}
		if bad != "" {
			run.Violate("bitvec-transport", key, p.Rel(fs.Pos()), bad, nil)
		} else {
			run.OK("bitvec-transport", key, p.Rel(fs.Pos()), fmt.Sprintf("lengths 0..%d", bound(5, 11)))
		}
	}
	run.Floor("bitvec-pairs", 2)
}

// rawBufferRole: the method or a function of its package that it calls (two levels) stores to the buffer
// position fields of a p2p.Conn.
func rawBufferRole(p *load.Program, pkg, typ, name string) string {
	f, err := p.Method(pkg, typ, name)
	if err != nil || f == nil {
		return ""
	}
	seen := map[*ssa.Function]bool{}
	var walk func(g *ssa.Function, depth int) bool
	walk = func(g *ssa.Function, depth int) bool {
		if g == nil || g.Blocks == nil || seen[g] || depth > 2 {
			return false
		}
		seen[g] = true
		for _, b := range g.Blocks {
			for _, ins := range b.Instrs {
				if st, ok := ins.(*ssa.Store); ok {
					if fa, ok := st.Addr.(*ssa.FieldAddr); ok {
						fn := structFieldName(fa.X.Type(), fa.Field)
						if (fn == "WritePos" || fn == "ReadStart") && strings.HasSuffix(strings.TrimPrefix(fa.X.Type().String(), "*"), "/p2p.Conn") {
							return true
						}
					}
				}
				if c, ok := ins.(ssa.CallInstruction); ok {
					if callee := c.Common().StaticCallee(); callee != nil && callee.Pkg == g.Pkg && walk(callee, depth+1) {
						return true
					}
				}
			}
		}
		return false
	}
	if walk(f, 0) {
		return name + " "
	}
	return ""
}
