package props

import (
	"golang.org/x/tools/go/packages"
	"strings"

	"fmt"
	"go/ast"
	"go/types"
	"golang.org/x/tools/go/ssa"

	"mpcverif/internal/dispatch"
	"mpcverif/internal/load"
	"mpcverif/internal/report"
)

// C10bitvec: what ReceiveBitvec(2) stores is what SendBitvec(2) was given, word for word, for every length.
func C10bitvec(p *load.Program, run *report.Run) {
	canonFor(p)
	run.Rule("bitvec-transport", fmt.Sprintf("interpreting SendBitvec/SendBitvec2 on vectors of symbolic words and feeding the labels they send to ReceiveBitvec/ReceiveBitvec2, the received vectors equal the sent ones position by position, for lengths 0..%d (odd lengths use half a label)", bound(5, 11)))
	pkg := p.ByPath[load.Module+"/gmw"]
	if pkg == nil {
		return
	}
	type msg struct{ d0, d1 wv }
	for _, pr := range [][2]string{{"SendBitvec", "ReceiveBitvec"}, {"SendBitvec2", "ReceiveBitvec2"}} {
		_, fs := dispatch.FindFunc(p, "gmw", "Peer", pr[0])
		_, fr := dispatch.FindFunc(p, "gmw", "Peer", pr[1])
		key := "gmw.Peer." + pr[0] + "/" + pr[1]
		if fs == nil || fr == nil {
			run.Undecided("bitvec-transport", key, "", "function not found")
			continue
		}
		params := func(fd *ast.FuncDecl) []string {
			var out []string
			for _, f := range fd.Type.Params.List {
				for _, n := range f.Names {
					if _, ok := pkg.TypesInfo.Defs[n].Type().Underlying().(*types.Slice); ok {
						out = append(out, n.Name)
					}
				}
			}
			return out
		}
		sp, rp := params(fs), params(fr)
		bad := ""
		run.Count("bitvec-pairs", 1)
		// a role that encodes straight into the connection's buffers (stores to Conn.WritePos / ReadStart in
		// itself or a helper of the package) is outside the word-level model of this rule: the byte layout
		// is not interpreted.  Duality treats such a segment as a wildcard; the rule says so instead of guessing.
		if raw := rawBufferRole(p, "gmw", "Peer", pr[0]) + rawBufferRole(p, "gmw", "Peer", pr[1]); raw != "" {
			run.Count("bitvec-pairs-out-of-model", 1)
			run.OK("bitvec-transport", key+"/not-modelled", p.Rel(fs.Pos()), "not interpreted: "+raw+"writes or reads the connection's buffer directly; the byte layout is outside this rule's model")
			continue
		}
		run.Count("bitvec-lengths", 6)
		for n := 0; n <= bound(5, 11) && bad == ""; n++ {
			var labels []msg
			var count int64 = -1
			ws := &wInterp{pkg: pkg}
			ws.push()
			bindScalars(pkg, ws, fs)
			for k, name := range sp {
				ws.set(name, atoms(fmt.Sprintf("v%d", k), n), true)
			}
			ws.set("l.D0", int64(0), true)
			ws.set("l.D1", int64(0), true)
			var sendHook func(w *wInterp) func(name string, c *ast.CallExpr) (wv, bool)
			sendHook = func(w *wInterp) func(name string, c *ast.CallExpr) (wv, bool) {
				return func(name string, c *ast.CallExpr) (wv, bool) {
					switch name {
					case "SendUint32":
						v := w.expr(c.Args[0])
						if k, ok := v.(int64); ok {
							count = k
						}
						return nil, true
					case "SendLabel":
						lv := strings.TrimPrefix(cx(c.Args[0]), "&")
						d0, _ := w.lookup(lv + ".D0")
						d1, _ := w.lookup(lv + ".D1")
						labels = append(labels, msg{d0, d1})
						return nil, true
					case "Flush":
						return nil, true
					}
					return peerHelper(pkg, w, c, sendHook)
				}
			}
			ws.hook = sendHook(ws)
			o := ws.stmts(fs.Body.List)
			if ws.fail != "" {
				bad = fmt.Sprintf("length %d, sender: %s", n, ws.fail)
				break
			}
			if o.kind == "return" && o.err {
				bad = fmt.Sprintf("length %d: the sender returns an error", n)
				break
			}
			// receiver
			wr := &wInterp{pkg: pkg}
			wr.push()
			bindScalars(pkg, wr, fr)
			outs := make([][]wv, len(rp))
			for k, name := range rp {
				outs[k] = make([]wv, n)
				for i := range outs[k] {
					outs[k][i] = "UNSET"
				}
				wr.set(name, outs[k], true)
			}
			wr.set("l.D0", int64(0), true)
			wr.set("l.D1", int64(0), true)
			pos := 0
			var recvHook func(w *wInterp) func(name string, c *ast.CallExpr) (wv, bool)
			recvHook = func(w *wInterp) func(name string, c *ast.CallExpr) (wv, bool) {
				return func(name string, c *ast.CallExpr) (wv, bool) {
					switch name {
					case "ReceiveUint32":
						return wtuple{count, nil}, true
					case "ReceiveLabel":
						if pos >= len(labels) {
							w.bad("the receiver reads label %d, the sender sent %d", pos+1, len(labels))
							return nil, true
						}
						lv := strings.TrimPrefix(cx(c.Args[0]), "&")
						w.set(lv+".D0", labels[pos].d0, false)
						w.set(lv+".D1", labels[pos].d1, false)
						pos++
						return nil, true
					}
					return peerHelper(pkg, w, c, recvHook)
				}
			}
			wr.hook = recvHook(wr)
			o = wr.stmts(fr.Body.List)
			switch {
			case wr.fail != "":
				bad = fmt.Sprintf("length %d, receiver: %s", n, wr.fail)
			case o.kind == "return" && o.err:
				bad = fmt.Sprintf("length %d: the receiver rejects what the sender sent", n)
			case pos != len(labels):
				bad = fmt.Sprintf("length %d: %d labels sent, %d read", n, len(labels), pos)
			case len(sp) != len(rp):
				bad = "sender and receiver take a different number of vectors"
			default:
				for k := range rp {
					want := atoms(fmt.Sprintf("v%d", k), n)
					if fmt.Sprint(outs[k]) != fmt.Sprint(want) {
						bad = fmt.Sprintf("length %d: vector %d arrives as %v, sent %v", n, k, outs[k], want)
					}
				}
			}
		}
		if bad != "" {
			run.Violate("bitvec-transport", key, p.Rel(fs.Pos()), bad, nil)
		} else {
			run.OK("bitvec-transport", key, p.Rel(fs.Pos()), fmt.Sprintf("lengths 0..%d", bound(5, 11)))
		}
	}
	run.Floor("bitvec-pairs", 2)
}

// rawBufferRole: the method or a function of its package that it calls (two levels) stores to the buffer
// position fields of a p2p.Conn.
func rawBufferRole(p *load.Program, pkg, typ, name string) string {
	f, err := p.Method(pkg, typ, name)
	if err != nil || f == nil {
		return ""
	}
	seen := map[*ssa.Function]bool{}
	var walk func(g *ssa.Function, depth int) bool
	walk = func(g *ssa.Function, depth int) bool {
		if g == nil || g.Blocks == nil || seen[g] || depth > 2 {
			return false
		}
		seen[g] = true
		for _, b := range g.Blocks {
			for _, ins := range b.Instrs {
				if st, ok := ins.(*ssa.Store); ok {
					if fa, ok := st.Addr.(*ssa.FieldAddr); ok {
						fn := structFieldName(fa.X.Type(), fa.Field)
						if (fn == "WritePos" || fn == "ReadStart") && strings.HasSuffix(strings.TrimPrefix(fa.X.Type().String(), "*"), "/p2p.Conn") {
							return true
						}
					}
				}
				if c, ok := ins.(ssa.CallInstruction); ok {
					if callee := c.Common().StaticCallee(); callee != nil && callee.Pkg == g.Pkg && walk(callee, depth+1) {
						return true
					}
				}
			}
		}
		return false
	}
	if walk(f, 0) {
		return name + " "
	}
	return ""
}

// peerHelper interprets a call of a method of the package that has a body (a helper the role was split
// into) on the caller's argument values; label variables of the helper start as the zero label.
func peerHelper(pkg *packages.Package, w *wInterp, c *ast.CallExpr, mk func(*wInterp) func(string, *ast.CallExpr) (wv, bool)) (wv, bool) {
	var fn *types.Func
	switch t := c.Fun.(type) {
	case *ast.SelectorExpr:
		fn, _ = pkg.TypesInfo.Uses[t.Sel].(*types.Func)
	case *ast.Ident:
		fn, _ = pkg.TypesInfo.Uses[t].(*types.Func)
	}
	if fn == nil || fn.Pkg() != pkg.Types {
		return nil, false
	}
	var fd *ast.FuncDecl
	for _, f := range pkg.Syntax {
		for _, d := range f.Decls {
			if x, ok := d.(*ast.FuncDecl); ok && x.Body != nil && pkg.TypesInfo.Defs[x.Name] == types.Object(fn) {
				fd = x
			}
		}
	}
	if fd == nil {
		return nil, false
	}
	w.depth++
	defer func() { w.depth-- }()
	if w.depth > 4 {
		return w.bad("helpers nested deeper than 4"), true
	}
	sub := &wInterp{pkg: pkg, depth: w.depth}
	sub.hook = mk(sub)
	sub.push()
	if fd.Recv != nil {
		for _, f := range fd.Recv.List {
			for _, n := range f.Names {
				sub.set(n.Name, "obj:"+n.Name, true)
			}
		}
	}
	i := 0
	for _, fl := range fd.Type.Params.List {
		for _, nm := range fl.Names {
			if i < len(c.Args) {
				sub.set(nm.Name, w.expr(c.Args[i]), true)
			}
			i++
		}
	}
	// label variables: `var l ot.Label` is the zero label; a label kept in the receiver is shared state and
	// is not modelled (its words would be whatever another goroutine left)
	ast.Inspect(fd.Body, func(n ast.Node) bool {
		if vs, ok := n.(*ast.ValueSpec); ok && vs.Type != nil && strings.HasSuffix(cx(vs.Type), "Label") {
			for _, nm := range vs.Names {
				sub.set(nm.Name+".D0", int64(0), true)
				sub.set(nm.Name+".D1", int64(0), true)
			}
		}
		return true
	})
	if w.fail != "" {
		return nil, true
	}
	o := sub.stmts(fd.Body.List)
	if sub.fail != "" {
		return w.bad("%s: %s", fd.Name.Name, sub.fail), true
	}
	if fd.Type.Results != nil && len(fd.Type.Results.List) > 0 {
		res := fd.Type.Results.List
		if cx(res[len(res)-1].Type) != "error" {
			// a helper that computes a value
			if o.kind != "return" {
				return w.bad("%s does not return", fd.Name.Name), true
			}
			if len(o.vals) == 1 {
				return o.vals[0], true
			}
			return wtuple(o.vals), true
		}
	}
	if o.kind == "return" && o.err {
		return "error", true
	}
	return nil, true
}

// bindScalars binds the receiver and the parameters that are not vectors (the connection, the peer) to atoms.
func bindScalars(pkg *packages.Package, w *wInterp, fd *ast.FuncDecl) {
	if fd.Recv != nil {
		for _, f := range fd.Recv.List {
			for _, n := range f.Names {
				w.set(n.Name, "obj:"+n.Name, true)
			}
		}
	}
	for _, f := range fd.Type.Params.List {
		for _, n := range f.Names {
			if _, ok := pkg.TypesInfo.Defs[n].Type().Underlying().(*types.Slice); !ok {
				w.set(n.Name, "obj:"+n.Name, true)
			}
		}
	}
}
