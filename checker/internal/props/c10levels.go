package props

import (
	"golang.org/x/tools/go/packages"
	"golang.org/x/tools/go/ssa"

	"fmt"
	"go/ast"
	"sort"
	"strings"

	"mpcverif/internal/dispatch"
	"mpcverif/internal/load"
	"mpcverif/internal/report"
)

// gateArity reads the number of inputs per operation from circuit.Gate.Inputs.
func gateArity(p *load.Program) map[string]int {
	out := map[string]int{}
	_, fd := dispatch.FindFunc(p, "circuit", "Gate", "Inputs")
	if fd == nil {
		return out
	}
	ast.Inspect(fd.Body, func(n ast.Node) bool {
		cc, ok := n.(*ast.CaseClause)
		if !ok || cc.List == nil {
			return true
		}
		k := -1
		for _, st := range cc.Body {
			if r, ok := st.(*ast.ReturnStmt); ok && len(r.Results) == 1 {
				if cl, ok := r.Results[0].(*ast.CompositeLit); ok {
					k = len(cl.Elts)
				}
			}
		}
		if k < 0 {
			return true
		}
		for _, e := range cc.List {
			out[cx(e)] = k
		}
		return true
	})
	return out
}

// C10levels: the level schedule of the GMW evaluation is consistent with how levels are assigned.
func C10levels(p *load.Program, run *report.Run) {
	canonFor(p)
	run.Rule("gmw-level-schedule", "Compiler.compile assigns the levels of every circuit it returns (run schedules by Gate.Level and never assigns it); a gate's level is the maximum of the levels of all inputs that Gate.Inputs lists for its operation (the gate loop of AssignLevels interpreted per operation); under the GMW target the output of an AND gate gets a level above the gate's own (so no AND of a batch consumes another AND of the same batch), and run evaluates, per level, the non-AND gates before it flushes the AND batch of that level (an AND may consume a XOR of its own level, never the other way round)")
	pkgC := p.ByPath[load.Module+"/circuit"]
	_, fa := dispatch.FindFunc(p, "circuit", "Circuit", "AssignLevels")
	pkgG, fr := dispatch.FindFunc(p, "gmw", "Network", "run")
	if pkgC == nil || fa == nil || fr == nil {
		run.Undecided("gmw-level-schedule", "circuit.Circuit.AssignLevels/gmw.Network.run", "", "function not found")
		return
	}
	// (a) the TargetGMW clause, evaluated for every operation
	var clause *ast.CaseClause
	ast.Inspect(fa.Body, func(n ast.Node) bool {
		if cc, ok := n.(*ast.CaseClause); ok {
			for _, e := range cc.List {
				if strings.HasSuffix(cx(e), "TargetGMW") {
					clause = cc
				}
			}
		}
		return true
	})
	if clause == nil {
		run.Undecided("gmw-level-schedule", "circuit.Circuit.AssignLevels/TargetGMW", p.Rel(fa.Pos()), "clause not found")
	} else {
		for _, op := range []string{"XOR", "XNOR", "AND", "OR", "INV"} {
			w := &wInterp{pkg: pkgC}
			w.push()
			w.set("gate.Op", op, true)
			w.set("level", int64(0), true)
			w.stmts(clause.Body)
			lv, _ := w.lookup("level")
			run.Count("level-cells", 1)
			key := "circuit.Circuit.AssignLevels/TargetGMW/" + op
			switch {
			case w.fail != "":
				run.Undecided("gmw-level-schedule", key, p.Rel(clause.Pos()), w.fail)
			case op == "AND" && lv.(int64) < 1:
				run.Violate("gmw-level-schedule", key, p.Rel(clause.Pos()), "the output of an AND gate stays on the gate's level: two dependent ANDs land in one batch", nil)
			default:
				run.OK("gmw-level-schedule", key, p.Rel(clause.Pos()), fmt.Sprintf("output level +%d", lv.(int64)))
			}
		}
	}
	// (c) the circuits the compiler hands out have their levels assigned: gmw.Network.run schedules
	// by Gate.Level and never assigns it
	if fc, err := p.Method("compiler", "Compiler", "compile"); err != nil {
		run.Undecided("gmw-level-schedule", "compiler.Compiler.compile/levels-assigned", "", err.Error())
	} else {
		var assigns []*ssa.BasicBlock
		for _, b := range fc.Blocks {
			for _, ins := range b.Instrs {
				if c, ok := ins.(ssa.CallInstruction); ok {
					if callee := c.Common().StaticCallee(); callee != nil && callee.Name() == "AssignLevels" {
						assigns = append(assigns, b)
					}
				}
			}
		}
		bad := ""
		returns := 0
		for _, b := range fc.Blocks {
			if b == fc.Recover {
				continue
			}
			r, ok := b.Instrs[len(b.Instrs)-1].(*ssa.Return)
			if !ok {
				continue
			}
			res := load.Results(r)
			if len(res) == 0 {
				continue
			}
			if c, isConst := res[0].(*ssa.Const); isConst && c.IsNil() {
				continue // no circuit returned (error, or NoCircCompile)
			}
			returns++
			dom := false
			for _, a := range assigns {
				if a == b || a.Dominates(b) {
					dom = true
				}
			}
			if !dom {
				bad = "the compiler returns a circuit whose gate levels were never assigned: gmw.Network.run puts every gate on level 0, evaluates all XOR/XNOR/INV gates first and all AND gates in one batch, and every party returns the same wrong value without an error"
			}
		}
		run.Count("circuit-returns", returns)
		key := "compiler.Compiler.compile/levels-assigned"
		if bad != "" {
			run.Violate("gmw-level-schedule", key, p.Rel(fc.Pos()), bad, nil)
		} else {
			run.OK("gmw-level-schedule", key, p.Rel(fc.Pos()), fmt.Sprintf("%d circuit return(s) after AssignLevels", returns))
		}
		run.Floor("circuit-returns", 1)
	}
	// (a0) the level of a gate is the maximum over all of its inputs: the statements of the gate
	// loop before the level is stored, interpreted per operation with the input levels (0,1), (1,0), (1,1)
	arity := gateArity(p)
	var loop *ast.RangeStmt
	ast.Inspect(fa.Body, func(n ast.Node) bool {
		if r, ok := n.(*ast.RangeStmt); ok && loop == nil && strings.HasSuffix(cx(r.X), ".Gates") {
			loop = r
		}
		return true
	})
	if loop == nil || len(arity) == 0 {
		run.Undecided("gmw-level-schedule", "circuit.Circuit.AssignLevels/input-levels", p.Rel(fa.Pos()), "gate loop or Gate.Inputs not found")
	} else {
		var prefix []ast.Stmt
		for _, st := range loop.Body.List {
			if as, ok := st.(*ast.AssignStmt); ok && len(as.Lhs) == 1 && strings.HasSuffix(cx(as.Lhs[0]), ".Level") {
				break
			}
			prefix = append(prefix, st)
		}
		gv := "gate"
		if id, ok := loop.Value.(*ast.Ident); ok {
			gv = id.Name
		}
		var ops []string
		for op := range arity {
			ops = append(ops, op)
		}
		sort.Strings(ops)
		for _, op := range ops {
			run.Count("level-cells", 1)
			key := "circuit.Circuit.AssignLevels/input-levels/" + op
			bad := ""
			for _, lv := range [][2]int64{{0, 1}, {1, 0}, {1, 1}} {
				w := &wInterp{pkg: pkgC}
				w.push()
				w.set(gv+".Op", op, true)
				w.set(gv+".Input0", int64(0), true)
				w.set(gv+".Input1", int64(1), true)
				w.set("levels", []wv{lv[0], lv[1]}, true)
				w.stmts(prefix)
				got, _ := w.lookup("level")
				want := lv[0]
				if arity[op] == 2 && lv[1] > want {
					want = lv[1]
				}
				if w.fail != "" {
					bad = "not interpreted: " + w.fail
				} else if g, ok := got.(int64); !ok || g != want {
					bad = fmt.Sprintf("with input levels %d and %d the gate gets level %v, the maximum over its %d input(s) is %d: the gate is scheduled before the wire it reads is computed", lv[0], lv[1], got, arity[op], want)
				}
			}
			if strings.HasPrefix(bad, "not interpreted") {
				run.Undecided("gmw-level-schedule", key, p.Rel(loop.Pos()), bad)
			} else if bad != "" {
				run.Violate("gmw-level-schedule", key, p.Rel(loop.Pos()), bad, nil)
			} else {
				run.OK("gmw-level-schedule", key, p.Rel(loop.Pos()), fmt.Sprintf("maximum over %d input(s)", arity[op]))
			}
		}
	}
	// the two per-level slices, named by how they are filled
	andsName, restName := "ands", "rest"
	ast.Inspect(fr.Body, func(n ast.Node) bool {
		if ifs, ok := n.(*ast.IfStmt); ok && ifs.Else != nil {
			if be, ok := ifs.Cond.(*ast.BinaryExpr); ok && strings.HasSuffix(cx(be.Y), "AND") && strings.HasSuffix(cx(be.X), ".Op") {
				if as, ok := firstStmt(pkgG, ifs.Body).(*ast.AssignStmt); ok {
					if ix, ok := as.Lhs[0].(*ast.IndexExpr); ok {
						andsName = cx(ix.X)
					}
				}
				if eb, ok := ifs.Else.(*ast.BlockStmt); ok && firstStmt(pkgG, eb) != nil {
					if as, ok := firstStmt(pkgG, eb).(*ast.AssignStmt); ok {
						if ix, ok := as.Lhs[0].(*ast.IndexExpr); ok {
							restName = cx(ix.X)
						}
					}
				}
			}
		}
		return true
	})
	// (b) order inside the per-level loop of run
	var restPos, andPos int = -1, -1
	var idxRest, idxAnd string
	ast.Inspect(fr.Body, func(n ast.Node) bool {
		fs, ok := n.(*ast.ForStmt)
		if !ok {
			return true
		}
		for i, s := range fs.Body.List {
			if r, ok := s.(*ast.RangeStmt); ok && strings.HasPrefix(cx(r.X), restName+"[") {
				restPos, idxRest = i, cx(r.X)
			}
			if containsCall(s, "andBatchFlush") {
				ast.Inspect(s, func(m ast.Node) bool {
					if c, ok := m.(*ast.CallExpr); ok {
						if _, name, _ := callName(c); name == "andBatchFlush" {
							andPos, idxAnd = i, cx(c.Args[0])
						}
					}
					return true
				})
			}
		}
		return true
	})
	key := "gmw.Network.run/level-order"
	switch {
	case restPos < 0 || andPos < 0:
		run.Undecided("gmw-level-schedule", key, p.Rel(fr.Pos()), "per-level loop not found")
	case restPos > andPos:
		run.Violate("gmw-level-schedule", key, p.Rel(fr.Pos()), "the AND batch of a level is flushed before the level's XOR/XNOR/INV gates are evaluated: an AND reads wires that are not computed yet", nil)
	case strings.TrimPrefix(idxRest, restName) != strings.TrimPrefix(idxAnd, andsName):
		run.Violate("gmw-level-schedule", key, p.Rel(fr.Pos()), fmt.Sprintf("%s is followed by %s: different levels", idxRest, idxAnd), nil)
	default:
		run.OK("gmw-level-schedule", key, p.Rel(fr.Pos()), idxRest+" then "+idxAnd)
	}
	// the classification by gate level
	classified := false
	ast.Inspect(fr.Body, func(n ast.Node) bool {
		if ifs, ok := n.(*ast.IfStmt); ok && ifs.Else != nil {
			if be, ok := ifs.Cond.(*ast.BinaryExpr); ok && strings.HasSuffix(cx(be.Y), "AND") && strings.HasSuffix(cx(be.X), ".Op") {
				if as, ok := firstStmt(pkgG, ifs.Body).(*ast.AssignStmt); ok && strings.HasPrefix(cx(as.Lhs[0]), andsName+"[") {
					classified = true
				}
			}
		}
		return true
	})
	if classified {
		run.OK("gmw-level-schedule", "gmw.Network.run/classification", p.Rel(fr.Pos()), "AND -> ands[level], others -> rest[level]")
	} else {
		run.Violate("gmw-level-schedule", "gmw.Network.run/classification", p.Rel(fr.Pos()), "gates are not split into ands[level] / rest[level] by their operation", nil)
	}
	run.Floor("level-cells", 5)
}

// firstStmt is the first statement of a block that is not quiet, or nil.
func firstStmt(pkg *packages.Package, b *ast.BlockStmt) ast.Stmt {
	if e := effectiveQ(pkg.TypesInfo, b.List); len(e) > 0 {
		return e[0]
	}
	return nil
}
