package props

import (
	"fmt"
	"go/ast"
	"go/token"

	"mpcverif/internal/dispatch"
	"mpcverif/internal/load"
	"mpcverif/internal/report"
)

// C10mesh: the GMW network has its own mesh set-up; the same finite-ordering argument as C19.
func C10mesh(p *load.Program, run *report.Run) {
	canonFor(p)
	run.Rule("gmw-dial-accept-converse", "in gmw.Network.connectPeer, for every ordered pair of distinct non-leader parties exactly one dials (online and offline), the dialled side counts that accept, nobody dials itself or the leader's online channel again, and the leader expects numParties-1 connections of each kind")
	run.Rule("gmw-roster", "the roster the GMW leader sends excludes exactly the leader and the addressee, and its announced length is the number of entries sent")
	pkg, fd := dispatch.FindFunc(p, "gmw", "Network", "connectPeer")
	_, fdLead := dispatch.FindFunc(p, "gmw", "Network", "connectLeader")
	if fd == nil || fdLead == nil {
		run.Undecided("gmw-dial-accept-converse", "gmw.Network.connectPeer", "", "function not found")
		return
	}
	isDial := func(s ast.Stmt) bool {
		switch s.(type) {
		case *ast.IfStmt, *ast.BlockStmt:
			return false
		}
		return containsCall(s, "dialOnline")
	}
	isCount := func(s ast.Stmt) bool {
		inc, ok := s.(*ast.IncDecStmt)
		return ok && inc.Tok == token.INC
	}
	dialBody, dialRange := loopWith(fd, isDial)
	countBody, _ := loopWith(fd, isCount)
	if dialBody == nil || dialRange == nil || countBody == nil {
		run.Undecided("gmw-dial-accept-converse", "gmw.Network.connectPeer", p.Rel(fd.Pos()), "dial loop or accept-count loop not found")
		return
	}
	peerVar := cx(dialRange.Value)
	idVar, countVar := "", ""
	for _, s := range countBody.List {
		if as, ok := s.(*ast.AssignStmt); ok && idVar == "" && containsCall(as, "ReceiveUint32") {
			idVar = cx(as.Lhs[0])
		}
	}
	ast.Inspect(countBody, func(n ast.Node) bool {
		if inc, ok := n.(*ast.IncDecStmt); ok {
			countVar = cx(inc.X)
		}
		return true
	})
	dials := func(self, peer int64) (bool, string) {
		m := &miniEval{pkg: pkg, env: miniEnv{"self.id": self, "nw.self.id": self, peerVar + ".id": peer}}
		switch m.run(dialBody.List, isDial) {
		case reached:
			return true, ""
		case skipped, fallThrough:
			return false, ""
		}
		return false, "dial loop: " + m.why
	}
	counts := func(self, id int64) (bool, string) {
		m := &miniEval{pkg: pkg, env: miniEnv{"self.id": self, "nw.self.id": self, idVar: id}}
		switch m.run(countBody.List, isCount) {
		case reached:
			return true, ""
		case skipped, fallThrough:
			return false, ""
		}
		return false, "accept-count loop: " + m.why
	}
	cells := 0
	for x := int64(1); x <= 3; x++ {
		if d, why := dials(x, 0); why != "" {
			run.Undecided("gmw-dial-accept-converse", fmt.Sprintf("gmw.Network.connectPeer/self=%d,peer=0", x), p.Rel(dialBody.Pos()), why)
		} else if d {
			run.Violate("gmw-dial-accept-converse", fmt.Sprintf("gmw.Network.connectPeer/self=%d,peer=0", x), p.Rel(dialBody.Pos()), "the leader's online connection exists since JoinNetwork, yet the peer dials it again in the mesh loop", nil)
		}
		if d, why := dials(x, x); why == "" && d {
			run.Violate("gmw-dial-accept-converse", fmt.Sprintf("gmw.Network.connectPeer/self=peer=%d", x), p.Rel(dialBody.Pos()), "a party dials itself", nil)
		}
		for y := int64(1); y <= 3; y++ {
			if x == y {
				continue
			}
			cells++
			dxy, w1 := dials(x, y)
			dyx, w2 := dials(y, x)
			cyx, w3 := counts(y, x)
			key := fmt.Sprintf("gmw.Network.connectPeer/x=%d,y=%d", x, y)
			switch {
			case w1+w2+w3 != "":
				run.Undecided("gmw-dial-accept-converse", key, p.Rel(dialBody.Pos()), w1+w2+w3)
			case dxy == dyx:
				run.Violate("gmw-dial-accept-converse", key, p.Rel(dialBody.Pos()), fmt.Sprintf("x dials y: %v, y dials x: %v — not exactly one", dxy, dyx), nil)
			case dxy != cyx:
				run.Violate("gmw-dial-accept-converse", key, p.Rel(countBody.Pos()), fmt.Sprintf("x dials y: %v but y counts an accept from x: %v", dxy, cyx), nil)
			default:
				run.OK("gmw-dial-accept-converse", key, p.Rel(dialBody.Pos()), "")
			}
		}
	}
	run.Count("gmw-ordering-cells", cells)
	run.Floor("gmw-ordering-cells", 6)
	// every dial of the online channel is paired with one of the offline channel in the same iteration
	both := false
	for _, s := range dialBody.List {
		if containsCall(s, "dialOffline") {
			both = true
		}
	}
	// the count feeds both needs; the peer also dials the leader's offline channel once
	needs := map[string]bool{}
	ast.Inspect(fd.Body, func(n ast.Node) bool {
		if as, ok := n.(*ast.AssignStmt); ok && len(as.Lhs) == 1 && cx(as.Rhs[0]) == countVar {
			needs[cx(as.Lhs[0])] = true
		}
		return true
	})
	leaderOffline := false
	for _, s := range fd.Body.List {
		if as, ok := s.(*ast.AssignStmt); ok && containsCall(as, "dialOffline") {
			leaderOffline = true
		}
	}
	switch {
	case !both:
		run.Violate("gmw-dial-accept-converse", "gmw.Network.connectPeer/offline-dial", p.Rel(dialBody.Pos()), "a dialled peer gets an online but no offline connection", nil)
	case !needs["nw.needOnline"] || !needs["nw.needOffline"]:
		run.Violate("gmw-dial-accept-converse", "gmw.Network.connectPeer/need", p.Rel(fd.Pos()), "the accept count is not what needOnline and needOffline are set to", nil)
	case !leaderOffline:
		run.Violate("gmw-dial-accept-converse", "gmw.Network.connectPeer/leader-offline", p.Rel(fd.Pos()), "the peer never opens its offline channel to the leader, which waits for numParties-1 of them", nil)
	default:
		run.OK("gmw-dial-accept-converse", "gmw.Network.connectPeer/need", p.Rel(fd.Pos()), "needOnline = needOffline = "+countVar+"; offline channel to the leader dialled once")
	}
	// leader: accept := numParties-1 -> needOnline, needOffline; no dial
	m := &miniEval{pkg: pkg, env: miniEnv{"nw.numParties": 5}}
	leaderOK := 0
	env := miniEnv{"nw.numParties": 5}
	for _, s := range fdLead.Body.List {
		as, ok := s.(*ast.AssignStmt)
		if !ok || len(as.Lhs) != 1 {
			continue
		}
		m.env = env
		if v, ok := m.intOf(as.Rhs[0]); ok {
			l := cx(as.Lhs[0])
			env[l] = v
			if (l == "nw.needOnline" || l == "nw.needOffline") && v == 4 {
				leaderOK++
			}
		}
	}
	if leaderOK == 2 && !containsCall(fdLead.Body, "dialOnline") && !containsCall(fdLead.Body, "dialOffline") {
		run.OK("gmw-dial-accept-converse", "gmw.Network.connectLeader/need", p.Rel(fdLead.Pos()), "numParties-1 online and offline; never dials")
	} else {
		run.Violate("gmw-dial-accept-converse", "gmw.Network.connectLeader/need", p.Rel(fdLead.Pos()), "the leader does not wait for numParties-1 online and offline connections, or dials itself", nil)
	}
	// roster
	isSendID := func(s ast.Stmt) bool {
		switch s.(type) {
		case *ast.IfStmt, *ast.BlockStmt:
			return false
		}
		return containsCall(s, "SendUint32")
	}
	var outer, inner *ast.RangeStmt
	ast.Inspect(fdLead.Body, func(n ast.Node) bool {
		if r, ok := n.(*ast.RangeStmt); ok {
			if outer == nil {
				outer = r
			} else if inner == nil {
				inner = r
			}
		}
		return true
	})
	if outer == nil || inner == nil {
		run.Undecided("gmw-roster", "gmw.Network.connectLeader", p.Rel(fdLead.Pos()), "roster loops not found")
		return
	}
	ov, iv := cx(outer.Value), cx(inner.Value)
	var lenExpr ast.Expr
	for _, s := range outer.Body.List {
		if as, ok := s.(*ast.AssignStmt); ok && containsCall(as, "SendUint32") && lenExpr == nil {
			ast.Inspect(as, func(n ast.Node) bool {
				if c, ok := n.(*ast.CallExpr); ok {
					if sel, ok := c.Fun.(*ast.SelectorExpr); ok && sel.Sel.Name == "SendUint32" {
						lenExpr = c.Args[0]
					}
				}
				return true
			})
		}
	}
	okAll := lenExpr != nil
	for n := int64(2); n <= int64(bound(4, 7)) && okAll; n++ {
		for peer := int64(1); peer < n; peer++ {
			sent := int64(0)
			for i := int64(0); i < n; i++ {
				me := &miniEval{pkg: pkg, env: miniEnv{"nw.self.id": 0, ov + ".id": peer, iv + ".id": i}}
				o := me.run(inner.Body.List, isSendID)
				if o == unknown {
					run.Undecided("gmw-roster", "gmw.Network.connectLeader/roster", p.Rel(inner.Pos()), me.why)
					okAll = false
				}
				if o == reached {
					if i == 0 || i == peer {
						run.Violate("gmw-roster", fmt.Sprintf("gmw.Network.connectLeader/roster/peer=%d,entry=%d", peer, i), p.Rel(inner.Pos()), "the roster sent to a peer contains the leader or the peer itself", nil)
						okAll = false
					}
					sent++
				}
			}
			me := &miniEval{pkg: pkg, env: miniEnv{"len(nw.peers)": n}}
			if ann, ok := me.intOf(lenExpr); !ok || ann != sent {
				run.Violate("gmw-roster", fmt.Sprintf("gmw.Network.connectLeader/roster/parties=%d,peer=%d", n, peer), p.Rel(inner.Pos()), fmt.Sprintf("announces %d entries, sends %d", ann, sent), nil)
				okAll = false
			}
			run.Count("gmw-roster-cells", 1)
		}
	}
	if okAll {
		run.OK("gmw-roster", "gmw.Network.connectLeader/roster", p.Rel(inner.Pos()), "announced length = entries sent; leader and addressee excluded")
	}
	run.Floor("gmw-roster-cells", 6)
	_ = load.Module
}
