package props

import (
	"fmt"
	"go/ast"
	"go/token"
	"strings"

	"mpcverif/internal/load"
	"mpcverif/internal/report"
)

// commEvents: the communication calls of a statement list, as !X / ?X symbols.
func commEvents(list []ast.Stmt) []string {
	var out []string
	for _, s := range list {
		ast.Inspect(s, func(n ast.Node) bool {
			c, ok := n.(*ast.CallExpr)
			if !ok {
				return true
			}
			_, name, _ := callName(c)
			l := strings.ToLower(name)
			switch {
			case strings.HasPrefix(l, "send"):
				out = append(out, "!"+name[4:])
			case strings.HasPrefix(l, "receive"):
				out = append(out, "?"+name[7:])
			case l == "shareinput":
				out = append(out, "!Input")
			case strings.HasSuffix(l, "sender"):
				out = append(out, "!"+name[:len(name)-6])
			case strings.HasSuffix(l, "receiver"):
				out = append(out, "?"+name[:len(name)-8])
			}
			return true
		})
	}
	return out
}

func dualEvents(ev []string) []string {
	out := make([]string, len(ev))
	for i, e := range ev {
		if e[0] == '!' {
			out[i] = "?" + e[1:]
		} else {
			out[i] = "!" + e[1:]
		}
	}
	return out
}

// C10mirror: wherever two parties run the same code against each other, ordered by id, the two branches are mirror images.
func C10mirror(p *load.Program, run *report.Run) {
	canonFor(p)
	run.Rule("id-ordered-mirror", "every `if self.id < peer.id { A } else { B }` in package gmw has B's communication sequence equal to the dual of A's (send where the other receives, in the same order): the lower id talks first and nobody waits for a party that is also waiting")
	pkg := p.ByPath[load.Module+"/gmw"]
	if pkg == nil {
		return
	}
	for _, f := range pkg.Syntax {
		for _, d := range f.Decls {
			fd, ok := d.(*ast.FuncDecl)
			if !ok || fd.Body == nil {
				continue
			}
			n := 0
			ast.Inspect(fd.Body, func(x ast.Node) bool {
				ifs, ok := x.(*ast.IfStmt)
				if !ok || ifs.Else == nil {
					return true
				}
				be, ok := ifs.Cond.(*ast.BinaryExpr)
				if !ok || be.Op != token.LSS || !strings.HasSuffix(cx(be.X), "self.id") || !strings.HasSuffix(cx(be.Y), "peer.id") {
					return true
				}
				eb, ok := ifs.Else.(*ast.BlockStmt)
				if !ok {
					return true
				}
				n++
				run.Count("id-ordered-branches", 1)
				key := fmt.Sprintf("gmw.%s/self.id<peer.id#%d", fd.Name.Name, n)
				a, b := commEvents(ifs.Body.List), commEvents(eb.List)
				want := dualEvents(a)
				mirror := strings.Join(want, " ") == strings.Join(b, " ")
				okAsync, whyAsync := asyncCompatible(a, b)
				boundWhy, bounded := boundedPayload[fd.Name.Name]
				switch {
				case len(a) == 0:
					run.Undecided("id-ordered-mirror", key, p.Rel(ifs.Pos()), "no communication in the branch")
				case !okAsync:
					run.Violate("id-ordered-mirror", key, p.Rel(ifs.Pos()), fmt.Sprintf("lower id does %v, higher id does %v: %s", a, b, whyAsync), nil)
				case mirror:
					run.OK("id-ordered-mirror", key, p.Rel(ifs.Pos()), strings.Join(a, " "))
				case bounded:
					run.OK("id-ordered-mirror", key, p.Rel(ifs.Pos()), "both sides send before they receive; tolerated: "+boundWhy)
				default:
					run.Violate("id-ordered-mirror", key, p.Rel(ifs.Pos()), fmt.Sprintf("lower id does %v, higher id does %v, expected %v: with payloads of unbounded size both sides can block in their send", a, b, want), nil)
				}
				return true
			})
			// completeness: an exchange with the peer of a loop over the peers that is *not* under an id
			// comparison has both parties send first (or both wait first)
			ast.Inspect(fd.Body, func(x ast.Node) bool {
				rs, ok := x.(*ast.RangeStmt)
				if !ok || !strings.HasSuffix(cx(rs.X), ".peers") {
					return true
				}
				var outside []string
				var visit func(list []ast.Stmt)
				visit = func(list []ast.Stmt) {
					for _, st := range list {
						switch t := st.(type) {
						case *ast.GoStmt:
							// sent from its own goroutine: it does not hold up the receive below
							continue
						case *ast.IfStmt:
							if be, ok := t.Cond.(*ast.BinaryExpr); ok && be.Op == token.LSS && strings.HasSuffix(cx(be.X), ".id") && strings.HasSuffix(cx(be.Y), ".id") {
								continue // an id-ordered exchange, judged above
							}
							if t.Init != nil {
								outside = append(outside, commEvents([]ast.Stmt{t.Init})...)
							}
							visit(t.Body.List)
							if eb, ok := t.Else.(*ast.BlockStmt); ok {
								visit(eb.List)
							}
						case *ast.BlockStmt:
							visit(t.List)
						default:
							outside = append(outside, commEvents([]ast.Stmt{st})...)
						}
					}
				}
				visit(rs.Body.List)
				sends, recvs := false, false
				for _, e := range outside {
					if e[0] == '!' {
						sends = true
					} else {
						recvs = true
					}
				}
				run.Count("peer-loops", 1)
				if _, bounded := boundedPayload[fd.Name.Name]; sends && recvs && !bounded {
					run.Violate("id-ordered-mirror", fmt.Sprintf("gmw.%s/peer loop", fd.Name.Name), p.Rel(rs.Pos()), fmt.Sprintf("the loop over the peers does %v with each peer outside any id comparison: both parties of a pair run this same code, so both send first; with payloads larger than the connection buffers both block in their send", outside), nil)
				}
				return true
			})
		}
	}
	run.Floor("id-ordered-branches", 5)
	run.Floor("peer-loops", 4)
}

// boundedPayload: functions whose id-ordered exchanges carry vectors of a constant, small size (frozen, one reason each;
// the constant itself is checked by the triple-batch-words rule).
var boundedPayload = map[string]string{
	"tripleBatch": "the vectors have batchSize/64 words (at most 1 KiB for the batch sizes 4096 and 8192), far below the 64 KiB write buffer of a connection",
}

// asyncCompatible runs the two sequences against each other with unbounded FIFO buffers: sends never block,
// a receive needs the matching message at the head of the queue.  It fails on a type mismatch or when both sides wait.
func asyncCompatible(a, b []string) (bool, string) {
	var qab, qba []string // messages in flight a->b and b->a
	i, j := 0, 0
	for i < len(a) || j < len(b) {
		moved := false
		if i < len(a) {
			if a[i][0] == '!' {
				qab = append(qab, a[i][1:])
				i++
				moved = true
			} else if len(qba) > 0 {
				if qba[0] != a[i][1:] {
					return false, fmt.Sprintf("the lower id expects %s, the higher id sent %s", a[i][1:], qba[0])
				}
				qba = qba[1:]
				i++
				moved = true
			}
		}
		if j < len(b) {
			if b[j][0] == '!' {
				qba = append(qba, b[j][1:])
				j++
				moved = true
			} else if len(qab) > 0 {
				if qab[0] != b[j][1:] {
					return false, fmt.Sprintf("the higher id expects %s, the lower id sent %s", b[j][1:], qab[0])
				}
				qab = qab[1:]
				j++
				moved = true
			}
		}
		if !moved {
			return false, "both sides wait for a message that is never sent"
		}
	}
	if len(qab)+len(qba) > 0 {
		return false, "messages are left unread"
	}
	return true, ""
}
