package props

import (
	"fmt"
	"go/ast"
	"strings"

	"mpcverif/internal/dispatch"
	"mpcverif/internal/load"
	"mpcverif/internal/report"
)

// C10opening: opening a shared vector gives every party the XOR of all shares.
//
// broadcastXOR and broadcastXORs exchange the local share vector with every
// peer and accumulate what comes back.  The Beaver rule treats their result as
// the opened value; this rule decides that it is: the body is interpreted for
// every party of a 2-, 3- and 4-party mesh (thorough: 5) with one-element
// vectors whose element is a GF(2) variable per party.  Slices keep Go's
// sharing (dOpen := d aliases, copyOf copies), a send records the vector's
// contents at that moment, and a receive from peer q delivers what q's own
// interpretation had sent to this party when it reached that point.  Every
// party must return x_0 ^ ... ^ x_{n-1}, and every vector it sends must be
// its own share.
func C10opening(p *load.Program, run *report.Run) {
	run.Rule("opening-sum", "broadcastXOR and broadcastXORs, interpreted from source for every party of a 2..4-party mesh with symbolic one-word shares and Go's slice sharing, return the XOR of all parties' shares at every party, and every vector sent to a peer still holds the sender's own share")
	pkg := p.ByPath[load.Module+"/gmw"]
	for _, fname := range []string{"broadcastXOR", "broadcastXORs"} {
		_, fd := dispatch.FindFunc(p, "gmw", "Network", fname)
		key := "gmw.Network." + fname
		if pkg == nil || fd == nil {
			run.Undecided("opening-sum", key, "", "function not found")
			continue
		}
		var vecParams []string
		for _, f := range fd.Type.Params.List {
			for _, n := range f.Names {
				vecParams = append(vecParams, cx(n))
			}
		}
		recv := cx(fd.Recv.List[0].Names[0])
		bad := ""
		cells := 0
		for _, n := range partyCounts() {
			if bad != "" {
				break
			}
			// sent[p][q]: what party p sent to party q (one gpoly per vector), filled on demand
			type key2 struct{ p, q int }
			sent := map[key2][]gpoly{}
			var runParty func(self int, until *key2) ([]gpoly, string)
			depth := 0
			runParty = func(self int, until *key2) ([]gpoly, string) {
				depth++
				defer func() { depth-- }()
				if depth > 40 {
					return nil, "the exchange does not terminate (cyclic dependency between sends)"
				}
				w := &wInterp{pkg: pkg}
				w.push()
				var peers wtuple
				for i := 0; i < n; i++ {
					peers = append(peers, fmt.Sprintf("peer%d", i))
				}
				w.set(recv+".peers", peers, true)
				w.set(recv+".self", fmt.Sprintf("peer%d", self), true)
				for k, v := range vecParams {
					w.set(v, []wv{gvar(fmt.Sprintf("x%d_%d", k, self))}, true)
				}
				stop := false
				fail := ""
				idOf := func(v wv) (int, bool) {
					s, ok := v.(string)
					if !ok || !strings.HasPrefix(s, "peer") {
						return 0, false
					}
					var id int
					fmt.Sscan(s[4:], &id)
					return id, true
				}
				w.hook = func(name string, c *ast.CallExpr) (wv, bool) {
					if stop {
						return nil, true
					}
					switch {
					case name == "copyOf" && len(c.Args) == 1:
						src, ok := w.expr(c.Args[0]).([]wv)
						if !ok {
							return w.bad("copyOf of a non-vector"), true
						}
						return append([]wv{}, src...), true
					case name == "xorBitvec" && len(c.Args) == 2:
						dst, ok1 := w.expr(c.Args[0]).([]wv)
						src, ok2 := w.expr(c.Args[1]).([]wv)
						if !ok1 || !ok2 || len(dst) < len(src) {
							return w.bad("xorBitvec of non-vectors"), true
						}
						for i := range src {
							a, _ := dst[i].(gpoly)
							b, _ := src[i].(gpoly)
							dst[i] = a.xor(b)
						}
						return nil, true
					case strings.HasPrefix(name, "SendBitvec"):
						sel, ok := c.Fun.(*ast.SelectorExpr)
						if !ok {
							return nil, false
						}
						q, ok := idOf(w.expr(sel.X))
						if !ok {
							return w.bad("send to an unknown peer"), true
						}
						var vs []gpoly
						for _, a := range c.Args[1:] {
							v, ok := w.expr(a).([]wv)
							if !ok || len(v) != 1 {
								return w.bad("send of a non-vector"), true
							}
							g, _ := v[0].(gpoly)
							vs = append(vs, g)
						}
						sent[key2{self, q}] = vs
						if until != nil && until.p == self && until.q == q {
							stop = true
						}
						return nil, true
					case strings.HasPrefix(name, "ReceiveBitvec"):
						sel, ok := c.Fun.(*ast.SelectorExpr)
						if !ok {
							return nil, false
						}
						q, ok := idOf(w.expr(sel.X))
						if !ok {
							return w.bad("receive from an unknown peer"), true
						}
						vs, have := sent[key2{q, self}]
						if !have {
							if _, f := runParty(q, &key2{q, self}); f != "" {
								fail = f
								stop = true
								return nil, true
							}
							vs, have = sent[key2{q, self}]
						}
						if !have || len(vs) != len(c.Args)-1 {
							fail = fmt.Sprintf("party %d waits for a vector party %d never sends", self, q)
							stop = true
							return nil, true
						}
						for k, a := range c.Args[1:] {
							dst, ok := w.expr(a).([]wv)
							if !ok || len(dst) != 1 {
								return w.bad("receive into a non-vector"), true
							}
							dst[0] = vs[k]
						}
						return nil, true
					}
					return nil, false
				}
				// field reads: peer.id, self.id, peer.online
				for i := 0; i < n; i++ {
					w.set(fmt.Sprintf("peer%d.id", i), int64(i), true)
					w.set(fmt.Sprintf("peer%d.online", i), fmt.Sprintf("online%d", i), true)
				}
				o := opnStmts(w, fd.Body.List, &stop)
				if fail != "" {
					return nil, fail
				}
				if w.fail != "" {
					return nil, "not interpreted: " + w.fail
				}
				if stop {
					return nil, ""
				}
				if o == nil {
					return nil, "the function does not return its vectors"
				}
				return o, ""
			}
			for self := 0; self < n && bad == ""; self++ {
				for k := range sent {
					delete(sent, k)
				}
				res, f := runParty(self, nil)
				cells++
				if f != "" {
					bad = fmt.Sprintf("%d parties, party %d: %s", n, self, f)
					break
				}
				for k := range vecParams {
					want := gpoly{}
					for i := 0; i < n; i++ {
						want = want.xor(gvar(fmt.Sprintf("x%d_%d", k, i)))
					}
					if k >= len(res) || res[k].String() != want.String() {
						got := "nothing"
						if k < len(res) {
							got = res[k].String()
						}
						bad = fmt.Sprintf("%d parties, party %d: the opened value of %s is %s, the sum of all shares is %s", n, self, vecParams[k], got, want)
					}
				}
				for kq, vs := range sent {
					for k, v := range vs {
						if own := gvar(fmt.Sprintf("x%d_%d", k, kq.p)); v.String() != own.String() && bad == "" {
							bad = fmt.Sprintf("%d parties: party %d sends %s to party %d instead of its own share %s (the vector was modified while it was still being sent)", n, kq.p, v, kq.q, own)
						}
					}
				}
			}
		}
		run.Count("opening-cells", cells)
		switch {
		case strings.Contains(bad, "not interpreted"):
			run.Undecided("opening-sum", key, p.Rel(fd.Pos()), bad)
		case bad != "":
			run.Violate("opening-sum", key, p.Rel(fd.Pos()), bad, nil)
		default:
			run.OK("opening-sum", key, p.Rel(fd.Pos()), fmt.Sprintf("%d party executions", cells))
		}
	}
	run.Floor("opening-cells", 12)
}

// opnStmts runs the body; on a return it evaluates the vector results (all but the last, the error).
func opnStmts(w *wInterp, list []ast.Stmt, stop *bool) []gpoly {
	var result []gpoly
	var walk func(list []ast.Stmt) bool
	// wInterp evaluates returns itself; to read the returned vectors the top-level return is handled here
	walk = func(list []ast.Stmt) bool {
		for _, st := range list {
			if *stop || w.fail != "" {
				return true
			}
			if r, ok := st.(*ast.ReturnStmt); ok && len(r.Results) >= 2 {
				for _, e := range r.Results[:len(r.Results)-1] {
					v, ok := w.expr(e).([]wv)
					if !ok || len(v) != 1 {
						w.bad("result %s is not a vector", cx(e))
						return true
					}
					g, _ := v[0].(gpoly)
					result = append(result, g)
				}
				return true
			}
			if o := w.stmt(st); o.kind == "return" {
				return true
			}
		}
		return false
	}
	walk(list)
	return result
}
