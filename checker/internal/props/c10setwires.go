package props

import (
	"fmt"
	"go/ast"
	"go/token"
	"go/types"
	"sort"
	"strings"

	"mpcverif/internal/dispatch"
	"mpcverif/internal/load"
	"mpcverif/internal/report"
)

// C10setwires: the footprint of gmw.Network.setWires.
//
// setWires(o, v) places party o's input share v on o's input wires.  Shares are
// drawn and transported bytewise, so v may carry up to 7 (here: 9) random bits
// above the input width.  The body is evaluated on abstract bit vectors
// (position -> atom) for small party counts and width tuples; after all
// parties' shares are placed (in either order) wire offset(o)+i must hold bit i
// of o's share for i < width(o) and nothing else may be set: an excess bit that
// lands on a neighbour's wires corrupts that party's input.
func C10setwires(p *load.Program, run *report.Run) {
	run.Rule("input-share-footprint", "setWires(o, v) writes exactly wires[offset(o)+i] = v.bit(i) for i < width(o), for every small width tuple (2-3 parties, widths from {1,3,8,13}) even when v carries excess bits above the width")
	pkg, fd := dispatch.FindFunc(p, "gmw", "Network", "setWires")
	if fd == nil || fd.Type.Params.NumFields() != 2 {
		run.Undecided("input-share-footprint", "gmw.Network.setWires", "", "function with two parameters not found")
		return
	}
	info := pkg.TypesInfo
	var params []types.Object
	for _, f := range fd.Type.Params.List {
		for _, n := range f.Names {
			params = append(params, info.ObjectOf(n))
		}
	}
	if len(params) != 2 {
		run.Undecided("input-share-footprint", "gmw.Network.setWires", p.Rel(fd.Pos()), "unnamed parameters")
		return
	}
	widthsSets := [][]int{}
	ws := []int{1, 3, 8, 13}
	if Deep {
		ws = []int{1, 2, 3, 7, 8, 9, 13, 16, 31}
	}
	for _, a := range ws {
		for _, b := range ws {
			widthsSets = append(widthsSets, []int{a, b})
		}
	}
	for _, a := range []int{1, 5, 8} {
		for _, b := range []int{1, 5, 8} {
			for _, c := range []int{1, 5, 8} {
				widthsSets = append(widthsSets, []int{a, b, c})
			}
		}
	}
	for _, widths := range widthsSets {
		for _, descending := range []bool{false, true} {
			key := fmt.Sprintf("gmw.Network.setWires/widths=%v/desc=%v", widths, descending)
			ev := &swEval{info: info, peerObj: params[0], inputObj: params[1], widths: widths, big: map[string]bitvec{}, elemOf: map[types.Object]int{}}
			order := []int{}
			for o := range widths {
				order = append(order, o)
			}
			if descending {
				sort.Sort(sort.Reverse(sort.IntSlice(order)))
			}
			for _, o := range order {
				ev.party = o
				ev.ints = map[types.Object]int{}
				ev.locals = map[types.Object]bitvec{}
				ev.block(fd.Body.List)
				if ev.fail != "" {
					break
				}
			}
			run.Count("setwires-shapes", 1)
			if ev.fail != "" {
				run.Undecided("input-share-footprint", key, p.Rel(fd.Pos()), ev.fail)
				continue
			}
			// the field that received the shares
			bad := ""
			if len(ev.big) != 1 {
				bad = fmt.Sprintf("%d big-integer fields written", len(ev.big))
			}
			for _, vec := range ev.big {
				ofs := 0
				want := bitvec{}
				for o, w := range widths {
					for i := 0; i < w; i++ {
						want[ofs+i] = fmt.Sprintf("in%d.b%d", o, i)
					}
					ofs += w
				}
				for pos, a := range vec {
					if want[pos] != a {
						bad = fmt.Sprintf("wire %d holds %s, expected %s", pos, a, orZero(want[pos]))
						break
					}
				}
				for pos, a := range want {
					if vec[pos] != a && bad == "" {
						bad = fmt.Sprintf("wire %d holds %s, expected %s", pos, orZero(vec[pos]), a)
					}
				}
			}
			if bad != "" {
				run.Violate("input-share-footprint", key, p.Rel(fd.Pos()), bad+": a share's bits above the input width (or a wrong offset) reach another wire", nil)
			} else {
				run.OK("input-share-footprint", key, p.Rel(fd.Pos()), "exact footprint")
			}
		}
	}
	run.Floor("setwires-shapes", 40)
}

func orZero(s string) string {
	if s == "" {
		return "0"
	}
	return s
}

type bitvec map[int]string

type swEval struct {
	info     *types.Info
	peerObj  types.Object
	inputObj types.Object
	widths   []int
	party    int
	// elemOf: a range value variable bound to element k of the width tuple (its .Type.Bits is widths[k])
	elemOf map[types.Object]int
	// memberCall: a method call on such an element that yields that member's bits (plus excess bits)
	memberCall string
	// seqSuffix: the selector suffix of the sequence whose length is the number of widths (".Inputs", ".Compound")
	seqSuffix string
	ret       bitvec
	returned  bool
	// lenOf: lengths of slice parameters
	lenOf  map[types.Object]int
	ints   map[types.Object]int
	locals map[types.Object]bitvec
	big    map[string]bitvec // receiver field -> vector
	fail   string
	steps  int
}

func (e *swEval) bad(f string, a ...any) {
	if e.fail == "" {
		e.fail = fmt.Sprintf(f, a...)
	}
}

func (e *swEval) inputVec() bitvec {
	w := e.widths[e.party]
	v := bitvec{}
	for i := 0; i < w; i++ {
		v[i] = fmt.Sprintf("in%d.b%d", e.party, i)
	}
	for i := w; i < w+9; i++ {
		v[i] = fmt.Sprintf("excess%d.b%d", e.party, i)
	}
	return v
}

func (e *swEval) block(list []ast.Stmt) {
	for _, st := range effectiveQ(e.info, list) {
		if e.fail != "" || e.returned {
			return
		}
		e.stmt(st)
	}
}

func (e *swEval) stmt(st ast.Stmt) {
	e.steps++
	if e.steps > 20000 {
		e.bad("step budget exceeded")
		return
	}
	switch s := st.(type) {
	case *ast.EmptyStmt:
	case *ast.DeclStmt:
		gd, ok := s.Decl.(*ast.GenDecl)
		if !ok || gd.Tok != token.VAR {
			e.bad("declaration not modelled")
			return
		}
		for _, sp := range gd.Specs {
			vs := sp.(*ast.ValueSpec)
			for i, n := range vs.Names {
				obj := e.info.ObjectOf(n)
				if isBigInt(obj.Type()) {
					if len(vs.Values) > i {
						e.locals[obj] = e.bigVal(vs.Values[i])
					} else {
						e.locals[obj] = bitvec{}
					}
				} else if len(vs.Values) > i {
					e.ints[obj] = e.intVal(vs.Values[i])
				} else {
					e.ints[obj] = 0
				}
			}
		}
	case *ast.AssignStmt:
		if len(s.Lhs) == 2 && len(s.Rhs) == 1 {
			// v, err := <member>.Parse(...)
			if id, ok := s.Lhs[0].(*ast.Ident); ok && isBigInt(e.info.TypeOf(id)) {
				if v, ok := e.memberValue(s.Rhs[0]); ok {
					e.locals[e.info.ObjectOf(id)] = v
					return
				}
			}
		}
		if len(s.Lhs) != 1 || len(s.Rhs) != 1 {
			e.bad("multi-assignment not modelled")
			return
		}
		id, ok := s.Lhs[0].(*ast.Ident)
		if !ok {
			e.bad("assignment to %s not modelled", types.ExprString(s.Lhs[0]))
			return
		}
		if id.Name == "_" {
			return
		}
		obj := e.info.ObjectOf(id)
		if isBigInt(obj.Type()) {
			if s.Tok != token.DEFINE && s.Tok != token.ASSIGN {
				e.bad("operator %s on big integer", s.Tok)
				return
			}
			e.locals[obj] = e.bigVal(s.Rhs[0])
			return
		}
		v := e.intVal(s.Rhs[0])
		switch s.Tok {
		case token.DEFINE, token.ASSIGN:
			e.ints[obj] = v
		case token.ADD_ASSIGN:
			e.ints[obj] += v
		case token.SUB_ASSIGN:
			e.ints[obj] -= v
		default:
			e.bad("operator %s not modelled", s.Tok)
		}
	case *ast.IncDecStmt:
		id, ok := s.X.(*ast.Ident)
		if !ok {
			e.bad("inc/dec target not modelled")
			return
		}
		if s.Tok == token.INC {
			e.ints[e.info.ObjectOf(id)]++
		} else {
			e.ints[e.info.ObjectOf(id)]--
		}
	case *ast.ForStmt:
		if s.Init != nil {
			e.stmt(s.Init)
		}
		for n := 0; e.fail == ""; n++ {
			if n > 4096 {
				e.bad("loop bound exceeded")
				return
			}
			if s.Cond != nil && !e.cond(s.Cond) {
				break
			}
			e.block(s.Body.List)
			if s.Post != nil {
				e.stmt(s.Post)
			}
		}
	case *ast.RangeStmt:
		if e.seqSuffix != "" && strings.HasSuffix(types.ExprString(s.X), e.seqSuffix) {
			// for k, m := range <seq>: m is element k of the width tuple
			for k := range e.widths {
				if id, ok := s.Key.(*ast.Ident); ok && id.Name != "_" {
					e.ints[e.info.ObjectOf(id)] = k
				}
				if id, ok := s.Value.(*ast.Ident); ok && id.Name != "_" {
					e.elemOf[e.info.ObjectOf(id)] = k
				}
				e.block(s.Body.List)
				if e.fail != "" || e.returned {
					return
				}
			}
			return
		}
		// for i := range N
		id, ok := s.Key.(*ast.Ident)
		if !ok || s.Value != nil {
			e.bad("range form not modelled")
			return
		}
		n := e.intVal(s.X)
		obj := e.info.ObjectOf(id)
		for i := 0; i < n && e.fail == ""; i++ {
			e.ints[obj] = i
			e.block(s.Body.List)
		}
	case *ast.IfStmt:
		if s.Init != nil {
			e.stmt(s.Init)
		}
		if e.cond(s.Cond) {
			e.block(s.Body.List)
		} else if s.Else != nil {
			switch el := s.Else.(type) {
			case *ast.BlockStmt:
				e.block(el.List)
			default:
				e.stmt(el)
			}
		}
	case *ast.ExprStmt:
		call, ok := s.X.(*ast.CallExpr)
		if !ok {
			e.bad("expression statement not modelled")
			return
		}
		if stdQuiet(e.info, call) {
			return
		}
		e.bigVal(call)
	case *ast.BlockStmt:
		e.block(s.List)
	case *ast.ReturnStmt:
		if len(s.Results) > 0 && isBigInt(e.info.TypeOf(s.Results[0])) {
			if id, ok := ast.Unparen(s.Results[0]).(*ast.Ident); !ok || id.Name != "nil" {
				e.ret = e.bigGet(s.Results[0])
			}
		}
		e.returned = true
	default:
		e.bad("statement %T not modelled", st)
	}
}

func isBigInt(t types.Type) bool {
	if p, ok := t.(*types.Pointer); ok {
		t = p.Elem()
	}
	n, ok := t.(*types.Named)
	return ok && n.Obj().Pkg() != nil && n.Obj().Pkg().Path() == "math/big" && n.Obj().Name() == "Int"
}

func (e *swEval) cond(x ast.Expr) bool {
	be, ok := ast.Unparen(x).(*ast.BinaryExpr)
	if !ok {
		e.bad("condition %s not modelled", types.ExprString(x))
		return false
	}
	switch be.Op {
	case token.LAND:
		return e.cond(be.X) && e.cond(be.Y)
	case token.LOR:
		return e.cond(be.X) || e.cond(be.Y)
	}
	// err != nil: the honest path has no error
	if t := e.info.TypeOf(be.X); t != nil && t.String() == "error" {
		if id, ok := ast.Unparen(be.Y).(*ast.Ident); ok && id.Name == "nil" {
			return be.Op == token.EQL
		}
	}
	a, b := e.intVal(be.X), e.intVal(be.Y)
	switch be.Op {
	case token.LSS:
		return a < b
	case token.LEQ:
		return a <= b
	case token.GTR:
		return a > b
	case token.GEQ:
		return a >= b
	case token.EQL:
		return a == b
	case token.NEQ:
		return a != b
	}
	e.bad("comparison %s not modelled", be.Op)
	return false
}

// intVal evaluates an integer expression; circ.Inputs[k].Type.Bits is width k, <peer>.id the party.
func (e *swEval) intVal(x ast.Expr) int {
	x = ast.Unparen(x)
	if tv, ok := e.info.Types[x]; ok && tv.Value != nil {
		var n int
		fmt.Sscan(tv.Value.String(), &n)
		return n
	}
	switch t := x.(type) {
	case *ast.Ident:
		if v, ok := e.ints[e.info.ObjectOf(t)]; ok {
			return v
		}
		e.bad("integer %s not known", t.Name)
	case *ast.CallExpr:
		if len(t.Args) == 1 {
			if tv, ok := e.info.Types[t.Fun]; ok && tv.IsType() {
				return e.intVal(t.Args[0])
			}
		}
		if id, ok := t.Fun.(*ast.Ident); ok && id.Name == "len" && len(t.Args) == 1 {
			if aid, ok := ast.Unparen(t.Args[0]).(*ast.Ident); ok {
				if n, ok := e.lenOf[e.info.ObjectOf(aid)]; ok {
					return n
				}
			}
			if strings.HasSuffix(types.ExprString(t.Args[0]), ".Inputs") || (e.seqSuffix != "" && strings.HasSuffix(types.ExprString(t.Args[0]), e.seqSuffix)) {
				return len(e.widths)
			}
		}
		e.bad("integer call %s not modelled", types.ExprString(t.Fun))
	case *ast.SelectorExpr:
		// <peer>.id
		if id, ok := t.X.(*ast.Ident); ok && e.info.ObjectOf(id) == e.peerObj {
			if bt, ok := e.info.TypeOf(t).Underlying().(*types.Basic); ok && bt.Info()&types.IsInteger != 0 {
				return e.party
			}
		}
		// <element>.Type.Bits for a range value bound to element k
		if t.Sel.Name == "Bits" {
			if in, ok := t.X.(*ast.SelectorExpr); ok {
				if id, ok := in.X.(*ast.Ident); ok {
					if k, ok := e.elemOf[e.info.ObjectOf(id)]; ok {
						return e.widths[k]
					}
				}
			}
		}
		// ….Inputs[k].Type.Bits  (also ….Inputs[k].Type.Bits through a local)
		if t.Sel.Name == "Bits" {
			if in, ok := t.X.(*ast.SelectorExpr); ok {
				if ix, ok := in.X.(*ast.IndexExpr); ok && strings.HasSuffix(types.ExprString(ix.X), ".Inputs") {
					k := e.intVal(ix.Index)
					if k < 0 || k >= len(e.widths) {
						e.bad("input index %d out of range", k)
						return 0
					}
					return e.widths[k]
				}
			}
		}
		e.bad("selector %s not modelled", types.ExprString(t))
	case *ast.BinaryExpr:
		a, b := e.intVal(t.X), e.intVal(t.Y)
		switch t.Op {
		case token.ADD:
			return a + b
		case token.SUB:
			return a - b
		case token.MUL:
			return a * b
		case token.QUO:
			if b != 0 {
				return a / b
			}
		case token.REM:
			if b != 0 {
				return a % b
			}
		}
		e.bad("integer operator %s not modelled", t.Op)
	default:
		e.bad("integer expression %s not modelled", types.ExprString(x))
	}
	return 0
}

// bigLoc: where a big-integer expression lives: a receiver field (by name) or a local.
func (e *swEval) bigGet(x ast.Expr) bitvec {
	x = ast.Unparen(x)
	switch t := x.(type) {
	case *ast.Ident:
		obj := e.info.ObjectOf(t)
		if obj == e.inputObj {
			return e.inputVec()
		}
		if v, ok := e.locals[obj]; ok {
			return v
		}
		e.bad("big integer %s not known", t.Name)
	case *ast.SelectorExpr:
		if v, ok := e.big[t.Sel.Name]; ok {
			return v
		}
		return bitvec{}
	case *ast.UnaryExpr:
		if t.Op == token.AND {
			return e.bigGet(t.X)
		}
	case *ast.CallExpr:
		return e.bigVal(t)
	}
	e.bad("big integer expression %s not modelled", types.ExprString(x))
	return bitvec{}
}

func (e *swEval) bigSet(x ast.Expr, v bitvec) {
	x = ast.Unparen(x)
	switch t := x.(type) {
	case *ast.Ident:
		e.locals[e.info.ObjectOf(t)] = v
	case *ast.SelectorExpr:
		e.big[t.Sel.Name] = v
	case *ast.UnaryExpr:
		if t.Op == token.AND {
			e.bigSet(t.X, v)
		}
	case *ast.CallExpr: // new(big.Int), big.NewInt(0): a temporary
	default:
		e.bad("big integer target %s not modelled", types.ExprString(x))
	}
}

func (e *swEval) bit(x ast.Expr) string {
	x = ast.Unparen(x)
	if tv, ok := e.info.Types[x]; ok && tv.Value != nil {
		if tv.Value.String() == "0" {
			return ""
		}
		return "1"
	}
	if call, ok := x.(*ast.CallExpr); ok {
		if sel, ok := call.Fun.(*ast.SelectorExpr); ok && sel.Sel.Name == "Bit" && len(call.Args) == 1 && isBigInt(e.info.TypeOf(sel.X)) {
			return e.bigGet(sel.X)[e.intVal(call.Args[0])]
		}
		if len(call.Args) == 1 {
			if tv, ok := e.info.Types[call.Fun]; ok && tv.IsType() {
				return e.bit(call.Args[0])
			}
		}
	}
	e.bad("bit expression %s not modelled", types.ExprString(x))
	return ""
}

// bigVal evaluates a math/big method chain and performs its store into the receiver.
func (e *swEval) bigVal(x ast.Expr) bitvec {
	x = ast.Unparen(x)
	call, ok := x.(*ast.CallExpr)
	if !ok {
		return e.bigGet(x)
	}
	if id, ok := call.Fun.(*ast.Ident); ok && id.Name == "new" {
		return bitvec{}
	}
	sel, ok := call.Fun.(*ast.SelectorExpr)
	if !ok {
		e.bad("call %s not modelled", types.ExprString(call.Fun))
		return bitvec{}
	}
	if pk, ok := sel.X.(*ast.Ident); ok {
		if _, isPkg := e.info.ObjectOf(pk).(*types.PkgName); isPkg && sel.Sel.Name == "NewInt" {
			k := e.intVal(call.Args[0])
			out := bitvec{}
			for i := 0; k > 0 && i < 62; i, k = i+1, k>>1 {
				if k&1 == 1 {
					out[i] = "1"
				}
			}
			return out
		}
	}
	if !isBigInt(e.info.TypeOf(sel.X)) {
		e.bad("method %s on %s not modelled", sel.Sel.Name, types.ExprString(sel.X))
		return bitvec{}
	}
	comb := func(op string, a, b bitvec) bitvec {
		out := bitvec{}
		for p, v := range a {
			out[p] = v
		}
		for p, v := range b {
			if old, ok := out[p]; ok && old != "" {
				if op == "&" {
					switch {
					case v == "1":
						out[p] = old
					case old == "1":
						out[p] = v
					default:
						out[p] = "(" + old + "&" + v + ")"
					}
				} else {
					out[p] = "(" + old + op + v + ")"
				}
			} else if op != "&" {
				out[p] = v
			}
		}
		if op == "&" {
			for p := range out {
				if _, ok := b[p]; !ok {
					delete(out, p)
				}
			}
		}
		return out
	}
	var res bitvec
	switch sel.Sel.Name {
	case "SetBit":
		src := e.bigGet(call.Args[0])
		res = bitvec{}
		for p, v := range src {
			res[p] = v
		}
		pos := e.intVal(call.Args[1])
		if b := e.bit(call.Args[2]); b == "" {
			delete(res, pos)
		} else {
			res[pos] = b
		}
	case "Or":
		res = comb("|", e.bigGet(call.Args[0]), e.bigGet(call.Args[1]))
	case "Xor":
		res = comb("^", e.bigGet(call.Args[0]), e.bigGet(call.Args[1]))
	case "And":
		res = comb("&", e.bigGet(call.Args[0]), e.bigGet(call.Args[1]))
	case "Lsh":
		n := e.intVal(call.Args[1])
		res = bitvec{}
		for p, v := range e.bigGet(call.Args[0]) {
			res[p+n] = v
		}
	case "Rsh":
		n := e.intVal(call.Args[1])
		res = bitvec{}
		for p, v := range e.bigGet(call.Args[0]) {
			if p-n >= 0 {
				res[p-n] = v
			}
		}
	case "Sub":
		// 2^w - 1: a mask of w ones
		a, b := e.bigGet(call.Args[0]), e.bigGet(call.Args[1])
		if len(a) == 1 && len(b) == 1 && b[0] == "1" {
			res = bitvec{}
			for p, v := range a {
				if v != "1" {
					e.bad("big.Int.Sub on a symbolic value")
				}
				for i := 0; i < p; i++ {
					res[i] = "1"
				}
			}
		} else {
			e.bad("big.Int.Sub not of the form 2^w - 1")
			return bitvec{}
		}
	case "Set":
		res = e.bigGet(call.Args[0])
	default:
		e.bad("big.Int.%s not modelled", sel.Sel.Name)
		return bitvec{}
	}
	e.bigSet(sel.X, res)
	return res
}

// memberValue: <element>.<memberCall>(…) yields the bits of member k followed by excess bits
// (a negative or over-wide literal is longer than the member).
func (e *swEval) memberValue(x ast.Expr) (bitvec, bool) {
	call, ok := ast.Unparen(x).(*ast.CallExpr)
	if !ok || e.memberCall == "" {
		return nil, false
	}
	sel, ok := call.Fun.(*ast.SelectorExpr)
	if !ok || sel.Sel.Name != e.memberCall {
		return nil, false
	}
	id, ok := sel.X.(*ast.Ident)
	if !ok {
		return nil, false
	}
	k, ok := e.elemOf[e.info.ObjectOf(id)]
	if !ok {
		return nil, false
	}
	save := e.party
	e.party = k
	v := e.inputVec()
	e.party = save
	return v, true
}
