package props

import (
	"fmt"
	"go/ast"
	"go/token"
	"go/types"
	"strings"

	"golang.org/x/tools/go/packages"

	"mpcverif/internal/dispatch"
	"mpcverif/internal/load"
	"mpcverif/internal/report"
)

// shareParty interprets the input-sharing and output-reconstruction code of gmw.Network.run for one party.
type shareParty struct {
	p      *load.Program
	pkg    *packages.Package
	self   int
	n      int
	peer   int
	env    map[string]gpoly // canonical lvalue -> value
	isSet  map[string]bool
	wires  map[int]gpoly // input region of party o -> share held by this party
	sent   map[int][]gpoly
	nrecv  map[int]int
	rename []map[string]string // callee identifier -> caller canonical root
	fail   string
	nrand  int
}

func (s *shareParty) bad(f string, a ...any) {
	if s.fail == "" {
		s.fail = fmt.Sprintf(f, a...)
	}
}

// canon rewrites the root identifier of a selector chain through the active renamings.
func (s *shareParty) canon(e ast.Expr) string {
	txt := cx(ast.Unparen(e))
	root, rest := txt, ""
	if i := strings.IndexAny(txt, ".["); i >= 0 {
		root, rest = txt[:i], txt[i:]
	}
	for i := len(s.rename) - 1; i >= 0; i-- {
		if r, ok := s.rename[i][root]; ok {
			root = r
			break
		}
	}
	// nw.self is self
	full := root + rest
	full = strings.Replace(full, "nw.self.", "self.", 1)
	if full == "nw.self" {
		full = "self"
	}
	return full
}

// partyOf maps a canonical peer expression to a party id.
func (s *shareParty) partyOf(e ast.Expr) (int, bool) {
	switch s.canon(e) {
	case "self":
		return s.self, true
	case "peer":
		return s.peer, true
	}
	return 0, false
}

func (s *shareParty) val(e ast.Expr) gpoly {
	e = ast.Unparen(e)
	if c, ok := e.(*ast.CallExpr); ok {
		recv, name, _ := callName(c)
		switch {
		case name == "SetBytes" || name == "Set":
			return s.val(c.Args[0])
		case name == "Bytes":
			return s.val(c.Fun.(*ast.SelectorExpr).X)
		case name == "NewInt":
			return gpoly{}
		case name == "Rsh" && strings.HasPrefix(recv, "new("):
			// the party's share of the output wires after the gate evaluation
			return gvar(fmt.Sprintf("z%d", s.self))
		case name == "new":
			return gpoly{}
		case name == "make":
			// a fresh byte buffer: the integer zero, written by FillBytes / XOR-ed into element-wise below
			return gpoly{}
		case name == "FillBytes":
			return s.val(c.Fun.(*ast.SelectorExpr).X)
		}
		s.bad("value of call %s is not modelled", cx(c.Fun))
		return nil
	}
	k := s.canon(e)
	if v, ok := s.env[k]; ok {
		return v
	}
	if k == "self.input" {
		return gvar(fmt.Sprintf("x%d", s.self))
	}
	s.bad("value of %s is not known", k)
	return nil
}

func (s *shareParty) inline(fn *types.Func, recvExpr ast.Expr, args []ast.Expr) {
	_, fd := declOf(s.p, fn)
	if fd == nil || fd.Body == nil {
		s.bad("no body for %s", fn.Name())
		return
	}
	ren := map[string]string{}
	if fd.Recv != nil && len(fd.Recv.List) == 1 && len(fd.Recv.List[0].Names) == 1 && recvExpr != nil {
		ren[fd.Recv.List[0].Names[0].Name] = s.canon(recvExpr)
	}
	i := 0
	for _, f := range fd.Type.Params.List {
		for _, n := range f.Names {
			if i < len(args) {
				// a value argument is copied into the callee's local
				refType := false
				if t := s.pkg.TypesInfo.TypeOf(args[i]); t != nil {
					switch t.Underlying().(type) {
					case *types.Slice, *types.Map:
						// the callee works on the caller's storage
						_, refType = s.env[s.canon(args[i])]
					}
				}
				if _, isPeer := s.partyOf(args[i]); isPeer || s.canon(args[i]) == "nw" || refType {
					ren[n.Name] = s.canon(args[i])
				} else {
					local := fmt.Sprintf("%s#%s", fn.Name(), n.Name)
					ren[n.Name] = local
					if v := s.val(args[i]); v != nil {
						s.env[local] = v
						s.isSet[local] = true
					}
				}
			}
			i++
		}
	}
	s.rename = append(s.rename, ren)
	s.stmts(fd.Body.List)
	s.rename = s.rename[:len(s.rename)-1]
}

var shareInlined = map[string]bool{"shareInput": true, "receiveInput": true, "sendOutput": true, "receiveOutput": true}

func (s *shareParty) call(c *ast.CallExpr, lhs []ast.Expr) {
	recv, name, _ := callName(c)
	var fn *types.Func
	switch f := c.Fun.(type) {
	case *ast.SelectorExpr:
		fn, _ = s.pkg.TypesInfo.Uses[f.Sel].(*types.Func)
	case *ast.Ident:
		fn, _ = s.pkg.TypesInfo.Uses[f].(*types.Func)
	}
	switch {
	case shareInlined[name] && fn != nil:
		s.inline(fn, c.Fun.(*ast.SelectorExpr).X, c.Args)
	case name == "setWires":
		if id, ok := s.partyOf(c.Args[0]); ok {
			if v := s.val(c.Args[1]); v != nil {
				s.wires[id] = v
			}
		} else {
			s.bad("setWires for an unknown party %s", cx(c.Args[0]))
		}
	case name == "Read" && recv == "rand":
		s.nrand++
		k := s.canon(c.Args[0])
		s.env[k] = gvar(fmt.Sprintf("r%d_%d_%d", s.self, s.peer, s.nrand))
		s.isSet[k] = true
	case name == "SendData":
		if v := s.val(c.Args[0]); v != nil {
			s.sent[s.peer] = append(s.sent[s.peer], v)
		}
	case name == "ReceiveData":
		k := s.nrecv[s.peer]
		s.nrecv[s.peer]++
		if len(lhs) > 0 {
			l := s.canon(lhs[0])
			s.env[l] = gvar(fmt.Sprintf("m%d_%d_%d", s.peer, s.self, k))
			s.isSet[l] = true
		}
	case name == "Xor":
		a, b := s.val(c.Args[0]), s.val(c.Args[1])
		if a != nil && b != nil {
			k := s.canon(c.Fun.(*ast.SelectorExpr).X)
			s.env[k] = a.xor(b)
			s.isSet[k] = true
		}
	case name == "Flush" || name == "Printf" || name == "debugf" || name == "andBatchFlush" || name == "SetBit" || name == "Errorf":
	case name == "FillBytes" && len(c.Args) == 1:
		// x.FillBytes(buf): buf holds x at its full width
		if v := s.val(c.Fun.(*ast.SelectorExpr).X); v != nil {
			k := s.canon(c.Args[0])
			s.env[k] = v
			s.isSet[k] = true
			if len(lhs) == 1 {
				l := s.canon(lhs[0])
				s.env[l] = v
				s.isSet[l] = true
			}
		}
	case name == "copy" && len(c.Args) == 2:
		if _, tracked := s.env[s.canon(c.Args[1])]; tracked {
			if v := s.val(c.Args[1]); v != nil {
				k := s.canon(c.Args[0])
				s.env[k] = v
				s.isSet[k] = true
			}
		}
	case name == "SetBytes" || name == "Bytes" || name == "Rsh" || name == "NewInt" || name == "Set" || name == "make":
		if len(lhs) == 1 {
			if v := s.val(c); v != nil {
				k := s.canon(lhs[0])
				s.env[k] = v
				s.isSet[k] = true
			}
		}
	default:
		// bookkeeping that does not touch shares
		_ = recv
	}
}

func (s *shareParty) touchesExchange(n ast.Node) bool {
	found := false
	ast.Inspect(n, func(m ast.Node) bool {
		if c, ok := m.(*ast.CallExpr); ok {
			_, name, _ := callName(c)
			if shareInlined[name] || name == "setWires" || name == "SendData" || name == "ReceiveData" {
				found = true
			}
		}
		return !found
	})
	return found
}

func (s *shareParty) stmts(list []ast.Stmt) tOutcome {
	for _, st := range list {
		if o := s.stmt(st); o != tNext || s.fail != "" {
			return o
		}
	}
	return tNext
}

func (s *shareParty) stmt(st ast.Stmt) tOutcome {
	if isQuiet(s.pkg.TypesInfo, st) {
		return tNext
	}
	switch x := st.(type) {
	case *ast.BlockStmt:
		return s.stmts(x.List)
	case *ast.ExprStmt:
		if c, ok := x.X.(*ast.CallExpr); ok {
			s.call(c, nil)
		}
	case *ast.AssignStmt:
		if len(x.Rhs) == 1 {
			if c, ok := x.Rhs[0].(*ast.CallExpr); ok {
				s.call(c, x.Lhs)
				return tNext
			}
			// plain copies of tracked values
			k := s.canon(x.Lhs[0])
			if _, tracked := s.env[s.canon(x.Rhs[0])]; tracked {
				s.env[k] = s.val(x.Rhs[0])
				s.isSet[k] = true
			}
		}
	case *ast.DeclStmt, *ast.IncDecStmt:
	case *ast.ReturnStmt:
		return tReturn
	case *ast.BranchStmt:
		if x.Tok == token.CONTINUE {
			return tContinue
		}
	case *ast.RangeStmt:
		// for i, b := range data { buf[i] ^= b }: buf ^= data (positions are the business of the length rule)
		if key, okK := x.Key.(*ast.Ident); okK && x.Value != nil && len(x.Body.List) == 1 {
			if as, ok := x.Body.List[0].(*ast.AssignStmt); ok && as.Tok == token.XOR_ASSIGN && len(as.Lhs) == 1 && len(as.Rhs) == 1 {
				ix, ok1 := as.Lhs[0].(*ast.IndexExpr)
				rv, ok2 := ast.Unparen(as.Rhs[0]).(*ast.Ident)
				vv, ok3 := x.Value.(*ast.Ident)
				if ok1 && ok2 && ok3 && rv.Name == vv.Name {
					if id, ok := ast.Unparen(ix.Index).(*ast.Ident); ok && id.Name == key.Name {
						if _, tracked := s.env[s.canon(x.X)]; tracked {
							a, b := s.val(ix.X), s.val(x.X)
							if a != nil && b != nil {
								k := s.canon(ix.X)
								s.env[k] = a.xor(b)
								s.isSet[k] = true
							}
							return tNext
						}
					}
				}
			}
		}
		if isSel(x.X, "peers") {
			for j := 0; j < s.n; j++ {
				s.peer = j
				if s.stmt(x.Body) == tReturn {
					return tNext
				}
			}
			return tNext
		}
		if s.touchesExchange(x.Body) {
			s.bad("an exchange inside a loop that is not over the peers")
		}
	case *ast.ForStmt:
		if s.touchesExchange(x.Body) {
			s.bad("an exchange inside a loop that is not over the peers")
		}
	case *ast.SwitchStmt:
		if s.touchesExchange(x.Body) {
			s.bad("an exchange inside a switch")
		}
	case *ast.IfStmt:
		if x.Init != nil {
			s.stmt(x.Init)
		}
		cs := cx(x.Cond)
		switch {
		case strings.Contains(cs, "err != nil") || cs == "verbose":
			return tNext
		case strings.HasSuffix(cs, "== nil"):
			be := x.Cond.(*ast.BinaryExpr)
			if !s.isSet[s.canon(be.X)] {
				return s.stmt(x.Body)
			} else if x.Else != nil {
				return s.stmt(x.Else)
			}
		case strings.Contains(cs, ".id"):
			m := &miniEval{pkg: s.pkg, env: miniEnv{"self.id": int64(s.self), "peer.id": int64(s.peer), "nw.self.id": int64(s.self)}}
			v, ok := m.boolOf(x.Cond)
			if !ok {
				s.bad("condition %s is not decided", cs)
				return tNext
			}
			if v {
				return s.stmt(x.Body)
			}
			if x.Else != nil {
				return s.stmt(x.Else)
			}
		default:
			if s.touchesExchange(x) {
				s.bad("an exchange under the undecided condition %s", cs)
			}
		}
	case *ast.GoStmt:
		// go func() { ch <- exchange(...) }(): the exchange runs (its messages are matched per ordered pair, so
		// when exactly it runs does not matter to the share algebra); the later `<-ch` only carries its error
		if fl, ok := x.Call.Fun.(*ast.FuncLit); ok && len(x.Call.Args) == 0 {
			for _, inner := range fl.Body.List {
				switch t := inner.(type) {
				case *ast.SendStmt:
					s.stmt(&ast.ExprStmt{X: t.Value})
				default:
					s.stmt(inner)
				}
			}
			return tNext
		}
		if s.touchesExchange(st) {
			s.bad("statement %T around an exchange is not modelled", st)
		}
	default:
		if s.touchesExchange(st) {
			s.bad("statement %T around an exchange is not modelled", st)
		}
	}
	return tNext
}

// C10shares: input sharing and output reconstruction are XOR-sharings.
func C10shares(p *load.Program, run *report.Run) {
	canonFor(p)
	run.Rule("input-sharing", "after the input phase the XOR over all parties of the shares they hold for party o's input equals o's input, for every o (random pads cancel)")
	run.Rule("output-reconstruction", "after the output phase every party holds the XOR of all parties' output shares")
	pkg := p.ByPath[load.Module+"/gmw"]
	_, fd := dispatch.FindFunc(p, "gmw", "Network", "run")
	if fd == nil || pkg == nil {
		run.Undecided("input-sharing", "gmw.Network.run", "", "function not found")
		return
	}
	// the interpretation below starts every party with a zero accumulator self.shared; that is an
	// assumption about what precedes run(): it holds iff the exported entry point assigns a fresh zero
	// big integer to the field unconditionally before calling run (otherwise a second Run on the same
	// network starts from the previous run's share)
	run.Rule("run-state-reset", "Network.Run assigns a fresh zero big integer to the XOR accumulator self.shared on every path before it calls run, so every evaluation starts its input sharing from zero")
	if _, entry := dispatch.FindFunc(p, "gmw", "Network", "Run"); entry == nil {
		run.Undecided("run-state-reset", "gmw.Network.Run", "", "function not found")
	} else {
		reset, called := false, false
		for _, st := range effectiveQ(pkg.TypesInfo, entry.Body.List) {
			if containsCall(st, "run") {
				called = true
				break
			}
			as, ok := st.(*ast.AssignStmt)
			if !ok || as.Tok != token.ASSIGN || len(as.Lhs) != 1 || len(as.Rhs) != 1 {
				continue
			}
			sel, ok := as.Lhs[0].(*ast.SelectorExpr)
			if !ok || sel.Sel.Name != "shared" {
				continue
			}
			if c, ok := as.Rhs[0].(*ast.CallExpr); ok {
				switch types.ExprString(c.Fun) {
				case "big.NewInt":
					if tv, ok := pkg.TypesInfo.Types[c.Args[0]]; ok && tv.Value != nil && tv.Value.String() == "0" {
						reset = true
					}
				case "new":
					if isBigInt(pkg.TypesInfo.TypeOf(c)) {
						reset = true
					}
				}
			}
		}
		run.Count("run-entry-points", 1)
		switch {
		case !called:
			run.Undecided("run-state-reset", "gmw.Network.Run", p.Rel(entry.Pos()), "no top-level call of run found")
		case !reset:
			run.Violate("run-state-reset", "gmw.Network.Run/self.shared", p.Rel(entry.Pos()), "the accumulator self.shared is not unconditionally reset to zero before run: a later Run on the same network XORs the new shares into the previous run's value", nil)
		default:
			run.OK("run-state-reset", "gmw.Network.Run/self.shared", p.Rel(entry.Pos()), "fresh zero before run")
		}
	}
	for _, n := range partyCounts() {
		run.Count("party-counts", 1)
		parties := make([]*shareParty, n)
		fail := ""
		for i := 0; i < n; i++ {
			s := &shareParty{p: p, pkg: pkg, self: i, n: n, env: map[string]gpoly{"self.shared": {}}, isSet: map[string]bool{"self.shared": true}, wires: map[int]gpoly{}, sent: map[int][]gpoly{}, nrecv: map[int]int{}}
			s.stmts(fd.Body.List)
			if s.fail != "" && fail == "" {
				fail = fmt.Sprintf("party %d: %s", i, s.fail)
			}
			parties[i] = s
		}
		keyI := fmt.Sprintf("gmw.Network.run/input-sharing/parties=%d", n)
		keyO := fmt.Sprintf("gmw.Network.run/output-reconstruction/parties=%d", n)
		if fail != "" {
			run.Undecided("input-sharing", keyI, p.Rel(fd.Pos()), fail)
			continue
		}
		sub := map[string]gpoly{}
		for i := 0; i < n && fail == ""; i++ {
			for j := 0; j < n; j++ {
				if i == j {
					continue
				}
				if parties[i].nrecv[j] != len(parties[j].sent[i]) {
					fail = fmt.Sprintf("party %d receives %d messages from %d, which sends %d", i, parties[i].nrecv[j], j, len(parties[j].sent[i]))
				}
				for k, v := range parties[j].sent[i] {
					sub[fmt.Sprintf("m%d_%d_%d", j, i, k)] = v
				}
			}
		}
		if fail != "" {
			run.Violate("input-sharing", keyI, p.Rel(fd.Pos()), fail, nil)
			continue
		}
		bad := ""
		for o := 0; o < n && bad == ""; o++ {
			sum := gpoly{}
			for i := 0; i < n; i++ {
				w, ok := parties[i].wires[o]
				if !ok {
					bad = fmt.Sprintf("party %d never sets its share of party %d's input", i, o)
					break
				}
				sum = sum.xor(w.subst(sub).subst(sub))
			}
			if bad == "" && sum.String() != gvar(fmt.Sprintf("x%d", o)).String() {
				bad = fmt.Sprintf("the shares of party %d's input add up to %s", o, sum)
			}
		}
		if bad != "" {
			run.Violate("input-sharing", keyI, p.Rel(fd.Pos()), bad, nil)
		} else {
			run.OK("input-sharing", keyI, p.Rel(fd.Pos()), fmt.Sprintf("%d inputs, pads cancel", n))
		}
		want := gpoly{}
		for i := 0; i < n; i++ {
			want = want.xor(gvar(fmt.Sprintf("z%d", i)))
		}
		bad = ""
		for i := 0; i < n && bad == ""; i++ {
			out, ok := parties[i].env["nw.output"]
			if !ok {
				bad = fmt.Sprintf("party %d has no output", i)
				break
			}
			out = out.subst(sub).subst(sub)
			if out.String() != want.String() {
				bad = fmt.Sprintf("party %d reconstructs %s", i, out)
			}
		}
		if bad != "" {
			run.Violate("output-reconstruction", keyO, p.Rel(fd.Pos()), bad, nil)
		} else {
			run.OK("output-reconstruction", keyO, p.Rel(fd.Pos()), want.String())
		}
	}
	run.Floor("party-counts", 3)
}
