package props

import (
	"fmt"
	"go/ast"
	"go/token"
	"go/types"
	"strings"

	"golang.org/x/tools/go/packages"

	"mpcverif/internal/dispatch"
	"mpcverif/internal/load"
	"mpcverif/internal/report"
)

func (a gpoly) clone() gpoly {
	r := gpoly{}
	for m := range a {
		r[m] = true
	}
	return r
}

// subst replaces variables by polynomials.
func (a gpoly) subst(m map[string]gpoly) gpoly {
	r := gpoly{}
	for mono := range a {
		term := gone()
		if mono != "" {
			for _, v := range strings.Split(mono, ",") {
				if p, ok := m[v]; ok {
					term = term.and(p)
				} else {
					term = term.and(gvar(v))
				}
			}
		}
		r = r.xor(term)
	}
	return r
}

// tripleParty interprets tripleBatch for one party over GF(2) polynomials (bit vectors are one symbol: every operation is bit-parallel).
type tripleParty struct {
	pkg   *packages.Package
	self  int
	n     int
	peer  int
	env   map[string]gpoly
	sent  map[int][]gpoly // to peer
	nrecv map[int]int
	fail  string
	final map[string]gpoly
	// extension points used by other rules built on this interpreter
	prog     *load.Program
	leafHook func(text string) (gpoly, bool)
	callHook func(recv, name string, c *ast.CallExpr, lhs []ast.Expr) bool
	condHook func(e ast.Expr) (val bool, ok bool)
	valHook  func(c *ast.CallExpr) (gpoly, bool)
	depth    int
}

func (t *tripleParty) bad(f string, a ...any) {
	if t.fail == "" {
		t.fail = fmt.Sprintf(f, a...)
	}
}

func baseName(e ast.Expr) string {
	e = ast.Unparen(e)
	if ix, ok := e.(*ast.IndexExpr); ok {
		return cx(ix.X)
	}
	if sl, ok := e.(*ast.SliceExpr); ok {
		return cx(sl.X)
	}
	return cx(e)
}

func (t *tripleParty) poly(e ast.Expr) gpoly {
	e = ast.Unparen(e)
	switch x := e.(type) {
	case *ast.BinaryExpr:
		if x.Op == token.SHL || x.Op == token.SHR {
			// one bit position stands for all: a shifted word is that word
			return t.poly(x.X)
		}
		a, b := t.poly(x.X), t.poly(x.Y)
		if a == nil || b == nil {
			return nil
		}
		switch x.Op {
		case token.XOR:
			return a.xor(b)
		case token.AND:
			return a.and(b)
		case token.OR:
			return a.xor(b).xor(a.and(b))
		case token.SHL:
			// one bit position stands for all: a shifted constant is that constant
			return a
		}
		t.bad("operator %s on bit vectors", x.Op)
		return nil
	case *ast.UnaryExpr:
		if x.Op == token.XOR { // ^uint64(0): all ones
			if v := t.poly(x.X); v != nil {
				return v.xor(gone())
			}
		}
	case *ast.CallExpr:
		if tv, ok := t.pkg.TypesInfo.Types[x.Fun]; ok && tv.IsType() && len(x.Args) == 1 {
			return t.poly(x.Args[0])
		}
		if t.valHook != nil {
			if v, ok := t.valHook(x); ok {
				return v
			}
		}
	case *ast.BasicLit:
		if x.Value == "0" {
			return gpoly{}
		}
		if x.Value == "1" {
			return gone()
		}
	case *ast.IndexExpr, *ast.Ident, *ast.SelectorExpr, *ast.SliceExpr:
		if v, ok := t.env[baseName(e)]; ok {
			return v
		}
		if t.leafHook != nil {
			if v, ok := t.leafHook(cx(e)); ok {
				return v
			}
		}
	}
	t.bad("cannot interpret %s over GF(2)", cx(e))
	return nil
}

func callName(e ast.Expr) (recv string, name string, call *ast.CallExpr) {
	c, ok := e.(*ast.CallExpr)
	if !ok {
		return "", "", nil
	}
	if sel, ok := c.Fun.(*ast.SelectorExpr); ok {
		return cx(sel.X), sel.Sel.Name, c
	}
	if id, ok := c.Fun.(*ast.Ident); ok {
		return "", id.Name, c
	}
	return "", "", c
}

func (t *tripleParty) doCall(c *ast.CallExpr, lhs []ast.Expr) {
	recv, name, _ := callName(c)
	if t.callHook != nil && t.callHook(recv, name, c, lhs) {
		return
	}
	switch {
	case name == "SendBits" && strings.HasSuffix(recv, "iknpS"):
		t.env[baseName(c.Args[1])] = gvar(fmt.Sprintf("s%d_%d", t.self, t.peer))
	case name == "ReceiveBits" && strings.HasSuffix(recv, "iknpR"):
		choice := t.poly(c.Args[0])
		if choice == nil {
			return
		}
		r := gvar(fmt.Sprintf("s%d_%d", t.peer, t.self)).xor(choice.and(gvar(fmt.Sprintf("dl%d_%d", t.peer, t.self))))
		t.env[baseName(c.Args[1])] = r
	case name == "Bit" && strings.HasSuffix(recv, "iknpS.Delta"):
		if len(lhs) == 1 {
			t.env[cx(lhs[0])] = gvar(fmt.Sprintf("dl%d_%d", t.self, t.peer))
		}
	case name == "SendBitvec":
		v := t.poly(c.Args[1])
		if v != nil {
			t.sent[t.peer] = append(t.sent[t.peer], v)
		}
	case name == "ReceiveBitvec":
		k := t.nrecv[t.peer]
		t.nrecv[t.peer]++
		t.env[baseName(c.Args[1])] = gvar(fmt.Sprintf("m%d_%d_%d", t.peer, t.self, k))
	case name == "make":
		if len(lhs) == 1 {
			t.env[cx(lhs[0])] = gpoly{}
		}
	case name == "copy":
		if v := t.poly(c.Args[1]); v != nil {
			t.env[baseName(c.Args[0])] = v
		}
	case name == "Read" || name == "Printf" || name == "Lock" || name == "Unlock" || name == "Signal":
	case name == "Uint64":
		if len(lhs) == 1 {
			t.env[baseName(lhs[0])] = gvar(fmt.Sprintf("%s%d", baseName(lhs[0]), t.self))
		}
	case name == "Append":
		// the dealt triple
		ast.Inspect(c, func(n ast.Node) bool {
			if kv, ok := n.(*ast.KeyValueExpr); ok {
				if k := cx(kv.Key); k == "A" || k == "B" || k == "C" {
					t.final[k] = t.poly(kv.Value)
				}
			}
			return true
		})
	case name == "len" || name == "panic" || name == "debugf":
	default:
		// a helper of the same package working on bit vectors: interpret its body with the arguments bound by name
		if t.prog != nil && t.depth < 3 {
			var fn *types.Func
			switch f := c.Fun.(type) {
			case *ast.Ident:
				fn, _ = t.pkg.TypesInfo.Uses[f].(*types.Func)
			case *ast.SelectorExpr:
				fn, _ = t.pkg.TypesInfo.Uses[f.Sel].(*types.Func)
			}
			if fn != nil && fn.Pkg() == t.pkg.Types {
				if _, fd := declOf(t.prog, fn); fd != nil && fd.Body != nil {
					// a fresh scope: the callee's names shadow the caller's
					caller := t.env
					callee := map[string]gpoly{}
					i := 0
					for _, f := range fd.Type.Params.List {
						for _, n := range f.Names {
							if i < len(c.Args) {
								if v, ok := caller[baseName(c.Args[i])]; ok {
									callee[n.Name] = v
								}
							}
							i++
						}
					}
					t.env = callee
					t.depth++
					t.stmts(fd.Body.List)
					t.depth--
					t.env = caller
					// slices are shared with the caller: copy element-wise results back
					i = 0
					for _, f := range fd.Type.Params.List {
						for _, n := range f.Names {
							if i < len(c.Args) {
								if _, isSlice := t.pkg.TypesInfo.Defs[n].Type().Underlying().(*types.Slice); isSlice {
									if v, ok := callee[n.Name]; ok {
										caller[baseName(c.Args[i])] = v
									}
								}
							}
							i++
						}
					}
					return
				}
			}
		}
		t.bad("call %s.%s is not modelled", recv, name)
	}
}

type tOutcome int

const (
	tNext tOutcome = iota
	tContinue
	tReturn
)

func (t *tripleParty) stmts(list []ast.Stmt) tOutcome {
	for _, s := range list {
		if o := t.stmt(s); o != tNext || t.fail != "" {
			return o
		}
	}
	return tNext
}

func (t *tripleParty) intCond(e ast.Expr) (bool, bool) {
	m := &miniEval{pkg: t.pkg, env: miniEnv{"self.id": int64(t.self), "peer.id": int64(t.peer)}}
	return m.boolOf(e)
}

func (t *tripleParty) stmt(s ast.Stmt) tOutcome {
	if isQuiet(t.pkg.TypesInfo, s) {
		return tNext
	}
	switch x := s.(type) {
	case *ast.BlockStmt:
		return t.stmts(x.List)
	case *ast.DeclStmt:
		if gd, ok := x.Decl.(*ast.GenDecl); ok {
			for _, sp := range gd.Specs {
				if vs, ok := sp.(*ast.ValueSpec); ok && len(vs.Values) == 0 {
					for _, n := range vs.Names {
						if bt, ok := t.pkg.TypesInfo.Defs[n].Type().Underlying().(*types.Basic); ok && (bt.Kind() == types.Uint64 || bt.Kind() == types.Uint) {
							t.env[n.Name] = gpoly{}
						}
					}
				}
			}
		}
	case *ast.IncDecStmt, *ast.EmptyStmt:
	case *ast.ExprStmt:
		if c, ok := x.X.(*ast.CallExpr); ok {
			t.doCall(c, nil)
		}
	case *ast.AssignStmt:
		if len(x.Rhs) == 1 {
			if c, ok := x.Rhs[0].(*ast.CallExpr); ok {
				if tv, isT := t.pkg.TypesInfo.Types[c.Fun]; !(isT && tv.IsType()) {
					lhs := x.Lhs
					t.doCall(c, lhs)
					return tNext
				}
			}
		}
		for i, l := range x.Lhs {
			ln := baseName(l)
			if ln == "_" || ln == "err" || i >= len(x.Rhs) {
				continue
			}
			// integer bookkeeping is not part of the algebra
			isVec := false
			switch lt := ast.Unparen(l).(type) {
			case *ast.IndexExpr:
				if tv, ok := t.pkg.TypesInfo.Types[lt.X]; ok {
					if sl, ok := tv.Type.Underlying().(*types.Slice); ok {
						if bt, ok := sl.Elem().Underlying().(*types.Basic); ok && bt.Kind() == types.Uint64 {
							isVec = true
						}
					}
				}
			case *ast.Ident:
				if obj := t.pkg.TypesInfo.ObjectOf(lt); obj != nil {
					if sl, ok := obj.Type().Underlying().(*types.Slice); ok {
						if bt, ok := sl.Elem().Underlying().(*types.Basic); ok && bt.Kind() == types.Uint64 {
							isVec = true
						}
					}
					// scalar words and single bits
					if bt, ok := obj.Type().Underlying().(*types.Basic); ok && (bt.Kind() == types.Uint64 || bt.Kind() == types.Uint) {
						isVec = true
					}
				}
			}
			if !isVec {
				continue
			}
			v := t.poly(x.Rhs[i])
			if v == nil {
				return tNext
			}
			switch x.Tok {
			case token.OR_ASSIGN:
				cur := t.env[ln]
				t.env[ln] = cur.xor(v).xor(cur.and(v))
			case token.AND_ASSIGN:
				cur := t.env[ln]
				t.env[ln] = cur.and(v)
			case token.XOR_ASSIGN:
				cur := t.env[ln]
				t.env[ln] = cur.xor(v)
			case token.ASSIGN, token.DEFINE:
				t.env[ln] = v
			default:
				t.bad("assignment operator %s", x.Tok)
			}
		}
	case *ast.ForStmt:
		// element-wise loops: the body is interpreted once
		return t.stmt(x.Body)
	case *ast.RangeStmt:
		if cx(x.X) != "nw.peers" {
			// element-wise: the value variable stands for the ranged vector
			if id, ok := x.Value.(*ast.Ident); ok && id.Name != "_" {
				if v, ok := t.env[baseName(x.X)]; ok {
					t.env[id.Name] = v
				}
			}
			return t.stmt(x.Body)
		}
		for j := 0; j < t.n; j++ {
			t.peer = j
			if o := t.stmt(x.Body); o == tReturn {
				return o
			}
		}
	case *ast.BranchStmt:
		if x.Tok == token.CONTINUE {
			return tContinue
		}
		t.bad("branch %s", x.Tok)
	case *ast.ReturnStmt:
		return tReturn
	case *ast.IfStmt:
		if x.Init != nil {
			t.stmt(x.Init)
		}
		cs := cx(x.Cond)
		if t.condHook != nil {
			if v, ok := t.condHook(x.Cond); ok {
				if v {
					return t.stmt(x.Body)
				}
				if x.Else != nil {
					return t.stmt(x.Else)
				}
				return tNext
			}
		}
		switch {
		case strings.Contains(cs, "err != nil"):
			return tNext // success path
		case cs == "false":
			return tNext
		case strings.Contains(cs, ".id"):
			v, ok := t.intCond(x.Cond)
			if !ok {
				t.bad("condition %s is not a comparison of party ids", cs)
				return tNext
			}
			if v {
				return t.stmt(x.Body)
			}
			if x.Else != nil {
				return t.stmt(x.Else)
			}
		default:
			// a data-dependent branch on a single bit: x == 1
			be, ok := x.Cond.(*ast.BinaryExpr)
			lit := ""
			if ok {
				lit = cx(be.Y)
			}
			if !ok || (be.Op != token.EQL && be.Op != token.NEQ) || (lit != "1" && lit != "0") {
				t.bad("branch on %s is not modelled", cs)
				return tNext
			}
			sel := t.poly(be.X)
			if sel == nil {
				return tNext
			}
			if (lit == "0") != (be.Op == token.NEQ) {
				sel = sel.xor(gone())
			}
			save := map[string]gpoly{}
			for k, v := range t.env {
				save[k] = v
			}
			t.stmt(x.Body)
			envT := t.env
			t.env = map[string]gpoly{}
			for k, v := range save {
				t.env[k] = v
			}
			if x.Else != nil {
				t.stmt(x.Else)
			}
			envF := t.env
			merged := map[string]gpoly{}
			for k := range envT {
				vt, vf := envT[k], envF[k]
				if vf == nil {
					vf = gpoly{}
				}
				merged[k] = sel.and(vt).xor(sel.xor(gone()).and(vf))
			}
			for k, vf := range envF {
				if _, ok := merged[k]; !ok {
					merged[k] = sel.xor(gone()).and(vf)
				}
			}
			t.env = merged
		}
	default:
		t.bad("statement %T is not modelled", s)
	}
	return tNext
}

// C10triples: the dealt triples are valid, given the bit-COT contract of the IKNP extension.
func C10triples(p *load.Program, run *report.Run) {
	canonFor(p)
	run.Rule("triple-validity", "interpreting tripleBatch for every party over GF(2) polynomials — SendBits yields s, ReceiveBits(choice) yields s ^ choice&delta, messages are matched per ordered pair in order — the XOR of all c shares equals (XOR a)&(XOR b) identically")
	pkg := p.ByPath[load.Module+"/gmw"]
	_, fd := dispatch.FindFunc(p, "gmw", "Network", "tripleBatch")
	if fd == nil || pkg == nil {
		run.Undecided("triple-validity", "gmw.Network.tripleBatch", "", "function not found")
		return
	}
	for _, n := range partyCounts() {
		key := fmt.Sprintf("gmw.Network.tripleBatch/parties=%d", n)
		run.Count("party-counts", 1)
		parties := make([]*tripleParty, n)
		fail := ""
		for i := 0; i < n; i++ {
			t := &tripleParty{prog: p, pkg: pkg, self: i, n: n, env: map[string]gpoly{}, sent: map[int][]gpoly{}, nrecv: map[int]int{}, final: map[string]gpoly{}}
			t.stmts(fd.Body.List)
			if t.fail != "" && fail == "" {
				fail = fmt.Sprintf("party %d: %s", i, t.fail)
			}
			if t.final["C"] == nil && fail == "" {
				fail = fmt.Sprintf("party %d deals no triple", i)
			}
			parties[i] = t
		}
		if fail != "" {
			run.Undecided("triple-validity", key, p.Rel(fd.Pos()), fail)
			continue
		}
		// match messages
		sub := map[string]gpoly{}
		for i := 0; i < n && fail == ""; i++ {
			for j := 0; j < n; j++ {
				if i == j {
					continue
				}
				if parties[i].nrecv[j] != len(parties[j].sent[i]) {
					fail = fmt.Sprintf("party %d receives %d vectors from %d, which sends %d", i, parties[i].nrecv[j], j, len(parties[j].sent[i]))
				}
				for k, v := range parties[j].sent[i] {
					sub[fmt.Sprintf("m%d_%d_%d", j, i, k)] = v
				}
			}
		}
		if fail != "" {
			run.Violate("triple-validity", key, p.Rel(fd.Pos()), fail, nil)
			continue
		}
		var sa, sb, sc gpoly = gpoly{}, gpoly{}, gpoly{}
		for i := 0; i < n; i++ {
			c := parties[i].final["C"]
			for round := 0; round < 3; round++ {
				c = c.subst(sub)
			}
			sa, sb, sc = sa.xor(parties[i].final["A"]), sb.xor(parties[i].final["B"]), sc.xor(c)
		}
		want := sa.and(sb)
		if sc.String() == want.String() && len(want) == n*n {
			run.OK("triple-validity", key, p.Rel(fd.Pos()), fmt.Sprintf("XOR c = (XOR a)&(XOR b): %d monomials, all OT masks and deltas cancel", len(want)))
		} else {
			run.Violate("triple-validity", key, p.Rel(fd.Pos()), "the dealt shares do not form a multiplication triple; XOR c ^ (XOR a)&(XOR b) = "+sc.xor(want).String(), nil)
		}
	}
	run.Floor("party-counts", 3)

	// whole words are dealt and consumed: every batch size is a multiple of 64
	run.Rule("triple-batch-words", "Triples.Append moves whole 64-bit words, and the bit-COT fills only the first `size` bits: every size passed to tripleBatch (and announced to the peers) must be a constant multiple of 64, otherwise the tail of the last word would be consumed as triples")
	for _, name := range []string{"tripleSenderLoop", "tripleReceiverLoop"} {
		_, lfd := dispatch.FindFunc(p, "gmw", "Network", name)
		if lfd == nil {
			run.Undecided("triple-batch-words", "gmw.Network."+name, "", "function not found")
			continue
		}
		var sizes []int64
		okAll := true
		ast.Inspect(lfd.Body, func(n ast.Node) bool {
			as, ok := n.(*ast.AssignStmt)
			if !ok || len(as.Lhs) != 1 || cx(as.Lhs[0]) != "batchSize" {
				return true
			}
			if k, ok := constOf(pkg, as.Rhs[0]); ok {
				sizes = append(sizes, k)
				if k%64 != 0 || k <= 0 {
					okAll = false
				}
			} else {
				okAll = false
			}
			return true
		})
		run.Count("triple-batch-sizes", len(sizes))
		key := "gmw.Network." + name + "/batchSize"
		switch {
		case name == "tripleSenderLoop" && len(sizes) == 0:
			run.Undecided("triple-batch-words", key, p.Rel(lfd.Pos()), "no constant batch size found")
		case !okAll:
			run.Violate("triple-batch-words", key, p.Rel(lfd.Pos()), fmt.Sprintf("batch sizes %v are not all constant multiples of 64", sizes), nil)
		case len(sizes) > 0:
			run.OK("triple-batch-words", key, p.Rel(lfd.Pos()), fmt.Sprintf("%v", sizes))
		}
	}
	run.Floor("triple-batch-sizes", 2)
}
