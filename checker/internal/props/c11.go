package props

import (
	"fmt"
	"go/constant"
	"go/token"
	"go/types"
	"sort"
	"strings"

	"golang.org/x/tools/go/ssa"

	"mpcverif/internal/load"
	"mpcverif/internal/report"
)

// lin is base+k where base is "" (constant), a receiver field at the point of load, "len(F)" or "len(<value>)".
type lin struct {
	base string
	k    int64
	ok   bool
}

func (l lin) String() string {
	if l.base == "" {
		return fmt.Sprint(l.k)
	}
	if l.k == 0 {
		return l.base
	}
	return fmt.Sprintf("%s+%d", l.base, l.k)
}

// fieldLoad returns the name of the receiver field v loads.
func fieldLoad(v ssa.Value) (string, bool) {
	u, ok := v.(*ssa.UnOp)
	if !ok || u.Op != token.MUL {
		return "", false
	}
	fa, ok := u.X.(*ssa.FieldAddr)
	if !ok {
		return "", false
	}
	pt, ok := fa.X.Type().Underlying().(*types.Pointer)
	if !ok {
		return "", false
	}
	if n, ok := pt.Elem().(*types.Named); !ok || n.Obj().Name() != "Conn" {
		return "", false
	}
	st := pt.Elem().Underlying().(*types.Struct)
	return st.Field(fa.Field).Name(), true
}

// sliceLenSummary resolves len() of a call result when every return of the callee is p[:] of a *[N]T parameter.
func sliceLenSummary(v ssa.Value) (int64, bool) {
	c, ok := v.(*ssa.Call)
	if !ok || c.Call.StaticCallee() == nil || c.Call.StaticCallee().Blocks == nil {
		return 0, false
	}
	n := int64(-1)
	for _, b := range c.Call.StaticCallee().Blocks {
		r, ok := b.Instrs[len(b.Instrs)-1].(*ssa.Return)
		if !ok {
			continue
		}
		if len(load.Results(r)) != 1 {
			return 0, false
		}
		s, ok := load.Results(r)[0].(*ssa.Slice)
		if !ok || s.Low != nil || s.High != nil {
			return 0, false
		}
		pt, ok := s.X.Type().Underlying().(*types.Pointer)
		if !ok {
			return 0, false
		}
		at, ok := pt.Elem().Underlying().(*types.Array)
		if !ok || (n >= 0 && n != at.Len()) {
			return 0, false
		}
		n = at.Len()
	}
	return n, n >= 0
}

func linOf(v ssa.Value) lin {
	switch t := v.(type) {
	case *ssa.Const:
		if t.Value != nil && t.Value.Kind() == constant.Int {
			k, _ := constant.Int64Val(t.Value)
			return lin{"", k, true}
		}
	case *ssa.Convert:
		if bt, ok := t.Type().Underlying().(*types.Basic); ok && bt.Info()&types.IsInteger != 0 {
			return linOf(t.X)
		}
	case *ssa.UnOp:
		if f, ok := fieldLoad(t); ok {
			return lin{f, 0, true}
		}
	case *ssa.Call:
		if b, ok := t.Call.Value.(*ssa.Builtin); ok && b.Name() == "len" {
			if f, ok := fieldLoad(t.Call.Args[0]); ok {
				return lin{"len(" + f + ")", 0, true}
			}
			if n, ok := sliceLenSummary(t.Call.Args[0]); ok {
				return lin{"", n, true}
			}
			if pt, ok := t.Call.Args[0].Type().Underlying().(*types.Pointer); ok {
				if at, ok := pt.Elem().Underlying().(*types.Array); ok {
					return lin{"", at.Len(), true}
				}
			}
		}
	case *ssa.BinOp:
		x, y := linOf(t.X), linOf(t.Y)
		if x.ok && y.ok {
			switch {
			case t.Op == token.ADD && (x.base == "" || y.base == ""):
				return lin{x.base + y.base, x.k + y.k, true}
			case t.Op == token.SUB && y.base == "":
				return lin{x.base, x.k - y.k, true}
			}
		}
	}
	return lin{}
}

// codecRow is what one fixed-width codec method does with the buffer.
type codecRow struct {
	fn        *ssa.Function
	guard     int64           // K in pos+K > limit; -1 if none
	refill    int64           // Fill(n) / -1
	offsets   map[int64]int64 // byte offset -> bit weight of the byte in the value
	width     int64           // bytes touched (max offset+1, or copy width)
	advance   int64
	problems  []string
	guardDoms bool
}

// extractRow derives the row of a fixed-width Send (buf=WriteBuf,pos=WritePos,limit=len(WriteBuf),refill=Flush)
// or Receive (buf=ReadBuf,pos=ReadStart,limit=ReadEnd,refill=Fill).
func extractRow(fn *ssa.Function, send bool) *codecRow {
	buf, pos, limit, refill := "ReadBuf", "ReadStart", "ReadEnd", "Fill"
	if send {
		buf, pos, limit, refill = "WriteBuf", "WritePos", "len(WriteBuf)", "Flush"
	}
	row := &codecRow{fn: fn, guard: -1, refill: -1, offsets: map[int64]int64{}, advance: -1}
	bad := func(f string, a ...any) { row.problems = append(row.problems, fmt.Sprintf(f, a...)) }
	var guardBlock *ssa.BasicBlock
	var access []*ssa.BasicBlock
	var viaBinary []*ssa.Call
	for _, b := range fn.Blocks {
		for _, ins := range b.Instrs {
			switch t := ins.(type) {
			case *ssa.If:
				cBig, cSmall, strict, ok := ordCmpSSA(t.Cond)
				if !ok || !strict {
					continue
				}
				l, r := linOf(cBig), linOf(cSmall)
				if !l.ok || !r.ok || l.base != pos || r.String() != limit {
					continue
				}
				// the true branch must refill
				found := false
				for _, i2 := range b.Succs[0].Instrs {
					if call, ok := i2.(*ssa.Call); ok && call.Call.StaticCallee() != nil && call.Call.StaticCallee().Name() == refill {
						found = true
						if !send {
							a := linOf(call.Call.Args[1])
							if a.ok && a.base == "" {
								row.refill = a.k
							} else {
								bad("Fill request %s is not a constant", call.Call.Args[1])
							}
						}
					}
				}
				if !found {
					bad("the space guard does not call %s on its true branch", refill)
				}
				if guardBlock != nil {
					bad("more than one space guard")
				}
				guardBlock, row.guard = b, l.k
			case *ssa.Store:
				if ia, ok := t.Addr.(*ssa.IndexAddr); ok {
					if f, ok := fieldLoad(ia.X); ok && f == buf {
						if !send {
							bad("a receive codec stores into %s", buf)
							continue
						}
						off := linOf(ia.Index)
						if !off.ok || off.base != pos {
							bad("store into %s at an index that is not %s+const", buf, pos)
							continue
						}
						w, ok := sendWeight(t.Val)
						if !ok {
							bad("byte stored at +%d is not a byte of the value", off.k)
						}
						if _, dup := row.offsets[off.k]; dup {
							bad("offset +%d stored twice", off.k)
						}
						row.offsets[off.k] = w
						access = append(access, b)
					}
				}
				if fa, ok := t.Addr.(*ssa.FieldAddr); ok {
					if _, isParam := fa.X.(*ssa.Parameter); isParam {
						st := fa.X.Type().Underlying().(*types.Pointer).Elem().Underlying().(*types.Struct)
						if st.Field(fa.Field).Name() == pos {
							a := linOf(t.Val)
							if !a.ok || a.base != pos {
								bad("%s is set to something other than %s+const", pos, pos)
							} else if row.advance >= 0 {
								bad("%s advanced twice", pos)
							} else {
								row.advance = a.k
							}
						}
					}
				}
			case *ssa.Call:
				// the guard written once as a method of the connection (NeedSpace(k)): the same comparison
				// with the amount as a parameter, the refill on its true branch, the error handed back
				if send && len(t.Call.Args) == 2 && t.Call.Args[0] == ssa.Value(fn.Params[0]) && isSpaceHelper(t.Call.StaticCallee(), pos, limit, refill) {
					k := linOf(t.Call.Args[1])
					switch {
					case !k.ok || k.base != "":
						bad("the space asked for is not a constant")
					case !errNonNilReturns(t):
						bad("the error of the space guard is not returned")
					case guardBlock != nil:
						bad("more than one space guard")
					default:
						guardBlock, row.guard = b, k.k
					}
				}
				// encoding/binary fixed-width helpers on the connection buffer
				if f := t.Call.StaticCallee(); f != nil && f.Pkg != nil && f.Pkg.Pkg.Path() == "encoding/binary" {
					name := f.Name()
					var width int64
					for _, w := range []int64{16, 32, 64} {
						if strings.HasSuffix(name, fmt.Sprint(w)) {
							width = w / 8
						}
					}
					little := strings.Contains(f.String(), "littleEndian")
					put := strings.HasPrefix(name, "PutUint")
					get := strings.HasPrefix(name, "Uint")
					if width > 0 && (put || get) && len(t.Call.Args) >= 2 {
						if sl, ok := t.Call.Args[1].(*ssa.Slice); ok {
							if fld, ok := fieldLoad(sl.X); ok && fld == buf && sl.Low != nil {
								off := linOf(sl.Low)
								switch {
								case !off.ok || off.base != pos:
									bad("%s on %s not at %s+const", name, buf, pos)
								case put != send:
									bad("%s in a %s codec", name, map[bool]string{true: "send", false: "receive"}[send])
								case put:
									if _, isParam := sendWeight(t.Call.Args[2]); !isParam {
										bad("%s does not store the value", name)
									}
								}
								if off.ok && off.base == pos {
									for j := int64(0); j < width; j++ {
										w := 8 * (width - 1 - j)
										if little {
											w = 8 * j
										}
										if _, dup := row.offsets[off.k+j]; dup {
											bad("offset +%d touched twice", off.k+j)
										}
										row.offsets[off.k+j] = w
									}
									access = append(access, b)
									if get {
										viaBinary = append(viaBinary, t)
									}
								}
							}
						}
					}
				}
				if bi, ok := t.Call.Value.(*ssa.Builtin); ok && bi.Name() == "copy" {
					dst, src := t.Call.Args[0], t.Call.Args[1]
					if send {
						if s, ok := dst.(*ssa.Slice); ok {
							if f, ok := fieldLoad(s.X); ok && f == buf {
								lo := linOf(s.Low)
								if !lo.ok || lo.base != pos || lo.k != 0 || s.High != nil {
									bad("copy into %s not at [%s:]", buf, pos)
								}
								n := linOf(&ssa.Call{Call: ssa.CallCommon{Value: bi, Args: []ssa.Value{src}}})
								_ = n
								if w, ok := sliceLenSummary(src); ok {
									row.width = w
									for j := int64(0); j < w; j++ {
										row.offsets[j] = 8 * (w - 1 - j) // opaque bytes: identity layout
									}
								} else {
									bad("copied source has no static length")
								}
								access = append(access, b)
							}
						}
					} else if s, ok := src.(*ssa.Slice); ok {
						if f, ok := fieldLoad(s.X); ok && f == buf {
							lo, hi := linOf(s.Low), lin{}
							if s.High != nil {
								hi = linOf(s.High)
							}
							if !lo.ok || lo.base != pos || lo.k != 0 || !hi.ok || hi.base != pos {
								bad("copy from %s not from [%s:%s+const]", buf, pos, pos)
							} else {
								row.width = hi.k
								for j := int64(0); j < hi.k; j++ {
									row.offsets[j] = 8 * (hi.k - 1 - j)
								}
							}
							access = append(access, b)
						}
					}
				}
			case *ssa.Return:
				if !send && len(load.Results(t)) == 2 {
					if c, ok := load.Results(t)[1].(*ssa.Const); ok && c.IsNil() {
						if call, isCall := stripConv(load.Results(t)[0]).(*ssa.Call); isCall {
							fromBinary := false
							for _, vb := range viaBinary {
								if vb == call {
									fromBinary = true
								}
							}
							if fromBinary {
								continue
							}
						}
						ws, blocks, ok := recvWeights(load.Results(t)[0], buf, pos)
						if !ok {
							bad("returned value is not composed of buffer bytes")
						}
						for k, v := range ws {
							row.offsets[k] = v
						}
						access = append(access, blocks...)
					}
				}
			}
		}
	}
	if row.width == 0 {
		for k := range row.offsets {
			if k+1 > row.width {
				row.width = k + 1
			}
		}
	}
	row.guardDoms = guardBlock != nil
	for _, b := range access {
		// the access must come after the guard's merge: dominated by the guard block, not inside the refill branch
		if guardBlock == nil || !guardBlock.Dominates(b) || b == guardBlock.Succs[0] {
			row.guardDoms = false
		}
	}
	return row
}

// isSpaceHelper: a method (c *Conn) H(n int) error whose body is `if c.pos+n > limit { return c.refill() }
// return nil`: one test, the refill on its true branch, no store of its own.
func isSpaceHelper(h *ssa.Function, pos, limit, refill string) bool {
	if h == nil || h.Blocks == nil || len(h.Params) != 2 || h.Signature.Results().Len() != 1 {
		return false
	}
	tests := 0
	for _, b := range h.Blocks {
		for _, ins := range b.Instrs {
			switch t := ins.(type) {
			case *ssa.Store, *ssa.Send, *ssa.Go, *ssa.Defer:
				return false
			case *ssa.If:
				tests++
				big, small, strict, ok := ordCmpSSA(t.Cond)
				if !ok || !strict {
					return false
				}
				sum, isSum := big.(*ssa.BinOp)
				if !isSum || sum.Op != token.ADD || linOf(small).String() != limit {
					return false
				}
				x, y := sum.X, sum.Y
				if y != ssa.Value(h.Params[1]) {
					x, y = y, x
				}
				if l := linOf(x); y != ssa.Value(h.Params[1]) || !l.ok || l.base != pos || l.k != 0 {
					return false
				}
				found := false
				for _, i2 := range b.Succs[0].Instrs {
					if call, ok := i2.(*ssa.Call); ok && call.Call.StaticCallee() != nil && call.Call.StaticCallee().Name() == refill && len(call.Call.Args) > 0 && call.Call.Args[0] == ssa.Value(h.Params[0]) {
						// its error is what the helper returns
						if ret, ok := b.Succs[0].Instrs[len(b.Succs[0].Instrs)-1].(*ssa.Return); ok && load.Results(ret)[0] == ssa.Value(call) {
							found = true
						} else if errNonNilReturns(call) {
							found = true
						}
					}
				}
				if !found {
					return false
				}
			}
		}
	}
	return tests == 1
}

// sendWeight: the stored byte is byte((uint32(val) >> s) & 0xff) of a parameter; returns s.
func sendWeight(v ssa.Value) (int64, bool) {
	switch t := v.(type) {
	case *ssa.Parameter:
		return 0, true
	case *ssa.Convert:
		return sendWeight(t.X)
	case *ssa.BinOp:
		c, isC := t.Y.(*ssa.Const)
		if !isC {
			return 0, false
		}
		k, _ := constant.Int64Val(constant.ToInt(c.Value))
		switch t.Op {
		case token.AND:
			if k != 0xff {
				return 0, false
			}
			return sendWeight(t.X)
		case token.SHR:
			w, ok := sendWeight(t.X)
			return w + k, ok
		}
	}
	return 0, false
}

// recvWeights: the value is an OR/ADD of shifted buffer bytes; returns offset -> weight.
func recvWeights(v ssa.Value, buf, pos string) (map[int64]int64, []*ssa.BasicBlock, bool) {
	switch t := v.(type) {
	case *ssa.Convert:
		return recvWeights(t.X, buf, pos)
	case *ssa.UnOp:
		if ia, ok := t.X.(*ssa.IndexAddr); ok && t.Op == token.MUL {
			if f, ok := fieldLoad(ia.X); ok && f == buf {
				off := linOf(ia.Index)
				if off.ok && off.base == pos {
					return map[int64]int64{off.k: 0}, []*ssa.BasicBlock{t.Block()}, true
				}
			}
		}
	case *ssa.BinOp:
		switch t.Op {
		case token.SHL:
			c, isC := t.Y.(*ssa.Const)
			if !isC {
				return nil, nil, false
			}
			k, _ := constant.Int64Val(constant.ToInt(c.Value))
			m, bl, ok := recvWeights(t.X, buf, pos)
			for o := range m {
				m[o] += k
			}
			return m, bl, ok
		case token.OR, token.ADD:
			a, ba, ok1 := recvWeights(t.X, buf, pos)
			b, bb, ok2 := recvWeights(t.Y, buf, pos)
			if !ok1 || !ok2 {
				return nil, nil, false
			}
			for o, w := range b {
				if _, dup := a[o]; dup {
					return nil, nil, false
				}
				a[o] = w
			}
			return a, append(ba, bb...), true
		}
	}
	return nil, nil, false
}

func rowString(r *codecRow) string {
	var ks []int64
	for k := range r.offsets {
		ks = append(ks, k)
	}
	sort.Slice(ks, func(i, j int) bool { return ks[i] < ks[j] })
	var ws []string
	for _, k := range ks {
		ws = append(ws, fmt.Sprintf("+%d:<<%d", k, r.offsets[k]))
	}
	return fmt.Sprintf("guard=%d refill=%d width=%d advance=%d bytes=[%s]", r.guard, r.refill, r.width, r.advance, strings.Join(ws, " "))
}

// C11table: codec table of p2p.Conn.
func C11table(p *load.Program, run *report.Run) {
	run.Rule("codec-row", "each fixed-width Send/Receive: the guard width, the refill request, the bytes touched and the position advance are one number; every buffer access follows the guard")
	run.Rule("codec-pair", "SendX and ReceiveX agree on width and on the weight of every byte (byte order)")
	run.Rule("flush-post", "Flush leaves WritePos = 0 and a fresh full-size buffer on every successful path that had data; buffers handed back by the writer keep their capacity")
	run.Rule("close-order", "Close: Flush, then close(toWriter), then drain fromWriter, then the underlying Close; channel roles are single-writer/single-reader")
	run.Rule("counter-pair", "Stats.Sent.Add(n) exactly where n bytes are handed to the writer; Stats.Recvd.Add(got) exactly where got bytes are appended to the read buffer")
	pairs := []string{"Byte", "Uint16", "Uint32", "Label"}
	for _, name := range pairs {
		sf, e1 := p.Method("p2p", "Conn", "Send"+name)
		rf, e2 := p.Method("p2p", "Conn", "Receive"+name)
		if e1 != nil || e2 != nil {
			run.Undecided("codec-pair", "p2p.Conn."+name, "", fmt.Sprint(e1, e2))
			continue
		}
		s, r := extractRow(sf, true), extractRow(rf, false)
		for _, row := range []*codecRow{s, r} {
			key := "p2p.Conn." + row.fn.Name()
			run.Count("codec-rows", 1)
			avail := row.guard
			if row.fn == rf && row.refill < avail {
				avail = row.refill
			}
			switch {
			case len(row.problems) > 0:
				run.Violate("codec-row", key, p.Rel(row.fn.Pos()), strings.Join(row.problems, "; "), rowString(row))
			case row.guard < 0:
				run.Violate("codec-row", key, p.Rel(row.fn.Pos()), "no space guard", rowString(row))
			case !row.guardDoms:
				run.Violate("codec-row", key, p.Rel(row.fn.Pos()), "a buffer access is not after the space guard", rowString(row))
			case row.width > avail:
				run.Violate("codec-row", key, p.Rel(row.fn.Pos()), fmt.Sprintf("touches %d bytes but only %d are guaranteed", row.width, avail), rowString(row))
			case int64(len(row.offsets)) != row.width:
				run.Violate("codec-row", key, p.Rel(row.fn.Pos()), "not every byte of the field is touched exactly once", rowString(row))
			case row.advance != row.width:
				run.Violate("codec-row", key, p.Rel(row.fn.Pos()), fmt.Sprintf("position advances by %d for a %d-byte field", row.advance, row.width), rowString(row))
			case row.fn == rf && row.refill != row.guard:
				// a larger request than needed blocks for bytes the peer may never send
				run.Violate("codec-row", key, p.Rel(row.fn.Pos()), fmt.Sprintf("guard checks %d bytes but Fill asks for %d", row.guard, row.refill), rowString(row))
			case row.guard != row.width:
				run.Violate("codec-row", key, p.Rel(row.fn.Pos()), fmt.Sprintf("guard reserves %d bytes for a %d-byte field", row.guard, row.width), rowString(row))
			default:
				run.OK("codec-row", key, p.Rel(row.fn.Pos()), rowString(row))
			}
		}
		key := "p2p.Conn.Send" + name + "/Receive" + name
		same := s.width == r.width && len(s.offsets) == len(r.offsets)
		for k, w := range s.offsets {
			if r.offsets[k] != w {
				same = false
			}
		}
		if same {
			run.OK("codec-pair", key, p.Rel(sf.Pos()), fmt.Sprintf("%d bytes, same byte weights", s.width))
		} else {
			run.Violate("codec-pair", key, p.Rel(sf.Pos()), "sender and receiver disagree", map[string]string{"send": rowString(s), "receive": rowString(r)})
		}
	}
	run.Floor("codec-rows", 8)
	c11Flush(p, run)
	c11Close(p, run)
	c11Counters(p, run)
}

func recvField(v ssa.Value) string {
	f, _ := fieldLoad(v)
	return f
}

// everyPathFrom reports whether every path from (b,after) to a return passes an instruction satisfying want,
// or leaves through a return whose error result is not nil when okOnError.
func mustPass(start *ssa.BasicBlock, startIdx int, want func(ssa.Instruction) bool, errExitOK bool) bool {
	type key struct{ b *ssa.BasicBlock }
	seen := map[*ssa.BasicBlock]bool{}
	var walk func(b *ssa.BasicBlock, from int) bool
	walk = func(b *ssa.BasicBlock, from int) bool {
		for i := from; i < len(b.Instrs); i++ {
			if want(b.Instrs[i]) {
				return true
			}
			if r, ok := b.Instrs[i].(*ssa.Return); ok {
				if errExitOK && len(load.Results(r)) > 0 {
					last := load.Results(r)[len(load.Results(r))-1]
					if c, isC := last.(*ssa.Const); !(isC && c.IsNil()) {
						return true
					}
				}
				return false
			}
			if _, ok := b.Instrs[i].(*ssa.Panic); ok {
				return true
			}
		}
		for _, s := range b.Succs {
			if seen[s] {
				continue
			}
			seen[s] = true
			if !walk(s, 0) {
				return false
			}
		}
		return true
	}
	return walk(start, startIdx)
}

// flushImpl: the function that does the work of Flush.  Flush itself, or — when Flush only wraps it (takes a
// lock, tests a flag) — the method of the same receiver whose result Flush returns: every return of Flush
// hands back that call's value or an error of its own.
func flushImpl(p *load.Program) (*ssa.Function, error) {
	fn, err := p.Method("p2p", "Conn", "Flush")
	if err != nil {
		return nil, err
	}
	hasSend := func(f *ssa.Function) bool {
		for _, b := range f.Blocks {
			for _, ins := range b.Instrs {
				if snd, ok := ins.(*ssa.Send); ok && recvField(snd.Chan) == "toWriter" {
					return true
				}
			}
		}
		return false
	}
	if hasSend(fn) {
		return fn, nil
	}
	var inner *ssa.Call
	for _, b := range fn.Blocks {
		for _, ins := range b.Instrs {
			if c, ok := ins.(*ssa.Call); ok && c.Call.StaticCallee() != nil && c.Call.StaticCallee().Blocks != nil && len(c.Call.Args) == 1 && c.Call.Args[0] == ssa.Value(fn.Params[0]) && hasSend(c.Call.StaticCallee()) {
				if inner != nil {
					return fn, nil
				}
				inner = c
			}
		}
	}
	if inner == nil {
		return fn, nil
	}
	for _, b := range fn.Blocks {
		if ret, ok := b.Instrs[len(b.Instrs)-1].(*ssa.Return); ok {
			r := load.Results(ret)
			if len(r) != 1 {
				return fn, nil
			}
			if r[0] == ssa.Value(inner) {
				continue
			}
			if k, isConst := r[0].(*ssa.Const); isConst && k.IsNil() {
				return fn, nil // a success of its own, without the work
			}
		}
	}
	return inner.Call.StaticCallee(), nil
}

func c11Flush(p *load.Program, run *report.Run) {
	fn, err := flushImpl(p)
	if err != nil {
		run.Undecided("flush-post", "p2p.Conn.Flush", "", err.Error())
		return
	}
	// find the send to toWriter; after it, every nil-return path stores WritePos=0 and WriteBuf=<-fromWriter
	done := false
	for _, b := range fn.Blocks {
		for i, ins := range b.Instrs {
			snd, ok := ins.(*ssa.Send)
			if !ok || recvField(snd.Chan) != "toWriter" {
				continue
			}
			done = true
			zero := mustPass(b, i+1, func(x ssa.Instruction) bool {
				st, ok := x.(*ssa.Store)
				if !ok {
					return false
				}
				fa, ok := st.Addr.(*ssa.FieldAddr)
				if !ok {
					return false
				}
				l := linOf(st.Val)
				return fieldName(fa) == "WritePos" && l.ok && l.base == "" && l.k == 0
			}, true)
			fresh := mustPass(b, i+1, func(x ssa.Instruction) bool {
				st, ok := x.(*ssa.Store)
				if !ok {
					return false
				}
				fa, ok := st.Addr.(*ssa.FieldAddr)
				if !ok || fieldName(fa) != "WriteBuf" {
					return false
				}
				u, ok := st.Val.(*ssa.UnOp)
				return ok && u.Op == token.ARROW && recvField(u.X) == "fromWriter"
			}, true)
			switch {
			case !zero:
				run.Violate("flush-post", "p2p.Conn.Flush/WritePos", p.Rel(snd.Pos()), "a successful path after handing the buffer to the writer does not reset WritePos", nil)
			case !fresh:
				run.Violate("flush-post", "p2p.Conn.Flush/WriteBuf", p.Rel(snd.Pos()), "a successful path after handing the buffer to the writer keeps writing into the handed-over buffer", nil)
			default:
				run.OK("flush-post", "p2p.Conn.Flush", p.Rel(snd.Pos()), "WritePos=0 and WriteBuf=<-fromWriter on every successful path")
			}
			// the slice handed over is WriteBuf[0:WritePos]
			if s, ok := snd.X.(*ssa.Slice); ok {
				lo, hi := lin{"", 0, true}, lin{}
				if s.Low != nil {
					lo = linOf(s.Low)
				}
				if s.High != nil {
					hi = linOf(s.High)
				}
				if recvField(s.X) == "WriteBuf" && lo.ok && lo.base == "" && lo.k == 0 && hi.ok && hi.base == "WritePos" && hi.k == 0 {
					run.OK("flush-post", "p2p.Conn.Flush/handed-slice", p.Rel(snd.Pos()), "WriteBuf[0:WritePos]")
				} else {
					run.Violate("flush-post", "p2p.Conn.Flush/handed-slice", p.Rel(snd.Pos()), "the bytes handed to the writer are not WriteBuf[0:WritePos]", nil)
				}
			} else {
				run.Violate("flush-post", "p2p.Conn.Flush/handed-slice", p.Rel(snd.Pos()), "the bytes handed to the writer are not WriteBuf[0:WritePos]", nil)
			}
		}
	}
	if !done {
		run.Violate("flush-post", "p2p.Conn.Flush", p.Rel(fn.Pos()), "Flush does not hand the buffer to the writer", nil)
	}
	// the writer returns buffers with their full capacity
	wfn, err := p.Method("p2p", "Conn", "writer")
	if err != nil {
		run.Undecided("flush-post", "p2p.Conn.writer", "", err.Error())
		return
	}
	for _, b := range wfn.Blocks {
		for _, ins := range b.Instrs {
			snd, ok := ins.(*ssa.Send)
			if !ok || recvField(snd.Chan) != "fromWriter" {
				continue
			}
			run.Count("writer-returns", 1)
			switch v := snd.X.(type) {
			case *ssa.MakeSlice:
				l := linOf(v.Len)
				if l.ok && l.base == "" && l.k >= 16 {
					run.OK("flush-post", "p2p.Conn.writer/make", p.Rel(snd.Pos()), fmt.Sprintf("%d-byte buffer", l.k))
				} else {
					run.Violate("flush-post", "p2p.Conn.writer/make", p.Rel(snd.Pos()), "write buffers smaller than the largest fixed-width field", nil)
				}
			case *ssa.Slice:
				if al, ok := v.X.(*ssa.Alloc); ok && v.Low == nil {
					// make([]byte, const) is lowered to new [N]byte + slice
					if at, ok := al.Type().Underlying().(*types.Pointer).Elem().Underlying().(*types.Array); ok {
						n := at.Len()
						if v.High != nil {
							if h := linOf(v.High); h.ok && h.base == "" {
								n = h.k
							} else {
								n = 0
							}
						}
						if n >= 16 {
							run.OK("flush-post", "p2p.Conn.writer/make", p.Rel(snd.Pos()), fmt.Sprintf("%d-byte buffer", n))
						} else {
							run.Violate("flush-post", "p2p.Conn.writer/make", p.Rel(snd.Pos()), "write buffers smaller than the largest fixed-width field", nil)
						}
						continue
					}
				}
				full := false
				if c, ok := v.High.(*ssa.Call); ok {
					if bi, ok := c.Call.Value.(*ssa.Builtin); ok && bi.Name() == "cap" && c.Call.Args[0] == v.X {
						lo := lin{"", 0, true}
						if v.Low != nil {
							lo = linOf(v.Low)
						}
						full = lo.ok && lo.base == "" && lo.k == 0
					}
				}
				if full {
					run.OK("flush-post", "p2p.Conn.writer/recycle", p.Rel(snd.Pos()), "buf[0:cap(buf)]")
				} else {
					run.Violate("flush-post", "p2p.Conn.writer/recycle", p.Rel(snd.Pos()), "a recycled buffer is returned shorter than its capacity", nil)
				}
			default:
				run.Violate("flush-post", "p2p.Conn.writer/recycle", p.Rel(snd.Pos()), "a recycled buffer is returned shorter than its capacity", nil)
			}
		}
	}
	run.Floor("writer-returns", 2)
}

func fieldName(fa *ssa.FieldAddr) string {
	st := fa.X.Type().Underlying().(*types.Pointer).Elem().Underlying().(*types.Struct)
	return st.Field(fa.Field).Name()
}

// chanOps lists, per channel field of Conn, the functions that send, receive and close.
func c11Close(p *load.Program, run *report.Run) {
	pkg, err := p.Pkg("p2p")
	if err != nil {
		run.Undecided("close-order", "p2p", "", err.Error())
		return
	}
	roles := map[string]map[string]bool{}
	flushFn, _ := flushImpl(p)
	var handoffs []*ssa.Send
	add := func(ch, op string, fn *ssa.Function) {
		k := ch + "/" + op
		if roles[k] == nil {
			roles[k] = map[string]bool{}
		}
		name := fn.Name()
		if flushFn != nil && fn == flushFn {
			name = "Flush"
		}
		roles[k][name] = true
	}
	chanField := func(v ssa.Value) string {
		if f, ok := fieldLoad(v); ok && (f == "toWriter" || f == "fromWriter") {
			return f
		}
		return ""
	}
	var fns []*ssa.Function
	for _, m := range pkg.Members {
		if f, ok := m.(*ssa.Function); ok {
			fns = append(fns, f)
		}
		if t, ok := m.(*ssa.Type); ok {
			ms := p.SSA.MethodSets.MethodSet(types.NewPointer(t.Type()))
			for i := 0; i < ms.Len(); i++ {
				if f := p.SSA.MethodValue(ms.At(i)); f != nil && f.Blocks != nil {
					fns = append(fns, f)
				}
			}
		}
	}
	for _, fn := range fns {
		for _, b := range fn.Blocks {
			for _, ins := range b.Instrs {
				switch t := ins.(type) {
				case *ssa.Send:
					if c := chanField(t.Chan); c != "" {
						add(c, "send", fn)
						if c == "toWriter" {
							handoffs = append(handoffs, t)
						}
					}
				case *ssa.UnOp:
					if t.Op == token.ARROW {
						if c := chanField(t.X); c != "" {
							add(c, "recv", fn)
						}
					}
				case *ssa.Range:
					if c := chanField(t.X); c != "" {
						add(c, "recv", fn)
					}
				case *ssa.Next:
				case *ssa.Call:
					if bi, ok := t.Call.Value.(*ssa.Builtin); ok && bi.Name() == "close" {
						if c := chanField(t.Call.Args[0]); c != "" {
							add(c, "close", fn)
						}
					}
				}
			}
		}
	}
	// every buffer handed to the writer goroutine is counted as sent in the same function: the hand-off and
	// the accounting of its bytes lie on one path (one dominates the other)
	for _, h := range handoffs {
		fn := h.Parent()
		counted := false
		for _, b := range fn.Blocks {
			for _, ins := range b.Instrs {
				c, ok := ins.(*ssa.Call)
				if !ok || c.Call.StaticCallee() == nil || c.Call.StaticCallee().Name() != "Add" || len(c.Call.Args) == 0 {
					continue
				}
				recv := c.Call.Args[0]
				if ld, ok := recv.(*ssa.UnOp); ok && ld.Op == token.MUL {
					recv = ld.X
				}
				if fa, ok := recv.(*ssa.FieldAddr); !ok || fieldName(fa) != "Sent" {
					continue
				}
				if b == h.Block() || b.Dominates(h.Block()) || h.Block().Dominates(b) {
					counted = true
				}
			}
		}
		run.Count("writer-handoffs", 1)
		k := "p2p.Conn." + fn.Name() + "/hand-off"
		if counted {
			run.OK("close-order", k, p.Rel(h.Pos()), "the bytes handed to the writer are added to Stats.Sent")
		} else {
			run.Violate("close-order", k, p.Rel(h.Pos()), "a buffer is handed to the writer goroutine without its bytes being added to Stats.Sent: the counter no longer equals the bytes moved", nil)
		}
	}
	// who may touch which channel: Flush hands buffers over; Close may hand over the last one itself
	if roles["toWriter/send"] != nil && roles["toWriter/send"]["Close"] && roles["toWriter/send"]["Flush"] {
		delete(roles["toWriter/send"], "Close")
	}
	want := map[string][]string{
		"toWriter/send": {"Flush"}, "toWriter/recv": {"writer"}, "toWriter/close": {"Close"},
		"fromWriter/send": {"writer"}, "fromWriter/recv": {"Close", "Flush", "NewConn"}, "fromWriter/close": {"writer"},
	}
	for k, w := range want {
		// the functions that build a Conn (NewConn and variants with other sizes) are one role
		gotSet := map[string]bool{}
		for f := range roles[k] {
			if strings.HasPrefix(f, "NewConn") {
				f = "NewConn"
			}
			gotSet[f] = true
		}
		var got []string
		for f := range gotSet {
			got = append(got, f)
		}
		sort.Strings(got)
		run.Count("channel-roles", 1)
		if strings.Join(got, ",") == strings.Join(w, ",") {
			run.OK("close-order", "p2p.Conn/"+k, "", strings.Join(got, ","))
		} else {
			run.Violate("close-order", "p2p.Conn/"+k, "", fmt.Sprintf("performed by %v, expected %v", got, w), nil)
		}
	}
	fn, err := p.Method("p2p", "Conn", "Close")
	if err != nil {
		run.Undecided("close-order", "p2p.Conn.Close", "", err.Error())
		return
	}
	// order of the four steps by dominance
	var steps [4]ssa.Instruction
	inlinedFlush := false
	for _, b := range fn.Blocks {
		for _, ins := range b.Instrs {
			switch t := ins.(type) {
			case *ssa.Call:
				if c := t.Call.StaticCallee(); c != nil && (c.Name() == "Flush" || flushFn != nil && c == flushFn) && c.Signature.Recv() != nil {
					steps[0] = t
				}
				if bi, ok := t.Call.Value.(*ssa.Builtin); ok && bi.Name() == "close" && chanField(t.Call.Args[0]) == "toWriter" {
					steps[1] = t
				}
				if t.Call.IsInvoke() && t.Call.Method.Name() == "Close" {
					steps[3] = t
				}
			case *ssa.Send:
				// Close may hand the last buffer to the writer itself instead of calling Flush
				if chanField(t.Chan) == "toWriter" && steps[0] == nil {
					steps[0] = t
					inlinedFlush = true
				}
			case *ssa.UnOp:
				if t.Op == token.ARROW && chanField(t.X) == "fromWriter" {
					steps[2] = t
				}
			case *ssa.Range:
				if chanField(t.X) == "fromWriter" {
					steps[2] = t
				}
			}
		}
	}
	// a range over a channel is lowered to a receive in the loop header
	names := []string{"Flush", "close(toWriter)", "drain fromWriter", "underlying Close"}
	okAll := true
	for i, s := range steps {
		if s == nil {
			run.Violate("close-order", "p2p.Conn.Close/"+names[i], p.Rel(fn.Pos()), "step missing", nil)
			okAll = false
		}
	}
	if okAll {
		for i := 0; i+1 < len(steps); i++ {
			a, b := steps[i], steps[i+1]
			before := a.Block().Dominates(b.Block()) && (a.Block() != b.Block() || instrIndex(a) < instrIndex(b))
			if i == 0 && inlinedFlush && !before {
				// the hand-off is skipped when nothing is buffered: it lies under a test of WritePos, before the
				// channel is closed and never after it
				guarded := false
				for _, g := range fn.Blocks {
					if iff, ok := g.Instrs[len(g.Instrs)-1].(*ssa.If); ok && g.Dominates(a.Block()) && g != a.Block() {
						if bo, ok := iff.Cond.(*ssa.BinOp); ok && (isFieldLoad(bo.X, "WritePos") || isFieldLoad(bo.Y, "WritePos")) {
							guarded = true
						}
					}
				}
				before = guarded && blockReaches(a.Block(), b.Block()) && !blockReaches(b.Block(), a.Block())
			}
			if !before {
				run.Violate("close-order", "p2p.Conn.Close/"+names[i]+"<"+names[i+1], p.Rel(b.Pos()), names[i+1]+" is not preceded by "+names[i]+" on every path", nil)
				okAll = false
			}
		}
		// the drain must run to channel close: the underlying Close is reached only from the loop's exit
		if okAll {
			run.OK("close-order", "p2p.Conn.Close", p.Rel(fn.Pos()), strings.Join(names[:], " < "))
		}
	}
	// writer closes fromWriter only after the loop over toWriter ended
	wfn, _ := p.Method("p2p", "Conn", "writer")
	if wfn != nil {
		var cl, rc ssa.Instruction
		for _, b := range wfn.Blocks {
			for _, ins := range b.Instrs {
				switch t := ins.(type) {
				case *ssa.Call:
					if bi, ok := t.Call.Value.(*ssa.Builtin); ok && bi.Name() == "close" && chanField(t.Call.Args[0]) == "fromWriter" {
						cl = t
					}
				case *ssa.UnOp:
					if t.Op == token.ARROW && chanField(t.X) == "toWriter" {
						rc = t
					}
				}
			}
		}
		if cl != nil && rc != nil && rc.Block().Dominates(cl.Block()) && rc.Block() != cl.Block() {
			run.OK("close-order", "p2p.Conn.writer/close(fromWriter)", p.Rel(cl.Pos()), "after the toWriter loop")
		} else {
			run.Violate("close-order", "p2p.Conn.writer/close(fromWriter)", p.Rel(wfn.Pos()), "fromWriter is not closed after the loop over toWriter", nil)
		}
	}
	run.Floor("channel-roles", 6)
}

func instrIndex(i ssa.Instruction) int {
	for k, x := range i.Block().Instrs {
		if x == i {
			return k
		}
	}
	return -1
}

func c11Counters(p *load.Program, run *report.Run) {
	pkg, err := p.Pkg("p2p")
	if err != nil {
		return
	}
	// all Stats.<ctr>.Add call sites in the package
	type site struct {
		fn   *ssa.Function
		call *ssa.Call
		ctr  string
	}
	var sites []site
	var fns []*ssa.Function
	for _, m := range pkg.Members {
		if t, ok := m.(*ssa.Type); ok && t.Name() == "Conn" {
			ms := p.SSA.MethodSets.MethodSet(types.NewPointer(t.Type()))
			for i := 0; i < ms.Len(); i++ {
				if f := p.SSA.MethodValue(ms.At(i)); f != nil && f.Blocks != nil {
					fns = append(fns, f)
				}
			}
		}
	}
	for _, fn := range fns {
		for _, b := range fn.Blocks {
			for _, ins := range b.Instrs {
				c, ok := ins.(*ssa.Call)
				if !ok || c.Call.StaticCallee() == nil || c.Call.StaticCallee().String() != "(*sync/atomic.Uint64).Add" {
					continue
				}
				u, ok := c.Call.Args[0].(*ssa.UnOp)
				if !ok {
					continue
				}
				fa, ok := u.X.(*ssa.FieldAddr)
				if !ok {
					continue
				}
				sites = append(sites, site{fn, c, fa.X.Type().Underlying().(*types.Pointer).Elem().Underlying().(*types.Struct).Field(fa.Field).Name()})
			}
		}
	}
	count := map[string]int{}
	for _, s := range sites {
		key := "p2p.Conn." + s.fn.Name() + "/Stats." + s.ctr + ".Add"
		count[s.ctr]++
		switch s.ctr {
		case "Sent":
			// same block as the send to toWriter, argument = high bound of the handed slice
			var snd *ssa.Send
			for _, ins := range s.call.Block().Instrs {
				if x, ok := ins.(*ssa.Send); ok && recvField(x.Chan) == "toWriter" {
					snd = x
				}
			}
			a := linOf(s.call.Call.Args[1])
			if snd == nil && a.ok {
				// the bytes are counted once, then either handed to the writer or written by this function
				// itself: every path from the count to a `return nil` moves WriteBuf[0:a] one way or the other
				moved := func(b *ssa.BasicBlock) bool {
					for _, ins := range b.Instrs {
						switch t := ins.(type) {
						case *ssa.Send:
							if sl, ok := t.X.(*ssa.Slice); ok && recvField(t.Chan) == "toWriter" && sl.High != nil && linOf(sl.High) == a {
								return true
							}
						case ssa.CallInstruction:
							if t.Common().IsInvoke() && t.Common().Method.Name() == "Write" && len(t.Common().Args) == 1 {
								if sl, ok := t.Common().Args[0].(*ssa.Slice); ok && sl.High != nil && linOf(sl.High) == a {
									return true
								}
							}
						}
					}
					return false
				}
				okAll, any := true, false
				seen := map[*ssa.BasicBlock]bool{}
				var walk func(b *ssa.BasicBlock)
				walk = func(b *ssa.BasicBlock) {
					if seen[b] {
						return
					}
					seen[b] = true
					if b != s.call.Block() && moved(b) {
						any = true
						return
					}
					if ret, ok := b.Instrs[len(b.Instrs)-1].(*ssa.Return); ok {
						if n := len(ret.Results); n > 0 {
							if k, isConst := ret.Results[n-1].(*ssa.Const); isConst && k.IsNil() {
								okAll = false
							}
						}
						return
					}
					for _, nx := range b.Succs {
						walk(nx)
					}
				}
				for _, nx := range s.call.Block().Succs {
					walk(nx)
				}
				if okAll && any {
					run.OK("counter-pair", key, p.Rel(s.call.Pos()), "Add("+a.String()+"), then WriteBuf[0:"+a.String()+"] is handed to the writer or written directly on every path that succeeds")
					continue
				}
			}
			if snd == nil {
				run.Violate("counter-pair", key, p.Rel(s.call.Pos()), "bytes are counted as sent on a path that does not hand them to the writer", nil)
			} else if sl, ok := snd.X.(*ssa.Slice); !ok || sl.High == nil || linOf(sl.High) != a || !a.ok {
				run.Violate("counter-pair", key, p.Rel(s.call.Pos()), "the counted size is not the size handed to the writer", nil)
			} else {
				run.OK("counter-pair", key, p.Rel(s.call.Pos()), "Add("+a.String()+") with toWriter <- WriteBuf[0:"+a.String()+"]")
			}
		case "Recvd":
			// argument is the count returned by conn.Read, on its success branch, in the block that adds it to ReadEnd
			var got ssa.Value = s.call.Call.Args[1]
			if cv, ok := got.(*ssa.Convert); ok {
				got = cv.X
			}
			ex, ok := got.(*ssa.Extract)
			isRead := false
			if ok && ex.Index == 0 {
				if c, ok := ex.Tuple.(*ssa.Call); ok && c.Call.IsInvoke() && c.Call.Method.Name() == "Read" {
					isRead = true
				}
			}
			adv := false
			for _, ins := range s.call.Block().Instrs {
				if st, ok := ins.(*ssa.Store); ok {
					if fa, ok := st.Addr.(*ssa.FieldAddr); ok && fieldName(fa) == "ReadEnd" {
						if bo, ok := st.Val.(*ssa.BinOp); ok && bo.Op == token.ADD && (bo.Y == got || bo.X == got) {
							adv = true
						}
					}
				}
			}
			switch {
			case !isRead:
				run.Violate("counter-pair", key, p.Rel(s.call.Pos()), "the counted size is not the count returned by Read", nil)
			case !adv:
				run.Violate("counter-pair", key, p.Rel(s.call.Pos()), "received bytes are counted where they are not appended to the read buffer", nil)
			default:
				run.OK("counter-pair", key, p.Rel(s.call.Pos()), "Add(got) with ReadEnd += got")
			}
		}
	}
	// converse: every hand-over / append has its counter
	for _, fn := range fns {
		for _, b := range fn.Blocks {
			for _, ins := range b.Instrs {
				if x, ok := ins.(*ssa.Send); ok && recvField(x.Chan) == "toWriter" {
					has := false
					for _, s := range sites {
						if s.ctr == "Sent" && (s.call.Block() == b || s.call.Parent() == fn && s.call.Block().Dominates(b)) {
							has = true
						}
					}
					if !has {
						run.Violate("counter-pair", "p2p.Conn."+fn.Name()+"/toWriter<-", p.Rel(x.Pos()), "bytes handed to the writer are not counted in Stats.Sent", nil)
					}
				}
				if st, ok := ins.(*ssa.Store); ok {
					if fa, ok := st.Addr.(*ssa.FieldAddr); ok && fieldName(fa) == "ReadEnd" {
						if bo, ok := st.Val.(*ssa.BinOp); ok && bo.Op == token.ADD {
							has := false
							for _, s := range sites {
								if s.ctr == "Recvd" && s.call.Block() == b {
									has = true
								}
							}
							if !has {
								run.Violate("counter-pair", "p2p.Conn."+fn.Name()+"/ReadEnd+=", p.Rel(st.Pos()), "bytes appended to the read buffer are not counted in Stats.Recvd", nil)
							}
						}
					}
				}
			}
		}
	}
	run.Count("sent-sites", count["Sent"])
	run.Count("recvd-sites", count["Recvd"])
	run.Floor("sent-sites", 1)
	run.Floor("recvd-sites", 1)
}
