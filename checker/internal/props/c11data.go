package props

import (
	"fmt"
	"go/token"
	"go/types"

	"golang.org/x/tools/go/ssa"

	"mpcverif/internal/load"
	"mpcverif/internal/report"
)

// minOf: v = min(a, b) written as `x := a; if x > b { x = b }` (a two-edge phi) or as the builtin.
func minOf(v ssa.Value) (a, b ssa.Value, ok bool) {
	if c, isC := v.(*ssa.Call); isC {
		if bi, isB := c.Call.Value.(*ssa.Builtin); isB && bi.Name() == "min" && len(c.Call.Args) == 2 {
			return c.Call.Args[0], c.Call.Args[1], true
		}
	}
	ph, isP := v.(*ssa.Phi)
	if !isP || len(ph.Edges) != 2 {
		return nil, nil, false
	}
	for i := 0; i < 2; i++ {
		p, t := ph.Block().Preds[i], ph.Block().Preds[1-i]
		iff, isIf := p.Instrs[len(p.Instrs)-1].(*ssa.If)
		if !isIf || len(t.Preds) != 1 || t.Preds[0] != p || p.Succs[0] != t {
			continue
		}
		bo, isB := iff.Cond.(*ssa.BinOp)
		if !isB {
			continue
		}
		x, y := bo.X, bo.Y
		if bo.Op == token.LSS {
			x, y = y, x
		} else if bo.Op != token.GTR {
			continue
		}
		// if x > y { take y } else keep x
		if sameVal(ph.Edges[i], x) && sameVal(ph.Edges[1-i], y) {
			return x, y, true
		}
	}
	return nil, nil, false
}

// sameVal: identical SSA value, or two structurally identical pure expressions over the same loads.
func sameVal(a, b ssa.Value) bool {
	if a == b {
		return true
	}
	ca, ok1 := a.(*ssa.Const)
	cb, ok2 := b.(*ssa.Const)
	if ok1 && ok2 {
		return ca.Value != nil && cb.Value != nil && ca.Value.ExactString() == cb.Value.ExactString()
	}
	ba, ok1 := a.(*ssa.BinOp)
	bb, ok2 := b.(*ssa.BinOp)
	if ok1 && ok2 && ba.Op == bb.Op {
		return sameVal(ba.X, bb.X) && sameVal(ba.Y, bb.Y)
	}
	// len(x.f) / cap(x.f) evaluated twice (the SSA form has no common subexpression elimination)
	la, ok1 := a.(*ssa.Call)
	lb, ok2 := b.(*ssa.Call)
	if ok1 && ok2 {
		ba, okA := la.Call.Value.(*ssa.Builtin)
		bb, okB := lb.Call.Value.(*ssa.Builtin)
		if okA && okB && ba.Name() == bb.Name() && (ba.Name() == "len" || ba.Name() == "cap") && len(la.Call.Args) == 1 && len(lb.Call.Args) == 1 {
			return sameVal(la.Call.Args[0], lb.Call.Args[0])
		}
		return false
	}
	fa, ok1 := fieldLoad(a)
	fb, ok2 := fieldLoad(b)
	return ok1 && ok2 && fa == fb
}

func isFieldLoad(v ssa.Value, name string) bool {
	f, ok := fieldLoad(v)
	return ok && f == name
}

// isDiff: v = x - y with the given recognisers.
func isDiff(v ssa.Value, x, y func(ssa.Value) bool) bool {
	bo, ok := v.(*ssa.BinOp)
	return ok && bo.Op == token.SUB && x(bo.X) && y(bo.Y)
}

func builtinCall(ins ssa.Instruction, name string) (*ssa.Call, bool) {
	c, ok := ins.(*ssa.Call)
	if !ok {
		return nil, false
	}
	bi, ok := c.Call.Value.(*ssa.Builtin)
	return c, ok && bi.Name() == name
}

// C11data: the length-prefixed data codec.
func C11data(p *load.Program, run *report.Run) {
	run.Rule("data-prefix", "SendData first sends len(val) as a Uint32; ReceiveData first receives a Uint32 that sizes the result and bounds the loop")
	run.Rule("data-copy-advance", "each copy between a Conn buffer and the payload advances both positions by the count copied, from WriteBuf[WritePos:] / ReadBuf[ReadStart:ReadStart+avail]")
	run.Rule("data-window", "the bytes taken from ReadBuf are min(ReadEnd-ReadStart, remaining); a refill asks for min(remaining, C) with C no larger than the read buffer")
	run.Rule("data-complete", "SendData succeeds only when no payload is left; ReceiveData returns the buffer only when it is full; a full write buffer is flushed before copying")
	send, e1 := p.Method("p2p", "Conn", "SendData")
	recv, e2 := p.Method("p2p", "Conn", "ReceiveData")
	newConn, e3 := p.Func("p2p", "NewConn")
	for _, e := range []error{e1, e2, e3} {
		if e != nil {
			run.Undecided("anchor", "p2p.Conn", "", e.Error())
			return
		}
	}
	fail := func(rule, key string, fn *ssa.Function, msg string) {
		run.Violate(rule, key, p.Rel(fn.Pos()), msg, nil)
	}

	// ---- SendData
	{
		key := "p2p.Conn.SendData"
		val := send.Params[1]
		// prefix
		var first *ssa.Call
		for _, ins := range send.Blocks[0].Instrs {
			if c, ok := ins.(*ssa.Call); ok && c.Call.StaticCallee() != nil && c.Call.StaticCallee().Pkg != nil && c.Call.StaticCallee().Pkg.Pkg.Path() == load.Module+"/p2p" {
				first = c
				break
			}
		}
		okPrefix := false
		if first != nil && first.Call.StaticCallee().Name() == "SendUint32" {
			if l, ok := first.Call.Args[1].(*ssa.Call); ok {
				if bi, ok := l.Call.Value.(*ssa.Builtin); ok && bi.Name() == "len" && l.Call.Args[0] == val {
					okPrefix = errNonNilReturns(first)
				}
			}
		}
		if okPrefix {
			run.OK("data-prefix", key, p.Rel(send.Pos()), "SendUint32(len(val)) first, error propagated")
		} else {
			fail("data-prefix", key, send, "the payload is not preceded by SendUint32(len(val))")
		}
		// copy
		var cp *ssa.Call
		for _, b := range send.Blocks {
			for _, ins := range b.Instrs {
				if c, ok := builtinCall(ins, "copy"); ok {
					if cp != nil {
						fail("data-copy-advance", key, send, "more than one copy")
					}
					cp = c
				}
			}
		}
		if cp == nil {
			fail("data-copy-advance", key, send, "no copy into the write buffer")
		} else {
			dst, okD := cp.Call.Args[0].(*ssa.Slice)
			cur, okS := cp.Call.Args[1].(*ssa.Phi)
			shape := okD && okS && isFieldLoad(dst.X, "WriteBuf") && dst.Low != nil && isFieldLoad(dst.Low, "WritePos") && dst.High == nil
			// WritePos += n
			adv := false
			for _, ins := range cp.Block().Instrs {
				if st, ok := ins.(*ssa.Store); ok {
					if fa, ok := st.Addr.(*ssa.FieldAddr); ok && fieldName(fa) == "WritePos" {
						if bo, ok := st.Val.(*ssa.BinOp); ok && bo.Op == token.ADD && isFieldLoad(bo.X, "WritePos") && bo.Y == ssa.Value(cp) {
							adv = true
						}
					}
				}
			}
			// val = val[n:]
			srcAdv := false
			if okS {
				for _, e := range cur.Edges {
					if sl, ok := e.(*ssa.Slice); ok && sl.X == ssa.Value(cur) && sl.Low == ssa.Value(cp) && sl.High == nil {
						srcAdv = true
					} else if e != val {
						srcAdv = srcAdv && false
					}
				}
			}
			switch {
			case !shape:
				fail("data-copy-advance", key, send, "the copy is not WriteBuf[WritePos:] <- remaining payload")
			case !adv:
				fail("data-copy-advance", key, send, "WritePos does not advance by the count copied")
			case !srcAdv:
				fail("data-copy-advance", key, send, "the payload does not advance by the count copied")
			default:
				run.OK("data-copy-advance", key, p.Rel(cp.Pos()), "n := copy(WriteBuf[WritePos:], val); WritePos += n; val = val[n:]")
			}
			// completeness: success only on len(cur) > 0 false; full buffer flushed before copy
			complete := okS
			if okS {
				for _, sb := range successBlocks(send) {
					found := false
					for _, b := range send.Blocks {
						if iff, ok := b.Instrs[len(b.Instrs)-1].(*ssa.If); ok {
							if big, small, strict, ok := ordCmpSSA(iff.Cond); ok && strict {
								if l, ok := big.(*ssa.Call); ok {
									if bi, ok := l.Call.Value.(*ssa.Builtin); ok && bi.Name() == "len" && l.Call.Args[0] == ssa.Value(cur) {
										if k, ok := small.(*ssa.Const); ok && k.Int64() == 0 && b.Succs[1].Dominates(sb) {
											found = true
										}
									}
								}
							}
						}
					}
					if !found {
						complete = false
					}
				}
			}
			flushed := false
			for _, b := range send.Blocks {
				if iff, ok := b.Instrs[len(b.Instrs)-1].(*ssa.If); ok && b.Dominates(cp.Block()) {
					var wpX, wpY ssa.Value
					if bo, ok := iff.Cond.(*ssa.BinOp); ok && bo.Op == token.EQL {
						wpX, wpY = bo.X, bo.Y
						if !isFieldLoad(wpX, "WritePos") {
							wpX, wpY = wpY, wpX
						}
					} else if big, small, strict, ok := ordCmpSSA(iff.Cond); ok && !strict {
						wpX, wpY = big, small
					}
					if wpX != nil && isFieldLoad(wpX, "WritePos") {
						if l := linOf(wpY); l.ok && l.String() == "len(WriteBuf)" {
							for _, ins := range b.Succs[0].Instrs {
								if c, ok := ins.(*ssa.Call); ok && c.Call.StaticCallee() != nil && c.Call.StaticCallee().Name() == "Flush" {
									flushed = true
								}
							}
						}
					}
				}
			}
			// or through the guard written once as a method: NeedSpace(k), k >= 1, error returned
			for _, b := range send.Blocks {
				for _, ins := range b.Instrs {
					c, ok := ins.(*ssa.Call)
					if !ok || len(c.Call.Args) != 2 || c.Call.Args[0] != ssa.Value(send.Params[0]) || !isSpaceHelper(c.Call.StaticCallee(), "WritePos", "len(WriteBuf)", "Flush") {
						continue
					}
					if k := linOf(c.Call.Args[1]); k.ok && k.base == "" && k.k >= 1 && b.Dominates(cp.Block()) && b != cp.Block() && errNonNilReturns(c) {
						flushed = true
					}
				}
			}
			switch {
			case !complete:
				fail("data-complete", key, send, "success is reachable while payload bytes remain")
			case !flushed:
				fail("data-complete", key, send, "a full write buffer is not flushed before copying: the loop makes no progress")
			default:
				run.OK("data-complete", key, p.Rel(send.Pos()), "")
			}
		}
	}

	// ---- ReceiveData
	{
		key := "p2p.Conn.ReceiveData"
		var first *ssa.Call
		for _, ins := range recv.Blocks[0].Instrs {
			if c, ok := ins.(*ssa.Call); ok && c.Call.StaticCallee() != nil {
				first = c
				break
			}
		}
		var length ssa.Value
		if first != nil && first.Call.StaticCallee().Name() == "ReceiveUint32" {
			for _, r := range *first.Referrers() {
				if ex, ok := r.(*ssa.Extract); ok && ex.Index == 0 {
					length = ex
				}
			}
		}
		var result *ssa.MakeSlice
		for _, b := range recv.Blocks {
			for _, ins := range b.Instrs {
				if ms, ok := ins.(*ssa.MakeSlice); ok && ms.Len == length {
					result = ms
				}
			}
		}
		if length == nil || result == nil {
			fail("data-prefix", key, recv, "the result is not sized by a leading ReceiveUint32")
			return
		}
		// loop: read phi, cond read < length; success returns result on the false edge
		var read *ssa.Phi
		okLoop := false
		for _, b := range recv.Blocks {
			iff, ok := b.Instrs[len(b.Instrs)-1].(*ssa.If)
			if !ok {
				continue
			}
			bo, ok := iff.Cond.(*ssa.BinOp)
			if !ok || bo.Op != token.LSS || bo.Y != length {
				continue
			}
			ph, ok := bo.X.(*ssa.Phi)
			if !ok {
				continue
			}
			read = ph
			okLoop = true
			for _, sb := range successBlocks(recv) {
				r := sb.Instrs[len(sb.Instrs)-1].(*ssa.Return)
				if load.Results(r)[0] != ssa.Value(result) || !b.Succs[1].Dominates(sb) {
					okLoop = false
				}
			}
		}
		if okLoop {
			run.OK("data-prefix", key, p.Rel(recv.Pos()), "len := ReceiveUint32; make([]byte, len); loop while read < len")
			run.OK("data-complete", key, p.Rel(recv.Pos()), "the buffer is returned only when read >= len")
		} else {
			fail("data-complete", key, recv, "the result can be returned before len bytes were read")
			return
		}
		isRead := func(v ssa.Value) bool { return v == ssa.Value(read) }
		isLen := func(v ssa.Value) bool { return v == length }
		remaining := func(v ssa.Value) bool { return isDiff(v, isLen, isRead) }
		window := func(v ssa.Value) bool {
			return isDiff(v, func(x ssa.Value) bool { return isFieldLoad(x, "ReadEnd") }, func(x ssa.Value) bool { return isFieldLoad(x, "ReadStart") })
		}
		var cp *ssa.Call
		for _, b := range recv.Blocks {
			for _, ins := range b.Instrs {
				if c, ok := builtinCall(ins, "copy"); ok {
					cp = c
				}
			}
		}
		if cp == nil {
			fail("data-copy-advance", key, recv, "no copy from the read buffer")
			return
		}
		dst, okD := cp.Call.Args[0].(*ssa.Slice)
		src, okS := cp.Call.Args[1].(*ssa.Slice)
		shape := okD && okS && dst.X == ssa.Value(result) && dst.Low == ssa.Value(read) && dst.High == nil &&
			isFieldLoad(src.X, "ReadBuf") && src.Low != nil && isFieldLoad(src.Low, "ReadStart") && src.High != nil
		var avail ssa.Value
		if shape {
			if bo, ok := src.High.(*ssa.BinOp); ok && bo.Op == token.ADD && isFieldLoad(bo.X, "ReadStart") {
				avail = bo.Y
			} else {
				shape = false
			}
		}
		adv, readAdv := false, false
		for _, ins := range cp.Block().Instrs {
			if st, ok := ins.(*ssa.Store); ok {
				if fa, ok := st.Addr.(*ssa.FieldAddr); ok && fieldName(fa) == "ReadStart" {
					if bo, ok := st.Val.(*ssa.BinOp); ok && bo.Op == token.ADD && isFieldLoad(bo.X, "ReadStart") && bo.Y == ssa.Value(cp) {
						adv = true
					}
				}
			}
		}
		for _, e := range read.Edges {
			if bo, ok := e.(*ssa.BinOp); ok && bo.Op == token.ADD && bo.X == ssa.Value(read) && bo.Y == ssa.Value(cp) {
				readAdv = true
			}
		}
		switch {
		case !shape:
			fail("data-copy-advance", key, recv, "the copy is not result[read:] <- ReadBuf[ReadStart:ReadStart+avail]")
		case !adv:
			fail("data-copy-advance", key, recv, "ReadStart does not advance by the count copied")
		case !readAdv:
			fail("data-copy-advance", key, recv, "read does not advance by the count copied")
		default:
			run.OK("data-copy-advance", key, p.Rel(cp.Pos()), "n := copy(result[read:], ReadBuf[ReadStart:ReadStart+avail]); ReadStart += n; read += n")
		}
		// window
		okWin := false
		if avail != nil {
			if a, b, ok := minOf(avail); ok && ((window(a) && remaining(b)) || (window(b) && remaining(a))) {
				okWin = true
			}
		}
		// refill
		okFill, fillMsg := false, "no refill when the window is empty"
		bufLen := int64(-1)
		for _, b := range newConn.Blocks {
			for _, ins := range b.Instrs {
				if st, ok := ins.(*ssa.Store); ok {
					if fa, ok := st.Addr.(*ssa.FieldAddr); ok && fieldName(fa) == "ReadBuf" {
						if sl, ok := st.Val.(*ssa.Slice); ok {
							if al, ok := sl.X.(*ssa.Alloc); ok {
								bufLen = al.Type().Underlying().(*types.Pointer).Elem().Underlying().(*types.Array).Len()
							}
						}
					}
				}
			}
		}
		for _, b := range recv.Blocks {
			for _, ins := range b.Instrs {
				c, ok := ins.(*ssa.Call)
				if !ok || c.Call.StaticCallee() == nil || c.Call.StaticCallee().Name() != "Fill" {
					continue
				}
				x, y, isMin := minOf(c.Call.Args[1])
				if !isMin {
					fillMsg = "the refill request is not min(remaining, C)"
					continue
				}
				var k *ssa.Const
				var other ssa.Value
				switch {
				case remaining(x):
					k, _ = y.(*ssa.Const)
					other = y
				case remaining(y):
					k, _ = x.(*ssa.Const)
					other = x
				}
				// min(remaining, len(ReadBuf)) / cap(ReadBuf): clamped by the buffer itself
				byBuffer := false
				if oc, ok := other.(*ssa.Call); ok && k == nil {
					if bi, ok := oc.Call.Value.(*ssa.Builtin); ok && (bi.Name() == "len" || bi.Name() == "cap") && len(oc.Call.Args) == 1 && isFieldLoad(oc.Call.Args[0], "ReadBuf") {
						byBuffer = true
					}
				}
				switch {
				case byBuffer:
					okFill = true
				case k == nil:
					fillMsg = "the refill request is not min(remaining, C)"
				case bufLen < 0:
					// the buffer is not allocated in NewConn with a constant: whether C fits every allocation
					// is decided by fill-request-within-read-buffer
					okFill = true
				case k.Int64() > bufLen || k.Int64() < 1:
					fillMsg = fmt.Sprintf("the refill asks for up to %d bytes, the read buffer holds %d: Fill can never be satisfied", k.Int64(), bufLen)
				default:
					okFill = true
				}
			}
		}
		switch {
		case !okWin:
			fail("data-window", key, recv, "the bytes taken from ReadBuf are not bounded by min(ReadEnd-ReadStart, remaining)")
		case !okFill:
			fail("data-window", key, recv, fillMsg)
		default:
			run.OK("data-window", key, p.Rel(recv.Pos()), fmt.Sprintf("avail = min(window, remaining); Fill(min(remaining, C)), C <= %d", bufLen))
		}
	}
	run.Count("data-codecs", 2)
	run.Floor("data-codecs", 2)
}

// errNonNilReturns: the error result of the call is returned when non-nil.
func errNonNilReturns(c *ssa.Call) bool {
	for _, r := range *c.Referrers() {
		bo, ok := r.(*ssa.BinOp)
		if !ok || bo.Op != token.NEQ {
			continue
		}
		for _, r2 := range *bo.Referrers() {
			if iff, ok := r2.(*ssa.If); ok {
				t := iff.Block().Succs[0]
				if ret, ok := t.Instrs[len(t.Instrs)-1].(*ssa.Return); ok && load.Results(ret)[len(load.Results(ret))-1] == ssa.Value(c) {
					return true
				}
			}
		}
	}
	return false
}

// ordCmpSSA reads an ordered comparison in either direction: big > small (strict) or big >= small.
func ordCmpSSA(v ssa.Value) (big, small ssa.Value, strict, ok bool) {
	bo, isBin := v.(*ssa.BinOp)
	if !isBin {
		return nil, nil, false, false
	}
	switch bo.Op {
	case token.GTR:
		return bo.X, bo.Y, true, true
	case token.GEQ:
		return bo.X, bo.Y, false, true
	case token.LSS:
		return bo.Y, bo.X, true, true
	case token.LEQ:
		return bo.Y, bo.X, false, true
	}
	return nil, nil, false, false
}
