package props

import (
	"fmt"
	"go/token"
	"go/types"
	"sort"
	"strings"

	"golang.org/x/tools/go/ssa"

	"mpcverif/internal/load"
	"mpcverif/internal/report"
)

// C11duplex: the two directions of a connection share no mutable state.
//
// p2p.Conn has no lock; a session may send from one goroutine and receive in
// another (the property quantifies over both directions concurrently).  That is
// race free, and order preserving per direction, only because the typed
// receives (Receive*, Fill) touch the read-side fields and the typed sends
// (Send*, Flush, NeedSpace) the write-side fields.  The rule computes, through
// the methods of *Conn each of them calls on the same receiver, the fields each
// side writes and reads, and requires that neither side writes a field the
// other side reads or writes.  (Conn.Receive, the OT helper that sends and
// receives, is a composite and belongs to neither side.)
func C11duplex(p *load.Program, run *report.Run) {
	run.Rule("duplex-field-partition", "no field of p2p.Conn written by a receive-side method (Receive<T>, Fill) is read or written by a send-side method (Send<T>, Flush, NeedSpace), and vice versa — transitively through the *Conn methods they call")
	connT, err := p.Type("p2p", "Conn")
	if err != nil {
		run.Undecided("duplex-field-partition", "p2p.Conn", "", err.Error())
		return
	}
	ptr := types.NewPointer(connT)
	ms := p.SSA.MethodSets.MethodSet(ptr)
	methods := map[string]*ssa.Function{}
	for i := 0; i < ms.Len(); i++ {
		if f := p.SSA.MethodValue(ms.At(i)); f != nil && f.Blocks != nil {
			methods[f.Name()] = f
		}
	}
	type eff struct{ r, w map[string]bool }
	memo := map[*ssa.Function]*eff{}
	var effects func(f *ssa.Function, depth int) *eff
	effects = func(f *ssa.Function, depth int) *eff {
		if e, ok := memo[f]; ok {
			return e
		}
		e := &eff{r: map[string]bool{}, w: map[string]bool{}}
		memo[f] = e
		if len(f.Params) == 0 || depth > 6 {
			return e
		}
		recv := f.Params[0]
		st := connT.Underlying().(*types.Struct)
		for _, b := range f.Blocks {
			for _, ins := range b.Instrs {
				switch t := ins.(type) {
				case *ssa.Store:
					if fa := rootField(t.Addr, recv); fa != nil {
						e.w[st.Field(fa.Field).Name()] = true
					}
				case *ssa.UnOp:
					if t.Op == token.MUL {
						if fa := rootField(t.X, recv); fa != nil {
							e.r[st.Field(fa.Field).Name()] = true
						}
					}
				case *ssa.Call:
					// element writes through a slice held in a field: copy(c.WriteBuf[...], ...) and indexed stores are
					// stores through IndexAddr of the loaded slice: treated as writes of the field's contents
					if b, ok := t.Call.Value.(*ssa.Builtin); ok && b.Name() == "copy" && len(t.Call.Args) == 2 {
						if fld := sliceOfField(t.Call.Args[0], recv, st); fld != "" {
							e.w[fld+"[]"] = true
						}
						if fld := sliceOfField(t.Call.Args[1], recv, st); fld != "" {
							e.r[fld+"[]"] = true
						}
					}
					if c := t.Call.StaticCallee(); c != nil && len(t.Call.Args) > 0 && t.Call.Args[0] == ssa.Value(recv) && methods[c.Name()] == c {
						ce := effects(c, depth+1)
						for k := range ce.r {
							e.r[k] = true
						}
						for k := range ce.w {
							e.w[k] = true
						}
					}
				}
			}
		}
		// indexed element stores/loads
		for _, b := range f.Blocks {
			for _, ins := range b.Instrs {
				switch t := ins.(type) {
				case *ssa.Store:
					if ia, ok := t.Addr.(*ssa.IndexAddr); ok {
						if fld := sliceOfField(ia.X, recv, st); fld != "" {
							e.w[fld+"[]"] = true
						}
					}
				case *ssa.UnOp:
					if ia, ok := t.X.(*ssa.IndexAddr); ok && t.Op == token.MUL {
						if fld := sliceOfField(ia.X, recv, st); fld != "" {
							e.r[fld+"[]"] = true
						}
					}
				}
			}
		}
		return e
	}
	side := func(name string) string {
		switch {
		case name == "Fill" || (strings.HasPrefix(name, "Receive") && len(name) > len("Receive")):
			return "receive"
		case name == "Flush" || name == "NeedSpace" || (strings.HasPrefix(name, "Send") && len(name) > len("Send")):
			return "send"
		}
		return ""
	}
	agg := map[string]*eff{"send": {r: map[string]bool{}, w: map[string]bool{}}, "receive": {r: map[string]bool{}, w: map[string]bool{}}}
	who := map[string]map[string]string{"send": {}, "receive": {}}
	var names []string
	for n := range methods {
		names = append(names, n)
	}
	sort.Strings(names)
	for _, n := range names {
		s := side(n)
		if s == "" {
			continue
		}
		run.Count("duplex-methods", 1)
		e := effects(methods[n], 0)
		for k := range e.r {
			agg[s].r[k] = true
		}
		for k := range e.w {
			agg[s].w[k] = true
			if who[s][k] == "" {
				who[s][k] = n
			}
		}
	}
	for _, pair := range [][2]string{{"receive", "send"}, {"send", "receive"}} {
		a, b := pair[0], pair[1]
		var ws []string
		for k := range agg[a].w {
			ws = append(ws, k)
		}
		sort.Strings(ws)
		for _, k := range ws {
			key := fmt.Sprintf("p2p.Conn.%s/written by the %s side", k, a)
			if agg[b].r[k] || agg[b].w[k] || agg[b].r[strings.TrimSuffix(k, "[]")] && strings.HasSuffix(k, "[]") && false {
				run.Violate("duplex-field-partition", key, p.Rel(methods[who[a][k]].Pos()), fmt.Sprintf("%s (first in %s) writes Conn.%s, which the %s side also uses: a goroutine receiving while another sends corrupts it (lost or reordered bytes)", a, who[a][k], k, b), nil)
			} else {
				run.OK("duplex-field-partition", key, p.Rel(methods[who[a][k]].Pos()), "")
			}
		}
	}
	run.Floor("duplex-methods", 14)
}

// rootField: addr is &recv.f (possibly through further field/index addressing).
func rootField(addr ssa.Value, recv ssa.Value) *ssa.FieldAddr {
	for depth := 0; depth < 6; depth++ {
		switch t := addr.(type) {
		case *ssa.FieldAddr:
			if t.X == recv {
				return t
			}
			addr = t.X
		case *ssa.IndexAddr:
			addr = t.X
		default:
			return nil
		}
	}
	return nil
}

// sliceOfField: v is (a slice of) the value loaded from recv.f.
func sliceOfField(v ssa.Value, recv ssa.Value, st *types.Struct) string {
	for depth := 0; depth < 6; depth++ {
		switch t := v.(type) {
		case *ssa.Slice:
			v = t.X
		case *ssa.UnOp:
			if t.Op != token.MUL {
				return ""
			}
			if fa, ok := t.X.(*ssa.FieldAddr); ok && fa.X == recv {
				return st.Field(fa.Field).Name()
			}
			return ""
		default:
			return ""
		}
	}
	return ""
}
