package props

import (
	"fmt"
	"go/constant"
	"go/token"
	"sort"
	"strings"

	"golang.org/x/tools/go/ssa"

	"mpcverif/internal/load"
	"mpcverif/internal/report"
)

// mlin is a linear form over named symbols.
type mlin struct {
	t  map[string]int64
	k  int64
	ok bool
}

func mconst(k int64) mlin { return mlin{t: map[string]int64{}, k: k, ok: true} }
func msym(s string) mlin  { return mlin{t: map[string]int64{s: 1}, ok: true} }
func (a mlin) add(b mlin, sign int64) mlin {
	if !a.ok || !b.ok {
		return mlin{}
	}
	r := mlin{t: map[string]int64{}, k: a.k + sign*b.k, ok: true}
	for s, c := range a.t {
		r.t[s] += c
	}
	for s, c := range b.t {
		r.t[s] += sign * c
	}
	for s, c := range r.t {
		if c == 0 {
			delete(r.t, s)
		}
	}
	return r
}
func (a mlin) String() string {
	if !a.ok {
		return "?"
	}
	var ks []string
	for s := range a.t {
		ks = append(ks, s)
	}
	sort.Strings(ks)
	var sb strings.Builder
	for _, s := range ks {
		fmt.Fprintf(&sb, "%+d*%s", a.t[s], s)
	}
	if a.k != 0 || len(ks) == 0 {
		fmt.Fprintf(&sb, "%+d", a.k)
	}
	return sb.String()
}
func (a mlin) eq(b mlin) bool { return a.ok && b.ok && a.String() == b.String() }

// blockEnv interprets the straight-line stores of a block over the Conn's integer fields.
type blockEnv struct {
	fields map[string]mlin    // current value of c.<field>
	vals   map[ssa.Value]mlin // registers
}

func (e *blockEnv) val(v ssa.Value) mlin {
	if m, ok := e.vals[v]; ok {
		return m
	}
	switch t := v.(type) {
	case *ssa.Const:
		if t.Value != nil && t.Value.Kind() == constant.Int {
			k, _ := constant.Int64Val(t.Value)
			return mconst(k)
		}
	case *ssa.Parameter:
		return msym(t.Name())
	case *ssa.Convert:
		return e.val(t.X)
	case *ssa.BinOp:
		switch t.Op {
		case token.ADD:
			return e.val(t.X).add(e.val(t.Y), 1)
		case token.SUB:
			return e.val(t.X).add(e.val(t.Y), -1)
		}
	case *ssa.Extract:
		return msym(t.Name())
	case *ssa.Call:
		if b, ok := t.Call.Value.(*ssa.Builtin); ok && b.Name() == "len" && len(t.Call.Args) == 1 {
			if f, ok := fieldLoad(t.Call.Args[0]); ok {
				return msym("len(" + f + ")")
			}
		}
	}
	return mlin{}
}

// pathFact is a linear fact d REL 0 known on a path (REL one of < <= == >= >).
type pathFact struct {
	d   mlin
	rel string
}

// factOf: what taking (or not taking) the branch on cond tells.
func (e *blockEnv) factOf(cond ssa.Value, taken bool) (pathFact, bool) {
	bo, ok := cond.(*ssa.BinOp)
	if !ok {
		return pathFact{}, false
	}
	x, y := e.val(bo.X), e.val(bo.Y)
	if !x.ok || !y.ok {
		return pathFact{}, false
	}
	d := x.add(y, -1)
	rel := map[token.Token][2]string{token.LSS: {"<", ">="}, token.LEQ: {"<=", ">"}, token.GTR: {">", "<="}, token.GEQ: {">=", "<"}, token.EQL: {"==", "!="}, token.NEQ: {"!=", "=="}}[bo.Op]
	if rel[0] == "" {
		return pathFact{}, false
	}
	if taken {
		return pathFact{d, rel[0]}, true
	}
	return pathFact{d, rel[1]}, true
}

// impliesNonPositive: the facts include t <= 0 (as t<0, t<=0, t==0, or the mirrored statement about -t).
func impliesNonPositive(facts []pathFact, t mlin) bool {
	for _, f := range facts {
		if f.d.eq(t) && (f.rel == "<" || f.rel == "<=" || f.rel == "==") {
			return true
		}
		if f.d.eq(mconst(0).add(t, -1)) && (f.rel == ">" || f.rel == ">=" || f.rel == "==") {
			return true
		}
	}
	return false
}

// step interprets one instruction; loads read the current field value.
func (e *blockEnv) step(ins ssa.Instruction) {
	switch t := ins.(type) {
	case *ssa.UnOp:
		if f, ok := fieldLoad(t); ok {
			if m, has := e.fields[f]; has {
				e.vals[t] = m
			}
		}
	case *ssa.Store:
		if fa, ok := t.Addr.(*ssa.FieldAddr); ok {
			if _, has := e.fields[fieldName(fa)]; has {
				e.fields[fieldName(fa)] = e.val(t.Val)
			}
		}
	case *ssa.BinOp:
		e.vals[t] = e.val(t)
	}
}

// C11fill: Fill's compaction, append and postcondition.
func C11fill(p *load.Program, run *report.Run) {
	run.Rule("fill-compaction", "before refilling, the unread window ReadBuf[ReadStart:ReadEnd] is moved to where the new ReadStart points and keeps its length; it is dropped only when empty")
	run.Rule("fill-append", "the transport reads into ReadBuf[ReadEnd:] and ReadEnd advances by the count read, either straight after the read (the count is valid whatever the error) or on the success edge")
	run.Rule("fill-post", "Fill returns nil exactly when ReadStart+n <= ReadEnd")
	fn, err := p.Method("p2p", "Conn", "Fill")
	if err != nil {
		run.Undecided("anchor", "p2p.Conn.Fill", "", err.Error())
		return
	}
	key := "p2p.Conn.Fill"
	// the loop header: the block whose If tests ReadStart+n > ReadEnd
	var header *ssa.BasicBlock
	for _, b := range fn.Blocks {
		if blockInCycle(b) {
			if _, ok := b.Instrs[len(b.Instrs)-1].(*ssa.If); ok && (header == nil || b.Dominates(header)) {
				header = b
			}
		}
	}
	if header == nil {
		run.Violate("fill-post", key, p.Rel(fn.Pos()), "no read loop", nil)
		return
	}
	// fill-post
	{
		env := &blockEnv{fields: map[string]mlin{"ReadStart": msym("s"), "ReadEnd": msym("e")}, vals: map[ssa.Value]mlin{}}
		for _, ins := range header.Instrs {
			env.step(ins)
		}
		iff := header.Instrs[len(header.Instrs)-1].(*ssa.If)
		want := msym("s").add(msym(fn.Params[1].Name()), 1).add(msym("e"), -1) // s+n-e > 0 continues the loop
		okPost := false
		if bo, ok := iff.Cond.(*ssa.BinOp); ok {
			var d mlin
			switch bo.Op {
			case token.GTR:
				d = env.val(bo.X).add(env.val(bo.Y), -1)
			case token.LSS:
				d = env.val(bo.Y).add(env.val(bo.X), -1)
			}
			okPost = d.eq(want)
		}
		for _, sb := range successBlocks(fn) {
			if !header.Succs[1].Dominates(sb) {
				okPost = false
			}
		}
		if okPost {
			run.OK("fill-post", key, p.Rel(fn.Pos()), "loop while ReadStart+n > ReadEnd; nil only on its exit")
		} else {
			run.Violate("fill-post", key, p.Rel(fn.Pos()), "the read loop does not run exactly while ReadStart+n > ReadEnd, or success is reachable from elsewhere", nil)
		}
	}
	// fill-compaction: every path from the entry to the loop header
	paths := 0
	var walk func(b *ssa.BasicBlock, env *blockEnv, cond []string, copies []string, facts []pathFact)
	walk = func(b *ssa.BasicBlock, env *blockEnv, cond []string, copies []string, facts []pathFact) {
		if b == header {
			paths++
			s2, e2 := env.fields["ReadStart"], env.fields["ReadEnd"]
			length := e2.add(s2, -1)
			pk := fmt.Sprintf("%s/path[%s]", key, strings.Join(cond, ","))
			switch {
			case !s2.ok || !e2.ok:
				run.Undecided("fill-compaction", pk, p.Rel(fn.Pos()), "window after compaction is not a linear form")
			case len(copies) == 1:
				// moved [s:e] to dst low; need dst low == new ReadStart and length preserved
				want := msym("e").add(msym("s"), -1)
				if copies[0] == "src=[+1*s:+1*e] dst="+s2.String() && length.eq(want) {
					run.OK("fill-compaction", pk, p.Rel(fn.Pos()), fmt.Sprintf("window moved to %s, length %s", s2, length))
				} else {
					run.Violate("fill-compaction", pk, p.Rel(fn.Pos()), fmt.Sprintf("after the move ReadStart=%s ReadEnd=%s (%s): unread bytes are lost or stale bytes are exposed", s2, e2, copies[0]), nil)
				}
			case len(copies) == 0:
				// window dropped or kept in place
				want := msym("e").add(msym("s"), -1)
				empty := impliesNonPositive(facts, msym("e").add(msym("s"), -1))
				switch {
				case length.eq(want) && s2.eq(msym("s")):
					// kept in place: sound only if the request still fits behind ReadStart — the path must carry
					// the test ReadStart+n <= len(ReadBuf) (in any spelling)
					fits := impliesNonPositive(facts, msym("s").add(msym(fn.Params[1].Name()), 1).add(msym("len(ReadBuf)"), -1))
					if !fits {
						run.Violate("fill-compaction", pk, p.Rel(fn.Pos()), "the unread window is kept in place on a path that does not establish ReadStart+n <= len(ReadBuf): when the request does not fit behind ReadStart the loop reads into an empty slice forever", nil)
						break
					}
					run.OK("fill-compaction", pk, p.Rel(fn.Pos()), "window kept in place, the request fits behind it")
				case length.eq(mconst(0)) && empty:
					run.OK("fill-compaction", pk, p.Rel(fn.Pos()), "empty window reset")
				default:
					run.Violate("fill-compaction", pk, p.Rel(fn.Pos()), fmt.Sprintf("window becomes [%s,%s) without moving the unread bytes", s2, e2), nil)
				}
			default:
				run.Undecided("fill-compaction", pk, p.Rel(fn.Pos()), "more than one copy on a path")
			}
			return
		}
		for _, ins := range b.Instrs {
			env.step(ins)
			if c, ok := builtinCall(ins, "copy"); ok {
				dst, okD := c.Call.Args[0].(*ssa.Slice)
				src, okS := c.Call.Args[1].(*ssa.Slice)
				whole := isFieldLoad(c.Call.Args[0], "ReadBuf") // copy(c.ReadBuf, ...): offset 0
				if (whole || (okD && isFieldLoad(dst.X, "ReadBuf"))) && okS && isFieldLoad(src.X, "ReadBuf") && src.Low != nil && src.High != nil {
					lo := mconst(0)
					if !whole && dst.Low != nil {
						lo = env.val(dst.Low)
					}
					copies = append(copies, fmt.Sprintf("src=[%s:%s] dst=%s", env.val(src.Low), env.val(src.High), lo))
				} else {
					copies = append(copies, "unrecognised copy")
				}
			}
		}
		if iff, ok := b.Instrs[len(b.Instrs)-1].(*ssa.If); ok {
			c := "?"
			if bo, ok := iff.Cond.(*ssa.BinOp); ok {
				c = env.val(bo.X).String() + bo.Op.String() + env.val(bo.Y).String()
				c = strings.NewReplacer("+1*", "").Replace(c)
			}
			for i, s := range b.Succs {
				ne := &blockEnv{fields: map[string]mlin{}, vals: map[ssa.Value]mlin{}}
				for k, v := range env.fields {
					ne.fields[k] = v
				}
				cc := c
				if i == 1 {
					cc = "!(" + c + ")"
				}
				nf := append([]pathFact{}, facts...)
				if f, ok := env.factOf(iff.Cond, i == 0); ok {
					nf = append(nf, f)
				}
				walk(s, ne, append(append([]string{}, cond...), cc), append([]string{}, copies...), nf)
			}
			return
		}
		for _, s := range b.Succs {
			walk(s, env, cond, copies, facts)
		}
	}
	walk(fn.Blocks[0], &blockEnv{fields: map[string]mlin{"ReadStart": msym("s"), "ReadEnd": msym("e")}, vals: map[ssa.Value]mlin{}}, nil, nil, nil)
	run.Count("compaction-paths", paths)
	run.Floor("compaction-paths", 2)
	// fill-append
	okAppend := false
	for _, b := range fn.Blocks {
		for _, ins := range b.Instrs {
			c, ok := ins.(*ssa.Call)
			if !ok || !c.Call.IsInvoke() || c.Call.Method.Name() != "Read" {
				continue
			}
			sl, ok := c.Call.Args[0].(*ssa.Slice)
			if !ok || !isFieldLoad(sl.X, "ReadBuf") || sl.Low == nil || !isFieldLoad(sl.Low, "ReadEnd") || sl.High != nil {
				run.Violate("fill-append", key, p.Rel(c.Pos()), "the transport does not read into ReadBuf[ReadEnd:]", nil)
				return
			}
			var got, errV ssa.Value
			for _, r := range *c.Referrers() {
				if ex, ok := r.(*ssa.Extract); ok {
					if ex.Index == 0 {
						got = ex
					} else {
						errV = ex
					}
				}
			}
			for _, b2 := range fn.Blocks {
				for _, i2 := range b2.Instrs {
					if st, ok := i2.(*ssa.Store); ok {
						if fa, ok := st.Addr.(*ssa.FieldAddr); ok && fieldName(fa) == "ReadEnd" {
							if bo, ok := st.Val.(*ssa.BinOp); ok && bo.Op == token.ADD && isFieldLoad(bo.X, "ReadEnd") && bo.Y == got && errV != nil && (errNilAt(errV, b2) || b2 == c.Block()) {
								okAppend = true
							}
						}
					}
				}
			}
		}
	}
	if okAppend {
		run.OK("fill-append", key, p.Rel(fn.Pos()), "Read(ReadBuf[ReadEnd:]); ReadEnd += got")
	} else {
		run.Violate("fill-append", key, p.Rel(fn.Pos()), "ReadEnd does not advance by the count read", nil)
	}
	_ = load.Module
}
